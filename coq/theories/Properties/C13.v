(** * C13 — the command line tool writes, per tile matrix, what the library computes.

    Theorems about the executable model Cli/Model.v of main.go, composed with the writer model of C12.
    The snapping library and the processing pipeline are PARAMETERS here ([snap], [pipeline]: the
    models of the Snap and Pipe areas, C01-C09 / C10-C11): C13 says that the tool is exactly their
    composition with path construction, flag plumbing, per-table sequencing and overwrite.

    PARTIAL in this sense — modelled, not verified: urfave/cli (flag parsing), the file system
    (a finite map path -> GeoPackage content; os.Remove / gpkg.Open), package path, strings.ReplaceAll and
    fmt.Sprintf (re-implemented in Cli/Model.v and held to Go's by the PathCase / FmtCase correspondence), SQLite and the
    GeoPackage library (Gpkg/Model.v).  The weight of C13 is on the end-to-end correspondence
    (Corr/C13.v): the REAL binary on random source GeoPackages against this composition with the
    library's observed results as the oracle function. *)
From Coq Require Import ZArith NArith List Bool String Ascii.
From Texel Require Import Gpkg.Model Gpkg.Proofs Cli.Model Cli.Proofs Cli.ProofsRows Cli.Ref.
Import ListNotations.
Open Scope Z_scope.

(** for EVERY target path -- any characters: '%', "%v", "%%", "%20", a '%' at the end, unclean "a//b/../c" -- the
    target of tile matrix [id] is the given path with "_<id>" inserted before the extension of its last element
    ([target_path], Cli/Model.v: Split, Ext, the slice and Join with Clean on the path AS GIVEN, no format involved).
    injectSuffixIntoPath doubles the percent signs and builds a FORMAT from the escaped path; the theorem says that
    doubling commutes with Split / Ext / the slice / Clean (no slash and no dot is touched), and that fmt.Sprintf is
    always inside its model on that format and undoes the doubling.  (F21: before the repair this needed "no '%' in
    the path", and the real tool failed on such paths.) *)
Theorem C13_target_path_total : forall p id, inject p id = Some (target_path p id).
Proof. exact inject_spec. Qed.
Print Assumptions C13_target_path_total.

(** the format itself, for every path: the cleaned directory and the name with the percent signs doubled, "_%v", the
    extension with the percent signs doubled *)
Theorem C13_target_format_shape : forall p,
  inject_format p =
  escape_percent (clean_dir (fst (path_split p)) ++ strip_ext (snd (path_split p)) ++ s_ "_") ++ s_ "%v" ++
  escape_percent (path_ext (snd (path_split p))).
Proof. exact inject_format_shape. Qed.
Print Assumptions C13_target_format_shape.

(** so no run of the model ends because of the characters of the target path *)
Theorem C13_never_unsafe_path : forall sfeat snapfun snap pipeline (a : args sfeat) fs0,
  cli_run sfeat snapfun snap pipeline a fs0 <> CErr UnsafePath.
Proof. exact cli_run_never_unsafe_path. Qed.
Print Assumptions C13_never_unsafe_path.

(** for a path made of proper elements (directory elements non-empty, not "." / ".."; name and extension
    without '/', the extension being the part from the last dot; ANY other character, '%' included) the target of
    tile matrix [id] is dir/name_<id>ext -- for every directory depth, rooted or relative, with or without extension *)
Theorem C13_target_path_spec : forall rooted comps n e id,
  Forall comp_ok comps -> name_ok n e -> ext_ok e ->
  inject (render_dir rooted comps ++ n ++ e) id = Some (render_dir rooted comps ++ n ++ s_ "_" ++ dec id ++ e).
Proof. exact target_path_spec. Qed.
Print Assumptions C13_target_path_spec.

(** decimal printing of ids is injective ... *)
Theorem C13_dec_injective : forall a b, dec a = dec b -> a = b.
Proof. exact dec_injective. Qed.
Print Assumptions C13_dec_injective.

(** ... so distinct tile matrix ids never share a target file — for ANY target path the model handles *)
Theorem C13_target_paths_distinct : forall p id id' r,
  inject p id = Some r -> inject p id' = Some r -> id = id'.
Proof. exact target_paths_distinct. Qed.
Print Assumptions C13_target_paths_distinct.

(** which flag reaches which option of snap.Config *)
Theorem C13_flag_plumbing : forall o p k i r,
  snap_config_of (MkFlags o p k i r) = MkSnapCfg k i r.
Proof. exact flag_plumbing. Qed.
Print Assumptions C13_flag_plumbing.

(** the validateTileMatrixSet gate: nothing is opened, removed or created before it *)
Theorem C13_validation_gate : forall sfeat snapfun snap pipeline (a : args sfeat) fs,
  a_tms_ok a = false -> cli_run sfeat snapfun snap pipeline a fs = CErr InvalidTms.
Proof. exact validation_gate. Qed.
Print Assumptions C13_validation_gate.

(** a successful run creates exactly one file per requested id, at [inject target id]; its content is
    the composition, table after table in source order, of writer . route id . pipeline (snap cfg);
    every other path of the file system is untouched.  (The code loops tables outside and targets
    inside, concurrently; the theorem is the loop interchange.)  The id list may name an id more than once:
    the pipeline is asked for the DISTINCT ids (processing.ProcessFeatures takes them from the map of targets). *)
Theorem C13_cli_composition : forall sfeat snapfun snap pipeline (a : args sfeat) src fs0 fs',
  a_source a = Some src ->
  cli_run sfeat snapfun snap pipeline a fs0 = COk fs' ->
  (forall id, In id (a_ids a) -> exists path d,
      inject (a_target a) id = Some path /\
      file_content sfeat snapfun snap pipeline (a_flags a) src (distinct_ids (a_ids a)) id (start_content (a_flags a) fs0 path) = COk d /\
      fs_lookup path fs' = Some d) /\
  (forall q, (forall id, In id (a_ids a) -> inject (a_target a) id <> Some q) -> fs_lookup q fs' = fs_lookup q fs0).
Proof. exact cli_composition. Qed.
Print Assumptions C13_cli_composition.

(** an id list with repetitions ("[6,5,6]") is the run on its distinct ids ("[5,6]"): the targets are the keys of a
    map, so there is one target -- by C13_target_paths_distinct one file -- per DISTINCT requested id *)
Theorem C13_duplicate_ids_one_file_each : forall sfeat snapfun snap pipeline (a : args sfeat) fs0,
  NoDup (distinct_ids (a_ids a)) /\
  (forall id, In id (distinct_ids (a_ids a)) <-> In id (a_ids a)) /\
  cli_run sfeat snapfun snap pipeline a fs0 =
  cli_run sfeat snapfun snap pipeline (MkArgs (a_tms_ok a) (a_source a) (a_target a) (distinct_ids (a_ids a)) (a_flags a)) fs0.
Proof. exact duplicate_ids_one_file_each. Qed.
Print Assumptions C13_duplicate_ids_one_file_each.

(** what a new (or overwritten) target file holds: every table is registered as in the source, and
    table t of the file of [id] has one row per feature the pipeline delivers to [id] for t, in
    delivery order, with its attributes and the delivered geometry; extent and rtree as in C12.
    [fits] = the pipeline delivers features that keep the columns of a row of that table. *)
Theorem C13_file_rows : forall sfeat snapfun snap pipeline fl (src : source sfeat) ids id d,
  0 < fl_pagesize fl ->
  Forall table_ok (map fst src) -> NoDup (map t_name (map fst src)) ->
  (forall t t', In t (map fst src) -> In t' (map fst src) -> s_id (t_srs t) = s_id (t_srs t') -> t_srs t = t_srs t') ->
  (forall tf msgs f, In tf src -> pipeline (snap (snap_config_of fl)) ids (snd tf) = Some msgs ->
                     In f (route id msgs) -> fits (fst tf) f = true) ->
  file_content sfeat snapfun snap pipeline fl src ids id empty_db = COk d ->
  map ts_desc (db_tabs d) = map desc_of (map fst src) /\
  forall tf, In tf src -> exists msgs rs ts,
    pipeline (snap (snap_config_of fl)) ids (snd tf) = Some msgs /\
    find_tab (t_name (fst tf)) (db_tabs d) = Some ts /\
    ts_rows ts = rs /\ map (row_of (fst tf)) (route id msgs) = map Some rs /\
    ts_extent ts = pts_ext (all_pts (route id msgs)) /\
    ts_rtree ts = rtree_of 0 (route id msgs) /\
    ts_desc ts = desc_of (fst tf).
Proof. exact file_content_rows. Qed.
Print Assumptions C13_file_rows.

(** with -overwrite nothing of a pre-existing target file survives: whatever the file system held, the
    run succeeds equally and leaves the same content in every target file *)
Theorem C13_overwrite_forgets : forall sfeat snapfun snap pipeline (a : args sfeat) fs0 fs0' fs1,
  fl_overwrite (a_flags a) = true ->
  cli_run sfeat snapfun snap pipeline a fs0 = COk fs1 ->
  exists fs1', cli_run sfeat snapfun snap pipeline a fs0' = COk fs1' /\
    forall id path, In id (a_ids a) -> inject (a_target a) id = Some path ->
      fs_lookup path fs1 = fs_lookup path fs1' /\ fs_lookup path fs1 <> None.
Proof. exact overwrite_forgets. Qed.
Print Assumptions C13_overwrite_forgets.

(** ** Non-vacuity *)

Example C13_example_paths :
  Forall comp_ok [s_ "out"; s_ "v1.2"] /\ name_ok (s_ "nl.tiles") (s_ ".gpkg") /\ ext_ok (s_ ".gpkg") /\
  Forall comp_ok [s_ "out%20dir"] /\ name_ok (s_ "x%v") (s_ ".gp%kg") /\ ext_ok (s_ ".gp%kg") /\
  inject (s_ "/out/v1.2/nl.tiles.gpkg") 14 = Some (s_ "/out/v1.2/nl.tiles_14.gpkg") /\
  inject (s_ "target") 5 = Some (s_ "target_5") /\
  inject (s_ "a//b/../x.tar.gz") 0 = Some (s_ "a/x.tar_0.gz") /\
  inject (s_ "100%.gpkg") 5 = Some (s_ "100%_5.gpkg") /\
  inject (s_ "out%20dir/x%v.gp%kg") 7 = Some (s_ "out%20dir/x%v_7.gp%kg") /\
  inject (s_ "%") (-3) = Some (s_ "%_-3") /\
  inject (s_ "a%%/./%.%") 12 = Some (s_ "a%%/%_12.%").
Proof.
  assert (S : forall s, Forall (fun c => Ascii.eqb c slash = false) s -> Forall safe_char s).
  { intros s H. eapply Forall_impl; [|exact H]. intros c H1. now apply Ascii.eqb_neq. }
  assert (P : forall s, Forall (fun c => Ascii.eqb c slash = false /\ Ascii.eqb c dot = false) s -> Forall plain_char s).
  { intros s H. eapply Forall_impl; [|exact H]. intros c [H1 H3]. split; now apply Ascii.eqb_neq. }
  split; [|split; [|split; [|split; [|split; [|split]]]]].
  - repeat constructor; try discriminate; apply S; repeat constructor.
  - split; [apply S; repeat constructor|discriminate].
  - right. exists (s_ "gpkg"). split; [reflexivity|]. apply P. repeat constructor.
  - repeat constructor; try discriminate; apply S; repeat constructor.
  - split; [apply S; repeat constructor|discriminate].
  - right. exists (s_ "gp%kg"). split; [reflexivity|]. apply P. repeat constructor.
  - vm_compute. repeat split.
Qed.

(** F21: `texel -t 'out%20dir/x%v.gpkg' -z '[5]'`.  The repaired tool writes out%20dir/x%v_5.gpkg ... *)
Example C13_regression_F21 :
  inject (s_ "out%20dir/x%v.gpkg") 5 = Some (s_ "out%20dir/x%v_5.gpkg") /\
  inject_format (s_ "out%20dir/x%v.gpkg") = s_ "out%%20dir/x%%v_%v.gpkg" /\
  target_path (s_ "out%20dir/x%v.gpkg") 5 = s_ "out%20dir/x%v_5.gpkg".
Proof. vm_compute. repeat split. Qed.

(** ... and the PRE-REPAIR reading (injectSuffixIntoPath without its first statement: [inject_format_raw]) handed
    fmt.Sprintf the format out%20dir/x%v_%v.gpkg: outside the model ("%20d" is a verb with a width: the real tool asked
    for a file in a directory "out<19 blanks>5ir" and could not open it); likewise a '%' before the extension, a '%' at the
    end, a "%v" of the path's own (two verbs for one argument).  Paths without '%' were never affected. *)
Example C13_F21_pre_repair_outside_model :
  inject_format_raw (s_ "out%20dir/x%v.gpkg") = s_ "out%20dir/x%v_%v.gpkg" /\
  sprintf_v (inject_format_raw (s_ "out%20dir/x%v.gpkg")) 5 = None /\
  sprintf_v (inject_format_raw (s_ "100%.gpkg")) 5 = None /\
  sprintf_v (inject_format_raw (s_ "x.gpkg%")) 5 = None /\
  sprintf_v (inject_format_raw (s_ "x%v.gpkg")) 5 = None /\
  sprintf_v (inject_format_raw (s_ "out/nl.gpkg")) 5 = Some (s_ "out/nl_5.gpkg").
Proof. vm_compute. repeat split. Qed.

(** a two-table source, two tile matrices, page size 2: the polygon table's features are kept / split /
    dropped differently per tile matrix, the point table is copied *)
Definition ex_srs : srs := MkSrs "Amersfoort / RD New" 28992 "EPSG" 28992 7 "".
Definition ex_poly : table := MkTable "parcels" [MkCol "fid" "INTEGER" true 1; MkCol "geom" "POLYGON" false 0; MkCol "name" "TEXT" false 0] "geom" 3 ex_srs.
Definition ex_pts : table := MkTable "poi" [MkCol "fid" "INTEGER" true 1; MkCol "geom" "POINT" false 0] "geom" 1 ex_srs.
Definition g (k : N) : geom := MkGeom 3 [(0, 0); (4, 0); (4, 4)] k.
Definition ex_src : list (table * list rfeat) := [
  (ex_poly, [MkRFeat [VInt 1; VText 1] (Some [(5, g 15); (6, g 16)]);       (* kept in both *)
             MkRFeat [VInt 2; VText 2] (Some [(6, MkGeom 6 [(0, 0)] 26)]);   (* dropped at 5, split (multipolygon) at 6 *)
             MkRFeat [VInt 3; VNull] (Some [])]);                            (* dropped in both *)
  (ex_pts, [MkRFeat [VInt 7] (Some [(5, MkGeom 1 [(1, 1)] 9); (6, MkGeom 1 [(1, 1)] 9)])])].
Definition ex_cfg : snapcfg := MkSnapCfg true false false.
Definition ex_args_ids (ids : list Z) (overwrite : bool) : args rfeat :=
  MkArgs true (Some ex_src) (s_ "out/nl.gpkg") ids (MkFlags overwrite 2 true false false).
Definition ex_args : bool -> args rfeat := ex_args_ids [5; 6].

Definition rows_at (r : cres fsys) (path table : string) : option (list row) :=
  match r with
  | COk fs => match fs_lookup (s_ path) fs with
              | Some d => option_map ts_rows (find_tab table (db_tabs d))
              | None => None
              end
  | CErr _ => None
  end.

Example C13_example_run :
  let r := ref_cli_run ex_cfg (ex_args false) [] in
  rows_at r "out/nl_5.gpkg" "parcels" = Some [[CVal (VInt 1); CGeom (g 15); CVal (VText 1)]] /\
  rows_at r "out/nl_6.gpkg" "parcels" = Some [[CVal (VInt 1); CGeom (g 16); CVal (VText 1)];
                                              [CVal (VInt 2); CGeom (MkGeom 6 [(0, 0)] 26); CVal (VText 2)]] /\
  rows_at r "out/nl_5.gpkg" "poi" = Some [[CVal (VInt 7); CGeom (MkGeom 1 [(1, 1)] 9)]] /\
  rows_at r "out/nl_6.gpkg" "poi" = Some [[CVal (VInt 7); CGeom (MkGeom 1 [(1, 1)] 9)]] /\
  rows_at r "out/nl.gpkg" "poi" = None /\
  (* a wrong flag plumbing would be seen: the library was asked under another configuration *)
  ref_cli_run (MkSnapCfg false true false) (ex_args false) [] = CErr PipelinePanic.
Proof. vm_compute. repeat split. Qed.

(** tile matrix 6 named twice: the files, and nothing else, of the run on [5; 6] *)
Example C13_example_duplicate_ids :
  distinct_ids [6; 5; 6] = [5; 6] /\
  match ref_cli_run ex_cfg (ex_args_ids [6; 5; 6] false) [], ref_cli_run ex_cfg (ex_args false) [] with
  | COk fs, COk fs' =>
      List.length fs = 2%nat /\
      rows_at (COk fs) "out/nl_6.gpkg" "parcels" = rows_at (COk fs') "out/nl_6.gpkg" "parcels" /\
      rows_at (COk fs) "out/nl_5.gpkg" "parcels" = Some [[CVal (VInt 1); CGeom (g 15); CVal (VText 1)]]
  | _, _ => False
  end.
Proof. vm_compute. repeat split. Qed.

(** F18 - F20 and the source order at the level of the tool: a point table -- a row-for-row copy -- whose columns are named by
    an SQL keyword, with a space and with a double quote, whose key is no rowid alias and NOT in the order of the rows (40, 10,
    30), with a BLOB column (the second row holds the TEXT with the same content id, the third a blob again) and a BOOLEAN
    column (the Go bools the reader passes on are the integers 1 / 0 the driver binds them as): every target file holds
    the rows in the SOURCE's order, blob as blob, text as text, 1 / 0 / NULL *)
Definition ex_kinds : table :=
  MkTable "poi q" [MkCol "order" "INT" true 1; MkCol "select" "POINT" false 0; MkCol "street name" "BLOB" false 0;
                   MkCol "a""b" "BOOLEAN" false 0] "select" 1 ex_srs.
Definition ex_kinds_src : list (table * list rfeat) := [
  (ex_kinds, [MkRFeat [VInt 40; VBlob 6; VInt 1] (Some [(5, MkGeom 1 [(1, 1)] 9); (6, MkGeom 1 [(1, 1)] 9)]);
              MkRFeat [VInt 10; VText 6; VInt 0] (Some [(5, MkGeom 1 [(2, 2)] 10); (6, MkGeom 1 [(2, 2)] 10)]);
              MkRFeat [VInt 30; VBlob 0; VNull] (Some [(5, MkGeom 1 [(3, 3)] 11); (6, MkGeom 1 [(3, 3)] 11)])])].

Example C13_regression_F18_F19_F20 :
  let r := ref_cli_run ex_cfg (MkArgs true (Some ex_kinds_src) (s_ "out/nl.gpkg") [5; 6] (MkFlags false 2 true false false)) [] in
  rows_at r "out/nl_5.gpkg" "poi q" =
    Some [[CVal (VInt 40); CGeom (MkGeom 1 [(1, 1)] 9); CVal (VBlob 6); CVal (VInt 1)];
          [CVal (VInt 10); CGeom (MkGeom 1 [(2, 2)] 10); CVal (VText 6); CVal (VInt 0)];
          [CVal (VInt 30); CGeom (MkGeom 1 [(3, 3)] 11); CVal (VBlob 0); CVal VNull]] /\
  rows_at r "out/nl_6.gpkg" "poi q" = rows_at r "out/nl_5.gpkg" "poi q" /\
  value_eqb (VBlob 6) (VText 6) = false.
Proof. vm_compute. repeat split. Qed.

(** overwrite: a second run over the files of a first run (other page size, other content) leaves the
    same files as a run on an empty directory; without overwrite it fails (tables exist) *)
Example C13_example_overwrite :
  match ref_cli_run ex_cfg (ex_args false) [] with
  | COk fs1 =>
      (exists fs2, ref_cli_run ex_cfg (ex_args true) fs1 = COk fs2 /\
         rows_at (COk fs2) "out/nl_6.gpkg" "parcels" = rows_at (COk fs1) "out/nl_6.gpkg" "parcels") /\
      ref_cli_run ex_cfg (ex_args false) fs1 = CErr (Gpkg TableExists)
  | CErr _ => False
  end.
Proof. vm_compute. split; [eexists; split; reflexivity|reflexivity]. Qed.

(** ** tie G (CLI glue), extracted from the AST of main.go on this run: every flag feeds the option of the same
    name (keep / ignore-outside / reverse -> snap.Config, overwrite, page size), and the target file suffix is
    "_" followed by the tile matrix id (the [s_ "_" ++ dec id] of C13_target_path_spec) *)
From Coq Require Import String.
From Texel.Gen Require Import CliGen.
Theorem C13_source_tie :
  gen_flag_map = [("KeepPointsAndLines", "Bool:keeppointsandlines"); ("IgnoreOutsideGrid", "Bool:ignoreoutsidegrid");
                  ("ReverseWindingOrder", "Bool:reversewindingorder"); ("overwrite", "Bool:overwrite");
                  ("pagesize", "Int:pagesize")]%string /\
  gen_suffix_format = "_%v"%string /\ gen_inject_shape = true /\ gen_validate_quadtree_first = true.
Proof. repeat split; reflexivity. Qed.
Print Assumptions C13_source_tie.

(** ** tie G2 (command line tool): FUNCTIONS regenerated from /repo/main.go on this run (gen/CliMainGen.v, translator/climain.go).

    REGENERATED, statement by statement from the AST: [injectSuffixIntoPath], [initGPKGTarget], [validateTileMatrixSet],
    [processBySnapping], the [app.Action] function literal and the end of [main] (app.Run, log.Fatal): control flow, the order
    of the calls, every error exit ([return err] -> log.Fatal in main; log.Fatalf), which flag is read for which argument, the
    map of targets (one target per DISTINCT id), overwrite handling (os.Remove, ENOENT tolerated), the per-table loop, the defers.
    STAYS MODELLED (Cli/MainOps.v; each call is accepted only in the exact shape listed at the top of gen/CliMainGen.v):
    package path (Split / Ext / Join with Clean), strings.ReplaceAll with the literals of the source, fmt.Sprintf with %% and
    one %v, urfave/cli (the context = the value of every flag by
    name; app.Run calls the Action), the file system as finite maps, gpkg.SourceGeopackage / gpkg.TargetGeopackage (objects on
    a heap, their content in the file system, CreateTables / the writer = Gpkg/Model.v), Go maps (keys in the order of their
    last assignment), and — as fields of an abstract [lib], so for EVERY implementation of them — tms20.LoadEmbeddedTileMatrixSet,
    json.Unmarshal, pointindex.IsQuadTree / DeviationStats, snap.SnapPolygon and processing.ProcessFeatures. *)
From Texel Require Import Cli.MainOps Cli.ProofsGenMain.
From Texel.Gen Require Import CliMainGen.
Open Scope list_scope.

(** injectSuffixIntoPath of main.go IS the model's [inject_format], for all strings *)
Theorem C13_source_tie_inject_suffix : forall p, gen_injectSuffixIntoPath p = MOk (inject_format p).
Proof. exact gen_injectSuffixIntoPath_spec. Qed.
Print Assumptions C13_source_tie_inject_suffix.

(** so C13_target_path_total speaks about the source text: injectSuffixIntoPath, then fmt.Sprintf as in initGPKGTarget,
    for EVERY given path (the format is never outside the model of fmt.Sprintf) ... *)
Theorem C13_target_path_total_source : forall p id,
  (mdo f <- gen_injectSuffixIntoPath p; op_Sprintf f id) = MOk (target_path p id).
Proof. exact target_path_total_gen. Qed.
Print Assumptions C13_target_path_total_source.

(** ... and so does C13_target_path_spec (no condition on '%' any more) *)
Theorem C13_target_path_spec_source : forall rooted comps n e id,
  Forall comp_ok comps -> name_ok n e -> ext_ok e ->
  (mdo f <- gen_injectSuffixIntoPath (render_dir rooted comps ++ n ++ e); op_Sprintf f id) =
  MOk (render_dir rooted comps ++ n ++ s_ "_" ++ dec id ++ e).
Proof. exact target_path_spec_gen. Qed.
Print Assumptions C13_target_path_spec_source.

(** validateTileMatrixSet of main.go returns nil exactly when: IsQuadTree passes, at least one id is given, every id names a
    tile matrix of the set, and DeviationStats of the MAXIMAL id passes; every error it returns is one of these *)
Theorem C13_source_tie_validate : forall (L : lib) (t : l_tms L) (ids : list Z),
  exists e, gen_validateTileMatrixSet L t ids = MOk e /\
    is_nil e = (is_nil (l_IsQuadTree L t) && negb (Nat.eqb (List.length ids) 0) && forallb (l_HasMatrix L t) ids &&
                is_nil (snd (l_DeviationStats L t (max_id ids)))) /\
    (is_nil e = false -> tms_error e).
Proof. exact gen_validateTileMatrixSet_spec. Qed.
Print Assumptions C13_source_tie_validate.

(** the whole tool: main of main.go, run on a context [c] (the flags), a file system [fs0] and source GeoPackages [srcs]
    (table names distinct per source, as SQLite guarantees), ends as the model's [cli_run] on [args_of] — the same files
    (as finite maps) on success, the same verdict on every abnormal end — for every library [L].  [args_of] says which flag
    feeds which argument: -tilematrixset / -tilematrices load, parse and validate; -sourceGpkg; -targetGpkg; the ids as
    listed; overwrite / pagesize / keeppointsandlines / ignoreoutsidegrid / reversewindingorder *)
Theorem C13_source_tie_main : forall (L : lib) (c : cctx) (fs0 : fsys) (srcs : srcfs L),
  (forall src, src_lookup L (cx_String c "sourceGpkg") srcs = Some src -> NoDup (map t_name (map fst src))) ->
  match gen_main L (MkWorld fs0 srcs []) c,
        cli_run (l_sfeat L) (l_poly L -> list Z -> l_sres L)
                (fun cfg p ids => l_SnapPolygon L p (fst (l_LoadTms L (cx_String c "tilematrixset"))) ids cfg)
                (l_pipeline L)
                (MkArgs (is_nil (snd (l_LoadTms L (cx_String c "tilematrixset"))) &&
                         is_nil (snd (l_Unmarshal L (cx_String c "tilematrices"))) &&
                         validate_ok L (fst (l_LoadTms L (cx_String c "tilematrixset"))) (fst (l_Unmarshal L (cx_String c "tilematrices"))))
                        (src_lookup L (cx_String c "sourceGpkg") srcs)
                        (cx_String c "targetGpkg")
                        (fst (l_Unmarshal L (cx_String c "tilematrices")))
                        (MkFlags (cx_Bool c "overwrite") (cx_Int c "pagesize") (cx_Bool c "keeppointsandlines")
                                 (cx_Bool c "ignoreoutsidegrid") (cx_Bool c "reversewindingorder")))
                fs0 with
  | MOk w, COk fs => forall q, fs_lookup q (mw_fs w) = fs_lookup q fs
  | MErr e, CErr e' => verdict e = Some e'
  | _, _ => False
  end.
Proof. exact source_tie_main. Qed.
Print Assumptions C13_source_tie_main.

(** main of main.go never ends because fmt.Sprintf was handed a format outside the model (F21: it did for every target
    path with a '%') *)
Theorem C13_source_never_unsafe_format : forall (L : lib) (c : cctx) (fs0 : fsys) (srcs : srcfs L),
  (forall src, src_lookup L (cx_String c "sourceGpkg") srcs = Some src -> NoDup (map t_name (map fst src))) ->
  gen_main L (MkWorld fs0 srcs []) c <> MErr UnsafeFormat.
Proof. exact gen_main_never_unsafe_format. Qed.
Print Assumptions C13_source_never_unsafe_format.

(** every flag the Action reads is declared in app.Flags with the kind of its accessor; the flags read are exactly those of
    the statement above; -pagesize defaults to 1000 *)
Theorem C13_source_tie_flags :
  forallb flag_declared gen_flag_uses = true /\
  forallb (fun n => existsb (fun u => String.eqb (snd u) n) gen_flag_uses)
          ["tilematrixset"; "tilematrices"; "sourceGpkg"; "targetGpkg"; "overwrite"; "pagesize";
           "keeppointsandlines"; "ignoreoutsidegrid"; "reversewindingorder"]%string = true /\
  forallb (fun u : string * string =>
             existsb (String.eqb (snd u))
                     ["tilematrixset"; "tilematrices"; "sourceGpkg"; "targetGpkg"; "overwrite"; "pagesize";
                      "keeppointsandlines"; "ignoreoutsidegrid"; "reversewindingorder"]%string) gen_flag_uses = true /\
  existsb (fun d : string * string * bool * string =>
             String.eqb (fst (fst (fst d))) "pagesize" && String.eqb (snd d) "1000") gen_flag_decls = true.
Proof. exact (conj flags_used_are_declared flags_used_by_args_of). Qed.
Print Assumptions C13_source_tie_flags.

(** the regenerated program RUNS: the library of Cli/Ref.v (recorded snapping results), the two-table source of the examples
    above, `-z [6,5,6] -pagesize 2 -keeppointsandlines` on an empty directory *)
Definition ex_lib (recorded : snapcfg) : lib :=
  MkLib rfeat unit unit bool unit unit
    (fun name => (tt, if str_eqb name (s_ "NetherlandsRDNewQuad") then None else Some "unknown tile matrix set"%string))
    (fun s => if str_eqb s (s_ "[6,5,6]") then ([6; 5; 6], None)
              else if str_eqb s (s_ "[5,6]") then ([5; 6], None) else ([], Some "invalid character"%string))
    (fun _ => None) (fun _ id => (0 <=? id) && (id <=? 14)) (fun _ _ => (tt, tt, tt, None))
    (fun _ _ _ cfg => ref_snap recorded cfg)
    (fun f ids feats => ref_pipeline (f tt []) ids feats).

Definition ex_ctx (src tgt ids : string) (overwrite : bool) : cctx :=
  MkCtx (fun n => if String.eqb n "sourceGpkg" then s_ src else if String.eqb n "targetGpkg" then s_ tgt
                  else if String.eqb n "tilematrixset" then s_ "NetherlandsRDNewQuad"
                  else if String.eqb n "tilematrices" then s_ ids else [])
        (fun n => if String.eqb n "overwrite" then overwrite else String.eqb n "keeppointsandlines")
        (fun _ => 2).

Definition ex_world (fs : fsys) : world (ex_lib ex_cfg) := @MkWorld (ex_lib ex_cfg) fs [(s_ "in.gpkg", ex_src)] [].

Definition gen_rows_at (r : mres (world (ex_lib ex_cfg))) (path table : string) : option (list row) :=
  match r with MOk w => rows_at (COk (mw_fs w)) path table | MErr _ => None end.

Example C13_example_source_tie_main :
  let r := gen_main (ex_lib ex_cfg) (ex_world []) (ex_ctx "in.gpkg" "out/nl.gpkg" "[6,5,6]" false) in
  gen_rows_at r "out/nl_5.gpkg" "parcels" = Some [[CVal (VInt 1); CGeom (g 15); CVal (VText 1)]] /\
  gen_rows_at r "out/nl_6.gpkg" "parcels" = Some [[CVal (VInt 1); CGeom (g 16); CVal (VText 1)];
                                                  [CVal (VInt 2); CGeom (MkGeom 6 [(0, 0)] 26); CVal (VText 2)]] /\
  gen_rows_at r "out/nl_6.gpkg" "poi" = Some [[CVal (VInt 7); CGeom (MkGeom 1 [(1, 1)] 9)]] /\
  gen_rows_at r "out/nl.gpkg" "poi" = None /\
  match r with MOk w => List.length (mw_fs w) = 2%nat /\ List.length (mw_heap w) = 3%nat | MErr _ => False end /\
  (* a second run over these files: fails without -overwrite (tables exist), succeeds with it *)
  match r with
  | MOk w => gen_main (ex_lib ex_cfg) (ex_world (mw_fs w)) (ex_ctx "in.gpkg" "out/nl.gpkg" "[5,6]" false) = MErr (Fatal (OpErr (Gpkg TableExists))) /\
             gen_rows_at (gen_main (ex_lib ex_cfg) (ex_world (mw_fs w)) (ex_ctx "in.gpkg" "out/nl.gpkg" "[5,6]" true)) "out/nl_6.gpkg" "parcels"
             = gen_rows_at r "out/nl_6.gpkg" "parcels"
  | MErr _ => False
  end /\
  (* abnormal ends *)
  gen_main (ex_lib ex_cfg) (ex_world []) (ex_ctx "missing.gpkg" "out/nl.gpkg" "[5,6]" false) = MErr (Fatal ENOENT) /\
  (* F21: a '%' in the target path is an ordinary character *)
  gen_rows_at (gen_main (ex_lib ex_cfg) (ex_world []) (ex_ctx "in.gpkg" "out%20dir/100%.gpkg" "[5,6]" false)) "out%20dir/100%_6.gpkg" "poi"
    = Some [[CVal (VInt 7); CGeom (MkGeom 1 [(1, 1)] 9)]] /\
  gen_main (ex_lib ex_cfg) (ex_world []) (ex_ctx "in.gpkg" "out/nl.gpkg" "[5,6" false) = MErr (Fatal (LibErr "invalid character")) /\
  gen_main (ex_lib ex_cfg) (ex_world []) (ex_ctx "in.gpkg" "out/nl.gpkg" "[]" false) = MErr (Fatal (LibErr "invalid character")) /\
  gen_main (ex_lib (MkSnapCfg false true false)) (@MkWorld (ex_lib (MkSnapCfg false true false)) [] [(s_ "in.gpkg", ex_src)] [])
           (ex_ctx "in.gpkg" "out/nl.gpkg" "[5,6]" false) = MErr PipelinePanicked /\
  gen_injectSuffixIntoPath (s_ "a//b/../x.tar.gz") = MOk (s_ "a/x.tar_%v.gz") /\
  gen_injectSuffixIntoPath (s_ "a%b//./x%v.tar.g%") = MOk (s_ "a%%b/x%%v.tar_%v.g%%") /\
  (mdo f <- gen_injectSuffixIntoPath (s_ "out%20dir/x%v.gpkg"); op_Sprintf f 5) = MOk (s_ "out%20dir/x%v_5.gpkg").
Proof. vm_compute. repeat split. Qed.
