(** * C05 — returned rings are well formed, correctly oriented, collapse policy respected.

    Model level, for all polygons inside the grid, valid or not.
    - [C05_orientation] and [C05_keep_policy*] need no premise at all.
    - [C05_rings_well_formed] ("does not repeat its first vertex at the end, no two equal consecutive
      vertices, visits no vertex twice") is proved from the routing premises [routing_ok]: for every edge of
      every (normalised) input ring the centre list returned by snapClosestPoints starts at the centre of the
      pixel of the edge's start and ends at the centre of the pixel of its end ([segments_endpoints]) and has
      no two equal consecutive entries ([segments_nodup_adjacent]); they are discharged from C02 in
      [C05_rings_well_formed_routing_discharged], which has NO premise beyond the grid side conditions.
      Nothing is assumed about kmpDeduplicate: the only fact used, [kmp_subseq], is proved (ProofsKmpSubseq /
      ProofsLevelJoin); a spike-removal output of fewer than three vertices that reaches asPointOrLine is
      repeat-free BY CONSTRUCTION since the repair of finding F14 (cleanupNewRing drops the closing vertex
      again after kmpDeduplicate, [trimClosing], ProofsLevel.trimClosing_short_NoDup).  kmpDeduplicate itself
      CAN return the line [p; p] — [C05_kmp_short_nodup_refuted], a 75-vertex chain over three centres — which
      is why the earlier form of this theorem carried a (false) premise and why the unrepaired code returned
      the polygon [[(8.5 8.5) (8.5 8.5)]]; [C05_regression_F14] replays that witness on the repaired model.
      From them: [route_no_adj_lin] (the routed ring has no equal neighbours), [hit_accounting]
      (flagged iff recorded twice), [route_counts] (the routed ring is a rotation of the recorded centres),
      [split_repeat_free] (the stack invariant), and the lifting through dedupe / match / reversal.
    - the component theorems about splitRing are restated at the end. *)
From Coq Require Import ZArith List Bool Permutation.
From Texel Require Import Prelude.Base Index.Model Snap.Model Snap.ProofsBasics Snap.ProofsSplit
  Snap.ProofsSplitThms Snap.ProofsLevelRoute Snap.ProofsLevel Snap.ProofsLevelThms Snap.ProofsLevelC07
  Snap.ProofsLevelJoin.
Import ListNotations.
Open Scope Z_scope.

(** every returned ring: repeat-free, and (with two or more vertices) last <> first, no equal neighbours *)
Theorem C05_rings_well_formed : forall g P levels cfg r hs,
  insertPolygon g P = Ok hs ->
  (forall L idx r0, In L levels -> nth_error P idx = Some r0 ->
     routing_ok g (hotLevels g hs) L (ensureCorrectWindingOrder r0 (negb (Nat.eqb idx 0)))) ->
  snapPolygon g P levels cfg = Ok r ->
  forall L ps poly x, In (L, ps) r -> In poly ps -> In x poly ->
    NoDup x /\ ((2 <= length x)%nat -> hd dp x <> last x dp /\ no_adj_dup x).
Proof. exact snap_rings_well_formed. Qed.
Print Assumptions C05_rings_well_formed.

(** first ring shell, the rest holes; shell counter-clockwise or zero area, holes clockwise or zero area,
    exactly opposite with reverse winding order; all of them with >= 3 vertices; collapsed parts last, as
    single-ring polygons of one or two vertices, and only with keep-points-and-lines; never an empty list *)
Theorem C05_orientation : forall g P levels cfg r L ps, snapPolygon g P levels cfg = Ok r -> In (L, ps) r ->
  ps <> [] /\
  exists big small, ps = big ++ small /\
    Forall (poly_ok (if reverseWindingOrder cfg then -1 else 1)) big /\
    Forall plpoly_ok small /\ (keepPointsAndLines cfg = false -> small = []).
Proof. exact snap_orientation. Qed.
Print Assumptions C05_orientation.

(** keep policy, per level: present without keep => present with keep, same polygons followed by the
    collapsed parts; without keep every ring has >= 3 vertices *)
Theorem C05_keep_policy_level : forall g hots P cfg L ps,
  snapLevel g hots P (setKeep cfg false) L = Ok (Some ps) ->
  exists extra, snapLevel g hots P (setKeep cfg true) L = Ok (Some (ps ++ extra)) /\
                Forall plpoly_ok extra /\
                Forall (Forall (fun x : ring => (3 <= length x)%nat)) ps.
Proof. exact keep_policy. Qed.
Print Assumptions C05_keep_policy_level.

Theorem C05_keep_policy : forall g P levels cfg rF rT,
  snapPolygon g P levels (setKeep cfg false) = Ok rF -> snapPolygon g P levels (setKeep cfg true) = Ok rT ->
  forall L ps, In (L, ps) rF ->
    Forall (Forall (fun x : ring => (3 <= length x)%nat)) ps /\
    exists extra, In (L, ps ++ extra) rT /\ Forall plpoly_ok extra.
Proof. exact snap_keep_policy. Qed.
Print Assumptions C05_keep_policy.

(** a level at which the whole polygon collapses is absent, never mapped to an empty list *)
Theorem C05_never_empty : forall g hots P cfg L, snapLevel g hots P cfg L <> Ok (Some []).
Proof. exact level_never_empty. Qed.
Print Assumptions C05_never_empty.

Theorem C05_dead_level_absent : forall g hots P cfg L acc, keepPointsAndLines cfg = false ->
  ringsLoop g hots L cfg acc0 0 P = Ok acc -> aAlive acc = false -> snapLevel g hots P cfg L = Ok None.
Proof. exact dead_level_absent. Qed.
Print Assumptions C05_dead_level_absent.

(** ** components *)

(** splitRing never panics on a non-empty ring, for ANY flag predicate *)
Theorem C05_split_total : forall (r : ring) isOuter isMulti, r <> [] -> exists sets, splitRing r isOuter isMulti = Ok sets.
Proof. exact split_total. Qed.
Print Assumptions C05_split_total.

(** if the flags contain every repeated vertex, no returned ring visits a vertex twice *)
Theorem C05_split_repeat_free : forall (r : ring) isOuter isMulti sets,
  (forall p, (2 <= count_occ pt_dec r p)%nat -> isMulti p = true) ->
  splitRing r isOuter isMulti = Ok sets -> Forall (@NoDup pt) (rings_of_sets sets).
Proof. exact split_repeat_free. Qed.
Print Assumptions C05_split_repeat_free.

(** shape, for any flags: no equal neighbours in, none out; at least two vertices *)
Theorem C05_split_ring_shape : forall (r : ring) isOuter isMulti sets, no_adj_dup r ->
  splitRing r isOuter isMulti = Ok sets ->
  Forall (fun x : ring => no_adj_dup x /\ (2 <= length x)%nat) (rings_of_sets sets).
Proof. exact split_ring_shape. Qed.
Print Assumptions C05_split_ring_shape.

Theorem C05_split_orientation : forall (r : ring) isOuter isMulti sets, splitRing r isOuter isMulti = Ok sets ->
  Forall (fun x : ring => (3 <= length x)%nat /\ 0 <= xprod x) (outers sets) /\
  Forall (fun x : ring => (3 <= length x)%nat /\ xprod x <= 0) (inners sets) /\
  Forall (fun x : ring => (1 <= length x <= 2)%nat) (pointsAndLines sets).
Proof. exact split_orientation. Qed.
Print Assumptions C05_split_orientation.

(** hit accounting: after routing a ring whose id is not yet in the hit maps, a centre is flagged for
    the ring iff it was recorded at least twice (recorded = all but the first centre of every edge) *)
Theorem C05_hit_accounting : forall g hots L id first verts st0 nr st,
  routeRing g hots L id first verts st0 [] = Ok (nr, st) -> hits_fresh st0 id ->
  forall p, isMultiFor st id p = true <->
            (2 <= count_occ pt_dec (recorded (segsOf g hots L (edgesFrom first verts))) p)%nat.
Proof. exact hit_accounting. Qed.
Print Assumptions C05_hit_accounting.

(** the routed ring has no two equal consecutive vertices as soon as no edge's centre list has *)
Theorem C05_route_no_adj_dup : forall segs nr nr', Forall no_adj_lin segs -> no_adj_lin nr ->
  assemble segs nr = Ok nr' -> no_adj_lin nr'.
Proof. exact route_no_adj_lin. Qed.
Print Assumptions C05_route_no_adj_dup.

(** ** non-vacuity: shell with a spike and a hole, 32 x 32 pixels of size 2.  The routing premises hold at
       every level (boolean check), the spike collapses to a line at level 3 and the hole to a point at
       level 1; a figure eight is split at its double point. *)
Definition exG : grid := mkGrid (mkExtent 0 0 64 64) 2 5.
Definition exP : list ring :=
  [[(2,2);(40,2);(40,40);(21,40);(20,60);(19,40);(2,40)]; [(10,10);(10,20);(20,20);(20,10)]].
Definition exLevels : list nat := [5; 3; 1]%nat.

Example C05_routing_premises_hold :
  exists hs, insertPolygon exG exP = Ok hs /\
    forall L idx r0, In L exLevels -> nth_error exP idx = Some r0 ->
      routing_ok exG (hotLevels exG hs) L (ensureCorrectWindingOrder r0 (negb (Nat.eqb idx 0))).
Proof.
  destruct (insertPolygon exG exP) as [hs |] eqn:E; [| vm_compute in E; discriminate].
  exists hs. split; [reflexivity |]. apply all_routing_okb_sound.
  vm_compute in E. inversion E. vm_compute. reflexivity.
Qed.

Example C05_example_keep :
  snapPolygon exG exP exLevels (mkConfig true false false) =
    Ok [(5%nat, [[[(3,3);(41,3);(41,41);(21,41);(21,61);(19,41);(3,41)]; [(11,11);(11,21);(21,21);(21,11)]]]);
        (3%nat, [[[(4,4);(44,4);(44,44);(20,44);(4,44)]; [(12,12);(12,20);(20,20);(20,12)]]; [[(20,44);(20,60)]]]);
        (1%nat, [[[(16,16);(48,16);(48,48);(16,48)]]; [[(16,16)]]])] /\
  snapPolygon exG exP exLevels (mkConfig false false false) =
    Ok [(5%nat, [[[(3,3);(41,3);(41,41);(21,41);(21,61);(19,41);(3,41)]; [(11,11);(11,21);(21,21);(21,11)]]]);
        (3%nat, [[[(4,4);(44,4);(44,44);(20,44);(4,44)]; [(12,12);(12,20);(20,20);(20,12)]]]);
        (1%nat, [[[(16,16);(48,16);(48,48);(16,48)]]])].
Proof. vm_compute. split; reflexivity. Qed.

Example C05_example_figure_eight :
  splitRing [(0,0);(2,2);(4,0);(4,4);(2,2);(0,4)] true (fun p => pt_eqb p (2,2)) =
    Ok (mkSets [[(0,0);(2,2);(0,4)]; [(2,2);(4,0);(4,4)]] [] []) /\
  snapPolygon exG [[(2,2);(30,30);(58,2);(58,58);(30,30);(2,58)]] [5; 2]%nat (mkConfig true false false) =
    Ok [(5%nat, [[[(3,3);(31,31);(3,59)]]; [[(31,31);(59,3);(59,59)]]]);
        (2%nat, [[[(8,8);(24,24);(8,56)]]; [[(24,24);(56,8);(56,56)]]])].
Proof. vm_compute. split; reflexivity. Qed.

(** kmpDeduplicate's own short outputs on a bounded domain (repeat-free there; NOT in general,
    [C05_kmp_short_nodup_refuted]: the shortest counterexample known has 75 vertices): all chains over three
    centres of length 3..7 without equal cyclic neighbours *)
Fixpoint exChains (n : nat) : list (list pt) :=
  match n with O => [[]] | S n' => flat_map (fun l => map (fun x => x :: l) [(0,0); (1,0); (2,0)]) (exChains n') end.
Definition exCycDup (l : list pt) : bool := existsb (fun e => pt_eqb (fst e) (snd e)) (dedges l).
Definition exHasDup (l : list pt) : bool :=
  (fix go l := match l with [] => false | a :: r => mem_pt a r || go r end) l.
Example C05_kmp_short_nodup_bounded :
  forallb (fun l => exCycDup l ||
                    match kmpDeduplicate l with
                    | Ok r' => negb (length r' <? 3)%nat || negb (exHasDup r')
                    | Err _ => false
                    end) (flat_map exChains [3; 4; 5; 6; 7]%nat) = true.
Proof. vm_compute. reflexivity. Qed.

(** ** the routing premise discharged from C02 (Snap/ProofsJoinC05.v, from C02_routing_edges): for every grid with a
       positive resolution whose stored extent covers its computed pixels ([RootCovers], true of FromTileMatrixSet)
       and every requested level within the index. *)
From Texel Require Import Index.ProofsRouting Snap.ProofsJoinC05 Snap.ProofsKmpShort.

Theorem C05_routing_premise_discharged : forall g P hs L r0 r', 0 < gres g -> RootCovers g ->
  insertPolygon g P = Ok hs -> (L <= gdeep g)%nat -> In r0 P -> (r' = r0 \/ r' = rev r0) ->
  routing_ok g (hotLevels g hs) L r'.
Proof. exact routing_ok_from_C02. Qed.
Print Assumptions C05_routing_premise_discharged.

Theorem C05_rings_well_formed_routing_discharged : forall g P levels cfg r,
  0 < gres g -> RootCovers g -> (forall L, In L levels -> (L <= gdeep g)%nat) ->
  snapPolygon g P levels cfg = Ok r ->
  forall L ps poly x, In (L, ps) r -> In poly ps -> In x poly ->
    NoDup x /\ ((2 <= length x)%nat -> hd dp x <> last x dp /\ no_adj_dup x).
Proof. exact snap_rings_well_formed_closed. Qed.
Print Assumptions C05_rings_well_formed_routing_discharged.

(** ** finding F14 (repaired): kmpDeduplicate itself can return the two-vertex line [p; p] ... *)
Theorem C05_kmp_short_nodup_refuted : exists r r',
  no_adj_dup r /\ (3 <= length r)%nat /\ kmpDeduplicate r = Ok r' /\ (length r' < 3)%nat /\ ~ NoDup r'.
Proof. exact kmp_short_nodup_refuted. Qed.
Print Assumptions C05_kmp_short_nodup_refuted.

(** ... the ring of 75 vertices over three pixel centres (16 x 16 pixels of size 2) that was returned as the
    line [(17,17); (17,17)] now collapses to the point (17,17): returned with keep-points-and-lines, dropped
    without; the chain that loses every vertex yields nothing *)
Example C05_regression_F14 :
  snapPolygon g16 [ring75] [4%nat] (mkConfig true false false) = Ok [(4%nat, [[[(17, 17)]]])] /\
  snapPolygon g16 [ring75] [4%nat] (mkConfig false false false) = Ok [] /\
  cleanupNewRing (ProofsKmpEnum.chain w75) true (fun _ => true) = Ok (mkSets [] [] [[(1, 1)]]) /\
  cleanupNewRing (ProofsKmpEnum.chain w80) true (fun _ => true) = Ok (mkSets [] [] []).
Proof. exact F14_regression. Qed.

(** non-vacuity: the example grid and levels satisfy the new hypotheses *)
Example C05_discharged_hypotheses_hold :
  0 < gres exG /\ RootCovers exG /\ (forall L, In L exLevels -> (L <= gdeep exG)%nat).
Proof.
  split; [reflexivity |]. split; [vm_compute; repeat split; discriminate |].
  intros L H. vm_compute in H. cbn [gdeep exG]. repeat (destruct H as [<- | H]; [repeat constructor |]). destruct H.
Qed.

(** ** source tie of the float predicates the model replaces by exact integer versions
    (gen/GeomHelpGen.v, gen/GeomHelpFloatGen.v: geomhelp.Shoelace, geomhelp.RayIntersect, snap.windingOrderIsCorrect
    regenerated from source by translator/geomhelp.go; vocabulary Snap/GoGeomHelp.v, Snap/GoFloatOps.v)

    READING: float64 is an EXACT rational; a lattice point of the model (integer ordinates o, counting 1 / D of the
    coordinate unit; intgeom: D = 10^10) is read as o / D ([injPd D]; [injP] = D 1).  A float division by zero is an
    explicit failure of the generated function, not Coq's x / 0 = 0: the theorems show it is never reached.  The
    rounding of the real floating-point evaluation is NOT covered: the float envelope of DESIGN 4.2 (dyadic grids exact,
    real grids checked by the correspondence) is unchanged.  TRUSTED: the micro-model of the go-spatial library call
    winding.Order{}.OfPoints (sign of the cross-product sum; fewer than three points: colinear). *)
From Coq Require Import QArith.
From Coq Require Import Floats.SpecFloat.
From Texel Require Import Tms.Json Snap.GoGeomHelp Snap.GoFloatOps Snap.FloatWitnesses Snap.ProofsGenGeomHelp
  Snap.ProofsGenGeomHelpFloat.
From Texel.Gen Require Import GeomHelpGen GeomHelpFloatGen.
Open Scope Z_scope.

(** Shoelace: never fails, and returns the model's [absArea2] (|twice the signed area|, lattice units) over 2 D^2,
    i.e. half of it in squared coordinate units; holds for the body that multiplies raw ordinates and for the body
    relative to the first point (repair of F23) alike: in exact arithmetic they are the same number *)
Theorem C05_source_tie_shoelace : forall (D : positive) (r : ring),
  exists a : Q, gen_Shoelace (map (injPd D) r) = Ok a /\ (a == absArea2 r # (2 * D * D))%Q.
Proof. exact gen_Shoelace_spec_d. Qed.
Print Assumptions C05_source_tie_shoelace.

(** the use the callers make of it (sortPolyIdxsByOuterAreaDesc): comparing two areas *)
Theorem C05_source_tie_shoelace_order : forall (D : positive) (r1 r2 : ring) (a1 a2 : Q),
  gen_Shoelace (map (injPd D) r1) = Ok a1 -> gen_Shoelace (map (injPd D) r2) = Ok a2 ->
  Qltb a1 a2 = (absArea2 r1 <? absArea2 r2) /\ Qeq_bool a1 a2 = (absArea2 r1 =? absArea2 r2).
Proof. exact gen_Shoelace_order. Qed.
Print Assumptions C05_source_tie_shoelace_order.

(** windingOrderIsCorrect *)
Theorem C05_source_tie_winding_order_is_correct : forall (D : positive) (r : ring) (shouldBeClockwise : bool),
  gen_windingOrderIsCorrect (map (injPd D) r) shouldBeClockwise = Ok (windingOrderIsCorrect r shouldBeClockwise).
Proof. exact gen_windingOrderIsCorrect_spec_d. Qed.
Print Assumptions C05_source_tie_winding_order_is_correct.

(** RayIntersect, math.Nextafter(x, +Inf) read as x + eps: for EVERY positive eps that is small enough for the input
    ([nudge_ok], Snap/GoGeomHelp.v: only when the point is on the vertical through the left end of a non-vertical
    segment: eps <= the width of the segment, and eps * |height of the segment| < |height of the point over that end|
    * width) both results are the model's; in particular no division by zero is reached *)
Theorem C05_source_tie_ray_intersect : forall (D : positive) (eps : Q) (p s e : pt),
  (0 < eps)%Q -> nudge_ok D eps p s e ->
  gen_RayIntersect eps (injPd D p) (injPd D s) (injPd D e) = Ok (rayIntersect p s e).
Proof. exact gen_RayIntersect_spec_d. Qed.
Print Assumptions C05_source_tie_ray_intersect.

(** a point that is not on the vertical through an end of the segment is not nudged: any eps *)
Theorem C05_source_tie_ray_intersect_not_nudged : forall (D : positive) (eps : Q) (p s e : pt),
  (0 < eps)%Q -> fst p <> fst s -> fst p <> fst e ->
  gen_RayIntersect eps (injPd D p) (injPd D s) (injPd D e) = Ok (rayIntersect p s e).
Proof. exact gen_RayIntersect_not_nudged. Qed.
Print Assumptions C05_source_tie_ray_intersect_not_nudged.

(** when is a nudge small enough: on a lattice whose points differ by multiples of m (the pixel centres of one
    level, m = the pixel size in lattice units) it is enough that eps <= m / D and eps * |ey - sy| / D < (m / D)^2 *)
Theorem C05_ray_intersect_nudge_ok_lattice : forall (D : positive) (m : Z) (eps : Q) (p s e : pt),
  0 < m -> (m | snd p - snd s) -> (m | snd p - snd e) -> (m | fst e - fst s) ->
  (eps <= m # D)%Q -> (eps * (Z.abs (snd e - snd s) # D) < (m * m) # (D * D))%Q ->
  nudge_ok D eps p s e.
Proof. exact nudge_ok_lattice. Qed.
Print Assumptions C05_ray_intersect_nudge_ok_lattice.

(** integer ordinates (D = 1, m = 1): any nudge below the lattice spacing whose product with the height of the segment
    is below 1 *)
Theorem C05_source_tie_ray_intersect_unit_lattice : forall (eps : Q) (p s e : pt),
  (0 < eps)%Q -> (eps < 1)%Q -> (eps * inject_Z (Z.abs (snd e - snd s)) < 1)%Q ->
  gen_RayIntersect eps (injP p) (injP s) (injP e) = Ok (rayIntersect p s e).
Proof. exact gen_RayIntersect_spec. Qed.
Print Assumptions C05_source_tie_ray_intersect_unit_lattice.

(** "for every eps with 0 < eps < 1" alone is FALSE: no positive nudge is small enough for all lattice segments (for
    every eps a one unit wide segment taller than 1 / eps and the point one unit below its upper end).  The model's
    shift is infinitesimal; the code's is one unit in the last place of pt[0] - see [C05_ray_intersect_nudge_witness] *)
Theorem C05_ray_intersect_nudge_bound_needed : forall eps : Q, (0 < eps)%Q -> (eps < 1)%Q ->
  exists p s e : pt, gen_RayIntersect eps (injP p) (injP s) (injP e) <> Ok (rayIntersect p s e).
Proof. exact gen_RayIntersect_bound_needed. Qed.
Print Assumptions C05_ray_intersect_nudge_bound_needed.

(** the same regenerated statement lists over an abstract float type (gen/GeomHelpFloatGen.v): its rational instance
    is the exact reading above; its binary64 instance (Coq.Floats.SpecFloat, executable, axiom-free) is used below and
    in Properties/C04.v to replay float defects bit for bit *)
Theorem C05_float_reading_rational_instance :
  (forall (eps : Q) (pts : list qpt), genF_Shoelace (Qops eps) pts = gen_Shoelace pts) /\
  (forall (eps : Q) (p s e : qpt), genF_RayIntersect (Qops eps) p s e = gen_RayIntersect eps p s e).
Proof. exact (conj genF_Shoelace_Q genF_RayIntersect_Q). Qed.
Print Assumptions C05_float_reading_rational_instance.

(** a concrete input on which the REAL code leaves the model (checked on the implementation: geomhelp.RayIntersect
    ([131072, -0.00390625], [131072, 0], [131072.00390625, -2097152]) = (false, false), snap.ringContains of the
    triangle with the third corner [131072.00390625, 0] = inside, although the point is outside): the binary64
    reading of the regenerated code gives that answer, the exact reading with eps = one unit in the last place
    (2^-35) gives it too, the model says (true, false), and [nudge_ok] fails; an eighth of the height and all agree *)
Example C05_ray_intersect_nudge_witness :
  genF_RayIntersect B64ops nudge_pt nudge_start nudge_end = Ok (false, false) /\
  rayIntersect nudge_pt_Z nudge_start_Z nudge_end_Z = (true, false) /\
  genF_RayIntersect B64ops nudge_pt nudge_start nudge_end_ok = Ok (true, false) /\
  rayIntersect nudge_pt_Z nudge_start_Z nudge_end_ok_Z = (true, false).
Proof. exact nudge_witness_b64. Qed.

Example C05_ray_intersect_nudge_witness_exact :
  gen_RayIntersect nudge_ulp (injPd nudge_D nudge_pt_Z) (injPd nudge_D nudge_start_Z) (injPd nudge_D nudge_end_Z)
    = Ok (false, false) /\
  gen_RayIntersect nudge_ulp (injPd nudge_D nudge_pt_Z) (injPd nudge_D nudge_start_Z) (injPd nudge_D nudge_end_ok_Z)
    = Ok (true, false) /\
  nudge_ok nudge_D nudge_ulp nudge_pt_Z nudge_start_Z nudge_end_ok_Z /\
  ~ nudge_ok nudge_D nudge_ulp nudge_pt_Z nudge_start_Z nudge_end_Z.
Proof.
  exact (conj (proj1 nudge_witness_exact) (conj (proj2 nudge_witness_exact) (conj nudge_witness_ok nudge_witness_not_ok))).
Qed.

(** the hypotheses are satisfiable by a non-trivial state: the lattice of intgeom (D = 10^10), the pixel centres of
    NetherlandsRDNewQuad at its deepest level (pixel 0.00328125 m = 32812500 units), a nudge of 2.9104e-11 (one unit
    in the last place of an x near 155000), a segment one pixel wide and 300 km tall, the point one pixel below its
    upper end: the nudge is small enough and the regenerated code returns the model's answer (370 km is the limit) *)
Example C05_ray_intersect_nudged_example :
  let D := 10000000000%positive in let m := 32812500 in let eps := (29104 # 1000000000000000)%Q in
  let p := (0, - m) in let s := (0, 0) in let e := (m, - (91428571 * m)) in
  nudge_ok D eps p s e /\ gen_RayIntersect eps (injPd D p) (injPd D s) (injPd D e) = Ok (rayIntersect p s e) /\
  rayIntersect p s e = (true, false).
Proof.
  cbv zeta.
  assert (H : nudge_ok 10000000000 (29104 # 1000000000000000) (0, - 32812500) (0, 0) (32812500, - (91428571 * 32812500))).
  { apply (nudge_ok_lattice _ 32812500); cbn [fst snd].
    - reflexivity.
    - exists (-1). reflexivity.
    - exists 91428570. reflexivity.
    - exists 1. reflexivity.
    - vm_compute. discriminate.
    - vm_compute. reflexivity. }
  split; [exact H|]. split; [apply gen_RayIntersect_spec_d; [reflexivity | exact H] | vm_compute; reflexivity].
Qed.

Example C05_shoelace_example :
  exists a : Q, gen_Shoelace (map injP [(0, 0); (4, 0); (4, 3)]) = Ok a /\ Qeq_bool a 6 = true /\
                absArea2 [(0, 0); (4, 0); (4, 3)] = 12.
Proof. eexists. split; [vm_compute; reflexivity|]. split; vm_compute; reflexivity. Qed.
