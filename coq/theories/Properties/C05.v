(** placeholder until the C05 theorems are in place *)
From Texel Require Import Prelude.Base.
