(** * C18 — moderately collapsing polygons are reduced without inventing geometry.  PARTIAL.

    The central invariant is conservation of directed edges modulo cancellation of opposite pairs
    (and, through it, of signed area: [xprod] is a sum over directed edges).  Vocabulary:
    [dedges r] = the directed cyclic edges of a ring, [all_dedges rs] = those of a list of rings,
    [swap (a, b) = (b, a)], [xprod] = twice the signed area, [sum_xprod] = its sum over rings.

    Proved for ALL inputs:
    - splitRing conserves the directed edges exactly (hence the area), except in the documented branch in
      which every piece of a shell was classified as a hole (or vice versa) and all pieces are reversed;
    - dedupeInnersOuters deletes only shells and holes with exactly opposite edges (a cancelling pair);
    - the per-level assembly (dedupe + match + unmatched holes turned shells) conserves edges modulo such pairs;
    - kmpDeduplicate returns a subsequence of its input and is the identity when the chain never steps back.
    - kmpDeduplicate, on the class of the property (no pixel centre at three positions of the chain, [le2]):
      never fails and conserves the directed edges modulo cancellation of opposite pairs ([conserves]) —
      [C18_kmp_conserves_le2], for every ring of any length (plus an independent bounded enumeration).
    Outside the class the statement is false: [C18_class_boundary_F5] (four visits).
    The nesting clause ("every hole lies inside or on its shell") has no theorem: search only. *)
From Coq Require Import ZArith List Bool Permutation.
From Texel Require Import Prelude.Base Index.Model Snap.Model Snap.ProofsBasics Snap.ProofsSplit
  Snap.ProofsSplitRefine Snap.ProofsSplitThms Snap.ProofsDedupeCancel Snap.ProofsLevel Snap.ProofsLevelThms
  Snap.ProofsLevelEdges Snap.ProofsKmpSubseq Snap.ProofsKmpEnum Snap.ProofsKmpEdges Snap.ProofsKmpLe2.
Import ListNotations.
Open Scope Z_scope.

(** splitRing: the rings before the orientation swap carry exactly the directed edges of the input ring *)
Theorem C18_split_conserves : forall (r : ring) isOuter isMulti sets, splitRing r isOuter isMulti = Ok sets ->
  exists s0, sets = (if swapb isOuter s0 then swapSets isOuter s0 else s0) /\
             Permutation (all_dedges (rings_of_sets s0)) (dedges r).
Proof. exact split_conserves. Qed.
Print Assumptions C18_split_conserves.

(** ... hence the signed area: equal, or (only when all pieces landed on one side) equal after undoing the swap *)
Theorem C18_split_area : forall (r : ring) isOuter isMulti sets, splitRing r isOuter isMulti = Ok sets ->
  sum_xprod (rings_of_sets sets) = xprod r \/
  ((outers sets = [] \/ inners sets = []) /\ sum_xprod (unswap sets) = xprod r).
Proof. exact split_area. Qed.
Print Assumptions C18_split_area.

(** dedupeInnersOuters: what is deleted are shells dO and holes dI with exactly opposite edges *)
Theorem C18_dedupe_cancels : forall outs ins outs' ins', dedupeInnersOuters outs ins = Ok (outs', ins') ->
  exists dO dI, Permutation outs (outs' ++ dO) /\ Permutation ins (ins' ++ dI) /\
                Permutation (all_dedges dI) (map swap (all_dedges dO)).
Proof. exact dedupe_cancels. Qed.
Print Assumptions C18_dedupe_cancels.

(** one level: the edges of the returned polygons are those of the collected shells and holes, minus cancelling
    shell/hole pairs, with the holes that found no shell ([tu]) reversed *)
Theorem C18_level_edges_cancel : forall cfg acc polys, aAlive acc = true -> reverseWindingOrder cfg = false ->
  levelPolys cfg acc = Ok polys ->
  exists dO dI tu,
    Permutation (all_dedges dI) (map swap (all_dedges dO)) /\
    Permutation (all_dedges (concat polys) ++ all_dedges dO ++ all_dedges dI ++ all_dedges tu)
                (all_dedges (aOuters acc ++ aInners acc) ++ map swap (all_dedges tu)).
Proof. exact level_edges_cancel. Qed.
Print Assumptions C18_level_edges_cancel.

(** kmpDeduplicate only removes vertices ... *)
Theorem C18_kmp_subsequence : forall r r', kmpDeduplicate r = Ok r' -> subseq r' r.
Proof. exact kmp_subseq. Qed.
Print Assumptions C18_kmp_subsequence.

(** ... and removes nothing when no centre is visited twice *)
Theorem C18_kmp_identity_NoDup : forall r, NoDup r -> kmpDeduplicate r = Ok r.
Proof. exact kmp_id_NoDup. Qed.
Print Assumptions C18_kmp_identity_NoDup.

(** the class of C18: no pixel centre occurs at three positions of the routed chain ([le2]).  On it spike removal
    never fails and conserves the directed edges modulo cancelling pairs: for every e, the output has no more
    copies of e than the input and the surplus of e over its reverse is unchanged.  Every ring, any length. *)
Theorem C18_kmp_conserves_le2 : forall r, le2 r ->
  exists r', kmpDeduplicate r = Ok r' /\ conserves (cedges r) (cedges r').
Proof. exact kmp_conserves_le2. Qed.
Print Assumptions C18_kmp_conserves_le2.

(** BOUNDED cross-check by exhaustive evaluation (the bound is part of the statement): every chain [w] over at most 5 pixel centres, of length at most
    9, without equal neighbours, first <> last, each centre at most twice — the class of C18 — is reduced by
    kmpDeduplicate with directed edges conserved modulo cancelling pairs ([conserves]).  By exhaustive
    evaluation inside Coq, lifted with forallb_forall. *)
Theorem C18_kmp_conserves_le2_partial_upto_9 : forall w,
  (length w <= 9)%nat -> Forall (fun a => (a < 5)%nat) w ->
  nen_from 5 w = true -> first_ne_last w = true -> visits_le 2 w = true ->
  exists r', kmpDeduplicate (chain w) = Ok r' /\ conserves (cedges (chain w)) (cedges r').
Proof. exact kmp_conserves_le2_upto_9. Qed.
Print Assumptions C18_kmp_conserves_le2_partial_upto_9.

(** the class boundary is real: with four visits an edge is invented (finding F5) *)
Theorem C18_class_boundary_F5 : exists r r' e,
  kmpDeduplicate r = Ok r' /\ In e (cedges r') /\ ~ In e (cedges r) /\ ~ In (swap e) (cedges r).
Proof. exact F5_invented_edge. Qed.
Print Assumptions C18_class_boundary_F5.

(** non-vacuity: a figure eight visiting (2,2) twice is split into two rings that together carry exactly its
    directed edges and its area; of two equal shells and one equal, opposite hole, a shell/hole pair cancels *)
Example C18_example :
  splitRing [(0,0);(2,2);(4,0);(4,4);(2,2);(0,4)] true (fun p => pt_eqb p (2,2)) =
    Ok (mkSets [[(0,0);(2,2);(0,4)]; [(2,2);(4,0);(4,4)]] [] []) /\
  xprod [(0,0);(2,2);(4,0);(4,4);(2,2);(0,4)] = xprod [(0,0);(2,2);(0,4)] + xprod [(2,2);(4,0);(4,4)] /\
  dedupeInnersOuters [[(0,0);(4,0);(4,4)]; [(0,0);(4,0);(4,4)]] [[(4,4);(4,0);(0,0)]] = Ok ([[(0,0);(4,0);(4,4)]], []) /\
  kmpDeduplicate [(0,0);(4,0);(8,0);(4,0);(4,4)] = Ok [(0,0);(4,0);(8,0);(4,0);(4,4)] /\
  kmpDeduplicate [(0,0);(4,0);(0,0);(4,0);(0,0);(4,0);(4,4)] = Ok [(0,0);(4,0);(4,4)].
Proof. vm_compute. repeat split; reflexivity. Qed.
