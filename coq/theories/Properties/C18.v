(** placeholder until the C18 theorems are in place *)
From Texel Require Import Prelude.Base.
