(** * C18 — moderately collapsing polygons are reduced without inventing geometry.  PARTIAL.

    The central invariant is conservation of directed edges modulo cancellation of opposite pairs
    (and, through it, of signed area: [xprod] is a sum over directed edges).  Vocabulary:
    [dedges r] = the directed cyclic edges of a ring, [all_dedges rs] = those of a list of rings,
    [swap (a, b) = (b, a)], [xprod] = twice the signed area, [sum_xprod] = its sum over rings.

    Proved for ALL inputs:
    - splitRing conserves the directed edges exactly (hence the area), except in the documented branch in
      which every piece of a shell was classified as a hole (or vice versa) and all pieces are reversed;
    - dedupeInnersOuters deletes only shells and holes with exactly opposite edges (a cancelling pair);
    - the per-level assembly (dedupe + match + unmatched holes turned shells) conserves edges modulo such pairs;
    - kmpDeduplicate returns a subsequence of its input and is the identity when the chain never steps back.
    - kmpDeduplicate, on the class of the property (no pixel centre at three positions of the chain, [le2]):
      never fails and conserves the directed edges modulo cancellation of opposite pairs ([conserves]) —
      [C18_kmp_conserves_le2], for every ring of any length (plus an independent bounded enumeration).
    Outside the class the statement is false: [C18_class_boundary_F5] (four visits).
    End to end (snapLevel, snapPolygon; all flag combinations): section END TO END below —
    [C18_end_to_end_edges], [C18_snapPolygon_edges_are_routed_steps], [C18_end_to_end_area], [C18_snapPolygon_area].
    The nesting clause ("every hole lies inside or on its shell"): vertex form only, [C18_nesting_vertex_partial]
    (every hole was attached because ringContains found one of its vertices in or on the shell); the full clause
    is search only. *)
From Coq Require Import ZArith List Bool Permutation.
From Texel Require Import Prelude.Base Index.Model Snap.Model Snap.ProofsBasics Snap.ProofsSplit
  Snap.ProofsSplitRefine Snap.ProofsSplitThms Snap.ProofsDedupeCancel Snap.ProofsLevel Snap.ProofsLevelThms
  Snap.ProofsLevelEdges Snap.ProofsKmpSubseq Snap.ProofsKmpEnum Snap.ProofsKmpEdges Snap.ProofsKmpLe2.
Import ListNotations.
Open Scope Z_scope.

(** splitRing: the rings before the orientation swap carry exactly the directed edges of the input ring *)
Theorem C18_split_conserves : forall (r : ring) isOuter isMulti sets, splitRing r isOuter isMulti = Ok sets ->
  exists s0, sets = (if swapb isOuter s0 then swapSets isOuter s0 else s0) /\
             Permutation (all_dedges (rings_of_sets s0)) (dedges r).
Proof. exact split_conserves. Qed.
Print Assumptions C18_split_conserves.

(** ... hence the signed area: equal, or (only when all pieces landed on one side) equal after undoing the swap *)
Theorem C18_split_area : forall (r : ring) isOuter isMulti sets, splitRing r isOuter isMulti = Ok sets ->
  sum_xprod (rings_of_sets sets) = xprod r \/
  ((outers sets = [] \/ inners sets = []) /\ sum_xprod (unswap sets) = xprod r).
Proof. exact split_area. Qed.
Print Assumptions C18_split_area.

(** dedupeInnersOuters: what is deleted are shells dO and holes dI with exactly opposite edges *)
Theorem C18_dedupe_cancels : forall outs ins outs' ins', dedupeInnersOuters outs ins = Ok (outs', ins') ->
  exists dO dI, Permutation outs (outs' ++ dO) /\ Permutation ins (ins' ++ dI) /\
                Permutation (all_dedges dI) (map swap (all_dedges dO)).
Proof. exact dedupe_cancels. Qed.
Print Assumptions C18_dedupe_cancels.

(** one level: the edges of the returned polygons are those of the collected shells and holes, minus cancelling
    shell/hole pairs, with the holes that found no shell ([tu]) reversed *)
Theorem C18_level_edges_cancel : forall cfg acc polys, aAlive acc = true -> reverseWindingOrder cfg = false ->
  levelPolys cfg acc = Ok polys ->
  exists dO dI tu,
    Permutation (all_dedges dI) (map swap (all_dedges dO)) /\
    Permutation (all_dedges (concat polys) ++ all_dedges dO ++ all_dedges dI ++ all_dedges tu)
                (all_dedges (aOuters acc ++ aInners acc) ++ map swap (all_dedges tu)).
Proof. exact level_edges_cancel. Qed.
Print Assumptions C18_level_edges_cancel.

(** kmpDeduplicate only removes vertices ... *)
Theorem C18_kmp_subsequence : forall r r', kmpDeduplicate r = Ok r' -> subseq r' r.
Proof. exact kmp_subseq. Qed.
Print Assumptions C18_kmp_subsequence.

(** ... and removes nothing when no centre is visited twice *)
Theorem C18_kmp_identity_NoDup : forall r, NoDup r -> kmpDeduplicate r = Ok r.
Proof. exact kmp_id_NoDup. Qed.
Print Assumptions C18_kmp_identity_NoDup.

(** the class of C18: no pixel centre occurs at three positions of the routed chain ([le2]).  On it spike removal
    never fails and conserves the directed edges modulo cancelling pairs: for every e, the output has no more
    copies of e than the input and the surplus of e over its reverse is unchanged.  Every ring, any length. *)
Theorem C18_kmp_conserves_le2 : forall r, le2 r ->
  exists r', kmpDeduplicate r = Ok r' /\ conserves (cedges r) (cedges r').
Proof. exact kmp_conserves_le2. Qed.
Print Assumptions C18_kmp_conserves_le2.

(** BOUNDED cross-check by exhaustive evaluation (the bound is part of the statement): every chain [w] over at most 5 pixel centres, of length at most
    9, without equal neighbours, first <> last, each centre at most twice — the class of C18 — is reduced by
    kmpDeduplicate with directed edges conserved modulo cancelling pairs ([conserves]).  By exhaustive
    evaluation inside Coq, lifted with forallb_forall. *)
Theorem C18_kmp_conserves_le2_partial_upto_9 : forall w,
  (length w <= 9)%nat -> Forall (fun a => (a < 5)%nat) w ->
  nen_from 5 w = true -> first_ne_last w = true -> visits_le 2 w = true ->
  exists r', kmpDeduplicate (chain w) = Ok r' /\ conserves (cedges (chain w)) (cedges r').
Proof. exact kmp_conserves_le2_upto_9. Qed.
Print Assumptions C18_kmp_conserves_le2_partial_upto_9.

(** the class boundary is real: with four visits an edge is invented (finding F5) *)
Theorem C18_class_boundary_F5 : exists r r' e,
  kmpDeduplicate r = Ok r' /\ In e (cedges r') /\ ~ In e (cedges r) /\ ~ In (swap e) (cedges r).
Proof. exact F5_invented_edge. Qed.
Print Assumptions C18_class_boundary_F5.

(** non-vacuity: a figure eight visiting (2,2) twice is split into two rings that together carry exactly its
    directed edges and its area; of two equal shells and one equal, opposite hole, a shell/hole pair cancels *)
Example C18_example :
  splitRing [(0,0);(2,2);(4,0);(4,4);(2,2);(0,4)] true (fun p => pt_eqb p (2,2)) =
    Ok (mkSets [[(0,0);(2,2);(0,4)]; [(2,2);(4,0);(4,4)]] [] []) /\
  xprod [(0,0);(2,2);(4,0);(4,4);(2,2);(0,4)] = xprod [(0,0);(2,2);(0,4)] + xprod [(2,2);(4,0);(4,4)] /\
  dedupeInnersOuters [[(0,0);(4,0);(4,4)]; [(0,0);(4,0);(4,4)]] [[(4,4);(4,0);(0,0)]] = Ok ([[(0,0);(4,0);(4,4)]], []) /\
  kmpDeduplicate [(0,0);(4,0);(8,0);(4,0);(4,4)] = Ok [(0,0);(4,0);(8,0);(4,0);(4,4)] /\
  kmpDeduplicate [(0,0);(4,0);(0,0);(4,0);(0,0);(4,0);(4,4)] = Ok [(0,0);(4,0);(4,4)].
Proof. vm_compute. repeat split; reflexivity. Qed.

(** * END TO END: snapLevel / snapPolygon on the class

    [routedClean g hots L idx r] is the routed-and-cleaned ring of input ring number [idx]: the ring is normalised
    (shell counter-clockwise, holes clockwise), every edge is routed through the occupied pixel centres, the lists
    are joined by cleanupNewVertices and the closing vertex is dropped.  It is exactly the argument on which the
    model calls kmpDeduplicate ([C18_routedClean_is_kmp_argument]); it does not depend on the other rings.
    The class: every such ring satisfies [le2] (no centre at three positions).  All theorems below hold for every
    value of keep-points-and-lines and reverse-winding-order (ignore-outside-grid plays no role at one level);
    kept points and lines are included among the returned rings. *)
From Texel Require Import Index.ProofsRouting Snap.ProofsLevelJoin Snap.ProofsJoinC18.

Theorem C18_routedClean_is_kmp_argument : forall g hots L cfg acc idx r acc', aAlive acc = true ->
  ringStep g hots L cfg acc idx r = Ok acc' ->
  exists c m sets, routedClean g hots L idx r = Ok c /\
    (if (length c <? 3)%nat then Ok (mkSets [] [] (asPointOrLine c))
     else do rk <- kmpDeduplicate c;
          let r2 := trimClosing rk in   (* the closing vertex is dropped again after spike removal (F14) *)
          if (length r2 <? 3)%nat then Ok (mkSets [] [] (asPointOrLine r2)) else splitRing r2 (Nat.eqb idx 0) m) = Ok sets /\
    acc' = if deadb cfg (Nat.eqb idx 0) sets
           then mkAcc false (aHits acc') (aOuters acc) (aInners acc) (aPL acc)
           else mkAcc true (aHits acc') (aOuters acc ++ outers sets) (aInners acc ++ inners sets)
                      (if keepPointsAndLines cfg then aPL acc ++ pointsAndLines sets else aPL acc).
Proof. exact ringStep_kmp_argument. Qed.
Print Assumptions C18_routedClean_is_kmp_argument.

(** (E1) edges.  Every directed cyclic edge of every returned ring is, up to reversal of its direction (rings are
    reversed as a whole by the role swap of splitRing, by turning an unmatched hole into a shell, and by the
    reverse-winding-order flag), a directed cyclic edge of a routed-and-cleaned ring.  This is stronger than
    "a routed edge or a straight run of consecutive routed edges": on the class no run is ever merged. *)
Theorem C18_end_to_end_edges : forall g hots P cfg L ps,
  (forall idx r c, nth_error P idx = Some r -> routedClean g hots L idx r = Ok c -> le2 c) ->
  snapLevel g hots P cfg L = Ok (Some ps) ->
  forall poly x e, In poly ps -> In x poly -> In e (cedges x) ->
    exists idx r c, nth_error P idx = Some r /\ routedClean g hots L idx r = Ok c /\
                    (In e (cedges c) \/ In (swap e) (cedges c)).
Proof. exact level_edges_end_to_end. Qed.
Print Assumptions C18_end_to_end_edges.

(** cleanupNewVertices merges nothing (it drops the joint shared by two consecutive lists), so with exact routing
    ([routing_ok]: every list starts at the centre of the pixel of its start vertex, ends at that of its end vertex,
    and has no two equal neighbours — C02) the cyclic edges of a routed-and-cleaned ring are routed steps: two
    consecutive centres of the list snapClosestPoints returns for one edge of the normalised input ring *)
Theorem C18_cleaned_edges_are_routed_steps : forall g hots L idx r c,
  routing_ok g hots L (ensureCorrectWindingOrder r (negb (Nat.eqb idx 0))) ->
  routedClean g hots L idx r = Ok c ->
  forall e, In e (cedges c) ->
    exists a b, In (a, b) (dedges (ensureCorrectWindingOrder r (negb (Nat.eqb idx 0)))) /\
                In e (ProofsBasics.pairs (snapClosestPoints g hots a b L)).
Proof. exact routedClean_edges_routed. Qed.
Print Assumptions C18_cleaned_edges_are_routed_steps.

(** ... hence, for snapPolygon with the routing premise discharged from C02 (grids whose stored extent covers their
    pixels, requested levels within the index): every edge of every returned ring of every requested level is, up to
    direction, a routed step of one edge of the polygon *)
Theorem C18_snapPolygon_edges_are_routed_steps : forall g P levels cfg res hs, 0 < gres g -> RootCovers g ->
  (forall L, In L levels -> (L <= gdeep g)%nat) ->
  insertPolygon g P = Ok hs ->
  (forall L idx r c, In L levels -> nth_error P idx = Some r ->
     routedClean g (hotLevels g hs) L idx r = Ok c -> le2 c) ->
  snapPolygon g P levels cfg = Ok res ->
  forall L ps poly x e, In (L, ps) res -> In poly ps -> In x poly -> In e (cedges x) ->
    exists idx r a b, nth_error P idx = Some r /\
      In (a, b) (dedges (ensureCorrectWindingOrder r (negb (Nat.eqb idx 0)))) /\
      (In e (ProofsBasics.pairs (snapClosestPoints g (hotLevels g hs) a b L)) \/
       In (swap e) (ProofsBasics.pairs (snapClosestPoints g (hotLevels g hs) a b L))).
Proof.
  intros g P levels cfg res hs Hr C HLs Hi Hcl.
  exact (snap_edges_routed_steps g P levels cfg res hs Hr C HLs Hi (fun L HL idx r c => Hcl L idx r c HL)).
Qed.
Print Assumptions C18_snapPolygon_edges_are_routed_steps.

(** (E2) signed area ([xprod] = twice the signed area, counter-clockwise positive; shells come out counter-clockwise,
    holes clockwise, so summing [xprod] over all returned rings is the doubled signed area of the returned geometry).
    Input ring number i has the routed-and-cleaned ring c_i and contributes k_i to the collected shells and holes,
    where k_i = xprod c_i, or — the documented whole-ring reversal of splitRing: all pieces landed in the other
    role — k_i = - xprod c_i, and then the routed ring ran the wrong way round (routed shell clockwise, routed hole
    counter-clockwise).  The returned geometry has the sum of the k_i, except that every hole [t] that found no shell
    is returned as a polygon of its own, reversed ([tu]); all of it negated under reverse-winding-order.
    Nothing else: spikes removed by kmpDeduplicate and cancelling shell/hole pairs contribute zero, rings of fewer
    than three vertices (kept or dropped) have area zero.  No area is invented or lost. *)
Theorem C18_end_to_end_area : forall g hots P cfg L ps,
  (forall idx r c, nth_error P idx = Some r -> routedClean g hots L idx r = Ok c -> le2 c) ->
  snapLevel g hots P cfg L = Ok (Some ps) ->
  exists (cks : list (ring * Z)) (tu : list ring),
    Forall2 (fun (ir : nat * ring) (ck : ring * Z) =>
               routedClean g hots L (fst ir) (snd ir) = Ok (fst ck) /\
               (snd ck = xprod (fst ck) \/
                (snd ck = - xprod (fst ck) /\
                 if Nat.eqb (fst ir) 0 then xprod (fst ck) < 0 else 0 < xprod (fst ck))))
            (indexed 0 P) cks /\
    Forall (fun t : ring => (3 <= length t)%nat /\ xprod t <= 0 /\
                            In [if reverseWindingOrder cfg then rev (rev t) else rev t] ps) tu /\
    sum_xprod (concat ps) =
      (if reverseWindingOrder cfg then -1 else 1) * (sumZ (map snd cks) - 2 * sum_xprod tu).
Proof. exact level_area_end_to_end. Qed.
Print Assumptions C18_end_to_end_area.

(** the exact form: when the routed shell does not run clockwise and no routed hole runs counter-clockwise, the
    doubled signed area of the returned geometry is that of the routed-and-cleaned rings, up to holes that found
    no shell *)
Theorem C18_end_to_end_area_roles_kept : forall g hots P cfg L ps,
  (forall idx r c, nth_error P idx = Some r -> routedClean g hots L idx r = Ok c -> le2 c) ->
  (forall idx r c, nth_error P idx = Some r -> routedClean g hots L idx r = Ok c ->
     if Nat.eqb idx 0 then 0 <= xprod c else xprod c <= 0) ->
  snapLevel g hots P cfg L = Ok (Some ps) ->
  exists cs tu,
    routedRings g hots L P = Ok cs /\
    Forall (fun t : ring => (3 <= length t)%nat /\ xprod t <= 0 /\
                            In [if reverseWindingOrder cfg then rev (rev t) else rev t] ps) tu /\
    sum_xprod (concat ps) = (if reverseWindingOrder cfg then -1 else 1) * (sum_xprod cs - 2 * sum_xprod tu).
Proof. exact level_area_roles_kept. Qed.
Print Assumptions C18_end_to_end_area_roles_kept.

(** snapPolygon, every requested level *)
Theorem C18_snapPolygon_area : forall g P levels cfg res hs, insertPolygon g P = Ok hs ->
  (forall L idx r c, In L levels -> nth_error P idx = Some r ->
     routedClean g (hotLevels g hs) L idx r = Ok c -> le2 c) ->
  snapPolygon g P levels cfg = Ok res ->
  forall L ps, In (L, ps) res ->
  exists (cks : list (ring * Z)) (tu : list ring),
    Forall2 (fun (ir : nat * ring) (ck : ring * Z) =>
               routedClean g (hotLevels g hs) L (fst ir) (snd ir) = Ok (fst ck) /\
               (snd ck = xprod (fst ck) \/
                (snd ck = - xprod (fst ck) /\
                 if Nat.eqb (fst ir) 0 then xprod (fst ck) < 0 else 0 < xprod (fst ck))))
            (indexed 0 P) cks /\
    Forall (fun t : ring => (3 <= length t)%nat /\ xprod t <= 0 /\
                            In [if reverseWindingOrder cfg then rev (rev t) else rev t] ps) tu /\
    sum_xprod (concat ps) =
      (if reverseWindingOrder cfg then -1 else 1) * (sumZ (map snd cks) - 2 * sum_xprod tu).
Proof.
  intros g P levels cfg res hs Hi Hcl.
  exact (snap_area_end_to_end g P levels cfg res hs Hi (fun L HL idx r c => Hcl L idx r c HL)).
Qed.
Print Assumptions C18_snapPolygon_area.

(** the two role changes are needed for ARBITRARY lists of rings: the plain equation "returned area = area of the
    routed-and-cleaned rings" is false of the model.  The witnesses are NOT valid polygons (a self-crossing ring whose
    routed ring runs clockwise and is reversed as a whole; a "hole" outside its shell that becomes a shell).  For valid
    polygons neither was ever observed — the harness checks the plain equation on the implementation — but ruling
    them out needs that routing preserves the topology of a valid polygon (C01), which is not a theorem. *)
Theorem C18_end_to_end_area_plain_refuted : exists g P cfg L ps cs,
  class_le2 g (hotsOf g P) L P /\ snapLevel g (hotsOf g P) P cfg L = Ok (Some ps) /\
  routedRings g (hotsOf g P) L P = Ok cs /\ length P = 1%nat /\
  sum_xprod (concat ps) = - (flipz cfg * sum_xprod cs) /\ sum_xprod cs <> 0.
Proof. exact level_area_exact_refuted. Qed.
Print Assumptions C18_end_to_end_area_plain_refuted.

Theorem C18_end_to_end_area_plain_refuted_turned_hole : exists g P cfg L ps cs,
  class_le2 g (hotsOf g P) L P /\ roles_kept g (hotsOf g P) L P /\
  snapLevel g (hotsOf g P) P cfg L = Ok (Some ps) /\ routedRings g (hotsOf g P) L P = Ok cs /\
  sum_xprod (concat ps) <> flipz cfg * sum_xprod cs.
Proof. exact level_area_turned_hole_witness. Qed.
Print Assumptions C18_end_to_end_area_plain_refuted_turned_hole.

(** ** non-vacuity, end to end (32 x 32 pixels of size 2; level 3 has pixels of size 8).
    A valid polygon made of two blocks joined by a corridor of width 2: at level 3 the corridor collapses to the
    line (20,28)-(44,28), which the routed ring runs through in both directions (each end is visited twice: the
    class, not the repeat-free case).  The level returns the two blocks as two polygons plus the kept line; every
    returned edge is an edge of the routed ring; the doubled area 3584 of the routed ring is that of the result.
    With reverse-winding-order and without keep: two clockwise blocks, -3584. *)
Definition c18G : grid := mkGrid (mkExtent 0 0 64 64) 2 5.
Definition c18Neck : list ring :=
  [[(2,2);(22,2);(22,29);(42,29);(42,2);(62,2);(62,62);(42,62);(42,31);(22,31);(22,62);(2,62)]].
Definition c18NeckRouted : ring :=
  [(4,4);(20,4);(20,28);(44,28);(44,4);(60,4);(60,60);(44,60);(44,28);(20,28);(20,60);(4,60)].

Example C18_end_to_end_example_neck :
  (forall L, In L [5; 3; 2]%nat -> class_le2 c18G (hotsOf c18G c18Neck) L c18Neck) /\
  roles_kept c18G (hotsOf c18G c18Neck) 3 c18Neck /\
  routedRings c18G (hotsOf c18G c18Neck) 3 c18Neck = Ok [c18NeckRouted] /\
  cntp (20,28) c18NeckRouted = 2%nat /\ cntp (44,28) c18NeckRouted = 2%nat /\
  snapLevel c18G (hotsOf c18G c18Neck) c18Neck (mkConfig true false false) 3 =
    Ok (Some [[[(4,4);(20,4);(20,28);(20,60);(4,60)]]; [[(44,28);(44,4);(60,4);(60,60);(44,60)]]; [[(20,28);(44,28)]]]) /\
  xprod c18NeckRouted = 3584 /\
  sum_xprod (concat [[[(4,4);(20,4);(20,28);(20,60);(4,60)]]; [[(44,28);(44,4);(60,4);(60,60);(44,60)]]; [[(20,28);(44,28)]]]) = 3584 /\
  snapLevel c18G (hotsOf c18G c18Neck) c18Neck (mkConfig false false true) 3 =
    Ok (Some [[[(4,60);(20,60);(20,28);(20,4);(4,4)]]; [[(44,60);(60,60);(60,4);(44,4);(44,28)]]]) /\
  sum_xprod (concat [[[(4,60);(20,60);(20,28);(20,4);(4,4)]]; [[(44,60);(60,60);(60,4);(44,4);(44,28)]]]) = -3584 /\
  snapPolygon c18G c18Neck [5; 3; 2]%nat (mkConfig true false false) =
    Ok [(5%nat, [[[(3,3);(23,3);(23,29);(43,29);(43,3);(63,3);(63,63);(43,63);(43,31);(23,31);(23,63);(3,63)]]]);
        (3%nat, [[[(4,4);(20,4);(20,28);(20,60);(4,60)]]; [[(44,28);(44,4);(60,4);(60,60);(44,60)]]; [[(20,28);(44,28)]]]);
        (2%nat, [[[(8,8);(24,8);(24,24);(24,56);(8,56)]]; [[(40,24);(40,8);(56,8);(56,56);(40,56)]]; [[(24,24);(40,24)]]])].
Proof.
  split.
  { intros L HL. apply class_le2b_sound. cbn [In] in HL.
    destruct HL as [<- | [<- | [<- | []]]]; vm_compute; reflexivity. }
  split.
  { intros idx r c Hn Hr. destruct idx as [| idx]; [| destruct idx; discriminate].
    cbn [nth_error] in Hn. inversion Hn; subst r. vm_compute in Hr. inversion Hr; subst c. vm_compute. discriminate. }
  vm_compute. repeat split; reflexivity.
Qed.

(** a shell with a spike (collapsing to a line at level 3, its foot (20,44) visited twice) and a hole: the hole is
    matched to the shell; the doubled areas 3200 (shell) and -128 (hole) of the routed rings add up to the result *)
Definition c18Spike : list ring :=
  [[(2,2);(40,2);(40,40);(21,40);(20,60);(19,40);(2,40)]; [(10,10);(10,20);(20,20);(20,10)]].

Example C18_end_to_end_example_spike_and_hole :
  class_le2 c18G (hotsOf c18G c18Spike) 3 c18Spike /\
  routedRings c18G (hotsOf c18G c18Spike) 3 c18Spike =
    Ok [[(4,4);(44,4);(44,44);(20,44);(20,60);(20,44);(4,44)]; [(12,12);(12,20);(20,20);(20,12)]] /\
  xprod [(4,4);(44,4);(44,44);(20,44);(20,60);(20,44);(4,44)] = 3200 /\ xprod [(12,12);(12,20);(20,20);(20,12)] = -128 /\
  snapLevel c18G (hotsOf c18G c18Spike) c18Spike (mkConfig true false false) 3 =
    Ok (Some [[[(4,4);(44,4);(44,44);(20,44);(4,44)]; [(12,12);(12,20);(20,20);(20,12)]]; [[(20,44);(20,60)]]]) /\
  sum_xprod (concat [[[(4,4);(44,4);(44,44);(20,44);(4,44)]; [(12,12);(12,20);(20,20);(20,12)]]; [[(20,44);(20,60)]]]) = 3200 - 128.
Proof. split; [apply class_le2b_sound; vm_compute; reflexivity |]. vm_compute. repeat split; reflexivity. Qed.

(** * the nesting clause, vertex form — PARTIAL (Snap/ProofsJoinC18b.v).

    What the model's matching guarantees, for every list of rings and every configuration: in every polygon of the
    level (before the reverse-winding-order flag reverses its rings, [ps0]) every hole [h] was attached to its shell
    [o] because the model's own point-in-ring test answered "contained or on the boundary" for a vertex of [h]
    ([vertex_contained o h]: exists v on, In v h /\ ringContains o v = Ok (true, on)) — the vertex that made the
    shell the single winner, or one of those that made it a candidate when the largest candidate is taken.
    Holes of which no shell contains a vertex are not attached at all: they become shells of their own.
    MISSING for the clause of the property ("every hole lies inside or on its shell"):
    (a) only ONE vertex of the hole is known to be in or on the shell; that all other points of the hole are inside
        needs that hole and shell do not cross, i.e. that routing preserves the topology of a valid polygon (C01),
        which is not a theorem (search only);
    (b) [ringContains] itself is the model of the implementation's ray test (held to it by correspondence); only its
        boundary answer has an exact specification here ([C18_ringContains_boundary_exact]); that its parity answer
        is the crossing number of the ring is not proved. *)
From Texel Require Import Snap.ProofsJoinC18b.

Theorem C18_nesting_vertex_partial : forall g hots P cfg L ps, snapLevel g hots P cfg L = Ok (Some ps) ->
  exists ps0 pls, ps = flipb (reverseWindingOrder cfg) ps0 ++ map (fun pl : ring => [pl]) pls /\
    Forall (fun p : polygon => exists o a, p = o :: a /\
              Forall (fun h : ring => exists v on, In v h /\ ringContains o v = Ok (true, on)) a) ps0 /\
    Forall (fun pl : ring => (1 <= length pl <= 2)%nat) pls.
Proof. exact level_nested. Qed.
Print Assumptions C18_nesting_vertex_partial.

(** without the flag, directly on the returned polygons *)
Theorem C18_nesting_vertex_partial_noflip : forall g hots P cfg L ps, reverseWindingOrder cfg = false ->
  snapLevel g hots P cfg L = Ok (Some ps) ->
  forall shell holes h, In (shell :: holes) ps -> In h holes ->
    exists v on, In v h /\ ringContains shell v = Ok (true, on).
Proof. exact level_nested_noflip. Qed.
Print Assumptions C18_nesting_vertex_partial_noflip.

(** the component: matchInnersToPolygons on single-ring polygons *)
Theorem C18_match_attaches_on_contained_vertex : forall (outs ins : list ring) ps,
  matchInnersToPolygons (map (fun o => [o]) outs) ins = Ok ps ->
  Forall (fun p : polygon => exists o a, p = o :: a /\
            Forall (fun h : ring => exists v on, In v h /\ ringContains o v = Ok (true, on)) a) ps.
Proof. exact match_nested. Qed.
Print Assumptions C18_match_attaches_on_contained_vertex.

(** when ringContains reports the boundary, the point is exactly on a closed edge of the ring (collinear with its
    end points and within their bounding box), the closing edge first-last included *)
Theorem C18_ringContains_boundary_exact : forall (o : ring) v b, ringContains o v = Ok (b, true) ->
  exists a c, (In (a, c) (ProofsBasics.pairs o) \/ (a = hd (0, 0) o /\ c = last o (0, 0))) /\
    (fst c - fst a) * (snd v - snd a) = (snd c - snd a) * (fst v - fst a) /\
    Z.min (fst a) (fst c) <= fst v <= Z.max (fst a) (fst c) /\
    Z.min (snd a) (snd c) <= snd v <= Z.max (snd a) (snd c).
Proof. exact ringContains_on. Qed.
Print Assumptions C18_ringContains_boundary_exact.

(** non-vacuity: the shell with a spike and a hole (level 3): the hole's first vertex (12,12) is strictly inside the
    returned shell; a hole touching the shell's corner pixel is attached through a boundary vertex *)
Example C18_nesting_vertex_example :
  snapLevel c18G (hotsOf c18G c18Spike) c18Spike (mkConfig true false false) 3 =
    Ok (Some [[[(4,4);(44,4);(44,44);(20,44);(4,44)]; [(12,12);(12,20);(20,20);(20,12)]]; [[(20,44);(20,60)]]]) /\
  ringContains [(4,4);(44,4);(44,44);(20,44);(4,44)] (12,12) = Ok (true, false) /\
  ringContains [(4,4);(44,4);(44,44);(20,44);(4,44)] (44,20) = Ok (true, true) /\
  ringContains [(4,4);(44,4);(44,44);(20,44);(4,44)] (52,20) = Ok (false, false).
Proof. vm_compute. repeat split; reflexivity. Qed.
