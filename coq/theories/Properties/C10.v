(** * C10 — every feature reaches every target exactly as it should.

    The theorems are about the transition system of Pipe/Model.v, the model of
    processing/processing.go (Reader, Snapper = processFeatures, Router = writeFeaturesToTargets,
    one Writer per target, Main = ProcessFeatures; unbuffered channels as rendezvous; close; two wait
    groups).  They quantify over ALL configurations [cfg] (any number of targets, any stream of any
    length and mix of geometry kinds, any snapping outcome per feature, part and tile matrix) and over
    ALL schedules: [reachable cfg s] is "some sequence of enabled steps leads to s" and [exec] is any
    such sequence; nothing is bounded.

    [wf_config cfg] is the contract of the inputs and nothing else: the targets are the keys of a Go
    map (no duplicates), every outcome is a Go map (no duplicate keys) with keys among the requested
    tile matrices, and the processPolygonFunc returns no entry with zero polygons for a Polygon.
    Outside that contract the real code panics at processing.go:39 / :107, and so does the model
    ([C10_outside_contract_panics]).

    What target [i] must get is [expected cfg i = flat_map (feat_msgs i) (c_src cfg)], with
    [deliver] (C10_deliver_spec) saying: a non-polygon -> its own geometry untouched; a polygon ->
    nothing if dropped, the polygon if one, ONE multipolygon if several; a multipolygon -> one
    multipolygon of the parts' results in part order, nothing if there are none.  A message is the
    pair (feature identity standing for the original Columns(), geometry). *)
From Coq Require Import ZArith NArith List.
From Texel Require Import Pipe.Model Pipe.ProofsBase Pipe.ProofsInv Pipe.ProofsLive Pipe.ProofsMon.
Import ListNotations.
Open Scope Z_scope.

(** the invariant of DESIGN.md: in every reachable state, for every target,
    handled ++ in flight (writer, router, snapper) ++ still in the source = expected *)
Theorem C10_invariant : forall cfg s, wf_config cfg -> reachable cfg s ->
  forall i, In i (c_targets cfg) -> recvd i s ++ inflight i s ++ future i s = expected cfg i.
Proof. exact data_invariant. Qed.
Print Assumptions C10_invariant.

(** at every moment of every schedule a target has handled a prefix of its expected sequence:
    no duplicate, no reordering, no foreign feature, no foreign geometry — ever *)
Theorem C10_received_prefix : forall cfg s, wf_config cfg -> reachable cfg s ->
  forall i, In i (c_targets cfg) -> exists rest, expected cfg i = recvd i s ++ rest.
Proof. exact received_prefix. Qed.
Print Assumptions C10_received_prefix.

(** when all goroutines are gone, every target has handled exactly its expected sequence and finished *)
Theorem C10_final_delivery : forall cfg s, wf_config cfg -> reachable cfg s -> final s = true ->
  forall i, In i (c_targets cfg) -> recvd i s = expected cfg i /\ finished i s = true.
Proof. exact final_delivery. Qed.
Print Assumptions C10_final_delivery.

(** the terminal state does not depend on the schedule *)
Theorem C10_final_state_unique : forall cfg s, wf_config cfg -> reachable cfg s -> final s = true ->
  s = final_state cfg.
Proof. exact final_state_unique. Qed.
Print Assumptions C10_final_state_unique.

(** the fan-out computed with Go maps (range over the result map, processMultiPolygon's append per key,
    the tmIDs loop) delivers to target i exactly what [deliver] says *)
Theorem C10_fanout_is_deliver : forall ts f i, NoDup ts -> wf_feature ts f -> In i ts ->
  pend_msgs (f_id f) i (snd (fanout ts f)) = feat_msgs i f.
Proof. exact fanout_deliver. Qed.
Print Assumptions C10_fanout_is_deliver.

(** what [deliver] is *)
Theorem C10_deliver_spec : forall i id,
  deliver i (MkFeature id KOther) = Some GOrig
  /\ (forall o, deliver i (MkFeature id (KPolygon o))
                = match lookup i o with [] => None | [p] => Some (GPoly p) | ps => Some (GMulti ps) end)
  /\ (forall parts, deliver i (MkFeature id (KMulti parts))
                    = match flat_map (lookup i) parts with [] => None | ps => Some (GMulti ps) end).
Proof. exact deliver_spec. Qed.
Print Assumptions C10_deliver_spec.

(** source order, each feature at most once: the identities a target gets are the source identities
    filtered by "has a geometry for this target" *)
Theorem C10_expected_in_source_order : forall i src,
  map fst (expected_of i src) = map f_id (filter (delivered i) src).
Proof. exact expected_ids. Qed.
Print Assumptions C10_expected_in_source_order.

(** no reachable panic: not line 39, not line 107, no send on a closed channel, no negative wait group *)
Theorem C10_no_panic : forall cfg s, wf_config cfg -> reachable cfg s -> s_panic s = None.
Proof. exact no_panic. Qed.
Print Assumptions C10_no_panic.

(** tie to the implementation: the monitor evaluated on histories recorded by fake targets is sound.
    Every trace of the system is accepted ... *)
Theorem C10_trace_prefix_accepted : forall cfg ls s, wf_config cfg -> exec cfg (init cfg) ls s ->
  accepts_prefix cfg (obs_trace ls) = true.
Proof. exact trace_prefix_accepted. Qed.
Print Assumptions C10_trace_prefix_accepted.

Theorem C10_trace_accepted : forall cfg ls s, wf_config cfg -> exec cfg (init cfg) ls s -> s_main s = MRet ->
  accepts cfg (obs_trace ls) = true.
Proof. exact trace_accepted. Qed.
Print Assumptions C10_trace_accepted.

(** ... and an accepted complete history has the C10 (and C11) shape, whatever produced it *)
Theorem C10_accepted_complete_ok : forall cfg h, accepts cfg h = true -> history_ok cfg h.
Proof. exact accepted_complete_ok. Qed.
Print Assumptions C10_accepted_complete_ok.

(** the content-only check used in Corr/C10.v means what it should *)
Theorem C10_recv_ok_sound : forall cfg h, recv_ok cfg h = true ->
  (forall i, In i (c_targets cfg) -> recvs_of i h = expected cfg i)
  /\ (forall e k, In e h -> event_tm e = Some k -> In k (c_targets cfg)).
Proof. exact recv_ok_sound. Qed.
Print Assumptions C10_recv_ok_sound.

(** ** Non-vacuity: a concrete configuration — 2 targets, 5 features: a polygon kept on 3 and dropped
    on 5; a polygon split in two on 5 and kept on 3; a point; a multipolygon whose parts are kept, dropped
    and split; a polygon dropped everywhere. *)
Definition ex_cfg : config := MkConfig [3; 5]
  [ MkFeature 10%N (KPolygon [(3, [100%N])]);
    MkFeature 11%N (KPolygon [(5, [101%N; 102%N]); (3, [103%N])]);
    MkFeature 12%N KOther;
    MkFeature 13%N (KMulti [[(3, [104%N]); (5, [])]; [(5, [105%N]); (3, [106%N; 107%N])]]);
    MkFeature 14%N (KPolygon []) ].

Example C10_ex_wf : wf_config ex_cfg.
Proof. apply wf_configb_sound. vm_compute. reflexivity. Qed.

Example C10_ex_expected :
  expected ex_cfg 3 = [(10%N, GPoly 100%N); (11%N, GPoly 103%N); (12%N, GOrig); (13%N, GMulti [104%N; 106%N; 107%N])]
  /\ expected ex_cfg 5 = [(11%N, GMulti [101%N; 102%N]); (12%N, GOrig); (13%N, GMulti [105%N])].
Proof. vm_compute. split; reflexivity. Qed.

(** two different schedules (always the first enabled label / always the last) both reach the final state,
    with different interleavings of the observable events *)
Example C10_ex_final_reachable :
  let ls1 := fst (run_sched ex_cfg pick_first 1000 (init ex_cfg)) in
  let ls2 := fst (run_sched ex_cfg pick_last 1000 (init ex_cfg)) in
  exec ex_cfg (init ex_cfg) ls1 (final_state ex_cfg) /\ exec ex_cfg (init ex_cfg) ls2 (final_state ex_cfg)
  /\ obs_trace ls1 <> obs_trace ls2
  /\ accepts ex_cfg (obs_trace ls1) = true /\ accepts ex_cfg (obs_trace ls2) = true
  /\ final (final_state ex_cfg) = true /\ length ls1 = 52%nat.
Proof.
  cbv zeta. split; [apply exec_run; vm_compute; reflexivity|]. split; [apply exec_run; vm_compute; reflexivity|].
  split; [vm_compute; discriminate|]. vm_compute. repeat split; reflexivity.
Qed.

(** a reachable intermediate state with something in every position of the invariant *)
Example C10_ex_midway :
  let s := snd (run_sched ex_cfg pick_last 20 (init ex_cfg)) in
  reachable ex_cfg s /\ recvd 3 s <> [] /\ inflight 3 s <> [] /\ future 3 s <> []
  /\ recvd 3 s ++ inflight 3 s ++ future 3 s = expected ex_cfg 3.
Proof.
  cbv zeta. split.
  - exists (fst (run_sched ex_cfg pick_last 20 (init ex_cfg))). apply exec_run. vm_compute. reflexivity.
  - split; [vm_compute; discriminate|]. split; [vm_compute; discriminate|]. split; [vm_compute; discriminate|].
    vm_compute. reflexivity.
Qed.

(** the monitor rejects what C10 forbids: a duplicate, a reordering, a wrong geometry, a delivery for a dropped feature *)
Example C10_ex_rejects :
  let cfg := MkConfig [3] [MkFeature 1%N (KPolygon [(3, [7%N; 8%N])]); MkFeature 2%N KOther; MkFeature 3%N (KPolygon [])] in
  accepts cfg [ERecv 3 (1%N, GMulti [7%N; 8%N]); ERecv 3 (2%N, GOrig); EFinish 3; EReturn] = true
  /\ accepts cfg [ERecv 3 (1%N, GMulti [7%N; 8%N]); ERecv 3 (1%N, GMulti [7%N; 8%N]); ERecv 3 (2%N, GOrig); EFinish 3; EReturn] = false
  /\ accepts cfg [ERecv 3 (2%N, GOrig); ERecv 3 (1%N, GMulti [7%N; 8%N]); EFinish 3; EReturn] = false
  /\ accepts cfg [ERecv 3 (1%N, GPoly 7%N); ERecv 3 (2%N, GOrig); EFinish 3; EReturn] = false
  /\ accepts cfg [ERecv 3 (1%N, GMulti [7%N; 8%N]); ERecv 3 (2%N, GOrig); ERecv 3 (3%N, GOrig); EFinish 3; EReturn] = false
  /\ accepts cfg [ERecv 3 (1%N, GMulti [7%N; 8%N]); EFinish 3; EReturn] = false.
Proof. vm_compute. repeat split; reflexivity. Qed.

(** outside the contract the model panics like the code: an entry with zero polygons (line 39), a tile
    matrix that is not a target (line 107) *)
Definition ex_bad1 : config := MkConfig [3] [MkFeature 1%N (KPolygon [(3, [])])].
Definition ex_bad2 : config := MkConfig [3] [MkFeature 1%N (KPolygon [(4, [9%N])])].

Example C10_outside_contract_panics :
  (exists ls s, exec ex_bad1 (init ex_bad1) ls s /\ s_panic s = Some (PanicNoPolygon 3))
  /\ (exists ls s, exec ex_bad2 (init ex_bad2) ls s /\ s_panic s = Some (PanicNoChannel 4)).
Proof.
  split.
  - exists [LMainStart; LReadSend; LSnapCompute; LSnapSend 3]. eexists. split; [apply exec_run; vm_compute; reflexivity | reflexivity].
  - exists [LMainStart; LRouterSpawn; LReadSend; LSnapCompute; LSnapSend 4; LDeliver]. eexists.
    split; [apply exec_run; vm_compute; reflexivity | reflexivity].
Qed.

(** ** Source tie: the model and the text of /repo/processing/processing.go (details: Properties/C11.v)

    REGENERATED on every run (translator/pipe.go -> coq/gen/PipeGen.v): [gen_pipe_skeleton], every statement of
    ProcessFeatures, readFeaturesFromSource, processFeatures, writeFeaturesToTargets, processMultiPolygon and
    polygonsToMulti as a term of the skeleton language (Pipe/Skeleton.v).  For C10 what matters in it: the type switch
    of processFeatures with its three send loops (range over the result map / over tmIDs), what is sent
    (wrapFeatureForTileMatrix(feature, tmID, ..) as source text), the one-polygon / polygonsToMulti branch, the loop
    nest and the append of processMultiPolygon, the Router's lookup targetChannels[tmID] — the statements [fanout],
    [merge_parts], [geom_of_polys], [find_writer] of Pipe/Model.v were written from ([model_skeleton] names them).
    STAYS MODELLED: the model itself; the meaning of the [SOther] statements (their text is compared, not executed). *)
From Coq Require Import String.
From Texel Require Import Pipe.Skeleton Pipe.ProofsGenSkeleton.
From Texel.Gen Require Import PipeGen.

Theorem C10_source_tie_skeleton : gen_pipe_skeleton = model_skeleton.
Proof. exact gen_skeleton_is_model. Qed.
Print Assumptions C10_source_tie_skeleton.

(** the regenerated fan-out statements: processMultiPolygon is the loop nest with the append per tile matrix id;
    the default branch of the type switch sends the untouched geometry (nil) once per tmID, in the order of tmIDs *)
Example C10_ex_skeleton_fanout :
  find_func "processMultiPolygon"%string (sk_funcs gen_pipe_skeleton) = Some model_processMultiPolygon
  /\ find_func "polygonsToMulti"%string (sk_funcs gen_pipe_skeleton) = Some model_polygonsToMulti
  /\ (exists pre post, fn_body model_processMultiPolygon
        = (pre ++ [SRange RSlice "_" "polygon" "multiPolygon"
                    [SOther "newPolygonsPerTileMatrix := f(polygon, tileMatrixIDs)";
                     SRange RMap "tmID" "newPolygons" "newPolygonsPerTileMatrix"
                       [SRange RSlice "_" "newPolygon" "newPolygons"
                          [SOther "newMultiPolygonPerTileMatrix[tmID] = append(newMultiPolygonPerTileMatrix[tmID], newPolygon)"]]]] ++ post)%list)
  /\ sk_outside gen_pipe_skeleton = [].
Proof.
  vm_compute. split; [reflexivity|]. split; [reflexivity|]. split; [|reflexivity].
  eexists [_]. eexists [_]. reflexivity.
Qed.

(** ** Delivery, for the runs of the skeleton semantics of the regenerated skeleton (converse source tie, Properties/C11.v)

    [crun] (Pipe/Converse.v): a run of the skeleton semantics (Pipe/SkeletonSem.v) of the regenerated skeleton from
    ProcessFeatures(source, targets, f), ANY schedule, whose data choices (is there another feature, type switch, keys
    of the send loops, line 39, the tile matrix id read by the Router) follow the coupled model state [s]
    ([C11_source_tie_skeleton_runs_are_model_runs]).  When such a run has ended with every goroutine returned, the
    coupled model state is THE final state: every target has handled exactly its expected sequence — each feature
    once, in source order, with the geometry of its own tile matrix, nothing for a dropped feature — and has finished. *)
From Texel Require Import Pipe.SkeletonSem Pipe.Converse Pipe.ProofsGenConverse.

Theorem C10_skeleton_final_delivery : forall cfg acts evs g s, wf_config cfg ->
  let Pg := program gen_pipe_skeleton in
  crun Pg cfg (ginit Pg (c_targets cfg)) (init cfg) acts evs g s -> gfinal g = true ->
  s = final_state cfg /\ forall i, In i (c_targets cfg) -> recvd i s = expected cfg i /\ finished i s = true.
Proof. exact gen_skeleton_final_delivery. Qed.
Print Assumptions C10_skeleton_final_delivery.
