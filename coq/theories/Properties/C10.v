(** * C10 — every feature reaches every target exactly as it should.

    The theorems are about the transition system of Pipe/Model.v, the model of
    processing/processing.go (Reader, Snapper = processFeatures, Router = writeFeaturesToTargets,
    one Writer per target, Main = ProcessFeatures; unbuffered channels as rendezvous; close; two wait
    groups).  They quantify over ALL configurations [cfg] (any number of targets, any stream of any
    length and mix of geometry kinds, any snapping outcome per feature, part and tile matrix) and over
    ALL schedules: [reachable cfg s] is "some sequence of enabled steps leads to s" and [exec] is any
    such sequence; nothing is bounded.

    [wf_config cfg] is the contract of the inputs and nothing else: the targets are the keys of a Go
    map (no duplicates), every outcome is a Go map (no duplicate keys) with keys among the requested
    tile matrices, and the processPolygonFunc returns no entry with zero polygons for a Polygon.
    Outside that contract the real code panics at processing.go:39 / :107, and so does the model
    ([C10_outside_contract_panics]).

    What target [i] must get is [expected cfg i = flat_map (feat_msgs i) (c_src cfg)], with
    [deliver] (C10_deliver_spec) saying: a non-polygon -> its own geometry untouched; a polygon ->
    nothing if dropped, the polygon if one, ONE multipolygon if several; a multipolygon -> one
    multipolygon of the parts' results in part order, nothing if there are none.  A message is the
    pair (feature identity standing for the original Columns(), geometry). *)
From Coq Require Import ZArith NArith List.
From Texel Require Import Pipe.Model Pipe.ProofsBase Pipe.ProofsInv Pipe.ProofsLive Pipe.ProofsMon.
Import ListNotations.
Open Scope Z_scope.

(** the invariant of DESIGN.md: in every reachable state, for every target,
    handled ++ in flight (writer, router, snapper) ++ still in the source = expected *)
Theorem C10_invariant : forall cfg s, wf_config cfg -> reachable cfg s ->
  forall i, In i (c_targets cfg) -> recvd i s ++ inflight i s ++ future i s = expected cfg i.
Proof. exact data_invariant. Qed.
Print Assumptions C10_invariant.

(** at every moment of every schedule a target has handled a prefix of its expected sequence:
    no duplicate, no reordering, no foreign feature, no foreign geometry — ever *)
Theorem C10_received_prefix : forall cfg s, wf_config cfg -> reachable cfg s ->
  forall i, In i (c_targets cfg) -> exists rest, expected cfg i = recvd i s ++ rest.
Proof. exact received_prefix. Qed.
Print Assumptions C10_received_prefix.

(** when all goroutines are gone, every target has handled exactly its expected sequence and finished *)
Theorem C10_final_delivery : forall cfg s, wf_config cfg -> reachable cfg s -> final s = true ->
  forall i, In i (c_targets cfg) -> recvd i s = expected cfg i /\ finished i s = true.
Proof. exact final_delivery. Qed.
Print Assumptions C10_final_delivery.

(** the terminal state does not depend on the schedule *)
Theorem C10_final_state_unique : forall cfg s, wf_config cfg -> reachable cfg s -> final s = true ->
  s = final_state cfg.
Proof. exact final_state_unique. Qed.
Print Assumptions C10_final_state_unique.

(** the fan-out computed with Go maps (range over the result map, processMultiPolygon's append per key,
    the tmIDs loop) delivers to target i exactly what [deliver] says *)
Theorem C10_fanout_is_deliver : forall ts f i, NoDup ts -> wf_feature ts f -> In i ts ->
  pend_msgs (f_id f) i (snd (fanout ts f)) = feat_msgs i f.
Proof. exact fanout_deliver. Qed.
Print Assumptions C10_fanout_is_deliver.

(** what [deliver] is *)
Theorem C10_deliver_spec : forall i id,
  deliver i (MkFeature id KOther) = Some GOrig
  /\ (forall o, deliver i (MkFeature id (KPolygon o))
                = match lookup i o with [] => None | [p] => Some (GPoly p) | ps => Some (GMulti ps) end)
  /\ (forall parts, deliver i (MkFeature id (KMulti parts))
                    = match flat_map (lookup i) parts with [] => None | ps => Some (GMulti ps) end).
Proof. exact deliver_spec. Qed.
Print Assumptions C10_deliver_spec.

(** source order, each feature at most once: the identities a target gets are the source identities
    filtered by "has a geometry for this target" *)
Theorem C10_expected_in_source_order : forall i src,
  map fst (expected_of i src) = map f_id (filter (delivered i) src).
Proof. exact expected_ids. Qed.
Print Assumptions C10_expected_in_source_order.

(** no reachable panic: not line 39, not line 107, no send on a closed channel, no negative wait group *)
Theorem C10_no_panic : forall cfg s, wf_config cfg -> reachable cfg s -> s_panic s = None.
Proof. exact no_panic. Qed.
Print Assumptions C10_no_panic.

(** tie to the implementation: the monitor evaluated on histories recorded by fake targets is sound.
    Every trace of the system is accepted ... *)
Theorem C10_trace_prefix_accepted : forall cfg ls s, wf_config cfg -> exec cfg (init cfg) ls s ->
  accepts_prefix cfg (obs_trace ls) = true.
Proof. exact trace_prefix_accepted. Qed.
Print Assumptions C10_trace_prefix_accepted.

Theorem C10_trace_accepted : forall cfg ls s, wf_config cfg -> exec cfg (init cfg) ls s -> s_main s = MRet ->
  accepts cfg (obs_trace ls) = true.
Proof. exact trace_accepted. Qed.
Print Assumptions C10_trace_accepted.

(** ... and an accepted complete history has the C10 (and C11) shape, whatever produced it *)
Theorem C10_accepted_complete_ok : forall cfg h, accepts cfg h = true -> history_ok cfg h.
Proof. exact accepted_complete_ok. Qed.
Print Assumptions C10_accepted_complete_ok.

(** the content-only check used in Corr/C10.v means what it should *)
Theorem C10_recv_ok_sound : forall cfg h, recv_ok cfg h = true ->
  (forall i, In i (c_targets cfg) -> recvs_of i h = expected cfg i)
  /\ (forall e k, In e h -> event_tm e = Some k -> In k (c_targets cfg)).
Proof. exact recv_ok_sound. Qed.
Print Assumptions C10_recv_ok_sound.

(** ** Non-vacuity: a concrete configuration — 2 targets, 5 features: a polygon kept on 3 and dropped
    on 5; a polygon split in two on 5 and kept on 3; a point; a multipolygon whose parts are kept, dropped
    and split; a polygon dropped everywhere. *)
Definition ex_cfg : config := MkConfig [3; 5]
  [ MkFeature 10%N (KPolygon [(3, [100%N])]);
    MkFeature 11%N (KPolygon [(5, [101%N; 102%N]); (3, [103%N])]);
    MkFeature 12%N KOther;
    MkFeature 13%N (KMulti [[(3, [104%N]); (5, [])]; [(5, [105%N]); (3, [106%N; 107%N])]]);
    MkFeature 14%N (KPolygon []) ].

Example C10_ex_wf : wf_config ex_cfg.
Proof. apply wf_configb_sound. vm_compute. reflexivity. Qed.

Example C10_ex_expected :
  expected ex_cfg 3 = [(10%N, GPoly 100%N); (11%N, GPoly 103%N); (12%N, GOrig); (13%N, GMulti [104%N; 106%N; 107%N])]
  /\ expected ex_cfg 5 = [(11%N, GMulti [101%N; 102%N]); (12%N, GOrig); (13%N, GMulti [105%N])].
Proof. vm_compute. split; reflexivity. Qed.

(** two different schedules (always the first enabled label / always the last) both reach the final state,
    with different interleavings of the observable events *)
Example C10_ex_final_reachable :
  let ls1 := fst (run_sched ex_cfg pick_first 1000 (init ex_cfg)) in
  let ls2 := fst (run_sched ex_cfg pick_last 1000 (init ex_cfg)) in
  exec ex_cfg (init ex_cfg) ls1 (final_state ex_cfg) /\ exec ex_cfg (init ex_cfg) ls2 (final_state ex_cfg)
  /\ obs_trace ls1 <> obs_trace ls2
  /\ accepts ex_cfg (obs_trace ls1) = true /\ accepts ex_cfg (obs_trace ls2) = true
  /\ final (final_state ex_cfg) = true /\ length ls1 = 52%nat.
Proof.
  cbv zeta. split; [apply exec_run; vm_compute; reflexivity|]. split; [apply exec_run; vm_compute; reflexivity|].
  split; [vm_compute; discriminate|]. vm_compute. repeat split; reflexivity.
Qed.

(** a reachable intermediate state with something in every position of the invariant *)
Example C10_ex_midway :
  let s := snd (run_sched ex_cfg pick_last 20 (init ex_cfg)) in
  reachable ex_cfg s /\ recvd 3 s <> [] /\ inflight 3 s <> [] /\ future 3 s <> []
  /\ recvd 3 s ++ inflight 3 s ++ future 3 s = expected ex_cfg 3.
Proof.
  cbv zeta. split.
  - exists (fst (run_sched ex_cfg pick_last 20 (init ex_cfg))). apply exec_run. vm_compute. reflexivity.
  - split; [vm_compute; discriminate|]. split; [vm_compute; discriminate|]. split; [vm_compute; discriminate|].
    vm_compute. reflexivity.
Qed.

(** the monitor rejects what C10 forbids: a duplicate, a reordering, a wrong geometry, a delivery for a dropped feature *)
Example C10_ex_rejects :
  let cfg := MkConfig [3] [MkFeature 1%N (KPolygon [(3, [7%N; 8%N])]); MkFeature 2%N KOther; MkFeature 3%N (KPolygon [])] in
  accepts cfg [ERecv 3 (1%N, GMulti [7%N; 8%N]); ERecv 3 (2%N, GOrig); EFinish 3; EReturn] = true
  /\ accepts cfg [ERecv 3 (1%N, GMulti [7%N; 8%N]); ERecv 3 (1%N, GMulti [7%N; 8%N]); ERecv 3 (2%N, GOrig); EFinish 3; EReturn] = false
  /\ accepts cfg [ERecv 3 (2%N, GOrig); ERecv 3 (1%N, GMulti [7%N; 8%N]); EFinish 3; EReturn] = false
  /\ accepts cfg [ERecv 3 (1%N, GPoly 7%N); ERecv 3 (2%N, GOrig); EFinish 3; EReturn] = false
  /\ accepts cfg [ERecv 3 (1%N, GMulti [7%N; 8%N]); ERecv 3 (2%N, GOrig); ERecv 3 (3%N, GOrig); EFinish 3; EReturn] = false
  /\ accepts cfg [ERecv 3 (1%N, GMulti [7%N; 8%N]); EFinish 3; EReturn] = false.
Proof. vm_compute. repeat split; reflexivity. Qed.

(** outside the contract the model panics like the code: an entry with zero polygons (line 39), a tile
    matrix that is not a target (line 107) *)
Definition ex_bad1 : config := MkConfig [3] [MkFeature 1%N (KPolygon [(3, [])])].
Definition ex_bad2 : config := MkConfig [3] [MkFeature 1%N (KPolygon [(4, [9%N])])].

Example C10_outside_contract_panics :
  (exists ls s, exec ex_bad1 (init ex_bad1) ls s /\ s_panic s = Some (PanicNoPolygon 3))
  /\ (exists ls s, exec ex_bad2 (init ex_bad2) ls s /\ s_panic s = Some (PanicNoChannel 4)).
Proof.
  split.
  - exists [LMainStart; LReadSend; LSnapCompute; LSnapSend 3]. eexists. split; [apply exec_run; vm_compute; reflexivity | reflexivity].
  - exists [LMainStart; LRouterSpawn; LReadSend; LSnapCompute; LSnapSend 4; LDeliver]. eexists.
    split; [apply exec_run; vm_compute; reflexivity | reflexivity].
Qed.

(** ** Source tie: the model and the text of /repo/processing/processing.go (details: Properties/C11.v)

    REGENERATED on every run (translator/pipe.go -> coq/gen/PipeGen.v): [gen_pipe_skeleton], every statement of
    ProcessFeatures, readFeaturesFromSource, processFeatures, writeFeaturesToTargets, processMultiPolygon and
    polygonsToMulti as a term of the skeleton language (Pipe/Skeleton.v).  For C10 what matters in it: the type switch
    of processFeatures with its three send loops (range over the result map / over tmIDs), what is sent
    (wrapFeatureForTileMatrix(feature, tmID, ..) as source text), the one-polygon / polygonsToMulti branch, the loop
    nest and the append of processMultiPolygon, the Router's lookup targetChannels[tmID] — the statements [fanout],
    [merge_parts], [geom_of_polys], [find_writer] of Pipe/Model.v were written from ([model_skeleton] names them).
    STAYS MODELLED: the model itself; the meaning of the [SOther] statements (their text is compared, not executed). *)
From Coq Require Import String.
From Texel Require Import Pipe.Skeleton Pipe.ProofsGenSkeleton.
From Texel.Gen Require Import PipeGen.

Theorem C10_source_tie_skeleton : gen_pipe_skeleton = model_skeleton.
Proof. exact gen_skeleton_is_model. Qed.
Print Assumptions C10_source_tie_skeleton.

(** the regenerated fan-out statements: processMultiPolygon is the loop nest with the append per tile matrix id;
    the default branch of the type switch sends the untouched geometry (nil) once per tmID, in the order of tmIDs *)
Example C10_ex_skeleton_fanout :
  find_func "processMultiPolygon"%string (sk_funcs gen_pipe_skeleton) = Some model_processMultiPolygon
  /\ find_func "polygonsToMulti"%string (sk_funcs gen_pipe_skeleton) = Some model_polygonsToMulti
  /\ (exists pre post, fn_body model_processMultiPolygon
        = (pre ++ [SRange RSlice "_" "polygon" "multiPolygon"
                    [SOther "newPolygonsPerTileMatrix := f(polygon, tileMatrixIDs)";
                     SRange RMap "tmID" "newPolygons" "newPolygonsPerTileMatrix"
                       [SRange RSlice "_" "newPolygon" "newPolygons"
                          [SOther "newMultiPolygonPerTileMatrix[tmID] = append(newMultiPolygonPerTileMatrix[tmID], newPolygon)"]]]] ++ post)%list)
  /\ sk_outside gen_pipe_skeleton = [].
Proof.
  vm_compute. split; [reflexivity|]. split; [reflexivity|]. split; [|reflexivity].
  eexists [_]. eexists [_]. reflexivity.
Qed.

(** ** Source tie, DATA side: what processing.go computes, regenerated as executable Gallina

    REGENERATED on every run (translator/pipedata.go -> coq/gen/PipeDataGen.v), statement by statement from the AST:
    [gen_polygonsToMulti], [gen_processMultiPolygon] (the loop nest with `m[k] = append(m[k], v)`), the struct
    featureForTileMatrixWrapper and the interface Feature as Records, [gen_wrapFeatureForTileMatrix], the three methods
    of the wrapper, [gen_processFeatures_body] (everything processFeatures does with ONE received feature: the type
    switch, what is sent under which tile matrix id with which geometry, the panic of line 39, the counters; the output
    channel is the list of the values sent on it, in order) and [gen_writeFeaturesToTargets_body] (the lookup
    targetChannels[feature.TileMatrixID()], its nil test and panic, the send on the channel found).
    Polygons, columns and channels are abstract types (the code never looks inside them); the processPolygonFunc [f] is a
    parameter; every `range` over a Go map iterates in the order given by the parameter [ord] (one site per execution of
    the statement), and the theorems hold for EVERY [ord] that permutes ([ord_ok]).
    Hypotheses: [ord_ok ord] (an iteration visits every key once) and [gomap_wf (f p ts)] (what f returns is a Go map:
    no key twice — the representation invariant of the association list, not a restriction on f).  NOT needed: that the
    keys f returns are among tileMatrixIDs (an unknown id is sent on, and stopped by the Router's lookup:
    [C10_source_tie_data_route]); a nil map from f is the empty list.
    STAYS MODELLED (Pipe/GoData.v, listed at the top of the generated file): Go maps as association lists, slices as
    values, interface values by their dynamic type, Feature's methods as getters, the channels (the skeleton's concern). *)
From Coq Require Import Permutation.
From Texel Require Import Prelude.Base Prelude.GoAssoc Pipe.GoData Pipe.DataTie Pipe.ProofsGenData.
From Texel.Gen Require Import PipeDataGen.
Open Scope list_scope.

(** polygonsToMulti returns a copy of its argument, in order (for every polygon type and every value of the nil
    polygon [make] fills the new slice with): the geometry sent for several polygons is ONE multipolygon of exactly
    them — [GMulti ps] of [geom_of_polys]; no index panic, the fuel of the counting loop suffices *)
Theorem C10_source_tie_data_polygonsToMulti : forall (P : Type) (nilp : P) (ps : list P),
  gen_polygonsToMulti nilp ps = Ok ps.
Proof. exact @gen_polygonsToMulti_copy. Qed.
Print Assumptions C10_source_tie_data_polygonsToMulti.

(** processMultiPolygon, for every polygon type and EVERY iteration order of the maps f returns: it does not panic;
    the result is a Go map in which tile matrix id k holds the concatenation, in part order, of the polygons f
    returned for k, and has no entry for k when f returned none *)
Theorem C10_source_tie_data_processMultiPolygon :
  forall (P : Type) (ord : gen_site -> list Z -> list Z) (mp : list P) (ts : list Z) (f : P -> list Z -> gomap Z (list P)),
  ord_ok ord -> (forall p, gomap_wf (f p ts)) ->
  exists m, gen_processMultiPolygon ord mp ts f = Ok m /\ gomap_wf m
    /\ forall k, gm_get Z.eqb m k
                 = match flat_map (fun p => gm_get_or Z.eqb [] (f p ts) k) mp with [] => None | ps => Some ps end.
Proof. exact @gen_processMultiPolygon_spec. Qed.
Print Assumptions C10_source_tie_data_processMultiPolygon.

(** ... which is the model's [merge_parts]: the same entries (a permutation of the model's association list: the
    position of an entry is the order in which keys were first seen, which depends on the iteration order and is not
    observable in Go), read with the model's [lookup] *)
Theorem C10_source_tie_data_processMultiPolygon_model :
  forall (ord : gen_site -> list Z -> list Z) (mp : list poly) (ts : list tmid) (f : poly -> list tmid -> outcome),
  ord_ok ord -> (forall p, gomap_wf (f p ts)) ->
  exists m, gen_processMultiPolygon ord mp ts f = Ok m
    /\ Permutation m (merge_parts (map (fun p => f p ts) mp))
    /\ gomap_wf m
    /\ (forall k, lookup k m = flat_map (lookup k) (map (fun p => f p ts) mp))
    /\ (forall k, In k (map fst m) <-> flat_map (lookup k) (map (fun p => f p ts) mp) <> []).
Proof. exact gen_processMultiPolygon_model. Qed.
Print Assumptions C10_source_tie_data_processMultiPolygon_model.

(** ... and exactly the model's list when every iteration follows the order of the association lists *)
Theorem C10_source_tie_data_processMultiPolygon_model_id :
  forall (mp : list poly) (ts : list tmid) (f : poly -> list tmid -> outcome),
  (forall p, gomap_wf (f p ts)) ->
  gen_processMultiPolygon ord_id mp ts f = Ok (merge_parts (map (fun p => f p ts) mp)).
Proof. exact gen_processMultiPolygon_model_id. Qed.
Print Assumptions C10_source_tie_data_processMultiPolygon_model_id.

(** the wrapper: Columns() are the wrapped feature's columns, TileMatrixID() the id it was wrapped with, Geometry() the
    new geometry when one was given and the wrapped feature's own geometry otherwise (nil: the non-polygon pass-through) *)
Theorem C10_source_tie_data_wrapper : forall (C P : Type) (ft : gen_Feature C P) (tm : Z) (g : option (ggeometry P)),
  let w := gen_wrapFeatureForTileMatrix ft tm g in
  gen_featureForTileMatrixWrapper_Columns w = Feature_Columns ft
  /\ gen_featureForTileMatrixWrapper_TileMatrixID w = tm
  /\ gen_featureForTileMatrixWrapper_Geometry w = match g with Some x => Some x | None => Feature_Geometry ft end
  /\ featureForTileMatrixWrapper_wrapped w = ft.
Proof. exact @wrapper_methods. Qed.
Print Assumptions C10_source_tie_data_wrapper.

(** THE PER-FEATURE TIE.  [model_feature ts f ft] is the model's feature for the Go feature ft (its kind with the results
    of f); [abs_pend w] reads a sent wrapper as the model's pending entry (TileMatrixID(), newGeometry: nil = GOrig).
    When no entry of the fan-out is without polygons, for EVERY iteration order: the body does not panic, every value it
    sends wraps the feature itself, and the sends are the model's fan-out [fanout ts mf] — as a LIST, in the order of
    tmIDs, for a non-polygon (ordered = true), and as a PERMUTATION of it for a polygon / multipolygon (the order is
    that of the map iteration; the model's Snapper takes the pending entries in any order: [take_key]).  This is the
    strongest statement true for every order: with another order the list differs ([C10_ex_data_orders]).
    The counters: preCount + 1; postCount + 1 iff something is sent or the feature is not a polygon; nonPolygonCount. *)
Theorem C10_source_tie_data_feature :
  forall (nilp : poly) (ord : gen_site -> list Z -> list Z), ord_ok ord ->
  forall (ts : list tmid) (f : poly -> list tmid -> outcome), (forall p, gomap_wf (f p ts)) ->
  forall (ft : gen_Feature fid poly) (out : list gwrapper) (c1 c2 c3 : Z),
  let mf := model_feature ts f ft in
  Forall (fun e : pend => snd e <> None) (snd (fanout ts mf)) ->
  exists sent,
    gen_processFeatures_body nilp ord ts f ft (out, c1, c2, c3)
    = Ok ((out ++ sent, uint64_inc c1, post_after ts mf c2, nonp_after mf c3), None)
    /\ Forall (fun w => featureForTileMatrixWrapper_wrapped w = ft) sent
    /\ (if fst (fanout ts mf) then map abs_pend sent = snd (fanout ts mf)
        else Permutation (map abs_pend sent) (snd (fanout ts mf))).
Proof. exact body_ok. Qed.
Print Assumptions C10_source_tie_data_feature.

(** the same with the identity order: the list itself, for every kind *)
Theorem C10_source_tie_data_feature_id :
  forall (nilp : poly) (ts : list tmid) (f : poly -> list tmid -> outcome) (ft : gen_Feature fid poly)
         (out : list gwrapper) (c1 c2 c3 : Z),
  (forall p, gomap_wf (f p ts)) ->
  let mf := model_feature ts f ft in
  Forall (fun e : pend => snd e <> None) (snd (fanout ts mf)) ->
  exists sent,
    gen_processFeatures_body nilp ord_id ts f ft (out, c1, c2, c3)
    = Ok ((out ++ sent, uint64_inc c1, post_after ts mf c2, nonp_after mf c3), None)
    /\ map abs_pend sent = snd (fanout ts mf).
Proof. exact body_ok_id. Qed.
Print Assumptions C10_source_tie_data_feature_id.

(** an entry without polygons (f returned an id with an empty list for a Polygon — the only way): the panic of
    processing.go:39 for such an id, after the sends of the entries the iteration visited before it — exactly the
    model's [PanicNoPolygon] behaviour: some entries sent, then the entry without geometry *)
Theorem C10_source_tie_data_feature_panic :
  forall (nilp : poly) (ord : gen_site -> list Z -> list Z), ord_ok ord ->
  forall (ts : list tmid) (f : poly -> list tmid -> outcome), (forall p, gomap_wf (f p ts)) ->
  forall (ft : gen_Feature fid poly) (out : list gwrapper) (c1 c2 c3 : Z),
  let mf := model_feature ts f ft in
  Exists (fun e : pend => snd e = None) (snd (fanout ts mf)) ->
  exists sent tm rest,
    gen_processFeatures_body nilp ord ts f ft (out, c1, c2, c3)
    = Ok ((out ++ sent, uint64_inc c1, post_after ts mf c2, nonp_after mf c3),
          Some (GoPanicf "no new polygon for level %v"%string tm))
    /\ Forall (fun w => featureForTileMatrixWrapper_wrapped w = ft) sent
    /\ Permutation (snd (fanout ts mf)) (map abs_pend sent ++ (tm, None) :: rest).
Proof. exact body_panic. Qed.
Print Assumptions C10_source_tie_data_feature_panic.

(** per target, EXACTLY, for every order: under the contract [wf_feature] what the body sends under tile matrix id i
    is what [deliver] prescribes for target i ([feat_msgs]: the feature once with that target's geometry, or nothing),
    and what a target observes of a sent value through the interface is the original columns and the new geometry, or
    the feature's own geometry when none was computed *)
Theorem C10_source_tie_data_feature_delivers :
  forall (nilp : poly) (ord : gen_site -> list Z -> list Z), ord_ok ord ->
  forall (ts : list tmid) (f : poly -> list tmid -> outcome), (forall p, gomap_wf (f p ts)) ->
  forall (ft : gen_Feature fid poly) (out : list gwrapper) (c1 c2 c3 : Z) (i : tmid),
  let mf := model_feature ts f ft in
  NoDup ts -> wf_feature ts mf -> In i ts ->
  exists sent,
    gen_processFeatures_body nilp ord ts f ft (out, c1, c2, c3)
    = Ok ((out ++ sent, uint64_inc c1, post_after ts mf c2, nonp_after mf c3), None)
    /\ pend_msgs (Feature_Columns ft) i (map abs_pend sent) = feat_msgs i mf
    /\ Forall (fun w => observed w = (Feature_Columns ft,
                                      match featureForTileMatrixWrapper_newGeometry w with
                                      | Some g => Some g | None => Feature_Geometry ft end)) sent.
Proof. exact body_delivers. Qed.
Print Assumptions C10_source_tie_data_feature_delivers.

(** the Router's step: the feature goes to the channel stored under its TileMatrixID(), and to no other; without such
    a channel the panic of processing.go:105 *)
Theorem C10_source_tie_data_route :
  forall (C P CH : Type) (chans : gomap Z CH) (w : gen_featureForTileMatrixWrapper C P)
         (routed : list (CH * gen_featureForTileMatrixWrapper C P)),
  gen_writeFeaturesToTargets_body chans w routed
  = Ok (match gm_get Z.eqb chans (featureForTileMatrixWrapper_tileMatrixID w) with
        | Some c => (routed ++ [(c, w)], None)
        | None => (routed, Some (GoPanicf "no target channel for %v"%string (featureForTileMatrixWrapper_tileMatrixID w)))
        end).
Proof. exact @route_spec. Qed.
Print Assumptions C10_source_tie_data_route.

(** ... which happens exactly when the model's Router finds no writer ([PanicNoChannel]), the channel map having one
    entry per target, made in any order *)
Theorem C10_source_tie_data_route_panics_like_model :
  forall (C P CH : Type) (chans : gomap Z CH) (ts : list tmid) (w : gen_featureForTileMatrixWrapper C P)
         (routed : list (CH * gen_featureForTileMatrixWrapper C P)),
  Permutation (map fst chans) ts ->
  (exists st p, gen_writeFeaturesToTargets_body chans w routed = Ok (st, Some p))
  <-> find_writer (gen_featureForTileMatrixWrapper_TileMatrixID w) (map new_writer ts) = None.
Proof. exact @route_panics_like_model. Qed.
Print Assumptions C10_source_tie_data_route_panics_like_model.

(** *** Non-vacuity: a processPolygonFunc, two iteration orders *)
Definition ex_f : poly -> list tmid -> outcome := fun p _ =>
  if (p =? 1)%N then [(3, [100%N]); (5, [104%N])]
  else if (p =? 2)%N then [(5, [105%N]); (3, [106%N; 107%N]); (9, [])]
  else if (p =? 7)%N then [(5, [101%N; 102%N]); (3, [103%N])]
  else if (p =? 8)%N then [(3, [108%N]); (5, [])]
  else [].

Example C10_ex_data_hypotheses :
  ord_ok ord_id /\ ord_ok ord_rev /\ (forall p ts, gomap_wf (ex_f p ts)).
Proof.
  split; [intros s l; apply Permutation_refl|]. split; [intros s l; apply Permutation_sym, Permutation_rev|].
  intros p ts. unfold ex_f, gomap_wf.
  destruct (p =? 1)%N; [|destruct (p =? 2)%N; [|destruct (p =? 7)%N; [|destruct (p =? 8)%N]]];
    apply nodupz_NoDup; reflexivity.
Qed.

(** a multipolygon with parts 1 and 2: the two orders give the same entries at different places; id 9, for which f
    returned no polygon, has no entry *)
Example C10_ex_data_processMultiPolygon :
  gen_processMultiPolygon ord_id [1%N; 2%N] [3; 5] ex_f = Ok [(3, [100%N; 106%N; 107%N]); (5, [104%N; 105%N])]
  /\ gen_processMultiPolygon ord_rev [1%N; 2%N] [3; 5] ex_f = Ok [(5, [104%N; 105%N]); (3, [100%N; 106%N; 107%N])]
  /\ merge_parts [ex_f 1%N [3; 5]; ex_f 2%N [3; 5]] = [(3, [100%N; 106%N; 107%N]); (5, [104%N; 105%N])].
Proof. vm_compute. repeat split; reflexivity. Qed.

(** a polygon split in two on 5 and kept on 3: sent as (5, multipolygon) and (3, polygon) in one order, the other way
    round in the other; a point: once per tmID in the order of tmIDs with nil as new geometry; a polygon with an entry
    without polygons: the send of 3, then the panic for 5 — or the panic at once, depending on the order *)
Example C10_ex_data_orders :
  let poly7 := mk_Feature 11%N (Some (GoPolygon 7%N)) in
  let point := mk_Feature 12%N (Some (GoOtherGeom 1%N)) in
  let poly8 := mk_Feature 13%N (Some (GoPolygon 8%N)) in
  let w ft k g := mk_featureForTileMatrixWrapper ft g k in
  gen_processFeatures_body 0%N ord_id [3; 5] ex_f poly7 ([], 0, 0, 0)
  = Ok (([w poly7 5 (Some (GoMultiPolygon [101%N; 102%N])); w poly7 3 (Some (GoPolygon 103%N))], 1, 1, 0), None)
  /\ gen_processFeatures_body 0%N ord_rev [3; 5] ex_f poly7 ([], 0, 0, 0)
  = Ok (([w poly7 3 (Some (GoPolygon 103%N)); w poly7 5 (Some (GoMultiPolygon [101%N; 102%N]))], 1, 1, 0), None)
  /\ gen_processFeatures_body 0%N ord_rev [3; 5] ex_f point ([], 7, 7, 7)
  = Ok (([w point 3 None; w point 5 None], 8, 8, 8), None)
  /\ gen_processFeatures_body 0%N ord_id [3; 5] ex_f poly8 ([], 0, 0, 0)
  = Ok (([w poly8 3 (Some (GoPolygon 108%N))], 1, 1, 0), Some (GoPanicf "no new polygon for level %v"%string 5))
  /\ gen_processFeatures_body 0%N ord_rev [3; 5] ex_f poly8 ([], 0, 0, 0)
  = Ok (([], 1, 1, 0), Some (GoPanicf "no new polygon for level %v"%string 5))
  /\ fanout [3; 5] (model_feature [3; 5] ex_f poly7) = (false, [(5, Some (GMulti [101%N; 102%N])); (3, Some (GPoly 103%N))])
  /\ wf_feature [3; 5] (model_feature [3; 5] ex_f poly7).
Proof.
  cbv zeta. repeat split; try (vm_compute; reflexivity).
  - vm_compute. repeat constructor; cbn; intuition discriminate.
  - vm_compute. intros x [<-|[<-|[]]]; cbn; tauto.
  - repeat constructor; cbn; discriminate.
Qed.

(** ** Delivery, for the runs of the skeleton semantics of the regenerated skeleton (converse source tie, Properties/C11.v)

    [crun] (Pipe/Converse.v): a run of the skeleton semantics (Pipe/SkeletonSem.v) of the regenerated skeleton from
    ProcessFeatures(source, targets, f), ANY schedule, whose data choices (is there another feature, type switch, keys
    of the send loops, line 39, the tile matrix id read by the Router) follow the coupled model state [s]
    ([C11_source_tie_skeleton_runs_are_model_runs]).  When such a run has ended with every goroutine returned, the
    coupled model state is THE final state: every target has handled exactly its expected sequence — each feature
    once, in source order, with the geometry of its own tile matrix, nothing for a dropped feature — and has finished. *)
From Texel Require Import Pipe.SkeletonSem Pipe.Converse Pipe.ProofsGenConverse.

Theorem C10_skeleton_final_delivery : forall cfg acts evs g s, wf_config cfg ->
  let Pg := program gen_pipe_skeleton in
  crun Pg cfg (ginit Pg (c_targets cfg)) (init cfg) acts evs g s -> gfinal g = true ->
  s = final_state cfg /\ forall i, In i (c_targets cfg) -> recvd i s = expected cfg i /\ finished i s = true.
Proof. exact gen_skeleton_final_delivery. Qed.
Print Assumptions C10_skeleton_final_delivery.
