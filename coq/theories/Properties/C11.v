(** * C11 — the pipeline always finishes, and only after every target is done.

    Theorem family [C11_*]: termination, deadlock freedom and "return only after every target has
    finished" for ALL configurations and ALL interleavings of Reader, Snapper, Router, N Writers and Main
    (any sequence of enabled steps; no fairness assumption; no bound on stream length or target count),
    about the transition system of Pipe/Model.v (see Properties/C10.v for the model and [wf_config]).

    PARTIAL — exactly this clause of the property is NOT carried by any theorem here:
      "no stage leaves a goroutine behind and no two stages access shared data without synchronisation"
    A data race or a goroutine outside the five modelled processes cannot be exhibited by a transition
    system whose processes share nothing but channels and wait groups; at model level only the weaker
    facts hold that every modelled process reaches its exit in every maximal run ([C11_stuck_is_final]:
    the only stuck state has reader, snapper, router and all writers exited) and that reader and snapper
    are past their last blocking operation when ProcessFeatures returns ([C11_quiescent_after_return];
    the example [C11_ex_not_waited_for] shows they really may still be running: Main does not wait for
    them).  Races and leaks are searched for dynamically by harness_pipe (go build -race,
    runtime.NumGoroutine after settle) and labelled supporting evidence. *)
From Coq Require Import ZArith NArith List.
From Texel Require Import Pipe.Model Pipe.ProofsBase Pipe.ProofsInv Pipe.ProofsLive Pipe.ProofsMon.
Import ListNotations.
Open Scope Z_scope.

(** no deadlock: every reachable state in which some goroutine of the call is still alive has an enabled step *)
Theorem C11_no_deadlock : forall cfg s, wf_config cfg -> reachable cfg s -> final s = false ->
  exists l s', step cfg s l = Some s'.
Proof. exact no_deadlock. Qed.
Print Assumptions C11_no_deadlock.

(** every step lowers a natural number (the number of steps still to be taken) — any configuration *)
Theorem C11_measure_decreases : forall cfg s l s', step cfg s l = Some s' -> (measure cfg s' < measure cfg s)%nat.
Proof. exact measure_decreases. Qed.
Print Assumptions C11_measure_decreases.

(** so an execution from s has at most [measure cfg s] steps ... *)
Theorem C11_execution_length_bounded : forall cfg s ls s', exec cfg s ls s' -> (length ls <= measure cfg s)%nat.
Proof. exact exec_length_bound. Qed.
Print Assumptions C11_execution_length_bounded.

(** ... and there is no infinite execution, whatever the scheduler does (no fairness needed) *)
Theorem C11_no_infinite_execution : forall cfg (sts : nat -> state),
  ~ (forall n, exists l, step cfg (sts n) l = Some (sts (S n))).
Proof. exact no_infinite_execution. Qed.
Print Assumptions C11_no_infinite_execution.

(** a maximal execution (nothing enabled any more) has reached THE final state: Main returned, every
    process exited, every target has handled exactly its sequence.  Together with the previous theorem:
    every schedule ends there after finitely many steps. *)
Theorem C11_stuck_is_final : forall cfg s, wf_config cfg -> reachable cfg s -> stuck cfg s -> s = final_state cfg.
Proof. exact stuck_is_final. Qed.
Print Assumptions C11_stuck_is_final.

Theorem C11_always_completes : forall cfg s, wf_config cfg -> reachable cfg s ->
  exists ls, exec cfg s ls (final_state cfg).
Proof. exact always_completes. Qed.
Print Assumptions C11_always_completes.

(** ProcessFeatures returns only when every target has finished (its WriteFeatures returned) and has
    handled everything addressed to it — no drop, duplicate or reordering *)
Theorem C11_return_after_finish : forall cfg s, wf_config cfg -> reachable cfg s -> s_main s = MRet ->
  forall i, In i (c_targets cfg) -> finished i s = true /\ recvd i s = expected cfg i.
Proof. exact return_after_finish. Qed.
Print Assumptions C11_return_after_finish.

(** at that moment snapper and reader have closed their channels: only log lines / return are left *)
Theorem C11_quiescent_after_return : forall cfg s, wf_config cfg -> reachable cfg s -> s_main s = MRet ->
  (s_sn s = SLog \/ s_sn s = SExit) /\ (s_rd s = RdClosed \/ s_rd s = RdExit) /\ s_rt s = TDone.
Proof. exact quiescent_after_return. Qed.
Print Assumptions C11_quiescent_after_return.

(** no send on a closed channel, no negative wait group counter, no "should never happen" panic *)
Theorem C11_no_panic : forall cfg s, wf_config cfg -> reachable cfg s -> s_panic s = None.
Proof. exact no_panic. Qed.
Print Assumptions C11_no_panic.

(** on histories (what fake targets record on the implementation): every complete run yields a history in
    which each target finishes exactly once after its last feature, the return is the last event and
    comes after every finish; the executable monitor accepts exactly such shapes *)
Theorem C11_complete_trace_ok : forall cfg ls s, wf_config cfg -> exec cfg (init cfg) ls s -> s_main s = MRet ->
  history_ok cfg (obs_trace ls).
Proof. exact complete_trace_ok. Qed.
Print Assumptions C11_complete_trace_ok.

Theorem C11_accepted_complete_ok : forall cfg h, accepts cfg h = true -> history_ok cfg h.
Proof. exact accepted_complete_ok. Qed.
Print Assumptions C11_accepted_complete_ok.

(** ** Non-vacuity *)

Definition ex_cfg : config := MkConfig [7; 2; 9]
  [ MkFeature 1%N KOther;
    MkFeature 2%N (KPolygon [(9, [20%N; 21%N]); (7, [22%N])]);                      (* split on 9, kept on 7, dropped on 2 *)
    MkFeature 3%N (KMulti [[(2, [23%N])]; [(2, [24%N; 25%N]); (9, [26%N])]; []]);
    MkFeature 4%N (KPolygon []) ].                                               (* dropped everywhere *)

Example C11_ex_wf : wf_config ex_cfg.
Proof. apply wf_configb_sound. vm_compute. reflexivity. Qed.

(** a complete run exists, takes exactly [measure - 1] steps, and its history is accepted *)
Example C11_ex_run :
  let ls := fst (run_sched ex_cfg pick_last 1000 (init ex_cfg)) in
  exec ex_cfg (init ex_cfg) ls (final_state ex_cfg) /\ S (length ls) = measure ex_cfg (init ex_cfg)
  /\ accepts ex_cfg (obs_trace ls) = true /\ stuck ex_cfg (final_state ex_cfg).
Proof.
  cbv zeta. split; [apply exec_run; vm_compute; reflexivity|]. split; [vm_compute; reflexivity|].
  split; [vm_compute; reflexivity | apply final_stuck].
Qed.

(** Main does NOT wait for reader and snapper: a reachable state where ProcessFeatures has returned while
    the snapper is still in its log lines and the reader has not returned from ReadFeatures *)
Example C11_ex_not_waited_for :
  exists s, reachable ex_cfg s /\ s_main s = MRet /\ s_sn s = SLog /\ s_rd s = RdClosed /\ final s = false.
Proof.
  pose (ls := upto_return (fst (run_sched ex_cfg pick_lazy_exit 1000 (init ex_cfg)))).
  destruct (run ex_cfg (init ex_cfg) ls) as [s|] eqn:E; [|vm_compute in E; discriminate].
  exists s. split; [exists ls; now apply exec_run|].
  vm_compute in E. inversion E; subst s. repeat split; reflexivity.
Qed.

(** the monitor rejects what C11 forbids: return before a finish, a receive after finish, a missing finish,
    a missing return (hang), an event after the return *)
Example C11_ex_rejects :
  let cfg := MkConfig [3; 4] [MkFeature 1%N KOther] in
  accepts cfg [ERecv 3 (1%N, GOrig); ERecv 4 (1%N, GOrig); EFinish 4; EFinish 3; EReturn] = true
  /\ accepts cfg [ERecv 3 (1%N, GOrig); ERecv 4 (1%N, GOrig); EFinish 4; EReturn; EFinish 3] = false
  /\ accepts cfg [ERecv 3 (1%N, GOrig); EFinish 4; ERecv 4 (1%N, GOrig); EFinish 3; EReturn] = false
  /\ accepts cfg [ERecv 3 (1%N, GOrig); ERecv 4 (1%N, GOrig); EFinish 4; EReturn] = false
  /\ accepts cfg [ERecv 3 (1%N, GOrig); ERecv 4 (1%N, GOrig); EFinish 4; EFinish 3] = false
  /\ accepts cfg [ERecv 3 (1%N, GOrig); ERecv 4 (1%N, GOrig); EFinish 4; EFinish 3; EReturn; EReturn] = false
  /\ accepts cfg [ERecv 3 (1%N, GOrig); ERecv 4 (1%N, GOrig); EFinish 4; EFinish 4; EFinish 3; EReturn] = false.
Proof. vm_compute. repeat split; reflexivity. Qed.

(** ** Source tie: the model and the text of /repo/processing/processing.go

    REGENERATED on every run (translator/pipe.go -> coq/gen/PipeGen.v): [gen_pipe_skeleton], every statement of
    ProcessFeatures, readFeaturesFromSource, processFeatures, writeFeaturesToTargets (and its two goroutine function
    literals), processMultiPolygon, polygonsToMulti as a term of the skeleton language of Pipe/Skeleton.v —
    make(chan) with its buffer size, go, defer, wg.Add / Done / Wait, send, `v, ok := <-ch`, close, the loops, the
    type switch, panics, calls — every other statement as [SOther "<source text>"]; the signatures of the interface
    methods that are handed a channel; the other functions of package processing that contain any concurrency
    construct (none).  The translator refuses what it does not know (select, a receive in another form, a channel
    handed to an unknown function, range over a channel ...): the generated file then does not compile.

    STAYS MODELLED / TRUSTED: the labelled transition system Pipe/Model.v itself; [model_skeleton] (Pipe/Skeleton.v)
    is its hand-written transcription, statement by statement with the label / state that models it; the contracts of
    Source.ReadFeatures and Target.WriteFeatures (code outside processing.go); for level 2 the small-step semantics
    Pipe/SkeletonSem.v and the reading of the labels as communication actions ([label_events], Pipe/SkeletonSim.v). *)
From Coq Require Import String.
From Texel Require Import Pipe.Skeleton Pipe.SkeletonSem Pipe.SkeletonSim Pipe.ProofsSkeleton Pipe.ProofsGenSkeleton.
From Texel.Gen Require Import PipeGen.

(** Level 1 — a checked transcription: the regenerated skeleton IS the skeleton the model was written from.  An edit
    of one of these functions (wg.Add moved into the goroutine, a buffered channel, an early return without close, a
    send inside a select, a changed loop, a dropped statement) changes the left-hand side. *)
Theorem C11_source_tie_skeleton : gen_pipe_skeleton = model_skeleton.
Proof. exact gen_skeleton_is_model. Qed.
Print Assumptions C11_source_tie_skeleton.

(** Level 2 — PARTIAL (one direction): every run of the model — any configuration whose targets are the keys of a map
    (well-formed features NOT assumed: the runs into the model's panics are covered), any schedule — is a run of the
    skeleton semantics of the regenerated skeleton from ProcessFeatures(source, targets, f): the steps are
    [impl_run], the channel / wait group / goroutine actions performed are exactly those the labels stand for
    ([events_run]), and the state reached is the one the model state stands for ([abs]: program point and variables
    of every goroutine, the closed flag of every channel, both wait group counters; after a panic: a panicked program).
    The converse (every run of the skeleton semantics is, up to the data the skeleton does not follow, a run of the
    model) is proved further down: [C11_source_tie_skeleton_runs_are_model_runs] and the theorems around it.  So this
    theorem shows that the model does nothing the code cannot do, and those that the code (as far as the skeleton
    semantics reads it) does nothing the model cannot do. *)
Theorem C11_source_tie_model_runs_are_skeleton_runs_partial : forall cfg ls s,
  NoDup (c_targets cfg) -> exec cfg (init cfg) ls s ->
  exists g, grun (program gen_pipe_skeleton) (ginit (program gen_pipe_skeleton) (c_targets cfg))
                 (impl_run cfg 0 (init cfg) ls) = Some (g, events_run cfg (init cfg) ls)
            /\ stands_for cfg (gh_run cfg 0 (init cfg) ls) s g.
Proof. exact gen_model_run_is_skeleton_run. Qed.
Print Assumptions C11_source_tie_model_runs_are_skeleton_runs_partial.

(** ... and a complete run of the model (all modelled processes gone) is a run of the skeleton semantics after which
    EVERY goroutine has returned — Main, Router, Snapper, Reader and one Writer per target *)
Theorem C11_source_tie_complete_runs_partial : forall cfg ls s, wf_config cfg ->
  exec cfg (init cfg) ls s -> final s = true ->
  exists g, grun (program gen_pipe_skeleton) (ginit (program gen_pipe_skeleton) (c_targets cfg))
                 (impl_run cfg 0 (init cfg) ls) = Some (g, events_run cfg (init cfg) ls)
            /\ gfinal g = true.
Proof. exact gen_complete_model_run_is_complete_skeleton_run. Qed.
Print Assumptions C11_source_tie_complete_runs_partial.

(** the regenerated skeleton runs: the schedule [pick_last] of [ex_cfg] (3 targets, 4 features of all kinds, 52 labels)
    as 298 steps of the skeleton semantics; all 7 goroutines end; the communication actions in order *)
Example C11_ex_skeleton_runs :
  let ls := fst (run_sched ex_cfg pick_last 1000 (init ex_cfg)) in
  let Pg := program gen_pipe_skeleton in
  exists g, grun Pg (ginit Pg (c_targets ex_cfg)) (impl_run ex_cfg 0 (init ex_cfg) ls) = Some (g, events_run ex_cfg (init ex_cfg) ls)
            /\ gfinal g = true /\ List.length (g_threads g) = 7%nat /\ g_chans g = [true; true; true; true; true]
            /\ g_wgs g = [0%nat; 0%nat] /\ List.length (impl_run ex_cfg 0 (init ex_cfg) ls) = 298%nat
            /\ firstn 12 (events_run ex_cfg (init ex_cfg) ls)
               = [EvNewChan 0; EvNewChan 1; EvNewWg 0; EvWgAdd 0 1; EvGo 1; EvGo 2; EvGo 3;
                  EvNewWg 1; EvNewChan 2; EvWgAdd 1 1; EvGo 4; EvNewChan 3].
Proof. cbv zeta. eexists. split; [vm_compute; reflexivity|]. vm_compute. repeat split; reflexivity. Qed.

(** the semantics tells the skeleton from its usual mutants: with wg.Add(1) moved into the goroutine, Main can pass
    its wg.Wait() and return before anything else has run; in the regenerated skeleton Main is blocked there *)
Example C11_ex_semantics_sees_wg_add_moved :
  let mutate (f : func) :=
    if String.eqb (fn_name f) "ProcessFeatures"
    then MkFunc (fn_name f) (fn_params f) (fn_results f)
           (firstn 5 (fn_body f)
            ++ [SGoFunc [] [SWgAdd "wg" "1"; SDefer (SWgDone "wg"); SCall "" "writeFeaturesToTargets" ["featuresAfter"; "targets"]] []]
            ++ skipn 7 (fn_body f))%list
    else f in
  let Pm := (map mutate (sk_funcs gen_pipe_skeleton) ++ contracts)%list in
  let Pg := program gen_pipe_skeleton in
  let main := map (ALocal 0) in
  (exists g, grun Pm (ginit Pm []) (main [CNone; CNone; CNone; CNone; CIter None; CNone; CNone; CNone; CNone; CNone; CNone])
             = Some (g, [EvNewChan 0; EvNewChan 1; EvNewWg 0; EvGo 1; EvGo 2; EvGo 3; EvWgWait 0; EvExit 0]))
  /\ (exists g, grun Pg (ginit Pg []) (main [CNone; CNone; CNone; CNone; CIter None; CNone; CNone; CNone; CNone; CNone])
                = Some (g, [EvNewChan 0; EvNewChan 1; EvNewWg 0; EvWgAdd 0 1; EvGo 1; EvGo 2; EvGo 3]))
  /\ grun Pg (ginit Pg []) (main [CNone; CNone; CNone; CNone; CIter None; CNone; CNone; CNone; CNone; CNone; CNone]) = None.
Proof. cbv zeta. split; [eexists; vm_compute; reflexivity|]. split; [eexists; vm_compute; reflexivity | vm_compute; reflexivity]. Qed.

(** no statement of the regenerated skeleton (and of the two contracts) that takes part in the concurrency is left out
    by the model: each of them is executed by the steps that the labels of two model runs stand for — the complete
    run above and the run into the panic "no new polygon" (41 statement names; the two wait groups share the names
    wgnew / wgadd / wgdone / wgwait wg: [C11_ex_skeleton_runs] shows EvNewWg 0 and EvNewWg 1, and both counters at 0) *)
Example C11_ex_every_comm_statement_runs :
  let Pg := program gen_pipe_skeleton in
  let keys cfg ls := grun_keys Pg (ginit Pg (c_targets cfg)) (impl_run cfg 0 (init cfg) ls) in
  let bad := MkConfig [3] [MkFeature 1%N (KPolygon [(3, [])])] in
  covered (keys_of_funcs Pg)
          (keys ex_cfg (fst (run_sched ex_cfg pick_last 1000 (init ex_cfg)))
           ++ keys bad [LMainStart; LReadSend; LSnapCompute; LSnapSend 3])%list = []
  /\ covered (keys_of_funcs Pg) (keys ex_cfg (fst (run_sched ex_cfg pick_last 1000 (init ex_cfg))))
     = ["panic fmt.Errorf(""no new polygon for level %v"", tmID)"%string]
  /\ List.length (keys_of_funcs Pg) = 41%nat.
Proof. vm_compute. repeat split; reflexivity. Qed.

(** ** Level 2, the CONVERSE: every run of the skeleton semantics is a run of the model (agent c11conv)

    Pipe/Converse.v defines the refinement relation [skel_rel cfg g s] between a state [g] of the skeleton semantics of
    the regenerated skeleton and a model state [s]: the goroutines of [g] are, in the order they were started (ANY
    order: the Router may start Writers before Main has started the Snapper), exactly the call stacks of Main,
    Router, Snapper, Reader and one Writer per channel the Router has made, each at one of the 131 program points
    listed in Pipe/ConversePc.v / ConversePcSn.v (or, inside processMultiPolygon / polygonsToMulti, a stack of pure
    frames), with the environments the semantics computes; the closed flags of the channels and both wait group
    counters are those of [s]; the Router's map of channels is the one of the order [done] it visited the targets in.
    The model's atomic label LMainStart is taken at Main's first go statement, LRouterSpawn when the Router leaves
    its spawn loop; before / in between the model waits (the intermediate states are related to the state before /
    after, no reordering of steps is needed); every other label is taken at the step that performs its communication.

    DATA: the skeleton semantics does not follow data and leaves the corresponding choices open.  A step of the
    skeleton semantics is matched when its choice is the one the coupled model state dictates ([data_ok], 5 program
    points: is there another feature in the source; which clause of the type switch; which key a send loop visits
    next / whether it is finished; whether line 39 panics for that key; the tile matrix id the Router reads from the
    feature it received).  Every other choice — all map iteration orders, `if len(..) > 0`, one polygon or several,
    the log branch, every loop of processMultiPolygon and polygonsToMulti — and the WHOLE SCHEDULE (which goroutine
    moves next, which rendezvous happens) is universally quantified.  No well-formedness of the features is assumed
    for the step and run theorems: the model's panics are matched too.

    [crun Pg cfg g s acts evs g' s'] (Pipe/Converse.v) is a run [acts] of the skeleton semantics from [g] to [g']
    with events [evs], coupled with model states: each step's data choice follows the current model state, which
    follows by at most one model step to a state the new skeleton state stands in for.
      - [C11_source_tie_skeleton_step_is_model_step]: the step lemma (any related states, any enabled action);
      - [C11_source_tie_no_schedule_left_out]: a coupled run can be extended by EVERY enabled action whose data choice
        follows the model state — so the coupled runs are all the data-consistent runs, not a selection of schedules;
      - [C11_source_tie_skeleton_runs_are_model_runs]: a coupled run from ProcessFeatures(source, targets, f) is a run
        of the skeleton semantics, matched by an execution of the model that is not longer, ending in related states.
    NOT STATED: the correspondence of the event lists ([evs] against [label_events]).  Termination: the number of
    steps that change the model state is bounded by the model's measure ([C11_skeleton_model_steps_bounded]); the
    length of the whole run is bounded relative to the steps inside processMultiPolygon / polygonsToMulti
    ([C11_skeleton_terminates_partial], at the end of this file). *)
From Texel Require Import Pipe.Converse Pipe.ProofsGenConverse.

Theorem C11_source_tie_skeleton_init : forall cfg,
  skel_rel cfg (ginit (program gen_pipe_skeleton) (c_targets cfg)) (init cfg).
Proof. exact gen_rel_init. Qed.
Print Assumptions C11_source_tie_skeleton_init.

Theorem C11_source_tie_skeleton_step_is_model_step : forall cfg g s a g' ev, NoDup (c_targets cfg) ->
  skel_rel cfg g s -> gstep (program gen_pipe_skeleton) g a = Some (g', ev) -> data_ok s g a ->
  exists s', (s' = s \/ exists l, step cfg s l = Some s') /\ skel_rel cfg g' s'.
Proof. exact gen_conv_step. Qed.
Print Assumptions C11_source_tie_skeleton_step_is_model_step.

Theorem C11_source_tie_no_schedule_left_out : forall cfg acts evs g1 s1 a g2 ev, NoDup (c_targets cfg) ->
  let Pg := program gen_pipe_skeleton in
  crun Pg cfg (ginit Pg (c_targets cfg)) (init cfg) acts evs g1 s1 -> gstep Pg g1 a = Some (g2, ev) -> data_ok s1 g1 a ->
  exists s2, crun Pg cfg (ginit Pg (c_targets cfg)) (init cfg) (acts ++ [a]) (evs ++ ev) g2 s2.
Proof. exact gen_crun_extend. Qed.
Print Assumptions C11_source_tie_no_schedule_left_out.

Theorem C11_source_tie_skeleton_runs_are_model_runs : forall cfg acts evs g s,
  let Pg := program gen_pipe_skeleton in
  crun Pg cfg (ginit Pg (c_targets cfg)) (init cfg) acts evs g s ->
  grun Pg (ginit Pg (c_targets cfg)) acts = Some (g, evs)
  /\ (exists ls, exec cfg (init cfg) ls s /\ (List.length ls <= List.length acts)%nat)
  /\ skel_rel cfg g s.
Proof. exact gen_skeleton_run_is_model_run. Qed.
Print Assumptions C11_source_tie_skeleton_runs_are_model_runs.

(** the model state coupled to a run of the skeleton semantics is REACHABLE in the model, and the state of the skeleton
    semantics stands in for it: so every theorem above about reachable model states ([C10_invariant], [C10_received_prefix],
    [C11_return_after_finish], [C11_quiescent_after_return], ...) holds of the model state coupled to ANY data-consistent
    run of the regenerated skeleton, whatever the schedule *)
Theorem C11_skeleton_coupled_state_reachable : forall cfg acts evs g s,
  let Pg := program gen_pipe_skeleton in
  crun Pg cfg (ginit Pg (c_targets cfg)) (init cfg) acts evs g s -> reachable cfg s /\ skel_rel cfg g s.
Proof. exact gen_crun_reachable. Qed.
Print Assumptions C11_skeleton_coupled_state_reachable.

(** related states: when every goroutine of the skeleton semantics has returned, the model state is final *)
Theorem C11_skeleton_all_returned_is_final : forall cfg g s, skel_rel cfg g s -> gfinal g = true -> final s = true.
Proof. exact gen_gfinal_final. Qed.
Print Assumptions C11_skeleton_all_returned_is_final.

(** ** The model's theorems, transferred to the runs of the skeleton semantics (well-formed configurations) *)

(** no panic: no send on a closed channel, no close of a closed channel, no negative wait group counter, no
    "should never happen" panic in any data-consistent run of the regenerated skeleton, whatever the schedule *)
Theorem C11_skeleton_no_panic : forall cfg acts evs g s, wf_config cfg ->
  let Pg := program gen_pipe_skeleton in
  crun Pg cfg (ginit Pg (c_targets cfg)) (init cfg) acts evs g s -> g_panic g = None.
Proof. exact gen_skeleton_no_panic. Qed.
Print Assumptions C11_skeleton_no_panic.

(** no deadlock: as long as some goroutine has not returned, some action of the skeleton semantics is enabled (a local
    step with a data choice the model state allows, or a rendezvous) — whatever the schedule was so far *)
Theorem C11_skeleton_no_deadlock : forall cfg acts evs g s, wf_config cfg ->
  let Pg := program gen_pipe_skeleton in
  crun Pg cfg (ginit Pg (c_targets cfg)) (init cfg) acts evs g s -> gfinal g = false ->
  exists a g1 ev, gstep Pg g a = Some (g1, ev) /\ data_ok s g a.
Proof. exact gen_skeleton_no_deadlock. Qed.
Print Assumptions C11_skeleton_no_deadlock.

(** no goroutine is left behind: a run that cannot be continued has ended with EVERY goroutine returned — Main, Router,
    Snapper, Reader and every Writer — and the model in its final state *)
Theorem C11_skeleton_no_goroutine_left : forall cfg acts evs g s, wf_config cfg ->
  let Pg := program gen_pipe_skeleton in
  crun Pg cfg (ginit Pg (c_targets cfg)) (init cfg) acts evs g s ->
  (forall a g1 ev, gstep Pg g a = Some (g1, ev) -> ~ data_ok s g a) ->
  gfinal g = true /\ s = final_state cfg.
Proof. exact gen_skeleton_stuck_is_final. Qed.
Print Assumptions C11_skeleton_no_goroutine_left.

(** at most [measure] steps of a run of the skeleton semantics change the model state (all others are local
    statements, loop and call bookkeeping): the model execution matched to a coupled run obeys the model's bound *)
Theorem C11_skeleton_model_steps_bounded : forall cfg acts evs g s,
  let Pg := program gen_pipe_skeleton in
  crun Pg cfg (ginit Pg (c_targets cfg)) (init cfg) acts evs g s ->
  exists ls, exec cfg (init cfg) ls s /\ (List.length ls <= measure cfg (init cfg))%nat.
Proof. exact gen_model_steps_bounded. Qed.
Print Assumptions C11_skeleton_model_steps_bounded.

(** coupled runs exist, of every length up to the end (the hypotheses above are satisfiable along every run) *)
Theorem C11_skeleton_coupled_runs_exist : forall cfg n, wf_config cfg ->
  let Pg := program gen_pipe_skeleton in
  exists acts evs g s, crun Pg cfg (ginit Pg (c_targets cfg)) (init cfg) acts evs g s
                       /\ (List.length acts = n \/ gfinal g = true).
Proof. exact gen_coupled_runs_exist. Qed.
Print Assumptions C11_skeleton_coupled_runs_exist.

Example C11_ex_coupled_run : exists acts evs g s,
  let Pg := program gen_pipe_skeleton in
  crun Pg ex_cfg (ginit Pg (c_targets ex_cfg)) (init ex_cfg) acts evs g s /\ (List.length acts = 500%nat \/ gfinal g = true).
Proof. exact (gen_coupled_runs_exist ex_cfg 500 C11_ex_wf). Qed.

(** the data discipline is not vacuous: at the Reader's loop head with features left, ending the loop is refused and
    going on is allowed; at any other statement every choice is allowed *)
Example C11_ex_data_ok :
  let th := SkeletonSim.rd_th (RdRun []) in
  let s1 := set_rd (init ex_cfg) (RdRun [MkFeature 1%N KOther]) in
  ~ choice_ok s1 th (CIter None) /\ choice_ok s1 th (CIter (Some 0)) /\ choice_ok (set_rd s1 (RdRun [])) th (CIter None)
  /\ choice_ok s1 (SkeletonSim.rd_th RdClosed) (CBool true).
Proof. cbv zeta. unfold choice_ok. cbn. repeat split; try discriminate; auto. Qed.

(** ** Termination of the runs of the skeleton semantics — PARTIAL

    [rrun Pg cfg R C W s acts k R2 C2 W2 s2] (Pipe/ConverseRank.v) is a coupled run with the goroutines written out as
    roles at program points ([gst ts R C W] is the state of the skeleton semantics whose goroutines are [map th_of R]);
    [k] counts the steps the Snapper takes INSIDE a call of processMultiPolygon or polygonsToMulti.  Every other step
    either is a step of the model (the model's [measure] drops) or lowers the sum of the ranks of the goroutines
    ([rank_*], Pipe/ConverseRank.v: the number of silent steps a goroutine can still take before its next step of the
    model, before it blocks or ends; the spawn loops are counted by the entries still to visit).
      - [C11_skeleton_ranked_runs_are_coupled_runs]: forgetting the roles gives a coupled run [crun];
      - [C11_skeleton_ranked_no_schedule_left_out]: a ranked run from the start can be extended by EVERY enabled action
        whose data choice follows the model state (well-formed configuration: no step panics);
      - [C11_skeleton_terminates_partial]: length <= k + (8 + 3n) + (33 + 17n) * measure cfg (init cfg), n = number of
        targets: no schedule makes the skeleton run longer, there is no livelock of local steps, and an infinite run
        would have to stay for ever inside the loops of processMultiPolygon / polygonsToMulti.
    MISSING (hence _partial): a bound on [k].  The loops of processMultiPolygon and polygonsToMulti run over data the
    skeleton does not follow (a slice of polygons, a map of results, `i < l`); in the skeleton semantics their
    iteration count is a free choice, so no bound holds there; in the Go code each runs as often as its finite
    slice / map is long.  Also not proved: that the ranked coupling is the only coupling (the bound is stated for
    the coupling the step lemma constructs, which exists for every data-consistent run). *)
From Texel Require Import Pipe.ConversePc Pipe.ConverseRank.

Theorem C11_skeleton_ranked_runs_are_coupled_runs : forall cfg acts k R2 C2 W2 s2,
  let Pg := program gen_pipe_skeleton in
  rrun Pg cfg [RoMain M0] [] [] (init cfg) acts k R2 C2 W2 s2 ->
  exists evs, crun Pg cfg (ginit Pg (c_targets cfg)) (init cfg) acts evs (gst (c_targets cfg) R2 C2 W2) s2.
Proof. exact gen_rrun_is_crun. Qed.
Print Assumptions C11_skeleton_ranked_runs_are_coupled_runs.

Theorem C11_skeleton_ranked_no_schedule_left_out : forall cfg acts k R2 C2 W2 s2 a g3 ev, wf_config cfg ->
  let Pg := program gen_pipe_skeleton in
  rrun Pg cfg [RoMain M0] [] [] (init cfg) acts k R2 C2 W2 s2 ->
  gstep Pg (gst (c_targets cfg) R2 C2 W2) a = Some (g3, ev) -> data_ok s2 (gst (c_targets cfg) R2 C2 W2) a ->
  exists R3 C3 W3 s3 pure, g3 = gst (c_targets cfg) R3 C3 W3
                           /\ rrun Pg cfg [RoMain M0] [] [] (init cfg) (acts ++ [a]) (k + Nat.b2n pure) R3 C3 W3 s3.
Proof. exact gen_rrun_extend. Qed.
Print Assumptions C11_skeleton_ranked_no_schedule_left_out.

Theorem C11_skeleton_terminates_partial : forall cfg acts k R2 C2 W2 s2,
  let Pg := program gen_pipe_skeleton in
  rrun Pg cfg [RoMain M0] [] [] (init cfg) acts k R2 C2 W2 s2 ->
  (List.length acts <= k + (8 + 3 * List.length (c_targets cfg))
                       + (33 + 17 * List.length (c_targets cfg)) * measure cfg (init cfg))%nat.
Proof. exact gen_rrun_bound. Qed.
Print Assumptions C11_skeleton_terminates_partial.

(** the start of a ranked run is the call ProcessFeatures(source, targets, f) *)
Example C11_ex_ranked_start : forall ts, gst ts [RoMain M0] [] [] = ginit (program gen_pipe_skeleton) ts.
Proof. reflexivity. Qed.
