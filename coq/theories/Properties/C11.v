(** * C11 — the pipeline always finishes, and only after every target is done.

    Theorem family [C11_*]: termination, deadlock freedom and "return only after every target has
    finished" for ALL configurations and ALL interleavings of Reader, Snapper, Router, N Writers and Main
    (any sequence of enabled steps; no fairness assumption; no bound on stream length or target count),
    about the transition system of Pipe/Model.v (see Properties/C10.v for the model and [wf_config]).

    PARTIAL — exactly this clause of the property is NOT carried by any theorem here:
      "no stage leaves a goroutine behind and no two stages access shared data without synchronisation"
    A data race or a goroutine outside the five modelled processes cannot be exhibited by a transition
    system whose processes share nothing but channels and wait groups; at model level only the weaker
    facts hold that every modelled process reaches its exit in every maximal run ([C11_stuck_is_final]:
    the only stuck state has reader, snapper, router and all writers exited) and that reader and snapper
    are past their last blocking operation when ProcessFeatures returns ([C11_quiescent_after_return];
    the example [C11_ex_not_waited_for] shows they really may still be running: Main does not wait for
    them).  Races and leaks are searched for dynamically by harness_pipe (go build -race,
    runtime.NumGoroutine after settle) and labelled supporting evidence. *)
From Coq Require Import ZArith NArith List.
From Texel Require Import Pipe.Model Pipe.ProofsBase Pipe.ProofsInv Pipe.ProofsLive Pipe.ProofsMon.
Import ListNotations.
Open Scope Z_scope.

(** no deadlock: every reachable state in which some goroutine of the call is still alive has an enabled step *)
Theorem C11_no_deadlock : forall cfg s, wf_config cfg -> reachable cfg s -> final s = false ->
  exists l s', step cfg s l = Some s'.
Proof. exact no_deadlock. Qed.
Print Assumptions C11_no_deadlock.

(** every step lowers a natural number (the number of steps still to be taken) — any configuration *)
Theorem C11_measure_decreases : forall cfg s l s', step cfg s l = Some s' -> (measure cfg s' < measure cfg s)%nat.
Proof. exact measure_decreases. Qed.
Print Assumptions C11_measure_decreases.

(** so an execution from s has at most [measure cfg s] steps ... *)
Theorem C11_execution_length_bounded : forall cfg s ls s', exec cfg s ls s' -> (length ls <= measure cfg s)%nat.
Proof. exact exec_length_bound. Qed.
Print Assumptions C11_execution_length_bounded.

(** ... and there is no infinite execution, whatever the scheduler does (no fairness needed) *)
Theorem C11_no_infinite_execution : forall cfg (sts : nat -> state),
  ~ (forall n, exists l, step cfg (sts n) l = Some (sts (S n))).
Proof. exact no_infinite_execution. Qed.
Print Assumptions C11_no_infinite_execution.

(** a maximal execution (nothing enabled any more) has reached THE final state: Main returned, every
    process exited, every target has handled exactly its sequence.  Together with the previous theorem:
    every schedule ends there after finitely many steps. *)
Theorem C11_stuck_is_final : forall cfg s, wf_config cfg -> reachable cfg s -> stuck cfg s -> s = final_state cfg.
Proof. exact stuck_is_final. Qed.
Print Assumptions C11_stuck_is_final.

Theorem C11_always_completes : forall cfg s, wf_config cfg -> reachable cfg s ->
  exists ls, exec cfg s ls (final_state cfg).
Proof. exact always_completes. Qed.
Print Assumptions C11_always_completes.

(** ProcessFeatures returns only when every target has finished (its WriteFeatures returned) and has
    handled everything addressed to it — no drop, duplicate or reordering *)
Theorem C11_return_after_finish : forall cfg s, wf_config cfg -> reachable cfg s -> s_main s = MRet ->
  forall i, In i (c_targets cfg) -> finished i s = true /\ recvd i s = expected cfg i.
Proof. exact return_after_finish. Qed.
Print Assumptions C11_return_after_finish.

(** at that moment snapper and reader have closed their channels: only log lines / return are left *)
Theorem C11_quiescent_after_return : forall cfg s, wf_config cfg -> reachable cfg s -> s_main s = MRet ->
  (s_sn s = SLog \/ s_sn s = SExit) /\ (s_rd s = RdClosed \/ s_rd s = RdExit) /\ s_rt s = TDone.
Proof. exact quiescent_after_return. Qed.
Print Assumptions C11_quiescent_after_return.

(** no send on a closed channel, no negative wait group counter, no "should never happen" panic *)
Theorem C11_no_panic : forall cfg s, wf_config cfg -> reachable cfg s -> s_panic s = None.
Proof. exact no_panic. Qed.
Print Assumptions C11_no_panic.

(** on histories (what fake targets record on the implementation): every complete run yields a history in
    which each target finishes exactly once after its last feature, the return is the last event and
    comes after every finish; the executable monitor accepts exactly such shapes *)
Theorem C11_complete_trace_ok : forall cfg ls s, wf_config cfg -> exec cfg (init cfg) ls s -> s_main s = MRet ->
  history_ok cfg (obs_trace ls).
Proof. exact complete_trace_ok. Qed.
Print Assumptions C11_complete_trace_ok.

Theorem C11_accepted_complete_ok : forall cfg h, accepts cfg h = true -> history_ok cfg h.
Proof. exact accepted_complete_ok. Qed.
Print Assumptions C11_accepted_complete_ok.

(** ** Non-vacuity *)

Definition ex_cfg : config := MkConfig [7; 2; 9]
  [ MkFeature 1%N KOther;
    MkFeature 2%N (KPolygon [(9, [20%N; 21%N]); (7, [22%N])]);                      (* split on 9, kept on 7, dropped on 2 *)
    MkFeature 3%N (KMulti [[(2, [23%N])]; [(2, [24%N; 25%N]); (9, [26%N])]; []]);
    MkFeature 4%N (KPolygon []) ].                                               (* dropped everywhere *)

Example C11_ex_wf : wf_config ex_cfg.
Proof. apply wf_configb_sound. vm_compute. reflexivity. Qed.

(** a complete run exists, takes exactly [measure - 1] steps, and its history is accepted *)
Example C11_ex_run :
  let ls := fst (run_sched ex_cfg pick_last 1000 (init ex_cfg)) in
  exec ex_cfg (init ex_cfg) ls (final_state ex_cfg) /\ S (length ls) = measure ex_cfg (init ex_cfg)
  /\ accepts ex_cfg (obs_trace ls) = true /\ stuck ex_cfg (final_state ex_cfg).
Proof.
  cbv zeta. split; [apply exec_run; vm_compute; reflexivity|]. split; [vm_compute; reflexivity|].
  split; [vm_compute; reflexivity | apply final_stuck].
Qed.

(** Main does NOT wait for reader and snapper: a reachable state where ProcessFeatures has returned while
    the snapper is still in its log lines and the reader has not returned from ReadFeatures *)
Example C11_ex_not_waited_for :
  exists s, reachable ex_cfg s /\ s_main s = MRet /\ s_sn s = SLog /\ s_rd s = RdClosed /\ final s = false.
Proof.
  pose (ls := upto_return (fst (run_sched ex_cfg pick_lazy_exit 1000 (init ex_cfg)))).
  destruct (run ex_cfg (init ex_cfg) ls) as [s|] eqn:E; [|vm_compute in E; discriminate].
  exists s. split; [exists ls; now apply exec_run|].
  vm_compute in E. inversion E; subst s. repeat split; reflexivity.
Qed.

(** the monitor rejects what C11 forbids: return before a finish, a receive after finish, a missing finish,
    a missing return (hang), an event after the return *)
Example C11_ex_rejects :
  let cfg := MkConfig [3; 4] [MkFeature 1%N KOther] in
  accepts cfg [ERecv 3 (1%N, GOrig); ERecv 4 (1%N, GOrig); EFinish 4; EFinish 3; EReturn] = true
  /\ accepts cfg [ERecv 3 (1%N, GOrig); ERecv 4 (1%N, GOrig); EFinish 4; EReturn; EFinish 3] = false
  /\ accepts cfg [ERecv 3 (1%N, GOrig); EFinish 4; ERecv 4 (1%N, GOrig); EFinish 3; EReturn] = false
  /\ accepts cfg [ERecv 3 (1%N, GOrig); ERecv 4 (1%N, GOrig); EFinish 4; EReturn] = false
  /\ accepts cfg [ERecv 3 (1%N, GOrig); ERecv 4 (1%N, GOrig); EFinish 4; EFinish 3] = false
  /\ accepts cfg [ERecv 3 (1%N, GOrig); ERecv 4 (1%N, GOrig); EFinish 4; EFinish 3; EReturn; EReturn] = false
  /\ accepts cfg [ERecv 3 (1%N, GOrig); ERecv 4 (1%N, GOrig); EFinish 4; EFinish 4; EFinish 3; EReturn] = false.
Proof. vm_compute. repeat split; reflexivity. Qed.

(** ** Source tie: the model and the text of /repo/processing/processing.go

    REGENERATED on every run (translator/pipe.go -> coq/gen/PipeGen.v): [gen_pipe_skeleton], every statement of
    ProcessFeatures, readFeaturesFromSource, processFeatures, writeFeaturesToTargets (and its two goroutine function
    literals), processMultiPolygon, polygonsToMulti as a term of the skeleton language of Pipe/Skeleton.v —
    make(chan) with its buffer size, go, defer, wg.Add / Done / Wait, send, `v, ok := <-ch`, close, the loops, the
    type switch, panics, calls — every other statement as [SOther "<source text>"]; the signatures of the interface
    methods that are handed a channel; the other functions of package processing that contain any concurrency
    construct (none).  The translator refuses what it does not know (select, a receive in another form, a channel
    handed to an unknown function, range over a channel ...): the generated file then does not compile.

    STAYS MODELLED / TRUSTED: the labelled transition system Pipe/Model.v itself; [model_skeleton] (Pipe/Skeleton.v)
    is its hand-written transcription, statement by statement with the label / state that models it; the contracts of
    Source.ReadFeatures and Target.WriteFeatures (code outside processing.go); for level 2 the small-step semantics
    Pipe/SkeletonSem.v and the reading of the labels as communication actions ([label_events], Pipe/SkeletonSim.v). *)
From Coq Require Import String.
From Texel Require Import Pipe.Skeleton Pipe.SkeletonSem Pipe.SkeletonSim Pipe.ProofsSkeleton Pipe.ProofsGenSkeleton.
From Texel.Gen Require Import PipeGen.

(** Level 1 — a checked transcription: the regenerated skeleton IS the skeleton the model was written from.  An edit
    of one of these functions (wg.Add moved into the goroutine, a buffered channel, an early return without close, a
    send inside a select, a changed loop, a dropped statement) changes the left-hand side. *)
Theorem C11_source_tie_skeleton : gen_pipe_skeleton = model_skeleton.
Proof. exact gen_skeleton_is_model. Qed.
Print Assumptions C11_source_tie_skeleton.

(** Level 2 — PARTIAL (one direction): every run of the model — any configuration whose targets are the keys of a map
    (well-formed features NOT assumed: the runs into the model's panics are covered), any schedule — is a run of the
    skeleton semantics of the regenerated skeleton from ProcessFeatures(source, targets, f): the steps are
    [impl_run], the channel / wait group / goroutine actions performed are exactly those the labels stand for
    ([events_run]), and the state reached is the one the model state stands for ([abs]: program point and variables
    of every goroutine, the closed flag of every channel, both wait group counters; after a panic: a panicked program).
    MISSING: the converse (every run of the skeleton semantics is, up to the order of independent steps and the
    data the skeleton does not follow, a run of the model); it needs a commutation argument for the steps the model
    takes atomically (LMainStart, LRouterSpawn) and is not proved.  So this theorem shows that the model does nothing
    the code cannot do; that the code does nothing the model cannot do rests on level 1 and on the recorded
    histories of harness_pipe. *)
Theorem C11_source_tie_model_runs_are_skeleton_runs_partial : forall cfg ls s,
  NoDup (c_targets cfg) -> exec cfg (init cfg) ls s ->
  exists g, grun (program gen_pipe_skeleton) (ginit (program gen_pipe_skeleton) (c_targets cfg))
                 (impl_run cfg 0 (init cfg) ls) = Some (g, events_run cfg (init cfg) ls)
            /\ stands_for cfg (gh_run cfg 0 (init cfg) ls) s g.
Proof. exact gen_model_run_is_skeleton_run. Qed.
Print Assumptions C11_source_tie_model_runs_are_skeleton_runs_partial.

(** ... and a complete run of the model (all modelled processes gone) is a run of the skeleton semantics after which
    EVERY goroutine has returned — Main, Router, Snapper, Reader and one Writer per target *)
Theorem C11_source_tie_complete_runs_partial : forall cfg ls s, wf_config cfg ->
  exec cfg (init cfg) ls s -> final s = true ->
  exists g, grun (program gen_pipe_skeleton) (ginit (program gen_pipe_skeleton) (c_targets cfg))
                 (impl_run cfg 0 (init cfg) ls) = Some (g, events_run cfg (init cfg) ls)
            /\ gfinal g = true.
Proof. exact gen_complete_model_run_is_complete_skeleton_run. Qed.
Print Assumptions C11_source_tie_complete_runs_partial.

(** the regenerated skeleton runs: the schedule [pick_last] of [ex_cfg] (3 targets, 4 features of all kinds, 52 labels)
    as 298 steps of the skeleton semantics; all 7 goroutines end; the communication actions in order *)
Example C11_ex_skeleton_runs :
  let ls := fst (run_sched ex_cfg pick_last 1000 (init ex_cfg)) in
  let Pg := program gen_pipe_skeleton in
  exists g, grun Pg (ginit Pg (c_targets ex_cfg)) (impl_run ex_cfg 0 (init ex_cfg) ls) = Some (g, events_run ex_cfg (init ex_cfg) ls)
            /\ gfinal g = true /\ List.length (g_threads g) = 7%nat /\ g_chans g = [true; true; true; true; true]
            /\ g_wgs g = [0%nat; 0%nat] /\ List.length (impl_run ex_cfg 0 (init ex_cfg) ls) = 298%nat
            /\ firstn 12 (events_run ex_cfg (init ex_cfg) ls)
               = [EvNewChan 0; EvNewChan 1; EvNewWg 0; EvWgAdd 0 1; EvGo 1; EvGo 2; EvGo 3;
                  EvNewWg 1; EvNewChan 2; EvWgAdd 1 1; EvGo 4; EvNewChan 3].
Proof. cbv zeta. eexists. split; [vm_compute; reflexivity|]. vm_compute. repeat split; reflexivity. Qed.

(** the semantics tells the skeleton from its usual mutants: with wg.Add(1) moved into the goroutine, Main can pass
    its wg.Wait() and return before anything else has run; in the regenerated skeleton Main is blocked there *)
Example C11_ex_semantics_sees_wg_add_moved :
  let mutate (f : func) :=
    if String.eqb (fn_name f) "ProcessFeatures"
    then MkFunc (fn_name f) (fn_params f) (fn_results f)
           (firstn 5 (fn_body f)
            ++ [SGoFunc [] [SWgAdd "wg" "1"; SDefer (SWgDone "wg"); SCall "" "writeFeaturesToTargets" ["featuresAfter"; "targets"]] []]
            ++ skipn 7 (fn_body f))%list
    else f in
  let Pm := (map mutate (sk_funcs gen_pipe_skeleton) ++ contracts)%list in
  let Pg := program gen_pipe_skeleton in
  let main := map (ALocal 0) in
  (exists g, grun Pm (ginit Pm []) (main [CNone; CNone; CNone; CNone; CIter None; CNone; CNone; CNone; CNone; CNone; CNone])
             = Some (g, [EvNewChan 0; EvNewChan 1; EvNewWg 0; EvGo 1; EvGo 2; EvGo 3; EvWgWait 0; EvExit 0]))
  /\ (exists g, grun Pg (ginit Pg []) (main [CNone; CNone; CNone; CNone; CIter None; CNone; CNone; CNone; CNone; CNone])
                = Some (g, [EvNewChan 0; EvNewChan 1; EvNewWg 0; EvWgAdd 0 1; EvGo 1; EvGo 2; EvGo 3]))
  /\ grun Pg (ginit Pg []) (main [CNone; CNone; CNone; CNone; CIter None; CNone; CNone; CNone; CNone; CNone; CNone]) = None.
Proof. cbv zeta. split; [eexists; vm_compute; reflexivity|]. split; [eexists; vm_compute; reflexivity | vm_compute; reflexivity]. Qed.

(** no statement of the regenerated skeleton (and of the two contracts) that takes part in the concurrency is left out
    by the model: each of them is executed by the steps that the labels of two model runs stand for — the complete
    run above and the run into the panic "no new polygon" (41 statement names; the two wait groups share the names
    wgnew / wgadd / wgdone / wgwait wg: [C11_ex_skeleton_runs] shows EvNewWg 0 and EvNewWg 1, and both counters at 0) *)
Example C11_ex_every_comm_statement_runs :
  let Pg := program gen_pipe_skeleton in
  let keys cfg ls := grun_keys Pg (ginit Pg (c_targets cfg)) (impl_run cfg 0 (init cfg) ls) in
  let bad := MkConfig [3] [MkFeature 1%N (KPolygon [(3, [])])] in
  covered (keys_of_funcs Pg)
          (keys ex_cfg (fst (run_sched ex_cfg pick_last 1000 (init ex_cfg)))
           ++ keys bad [LMainStart; LReadSend; LSnapCompute; LSnapSend 3])%list = []
  /\ covered (keys_of_funcs Pg) (keys ex_cfg (fst (run_sched ex_cfg pick_last 1000 (init ex_cfg))))
     = ["panic fmt.Errorf(""no new polygon for level %v"", tmID)"%string]
  /\ List.length (keys_of_funcs Pg) = 41%nat.
Proof. vm_compute. repeat split; reflexivity. Qed.
