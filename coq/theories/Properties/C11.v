(** * C11 — the pipeline always finishes, and only after every target is done.

    Theorem family [C11_*]: termination, deadlock freedom and "return only after every target has
    finished" for ALL configurations and ALL interleavings of Reader, Snapper, Router, N Writers and Main
    (any sequence of enabled steps; no fairness assumption; no bound on stream length or target count),
    about the transition system of Pipe/Model.v (see Properties/C10.v for the model and [wf_config]).

    PARTIAL — exactly this clause of the property is NOT carried by any theorem here:
      "no stage leaves a goroutine behind and no two stages access shared data without synchronisation"
    A data race or a goroutine outside the five modelled processes cannot be exhibited by a transition
    system whose processes share nothing but channels and wait groups; at model level only the weaker
    facts hold that every modelled process reaches its exit in every maximal run ([C11_stuck_is_final]:
    the only stuck state has reader, snapper, router and all writers exited) and that reader and snapper
    are past their last blocking operation when ProcessFeatures returns ([C11_quiescent_after_return];
    the example [C11_ex_not_waited_for] shows they really may still be running: Main does not wait for
    them).  Races and leaks are searched for dynamically by harness_pipe (go build -race,
    runtime.NumGoroutine after settle) and labelled supporting evidence. *)
From Coq Require Import ZArith NArith List.
From Texel Require Import Pipe.Model Pipe.ProofsBase Pipe.ProofsInv Pipe.ProofsLive Pipe.ProofsMon.
Import ListNotations.
Open Scope Z_scope.

(** no deadlock: every reachable state in which some goroutine of the call is still alive has an enabled step *)
Theorem C11_no_deadlock : forall cfg s, wf_config cfg -> reachable cfg s -> final s = false ->
  exists l s', step cfg s l = Some s'.
Proof. exact no_deadlock. Qed.
Print Assumptions C11_no_deadlock.

(** every step lowers a natural number (the number of steps still to be taken) — any configuration *)
Theorem C11_measure_decreases : forall cfg s l s', step cfg s l = Some s' -> (measure cfg s' < measure cfg s)%nat.
Proof. exact measure_decreases. Qed.
Print Assumptions C11_measure_decreases.

(** so an execution from s has at most [measure cfg s] steps ... *)
Theorem C11_execution_length_bounded : forall cfg s ls s', exec cfg s ls s' -> (length ls <= measure cfg s)%nat.
Proof. exact exec_length_bound. Qed.
Print Assumptions C11_execution_length_bounded.

(** ... and there is no infinite execution, whatever the scheduler does (no fairness needed) *)
Theorem C11_no_infinite_execution : forall cfg (sts : nat -> state),
  ~ (forall n, exists l, step cfg (sts n) l = Some (sts (S n))).
Proof. exact no_infinite_execution. Qed.
Print Assumptions C11_no_infinite_execution.

(** a maximal execution (nothing enabled any more) has reached THE final state: Main returned, every
    process exited, every target has handled exactly its sequence.  Together with the previous theorem:
    every schedule ends there after finitely many steps. *)
Theorem C11_stuck_is_final : forall cfg s, wf_config cfg -> reachable cfg s -> stuck cfg s -> s = final_state cfg.
Proof. exact stuck_is_final. Qed.
Print Assumptions C11_stuck_is_final.

Theorem C11_always_completes : forall cfg s, wf_config cfg -> reachable cfg s ->
  exists ls, exec cfg s ls (final_state cfg).
Proof. exact always_completes. Qed.
Print Assumptions C11_always_completes.

(** ProcessFeatures returns only when every target has finished (its WriteFeatures returned) and has
    handled everything addressed to it — no drop, duplicate or reordering *)
Theorem C11_return_after_finish : forall cfg s, wf_config cfg -> reachable cfg s -> s_main s = MRet ->
  forall i, In i (c_targets cfg) -> finished i s = true /\ recvd i s = expected cfg i.
Proof. exact return_after_finish. Qed.
Print Assumptions C11_return_after_finish.

(** at that moment snapper and reader have closed their channels: only log lines / return are left *)
Theorem C11_quiescent_after_return : forall cfg s, wf_config cfg -> reachable cfg s -> s_main s = MRet ->
  (s_sn s = SLog \/ s_sn s = SExit) /\ (s_rd s = RdClosed \/ s_rd s = RdExit) /\ s_rt s = TDone.
Proof. exact quiescent_after_return. Qed.
Print Assumptions C11_quiescent_after_return.

(** no send on a closed channel, no negative wait group counter, no "should never happen" panic *)
Theorem C11_no_panic : forall cfg s, wf_config cfg -> reachable cfg s -> s_panic s = None.
Proof. exact no_panic. Qed.
Print Assumptions C11_no_panic.

(** on histories (what fake targets record on the implementation): every complete run yields a history in
    which each target finishes exactly once after its last feature, the return is the last event and
    comes after every finish; the executable monitor accepts exactly such shapes *)
Theorem C11_complete_trace_ok : forall cfg ls s, wf_config cfg -> exec cfg (init cfg) ls s -> s_main s = MRet ->
  history_ok cfg (obs_trace ls).
Proof. exact complete_trace_ok. Qed.
Print Assumptions C11_complete_trace_ok.

Theorem C11_accepted_complete_ok : forall cfg h, accepts cfg h = true -> history_ok cfg h.
Proof. exact accepted_complete_ok. Qed.
Print Assumptions C11_accepted_complete_ok.

(** ** Non-vacuity *)

Definition ex_cfg : config := MkConfig [7; 2; 9]
  [ MkFeature 1%N KOther;
    MkFeature 2%N (KPolygon [(9, [20%N; 21%N]); (7, [22%N])]);                      (* split on 9, kept on 7, dropped on 2 *)
    MkFeature 3%N (KMulti [[(2, [23%N])]; [(2, [24%N; 25%N]); (9, [26%N])]; []]);
    MkFeature 4%N (KPolygon []) ].                                               (* dropped everywhere *)

Example C11_ex_wf : wf_config ex_cfg.
Proof. apply wf_configb_sound. vm_compute. reflexivity. Qed.

(** a complete run exists, takes exactly [measure - 1] steps, and its history is accepted *)
Example C11_ex_run :
  let ls := fst (run_sched ex_cfg pick_last 1000 (init ex_cfg)) in
  exec ex_cfg (init ex_cfg) ls (final_state ex_cfg) /\ S (length ls) = measure ex_cfg (init ex_cfg)
  /\ accepts ex_cfg (obs_trace ls) = true /\ stuck ex_cfg (final_state ex_cfg).
Proof.
  cbv zeta. split; [apply exec_run; vm_compute; reflexivity|]. split; [vm_compute; reflexivity|].
  split; [vm_compute; reflexivity | apply final_stuck].
Qed.

(** Main does NOT wait for reader and snapper: a reachable state where ProcessFeatures has returned while
    the snapper is still in its log lines and the reader has not returned from ReadFeatures *)
Example C11_ex_not_waited_for :
  exists s, reachable ex_cfg s /\ s_main s = MRet /\ s_sn s = SLog /\ s_rd s = RdClosed /\ final s = false.
Proof.
  pose (ls := upto_return (fst (run_sched ex_cfg pick_lazy_exit 1000 (init ex_cfg)))).
  destruct (run ex_cfg (init ex_cfg) ls) as [s|] eqn:E; [|vm_compute in E; discriminate].
  exists s. split; [exists ls; now apply exec_run|].
  vm_compute in E. inversion E; subst s. repeat split; reflexivity.
Qed.

(** the monitor rejects what C11 forbids: return before a finish, a receive after finish, a missing finish,
    a missing return (hang), an event after the return *)
Example C11_ex_rejects :
  let cfg := MkConfig [3; 4] [MkFeature 1%N KOther] in
  accepts cfg [ERecv 3 (1%N, GOrig); ERecv 4 (1%N, GOrig); EFinish 4; EFinish 3; EReturn] = true
  /\ accepts cfg [ERecv 3 (1%N, GOrig); ERecv 4 (1%N, GOrig); EFinish 4; EReturn; EFinish 3] = false
  /\ accepts cfg [ERecv 3 (1%N, GOrig); EFinish 4; ERecv 4 (1%N, GOrig); EFinish 3; EReturn] = false
  /\ accepts cfg [ERecv 3 (1%N, GOrig); ERecv 4 (1%N, GOrig); EFinish 4; EReturn] = false
  /\ accepts cfg [ERecv 3 (1%N, GOrig); ERecv 4 (1%N, GOrig); EFinish 4; EFinish 3] = false
  /\ accepts cfg [ERecv 3 (1%N, GOrig); ERecv 4 (1%N, GOrig); EFinish 4; EFinish 3; EReturn; EReturn] = false
  /\ accepts cfg [ERecv 3 (1%N, GOrig); ERecv 4 (1%N, GOrig); EFinish 4; EFinish 4; EFinish 3; EReturn] = false.
Proof. vm_compute. repeat split; reflexivity. Qed.
