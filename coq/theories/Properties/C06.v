(** * C06 — snapping is total: the spike-removal part (kmpDeduplicate and its helpers), and END TO END:
      every other stage is total on every in-grid polygon, so snapPolygon can only fail inside kmpDeduplicate
      ([C06_snapPolygon_errors_only_from_spike_removal]) and never fails on the class of C18
      ([C06_snapPolygon_total_on_class]); section END TO END at the end of this file.

    Proved for ALL inputs: the three search helpers never index out of range and never loop
    ([C06_search_total]); kmpDeduplicate never loops, and can fail in two ways only
    ([C06_kmp_total_partial], [C06_kmp_no_hang]).
    Refuted: kmpDeduplicate is NOT total, even on rings with >= 3 vertices, first <> last and no
    two equal neighbours (what cleanupNewRing passes to it): [C06_kmp_total_refuted] — a 33-vertex
    ring on three pixel centres makes RemoveSequences slice [20:19] (reproduced on the Go code).
    Sufficient conditions for totality: no step back ([C06_kmp_total_no_step_back]); at most two
    visits per point ([C06_kmp_total_le2]).
    Bounded: no failure on any chain of the enumerated domains ([C06_kmp_total_4_upto_9], ...).
    A reported [kmpSearch] position need not be an occurrence ([C06_kmpSearch_unsound_refuted]). *)
From Coq Require Import ZArith List Bool Sorted.
From Texel Require Import Prelude.Base Index.Model Snap.Model
  Snap.ProofsKmpSearch Snap.ProofsKmpSubseq Snap.ProofsKmpTotal Snap.ProofsKmpEnum Snap.ProofsKmpLe2.
Import ListNotations.
Open Scope Z_scope.

(** kmpTable / kmpSearch / kmpSearchAll return normally on every input that satisfies the size
    relation their callers establish; tables have the failure-function bounds; reported positions
    are in range, strictly increasing and non-overlapping *)
Theorem C06_search_total :
  (forall find table, (2 <= length table)%nat -> (length find <= length table)%nat ->
     exists t, kmpTable find table = Ok t /\ length t = length table /\ idx t 0 = Ok (-1) /\
               forall k, 1 <= k < zlen find -> exists v, idx t k = Ok v /\ 0 <= v < k) /\
  (forall corpus find, find <> [] -> (length find <= Nat.max (length corpus) 2)%nat ->
     exists m, kmpSearch corpus find = Ok m /\ 0 <= m <= zlen corpus /\
               (m < zlen corpus -> m + zlen find <= zlen corpus)) /\
  (forall corpus find, find <> [] -> (length find <= length corpus)%nat ->
     exists ms, kmpSearchAll corpus find = Ok ms /\
                chain_from 0 (zlen find) ms /\
                StronglySorted Z.lt ms /\
                Forall (fun m => 0 <= m /\ m + zlen find <= zlen corpus) ms /\
                (forall j a b, nth_error ms j = Some a -> nth_error ms (S j) = Some b -> a + zlen find <= b)).
Proof. exact (conj kmpTable_ok (conj kmpSearch_ok kmpSearchAll_ok)). Qed.
Print Assumptions C06_search_total.

(** a pattern that is a prefix of the corpus is found at 0 (so [len matches >= 1] in kmpDeduplicate) *)
Theorem C06_kmpSearch_prefix : forall corpus find, find <> [] ->
  firstn (length find) corpus = find -> kmpSearch corpus find = Ok 0.
Proof. exact kmpSearch_prefix. Qed.
Print Assumptions C06_kmpSearch_prefix.

(** every ring: kmpDeduplicate returns, or its loop reads [ring[-1]] after the inner default of the
    switch (only when [len matches = 1 /\ len reverseMatches = 0]), or RemoveSequences slices out
    of bounds (exactly when the recorded ranges violate [ranges_ok]) *)
Theorem C06_kmp_total_partial : forall r,
  (exists r', kmpDeduplicate r = Ok r') \/
  kmpDedupLoop (kmpFuel r) r [] [] 0 = Err IndexOutOfRange \/
  (exists seqs, kmpDedupLoop (kmpFuel r) r [] [] 0 = Ok seqs /\ ~ ranges_ok (zlen r) seqs 0 /\
                kmpDeduplicate r = Err SliceBounds).
Proof. exact kmpDeduplicate_partial. Qed.
Print Assumptions C06_kmp_total_partial.

(** every ring: the loop terminates (fuel 4n+8 is never exhausted) *)
Theorem C06_kmp_no_hang : forall r, kmpDeduplicate r <> Err OutOfFuel.
Proof. exact kmpDeduplicate_no_OutOfFuel. Qed.
Print Assumptions C06_kmp_no_hang.

(** a clean sufficient condition for totality: the loop never sees [ring[i] = ring[i+2]] (in
    particular a ring without repeated vertex) — then nothing is removed *)
Theorem C06_kmp_total_no_step_back : forall r, no_step_back r -> kmpDeduplicate r = Ok r.
Proof. exact kmp_id_no_step_back. Qed.
Print Assumptions C06_kmp_total_no_step_back.

(** a second sufficient condition, the class of C18: no point occurs at three positions of the ring
    ([le2]; decidable form [le2b r = true]) — then kmpDeduplicate returns *)
Theorem C06_kmp_total_le2 : forall r, le2 r -> exists r', kmpDeduplicate r = Ok r'.
Proof. exact kmp_total_le2. Qed.
Print Assumptions C06_kmp_total_le2.

(** RemoveSequences succeeds exactly on ordered, in-range ranges *)
Theorem C06_removeSequences_ok_iff : forall s m,
  (exists t, removeSequences s m = Ok t) <-> ranges_ok (zlen s) m 0.
Proof. exact removeSequences_ok_iff. Qed.
Print Assumptions C06_removeSequences_ok_iff.

(** the full statement is false of the faithful model (and of the code) *)
Theorem C06_kmp_total_refuted : exists r,
  (3 <= length r)%nat /\
  (forall a b, hd_error r = Some a -> last_opt r = Some b -> a <> b) /\
  (forall i p q, nth_error r i = Some p -> nth_error r (S i) = Some q -> p <> q) /\
  kmpDedupLoop (kmpFuel r) r [] [] 0 = Ok [([(1, 0); (0, 0); (1, 1)], (0, 20)); ([(1, 0); (1, 1)], (19, 21))] /\
  kmpDeduplicate r = Err SliceBounds.
Proof. exact kmpDeduplicate_total_refuted. Qed.
Print Assumptions C06_kmp_total_refuted.

(** bounded totality: ALL chains (equal neighbours, first = last, lengths 0..2 included) *)
Theorem C06_kmp_total_4_upto_9 : forall w, (length w <= 9)%nat -> Forall (fun a => (a < 4)%nat) w ->
  exists r', kmpDeduplicate (chain w) = Ok r'.
Proof. exact kmp_total_4_upto_9. Qed.
Print Assumptions C06_kmp_total_4_upto_9.

Theorem C06_kmp_total_3_upto_10 : forall w, (length w <= 10)%nat -> Forall (fun a => (a < 3)%nat) w ->
  exists r', kmpDeduplicate (chain w) = Ok r'.
Proof. exact kmp_total_3_upto_10. Qed.
Print Assumptions C06_kmp_total_3_upto_10.

Theorem C06_kmp_total_2_upto_14 : forall w, (length w <= 14)%nat -> Forall (fun a => (a < 2)%nat) w ->
  exists r', kmpDeduplicate (chain w) = Ok r'.
Proof. exact kmp_total_2_upto_14. Qed.
Print Assumptions C06_kmp_total_2_upto_14.

Theorem C06_kmp_total_5_upto_7 : forall w, (length w <= 7)%nat -> Forall (fun a => (a < 5)%nat) w ->
  exists r', kmpDeduplicate (chain w) = Ok r'.
Proof. exact kmp_total_5_upto_7. Qed.
Print Assumptions C06_kmp_total_5_upto_7.

(** kmpSearch reports a position that is not an occurrence *)
Example C06_kmpSearch_unsound_refuted :
  let A := (0, 0) in let B := (1, 0) in
  let corpus := [B; A; A; B; A; B; A; A] in
  let find := [B; A; A; B; A; A] in
  kmpSearch corpus find = Ok 2 /\ occurs_at corpus find 2 = false /\
  firstn 6 (skipn 2 corpus) = [A; B; A; B; A; A].
Proof. exact kmpSearch_unsound_refuted. Qed.

(** ** non-vacuity: adversarially repetitive inputs on which everything returns *)
Example C06_examples_ok :
  let A := (0, 0) in let B := (1, 0) in let C := (1, 1) in let D := (0, 1) in
  (* lengths 0, 1, 2 *)
  kmpDeduplicate [] = Ok [] /\ kmpDeduplicate [A] = Ok [A] /\ kmpDeduplicate [A; B] = Ok [A; B] /\
  (* all equal *)
  is_ok (kmpDeduplicate [A; A; A; A; A; A; A; A]) = true /\
  (* periodic words *)
  kmpDeduplicate [A; B; A; B; A; B; A; B; A; B; A; B] = Ok [A; B] /\
  is_ok (kmpDeduplicate [A; B; C; A; B; C; A; B; C; A; B; C; A; B; C]) = true /\
  (* palindromes *)
  kmpDeduplicate [A; B; C; D; C; B; A] = Ok [A; B; C; D; C; B; A] /\
  is_ok (kmpDeduplicate [A; B; C; D; C; B; A; B; C; D; C; B; A; B; C; D]) = true /\
  (* a zigzag that is removed *)
  kmpDeduplicate [D; A; B; C; B; A; B; C; D] = Ok [D; A; B; C; D] /\
  (* the searches on periodic input *)
  kmpSearchAll [A; B; A; B; A; B; A; B] [A; B] = Ok [0; 2; 4; 6] /\
  kmpSearchAll [A; A; A; A; A; A; A] [A; A; A] = Ok [0; 3] /\
  kmpSearch [A; B; C] [D] = Ok 3 /\
  kmpTable [A; B; A; B; A; C] (repeat 0 6) = Ok [-1; 0; 0; 1; 2; 3].
Proof. vm_compute. repeat split; reflexivity. Qed.

(** ** the Morton-key limit (finding F11): the executable model with the limit ([snapPolygonFull], the one the
    correspondence runs) equals the plain model for deepest levels up to 32 — so every other theorem applies
    there — and above that an in-grid polygon makes SnapPolygon panic (NZTM2000Quad tile matrix 21 = level 33;
    replayed on the implementation) *)
From Texel Require Import Snap.ProofsGenKmp.
From Texel.Gen Require Import KmpGen.

(** ** tie G2 (loops): the three search functions of snap.go REGENERATED from source on this run (gen/KmpGen.v) are
    the model's, on ALL inputs and with all outcomes.  Each Go loop is a Fixpoint on fuel over exactly the
    variables it assigns; index and slice expressions are [idx] / [setidx] / [slice] ([Err IndexOutOfRange],
    [Err SliceBounds] = Go's run-time panics); kmpTable's writes through its slice parameter are its result;
    [make([]int, max(len(corpus), 2))] is [repeat 0 ..]; [==] on [2]float64 is [pt_eqb]; [int] is exact Z.
    The generated loops run on the model's fuel (2 len find + 2, (len corpus + 2)(len find + 2), len corpus + 2),
    so the equalities include [Err OutOfFuel]; C06_search_total shows the fuel always suffices. *)
Theorem C06_source_tie_kmp_search :
  (forall find table, gen_kmpTable find table = kmpTable find table) /\
  (forall corpus find, gen_kmpSearch corpus find = kmpSearch corpus find) /\
  (forall corpus find, gen_kmpSearchAll corpus find = kmpSearchAll corpus find).
Proof.
  split; [exact gen_kmpTable_spec |]. split; [exact gen_kmpSearch_spec | exact gen_kmpSearchAll_spec].
Qed.
Print Assumptions C06_source_tie_kmp_search.

Example C06_source_tie_kmp_search_example :
  gen_kmpSearchAll [(1,1); (2,2); (1,1); (2,2); (3,3); (1,1); (2,2)] [(1,1); (2,2)] = Ok [0; 2; 5] /\
  gen_kmpSearch [(1,1); (1,1); (2,2)] [(1,1); (2,2)] = Ok 1 /\
  gen_kmpTable [(1,1); (2,2); (1,1); (2,2)] [0; 0; 0; 0] = Ok [-1; 0; 0; 1] /\
  gen_kmpTable [(1,1)] [0] = Err IndexOutOfRange.
Proof. vm_compute. repeat split; reflexivity. Qed.

From Texel Require Import Snap.ProofsGenSmall.
From Texel.Gen Require Import SnapSmallGen.

(** ** tie G2: cleanupNewVertices (with its panic "no points found" and its two slice expressions),
    asPointOrLine and ensureCorrectWindingOrder REGENERATED from snap.go on this run (gen/SnapSmallGen.v) are the
    model's on all inputs; cleanupNewVertices can fail ONLY with NoPointsFound: neither slice expression nor
    newVertices[0] is ever out of range.  Not translated but the model's own: windingOrderIsCorrect (float
    predicate of the geom library) and mapslicehelp.ReverseClone (= rev); a nil [*[2]float64] is [None]. *)
Theorem C06_source_tie_small :
  (forall nv lv, gen_cleanupNewVertices nv lv = cleanupNewVertices nv lv) /\
  (forall nv lv, gen_cleanupNewVertices nv lv <> Err SliceBounds /\ gen_cleanupNewVertices nv lv <> Err IndexOutOfRange) /\
  (forall r, gen_asPointOrLine r = Ok (asPointOrLine r)) /\
  (forall r cw, gen_ensureCorrectWindingOrder r cw = Ok (ensureCorrectWindingOrder r cw)).
Proof.
  split; [exact gen_cleanupNewVertices_spec |]. split; [exact gen_cleanupNewVertices_no_slice_panic |].
  split; [exact gen_asPointOrLine_spec | exact gen_ensureCorrectWindingOrder_spec].
Qed.
Print Assumptions C06_source_tie_small.

Example C06_source_tie_small_example :
  gen_cleanupNewVertices [(1,1); (2,2); (3,3)] (Some (1,1)) = Ok [(2,2)] /\
  gen_cleanupNewVertices [(1,1)] None = Ok [(1,1)] /\ gen_cleanupNewVertices [] None = Err NoPointsFound /\
  gen_ensureCorrectWindingOrder [(0,0); (0,1); (1,0)] false = Ok [(1,0); (0,1); (0,0)].
Proof. vm_compute. repeat split; reflexivity. Qed.

From Texel Require Import Snap.ProofsGenKmpDedup.
From Texel.Gen Require Import KmpDedupGen.

(** ** tie G2 (loops): kmpDeduplicate (snap.go) and mapslicehelp.RemoveSequences REGENERATED from source on this run
    (gen/KmpDedupGen.v) are the model's, for EVERY ring and every outcome (value, Err IndexOutOfRange,
    Err SliceBounds; neither side ever returns Err OutOfFuel: C06_kmp_no_hang).  Translated: the scan loop with
    [continue], the reverse scan (3-clause [for] with [break]), the corpus expansion ([for {}], the inner [range]
    loop with its [stop] flag), the five branches with their index arithmetic, the restart index, both [var]
    declarations, RemoveSequences' loop.  The scan loop runs on the model's fuel + 1 (the model reports a negative
    restart index in the iteration that computes it, the Go code when it indexes with it one iteration later).
    NOT translated, kept as the model's function of the same meaning after an AST check that the source calls the
    expected library function:
    - [sortedmap.New[string, [2]int](n, func(a, b [2]int) bool { return a[xAx] < b[xAx] })] = the empty [seqmap];
      [X.Insert(fmt.Sprint(segment), [2]int{a, b})] = [seq_insert X segment (a, b)] (key = the segment itself);
      [mmap := X.Map(); for _, key := range X.Keys() { .. mmap[key] .. }] = the entries of X in order;
    - [slices.Contains(segment, v)] = [mem_pt v segment]; [copy(dst, src)] and [slices.Reverse(x)] on a local created
      by [make] = [go_copy] (Prelude/GoLoop.v) and [rev]; [append(corpus, ring[a:b]...)] = [corpus ++ ring[a:b]]
      (slices as values: the elements written through the shared backing array are the ones read);
    - kmpSearchAll is the regenerated one of C06_source_tie_kmp_search; [int] is exact Z, [2]float64 is [pt]. *)
Theorem C06_source_tie_kmp_deduplicate :
  (forall r, gen_kmpDeduplicate r = kmpDeduplicate r) /\
  (forall s m, gen_RemoveSequences s m = removeSequences s m).
Proof. split; [exact gen_kmpDeduplicate_spec | exact gen_RemoveSequences_spec]. Qed.
Print Assumptions C06_source_tie_kmp_deduplicate.

(** the regenerated code runs: a zigzag a b a b a b c is reduced to a b c; a spike a b c b d loses nothing (backtrace) *)
Example C06_source_tie_kmp_deduplicate_example :
  gen_kmpDeduplicate [(1,1); (2,2); (1,1); (2,2); (1,1); (2,2); (3,3)] = Ok [(1,1); (2,2); (3,3)] /\
  gen_kmpDeduplicate [(1,1); (2,2); (3,3); (2,2); (4,4)] = kmpDeduplicate [(1,1); (2,2); (3,3); (2,2); (4,4)] /\
  gen_RemoveSequences [(1,1); (2,2); (3,3); (4,4)] [([(9,9)], (1, 3))] = Ok [(1,1); (4,4)].
Proof. vm_compute. repeat split; reflexivity. Qed.

From Texel Require Import Snap.ProofsGenCleanup.
From Texel.Gen Require Import CleanupRingGen.

(** ** tie G2 (loops): cleanupNewRing REGENERATED from snap.go on this run (gen/CleanupRingGen.v) is the model's, for
    every ring: the closing vertex dropped before spike removal, the loop that drops it again afterwards (fix ffc0f16;
    the model's structural [trimClosing], the generated loop on fuel len + 1), both exits for fewer than 3 vertices.
    It calls the REGENERATED kmpDeduplicate, asPointOrLine and splitRing (gen_splitRing of gen/SplitWalkGen.v, tied to
    the model by C06_source_tie_split_ring at the end of this file), the arguments (hitMultiple, ringIdx) of splitRing
    read as the model's predicate [isMulti]. *)
Theorem C06_source_tie_cleanup_new_ring : forall newRing isOuter isMulti,
  gen_cleanupNewRing newRing isOuter isMulti = cleanupNewRing newRing isOuter isMulti.
Proof. exact gen_cleanupNewRing_spec. Qed.
Print Assumptions C06_source_tie_cleanup_new_ring.

From Texel Require Import Snap.ProofsGenSplitTail.
From Texel.Gen Require Import SplitTailGen.

(** ** tie G2, PARTIAL for splitRing: only its LAST part (from [completeRingKeys := maps.Keys(completeRings)] on:
    the complete rings in increasing key order classified by size and winding order, and reversed + swapped when all
    landed on the wrong side) is REGENERATED from source on this run (gen/SplitTailGen.v), and the model's splitRing
    is shown to end with it.  MISSING for a full tie: the first part of splitRing, the ordered-map stack walk
    ([splitLoop] / [splitStep] / [prependLoop]) that produces the complete rings — hand-modelled, held by the
    correspondence only.  Modelled inside the translated part: [windingOrderIsCorrect]; the Go map read through
    [maps.Keys] + [sort.Ints] as its entries in key order; [slices.Reverse] on the range variable as a value. *)
Theorem C06_source_tie_split_ring_partial :
  (forall isOuter (c : complete), gen_splitRing_tail isOuter c = Ok (split_tail isOuter (map snd c))) /\
  (forall r isOuter isMulti,
     splitRing r isOuter isMulti
     = do r0 <- idx r 0;
       do st <- splitLoop isMulti (zlen (r ++ [r0])) (mkSplit 0 [(0, [])] []) 0 (r ++ [r0]);
       gen_splitRing_tail isOuter (sortComplete (sDone st))).
Proof. split; [exact gen_splitRing_tail_spec | exact splitRing_ends_with_gen_tail]. Qed.
Print Assumptions C06_source_tie_split_ring_partial.

From Texel Require Import Index.ProofsInsert Snap.ModelFull Snap.ProofsFull.
Theorem C06_full_model_agrees_upto_level_32 : forall g P levels cfg, (gdeep g <= 32)%nat ->
  snapPolygonFull g P levels cfg = snapPolygon g P levels cfg.
Proof. exact snapPolygonFull_eq. Qed.
Print Assumptions C06_full_model_agrees_upto_level_32.

Theorem C06_deep_level_refuted : exists g P levels cfg,
  0 < gres g /\ Forall (insideGrid g) (concat P) /\ snapPolygonFull g P levels cfg = Err MustToZ.
Proof. exact deep_level_refuted. Qed.
Print Assumptions C06_deep_level_refuted.

(** * END TO END: snapPolygon (Snap/ProofsJoinC06.v).

    Every stage of the model other than kmpDeduplicate is total on every in-grid input: routing never returns an
    empty centre list for an edge of the indexed polygon (C02), so cleanupNewVertices cannot fail; splitRing is only
    called on non-empty rings; dedupeInnersOuters only indexes ring numbers in range and positions modulo the common
    length of two non-empty rings; matchInnersToPolygons only reads first/last vertices of non-empty shells and its
    fall-back index is only passed to append_inner; rings of fewer than three vertices and empty rings are handled
    before any of this; a level whose shell collapses is dropped.  The loops other than kmp's are structural.
    [routedClean g hots L idx r] (Properties/C18.v) is the ring handed to kmpDeduplicate. *)
From Texel Require Import Index.ProofsRouting Snap.ProofsLevel Snap.ProofsJoinC18 Snap.ProofsJoinC06.

(** for every polygon (valid or not, any rings) whose vertices are all in the grid, every list of levels within the
    index, every configuration: IF snapPolygon fails, THEN kmpDeduplicate failed with that very error on a
    routed-and-cleaned ring of at least three vertices of some requested level — and the error is a ring[-1] access
    or a slice out of bounds in RemoveSequences, never NoPointsFound, PartialRingsOnStack, OutOfFuel (no hang), ...
    This is the exact shape of the known finding F13 ([C06_kmp_total_refuted]). *)
Theorem C06_snapPolygon_errors_only_from_spike_removal : forall g P levels cfg hs e, 0 < gres g -> RootCovers g ->
  (forall L, In L levels -> (L <= gdeep g)%nat) -> insertPolygon g P = Ok hs ->
  snapPolygon g P levels cfg = Err e ->
  exists L idx r, In L levels /\ nth_error P idx = Some r /\
    (exists c, routedClean g (hotLevels g hs) L idx r = Ok c /\ (3 <= length c)%nat /\ kmpDeduplicate c = Err e) /\
    (e = IndexOutOfRange \/ e = SliceBounds).
Proof. exact snapPolygon_errors_from_kmp. Qed.
Print Assumptions C06_snapPolygon_errors_only_from_spike_removal.

(** ON THE CLASS OF C18 (every routed-and-cleaned ring of every requested level visits no pixel centre at three
    positions) snapPolygon returns normally: never an error of any kind *)
Theorem C06_snapPolygon_total_on_class : forall g P levels cfg hs, 0 < gres g -> RootCovers g ->
  (forall L, In L levels -> (L <= gdeep g)%nat) -> insertPolygon g P = Ok hs ->
  (forall L idx r c, In L levels -> nth_error P idx = Some r ->
     routedClean g (hotLevels g hs) L idx r = Ok c -> le2 c) ->
  exists res, snapPolygon g P levels cfg = Ok res.
Proof. exact snapPolygon_total_on_class. Qed.
Print Assumptions C06_snapPolygon_total_on_class.

(** the same stated on the vertices: all inside the grid ([insideGrid], C09) *)
Theorem C06_snapPolygon_total_on_class_inGrid : forall g P levels cfg, 0 < gres g -> RootCovers g ->
  (forall L, In L levels -> (L <= gdeep g)%nat) -> Forall (insideGrid g) (concat P) ->
  (forall hs L idx r c, insertPolygon g P = Ok hs -> In L levels -> nth_error P idx = Some r ->
     routedClean g (hotLevels g hs) L idx r = Ok c -> le2 c) ->
  exists res, snapPolygon g P levels cfg = Ok res.
Proof. exact snapPolygon_total_on_class_inGrid. Qed.
Print Assumptions C06_snapPolygon_total_on_class_inGrid.

(** the model with the Morton-key limit, the one the correspondence runs: the same up to deepest level 32 *)
Theorem C06_snapPolygonFull_total_on_class : forall g P levels cfg hs, (gdeep g <= 32)%nat -> 0 < gres g -> RootCovers g ->
  (forall L, In L levels -> (L <= gdeep g)%nat) -> insertPolygon g P = Ok hs ->
  (forall L idx r c, In L levels -> nth_error P idx = Some r ->
     routedClean g (hotLevels g hs) L idx r = Ok c -> le2 c) ->
  exists res, snapPolygonFull g P levels cfg = Ok res.
Proof. exact snapPolygonFull_total_on_class. Qed.
Print Assumptions C06_snapPolygonFull_total_on_class.

Theorem C06_snapPolygonFull_errors_only_from_spike_removal : forall g P levels cfg hs e, (gdeep g <= 32)%nat ->
  0 < gres g -> RootCovers g -> (forall L, In L levels -> (L <= gdeep g)%nat) -> insertPolygon g P = Ok hs ->
  snapPolygonFull g P levels cfg = Err e ->
  exists L idx r, In L levels /\ nth_error P idx = Some r /\
    (exists c, routedClean g (hotLevels g hs) L idx r = Ok c /\ (3 <= length c)%nat /\ kmpDeduplicate c = Err e) /\
    (e = IndexOutOfRange \/ e = SliceBounds).
Proof. exact snapPolygonFull_errors_from_kmp. Qed.
Print Assumptions C06_snapPolygonFull_errors_only_from_spike_removal.

(** the stages, for every input *)
Theorem C06_dedupe_total : forall outs ins, Forall (fun x : ring => x <> []) (outs ++ ins) ->
  exists r, dedupeInnersOuters outs ins = Ok r.
Proof. exact dedupe_total. Qed.
Print Assumptions C06_dedupe_total.

Theorem C06_match_total : forall (outs ins : list ring), Forall (fun x : ring => x <> []) outs ->
  exists ps, matchInnersToPolygons (map (fun o => [o]) outs) ins = Ok ps.
Proof. exact match_total. Qed.
Print Assumptions C06_match_total.

Theorem C06_level_errors_only_from_spike_removal : forall g hots P cfg L e,
  (forall idx r, nth_error P idx = Some r -> forall a b,
     In (a, b) (ProofsBasics.dedges (ensureCorrectWindingOrder r (negb (Nat.eqb idx 0)))) ->
     snapClosestPoints g hots a b L <> []) ->
  snapLevel g hots P cfg L = Err e ->
  exists idx r, nth_error P idx = Some r /\
    exists c, routedClean g hots L idx r = Ok c /\ (3 <= length c)%nat /\ kmpDeduplicate c = Err e.
Proof. exact level_errors_from_kmp. Qed.
Print Assumptions C06_level_errors_only_from_spike_removal.

(** non-vacuity.  (a) the neck polygon of Properties/C18.v with a ring of two vertices and an empty ring added: all
    hypotheses hold at levels 5, 3, 2 (32 x 32 pixels of size 2) and snapPolygon returns.  (b) outside the class the
    failure is real at polygon level: the 33-vertex ring of F13 on three neighbouring pixels makes snapPolygon fail
    with SliceBounds, in either direction. *)
Definition c06G : grid := mkGrid (mkExtent 0 0 64 64) 2 5.
Definition c06Neck : list ring :=
  [[(2,2);(22,2);(22,29);(42,29);(42,2);(62,2);(62,62);(42,62);(42,31);(22,31);(22,62);(2,62)]; [(50,50);(52,52)]; []].
Definition c06F13 : list ring := [map (fun p => (2 * fst p + 3, 2 * snd p + 3)) ring33].

Example C06_snapPolygon_total_on_class_example :
  (exists hs, insertPolygon c06G c06Neck = Ok hs /\
     0 < gres c06G /\ RootCovers c06G /\ (forall L, In L [5; 3; 2]%nat -> (L <= gdeep c06G)%nat) /\
     (forall L idx r c, In L [5; 3; 2]%nat -> nth_error c06Neck idx = Some r ->
        routedClean c06G (hotLevels c06G hs) L idx r = Ok c -> le2 c)) /\
  snapPolygon c06G c06Neck [5; 3; 2]%nat (mkConfig true false false) =
    Ok [(5%nat, [[[(3,3);(23,3);(23,29);(43,29);(43,3);(63,3);(63,63);(43,63);(43,31);(23,31);(23,63);(3,63)]]; [[(51,51);(53,53)]]]);
        (3%nat, [[[(4,4);(20,4);(20,28);(20,60);(4,60)]]; [[(44,28);(44,4);(60,4);(60,60);(44,60)]]; [[(20,28);(44,28)]]; [[(52,52)]]]);
        (2%nat, [[[(8,8);(24,8);(24,24);(24,56);(8,56)]]; [[(40,24);(40,8);(56,8);(56,56);(40,56)]]; [[(24,24);(40,24)]]; [[(56,56)]]])] /\
  snapPolygon c06G c06F13 [5%nat] (mkConfig false false false) = Err SliceBounds /\
  snapPolygon c06G [rev (hd [] c06F13)] [5%nat] (mkConfig false false false) = Err SliceBounds.
Proof.
  split.
  { destruct (insertPolygon c06G c06Neck) as [hs |] eqn:E; [| vm_compute in E; discriminate].
    exists hs. split; [reflexivity |]. vm_compute in E. inversion E; subst hs. clear E.
    split; [reflexivity |]. split; [vm_compute; repeat split; discriminate |]. split.
    - intros L HL. cbn [In] in HL. destruct HL as [<- | [<- | [<- | []]]]; cbn [gdeep c06G]; repeat constructor.
    - intros L idx r c HL. revert idx r c. apply class_le2b_sound. cbn [In] in HL.
      destruct HL as [<- | [<- | [<- | []]]]; vm_compute; reflexivity. }
  vm_compute. repeat split; reflexivity.
Qed.

From Texel Require Import Snap.MatchSupport Snap.ProofsGenMatch.
From Texel.Gen Require Import MatchGen.

(** ** tie G2 (loops): matchInnersToPolygons REGENERATED from snap.go on this run (gen/MatchGen.v, translator/match.go)
    is the model's, for EVERY list of polygons, every list of inner rings and every outcome (value, Err
    IndexOutOfRange for a polygon without rings / an empty outer ring).  Translated from the AST: the early return,
    (repair of F16) the map [cancelledBy := make(map[int]int, lenPolygons)] filled by [for polyI := range polygons]
    around [for innerI := range innerRings] with [cancelledBy[polyI] = innerI; break] at the first inner ring for which
    [ringsAreEqual(polygons[polyI][0], innerRings[innerI], true, false)], and in the counting loop
    [if twinI, cancelled := cancelledBy[polyI]; cancelled && twinI != innerI { continue }];
    both [var] declarations, the labelled loop [matchInners] over the inner rings with their indices
    ([for innerI, innerRing := range innerRings]), the loop over a ring's vertices,
    [for polyI := range polygons], the per-polygon counting [containsPerPolyI.Set(polyI, containsPerPolyI.Value(polyI)+1)],
    [matchCount == 1] with [continue matchInners] out of the vertex loop, [containsPerPolyI.Len() == 0] with
    [continue], the lazily computed [polyISortedByOuterAreaDesc] ([== nil]: an [option]), both in-place updates
    [polygons[k] = append(polygons[k], innerRing)] and the final loop over the inners turned outers.
    [polygons[k] = ...] is [idx] + [setidx], i.e. Err IndexOutOfRange where Go panics, while the model's
    [append_inner] ignores an index out of range: the proof shows k is always a valid index (a key of the counts, or
    0 with at least one polygon), so the two agree and that panic cannot happen.  [hasInners] is only logged.
    NOT translated, kept as the MODEL's function after the translator checked the AST for the exact callee, import
    path and declared signature (trusted; listed at the top of gen/MatchGen.v and Snap/ProofsGenMatch.v):
    - [ringContains], [sortPolyIdxsByOuterAreaDesc] (float predicates, go-sortedmap; the latter's result is nil
      exactly when empty: [nilable_of_keys]);
    - [mapslicehelp.FindLastKeyWithMaxValue] = [maxWinners], [mapslicehelp.LastMatch] = [lastMatch],
      [mapslicehelp.OrderedMapKeys] = [map fst], [mapslicehelp.ReverseClone] = [rev];
    - go-ordered-map: [orderedmap.New[int, uint](orderedmap.WithCapacity[int, uint](n))] = [[]], [Set] = [om_set],
      [Value] = [om_get], [Len] = [om_len] (Snap/MatchSupport.v; [Set(k, Value(k)+1)] is PROVED to be [om_incr]);
    - [for i := range s] over [go_indices s]; [for i, x := range s] over [go_enum s]; [log.Printf] = nothing;
      [int]/[uint] exact Z; slices as values;
    - (repair of F16) [ringsAreEqual] = the model's (signature checked; tied on its own below:
      [C06_source_tie_ring_helpers]); the Go [map[int]int] = [imap] of Snap/MatchSupport.v: [make] = [[]], [m[k] = v] =
      [im_set], [v, ok := m[k]] = [im_get] / [im_has] (the filling loops are PROVED to compute the model's [cancelledBy],
      the comma-ok test to be the model's [skipCancelled]). *)
Theorem C06_source_tie_match_inners : forall polys inners hasInners,
  gen_matchInnersToPolygons polys inners hasInners = matchInnersToPolygons polys inners.
Proof. exact gen_matchInnersToPolygons_spec. Qed.
Print Assumptions C06_source_tie_match_inners.

(** the regenerated code runs: two nested shells; one hole inside both (no single winner: it goes to the smaller
    shell through the lazily sorted indices), one hole inside the big shell only (single winner at its first vertex:
    [continue matchInners]), one "hole" outside both (turned into an outer, reversed); a polygon without rings makes
    the scan fail as the Go code panics; without polygons every inner ring is turned; (F16) the polygon whose outer
    ring [P1] is equal to the inner ring [T] (same points, opposite direction, another starting point) is cancelled: it
    takes [T] only, and the hole [A] inside it goes to the shell around it (it went to [P1] before the repair) *)
Example C06_source_tie_match_inners_example :
  let P0 := [(0,0); (100,0); (100,100); (0,100)] in
  let P1 := [(10,10); (50,10); (50,50); (10,50)] in
  let A := [(20,20); (20,30); (30,30); (30,20)] in
  let B := [(60,60); (60,70); (70,70); (70,60)] in
  let C := [(200,200); (200,210); (210,210)] in
  let T := [(50,50); (50,10); (10,10); (10,50)] in
  gen_matchInnersToPolygons [[P0]; [P1]] [A; B; C] true = Ok [[P0; B]; [P1; A]; [rev C]] /\
  gen_matchInnersToPolygons [[P0]; [P1]] [A; T; B] true = Ok [[P0; A; B]; [P1; T]] /\
  gen_matchInnersToPolygons [[P1]] [T; A] true = Ok [[P1; T]; [rev A]] /\
  gen_matchInnersToPolygons [[P0]; []] [A] true = Err IndexOutOfRange /\
  gen_matchInnersToPolygons [] [A; B] false = Ok [[rev A]; [rev B]] /\
  gen_matchInnersToPolygons [[P0]; [P1]] [] false = Ok [[P0]; [P1]].
Proof. vm_compute. repeat split; reflexivity. Qed.

From Texel Require Import Prelude.GoLoop Prelude.GoLib Snap.ProofsGenRingHelpers.
From Texel.Gen Require Import RingHelpersGen.

(** ** tie G2 (loops): the small ring helpers REGENERATED from source on this run (gen/RingHelpersGen.v) are the model's
    on ALL inputs, every outcome included ([Err IndexOutOfRange] of ringsAreEqual / ringContains on an empty ring).
    REGENERATED from snap.go: ringsAreEqual (its [for k] loop on fuel len + 1, both comparisons with their short-circuit
    operands, Go's truncating [%] as [go_rem] — equal to the model's [mod] because the operands are non-negative),
    ringContains (the wrap-around edge, the [for i] loop with its early return, the even-odd flip), outersToPolygons,
    reverseWindingOrderIfConfigured (two nested [for i := range] loops), sortPolyIdxsByOuterAreaDesc (the [range] loop
    and its if/else); from mapslicehelp.go, instantiated at the types of their call sites in snap.go:
    FindLastKeyWithMaxValue (named results, [continue]), LastMatch (the downward [for] loop), DeleteFromSliceByIndex,
    OrderedMapKeys, CountVals, LastElement, ReverseClone.  In the model these are [ringsAreEqual], [ringContains],
    [map (fun o => [o])] and [map (map rev)] of snapLevel, [sortPolyIdxsByOuterAreaDesc], [maxWinners] (key and number of
    winners of the three results [maxWinners3]), [lastMatch], [filter_idx], [map fst], the counts [nO] / [nI] of
    dedupeStep, [last_opt], [rev].
    STAYS MODELLED (the translator checks the AST for the exact call shape and then emits the model's function; trusted):
    geomhelp.RayIntersect (float code) = [rayIntersect]; geomhelp.Shoelace and the literal 0.0 (float code) = [absArea2], 0;
    go-sortedmap New(i > j) / Insert(range index, v) / Keys = [] / [area_place] / [map fst]; go-ordered-map = the
    insertion-ordered association list walked by Newest..Prev ([rev]) or Oldest..Next, Key / Value / Len = fst / snd / zlen;
    a map[int]X read only by [_, ok := m[k]] = the list of its keys ([mem_Z]); slices.Index / slices.Contains =
    [slices_index pt_eqb] / [mem_Z]; slices.Reverse(p[i][j]) in place = the element replaced by its reverse (the rings do
    not share memory); config.ReverseWindingOrder = the record field; [&s[i]] = [Some s[i]]; [s == nil] = [is_nil s]
    (nil and empty slices are both []); [int] and [uint] are exact Z, [2]float64 is [pt].
    NOT regenerated: the callers dedupeInnersOuters, matchInnersToPolygons, addPointsAndSnap (hand-modelled, held by
    the correspondence). *)
Theorem C06_source_tie_ring_helpers :
  (forall ringI ringJ iIsOuter jIsOuter,
     gen_ringsAreEqual ringI ringJ iIsOuter jIsOuter = ringsAreEqual ringI ringJ iIsOuter jIsOuter) /\
  (forall r p, gen_ringContains r p = ringContains r p) /\
  (forall m, gen_FindLastKeyWithMaxValue m = Ok (maxWinners3 m) /\
             maxWinners m = (fst (fst (maxWinners3 m)), snd (maxWinners3 m))) /\
  (forall haystack needle, gen_LastMatch haystack needle = Ok (lastMatch haystack needle)) /\
  (forall (s : list ring) del off, gen_DeleteFromSliceByIndex s del off = Ok (filter_idx s off del)) /\
  (forall polys, gen_sortPolyIdxsByOuterAreaDesc polys = Ok (sortPolyIdxsByOuterAreaDesc polys)) /\
  (forall outs : list ring, gen_outersToPolygons outs = Ok (map (fun o => [o]) outs)) /\
  (forall ps cfg, gen_reverseWindingOrderIfConfigured ps cfg
                  = Ok (if reverseWindingOrder cfg then map (map (@rev pt)) ps else ps)) /\
  (forall m : list (Z * Z), gen_OrderedMapKeys m = Ok (map fst m)) /\
  (forall (m : list (Z * bool)) v, gen_CountVals m v = Ok (zlen (filter (fun p => Bool.eqb (snd p) v) m))) /\
  (forall m : list (Z * bool), gen_CountVals m true = Ok (zlen (filter (fun e => snd e) m)) /\
                               gen_CountVals m false = Ok (zlen (filter (fun e => negb (snd e)) m))) /\
  (forall l : list pt, gen_LastElement l = Ok (last_opt l)) /\
  (forall s : list pt, gen_ReverseClone s = Ok (rev s)).
Proof.
  split; [exact gen_ringsAreEqual_spec |]. split; [exact gen_ringContains_spec |].
  split; [exact (fun m => conj (gen_FindLastKeyWithMaxValue_spec m) (maxWinners_of_3 m)) |].
  split; [exact gen_LastMatch_spec |]. split; [exact gen_DeleteFromSliceByIndex_spec |].
  split; [exact gen_sortPolyIdxsByOuterAreaDesc_spec |]. split; [exact gen_outersToPolygons_spec |].
  split; [exact gen_reverseWindingOrderIfConfigured_spec |]. split; [exact gen_OrderedMapKeys_spec |].
  split; [exact gen_CountVals_spec |]. split; [exact gen_CountVals_outers_inners |].
  split; [exact gen_LastElement_spec | exact gen_ReverseClone_spec].
Qed.
Print Assumptions C06_source_tie_ring_helpers.

(** the regenerated code runs: a ring against its rotation and against its reversed rotation (outer vs inner), an empty
    ring (Go: index out of range), a point inside / on the boundary of / outside a square, the last of two maximal
    counts, areas 8, 2, 0, 32 sorted descending, deletion by shifted index, both reversals *)
Example C06_source_tie_ring_helpers_example :
  let sq := [(0,0); (4,0); (4,4); (0,4)] in
  gen_ringsAreEqual sq [(4,4); (0,4); (0,0); (4,0)] true true = Ok true /\
  gen_ringsAreEqual sq [(4,4); (4,0); (0,0); (0,4)] true false = Ok true /\
  gen_ringsAreEqual sq [(4,4); (4,0); (0,0); (0,4)] true true = Ok false /\
  gen_ringsAreEqual [] [] true false = Err IndexOutOfRange /\
  gen_ringContains sq (2,1) = Ok (true, false) /\ gen_ringContains sq (4,2) = Ok (true, true) /\
  gen_ringContains sq (5,5) = Ok (false, false) /\ gen_ringContains [] (0,0) = Err IndexOutOfRange /\
  gen_FindLastKeyWithMaxValue [(3,1); (0,2); (5,2); (1,1)] = Ok (5, 2, 2) /\
  gen_LastMatch [4; 2; 7; 9] [7; 4] = Ok 7 /\ gen_LastMatch [4; 2] [9] = Ok 0 /\
  gen_DeleteFromSliceByIndex [[(1,1)]; [(2,2)]; [(3,3)]] [4; 0] 3 = Ok [[(1,1)]; [(3,3)]] /\
  gen_sortPolyIdxsByOuterAreaDesc [[[(0,0); (2,0); (2,2); (0,2)]]; [[(0,0); (1,0); (1,1); (0,1)]]; []; [sq]] = Ok [3; 0; 1; 2] /\
  gen_outersToPolygons [sq; [(1,1)]] = Ok [[sq]; [[(1,1)]]] /\
  gen_reverseWindingOrderIfConfigured [[sq; [(1,1); (2,2)]]; [[(7,7); (8,8); (9,9)]]] (mkConfig false false true)
    = Ok [[[(0,4); (4,4); (4,0); (0,0)]; [(2,2); (1,1)]]; [[(9,9); (8,8); (7,7)]]] /\
  gen_OrderedMapKeys [(3,1); (0,2); (5,2)] = Ok [3; 0; 5] /\
  gen_CountVals [(0, true); (1, false); (2, true)] true = Ok 2 /\
  gen_LastElement sq = Ok (Some (0,4)) /\ gen_LastElement [] = Ok None /\
  gen_ReverseClone sq = Ok [(0,4); (4,4); (4,0); (0,0)].
Proof. vm_compute. repeat split; reflexivity. Qed.

From Texel Require Import Prelude.GoMap Snap.ProofsGenDedupe.
From Texel.Gen Require Import DedupeGen.

(** ** tie G2 (loops): dedupeInnersOuters (snap.go) together with mapslicehelp.CountVals and
    mapslicehelp.DeleteFromSliceByIndex, REGENERATED from source on this run (gen/DedupeGen.v), is the model's
    [dedupeInnersOuters] ([dedupeStep] / [filter_idx], Snap/Model.v): equal results for every two lists of rings, [Err]
    outcomes included (an empty ring makes ringsAreEqual panic).  Regenerated: both nested 3-clause [for] loops with
    their [continue]s (Fixpoints on fuel [S lenAll], shown never to run out), the choice of ringI / ringJ, the counts,
    [difference], [numOutersToDelete] / [numInnersToDelete], the marking loop, the early [return outers, inners] when
    nothing is deleted, the two filtered results; CountVals at K = int, V = bool and DeleteFromSliceByIndex at
    V = [][2]float64, X = bool, statement by statement.
    Stays MODELLED (checked on the AST for the exact call shape, Prelude/GoMap.v): the builtin [map[int]IsOuter] used as
    a set ([make], [m[k] = v], [_, ok := m[k]], [len(m)] = [[]] / [imap_set] / [imap_has] / [imap_len]); go-ordered-map
    ([New] + [WithInitialData], [Set], [Len], iteration [Oldest()] .. [Next()] = [omap_set] / [omap_len] / the entries
    in insertion order); [int(math.Abs(float64(a) - float64(b)))] = [Z.abs (a - b)]; [ringsAreEqual] = the model's
    function (tied separately); [int] = Z, [[2]float64] = [pt]. *)
Theorem C06_source_tie_dedupe_inners_outers :
  (forall outs ins, gen_dedupeInnersOuters outs ins = dedupeInnersOuters outs ins) /\
  (forall (m : omap) v, gen_CountVals m v = Ok (zlen (filter (fun e => Bool.eqb (snd e) v) m))) /\
  (forall (s : list ring) (gd : imap) (md : list Z) off, (forall k, imap_has gd k = mem_Z k md) ->
     gen_DeleteFromSliceByIndex s gd off = Ok (filter_idx s off md)).
Proof.
  split; [exact gen_dedupeInnersOuters_spec |].
  split; [exact gen_CountVals_spec | exact gen_DeleteFromSliceByIndex_spec].
Qed.
Print Assumptions C06_source_tie_dedupe_inners_outers.

(** the regenerated code runs.  Three equal outers (one rotated) and one equal inner (reversed): 3 and 1 differ, so
    min(3, 1) = 1 of each is deleted, the first outer and the inner; the square and its reversal as inner are 1 and 1:
    all but one of each = nothing is deleted.  Two equal outers and two equal inners: one of each goes.  Two equal
    outers without an inner: min(2, 0) = 0 are deleted (the early return of the inputs).  An empty ring next to an
    empty ring is the Go panic of ringsAreEqual. *)
Example C06_source_tie_dedupe_inners_outers_example :
  let a : ring := [(0,0); (4,0); (4,4)] in
  let a' : ring := [(4,0); (4,4); (0,0)] in
  let ar : ring := [(4,4); (4,0); (0,0)] in
  let b : ring := [(9,9); (12,9); (12,12); (9,12)] in
  gen_dedupeInnersOuters [a; b; a'; a] [ar; rev b] = Ok ([b; a'; a], [rev b]) /\
  gen_dedupeInnersOuters [a; a'; b] [ar; rev a'; b] = Ok ([a'; b], [rev a'; b]) /\
  gen_dedupeInnersOuters [a; a'] [b] = Ok ([a; a'], [b]) /\
  gen_dedupeInnersOuters [[]; a] [[]] = Err IndexOutOfRange /\
  gen_CountVals [(0, true); (2, true); (3, true); (4, false)] true = Ok 3 /\
  gen_DeleteFromSliceByIndex [a; b; a'] [(3, true); (1, false)] 1 = Ok [b].
Proof. vm_compute. repeat split; reflexivity. Qed.

From Texel Require Import Snap.ProofsGenSplitWalk.
From Texel.Gen Require Import SplitWalkGen.

(** ** tie G2 for the WHOLE of splitRing (completes C06_source_tie_split_ring_partial above): the function REGENERATED
    from snap.go on this run — its first part, the walk over the ring (gen/SplitWalkGen.v, translator/splitwalk.go),
    followed by the regenerated last part gen_splitRing_tail (gen/SplitTailGen.v) — is the model's [splitRing], for
    EVERY ring, [isOuter], predicate [isMulti] and every outcome (value, Err IndexOutOfRange for an empty ring,
    Err PartialRingsOnStack).
    REGENERATED from the AST: every statement and all control flow of the walk (the range loop over checkRing with its
    index and [continue]; which key of the stack is set / deleted and which key of completeRings is assigned, when and
    with what; [checkRing := append(ring, ring[0])]; the closing tests [tempRing[0] == tempRing[len(tempRing)-1]] and
    the slices [tempRing[:len(tempRing)-1]], [tempRing[1:]] as [idx] / [slice] = Go's run-time panics; the inner loop
    [for r := stack.Newest().Prev(); r != nil; r = r.Prev()] with both [break]s; the nested range loop deleting the
    prepended partial rings; [partialRingIdx++]; the final [stack.Len() > 0] test), each range-loop body being a
    definition gen_splitRing_range<N>.
    STAYS MODELLED (trusted micro-models, used only after the translator has checked the AST for the exact call shape;
    listed at the top of gen/SplitWalkGen.v and Snap/ProofsGenSplitWalk.v):
    - the ordered map (github.com/wk8/go-ordered-map/v2): [orderedmap.New[int, [][2]float64]()] = the empty [stack];
      [Set] / [Delete] / [Value] / [Len] / [Get] = [st_set] / [st_del] / [st_value] / [zlen] / [st_get]; the
      [Newest().Prev()] iteration = the entries older than the newest one, newer first (a nil [Newest()] is written
      Err IndexOutOfRange; the theorem shows it does not arise), the body changing the map only right before [break];
    - the Go map completeRings = its entries in increasing key order, [C[k] = v] = [insert_sorted k v C];
    - [verticesHitMultiple(hitMultiple, ringIdx)] + map lookup = the model's predicate parameter [isMulti];
    - [panicPartialRingsRemainingOnStack] = Err PartialRingsOnStack; [append] / [make(.., 0, n)] as values: that
      [append] writes into spare capacity shared between stack values (slice ALIASING) is outside the translation —
      the model is immutable; it is held by the run-time correspondence only;
    - in the last part: [windingOrderIsCorrect], [maps.Keys] + [sort.Ints], [slices.Reverse] (see the partial tie).
    The body of verticesHitMultiple itself is not tied (any set of vertices is covered: [isMulti] is universally
    quantified).  gen_cleanupNewRing (C06_source_tie_cleanup_new_ring) calls this gen_splitRing. *)
Theorem C06_source_tie_split_ring : forall r isOuter isMulti,
  gen_splitRing r isOuter isMulti = splitRing r isOuter isMulti.
Proof. exact gen_splitRing_spec. Qed.
Print Assumptions C06_source_tie_split_ring.

(** the regenerated code runs: a figure of eight through the doubly hit vertex (2,2) is split into its two loops (in
    the order of their keys); walked from another start the loop that closes first gets the smaller key; a ring with a
    spike to a doubly hit vertex gives a line; an empty ring is the index panic *)
Example C06_source_tie_split_ring_example :
  let multi (l : list pt) (p : pt) := mem_pt p l in
  gen_splitRing [(0,0); (2,0); (2,2); (4,2); (4,4); (2,4); (2,2); (0,2)] true (multi [(2,2)])
    = Ok (mkSets [[(0,0); (2,0); (2,2); (0,2)]; [(2,2); (4,2); (4,4); (2,4)]] [] []) /\
  gen_splitRing [(4,2); (4,4); (2,4); (2,2); (0,2); (0,0); (2,0); (2,2)] false (multi [(2,2)])
    = Ok (mkSets [] [[(2,2); (2,4); (4,4); (4,2)]; [(2,0); (0,0); (0,2); (2,2)]] []) /\
  gen_splitRing [(0,0); (4,0); (4,4); (6,6); (4,4); (0,4)] true (multi [(4,4)])
    = Ok (mkSets [[(0,0); (4,0); (4,4); (0,4)]] [] [[(4,4); (6,6)]]) /\
  gen_splitRing [] true (multi []) = Err IndexOutOfRange.
Proof. vm_compute. repeat split; reflexivity. Qed.
