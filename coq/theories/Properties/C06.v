(** placeholder until the C06 theorems are in place *)
From Texel Require Import Prelude.Base.
