(** * C02 — each edge is routed through exactly the hot pixels it meets, in order of travel.

    Vocabulary (Index/ProofsLine.v, Index/ProofsOrder.v, Index/ProofsRouting.v); coordinates are the
    tool's integers (units of 1e-10), segment parameters are rationals:
    - [co from to t]      = from + t (to - from), one coordinate of the point with parameter t;
    - [PIn a b t e]       : the point a + t (b - a) lies in the half-open box
                            [eminx e, emaxx e) x [eminy e, emaxy e)  (left/bottom sides owned, right/top not);
    - [OnSeg a b t e]     = 0 <= t /\ t <= 1 /\ PIn a b t e;
    - [Meets a b e]       = exists t, OnSeg a b t e       (the closed segment meets the half-open box);
    - [Before a b e1 e2]  = forall t1 t2, OnSeg a b t1 e1 -> OnSeg a b t2 e2 -> t1 < t2   (order of travel);
    - [DisjointE e1 e2]   : the two half-open boxes are separated on one axis;
    - [route g hs a b L]  = the addresses (x, y) of the quads [snapClosestQuads] returns for level L;
    - [ExactRoot g]       : the stored root extent equals the computed one, max = min + 2^deepest * res;
    - [RootCovers g]      : the stored root extent contains the computed one (true of FromTileMatrixSet,
                            whose res is XSpan / 2^deepest rounded down);
    - [pixelOf g L v]     = address of the level-L pixel of the point v. *)
From Coq Require Import ZArith QArith List Bool Sorted.
From Texel Require Import Prelude.Base Index.Model Index.ProofsInsert Index.ProofsLine Index.ProofsOrder
  Index.ProofsGrid Index.ProofsFind Index.ProofsDescent Index.ProofsRouting Index.ProofsRound.
Import ListNotations.
Open Scope Z_scope.

(** ** the pixel test is exact, every tie included; no hypothesis on the extent (an empty extent is never met) *)
Theorem C02_pixel_test : forall (a b : pt) (e : extent),
  lineIntersects a b e = true <->
  exists t : Q, (0 <= t /\ t <= 1 /\
    (inject_Z (eminx e) <= co (fst a) (fst b) t /\ co (fst a) (fst b) t < inject_Z (emaxx e)) /\
    (inject_Z (eminy e) <= co (snd a) (snd b) t /\ co (snd a) (snd b) t < inject_Z (emaxy e)))%Q.
Proof. exact lineIntersects_spec. Qed.
Print Assumptions C02_pixel_test.

(** ** order of travel: a strict total order on any family of pairwise disjoint boxes met by the segment *)
Theorem C02_before_strict_total_order : forall (a b : pt) (F : extent -> Prop),
  (forall e, F e -> Meets a b e) ->
  (forall e1 e2, F e1 -> F e2 -> e1 <> e2 -> DisjointE e1 e2) ->
  (forall e, F e -> ~ Before a b e e) /\
  (forall e1 e2 e3, F e1 -> F e2 -> F e3 -> Before a b e1 e2 -> Before a b e2 e3 -> Before a b e1 e3) /\
  (forall e1 e2, F e1 -> F e2 -> Before a b e1 e2 -> ~ Before a b e2 e1) /\
  (forall e1 e2, F e1 -> F e2 -> e1 <> e2 -> Before a b e1 e2 \/ Before a b e2 e1).
Proof. exact before_strict_total_order. Qed.
Print Assumptions C02_before_strict_total_order.

(** the pixels of one level are such a family *)
Theorem C02_pixels_disjoint : forall g l x y x' y', 0 < gres g -> (x, y) <> (x', y') ->
  DisjointE (quadExtent g l x y) (quadExtent g l x' y').
Proof. exact pixels_disjoint. Qed.
Print Assumptions C02_pixels_disjoint.

(** ** one step of the descent: findIntersectingQuadrants returns exactly the occupied children met by the
    segment, without duplicates (strongly sorted by a relation that is irreflexive on met boxes), in order
    of travel.  [P] is the box the children partition at the parent's centroid: the parent's stored extent,
    except for the root (see below).  No hypothesis "the segment meets the parent" is needed. *)
Theorem C02_find_spec : forall (a b : pt) (has : nat -> option quad) (p : quad) (P : extent),
  (eminx P < fst (qcen p) < emaxx P /\ eminy P < snd (qcen p) < emaxy P) ->
  (containsPoint a (qext p) = true -> containsPoint a P = true) ->
  (containsPoint b (qext p) = true -> containsPoint b P = true) ->
  (forall i cq, has i = Some cq -> qext cq = childExt P (qcen p) i) ->
  (forall cq, In cq (findIntersectingQuadrants a b has p) <->
              exists i, (i < 4)%nat /\ has i = Some cq /\ Meets a b (qext cq)) /\
  StronglySorted (fun u v => Before a b (qext u) (qext v)) (findIntersectingQuadrants a b has p).
Proof. exact findIntersectingQuadrants_spec. Qed.
Print Assumptions C02_find_spec.

Theorem C02_find_NoDup : forall (a b : pt) (has : nat -> option quad) (p : quad) (P : extent),
  (eminx P < fst (qcen p) < emaxx P /\ eminy P < snd (qcen p) < emaxy P) ->
  (containsPoint a (qext p) = true -> containsPoint a P = true) ->
  (containsPoint b (qext p) = true -> containsPoint b P = true) ->
  (forall i cq, has i = Some cq -> qext cq = childExt P (qcen p) i) ->
  NoDup (findIntersectingQuadrants a b has p).
Proof. exact findIntersectingQuadrants_NoDup. Qed.
Print Assumptions C02_find_NoDup.

(** the "mutex" shortcut of the source is justified, also for a segment through the centre point *)
Theorem C02_offdiagonal_mutex : forall (a b : pt) (P : extent) (c : pt),
  let r1 := (fst c <=? fst a) in let t1 := (snd c <=? snd a) in
  let r2 := (fst c <=? fst b) in let t2 := (snd c <=? snd b) in
  r1 <> r2 -> t1 <> t2 ->
  Meets a b (childExt P c (q2n r2 t1)) -> Meets a b (childExt P c (q2n r1 t2)) -> False.
Proof. exact offdiagonal_mutex. Qed.
Print Assumptions C02_offdiagonal_mutex.

(** ** C02_routing, any segment, grid whose stored root extent is the computed one.
    [hs <> []]: with an empty index level 0 still returns the root centre (C02_empty_index_level0). *)
Theorem C02_routing : forall g P hs a b L, 0 < gres g -> ExactRoot g ->
  insertPolygon g P = Ok hs -> hs <> [] -> (L <= gdeep g)%nat ->
  let qs := route g hs a b L in
  snapClosestPoints g (hotLevels g hs) a b L = map (fun q => quadCentroid g L (fst q) (snd q)) qs /\
  NoDup qs /\
  (forall q, In q qs <-> In q (hotAt g hs L) /\ Meets a b (quadExtent g L (fst q) (snd q))) /\
  StronglySorted (fun q q' => Before a b (quadExtent g L (fst q) (snd q)) (quadExtent g L (fst q') (snd q'))) qs.
Proof. exact C02_routing_exact. Qed.
Print Assumptions C02_routing.

(** ** C02_routing for the edges of the indexed polygon, on ANY grid whose stored extent covers the computed
    pixels (round or not): the same statement, plus
    - routing_nonempty (needed by C06): the route starts with the pixel of a and ends with the pixel of b;
    - routing_reverse: the route of (b, a) is the reverse of the route of (a, b). *)
Theorem C02_routing_edges : forall g P hs a b L, 0 < gres g -> RootCovers g ->
  insertPolygon g P = Ok hs -> In a (concat P) -> In b (concat P) -> (L <= gdeep g)%nat ->
  let qs := route g hs a b L in
  (snapClosestPoints g (hotLevels g hs) a b L = map (fun q => quadCentroid g L (fst q) (snd q)) qs /\
   NoDup qs /\
   (forall q, In q qs <-> In q (hotAt g hs L) /\ Meets a b (quadExtent g L (fst q) (snd q))) /\
   StronglySorted (fun q q' => Before a b (quadExtent g L (fst q) (snd q)) (quadExtent g L (fst q') (snd q'))) qs) /\
  (exists r, qs = pixelOf g L a :: r) /\
  (exists r, qs = r ++ [pixelOf g L b]) /\
  route g hs b a L = rev qs /\
  snapClosestPoints g (hotLevels g hs) b a L = rev (snapClosestPoints g (hotLevels g hs) a b L).
Proof. exact C02_routing_vertices. Qed.
Print Assumptions C02_routing_edges.

(** [RootCovers] holds for every grid built like FromTileMatrixSet does (res = XSpan / 2^deepest rounded down,
    [tmsGrid]) from an extent at least as high as wide (IsQuadTree demands square matrices) *)
Theorem C02_tms_grid_covers : forall e d, emaxx e - eminx e <= emaxy e - eminy e -> RootCovers (tmsGrid e d).
Proof. exact tmsGrid_rootCovers. Qed.
Print Assumptions C02_tms_grid_covers.

(** the general form behind both: what is needed of the stored root extent is that it treats the two end
    points like the computed one *)
Theorem C02_routing_general : forall g hs, 0 < gres g ->
  Forall (fun c => inGridCoord g c = true) hs -> hs <> [] ->
  forall a b L,
  (containsPoint a (gext g) = containsPoint a (rootBox g) /\
   containsPoint b (gext g) = containsPoint b (rootBox g) /\
   lineIntersects a b (gext g) = lineIntersects a b (rootBox g)) ->
  (L <= gdeep g)%nat ->
  let qs := route g hs a b L in
  snapClosestPoints g (hotLevels g hs) a b L = map (fun q => quadCentroid g L (fst q) (snd q)) qs /\
  NoDup qs /\
  (forall q, In q qs <-> In q (hotAt g hs L) /\ Meets a b (quadExtent g L (fst q) (snd q))) /\
  StronglySorted (fun q q' => Before a b (quadExtent g L (fst q) (snd q)) (quadExtent g L (fst q') (snd q'))) qs.
Proof. exact routing. Qed.
Print Assumptions C02_routing_general.

Theorem C02_routing_reverse : forall g hs, 0 < gres g ->
  Forall (fun c => inGridCoord g c = true) hs -> hs <> [] ->
  forall a b L, RootAgrees g a b -> (L <= gdeep g)%nat ->
  route g hs b a L = rev (route g hs a b L) /\
  snapClosestPoints g (hotLevels g hs) b a L = rev (snapClosestPoints g (hotLevels g hs) a b L).
Proof. exact routing_reverse. Qed.
Print Assumptions C02_routing_reverse.

(** ** non-vacuity and regressions.  Grid 16x16 px of 1.0 (1e10 units) at the origin. *)
Definition g16 : grid := mkGrid (mkExtent 0 0 160000000000 160000000000) 10000000000 4.
Definition P16 : list ring :=
  [[(70000000000, 55000000000); (50000000000, 65000000000); (65000000000, 65000000000); (55000000000, 55000000000)]].

(** the hypotheses of C02_routing / C02_routing_edges hold and the route is non-trivial: the edge
    (7, 5.5) -> (5, 6.5) goes through pixel (7,5), touches pixel (6,6) in its owned corner (6,6) only, ends in
    (5,6); pixel (5,5) is hot but not met.  Levels 4 and 3. *)
Example C02_routing_example :
  0 < gres g16 /\ ExactRoot g16 /\ RootCovers g16 /\
  insertPolygon g16 P16 = Ok [(7, 5); (5, 6); (6, 6); (5, 5)] /\
  route g16 [(7, 5); (5, 6); (6, 6); (5, 5)] (70000000000, 55000000000) (50000000000, 65000000000) 4
    = [(7, 5); (6, 6); (5, 6)] /\
  snapClosestPoints g16 (hotLevels g16 [(7, 5); (5, 6); (6, 6); (5, 5)]) (70000000000, 55000000000) (50000000000, 65000000000) 4
    = [(75000000000, 55000000000); (65000000000, 65000000000); (55000000000, 65000000000)] /\
  route g16 [(7, 5); (5, 6); (6, 6); (5, 5)] (70000000000, 55000000000) (50000000000, 65000000000) 3
    = [(3, 2); (3, 3); (2, 3)] /\
  route g16 [(7, 5); (5, 6); (6, 6); (5, 5)] (50000000000, 65000000000) (70000000000, 55000000000) 4
    = [(5, 6); (6, 6); (7, 5)].
Proof. vm_compute. repeat split; try reflexivity; discriminate. Qed.

(** F1, first witness: hot pixel (12,6), segment (9.25,5) -> (13,6) only touches its excluded corner (13,6):
    not routed through it (the pre-repair code returned its centre); one unit further it is. *)
Example C02_regression_F1_corner :
  snapClosestPoints g16 (hotLevels g16 [(12, 6)]) (92500000000, 50000000000) (130000000000, 60000000000) 4 = [] /\
  lineIntersects (92500000000, 50000000000) (130000000000, 60000000000) (quadExtent g16 4 12 6) = false /\
  lineIntersects (92500000000, 50000000000) (130000000000, 60000000001) (quadExtent g16 4 12 6) = true.
Proof. vm_compute. repeat split; reflexivity. Qed.

(** F1, second witness: hot (6,6) and (5,5), segment (7,5.5) -> (5,6.5): routed through (6.5,6.5) only
    (the pre-repair code returned (5.5,5.5) and missed (6.5,6.5)). *)
Example C02_regression_F1_mutex :
  snapClosestPoints g16 (hotLevels g16 [(6, 6); (5, 5)]) (70000000000, 55000000000) (50000000000, 65000000000) 4
    = [(65000000000, 65000000000)].
Proof. vm_compute. reflexivity. Qed.

(** a segment exactly through the centre point of a parent: the centre belongs to the top right child only;
    with all four children hot three are met, in order of travel, in both directions *)
Example C02_through_centre :
  route g16 [(8, 8); (7, 7); (8, 7); (7, 8)] (70000000000, 90000000000) (90000000000, 70000000000) 4
    = [(7, 8); (8, 8); (8, 7)] /\
  route g16 [(8, 8); (7, 7); (8, 7); (7, 8)] (90000000000, 70000000000) (70000000000, 90000000000) 4
    = [(8, 7); (8, 8); (7, 8)] /\
  route g16 [(8, 8); (7, 7); (8, 7); (7, 8)] (70000000000, 70000000000) (90000000000, 90000000000) 4
    = [(7, 7); (8, 8)].
Proof. vm_compute. repeat split; reflexivity. Qed.

(** [hs <> []] is needed: the root is returned for level 0 although nothing is indexed *)
Example C02_empty_index_level0 :
  snapClosestPoints g16 (hotLevels g16 []) (0, 0) (10000000000, 10000000000) 0 = [(80000000000, 80000000000)] /\
  hotAt g16 [] 0 = [].
Proof. vm_compute. split; reflexivity. Qed.

(** the hypothesis on the root extent is needed: on a non-round grid (span 11, 2 pixels of 5) an end point in
    the strip [10, 11) that no pixel covers makes the "certain" shortcut of the root return a pixel the segment
    does not meet.  Polygon vertices cannot be there (C09: InsertPoint rejects them). *)
Definition gslack : grid := mkGrid (mkExtent 0 0 11 11) 5 1.
Example C02_slack_strip_example :
  0 < gres gslack /\ RootCovers gslack /\ ~ ExactRoot gslack /\
  snapClosestPoints gslack (hotLevels gslack [(1, 1)]) (10, 10) (10, 9) 1 = [(7, 7)] /\
  lineIntersects (10, 10) (10, 9) (quadExtent gslack 1 1 1) = false /\
  insertPoint gslack [] (10, 10) = Err OutsideGrid.
Proof.
  split; [reflexivity |]. split; [vm_compute; repeat split; discriminate |].
  split; [intros [E _]; vm_compute in E; discriminate |]. vm_compute. repeat split; reflexivity.
Qed.

From Texel Require Import Index.ProofsGen.
From Texel.Gen Require Import PointIndexGen.

(** ** tie G2: the leaf functions of pointindex.go REGENERATED from source on this run are the model's *)
Theorem C02_source_tie :
  (forall p e, gen_containsPoint p (ext_tuple e) = containsPoint p e) /\
  (forall p c, gen_getInfiniteQuadrant p c = Z.of_nat (getInfiniteQuadrant p c)) /\
  (forall a b parent, gen_findIntersectingQuadrants (a, b) (quad_of parent)
      = map qtc_triple (quadrantsToCheck (getInfiniteQuadrant a (qcen parent)) (getInfiniteQuadrant b (qcen parent))
                                         (containsPoint a (qext parent)) (containsPoint b (qext parent)))) /\
  (forall i, lt4 i -> gen_oneIfRight (Z.of_nat i) = oneIfRight i /\ gen_oneIfTop (Z.of_nat i) = oneIfTop i).
Proof.
  split; [exact gen_containsPoint_spec |]. split; [exact gen_getInfiniteQuadrant_spec |].
  split; [exact gen_findIntersectingQuadrants_spec |].
  intros i Hi; split; [apply gen_oneIfRight_spec | apply gen_oneIfTop_spec]; exact Hi.
Qed.
Print Assumptions C02_source_tie.

From Texel Require Import Index.MachineInt Index.ProofsGenLine.
From Texel.Gen Require Import LineGen.

(** ** tie G2 with machine integers: cmpProducts, paramBound.leavesRoomBelow and lineIntersects REGENERATED from
    source on this run, with Go's int64 / uint64 semantics (wrap-around [-x] and [x - y], [uint64(x)] = x mod 2^64,
    [bits.Mul64] = high and low word of the full product; Index/MachineInt.v), are the model's exact-Z definitions.
    - cmpProducts: EVERY int64 a, c (also -2^63, whose negation wraps) and every positive int64 b, d;
    - leavesRoomBelow: int64 numerators, positive int64 denominators ([pb_ok]);
    - lineIntersects: all eight ordinates in [-2^62, 2^62), so that no subtraction of the source wraps
      (C02_source_tie_lineIntersects_diff: it is enough that per axis to - from, min - from, max - from lie
      strictly between -2^63 and 2^63). *)
Theorem C02_source_tie_lineIntersects :
  (forall a b c d, - 2^63 <= a < 2^63 -> 0 < b < 2^63 -> - 2^63 <= c < 2^63 -> 0 < d < 2^63 ->
     gen_cmpProducts a b c d = match a * b ?= c * d with Lt => -1 | Eq => 0 | Gt => 1 end) /\
  (forall lo up : pbound,
     (- 2^63 <= bnum lo < 2^63 /\ 0 < bden lo < 2^63) -> (- 2^63 <= bnum up < 2^63 /\ 0 < bden up < 2^63) ->
     gen_leavesRoomBelow (mk_gen_paramBound (bnum lo) (bden lo) (bstrict lo))
                         (mk_gen_paramBound (bnum up) (bden up) (bstrict up)) = leavesRoomBelow lo up) /\
  (forall (a b : pt) (e : extent),
     - 2^62 <= fst a < 2^62 -> - 2^62 <= snd a < 2^62 -> - 2^62 <= fst b < 2^62 -> - 2^62 <= snd b < 2^62 ->
     - 2^62 <= eminx e < 2^62 -> - 2^62 <= eminy e < 2^62 -> - 2^62 <= emaxx e < 2^62 -> - 2^62 <= emaxy e < 2^62 ->
     gen_lineIntersects (a, b) (eminx e, eminy e, emaxx e, emaxy e) = lineIntersects a b e).
Proof.
  split; [exact gen_cmpProducts_spec |]. split; [exact gen_leavesRoomBelow_spec | exact gen_lineIntersects_spec].
Qed.
Print Assumptions C02_source_tie_lineIntersects.

Theorem C02_source_tie_lineIntersects_diff : forall (a b : pt) (e : extent),
  - 2^63 < fst b - fst a < 2^63 -> - 2^63 < eminx e - fst a < 2^63 -> - 2^63 < emaxx e - fst a < 2^63 ->
  - 2^63 < snd b - snd a < 2^63 -> - 2^63 < eminy e - snd a < 2^63 -> - 2^63 < emaxy e - snd a < 2^63 ->
  gen_lineIntersects (a, b) (eminx e, eminy e, emaxx e, emaxy e) = lineIntersects a b e.
Proof. exact gen_lineIntersects_spec_diff. Qed.
Print Assumptions C02_source_tie_lineIntersects_diff.

(** the hypotheses are satisfiable at the int64 corner: a = c = -2^63 (both negations wrap), and the regenerated
    code runs: (-2^63) * 3 < (-2^63) * 2; a segment through RD-sized coordinates *)
Example C02_source_tie_lineIntersects_example :
  gen_cmpProducts (- 2^63) 3 (- 2^63) 2 = -1 /\ gen_cmpProducts (- 2^63) (2^63 - 1) (- 2^63) (2^63 - 1) = 0 /\
  gen_cmpProducts (2^63 - 1) (2^63 - 1) (2^63 - 1) (2^63 - 2) = 1 /\
  gen_lineIntersects ((92500000000, 50000000000), (130000000000, 60000000001))
                     (120000000000, 60000000000, 130000000000, 70000000000) = true /\
  gen_lineIntersects ((92500000000, 50000000000), (130000000000, 60000000000))
                     (120000000000, 60000000000, 130000000000, 70000000000) = false.
Proof. vm_compute. repeat split; reflexivity. Qed.

From Coq Require Import Permutation.
From Texel Require Import Snap.Model Snap.ProofsBasics Snap.ProofsLevelThms Snap.ProofsNoCollapse.

(** ** the polygon clause: when no two parts of the polygon collapse onto a common pixel, the returned polygon is
    the ring-by-ring concatenation of the routed edges.

    [chains g hots L P]: for every ring of P (normalised by ensureCorrectWindingOrder) the ring produced by
    routeRing over its edges followed by the closing-vertex removal of cleanupNewRing ([chainOf], made of the
    model's own functions).  Hypotheses: every chain has at least three vertices and no pixel centre is visited
    twice by the polygon as a whole.  Then kmpDeduplicate is the identity on every chain, splitRing returns the
    chain itself whatever the hit flags, no shell/hole pair is cancelled, and matching only attaches holes to the
    shell or turns them into shells: snapLevel returns polygons whose rings are exactly the chains, each possibly
    reversed ([ring_like]); first rings counter-clockwise or zero area, later rings clockwise (opposite with the
    reverse flag, [poly_ok]); no points-and-lines polygons.  No premise about routing or kmp is left. *)
Theorem C02_polygon_no_collapse : forall g hots P cfg L c0 cr,
  chains g hots L P = Ok (c0 :: cr) -> Forall (fun c : ring => (3 <= length c)%nat) (c0 :: cr) ->
  NoDup (concat (c0 :: cr)) ->
  exists ps rs, snapLevel g hots P cfg L = Ok (Some ps) /\
    Forall2 ring_like (c0 :: cr) rs /\ Permutation (concat ps) rs /\
    Forall (poly_ok (if reverseWindingOrder cfg then -1 else 1)) ps.
Proof. exact no_collapse_rings. Qed.
Print Assumptions C02_polygon_no_collapse.

(** exactly which polygons: the shell [x0] (the first chain, reversed only if it is clockwise), the holes [xs] (the other
    chains, each reversed only if it is counter-clockwise); a hole is attached to the shell iff one of its vertices
    is in or on the shell (ringContains), in order; the others become shells of their own, reversed *)
Theorem C02_polygon_no_collapse_precise : forall g hots P cfg L c0 cr,
  chains g hots L P = Ok (c0 :: cr) -> Forall (fun c : ring => (3 <= length c)%nat) (c0 :: cr) ->
  NoDup (concat (c0 :: cr)) ->
  exists x0 xs, ring_like c0 x0 /\ 0 <= xprod x0 /\ (0 < xprod c0 -> x0 = c0) /\ Forall2 inner_of cr xs /\
    snapLevel g hots P cfg L = Ok (Some (flipb (reverseWindingOrder cfg) (polysOf x0 xs))).
Proof. exact no_collapse. Qed.
Print Assumptions C02_polygon_no_collapse_precise.

(** exactly the concatenation: the routed shell is counter-clockwise, the routed holes are clockwise and each has a
    vertex in or on the shell: ONE polygon, the shell chain first, the hole chains in order, nothing reversed *)
Theorem C02_polygon_no_collapse_exact : forall g hots P cfg L c0 cr,
  chains g hots L P = Ok (c0 :: cr) -> Forall (fun c : ring => (3 <= length c)%nat) (c0 :: cr) ->
  NoDup (concat (c0 :: cr)) -> reverseWindingOrder cfg = false ->
  0 < xprod c0 -> Forall (fun c => xprod c < 0) cr -> Forall (fun h => attached c0 h = true) cr ->
  snapLevel g hots P cfg L = Ok (Some [c0 :: cr]).
Proof. exact no_collapse_exact. Qed.
Print Assumptions C02_polygon_no_collapse_exact.

(** non-vacuity: a square with a square hole on the 32 x 32 pixel grid of pixel size 2, at level 3 (pixel 8): all
    hypotheses hold and the result is the two chains, shell first.  The shell may be written clockwise. *)
Example C02_polygon_no_collapse_example :
  let g := mkGrid (mkExtent 0 0 64 64) 2 5 in
  let P := [[(2,2);(40,2);(40,40);(2,40)]; [(10,10);(10,20);(20,20);(20,10)]] in
  let hots := hotLevels g [(1,1);(20,1);(20,20);(1,20);(5,5);(5,10);(10,10);(10,5)] in
  let c0 := [(4,4);(44,4);(44,44);(4,44)] in
  let c1 := [(12,12);(12,20);(20,20);(20,12)] in
  insertPolygon g P = Ok [(1,1);(20,1);(20,20);(1,20);(5,5);(5,10);(10,10);(10,5)] /\
  chains g hots 3 P = Ok [c0; c1] /\
  chains g hots 3 [rev [(2,2);(40,2);(40,40);(2,40)]; [(10,10);(10,20);(20,20);(20,10)]] = Ok [c0; c1] /\
  Forall (fun c : ring => (3 <= length c)%nat) [c0; c1] /\ NoDup (concat [c0; c1]) /\
  0 < xprod c0 /\ Forall (fun c => xprod c < 0) [c1] /\ Forall (fun h => attached c0 h = true) [c1] /\
  snapLevel g hots P (mkConfig false false false) 3 = Ok (Some [[c0; c1]]).
Proof.
  cbn zeta. split; [vm_compute; reflexivity |]. split; [vm_compute; reflexivity |]. split; [vm_compute; reflexivity |].
  split; [repeat constructor; cbn; auto with zarith |]. split; [apply nodupb_sound; vm_compute; reflexivity |].
  split; [vm_compute; reflexivity |]. split; [repeat constructor |]. split; [repeat constructor |].
  vm_compute. reflexivity.
Qed.

(** ** the polygon clause joined with the rest (Snap/ProofsJoinC02.v).

    [routedClean g hots L idx r] (Properties/C18.v) is the [chainOf] above, [routedRings] is [chains].  Three additions:
    the chain IS the concatenation of the routed edges; the result is given by an explicit formula when no chain has
    area zero; the same for snapPolygon at every requested level. *)
From Coq Require Import Lia.
From Texel Require Import Index.ProofsRouting Snap.ProofsLevel Snap.ProofsJoinC18 Snap.ProofsJoinC02.

Theorem C02_chains_are_routed_rings : forall g hots L P, chains g hots L P = routedRings g hots L P.
Proof. exact chains_routedRings. Qed.
Print Assumptions C02_chains_are_routed_rings.

(** "the ring-by-ring concatenation of these routed edges": for a ring of the indexed polygon (grid whose stored extent
    covers its pixels, level within the index) the chain, closed by its first centre, is the first centre followed
    by the tails of the centre lists of the ring's edges in order — consecutive lists share their joint, which is
    written once.  (Chains of fewer than two centres are a single pixel.) *)
Theorem C02_chain_is_concatenation_of_routed_edges : forall g P hs L idx r c, 0 < gres g -> RootCovers g ->
  insertPolygon g P = Ok hs -> (L <= gdeep g)%nat -> nth_error P idx = Some r ->
  routedClean g (hotLevels g hs) L idx r = Ok c -> (2 <= length c)%nat ->
  c ++ [hd (0, 0) c] =
    hd (0, 0) c :: concat (map (@tl pt) (map (fun e => snapClosestPoints g (hotLevels g hs) (fst e) (snd e) L)
                                             (dedges (ensureCorrectWindingOrder r (negb (Nat.eqb idx 0)))))).
Proof. exact chain_is_concatenation_closed. Qed.
Print Assumptions C02_chain_is_concatenation_of_routed_edges.

(** THE POLYGON CLAUSE.  No two parts of the polygon collapse onto a common pixel: every chain has at least three
    centres and a non-zero area, and no centre occurs twice in all chains together ([NoDup (concat ..)]; repeat-freeness
    of each chain alone is what spike removal and splitting need — the hit flags are kept per ring and do not matter,
    [split_nodup_ring] — the disjointness of different chains is what keeps dedupeInnersOuters from cancelling a
    shell/hole pair).  Then, for every configuration, the level returns exactly: the first chain written
    counter-clockwise ([ccw]) as shell, the other chains written clockwise ([cw]) as holes; a hole is attached to the
    shell, in order, iff the model's ringContains finds one of its vertices in or on the shell ([attached]), the
    others follow as polygons of their own, reversed ([polysOf]); every ring reversed under reverse-winding-order.
    No points or lines.  Nothing is lost, added, split or merged: [C02_polygon_noncollapsing_rings]. *)
Theorem C02_polygon_noncollapsing : forall g hots P cfg L c0 cr,
  routedRings g hots L P = Ok (c0 :: cr) ->
  Forall (fun c : ring => (3 <= length c)%nat /\ xprod c <> 0) (c0 :: cr) ->
  NoDup (concat (c0 :: cr)) ->
  snapLevel g hots P cfg L = Ok (Some (flipb (reverseWindingOrder cfg) (polysOf (ccw c0) (map cw cr)))).
Proof. exact noncollapsing_level. Qed.
Print Assumptions C02_polygon_noncollapsing.

Theorem C02_polygon_noncollapsing_rings : forall (x0 : ring) (xs : list ring),
  Permutation (concat (polysOf x0 xs)) (x0 :: map (fun h => if attached x0 h then h else rev h) xs).
Proof. exact polysOf_rings. Qed.
Print Assumptions C02_polygon_noncollapsing_rings.

(** (i) a polygon without holes: exactly one polygon of exactly one ring, the chain written counter-clockwise
    (clockwise under the flag) *)
Theorem C02_polygon_noncollapsing_no_holes : forall g hots P cfg L c0,
  routedRings g hots L P = Ok [c0] -> NoDup c0 -> (3 <= length c0)%nat -> xprod c0 <> 0 ->
  snapLevel g hots P cfg L = Ok (Some [[if reverseWindingOrder cfg then rev (ccw c0) else ccw c0]]).
Proof. exact noncollapsing_level_single. Qed.
Print Assumptions C02_polygon_noncollapsing_no_holes.

(** snapPolygon: when the hypotheses hold at every requested level ([c0 L], [cr L] the chains of level L), the whole
    result is determined, level by level, in the order requested; no routing or kmp premise is left *)
Theorem C02_snapPolygon_noncollapsing : forall g P levels cfg hs (c0 : nat -> ring) (cr : nat -> list ring),
  insertPolygon g P = Ok hs ->
  (forall L, In L levels ->
     routedRings g (hotLevels g hs) L P = Ok (c0 L :: cr L) /\
     Forall (fun c : ring => (3 <= length c)%nat /\ xprod c <> 0) (c0 L :: cr L) /\
     NoDup (concat (c0 L :: cr L))) ->
  snapPolygon g P levels cfg =
    Ok (map (fun L => (L, flipb (reverseWindingOrder cfg) (polysOf (ccw (c0 L)) (map cw (cr L))))) levels).
Proof. exact noncollapsing_snapPolygon. Qed.
Print Assumptions C02_snapPolygon_noncollapsing.

(** non-vacuity: the square with a square hole (32 x 32 pixels of size 2), the shell WRITTEN CLOCKWISE, levels 5 and 3,
    reverse-winding-order on: all hypotheses hold; the formula gives one polygon per level, shell clockwise, hole
    counter-clockwise; and a triangle without hole at level 3 *)
Example C02_polygon_noncollapsing_example :
  let g := mkGrid (mkExtent 0 0 64 64) 2 5 in
  let P := [rev [(2,2);(40,2);(40,40);(2,40)]; [(10,10);(10,20);(20,20);(20,10)]] in
  let hs := [(1,20);(20,20);(20,1);(1,1);(5,5);(5,10);(10,10);(10,5)] in
  let c0 := fun L : nat => if Nat.eqb L 5 then [(3,3);(41,3);(41,41);(3,41)] else [(4,4);(44,4);(44,44);(4,44)] in
  let cr := fun L : nat => if Nat.eqb L 5 then [[(11,11);(11,21);(21,21);(21,11)]] else [[(12,12);(12,20);(20,20);(20,12)]] in
  insertPolygon g P = Ok hs /\
  (forall L, In L [5; 3]%nat ->
     routedRings g (hotLevels g hs) L P = Ok (c0 L :: cr L) /\
     Forall (fun c : ring => (3 <= length c)%nat /\ xprod c <> 0) (c0 L :: cr L) /\
     NoDup (concat (c0 L :: cr L))) /\
  map (fun L => (L, flipb true (polysOf (ccw (c0 L)) (map cw (cr L))))) [5; 3]%nat =
    [(5%nat, [[rev (c0 5%nat); [(21,11);(21,21);(11,21);(11,11)]]]); (3%nat, [[rev (c0 3%nat); [(20,12);(20,20);(12,20);(12,12)]]])] /\
  snapPolygon g P [5; 3]%nat (mkConfig false false true) =
    Ok [(5%nat, [[rev (c0 5%nat); [(21,11);(21,21);(11,21);(11,11)]]]); (3%nat, [[rev (c0 3%nat); [(20,12);(20,20);(12,20);(12,12)]]])] /\
  (let T := [[(3,3);(50,10);(20,45)]] in
   routedRings g (hotsOf g T) 3 T = Ok [[(4,4);(52,12);(20,44)]] /\
   snapLevel g (hotsOf g T) T (mkConfig false false false) 3 = Ok (Some [[[(4,4);(52,12);(20,44)]]])).
Proof.
  cbn zeta. split; [vm_compute; reflexivity |]. split.
  { intros L HL. cbn [In] in HL. destruct HL as [<- | [<- | []]]; cbn [Nat.eqb].
    - split; [vm_compute; reflexivity |]. split; [repeat constructor; cbn; try lia; vm_compute; discriminate |].
      apply nodupb_sound. vm_compute. reflexivity.
    - split; [vm_compute; reflexivity |]. split; [repeat constructor; cbn; try lia; vm_compute; discriminate |].
      apply nodupb_sound. vm_compute. reflexivity. }
  split; [vm_compute; reflexivity |]. split; [vm_compute; reflexivity |]. split; vm_compute; reflexivity.
Qed.

From Texel Require Import Prelude.GoLoop Prelude.GoAssoc Index.ProofsGenFind.
From Texel.Gen Require Import FindGen.

(** ** tie G2, whole body: [findIntersectingQuadrants] of pointindex.go REGENERATED from source on this run
    (gen/FindGen.v, translator/find.go) — the table of quadrants to check AND the loop over it (the [mutexed] flag,
    the two [continue]s, [certain || lineIntersects], [append]) — computes the model's function.

    REGENERATED: every statement of the function body; the structs [Quadrant] and [quadrantToCheck] (records generated
    from their declarations).  Called as regenerated elsewhere: getInfiniteQuadrant, containsPoint,
    quadrantsAreAdjacent, adjacentQuadrantX/Y (PointIndexGen.v, [C02_source_tie]) and lineIntersects with machine
    integers (LineGen.v, [C02_source_tie_lineIntersects_diff]).
    MODELLED (trusted mappings of the translator, made after checking the AST): [quadrants map[Q]Quadrant], only read by
    [quadrant, hasPoints := quadrants[i]], is an association list ([gomap], [gm_get_ok] of Prelude/GoAssoc.v; the theorem
    holds for EVERY such list [m]); [for _, x := range s] with [continue] is [range_loop] (Prelude/GoLoop.v);
    [int] quadrant numbers are exact [Z].
    Statement: [quad_rel q gq] — the struct [gq] has the extent and centroid of the model's quad [q] (its Morton key is
    not read); [has_rel has m] — for i = 0..3, [m] has an entry for i iff [has i] is [Some q], and they are related;
    [line_fits a b e] — no int64 subtraction of lineIntersects wraps (as in C02_source_tie_lineIntersects_diff).
    The Go function returns quadrant NUMBERS, which its caller looks up in the same map; the model returns the
    quadrants: the numbers [qs] returned select, in order, exactly the model's list. *)
Theorem C02_source_tie_find_intersecting :
  forall (a b : pt) (m : gomap Z gen_Quadrant) (gparent : gen_Quadrant) (has : nat -> option quad) (parent : quad),
  quad_rel parent gparent -> has_rel has m ->
  (forall i q, lt4 i -> has i = Some q -> line_fits a b (qext q)) ->
  exists qs : list nat,
    gen_findIntersectingQuadrants_full (a, b) m gparent = Ok (map Z.of_nat qs) /\
    Forall lt4 qs /\
    map has qs = map Some (findIntersectingQuadrants a b has parent).
Proof. exact generated_find_is_model. Qed.
Print Assumptions C02_source_tie_find_intersecting.

(** the same, as the caller uses it: [quadrantsWithPoints[q]] for every returned number q gives the model's quadrants *)
Theorem C02_source_tie_find_intersecting_lookup :
  forall (a b : pt) (m : gomap Z gen_Quadrant) (gparent : gen_Quadrant) (has : nat -> option quad) (parent : quad)
         (zero : gen_Quadrant),
  quad_rel parent gparent -> has_rel has m ->
  (forall i q, lt4 i -> has i = Some q -> line_fits a b (qext q)) ->
  exists qs : list Z,
    gen_findIntersectingQuadrants_full (a, b) m gparent = Ok qs /\
    Forall2 quad_rel (findIntersectingQuadrants a b has parent) (map (gm_get_or Z.eqb zero m) qs).
Proof. exact generated_find_lookup. Qed.
Print Assumptions C02_source_tie_find_intersecting_lookup.

(** the regenerated code runs: parent [0,8) x [0,8) with centre (4,4), segment (1,1) -> (7,6) from quadrant 0 to the
    diagonal quadrant 3 through quadrant 1.  All four children present: 0, 1, 3 (2 is skipped by the mutex flag);
    child 1 absent: quadrant 2 is tested and not met: 0, 3; only 1 and 2 present: 1.  The model returns the same. *)
Example C02_source_tie_find_intersecting_example :
  let child := fun i : nat => match i with
                 | 0%nat => mkQuad 0 0 (mkExtent 0 0 4 4) (2, 2) | 1%nat => mkQuad 1 0 (mkExtent 4 0 8 4) (6, 2)
                 | 2%nat => mkQuad 0 1 (mkExtent 0 4 4 8) (2, 6) | _ => mkQuad 1 1 (mkExtent 4 4 8 8) (6, 6) end in
  let gq := fun (z : N) (i : nat) => mk_gen_Quadrant z (ext_tuple (qext (child i))) (qcen (child i)) in
  let parent := mkQuad 0 0 (mkExtent 0 0 8 8) (4, 4) in
  let gparent := mk_gen_Quadrant 0%N (0, 0, 8, 8) (4, 4) in
  let all := [(2, gq 2%N 2%nat); (0, gq 0%N 0%nat); (3, gq 3%N 3%nat); (1, gq 1%N 1%nat)] in
  let no1 := [(0, gq 0%N 0%nat); (2, gq 2%N 2%nat); (3, gq 3%N 3%nat)] in
  let mid := [(1, gq 1%N 1%nat); (2, gq 2%N 2%nat)] in
  gen_findIntersectingQuadrants_full ((1, 1), (7, 6)) all gparent = Ok [0; 1; 3] /\
  gen_findIntersectingQuadrants_full ((1, 1), (7, 6)) no1 gparent = Ok [0; 3] /\
  gen_findIntersectingQuadrants_full ((1, 1), (7, 6)) mid gparent = Ok [1] /\
  findIntersectingQuadrants (1, 1) (7, 6) (fun i => Some (child i)) parent = [child 0%nat; child 1%nat; child 3%nat] /\
  findIntersectingQuadrants (1, 1) (7, 6) (fun i => if Nat.eqb i 1 then None else Some (child i)) parent
    = [child 0%nat; child 3%nat] /\
  has_rel (fun i => Some (child i)) all /\ quad_rel parent gparent.
Proof.
  cbn zeta. repeat split; try (vm_compute; reflexivity).
  intros i Hi. unfold lt4 in Hi. destruct i as [| [| [| [| i]]]]; [| | | | lia]; vm_compute; split; reflexivity.
Qed.

From Texel Require Import Index.ProofsGenHits.
From Texel.Gen Require Import HitsGen.

(** ** tie G2, whole body: [checkPointHits] of pointindex.go REGENERATED from source on this run (gen/HitsGen.v,
    translator/hits.go) is the model's hit accounting.

    REGENERATED: every statement of the body after the first two.  MODELLED (trusted mappings, made after checking the
    AST): the first two statements [levelHitOnce := ix.hitOnce[level]], [levelHitMultiple := ix.hitMultiple[level]]
    bind references to the inner maps of the receiver — the generated function takes the contents of the two inner
    maps and returns their contents after the call ([ix] and [level] are used for nothing else; both maps are non-nil
    because SnapClosestPoints makes them before the call, which the translator checks); [map[intgeom.Point][]int]
    used through [m[k]] and [m[k] = v] is an association list (Prelude/GoAssoc.v) = the model's [hitmap] with ring ids
    in [Z] ([hm_conv]); [slices.Contains] on [[]int] is [existsb (Z.eqb x)].
    Second part: the loop of SnapClosestPoints that calls it for every centre of a level after the first one
    ([if i > 0]) stays modelled ([snapAndHit]: a fold over the tail); running the regenerated function along that
    tail ([gen_hit_all] = foldM) gives the model's state. *)
Theorem C02_source_tie_check_point_hits :
  (forall (st : hits) (v : pt) (ringId : nat),
     gen_checkPointHits (hm_conv (hitOnce st)) (hm_conv (hitMultiple st)) v (Z.of_nat ringId)
     = Ok (hm_conv (hitOnce (checkPointHits st v ringId)), hm_conv (hitMultiple (checkPointHits st v ringId)))) /\
  (forall g hots (st : hits) (a b : pt) (L ringId : nat),
     gen_hit_all (Z.of_nat ringId) (hm_conv (hitOnce st), hm_conv (hitMultiple st)) (tl (snapClosestPoints g hots a b L))
     = let st' := snd (snapAndHit g hots st a b L ringId) in
       Ok (hm_conv (hitOnce st'), hm_conv (hitMultiple st'))).
Proof. split; [exact gen_checkPointHits_spec | exact gen_hits_snapAndHit]. Qed.
Print Assumptions C02_source_tie_check_point_hits.

(** the regenerated code runs: ring 7 hits (5,5) for the first time, ring 8 hits it too, ring 7 hits it again
    (-> hitMultiple), and again (nothing changes); ring 8 hits (6,6) *)
Example C02_source_tie_check_point_hits_example :
  gen_hit_all 7 ([], []) [(5, 5)] = Ok ([((5, 5), [7])], []) /\
  (do s1 <- gen_hit_all 7 ([], []) [(5, 5)]; do s2 <- gen_hit_all 8 s1 [(5, 5); (6, 6)]; gen_hit_all 7 s2 [(5, 5); (5, 5)])
    = Ok ([((5, 5), [7; 8]); ((6, 6), [8])], [((5, 5), [7])]) /\
  fold_left (fun s v => checkPointHits s v 7) [(5, 5); (5, 5)]
    (fold_left (fun s v => checkPointHits s v 8) [(5, 5); (6, 6)] (checkPointHits (mkHits [] []) (5, 5) 7))
    = mkHits [((5, 5), [7; 8]%nat); ((6, 6), [8]%nat)] [((5, 5), [7]%nat)].
Proof. vm_compute. repeat split; reflexivity. Qed.

From Texel Require Import Index.ProofsMortonTie Index.ProofsGenDescent.
From Texel.Gen Require Import DescentGen.

(** ** tie G2 + refinement, whole bodies: [snapClosestPoints] (the descent over the levels) and [insertCoord] of
    pointindex.go REGENERATED from source on this run (gen/DescentGen.v, translator/descent.go + find.go).

    The code keys the quadrants of a level by Morton code ([morton.MustToZ x y], children through
    [getQuadrantZs parent.z]); the model addresses them by (x, y) and looks up (2x+i, 2y+j).  The refinement relation
    [ix_rel g hots ix] (Index/ProofsGenDescent.v) is key = toZ(x, y): the root quadrant, deepest level, size and
    resolution of [ix] are the model's, and for every level 1..deepest and every address c below 2^32 the level map of
    the code has an entry for [key c] iff c is occupied in the model, the entry being the quadrant of c
    ([gq_quad q] = Morton key of the address, extent, centroid of the model's quad q).
    (1) DESCENT: for an index that refines [hots], the regenerated snapClosestPoints returns, for every level k that is
        in [levelMap] and not deeper than the index, exactly the model's [snapClosestQuads g hots a b k] (as quadrants of
        the code, in order); no entry for any other level; the nil map when [levelMap] is empty or the segment misses the
        root extent.  It never panics (no MustToZ error) and does not run out of fuel.
    (2) INSERT: for an index that refines the hot set [hs] and an address inside the grid, the regenerated insertCoord
        returns a value of the field [ix.quadrants] with which the index refines [hs ++ [(dx, dy)]] — the model's
        insertPoint; the empty index refines the empty hot set.
    (3) END TO END: the index built by the regenerated insertCoord from the addresses of a polygon the model accepts,
        searched by the regenerated snapClosestPoints, gives the model's quads.
    Uses the C17 theorems about the programs regenerated from morton.go (injectivity of toZ below 2^32, the children
    of a key) and the ties C02_source_tie_find_intersecting, C17_source_tie_children, C02_source_tie (leaves).
    Hypotheses: deepest level <= 32 (Morton keys of 2 x 32 bits); [line_fits]: no int64 subtraction of lineIntersects
    wraps on the root extent and on the extents of the occupied pixels (true when all ordinates are in [-2^62, 2^62)).
    MODELLED (trusted mappings, listed at the top of gen/DescentGen.v): Go maps used through m[k], v, ok := m[k],
    m[k] = v, len, make, m[k] == nil only = association lists (Prelude/GoAssoc.v; an entry of a map of maps is never
    nil); range loops = range_loop; the loops over the levels = Fixpoints on fuel deepestLevel + 1 (+ 2); uint = N with
    arithmetic modulo 2^64; mathhelp.Pow2 and getQuadrantExtentAndCentroid called as regenerated in PointIndexGen.v
    (over Z, through the adapters printed in DescentGen.v); insertCoord returns the final value of ix.quadrants.
    NOT regenerated HERE: InsertPolygon's loops over rings and vertices and its pre-sizing of the maps, InsertPoint's
    conversion from floats, the wrapper SnapClosestPoints (float conversion of the line and of the centroids, the range
    over the per-level result map) — these are regenerated in gen/IndexTopGen.v and tied at the end of this file
    (C02_source_tie_snap_closest_points) and in C09.v (C09_source_tie_insert_polygon). *)
Theorem C02_source_tie_descent :
  forall (g : grid) (hots : list (list (Z * Z))) (ix : gen_PointIndex) (a b : pt) (lm : gomap N unit),
  ix_rel g hots ix -> (gdeep g <= 32)%nat -> line_fits a b (gext g) ->
  (forall l c, (1 <= l <= gdeep g)%nat -> mem_addr c (hotLookup hots l) = true ->
     line_fits a b (quadExtent g l (fst c) (snd c))) ->
  exists result : gomap N (list gen_Quadrant),
    gen_snapClosestPoints ix (a, b) lm = Ok result /\
    forall k : N, gm_get N.eqb result k =
      if negb (gm_len lm =? 0) && lineIntersects a b (gext g) && (k <=? N.of_nat (gdeep g))%N && gm_has N.eqb lm k
      then Some (map gq_quad (snapClosestQuads g hots a b (N.to_nat k))) else None.
Proof. exact gen_snapClosestPoints_spec. Qed.
Print Assumptions C02_source_tie_descent.

Theorem C02_source_tie_insert_coord :
  (forall g, ix_rel g (hotLevels g []) (gen_empty_index g)) /\
  (forall (g : grid) (hs : hotset) (ix : gen_PointIndex) (dx dy : Z),
     ix_rel g (hotLevels g hs) ix -> (gdeep g <= 32)%nat -> 0 <= gres g ->
     0 <= dx < pow2 (gdeep g) -> 0 <= dy < pow2 (gdeep g) ->
     exists Q', gen_insertCoord ix dx dy = Ok Q' /\ ix_rel g (hotLevels g (hs ++ [(dx, dy)])) (ix_with ix Q')).
Proof. split; [exact empty_index_rel | exact gen_insertCoord_spec]. Qed.
Print Assumptions C02_source_tie_insert_coord.

Theorem C02_source_tie_index_descent :
  forall (g : grid) (P : list ring) (hs : hotset) (a b : pt) (lm : gomap N unit),
  (gdeep g <= 32)%nat -> 0 <= gres g -> insertPolygon g P = Ok hs ->
  line_fits a b (gext g) ->
  (forall l c, (1 <= l <= gdeep g)%nat -> mem_addr c (hotLookup (hotLevels g hs) l) = true ->
     line_fits a b (quadExtent g l (fst c) (snd c))) ->
  exists ix result,
    foldM gen_insert_one hs (gen_empty_index g) = Ok ix /\
    gen_snapClosestPoints ix (a, b) lm = Ok result /\
    forall k : N, gm_get N.eqb result k =
      if negb (gm_len lm =? 0) && lineIntersects a b (gext g) && (k <=? N.of_nat (gdeep g))%N && gm_has N.eqb lm k
      then Some (map gq_quad (snapClosestQuads g (hotLevels g hs) a b (N.to_nat k))) else None.
Proof. exact gen_index_descent_polygon. Qed.
Print Assumptions C02_source_tie_index_descent.

(** the regenerated code runs: the 32 x 32 pixel grid of pixel size 2, ten inserted addresses, levels 0, 3 and 5
    requested (in that order of insertion into levelMap: 3, 5, 0): the diagonal (2,2) -> (40,40) meets 1, 4 and 4
    occupied pixels, the anti-diagonal (3,50) -> (60,1) meets 1, 1 and 0; the model says the same *)
Example C02_source_tie_descent_example :
  let g := mkGrid (mkExtent 0 0 64 64) 2 5 in
  let hs := [(1,1);(20,1);(20,20);(1,20);(5,5);(5,10);(10,10);(10,5);(31,31);(0,0)] in
  let lm : gomap N unit := [(3%N, tt); (5%N, tt); (0%N, tt)] in
  let run := fun a b => do ix <- foldM gen_insert_one hs (gen_empty_index g); gen_snapClosestPoints ix (a, b) lm in
  let model := fun a b => map (fun L : nat => (N.of_nat L, map gq_quad (snapClosestQuads g (hotLevels g hs) a b L))) [0; 3; 5]%nat in
  run (2, 2) (40, 40) = Ok (model (2, 2) (40, 40)) /\
  map (fun e => length (snd e)) (model (2, 2) (40, 40)) = [1; 4; 4]%nat /\
  run (3, 50) (60, 1) = Ok (model (3, 50) (60, 1)) /\
  map (fun e => length (snd e)) (model (3, 50) (60, 1)) = [1; 1; 0]%nat /\
  run (100, 100) (200, 100) = Ok [] /\
  (do ix <- foldM gen_insert_one hs (gen_empty_index g); gen_snapClosestPoints ix ((2, 2), (40, 40)) []) = Ok [].
Proof. vm_compute. repeat split; reflexivity. Qed.

From Texel Require Import Index.GoTop Index.ProofsGenIndexTop.
From Texel.Gen Require Import IndexTopGen.

(** ** tie G2, whole body: the exported [SnapClosestPoints] (and [GetHitMultiple]) of pointindex.go and
    [FromGeomLine] / [Point.ToGeomPoint] / [ToGeomOrd] / [FromGeomOrd] of package intgeom REGENERATED from source on this
    run (gen/IndexTopGen.v, translator/indextop.go).

    REGENERATED: every statement: the conversion of the line to integers ([ofFline fo]), the call of the regenerated
    descent, the make of the result map, the loop over the per-level result map with [continue] for a level without
    quadrants, the makes of the two per-level hit maps, the slice of points, the loop over the quadrants with the
    conversion of each centroid to floats ([toFpt fo]) and the hit accounting for every centre but the first ([i > 0]).
    The float operations are abstract: the theorem holds for EVERY [fo : floatops].
    STATEMENT: for an index whose quadrants refine the model's [hots] (as in C02_source_tie_descent) and whose hit maps
    hold, level by level, the model's hit states [H k] ([hit_rel]): for EVERY iteration order [ord] of the result map
    ([goorder_ok]: the entries in any permutation — Go does not define the order), the call succeeds and, for every
    level k: the result has the entry [map toFpt (centres of level k)] iff k is requested (in [levelMap], not deeper than
    the index, the segment meets the root extent) and has at least one centre; the hit maps of level k afterwards hold
    the model's [snapAndHit] state if k is requested and are unchanged otherwise.  So the order only decides in which
    sequence INDEPENDENT per-level maps are written; nothing of it shows in the result ([C02_source_tie_snap_order]).
    Hypotheses: as C02_source_tie_descent (deepest level <= 32, [line_fits] on the root and the occupied pixels).
    MODELLED (trusted mappings, listed at the top of gen/IndexTopGen.v): float64 abstract; Go maps = association lists
    with the iteration order a parameter; [checkPointHits(ix, v, r, level)] = the regenerated gen_checkPointHits on the
    two inner maps of that level, written back (reference semantics; accepted only behind the two makes);
    make([]T, n) / s[i] = v = make_slice / setidx; snapClosestPoints, checkPointHits as regenerated (DescentGen.v,
    HitsGen.v). *)
Theorem C02_source_tie_snap_closest_points :
  forall (fo : floatops) (ord : goorder) (g : grid) (hots : list (list (Z * Z)))
         (ix : gen_PointIndexT) (line : FLine fo) (lm : gomap N unit) (ringId : nat) (H : N -> hits),
  goorder_ok ord -> ixT_rel g hots ix -> (gdeep g <= 32)%nat ->
  let a := fst (ofFline fo line) in
  let b := snd (ofFline fo line) in
  line_fits a b (gext g) ->
  (forall l c, (1 <= l <= gdeep g)%nat -> mem_addr c (hotLookup hots l) = true -> line_fits a b (quadExtent g l (fst c) (snd c))) ->
  hit_rel H (PointIndexT_hitOnce ix) (PointIndexT_hitMultiple ix) ->
  exists (h1 h2 : hitsT) (ppl : gomap N (list (FPt fo))),
    gen_SnapClosestPoints fo ord ix line lm (Z.of_nat ringId) = Ok (h1, h2, ppl) /\
    forall k : N,
      let requested := negb (gm_len lm =? 0) && lineIntersects a b (gext g) && (k <=? N.of_nat (gdeep g))%N && gm_has N.eqb lm k in
      let r := snapAndHit g hots (H k) a b (N.to_nat k) ringId in
      gm_get N.eqb ppl k = (if requested then match fst r with [] => None | _ :: _ => Some (map (toFpt fo) (fst r)) end else None) /\
      gm_get_or N.eqb [] h1 k = hm_conv (hitOnce (if requested then snd r else H k)) /\
      gm_get_or N.eqb [] h2 k = hm_conv (hitMultiple (if requested then snd r else H k)).
Proof. exact gen_SnapClosestPoints_spec. Qed.
Print Assumptions C02_source_tie_snap_closest_points.

(** two iteration orders give the same points and the same hit lists, level by level *)
Theorem C02_source_tie_snap_order :
  forall (fo : floatops) (ord ord' : goorder) (g : grid) (hots : list (list (Z * Z)))
         (ix : gen_PointIndexT) (line : FLine fo) (lm : gomap N unit) (ringId : nat) (H : N -> hits),
  goorder_ok ord -> goorder_ok ord' -> ixT_rel g hots ix -> (gdeep g <= 32)%nat ->
  line_fits (fst (ofFline fo line)) (snd (ofFline fo line)) (gext g) ->
  (forall l c, (1 <= l <= gdeep g)%nat -> mem_addr c (hotLookup hots l) = true ->
     line_fits (fst (ofFline fo line)) (snd (ofFline fo line)) (quadExtent g l (fst c) (snd c))) ->
  hit_rel H (PointIndexT_hitOnce ix) (PointIndexT_hitMultiple ix) ->
  exists h1 h2 ppl h1' h2' ppl',
    gen_SnapClosestPoints fo ord ix line lm (Z.of_nat ringId) = Ok (h1, h2, ppl) /\
    gen_SnapClosestPoints fo ord' ix line lm (Z.of_nat ringId) = Ok (h1', h2', ppl') /\
    forall k : N, gm_get N.eqb ppl k = gm_get N.eqb ppl' k /\
                  gm_get_or N.eqb [] h1 k = gm_get_or N.eqb [] h1' k /\ gm_get_or N.eqb [] h2 k = gm_get_or N.eqb [] h2' k.
Proof.
  intros fo ord ord' g hots ix line lm ringId H Ho Ho' Hix Hd Hroot Hfit Hh.
  destruct (gen_SnapClosestPoints_spec fo ord g hots ix line lm ringId H Ho Hix Hd Hroot Hfit Hh) as (h1 & h2 & ppl & E & P).
  destruct (gen_SnapClosestPoints_spec fo ord' g hots ix line lm ringId H Ho' Hix Hd Hroot Hfit Hh) as (h1' & h2' & ppl' & E' & P').
  exists h1, h2, ppl, h1', h2', ppl'. split; [exact E |]. split; [exact E' |].
  intro k. destruct (P k) as (A1 & A2 & A3). destruct (P' k) as (B1 & B2 & B3). cbv zeta in *.
  split; [exact (eq_trans A1 (eq_sym B1)) |]. split; [exact (eq_trans A2 (eq_sym B2)) | exact (eq_trans A3 (eq_sym B3))].
Qed.
Print Assumptions C02_source_tie_snap_order.

Theorem C02_source_tie_get_hit_multiple : forall (fo : floatops) ix (H : N -> hits) k,
  hit_rel H (PointIndexT_hitOnce ix) (PointIndexT_hitMultiple ix) ->
  gen_GetHitMultiple fo ix k = Ok (hm_conv (hitMultiple (H k))).
Proof. exact gen_GetHitMultiple_spec. Qed.
Print Assumptions C02_source_tie_get_hit_multiple.

(** the regenerated code runs (float operations: exact decimal fixed point [fo_fixed], for which the codec is the
    identity): the 32 x 32 grid of pixel size 2 of the example above, ten vertices inserted by the regenerated
    InsertPolygon, the diagonal (2,2) -> (40,40) snapped TWICE for ring 7 with levels 3, 5, 0 requested, once iterating
    the result map in map order and once in reverse: the same answers, and the model's (centres, hit lists: the second
    pass moves the centres after the first into hitMultiple); level 4 is not requested: no entry, no hits *)
Example C02_source_tie_snap_closest_points_example :
  let g := mkGrid (mkExtent 0 0 64 64) 2 5 in
  let poly : list (list (FPt fo_fixed)) := [[(3,3);(41,3);(41,41);(3,41);(11,11);(11,21);(21,21);(21,11);(63,63);(1,1)]] in
  let lm : gomap N unit := [(3%N, tt); (5%N, tt); (0%N, tt)] in
  let line : FLine fo_fixed := ((2, 2), (40, 40)) in
  let levels := [0; 3; 5; 4]%N in
  let run := fun ord : goorder =>
    do (Q, e) <- gen_InsertPolygon fo_fixed (gen_empty_indexT g) poly;
    let ix := PointIndexT_with_quadrants (gen_empty_indexT g) Q in
    do (h1, h2, ppl) <- gen_SnapClosestPoints fo_fixed ord ix line lm 7;
    let ix2 := PointIndexT_with_hitMultiple (PointIndexT_with_hitOnce ix h1) h2 in
    do (h1', h2', ppl') <- gen_SnapClosestPoints fo_fixed ord ix2 line lm 7;
    Ok (map (fun k => (gm_get N.eqb ppl' k, gm_get_or N.eqb [] h1' k, gm_get_or N.eqb [] h2' k)) levels) in
  let model :=
    match insertPolygon g (map (map (ofFpt fo_fixed)) poly) with
    | Ok hs =>
        map (fun k : N =>
               if existsb (N.eqb k) [0; 3; 5]%N then
                 let r1 := snapAndHit g (hotLevels g hs) (mkHits [] []) (2, 2) (40, 40) (N.to_nat k) 7 in
                 let r2 := snapAndHit g (hotLevels g hs) (snd r1) (2, 2) (40, 40) (N.to_nat k) 7 in
                 (Some (fst r2), hm_conv (hitOnce (snd r2)), hm_conv (hitMultiple (snd r2)))
               else (None, [], [])) levels
    | Err _ => []
    end in
  run goorder_id = Ok model /\ run goorder_rev = Ok model /\
  map (fun x => length (snd x)) model = [0; 3; 3; 0]%nat.
Proof. vm_compute. repeat split; reflexivity. Qed.
