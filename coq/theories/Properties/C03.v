(** placeholder until the C03 theorems are in place *)
From Texel Require Import Prelude.Base.
