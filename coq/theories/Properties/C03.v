(** * C03 — output coordinates are pixel centres of the requested level (index part).

    Integer coordinates are the tool's units of 1e-10; the float conversion and the level arithmetic
    (level = tile matrix id + log2 tileWidth + 4, FromTileMatrixSet) are not part of Index/Model.v and are
    covered elsewhere.  [hotLookup hots L] is the set of occupied pixel addresses of level L,
    [pixelOf g L v] the address of the level-L pixel of the point v. *)
From Coq Require Import ZArith QArith List Bool.
From Texel Require Import Prelude.Base Index.Model Index.ProofsInsert Index.ProofsGrid Index.ProofsCentre.
Import ListNotations.
Open Scope Z_scope.

(** the centroid of pixel (x, y) of level l is min + x S + S/2 with S = 2^(deepest - l) res *)
Theorem C03_centre_formula : forall g l x y,
  quadCentroid g l x y =
  (eminx (gext g) + x * (pow2 (gdeep g - l) * gres g) + (pow2 (gdeep g - l) * gres g) / 2,
   eminy (gext g) + y * (pow2 (gdeep g - l) * gres g) + (pow2 (gdeep g - l) * gres g) / 2).
Proof. exact centre_formula. Qed.
Print Assumptions C03_centre_formula.

(** it is the exact middle of the pixel above the deepest level, or when the resolution is even ... *)
Theorem C03_centre_is_middle : forall g l x y, ((l < gdeep g)%nat \/ Z.even (gres g) = true) ->
  2 * fst (quadCentroid g l x y) = eminx (quadExtent g l x y) + emaxx (quadExtent g l x y) /\
  2 * snd (quadCentroid g l x y) = eminy (quadExtent g l x y) + emaxy (quadExtent g l x y).
Proof. exact centre_is_middle. Qed.
Print Assumptions C03_centre_is_middle.

(** ... and at most half a unit (0.5e-10) below it in general *)
Theorem C03_centre_near_middle : forall g l x y,
  0 <= eminx (quadExtent g l x y) + emaxx (quadExtent g l x y) - 2 * fst (quadCentroid g l x y) <= 1 /\
  0 <= eminy (quadExtent g l x y) + emaxy (quadExtent g l x y) - 2 * snd (quadCentroid g l x y) <= 1.
Proof. exact centre_near_middle. Qed.
Print Assumptions C03_centre_near_middle.

(** every point snapClosestPoints returns for level L is the centroid of a pixel of level L with an address in
    [0, 2^L)^2; below the root the pixel is in the occupied set of that level (any segment, any sets) *)
Theorem C03_outputs_are_centroids : forall g hots a b L p, In p (snapClosestPoints g hots a b L) ->
  exists x y, 0 <= x < pow2 L /\ 0 <= y < pow2 L /\ p = quadCentroid g L x y /\
              (L <> 0%nat -> In (x, y) (hotLookup hots L)).
Proof. exact outputs_are_centroids. Qed.
Print Assumptions C03_outputs_are_centroids.

(** for an indexed polygon: it is the centroid of the pixel of one of the polygon's vertices *)
Theorem C03_outputs_are_hot_centroids : forall g P hs a b L p, 0 < gres g -> insertPolygon g P = Ok hs ->
  (0 < L <= gdeep g)%nat -> In p (snapClosestPoints g (hotLevels g hs) a b L) ->
  exists v, In v (concat P) /\ p = quadCentroid g L (fst (pixelOf g L v)) (snd (pixelOf g L v)) /\
            containsPoint v (quadExtent g L (fst (pixelOf g L v)) (snd (pixelOf g L v))) = true.
Proof. exact outputs_are_hot_centroids. Qed.
Print Assumptions C03_outputs_are_hot_centroids.

(** deviation from the ideal pixel centre min + (k + 1/2) XSpan / 2^l, for a grid as FromTileMatrixSet builds it
    (res = XSpan / 2^deepest rounded down).  [dev] = XSpan - 2^deepest res is the deviation the tool reports.
    The centroid is never beyond the ideal centre and falls short of it by at most dev + 1/2 unit; by at most
    dev above the deepest level or when the resolution is even (the literal bound of the property). *)
Theorem C03_centre_deviation_bound : forall g l k y,
  gres g = (emaxx (gext g) - eminx (gext g)) / gsize g -> (l <= gdeep g)%nat -> 0 <= k < pow2 l ->
  let X := emaxx (gext g) - eminx (gext g) in
  let ideal := (inject_Z (eminx (gext g)) + (inject_Z k + (1 # 2)) * (inject_Z X / inject_Z (pow2 l)))%Q in
  let actual := inject_Z (fst (quadCentroid g l k y)) in
  let dev := inject_Z (X - gsize g * gres g) in
  (0 <= dev /\ 0 <= ideal - actual /\ ideal - actual <= dev + (1 # 2) /\
   (((l < gdeep g)%nat \/ Z.even (gres g) = true) -> ideal - actual <= dev))%Q.
Proof. exact centre_deviation_bound. Qed.
Print Assumptions C03_centre_deviation_bound.

(** y axis: the resolution is derived from the x span only, the bound holds for a square extent *)
Theorem C03_centre_deviation_bound_y : forall g l x k,
  gres g = (emaxx (gext g) - eminx (gext g)) / gsize g ->
  emaxy (gext g) - eminy (gext g) = emaxx (gext g) - eminx (gext g) ->
  (l <= gdeep g)%nat -> 0 <= k < pow2 l ->
  let Y := emaxy (gext g) - eminy (gext g) in
  let ideal := (inject_Z (eminy (gext g)) + (inject_Z k + (1 # 2)) * (inject_Z Y / inject_Z (pow2 l)))%Q in
  let actual := inject_Z (snd (quadCentroid g l x k)) in
  let dev := inject_Z (Y - gsize g * gres g) in
  (0 <= dev /\ 0 <= ideal - actual /\ ideal - actual <= dev + (1 # 2) /\
   (((l < gdeep g)%nat \/ Z.even (gres g) = true) -> ideal - actual <= dev))%Q.
Proof. exact centre_deviation_bound_y. Qed.
Print Assumptions C03_centre_deviation_bound_y.

(** the literal bound |ideal - actual| <= dev is false at the deepest level when the resolution is odd:
    extent [0, 6), deepest level 1, res 3, dev 0; the centroid of pixel 0 is 0 + 3/2 = 1 (rounded down),
    the ideal centre 3/2.  Half a unit = 0.5e-10, far below the float resolution of the output. *)
Example C03_deviation_bound_refuted :
  exists g l k y,
    gres g = (emaxx (gext g) - eminx (gext g)) / gsize g /\ (l <= gdeep g)%nat /\ 0 <= k < pow2 l /\
    let X := emaxx (gext g) - eminx (gext g) in
    let ideal := (inject_Z (eminx (gext g)) + (inject_Z k + (1 # 2)) * (inject_Z X / inject_Z (pow2 l)))%Q in
    let actual := inject_Z (fst (quadCentroid g l k y)) in
    let dev := inject_Z (X - gsize g * gres g) in
    (~ ideal - actual <= dev /\ ideal - actual == dev + (1 # 2))%Q.
Proof.
  exists (mkGrid (mkExtent 0 0 6 6) 3 1), 1%nat, 0, 0.
  split; [reflexivity |]. split; [apply le_n |]. split; [vm_compute; split; [discriminate | reflexivity] |].
  cbv zeta. split; [intro H; vm_compute in H; apply H; reflexivity | vm_compute; reflexivity].
Qed.

(** non-vacuity on the real NetherlandsRDNewQuad grid for tile matrix 14 (level 14 + 8 + 4 = 26):
    min (-285401.92, 22598.08), span 880803.84 = 2^26 * 0.013125: round grid, even resolution, deviation 0. *)
Definition gRD : grid :=
  mkGrid (mkExtent (-2854019200000000) 225980800000000 5954019200000000 9034019200000000) 131250000 26.

Example C03_RD_example :
  gres gRD = (emaxx (gext gRD) - eminx (gext gRD)) / gsize gRD /\
  emaxy (gext gRD) - eminy (gext gRD) = emaxx (gext gRD) - eminx (gext gRD) /\
  emaxx (gext gRD) - eminx (gext gRD) - gsize gRD * gres gRD = 0 /\
  Z.even (gres gRD) = true /\
  0 < gres gRD /\
  (* the pixel of the point (117220.282, 440135.898) at level 26 and its centre (117220.2846875, 440135.9021875) *)
  pixelOf gRD 26 (1172202820000000, 4401358980000000) = (30675977, 31812405) /\
  quadCentroid gRD 26 30675977 31812405 = (1172202846875000, 4401359021875000) /\
  snapClosestPoints gRD (hotLevels gRD [(30675977, 31812405)]) (1172202820000000, 4401358980000000)
      (1172202820000000, 4401358980000000) 26 = [(1172202846875000, 4401359021875000)].
Proof. vm_compute. repeat split; reflexivity. Qed.

From Texel Require Import Index.ProofsGen.
From Texel.Gen Require Import PointIndexGen.

(** ** tie G2: getQuadrantExtentAndCentroid REGENERATED from pointindex.go on this run is the model's
    [quadExtent] / [quadCentroid] (levels 0 .. deepest, non-negative resolution) *)
Theorem C03_source_tie : forall g l x y, 0 <= gres g -> (l <= gdeep g)%nat ->
  gen_getQuadrantExtentAndCentroid (ix_of g) (Z.of_nat l) x y (ext_tuple (gext g))
  = (ext_tuple (quadExtent g l x y), quadCentroid g l x y).
Proof. exact gen_getQuadrantExtentAndCentroid_spec. Qed.
Print Assumptions C03_source_tie.

(** ** tie G (CLI glue): the deviation that validation reports (main.validateTileMatrixSet -> DeviationStats)
    and the grid that snapping builds (snap.SnapPolygon -> FromTileMatrixSet) both refer to the DEEPEST requested
    tile matrix, slices.Max of the ids — extracted from the AST of main.go and snap/snap.go on this run *)
From Texel.Gen Require Import CliGen.
Theorem C03_source_tie_deepest :
  gen_validate_deepest_is_max = true /\ gen_snap_deepest_is_max = true.
Proof. split; reflexivity. Qed.
Print Assumptions C03_source_tie_deepest.

From Texel Require Import Prelude.GoAssoc Index.MachineInt Index.GoTop Index.ProofsRound Index.ProofsGenDescent Index.ProofsGenIndexTop.
From Texel.Gen Require Import IndexTopGen.

(** ** tie G2, whole body: [FromTileMatrixSet] of pointindex.go REGENERATED from source on this run (gen/IndexTopGen.v,
    translator/indextop.go): it builds the empty index of the grid the model's constructor [tmsGrid] (Index/ProofsRound.v)
    builds from the same numbers.

    REGENERATED: every statement: the deepest level uint(deepestTMID) + uint(Log2(float64(TileWidth of matrix 0))) +
    uint(Log2(float64(16))) in uint arithmetic ([tms_level]; [tms_level_plain]: = id + log2 width + 4 when the two float
    computations give log2 width and 4), the bounding box of matrix 0 converted to integers ([bbox_extent]: the
    regenerated FromGeomPoint and X() / Y()), deepestSize = Pow2(level), deepestRes = XSpan / int64(deepestSize) with the
    truncating machine division, the three makes, the centroid of the root by the regenerated
    getQuadrantExtentAndCentroid (C03_source_tie), the error of MatrixBoundingBox handed on through fmt.Errorf.
    [gen_empty_indexT g] is the record: root quadrant (key 0, the extent, [quadCentroid g 0 0 0]), level, size 2^level,
    resolution of g, no quadrants, no hits; it refines the empty hot set ([empty_indexT_rel]).
    Hypotheses: level <= 32 (so that Pow2 and the Morton keys fit), x span non-negative and within int64.
    MODELLED (trusted mappings, listed at the top of gen/IndexTopGen.v): float64 and math.Log2 abstract ([floatops]);
    tms20.TileMatrixSet = the view [gotms] (TileWidth per matrix, result of MatrixBoundingBox per id: that method is
    regenerated over Q in TmsAddrGen.v, C15); fmt.Errorf = ErrOther; the returned pointer = option. *)
Theorem C03_source_tie_from_tile_matrix_set :
  forall (fo : floatops) (t : gotms fo gen_OutsideGridError) (tmid : Z),
  (forall bl tr er, gotms_MatrixBoundingBox t 0 = (bl, tr, Some er) ->
     gen_FromTileMatrixSet fo t tmid = Ok (None, Some ErrOther)) /\
  (forall bl tr (d : nat), gotms_MatrixBoundingBox t 0 = (bl, tr, None) ->
     tms_level fo t tmid = N.of_nat d -> (d <= 32)%nat ->
     let e := bbox_extent fo bl tr in
     eminx e <= emaxx e -> is_i64 (emaxx e - eminx e) ->
     gen_FromTileMatrixSet fo t tmid = Ok (Some (gen_empty_indexT (tmsGrid e d)), None) /\
     ixT_rel (tmsGrid e d) (hotLevels (tmsGrid e d) []) (gen_empty_indexT (tmsGrid e d))).
Proof.
  intros fo t tmid. destruct (gen_FromTileMatrixSet_spec fo t tmid) as [H1 H2]. split; [exact H1 |].
  intros bl tr d Hb Hl Hd e He Hs. split; [exact (H2 bl tr d Hb Hl Hd He Hs) | apply empty_indexT_rel].
Qed.
Print Assumptions C03_source_tie_from_tile_matrix_set.

Theorem C03_source_tie_tms_level :
  forall (fo : floatops) (t : gotms fo gen_OutsideGridError) (tmid : Z) (lw : N),
  f_to_uint64 fo (f_log2 fo (f_of_uint64 fo (tms_root_width t))) = lw -> f_to_uint64 fo (f_log2 fo (f_const fo 16)) = 4%N ->
  0 <= tmid < 2 ^ 32 -> (lw < 2 ^ 32)%N ->
  tms_level fo t tmid = (Z.to_N tmid + lw + 4)%N.
Proof. intros fo t. exact (tms_level_plain fo t). Qed.
Print Assumptions C03_source_tie_tms_level.

(** the regenerated code runs (float operations: exact decimal fixed point [fo_fixed]): NetherlandsRDNewQuad, tile width
    256, bounding box (-285401.92, 22598.08) .. (595401.92, 903401.92), deepest tile matrix 14: level 14 + 8 + 4 = 26 and
    the index of [gRD] above (resolution 0.013125); an error of MatrixBoundingBox is handed on *)
Example C03_source_tie_from_tile_matrix_set_example :
  let bl : FPt fo_fixed := (-2854019200000000, 225980800000000) in
  let tr : FPt fo_fixed := (5954019200000000, 9034019200000000) in
  let t : gotms fo_fixed gen_OutsideGridError := mk_gotms fo_fixed _ [(0, mk_gotm 256)] (fun _ => (bl, tr, None)) in
  let tbad : gotms fo_fixed gen_OutsideGridError := mk_gotms fo_fixed _ [(0, mk_gotm 256)] (fun _ => (bl, tr, Some ErrOther)) in
  tms_level fo_fixed t 14 = 26%N /\
  tmsGrid (bbox_extent fo_fixed bl tr) 26 = gRD /\
  gen_FromTileMatrixSet fo_fixed t 14 = Ok (Some (gen_empty_indexT gRD), None) /\
  gen_FromTileMatrixSet fo_fixed tbad 14 = Ok (None, Some ErrOther).
Proof. vm_compute. repeat split; reflexivity. Qed.

From Coq Require Import NArith.
From Texel Require Import Index.GoDeviation Index.ProofsGenDeviation.
From Texel.Gen Require Import DeviationGen.

(** ** tie G2: [pointindex.DeviationStats] REGENERATED from source on this run (gen/DeviationGen.v, translator/deviation.go)
    and the deviation bound of this property stated on the number it returns.

    REGENERATED: the numeric statements of DeviationStats: the two early returns, floatSpanX, floatRes, intRes = XSpan /
    int64(deepestSize) (truncating int64 division, DivZero panic), floatRecalcMaxX, intRecalcMaxX = ToGeomOrd(intRes *
    int64(deepestSize)), deviationInUnits, deviationInPixels; FromTileMatrixSet, ToGeomOrd, Extent.XSpan are the functions
    regenerated in gen/IndexTopGen.v, instantiated at the EXACT reading of float64: [fo_exact lg] (Index/GoDeviation.v:
    carrier Q, field operations, int64(f) = truncation, math.Pow on an integer exponent, math.Log2 = any [lg]).
    MODELLED / TRUSTED: that reading (the rounding of the real binary64 computation is OUTSIDE the theorems: the C03 harness
    compares the reported number with exact rationals at run time); tms20.TileMatrixSet = the view [gotms] (the method
    MatrixBoundingBox is regenerated over Q in TmsAddrGen.v and composed below); the [stats += fmt.Sprintf(..)] statements
    are checked on the AST to build the statistics text only and are dropped (their dereferences of ix are kept).
    [pointindex.IsQuadTree] is not a wrapper: it is the whole function regenerated in gen/QuadTreeGen.v
    (C14_source_tie_isQuadTree: = the model's isQuadTree for every tile matrix set, no hypotheses).

    [deviation_closed bl tr e d] = span - (span_int / 2^d) * 2^d / 10^10: span = the exact x span of the bounding box of
    tile matrix 0, span_int = the x span of its integer image e = the extent of the index, d = the deepest level. *)
Theorem C03_source_tie_deviation_stats :
  forall (lg : Q -> Q) (t : gotms (fo_exact lg) gen_OutsideGridError) (tmid : Z),
  (forall bl tr er, gotms_MatrixBoundingBox t 0 = (bl, tr, Some er) ->
     gen_DeviationStats lg t tmid = DOk (0%Q, 0%Q, Some er)) /\
  (forall bl tr (d : nat), gotms_MatrixBoundingBox t 0 = (bl, tr, None) ->
     tms_level (fo_exact lg) t tmid = N.of_nat d -> (d <= 32)%nat ->
     let e := bbox_extent (fo_exact lg) bl tr in
     eminx e <= emaxx e -> is_i64 (emaxx e - eminx e) ->
     exists U P : Q, gen_DeviationStats lg t tmid = DOk (U, P, None) /\
       (U == deviation_closed bl tr e d)%Q /\
       (P == U / ((fst tr - fst bl) / inject_Z (pow2 d)))%Q).
Proof. exact gen_DeviationStats_spec. Qed.
Print Assumptions C03_source_tie_deviation_stats.

(** the closed form in terms of the grid [tmsGrid e d] the index is built for (C03_source_tie_from_tile_matrix_set):
    deviation * 10^10 = (X - gsize * gres) + (frac tr - frac bl): the first term is EXACTLY the [dev] of
    C03_centre_deviation_bound; [q_frac x] = x * 10^10 - int64(x * 10^10) is what FromGeomOrd truncates away of a corner *)
Theorem C03_deviation_units : forall (lg : Q -> Q) (bl tr : Q * Q) (d : nat),
  let e := bbox_extent (fo_exact lg) bl tr in
  let g := tmsGrid e d in
  (deviation_closed bl tr e d * units_per_one ==
   inject_Z ((emaxx e - eminx e) - gsize g * gres g) + (q_frac (fst tr) - q_frac (fst bl)))%Q.
Proof. exact deviation_closed_units. Qed.
Print Assumptions C03_deviation_units.

Theorem C03_deviation_frac_bounds : forall x : Q,
  (- (1) < q_frac x)%Q /\ (q_frac x < 1)%Q /\ ((0 <= x)%Q -> (0 <= q_frac x)%Q) /\ ((x <= 0)%Q -> (q_frac x <= 0)%Q).
Proof. exact q_frac_bounds. Qed.
Print Assumptions C03_deviation_frac_bounds.

(** THE BOUND on the number the regenerated function returns: for every view of a tile matrix set and deepest id for
    which FromTileMatrixSet succeeds, every level l <= d and pixel k: the distance from the returned x ordinate of pixel
    k (ToGeomOrd of the centroid, read exactly) to the ideal centre bl.x + (k + 1/2) * span / 2^l lies in
    (-1e-10, U + 3.5e-10); when the two corner ordinates are whole numbers of units of 1e-10 ([representable]: true of
    the built-in sets, see the examples) it lies in [0, U + 0.5e-10], and in [0, U] above the deepest level or for an even
    resolution.  The half unit is the one of C03_deviation_bound_refuted; the other 3 units are the truncation of the two
    corners by FromGeomOrd (C03_deviation_negative_example: the reported deviation can even be negative then). *)
Theorem C03_source_tie_deviation_bound :
  forall (lg : Q -> Q) (t : gotms (fo_exact lg) gen_OutsideGridError) (tmid : Z) (bl tr : Q * Q) (d : nat),
  gotms_MatrixBoundingBox t 0 = (bl, tr, None) ->
  tms_level (fo_exact lg) t tmid = N.of_nat d -> (d <= 32)%nat ->
  let e := bbox_extent (fo_exact lg) bl tr in
  let g := tmsGrid e d in
  eminx e <= emaxx e -> is_i64 (emaxx e - eminx e) ->
  exists U P : Q, gen_DeviationStats lg t tmid = DOk (U, P, None) /\
    forall (l : nat) (k y : Z), (l <= d)%nat -> 0 <= k < pow2 l ->
      let dist := (ideal_centre_x bl tr l k - units_of (fst (quadCentroid g l k y)))%Q in
      ((- (1) / units_per_one < dist /\ dist < U + (7 # 2) / units_per_one) /\
       (representable (fst bl) -> representable (fst tr) ->
          0 <= U /\ 0 <= dist /\ dist <= U + (1 # 2) / units_per_one /\
          (((l < d)%nat \/ Z.even (gres g) = true) -> dist <= U)))%Q.
Proof. exact gen_DeviationStats_bounds. Qed.
Print Assumptions C03_source_tie_deviation_bound.

(** sign and zero: for representable corners the reported deviation is (X mod 2^d) units: never negative, and zero
    exactly when the integer span divides evenly into the pixels of the deepest level (the "round" sets) *)
Theorem C03_deviation_sign : forall (lg : Q -> Q) (bl tr : Q * Q) (d : nat),
  let e := bbox_extent (fo_exact lg) bl tr in
  representable (fst bl) -> representable (fst tr) ->
  (deviation_closed bl tr e d * units_per_one == inject_Z ((emaxx e - eminx e) mod pow2 d))%Q /\
  (0 <= deviation_closed bl tr e d)%Q /\
  ((deviation_closed bl tr e d == 0)%Q <-> (pow2 d | emaxx e - eminx e)).
Proof. exact deviation_sign. Qed.
Print Assumptions C03_deviation_sign.

From Texel Require Import Index.GoDeviationView Index.ProofsGenDeviationView Tms.Json Tms.Model.
From Texel.Gen Require Import TmsData TmsAddrGen.

(** the two source ties composed: DeviationStats regenerated, on a tile matrix set of the model read through
    MatrixBoundingBox as REGENERATED in gen/TmsAddrGen.v ([gotms_of_tms], Index/GoDeviationView.v) *)
Theorem C03_source_tie_deviation_stats_tms : forall (lg : Q -> Q) (t : tms) (tmid : Z),
  match gen_MatrixBoundingBox t 0 with
  | Tms.Model.Ok (bl, tr) =>
      forall d : nat, tms_level (fo_exact lg) (gotms_of_tms lg gen_OutsideGridError t) tmid = N.of_nat d -> (d <= 32)%nat ->
        let e := bbox_extent (fo_exact lg) bl tr in
        eminx e <= emaxx e -> is_i64 (emaxx e - eminx e) ->
        exists U P : Q, gen_DeviationStats lg (gotms_of_tms lg _ t) tmid = DOk (U, P, None) /\
          (U == deviation_closed bl tr e d)%Q /\ (P == U / ((fst tr - fst bl) / inject_Z (pow2 d)))%Q
  | Tms.Model.Error => gen_DeviationStats lg (gotms_of_tms lg _ t) tmid = DOk (0%Q, 0%Q, Some ErrOther)
  | _ => True
  end.
Proof. exact gen_DeviationStats_tms. Qed.
Print Assumptions C03_source_tie_deviation_stats_tms.

(** with math.Log2 read exactly ([lg_floor]) the deepest level is id + floor(log2(tile width of matrix 0)) + 4 *)
Theorem C03_source_tie_deviation_level : forall (E : Type) (t : gotms (fo_exact lg_floor) E) (tmid : Z),
  0 <= tmid < 2 ^ 32 -> (tms_root_width t < 2 ^ 64)%N ->
  tms_level (fo_exact lg_floor) t tmid = (Z.to_N tmid + N.log2 (tms_root_width t) + 4)%N.
Proof. exact (@tms_level_lg_floor). Qed.
Print Assumptions C03_source_tie_deviation_level.

(** IsQuadTree and the y axis.  DeviationStats measures the x span only; main.validateTileMatrixSet calls
    pointindex.IsQuadTree first (C03_source_tie_deepest / C14_source_flow).  IsQuadTree is not a wrapper around anything: it
    is the function regenerated whole in gen/QuadTreeGen.v ([gen_isQuadTree], = the model's isQuadTree for every set:
    C14_source_tie_isQuadTree).  When it accepts, the bounding box of tile matrix 0 computed by the regenerated
    MatrixBoundingBox is square in exact arithmetic, so the number reported for x is the deviation of y as well, up to the
    truncation of the corners (C03_centre_deviation_bound_y asks for equal INTEGER spans) *)
From Texel.Gen Require Import QuadTreeGen.
Theorem C03_source_tie_quadtree_square_bbox : forall (t : tms) (bl tr : Q * Q),
  gen_isQuadTree t = Accept -> gen_MatrixBoundingBox t 0 = Tms.Model.Ok (bl, tr) ->
  (snd tr - snd bl == fst tr - fst bl)%Q.
Proof. exact quadtree_bbox_square. Qed.
Print Assumptions C03_source_tie_quadtree_square_bbox.

(** the built-in WebMercatorQuad (gen/TmsData.v), deepest tile matrix 14 (level 26): corners (-20037508.3427892,
    20037508.342789296) are whole numbers of units, resolution 0.5971642834 (even), the regenerated DeviationStats
    returns 102157/19531250 = 0.0052304384 units (0.00876 pixels), and the bound is NEARLY ATTAINED: the last pixel of
    the deepest level is at distance deviation * (1 - 2^-27) from its ideal centre *)
Example C03_deviation_example_WebMercatorQuad :
  exists t bl tr, decodeTMS gen_doc_WebMercatorQuad = Tms.Model.Ok t /\ gen_MatrixBoundingBox t 0 = Tms.Model.Ok (bl, tr) /\
    let v := gotms_of_tms lg_floor gen_OutsideGridError t in
    let e := bbox_extent (fo_exact lg_floor) bl tr in
    tms_level (fo_exact lg_floor) v 14 = 26%N /\
    representable (fst bl) /\ representable (fst tr) /\
    eminx e <= emaxx e /\ is_i64 (emaxx e - eminx e) /\ gres (tmsGrid e 26) = 5971642834 /\
    exists U P, gen_DeviationStats lg_floor v 14 = DOk (U, P, None) /\
      (U == 102157 # 19531250)%Q /\
      let dist := (ideal_centre_x bl tr 26 (2 ^ 26 - 1) - units_of (fst (quadCentroid (tmsGrid e 26) 26 (2 ^ 26 - 1) 0)))%Q in
      (dist == U * (1 - (1 # 2 ^ 27)))%Q.
Proof.
  destruct (decodeTMS gen_doc_WebMercatorQuad) as [t | | |] eqn:Ht; try (vm_compute in Ht; discriminate).
  destruct (gen_MatrixBoundingBox t 0) as [[bl tr] | | |] eqn:Hb;
    try (vm_compute in Ht; injection Ht as <-; vm_compute in Hb; discriminate).
  exists t, bl, tr. split; [reflexivity |]. split; [exact Hb |].
  vm_compute in Ht. injection Ht as <-. vm_compute in Hb. injection Hb as <- <-.
  cbv zeta. split; [vm_compute; reflexivity |].
  split; [vm_compute; reflexivity |]. split; [vm_compute; reflexivity |].
  split; [vm_compute; discriminate |]. split; [vm_compute; split; [discriminate | reflexivity] |].
  split; [vm_compute; reflexivity |].
  eexists. eexists. split; [vm_compute; reflexivity |]. split; vm_compute; reflexivity.
Qed.

(** the built-in NetherlandsRDNewQuad, tile matrix 14: a round set, the regenerated DeviationStats returns 0 *)
Example C03_deviation_example_RD :
  exists t, decodeTMS gen_doc_NetherlandsRDNewQuad = Tms.Model.Ok t /\
    exists U P, gen_DeviationStats lg_floor (gotms_of_tms lg_floor gen_OutsideGridError t) 14 = DOk (U, P, None) /\
      (U == 0)%Q /\ (P == 0)%Q.
Proof.
  destruct (decodeTMS gen_doc_NetherlandsRDNewQuad) as [t | | |] eqn:Ht; try (vm_compute in Ht; discriminate).
  exists t. split; [reflexivity |]. vm_compute in Ht. injection Ht as <-.
  eexists. eexists. split; [vm_compute; reflexivity |]. split; vm_compute; reflexivity.
Qed.

(** corners that are NOT whole numbers of units: bounding box (0.00000000005, 0.0256) (origin with 11 decimals, 256 cells
    of 0.0001), tile width 256, tile matrix 0 (level 12).  FromGeomOrd truncates the origin to 0, the integer span 256000000
    divides evenly (resolution 62500), and the reported deviation is NEGATIVE: -0.5e-10 (the real DeviationStats prints
    -0.00000000005 for this set) while pixel 0 is 0.5e-10 * (1 - 2^-13) from its ideal centre.  So without representable
    corners the reported number alone does not bound the distance; the constants of C03_source_tie_deviation_bound cover it. *)
Example C03_deviation_negative_example :
  let bl : Q * Q := (5 # 100000000000, 5 # 100000000000)%Q in
  let tr : Q * Q := (256 # 10000, 256 # 10000)%Q in
  let t : gotms (fo_exact lg_floor) gen_OutsideGridError := mk_gotms (fo_exact lg_floor) _ [(0, mk_gotm 256)] (fun _ => (bl, tr, None)) in
  let e := bbox_extent (fo_exact lg_floor) bl tr in
  tms_level (fo_exact lg_floor) t 0 = 12%N /\ ~ representable (fst bl) /\
  exists U P, gen_DeviationStats lg_floor t 0 = DOk (U, P, None) /\
    (U == - (5 # 100000000000))%Q /\
    (ideal_centre_x bl tr 12 0 - units_of (fst (quadCentroid (tmsGrid e 12) 12 0 0)) == (5 # 100000000000) + (1 # 8192) * U)%Q.
Proof.
  cbv zeta. split; [vm_compute; reflexivity |]. split; [intro H; vm_compute in H; discriminate |].
  eexists. eexists. split; [vm_compute; reflexivity |]. split; vm_compute; reflexivity.
Qed.

(** the panics of the real function are in the regenerated one: deepest level 64 (WebMercatorQuad id 52, the shape of F12:
    validateTileMatrixSet now rejects an id that is not in the set first) divides by zero inside FromTileMatrixSet *)
Example C03_deviation_stats_divzero_example :
  exists t, decodeTMS gen_doc_WebMercatorQuad = Tms.Model.Ok t /\
    gen_DeviationStats lg_floor (gotms_of_tms lg_floor gen_OutsideGridError t) 52 = DPanic (PanicErr DivZero).
Proof.
  destruct (decodeTMS gen_doc_WebMercatorQuad) as [t | | |] eqn:Ht; try (vm_compute in Ht; discriminate).
  exists t. split; [reflexivity |]. vm_compute in Ht. injection Ht as <-. vm_compute. reflexivity.
Qed.

(** a pixel below the tool's unit: bounding box (0, 0.000000026), tile width 256, tile matrix 0 (level 12): the integer
    span 260 is below 2^12, the resolution is 0, the reported deviation is the whole span (4096 pixels: validation only
    logs a warning) -- and snapping then divides by the resolution 0 (InsertPoint -> floorDiv; reproduced on the real code:
    see the agent's report; the theorems of this property about the points of a grid carry 0 < gres g) *)
Example C03_deviation_zero_resolution_example :
  let bl : Q * Q := (0, 0)%Q in
  let tr : Q * Q := (26 # 1000000000, 26 # 1000000000)%Q in
  let t : gotms (fo_exact lg_floor) gen_OutsideGridError := mk_gotms (fo_exact lg_floor) _ [(0, mk_gotm 256)] (fun _ => (bl, tr, None)) in
  gres (tmsGrid (bbox_extent (fo_exact lg_floor) bl tr) 12) = 0 /\
  exists U P, gen_DeviationStats lg_floor t 0 = DOk (U, P, None) /\ (U == 26 # 1000000000)%Q /\ (P == 4096)%Q /\
    gen_floorDiv64 (fo_exact lg_floor) 1 (gres (tmsGrid (bbox_extent (fo_exact lg_floor) bl tr) 12)) = Err DivZero.
Proof.
  cbv zeta. split; [vm_compute; reflexivity |].
  eexists. eexists. split; [vm_compute; reflexivity |]. repeat split; vm_compute; reflexivity.
Qed.
