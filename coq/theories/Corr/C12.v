(** * Correspondence for C12: the model's abstract database against what was read back from a file
      written by the real TargetGeopackage (harness_gpkg/c12.go).

    A case = the tables CreateTables was called with, the page size, the sequence of WriteFeatures
    calls (table name + stream), and what the harness read back from the file afterwards with
    database/sql.  [check] runs the model on the input and compares, per table: ordered rows (cells in
    table column order: attribute values; geometry as type + coordinates + shape digest), the
    gpkg_contents extent, the rtree entries (as row positions), and per file: the table descriptions
    (PRAGMA table_info + gpkg_contents + gpkg_geometry_columns), the gpkg_spatial_ref_sys rows, and the
    number of file-modifying transactions (SQLite file change counter).

    Projection notes.  The model does not model primary key assignment: rtree ids are mapped by the
    harness to the position of the row with that key (rows ORDER BY rowid = the order the table stores
    them in, which is NOT the key order when the key is no rowid alias: INT / TEXT PRIMARY KEY) and listed
    in the order of these positions; a NULL primary key in the input stays [VNull] in the observation when
    the file holds the expected auto-assigned key.  A time.Time attribute (column declared DATE / DATETIME /
    TIMESTAMP) is [VTime ns]: the instant in nanoseconds; the harness reads the cell raw (the driver's text
    layout) and parses it.  Every attribute cell is read raw together with SQLite's typeof: a TEXT cell is
    [VText id], a BLOB cell [VBlob id] (ids of the harness's text / blob pools; the 16-digit texts of a TEXT
    primary key have ids from 2000000).  A Go bool in a feature (what ReadFeatures delivers for a BOOLEAN cell)
    is printed as the integer the driver binds it as, [VInt 1] / [VInt 0], and the target cell must hold
    that integer.  In the via-source cases the features the real writer received came from the real
    ReadFeatures on a source holding these rows. *)
From Coq Require Import ZArith NArith List Bool String.
From Texel Require Import Prelude.Corr.
From Texel Require Export Gpkg.Model.
Import ListNotations.
Open Scope Z_scope.

Definition pt_eqb (a b : pt) : bool := Z.eqb (fst a) (fst b) && Z.eqb (snd a) (snd b).

Definition geom_eqb (a b : geom) : bool :=
  N.eqb (g_kind a) (g_kind b) && list_eqb pt_eqb (g_pts a) (g_pts b) && N.eqb (g_id a) (g_id b).

Definition cell_eqb (a b : cell) : bool :=
  match a, b with
  | CVal x, CVal y => value_eqb x y
  | CGeom x, CGeom y => geom_eqb x y
  | _, _ => false
  end.

Definition rtree_eqb (a b : N * ext) : bool := N.eqb (fst a) (fst b) && ext_eqb (snd a) (snd b).

(** what was read back for one table *)
Record otable := MkOTable {
  o_name : string;
  o_rows : list row;
  o_extent : option ext;
  o_rtree : list (N * ext)
}.

Record case := MkCase {
  k_p : Z;
  k_tables : list table;                       (* CreateTables argument, in order *)
  k_calls : list (string * list feature);      (* WriteFeatures calls in order: Table.Name, stream *)
  k_otables : list otable;                     (* observed, in the order of k_tables *)
  k_odescs : list tabdesc;                     (* observed, in gpkg_contents rowid order *)
  k_osrs : list srs;                           (* observed rows of gpkg_spatial_ref_sys *)
  k_owrites : N                                (* observed file change counter delta over all calls *)
}.

Fixpoint find_table (n : string) (l : list table) : option table :=
  match l with
  | [] => None
  | t :: r => if String.eqb (t_name t) n then Some t else find_table n r
  end.

Definition run_calls (p : Z) (tables : list table) (calls : list (string * list feature)) (d : db) : res db :=
  foldM (fun d c => match find_table (fst c) tables with
                    | Some t => write_features p t d (snd c)
                    | None => Err NoSuchTable
                    end) calls d.

Definition otable_ok (d : db) (o : otable) : bool :=
  match find_tab (o_name o) (db_tabs d) with
  | None => false
  | Some ts =>
      list_eqb (list_eqb cell_eqb) (ts_rows ts) (o_rows o) &&
      option_eqb ext_eqb (ts_extent ts) (o_extent o) &&
      list_eqb rtree_eqb (ts_rtree ts) (o_rtree o)
  end.

Definition srs_ok (d : db) (s : srs) : bool :=
  match find_srs (s_id s) (db_srs d) with Some s' => srs_eqb s s' | None => false end.

Definition check (c : case) : bool :=
  match create_tables empty_db (k_tables c) with
  | Err _ => false
  | Ok d0 =>
      match run_calls (k_p c) (k_tables c) (k_calls c) d0 with
      | Err _ => false
      | Ok d =>
          Nat.eqb (List.length (k_otables c)) (List.length (k_tables c)) &&
          forallb (otable_ok d) (k_otables c) &&
          list_eqb desc_eqb (map ts_desc (db_tabs d)) (k_odescs c) &&
          Nat.eqb (List.length (db_srs d)) (List.length (k_osrs c)) &&
          forallb (srs_ok d) (k_osrs c) &&
          N.eqb (db_writes d) (k_owrites c)
      end
  end.

Definition mismatches (l : list case) : list N := mismatches_from check 0 l.
