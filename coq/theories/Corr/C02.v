(** Correspondence for C02: (a) single segments against arbitrary hot sets through
    pointindex.snapClosestPoints, (b) whole polygons (shared snap case, exact comparison). *)
From Coq Require Import ZArith List Bool.
From Texel Require Export Prelude.Base Prelude.Corr Index.Model Snap.Model Corr.SnapCase.
Import ListNotations.
Open Scope Z_scope.

Inductive case :=
| RouteCase (g : grid) (verts : list pt) (a b : pt) (L : nat) (obs : list pt)
| LineCase (a b : pt) (e : extent) (obs : bool)
| PolyCase (c : snapcase).

Definition check (c : case) : bool :=
  match c with
  | RouteCase g verts a b L obs =>
      match insertPolygon g [verts] with
      | Ok hs => list_eqb pt_eqb (snapClosestPoints g (hotLevels g hs) a b L) obs
      | Err _ => false
      end
  | LineCase a b e obs => Bool.eqb (lineIntersects a b e) obs
  | PolyCase sc => check_exact sc
  end.

Definition mismatches (l : list case) : list N := mismatches_from check 0 l.
