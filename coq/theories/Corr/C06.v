From Coq Require Import ZArith List.
From Texel Require Export Prelude.Base Prelude.Corr Index.Model Snap.Model Corr.SnapCase.
Definition case := snapcase.
Definition mismatches (l : list case) : list N := mismatches_from check_exact 0 l.
