(** Shared correspondence case for the snapping core: one call of snap.SnapPolygon on an
    integer polygon, with what the implementation returned (pixel centres mapped back to
    integers by the harness, levels ascending).  Each property compares its own projection. *)
From Coq Require Import ZArith List Bool.
From Texel Require Import Prelude.Base Prelude.Corr Index.Model Snap.Model Snap.ModelFull.
Import ListNotations.
Open Scope Z_scope.

Inductive obs_err := OErr (e : err) | OtherPanic.
Coercion OErr : err >-> obs_err.

Inductive observed :=
| ObsOk (r : list (nat * list polygon))
| ObsOkFloat (r : list (nat * list polygon))   (* observed on a grid whose pixel centres are not exact floats (real tile
     matrix sets, decimal synthetic grids): the float signs of areas and the float order of equal areas are outside
     the model (DESIGN 4.2), so ring direction, role, nesting and order are NOT compared; the undirected edges are *)
| ObsPanic (e : obs_err).

Record snapcase := SnapCase {
  sc_grid : grid; sc_poly : list ring; sc_levels : list nat; sc_cfg : config; sc_obs : observed }.

(* the model including the Morton-key limit (F11); equal to [snapPolygon] for deepest levels <= 32
   (Snap/ProofsFull.v: snapPolygonFull_eq) *)
Definition run (c : snapcase) : res (list (nat * list polygon)) :=
  snapPolygonFull (sc_grid c) (sc_poly c) (sc_levels c) (sc_cfg c).

Definition level_eqb (a b : nat * list polygon) : bool := Nat.eqb (fst a) (fst b) && polys_eqb (snd a) (snd b).

(** ** projections *)

(** sorted list of points *)
Definition pt_leb (p q : pt) : bool := (fst p <? fst q) || ((fst p =? fst q) && (snd p <=? snd q)).
Fixpoint ins_pt (p : pt) (l : list pt) : list pt :=
  match l with [] => [p] | q :: r => if pt_leb p q then p :: l else q :: ins_pt p r end.
Definition sort_pts (l : list pt) : list pt := fold_right ins_pt [] l.

(** coordinate multiset per level (C03, C04 clause 1) *)
Definition proj_points (r : list (nat * list polygon)) : list (nat * list pt) :=
  map (fun lp => (fst lp, sort_pts (concat (concat (snd lp))))) r.
Definition eq_points (a b : list (nat * list pt)) : bool :=
  list_eqb (fun x y => Nat.eqb (fst x) (fst y) && list_eqb pt_eqb (snd x) (snd y)) a b.

(** undirected edge multiset per level (C01, C04, C18) *)
Definition edge := (pt * pt)%type.
Definition norm_edge (a b : pt) : edge := if pt_leb a b then (a, b) else (b, a).
Definition edge_leb (e f : edge) : bool :=
  if pt_eqb (fst e) (fst f) then pt_leb (snd e) (snd f) else pt_leb (fst e) (fst f).
Definition edge_eqb (e f : edge) : bool := pt_eqb (fst e) (fst f) && pt_eqb (snd e) (snd f).
Fixpoint ins_edge (e : edge) (l : list edge) : list edge :=
  match l with [] => [e] | f :: r => if edge_leb e f then e :: l else f :: ins_edge e r end.
Fixpoint ring_edges_from (first prev : pt) (l : list pt) : list edge :=
  match l with
  | [] => [norm_edge prev first]
  | p :: r => norm_edge prev p :: ring_edges_from first p r
  end.
Definition ring_edges (r : ring) : list edge :=
  match r with
  | [] | [_] => []
  | [a; b] => [norm_edge a b]
  | a :: rest => ring_edges_from a a rest
  end.
Definition proj_edges (r : list (nat * list polygon)) : list (nat * list edge) :=
  map (fun lp => (fst lp, fold_right ins_edge [] (flat_map ring_edges (concat (snd lp))))) r.
Definition eq_edges (a b : list (nat * list edge)) : bool :=
  list_eqb (fun x y => Nat.eqb (fst x) (fst y) && list_eqb edge_eqb (snd x) (snd y)) a b.

(** ring structure (C05): per level, per polygon, per ring:
    (length, sign of doubled area, repeats a vertex?, equal neighbours / closing vertex repeated?) *)
Fixpoint has_dup (l : list pt) : bool :=
  match l with [] => false | p :: r => mem_pt p r || has_dup r end.
Definition ring_shape (r : ring) : Z * Z * bool :=
  (zlen r, Z.sgn (xprod r), has_dup r).
Definition shape_eqb (a b : Z * Z * bool) : bool :=
  let '(l1, s1, d1) := a in let '(l2, s2, d2) := b in (l1 =? l2) && (s1 =? s2) && Bool.eqb d1 d2.
Definition proj_shape (r : list (nat * list polygon)) : list (nat * list (list (Z * Z * bool))) :=
  map (fun lp => (fst lp, map (map ring_shape) (snd lp))) r.
Definition eq_shape (a b : list (nat * list (list (Z * Z * bool)))) : bool :=
  list_eqb (fun x y => Nat.eqb (fst x) (fst y) && list_eqb (list_eqb shape_eqb) (snd x) (snd y)) a b.

(** ring nesting (C04 clause 3, C18): per level, per polygon, per ring the sorted undirected edges —
    invariant under rotation and direction of a ring, but keeps which hole belongs to which shell *)
Definition proj_nesting (r : list (nat * list polygon)) : list (nat * list (list (list edge))) :=
  map (fun lp => (fst lp, map (map (fun rg => fold_right ins_edge [] (ring_edges rg))) (snd lp))) r.
Definition eq_nesting (a b : list (nat * list (list (list edge)))) : bool :=
  list_eqb (fun x y => Nat.eqb (fst x) (fst y) && list_eqb (list_eqb (list_eqb edge_eqb)) (snd x) (snd y)) a b.

(** ** the comparisons *)

(** strictest comparison: identical result, identical panic kind *)
Definition check_exact (c : snapcase) : bool :=
  match run c, sc_obs c with
  | Ok r, ObsOk o => list_eqb level_eqb r o
  | Ok r, ObsOkFloat o => eq_edges (proj_edges r) (proj_edges o)
  | Err e, ObsPanic (OErr e') => err_eqb e e'
  | _, _ => false
  end.

(** {ok, panic kind} only (C06, C09) *)
Definition check_outcome (c : snapcase) : bool :=
  match run c, sc_obs c with
  | Ok r, ObsOk o | Ok r, ObsOkFloat o => Bool.eqb (match r with [] => true | _ => false end) (match o with [] => true | _ => false end)
  | Err e, ObsPanic (OErr e') => err_eqb e e'
  | _, _ => false
  end.

(** generic: compare a projection of the successful results, panic kinds exactly *)
Definition check_proj {A} (proj : list (nat * list polygon) -> A) (eqb : A -> A -> bool) (c : snapcase) : bool :=
  match run c, sc_obs c with
  | Ok r, ObsOk o => eqb (proj r) (proj o)
  | Ok r, ObsOkFloat o => eq_edges (proj_edges r) (proj_edges o)
  | Err e, ObsPanic (OErr e') => err_eqb e e'
  | _, _ => false
  end.

