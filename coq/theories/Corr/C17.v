(** Correspondence cases for package morton (tie H beside tie G). *)
From Coq Require Import NArith List Bool.
From Texel Require Import Prelude.Corr Bits.Bexpr Bits.Morton.
Import ListNotations.
Open Scope N_scope.

Inductive case :=
| ToZCase (x y z : N) (ok : bool)
| FromZCase (z x y : N).

Definition check (c : case) : bool :=
  match c with
  | ToZCase x y z ok => let '(z', ok') := toZ x y in N.eqb z z' && Bool.eqb ok ok'
  | FromZCase z x y => let '(x', y') := fromZ z in N.eqb x x' && N.eqb y y'
  end.

Definition mismatches (l : list case) : list N := mismatches_from check 0 l.
