(** Correspondence cases for package morton (tie H beside tie G). *)
From Coq Require Import NArith List Bool.
From Texel Require Import Prelude.Corr Bits.Bexpr Bits.Morton.
Import ListNotations.
Open Scope N_scope.

Inductive case :=
| ToZCase (x y z : N) (ok : bool)
| FromZCase (z x y : N)
| QuadCase (z : N) (obs : option (list N)).   (* pointindex.getQuadrantZs: the four keys, or None = panic *)

Fixpoint all_some (l : list (option N)) : option (list N) :=
  match l with
  | [] => Some []
  | Some a :: t => match all_some t with Some r => Some (a :: r) | None => None end
  | None :: _ => None
  end.

Definition optlist_eqb (a b : option (list N)) : bool :=
  match a, b with
  | None, None => true
  | Some x, Some y => Nat.eqb (length x) (length y) && forallb (fun p => N.eqb (fst p) (snd p)) (combine x y)
  | _, _ => false
  end.

Definition check (c : case) : bool :=
  match c with
  | ToZCase x y z ok => let '(z', ok') := toZ x y in N.eqb z z' && Bool.eqb ok ok'
  | FromZCase z x y => let '(x', y') := fromZ z in N.eqb x x' && N.eqb y y'
  | QuadCase z obs => optlist_eqb (all_some (getQuadrantZs z)) obs
  end.

Definition mismatches (l : list case) : list N := mismatches_from check 0 l.
