(** Correspondence cases for C16: json.Unmarshal / json.Marshal of tms20.TileMatrixSet against
    [decodeTMS] / [encodeTMS].  A case is a document and what the implementation did with it:
    an error, a panic, or the JSON it printed for the decoded value.  Projection: the kind of
    outcome, and for accepted documents the printed tree with numbers compared by their binary64
    image (member order included: it is the order encoding/json prints). *)
From Coq Require Import ZArith NArith List String Bool.
From Texel Require Import Prelude.Corr Tms.Model.
From Texel Require Export Tms.Json.
From Texel.Gen Require Import TmsData.
Import ListNotations.
Open Scope Z_scope.

Inductive docref :=
| DLit (j : json)            (* the document itself *)
| DGen (name : string).      (* a built-in document, taken from the regenerated TmsData.v *)

Inductive observed :=
| ObsError
| ObsPanic
| ObsOk (printed : json).

Inductive case := MkCase (d : docref) (o : observed).

Fixpoint find_doc (name : string) (l : list (string * json)) : option json :=
  match l with
  | [] => None
  | (n, j) :: r => if String.eqb n name then Some j else find_doc name r
  end.

Definition check (c : case) : bool :=
  let '(MkCase d o) := c in
  match match d with DLit j => Some j | DGen n => find_doc n gen_tms_documents end with
  | None => false
  | Some j =>
      match decodeTMS j, o with
      | Ok v, ObsOk p => json_feqb (encodeTMS v) p
      | Error, ObsError => true
      | Panic, ObsPanic => true
      | ErrorOrPanic, ObsError | ErrorOrPanic, ObsPanic => true
      | _, _ => false
      end
  end.

Definition mismatches (l : list case) : list N := mismatches_from check 0 l.
