(** Correspondence for C07: whole SnapPolygon calls (shared snap case, compared on the observables C07 is about)
    and component-level calls through the verif hook (Corr/Components.v). *)
From Coq Require Import ZArith List.
From Texel Require Export Prelude.Base Prelude.Corr Index.Model Snap.Model Corr.SnapCase Corr.Components.
Inductive case := SnapC (c : snapcase) | Comp (c : compcase).
Definition check (k : case) : bool :=
  match k with
  | SnapC c => check_exact c
  | Comp c => check_comp c
  end.
Definition mismatches (l : list case) : list N := mismatches_from check 0 l.
