(** * Correspondence for C13: the model CLI against the REAL texel binary (harness_gpkg/c13.go).

    [RunCase]: command line (target path, ids, flags), the source tables with their features and — as
    the oracle function for the Snap/Pipe variables — what the LIBRARY (snap.SnapPolygon + the fan-out
    rule, called by the harness on the same features under the configuration [k_cfg]) delivers per tile
    matrix; pre-existing target files (as the streams they were written from); and what the binary
    left behind: exit status, the GeoPackage files in the target directory, per file per table the rows
    in rowid order.  [check] runs [cli_run] (Cli/Model.v instantiated by Cli/Ref.v) and compares exit
    status, the set of files, and the rows (projection: attribute values + geometry type and shape
    digest; extents / rtree / schema are C12's and are compared there).

    [k_ids] is the -tilematrices list AS GIVEN: it may name an id more than once ("[6,5,6]"); the model
    opens one target per distinct id ([distinct_ids], Cli/Model.v), the library's recorded results
    ([rf_out]) are keyed by the distinct ids.  A date/time cell (column declared DATE / DATETIME /
    TIMESTAMP) is [VTime ns], the instant in nanoseconds since the Unix epoch: the harness writes the
    source value as ISO 8601 text, reads the target cell raw and parses it, so a change of the text
    layout (the driver's) is no difference and a change of the instant is one.  Every attribute cell is
    read raw together with SQLite's typeof: TEXT = [VText id], BLOB = [VBlob id] (distinct values also for
    the same bytes), the integer 0 / 1 of a BOOLEAN column = [VInt 0] / [VInt 1] (the Go bool in between is
    the integer the driver binds it as).  Rows are observed in the order the target table stores them
    (ORDER BY rowid), which must be the source's stored order -- not the key order, when the key is no
    rowid alias.

    [PathCase]: injectSuffixIntoPath recomputed by the harness with Go's packages strings (ReplaceAll), path
    (Split, Ext, Join) + fmt.Sprintf on arbitrary paths (also unclean ones: "a//b/../x.y"; with '%', "%v", "%%",
    "%20", glob metacharacters) against [inject].

    [FmtCase]: Go's fmt.Sprintf(format, id) on arbitrary formats over plain characters, '%', "%%", "%v" and verbs that
    do not exist ("%_", "%/", "%k"): where the model [sprintf_v] gives a text, Go gives the same text; where the model
    says "outside" ([None]), Go's output carries an error marker "%!" ([marker]) -- on this alphabet (no flags, widths or
    other valid verbs) the domain of the model is exactly the set of formats Go prints without complaint. *)
From Coq Require Import ZArith NArith List Bool String Ascii.
From Texel Require Import Prelude.Corr.
From Texel Require Export Gpkg.Model Cli.Model Cli.Ref.
Import ListNotations.
Open Scope Z_scope.

Definition pt_eqb (a b : pt) : bool := Z.eqb (fst a) (fst b) && Z.eqb (snd a) (snd b).
Definition geom_eqb (a b : geom) : bool :=
  N.eqb (g_kind a) (g_kind b) && list_eqb pt_eqb (g_pts a) (g_pts b) && N.eqb (g_id a) (g_id b).
Definition cell_eqb (a b : cell) : bool :=
  match a, b with
  | CVal x, CVal y => value_eqb x y
  | CGeom x, CGeom y => geom_eqb x y
  | _, _ => false
  end.

(** a pre-existing file: the tables it was created with and the stream written to each (page size 1000) *)
Definition prefile := (string * list (table * list feature))%type.

Definition build_pre (p : prefile) : option (str * db) :=
  match create_tables empty_db (map fst (snd p)) with
  | Err _ => None
  | Ok d0 =>
      match foldM (fun d (tf : table * list feature) => write_features 1000 (fst tf) d (snd tf)) (snd p) d0 with
      | Ok d => Some (s_ (fst p), d)
      | Err _ => None
      end
  end.

Fixpoint build_fs (l : list prefile) : option fsys :=
  match l with
  | [] => Some []
  | p :: r => match build_pre p, build_fs r with
              | Some x, Some fs => Some (x :: fs)
              | _, _ => None
              end
  end.

(** observed: a file and, per table in gpkg_contents order, its rows *)
Definition ofile := (string * list (string * list row))%type.

Inductive case :=
| RunCase (k_target : string) (k_ids : list Z) (k_flags : flags) (k_cfg : snapcfg) (k_tms_ok : bool)
          (k_src : option (list (table * list rfeat))) (k_pre : list prefile)
          (k_exit_ok : bool) (k_files : list ofile)
| PathCase (p : string) (id : Z) (r : string)
| FmtCase (f : string) (id : Z) (r : string) (marker : bool).

Definition table_rows_ok (d : db) (o : string * list row) : bool :=
  match find_tab (fst o) (db_tabs d) with
  | Some ts => list_eqb (list_eqb cell_eqb) (ts_rows ts) (snd o)
  | None => false
  end.

Definition ofile_ok (fs : fsys) (o : ofile) : bool :=
  match fs_lookup (s_ (fst o)) fs with
  | Some d => Nat.eqb (List.length (db_tabs d)) (List.length (snd o)) && forallb (table_rows_ok d) (snd o)
  | None => false
  end.

(** every file of the model's final file system was observed (no file missing) *)
Fixpoint paths_of (fs : fsys) (seen : list str) : list str :=
  match fs with
  | [] => []
  | (p, _) :: r => if existsb (str_eqb p) seen then paths_of r seen else p :: paths_of r (p :: seen)
  end.

Definition check (c : case) : bool :=
  match c with
  | PathCase p id r =>
      match inject (s_ p) id with Some x => str_eqb x (s_ r) | None => false end
  | FmtCase f id r marker =>
      match sprintf_v (s_ f) id with Some x => str_eqb x (s_ r) && negb marker | None => marker end
  | RunCase tgt ids fl cfg tms_ok src pre exit_ok files =>
      match build_fs pre with
      | None => false
      | Some fs0 =>
          match ref_cli_run cfg (MkArgs tms_ok src (s_ tgt) ids fl) fs0 with
          | CErr _ => negb exit_ok
          | COk fs' =>
              exit_ok && forallb (ofile_ok fs') files &&
              Nat.eqb (List.length (paths_of fs' [])) (List.length files)
          end
      end
  end.

Definition mismatches (l : list case) : list N := mismatches_from check 0 l.
