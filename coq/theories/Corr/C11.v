(** Correspondence cases for C11: same case type as C10; [check] runs the full monitor derived from the
    transition system on the recorded history: per target exactly the expected sequence (no drop,
    duplicate, reorder), each target finishes exactly once and after its last feature, the return is
    the last event and comes after every finish.  An incomplete history (the watchdog fired) is
    rejected. *)
From Coq Require Import ZArith NArith List Bool.
From Texel Require Import Prelude.Corr.
From Texel Require Export Pipe.Model.
Import ListNotations.
Open Scope Z_scope.

Inductive case := MkCase (targets : list Z) (src : list feature) (hist : list event).

Definition FP (id : N) (o : outcome) : feature := MkFeature id (KPolygon o).
Definition FM (id : N) (parts : list outcome) : feature := MkFeature id (KMulti parts).
Definition FO (id : N) : feature := MkFeature id KOther.
Definition R (tm : Z) (id : N) (g : geom) : event := ERecv tm (id, g).
Definition F (tm : Z) : event := EFinish tm.
Definition RET : event := EReturn.

Definition check (c : case) : bool :=
  match c with
  | MkCase ts src h => let cfg := MkConfig ts src in wf_configb cfg && accepts cfg h
  end.

Definition mismatches (l : list case) : list N := mismatches_from check 0 l.
