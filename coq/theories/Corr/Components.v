(** Component-level correspondence for snap.go through the verif hook: dedupeInnersOuters (with
    mapslicehelp.DeleteFromSliceByIndex), matchInnersToPolygons, splitRing, ringContains on directly generated
    arguments — states that the end-to-end generators reach only rarely (several equal rings, ties in matching). *)
From Coq Require Import ZArith List Bool.
From Texel Require Import Prelude.Base Prelude.Corr Index.Model Snap.Model Corr.SnapCase.
Import ListNotations.
Open Scope Z_scope.

Inductive robs (A : Type) := ROk (a : A) | RPanic (e : obs_err).
Arguments ROk {A} a.
Arguments RPanic {A} e.

Inductive compcase :=
| DedupeCase (outs ins : list ring) (obs : robs (list ring * list ring))
| MatchCase (polys : list polygon) (ins : list ring) (obs : robs (list polygon))
| SplitCase (r : ring) (isOuter : bool) (flags : list pt) (obs : robs (list ring * list ring * list ring))
| ContainsCase (r : ring) (p : pt) (obs : robs (bool * bool)).

Definition cmp {A} (eqb : A -> A -> bool) (m : res A) (o : robs A) : bool :=
  match m, o with
  | Ok a, ROk b => eqb a b
  | Err e, RPanic (OErr e') => err_eqb e e'
  | _, _ => false
  end.

Definition check_comp (c : compcase) : bool :=
  match c with
  | DedupeCase outs ins obs =>
      cmp (fun a b => rings_eqb (fst a) (fst b) && rings_eqb (snd a) (snd b)) (dedupeInnersOuters outs ins) obs
  | MatchCase polys ins obs => cmp polys_eqb (matchInnersToPolygons polys ins) obs
  | SplitCase r isOuter flags obs =>
      cmp (fun a b => let '(o1, i1, p1) := a in let '(o2, i2, p2) := b in
                      rings_eqb o1 o2 && rings_eqb i1 i2 && rings_eqb p1 p2)
          (match splitRing r isOuter (fun p => mem_pt p flags) with
           | Ok s => Ok (outers s, inners s, pointsAndLines s)
           | Err e => Err e
           end) obs
  | ContainsCase r p obs => cmp (fun a b => Bool.eqb (fst a) (fst b) && Bool.eqb (snd a) (snd b)) (ringContains r p) obs
  end.
