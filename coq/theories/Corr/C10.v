(** Correspondence cases for C10: a configuration (targets in the order of the tmIDs slice, the stream
    with the outcome table the fake processPolygonFunc was driven by) and the history recorded by the
    fake targets on the real processing.ProcessFeatures.

    [check]: the configuration is inside the contract, and — projected to what C10 is about — every
    target's recorded sequence equals the model's expected sequence and no event names a non-target.
    (Finish/return placement is C11's projection, see Corr/C11.v.)  By [C10_recv_ok_sound] this is the
    C10 statement on that history; by [C10_trace_accepted]/[C10_accepted_complete_ok] every history the
    model can produce passes. *)
From Coq Require Import ZArith NArith List Bool.
From Texel Require Import Prelude.Corr.
From Texel Require Export Pipe.Model.
Import ListNotations.
Open Scope Z_scope.

Inductive case := MkCase (targets : list Z) (src : list feature) (hist : list event).

(** short constructors for the case files *)
Definition FP (id : N) (o : outcome) : feature := MkFeature id (KPolygon o).
Definition FM (id : N) (parts : list outcome) : feature := MkFeature id (KMulti parts).
Definition FO (id : N) : feature := MkFeature id KOther.
Definition R (tm : Z) (id : N) (g : geom) : event := ERecv tm (id, g).
Definition F (tm : Z) : event := EFinish tm.
Definition RET : event := EReturn.

Definition check (c : case) : bool :=
  match c with
  | MkCase ts src h => let cfg := MkConfig ts src in wf_configb cfg && recv_ok cfg h
  end.

Definition mismatches (l : list case) : list N := mismatches_from check 0 l.
