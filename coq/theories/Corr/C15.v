(** Correspondence cases for C15: tms20.TileMatrixSet.FromNative / ToNative / MatrixBoundingBox
    against the model over exact rationals.  Points are the exact values of the float64 pairs
    handed to the implementation (chosen with a margin of at least 1e-6 tile sizes from every tile
    border); tiles are compared exactly, coordinates with tolerance 1e-9 * scale, scale = max(1, |origin x|, |origin y|, matrix width, matrix height)
    (the implementation computes in float64 and rounds to 9 decimals: the stated envelope). *)
From Coq Require Import ZArith NArith QArith List String Bool.
From Texel Require Import Prelude.Corr Tms.Model.
From Texel Require Export Tms.Json.
From Texel.Gen Require Import TmsData.
From Texel Require Import Corr.C14.
Import ListNotations.
Open Scope Z_scope.

Definition mkq (n d : Z) : Q := n # Z.to_pos d.

Inductive setref :=
| SGen (name : string)
| STest (name : string)       (* a document of tms20/testdata *)
| SLit (doc : json).

Inductive case :=
| PointCase (s : setref) (z : Z) (corner : Z) (px py : Q) (obs : option (Z * Z))
    (* FromNative(z, (px, py)); corner: 0 = as in the document, 1 = topLeft, 2 = bottomLeft set on the decoded value *)
| CornerCase (s : setref) (z : Z) (corner : Z) (tx ty : Z) (obs : option (Q * Q))
    (* ToNative(tile) *)
| BBoxCase (s : setref) (z : Z) (corner : Z) (obs : option ((Q * Q) * (Q * Q))).
    (* MatrixBoundingBox(z): (bottomLeft, topRight); None = an error *)

Definition test_sets : list (string * outcome tms) :=
  Eval vm_compute in map (fun d => (fst d, decodeTMS (snd d))) gen_tms_test_documents.

Definition the_set (s : setref) : outcome tms :=
  match s with
  | SGen n => find_set n builtin_sets
  | STest n => find_set n test_sets
  | SLit d => decodeTMS d
  end.

Definition with_corner (t : tms) (z c : Z) : tms :=
  if c =? 0 then t else apply_pert t (PCorner z c).

Definition Qabs' (q : Q) : Q := if Qltb q 0 then (- q)%Q else q.
Definition Qmax' (a b : Q) : Q := if Qltb a b then b else a.
(** scale of a matrix: max(1, |origin x|, |origin y|, width, height) *)
Definition scale_of (t : tms) (z : Z) : Q :=
  match find_tm z (t_matrices t) with
  | Some m =>
      let o := match tm_origin m with Some p => qpoint p | None => (0, 0)%Q end in
      let sz := matrixSizeTM m in
      Qmax' 1 (Qmax' (Qabs' (fst o)) (Qmax' (Qabs' (snd o)) (Qmax' (fst sz) (snd sz))))
  | None => 1
  end.
Definition close (sc a b : Q) : bool := Qle_bool (Qabs' (a - b)) (sc * (1 # 1000000000))%Q.
Definition close2 (sc : Q) (a b : Q * Q) : bool := close sc (fst a) (fst b) && close sc (snd a) (snd b).

Definition opt_tile_eqb (a b : option (Z * Z)) : bool :=
  match a, b with
  | None, None => true
  | Some (x, y), Some (x', y') => (x =? x') && (y =? y')
  | _, _ => false
  end.

Definition check (c : case) : bool :=
  match c with
  | PointCase s z co px py obs =>
      match the_set s with
      | Ok t => match fromNative (with_corner t z co) z (px, py) with
                | Ok r => opt_tile_eqb r obs
                | _ => false
                end
      | _ => false
      end
  | CornerCase s z co tx ty obs =>
      match the_set s with
      | Ok t => match toNative (with_corner t z co) z (tx, ty), obs with
                | Ok (Some p), Some o => close2 (scale_of t z) p o
                | Ok None, None => true
                | _, _ => false
                end
      | _ => false
      end
  | BBoxCase s z co obs =>
      match the_set s with
      | Ok t => match matrixBoundingBox (with_corner t z co) z, obs with
                | Ok (bl, tr), Some (obl, otr) => close2 (scale_of t z) bl obl && close2 (scale_of t z) tr otr
                | Error, None => true
                | _, _ => false
                end
      | _ => false
      end
  end.

Definition mismatches (l : list case) : list N := mismatches_from check 0 l.
