(** Correspondence for C04: whole SnapPolygon calls (shared snap case), compared on the observables C04 is about;
    component level through the verif hook: kmpDeduplicate on chains of pixel centres (exact) and
    dedupe / match / split / ringContains (Corr/Components.v). *)
From Coq Require Import ZArith List Bool.
From Texel Require Export Prelude.Base Prelude.Corr Index.Model Snap.Model Corr.SnapCase Corr.Components.
Import ListNotations.

Inductive kobs := KOk (r : list pt) | KPanic (e : obs_err).

Inductive case :=
| SnapC (c : snapcase)
| KmpCase (r : list pt) (obs : kobs)
| Comp (c : compcase).

Definition check (k : case) : bool :=
  match k with
  | SnapC c => check_proj proj_nesting eq_nesting c && check_proj proj_points eq_points c
  | KmpCase r obs =>
      match kmpDeduplicate r, obs with
      | Ok r', KOk o => ring_eqb r' o
      | Err e, KPanic (OErr e') => err_eqb e e'
      | _, _ => false
      end
  | Comp c => check_comp c
  end.

Definition mismatches (l : list case) : list N := mismatches_from check 0 l.
