(** Correspondence for C04: the shared snap case, compared on the observables C04 is about. *)
From Coq Require Import ZArith List.
From Texel Require Export Prelude.Base Prelude.Corr Index.Model Snap.Model Corr.SnapCase.
Definition case := snapcase.
Definition check (c : case) : bool := check_proj proj_nesting eq_nesting c && check_proj proj_points eq_points c.
Definition mismatches (l : list case) : list N := mismatches_from check 0 l.
