(** Correspondence cases for C14: pointindex.IsQuadTree and the composite validation
    (main.validateTileMatrixSet: IsQuadTree, slices.Max, DeviationStats) against [isQuadTree] /
    [validate].  A case is a tile matrix set (a built-in document of the regenerated TmsData.v, or
    a literal document), a list of field perturbations applied to the DECODED value (as the harness
    applies them to the Go struct), the requested tile matrix ids, and the two observed verdicts
    (the second one is the verdict of the CLI's own validateTileMatrixSet -- the built binary for the
    built-in sets, the verif hook `texel verif-validate` for a set written to a file -- whenever the
    harness ran it on exactly this value, and the library composite otherwise).
    Projection: accept / reject / panic. *)
From Coq Require Import ZArith NArith List String Bool DecimalString.
From Texel Require Import Prelude.Corr Tms.Model.
From Texel Require Export Tms.Json.
From Texel.Gen Require Import TmsData.
Import ListNotations.
Open Scope Z_scope.

Inductive base :=
| BGen (name : string)
| BLit (doc : json).

Inductive pert :=
| PMatrixWidth (id v : Z)
| PMatrixHeight (id v : Z)
| PTileWidth (id v : Z)
| PTileHeight (id v : Z)
| POrigin (id : Z) (x y : dec)
| POriginNil (id : Z)
| PCorner (id : Z) (c : Z)          (* 0 = "", 1 = topLeft, 2 = bottomLeft *)
| PCellSize (id : Z) (d : dec)
| PDelete (id : Z)
| PVmw (id : Z) (n : Z)             (* n entries; 0 = an empty, non-nil slice *)
| PId (id : Z) (s : string)
| PShift (d : Z).                   (* every tile matrix k becomes tile matrix k + d (map key and id string):
                                       "all ids renumbered from 1" is PShift 1 on a set that starts at 0 *)

Inductive vclass := VAccept | VReject | VPanicked | VSkip (* not observed *).

Inductive case := MkCase (b : base) (ps : list pert) (ids : list Z) (quad validated : vclass).

Definition upd (k : Z) (f : tileMatrix -> tileMatrix) (l : list (Z * tileMatrix)) : list (Z * tileMatrix) :=
  map (fun e => if fst e =? k then (fst e, f (snd e)) else e) l.

Definition set_matrices (t : tms) (l : list (Z * tileMatrix)) : tms :=
  MkTMS (t_id t) (t_title t) (t_description t) (t_keywords t) (t_uri t) (t_orderedAxes t) (t_wkss t) (t_bbox t) (t_crs t) l.

Definition corner_of (c : Z) : corner := if c =? 1 then TopLeft else if c =? 2 then BottomLeft else CornerUnset.

(** strconv.Itoa *)
Definition itoa (z : Z) : string := NilZero.string_of_int (Z.to_int z).

Definition apply_pert (t : tms) (p : pert) : tms :=
  let l := t_matrices t in
  let tm (m : tileMatrix) id ti de kw sd cs co po tw th mw mh vm :=
    MkTM id ti de kw sd cs co po tw th mw mh vm in
  set_matrices t
    match p with
    | PMatrixWidth k v => upd k (fun m => MkTM (tm_id m) (tm_title m) (tm_description m) (tm_keywords m) (tm_scaleDenominator m) (tm_cellSize m) (tm_corner m) (tm_origin m) (tm_tileWidth m) (tm_tileHeight m) v (tm_matrixHeight m) (tm_vmw m)) l
    | PMatrixHeight k v => upd k (fun m => MkTM (tm_id m) (tm_title m) (tm_description m) (tm_keywords m) (tm_scaleDenominator m) (tm_cellSize m) (tm_corner m) (tm_origin m) (tm_tileWidth m) (tm_tileHeight m) (tm_matrixWidth m) v (tm_vmw m)) l
    | PTileWidth k v => upd k (fun m => MkTM (tm_id m) (tm_title m) (tm_description m) (tm_keywords m) (tm_scaleDenominator m) (tm_cellSize m) (tm_corner m) (tm_origin m) v (tm_tileHeight m) (tm_matrixWidth m) (tm_matrixHeight m) (tm_vmw m)) l
    | PTileHeight k v => upd k (fun m => MkTM (tm_id m) (tm_title m) (tm_description m) (tm_keywords m) (tm_scaleDenominator m) (tm_cellSize m) (tm_corner m) (tm_origin m) (tm_tileWidth m) v (tm_matrixWidth m) (tm_matrixHeight m) (tm_vmw m)) l
    | POrigin k x y => upd k (fun m => MkTM (tm_id m) (tm_title m) (tm_description m) (tm_keywords m) (tm_scaleDenominator m) (tm_cellSize m) (tm_corner m) (Some (x, y)) (tm_tileWidth m) (tm_tileHeight m) (tm_matrixWidth m) (tm_matrixHeight m) (tm_vmw m)) l
    | POriginNil k => upd k (fun m => MkTM (tm_id m) (tm_title m) (tm_description m) (tm_keywords m) (tm_scaleDenominator m) (tm_cellSize m) (tm_corner m) None (tm_tileWidth m) (tm_tileHeight m) (tm_matrixWidth m) (tm_matrixHeight m) (tm_vmw m)) l
    | PCorner k c => upd k (fun m => MkTM (tm_id m) (tm_title m) (tm_description m) (tm_keywords m) (tm_scaleDenominator m) (tm_cellSize m) (corner_of c) (tm_origin m) (tm_tileWidth m) (tm_tileHeight m) (tm_matrixWidth m) (tm_matrixHeight m) (tm_vmw m)) l
    | PCellSize k d => upd k (fun m => MkTM (tm_id m) (tm_title m) (tm_description m) (tm_keywords m) (tm_scaleDenominator m) d (tm_corner m) (tm_origin m) (tm_tileWidth m) (tm_tileHeight m) (tm_matrixWidth m) (tm_matrixHeight m) (tm_vmw m)) l
    | PDelete k => filter (fun e => negb (fst e =? k)) l
    | PVmw k n => upd k (fun m => MkTM (tm_id m) (tm_title m) (tm_description m) (tm_keywords m) (tm_scaleDenominator m) (tm_cellSize m) (tm_corner m) (tm_origin m) (tm_tileWidth m) (tm_tileHeight m) (tm_matrixWidth m) (tm_matrixHeight m) (Some (repeat (MkVmw 2 0 0) (Z.to_nat n)))) l
    | PShift d => map (fun e => let m := snd e in (fst e + d, MkTM (itoa (fst e + d)) (tm_title m) (tm_description m) (tm_keywords m) (tm_scaleDenominator m) (tm_cellSize m) (tm_corner m) (tm_origin m) (tm_tileWidth m) (tm_tileHeight m) (tm_matrixWidth m) (tm_matrixHeight m) (tm_vmw m))) l
    | PId k s => upd k (fun m => MkTM s (tm_title m) (tm_description m) (tm_keywords m) (tm_scaleDenominator m) (tm_cellSize m) (tm_corner m) (tm_origin m) (tm_tileWidth m) (tm_tileHeight m) (tm_matrixWidth m) (tm_matrixHeight m) (tm_vmw m)) l
    end.

(** the built-in sets, decoded once *)
Definition builtin_sets : list (string * outcome tms) :=
  Eval vm_compute in map (fun d => (fst d, decodeTMS (snd d))) gen_tms_documents.

Fixpoint find_set (name : string) (l : list (string * outcome tms)) : outcome tms :=
  match l with
  | [] => Error
  | (n, t) :: r => if String.eqb n name then t else find_set name r
  end.

Definition base_set (b : base) : outcome tms :=
  match b with BGen n => find_set n builtin_sets | BLit d => decodeTMS d end.

Definition class_of (v : verdict) : vclass :=
  match v with Accept => VAccept | Reject _ => VReject | VPanic => VPanicked end.

Definition vclass_agrees (model observed : vclass) : bool :=
  match observed, model with
  | VSkip, _ => true
  | VAccept, VAccept | VReject, VReject | VPanicked, VPanicked => true
  | _, _ => false
  end.

Definition check (c : case) : bool :=
  let '(MkCase b ps ids q v) := c in
  match base_set b with
  | Ok t0 =>
      let t := fold_left apply_pert ps t0 in
      vclass_agrees (class_of (isQuadTree t)) q && vclass_agrees (class_of (validate t ids)) v
  | _ => false
  end.

Definition mismatches (l : list case) : list N := mismatches_from check 0 l.
