(** * findIntersectingQuadrants returns exactly the occupied children met by the segment, in order
      of travel (C02, one level of the descent).

    The combinatorial content of [quadrantsToCheck] (which children are listed, in which order,
    which are "certain", which are "mutex") is checked by exhaustive case analysis on four booleans;
    the geometric content is a handful of one-axis lemmas over Q. *)
From Coq Require Import ZArith QArith Lqa Lia List Bool Sorted.
From Texel Require Import Prelude.Base Index.Model Index.ProofsQ Index.ProofsLine Index.ProofsOrder Index.ProofsGrid.
Import ListNotations.
Open Scope Q_scope.

(** ** one axis: on which side of the centre *)
Definition side (cx : Q) (r : bool) (x : Q) : Prop := if r then cx <= x else x < cx.

Lemma side_unique cx r r' x : side cx r x -> side cx r' x -> r = r'.
Proof. unfold side. destruct r, r'; intros H1 H2; try reflexivity; lra. Qed.

(** both ends on one side: the whole segment stays on that side *)
Lemma side_stay cx r A B t : 0 <= t -> t <= 1 -> side cx r A -> side cx r B -> side cx r (A + t * (B - A)).
Proof.
  unfold side. intros H0 H1 HA HB. destruct r.
  - pose proof (mul_nn (1 - t) (A - cx) ltac:(lra) ltac:(lra)).
    pose proof (mul_nn t (B - cx) ltac:(lra) ltac:(lra)). lra.
  - destruct (Qlt_le_dec t 1) as [L | G].
    + pose proof (mul_pos (1 - t) (cx - A) ltac:(lra) ltac:(lra)).
      pose proof (mul_nn t (cx - B) ltac:(lra) ltac:(lra)). lra.
    + pose proof (mul_nn (1 - t) (cx - A) ltac:(lra) ltac:(lra)).
      pose proof (mul_pos t (cx - B) ltac:(lra) ltac:(lra)). lra.
Qed.

(** ends on different sides: the side of a's end is travelled first *)
Lemma side_order cx r1 r2 A B t1 t2 : r1 <> r2 -> side cx r1 A -> side cx r2 B ->
  side cx r1 (A + t1 * (B - A)) -> side cx r2 (A + t2 * (B - A)) -> t1 < t2.
Proof.
  unfold side. intros Hne HA HB H1 H2. destruct r1, r2; try congruence.
  - apply (monotone_param_neg A (B - A)); lra.
  - apply (monotone_param A (B - A)); lra.
Qed.

Lemma side_of_leb (cz pz : Z) : side (inject_Z cz) (cz <=? pz)%Z (inject_Z pz).
Proof.
  unfold side. destruct (Z.leb_spec cz pz) as [H | H]; [rewrite <- Zle_Qle | rewrite <- Zlt_Qlt]; exact H.
Qed.

(** ** the parts of a box *)
Lemma child_sideX a b t P c i : PIn a b t (childExt P c i) ->
  side (inject_Z (fst c)) (isRight i) (co (fst a) (fst b) t).
Proof.
  unfold PIn, AxisIn, childExt, side. cbn [eminx emaxx eminy emaxy].
  intros [[A B] _]. destruct (isRight i); assumption.
Qed.

Lemma child_sideY a b t P c i : PIn a b t (childExt P c i) ->
  side (inject_Z (snd c)) (isTop i) (co (snd a) (snd b) t).
Proof.
  unfold PIn, AxisIn, childExt, side. cbn [eminx emaxx eminy emaxy].
  intros [_ [A B]]. destruct (isTop i); assumption.
Qed.

(** quadrant numbers from the two comparisons *)
Definition q2n (r t : bool) : nat := Nat.add (if r then 1 else 0)%nat (if t then 2 else 0)%nat.

Lemma getInfiniteQuadrant_q2n p c : getInfiniteQuadrant p c = q2n (fst c <=? fst p)%Z (snd c <=? snd p)%Z.
Proof. reflexivity. Qed.

(** i is listed before j: justified by the x axis or by the y axis *)
Definition ordXY (r1 t1 r2 t2 : bool) (i j : nat) : Prop :=
  (isRight i = r1 /\ isRight j = r2 /\ r1 <> r2) \/ (isTop i = t1 /\ isTop j = t2 /\ t1 <> t2).

(** j cannot be met: both ends are on the other side of one axis *)
Definition offXY (r1 t1 r2 t2 : bool) (j : nat) : Prop :=
  (r1 = r2 /\ isRight j <> r1) \/ (t1 = t2 /\ isTop j <> t1).

Section Geometry.
  Variables (a b : pt) (P : extent) (c : pt).
  Let r1 := (fst c <=? fst a)%Z.
  Let t1 := (snd c <=? snd a)%Z.
  Let r2 := (fst c <=? fst b)%Z.
  Let t2 := (snd c <=? snd b)%Z.

  Lemma ordXY_before i j : ordXY r1 t1 r2 t2 i j -> Before a b (childExt P c i) (childExt P c j).
  Proof.
    intros [[Ei [Ej Ne]] | [Ei [Ej Ne]]] s1 s2 [_ [_ H1]] [_ [_ H2]].
    - apply child_sideX in H1. apply child_sideX in H2. rewrite Ei in H1. rewrite Ej in H2.
      unfold co in H1, H2.
      exact (side_order _ r1 r2 _ _ s1 s2 Ne (side_of_leb _ _) (side_of_leb _ _) H1 H2).
    - apply child_sideY in H1. apply child_sideY in H2. rewrite Ei in H1. rewrite Ej in H2.
      unfold co in H1, H2.
      exact (side_order _ t1 t2 _ _ s1 s2 Ne (side_of_leb _ _) (side_of_leb _ _) H1 H2).
  Qed.

  Lemma offXY_not_met j : offXY r1 t1 r2 t2 j -> ~ Meets a b (childExt P c j).
  Proof.
    intros [[E Ne] | [E Ne]] [s [H0 [H1 H]]].
    - apply child_sideX in H. apply Ne.
      pose proof (side_of_leb (fst c) (fst a)) as SA. pose proof (side_of_leb (fst c) (fst b)) as SB.
      fold r1 in SA. fold r2 in SB. rewrite <- E in SB.
      exact (side_unique _ _ _ _ H (side_stay _ r1 _ _ s H0 H1 SA SB)).
    - apply child_sideY in H. apply Ne.
      pose proof (side_of_leb (snd c) (snd a)) as SA. pose proof (side_of_leb (snd c) (snd b)) as SB.
      fold t1 in SA. fold t2 in SB. rewrite <- E in SB.
      exact (side_unique _ _ _ _ H (side_stay _ t1 _ _ s H0 H1 SA SB)).
  Qed.
End Geometry.

(** ** combinatorics of quadrantsToCheck, by exhaustive computation *)
Lemma isRight_q2n r t : isRight (q2n r t) = r.
Proof. destruct r, t; reflexivity. Qed.
Lemma isTop_q2n r t : isTop (q2n r t) = t.
Proof. destruct r, t; reflexivity. Qed.

Lemma qtc_lt4 r1 t1 r2 t2 in1 in2 :
  Forall (fun q => (qi q < 4)%nat) (quadrantsToCheck (q2n r1 t1) (q2n r2 t2) in1 in2).
Proof. destruct r1, t1, r2, t2; cbn; repeat constructor. Qed.

(** every child is either listed or cannot be met *)
Lemma qtc_complete r1 t1 r2 t2 in1 in2 i : (i < 4)%nat ->
  In i (map qi (quadrantsToCheck (q2n r1 t1) (q2n r2 t2) in1 in2)) \/ offXY r1 t1 r2 t2 i.
Proof.
  intro Hi. unfold offXY.
  destruct i as [| [| [| [| i]]]]; [| | | | lia];
    destruct r1, t1, r2, t2; cbn;
    try (left; tauto);
    try (right; left; split; [reflexivity | discriminate]);
    try (right; right; split; [reflexivity | discriminate]).
Qed.

(** the list is in order of travel *)
Lemma qtc_sorted r1 t1 r2 t2 in1 in2 :
  StronglySorted (fun q q' => ordXY r1 t1 r2 t2 (qi q) (qi q'))
                 (quadrantsToCheck (q2n r1 t1) (q2n r2 t2) in1 in2).
Proof.
  unfold ordXY.
  destruct r1, t1, r2, t2; cbn;
    repeat (first [apply SSorted_nil | apply SSorted_cons | apply Forall_nil | apply Forall_cons]);
    cbn;
    first [left; (split; [reflexivity | split; [reflexivity | discriminate]])
          | right; (split; [reflexivity | split; [reflexivity | discriminate]])].
Qed.

(** "certain" entries are the quadrant of an end point that lies inside the parent *)
Lemma qtc_certain r1 t1 r2 t2 in1 in2 q :
  In q (quadrantsToCheck (q2n r1 t1) (q2n r2 t2) in1 in2) -> qcertain q = true ->
  (qi q = q2n r1 t1 /\ in1 = true) \/ (qi q = q2n r2 t2 /\ in2 = true).
Proof.
  destruct r1, t1, r2, t2; cbn; intros H C;
    repeat (destruct H as [<- | H]; [cbn in C |- *; try discriminate;
            try (apply andb_true_iff in C as [C1 C2]); auto |]); try contradiction.
Qed.

(** two mutex entries are ordered both ways (so at most one of them is met) *)
Lemma qtc_mutex r1 t1 r2 t2 in1 in2 q q' :
  In q (quadrantsToCheck (q2n r1 t1) (q2n r2 t2) in1 in2) ->
  In q' (quadrantsToCheck (q2n r1 t1) (q2n r2 t2) in1 in2) ->
  qmutex q = true -> qmutex q' = true -> qi q <> qi q' ->
  ordXY r1 t1 r2 t2 (qi q) (qi q') /\ ordXY r1 t1 r2 t2 (qi q') (qi q).
Proof.
  unfold ordXY.
  destruct r1, t1, r2, t2; cbn; intros H H' M M' Ne;
    repeat (destruct H as [<- | H]; [cbn in M, Ne |- *; try discriminate |]); try contradiction;
    repeat (destruct H' as [<- | H']; [cbn in M', Ne |- *; try discriminate; try congruence |]); try contradiction;
    (split; [(left; (split; [reflexivity | split; [reflexivity | discriminate]])) || (right; (split; [reflexivity | split; [reflexivity | discriminate]]))
            | (left; (split; [reflexivity | split; [reflexivity | discriminate]])) || (right; (split; [reflexivity | split; [reflexivity | discriminate]]))]).
Qed.

(** the indices listed are pairwise different *)
Lemma qtc_nodup r1 t1 r2 t2 in1 in2 :
  NoDup (map qi (quadrantsToCheck (q2n r1 t1) (q2n r2 t2) in1 in2)).
Proof.
  destruct r1, t1, r2, t2; cbn; repeat constructor; cbn; intuition discriminate.
Qed.

(** ** the scan *)
Section Scan.
  Variables (a b : pt) (has : nat -> option quad).

  Definition sel (q : qtc) : list quad :=
    match has (qi q) with
    | Some cq => if lineIntersects a b (qext cq) then [cq] else []
    | None => []
    end.

  Definition CertOK (l : list qtc) : Prop :=
    forall q cq, In q l -> qcertain q = true -> has (qi q) = Some cq -> lineIntersects a b (qext cq) = true.

  Fixpoint MutexOK (l : list qtc) : Prop :=
    match l with
    | [] => True
    | q :: r => (qmutex q = true -> sel q <> [] -> forall q', In q' r -> qmutex q' = true -> sel q' = []) /\ MutexOK r
    end.

  Lemma checkLoop_flat_map l : forall m, CertOK l -> MutexOK l ->
    (m = true -> forall q, In q l -> qmutex q = true -> sel q = []) ->
    checkLoop a b has l m = flat_map sel l.
  Proof.
    induction l as [| q r IH]; intros m HC HM Hm; cbn [checkLoop flat_map]; [reflexivity |].
    destruct HM as [HM1 HM2].
    assert (HCr : CertOK r) by (intros q' cq Hq'; apply HC; right; exact Hq').
    assert (Hmr : m = true -> forall q', In q' r -> qmutex q' = true -> sel q' = [])
      by (intros E q' Hq'; apply Hm; [exact E | right; exact Hq']).
    destruct (qmutex q && m) eqn:Emm.
    - apply andb_true_iff in Emm as [E1 E2]. rewrite (Hm E2 q (or_introl eq_refl) E1). cbn [app].
      apply IH; assumption.
    - unfold sel at 1. destruct (has (qi q)) as [cq |] eqn:Eh; [| cbn [app]; apply IH; assumption].
      destruct (qcertain q) eqn:Ec.
      + cbn [orb]. rewrite (HC q cq (or_introl eq_refl) Ec Eh). cbn [app]. f_equal.
        apply IH; try assumption. intros E q' Hq' Mq'. apply orb_true_iff in E as [E | E]; [apply Hmr; assumption |].
        apply (HM1 E); try assumption. unfold sel. rewrite Eh, (HC q cq (or_introl eq_refl) Ec Eh). discriminate.
      + cbn [orb]. destruct (lineIntersects a b (qext cq)) eqn:El; cbn [app]; [| apply IH; assumption].
        f_equal. apply IH; try assumption. intros E q' Hq' Mq'. apply orb_true_iff in E as [E | E]; [apply Hmr; assumption |].
        apply (HM1 E); try assumption. unfold sel. rewrite Eh, El. discriminate.
  Qed.

  Lemma sel_In q cq : In cq (sel q) <-> has (qi q) = Some cq /\ lineIntersects a b (qext cq) = true.
  Proof.
    unfold sel. destruct (has (qi q)) as [cq' |].
    - destruct (lineIntersects a b (qext cq')) eqn:El; cbn [In]; split.
      + intros [<- | []]. auto.
      + intros [E _]. injection E as <-. auto.
      + intros [].
      + intros [E L]. injection E as <-. congruence.
    - cbn [In]. split; [tauto | intros [E _]; discriminate].
  Qed.
End Scan.

(** ** the specification

    [P] is the box the children partition; it is the stored extent of the parent except for the
    root, whose stored extent is the real tile-matrix-set extent (possibly larger).  What is needed
    of the stored extent: an end point it contains lies in [P]. *)
Definition CentreIn (P : extent) (c : pt) : Prop :=
  (eminx P < fst c < emaxx P /\ eminy P < snd c < emaxy P)%Z.

Theorem findIntersectingQuadrants_spec (a b : pt) (has : nat -> option quad) (p : quad) (P : extent) :
  CentreIn P (qcen p) ->
  (containsPoint a (qext p) = true -> containsPoint a P = true) ->
  (containsPoint b (qext p) = true -> containsPoint b P = true) ->
  (forall i cq, has i = Some cq -> qext cq = childExt P (qcen p) i) ->
  (forall cq, In cq (findIntersectingQuadrants a b has p) <->
              exists i, (i < 4)%nat /\ has i = Some cq /\ Meets a b (qext cq)) /\
  StronglySorted (fun u v => Before a b (qext u) (qext v)) (findIntersectingQuadrants a b has p).
Proof.
  intros [Cx Cy] HinA HinB Hhas. unfold findIntersectingQuadrants. rewrite !getInfiniteQuadrant_q2n.
  set (r1 := (fst (qcen p) <=? fst a)%Z). set (t1 := (snd (qcen p) <=? snd a)%Z).
  set (r2 := (fst (qcen p) <=? fst b)%Z). set (t2 := (snd (qcen p) <=? snd b)%Z).
  set (in1 := containsPoint a (qext p)). set (in2 := containsPoint b (qext p)).
  set (L := quadrantsToCheck (q2n r1 t1) (q2n r2 t2) in1 in2).
  pose proof (qtc_lt4 r1 t1 r2 t2 in1 in2) as L4. fold L in L4. rewrite Forall_forall in L4.
  (* a child whose scan entry is non-empty is met *)
  assert (SelMet : forall q, sel a b has q <> [] -> Meets a b (childExt P (qcen p) (qi q))).
  { intros q Hq. unfold sel in Hq. destruct (has (qi q)) as [cq |] eqn:Eh; [| congruence].
    destruct (lineIntersects a b (qext cq)) eqn:El; [| congruence].
    rewrite <- (Hhas _ _ Eh). apply lineIntersects_spec. exact El. }
  assert (E : checkLoop a b has L false = flat_map (sel a b has) L).
  { apply checkLoop_flat_map.
    - (* certain entries *)
      intros q cq Hq Cq Eh. apply lineIntersects_spec. rewrite (Hhas _ _ Eh).
      destruct (qtc_certain r1 t1 r2 t2 in1 in2 q Hq Cq) as [[Ei Ein] | [Ei Ein]]; rewrite Ei.
      + exists 0. apply meets_start. apply (childExt_contains _ _ _ a); [| exact Cx | exact Cy |].
        * rewrite <- Ei. apply L4. exact Hq.
        * split; [apply HinA; exact Ein | reflexivity].
      + exists 1. apply meets_end. apply (childExt_contains _ _ _ b); [| exact Cx | exact Cy |].
        * rewrite <- Ei. apply L4. exact Hq.
        * split; [apply HinB; exact Ein | reflexivity].
    - (* mutex entries *)
      pose proof (qtc_nodup r1 t1 r2 t2 in1 in2) as ND. fold L in ND.
      assert (G : forall q q', In q L -> In q' L -> qi q <> qi q' -> qmutex q = true -> qmutex q' = true ->
                  sel a b has q <> [] -> sel a b has q' = []).
      { intros q q' Hq Hq' Ne M M' S.
        destruct (sel a b has q') as [| x r] eqn:S'; [reflexivity | exfalso].
        destruct (qtc_mutex r1 t1 r2 t2 in1 in2 q q' Hq Hq' M M' Ne) as [O1 O2].
        apply (before_asym a b (childExt P (qcen p) (qi q)) (childExt P (qcen p) (qi q'))).
        - apply SelMet. exact S.
        - apply SelMet. rewrite S'. discriminate.
        - apply ordXY_before. exact O1.
        - apply ordXY_before. exact O2. }
      clear - G ND. revert G ND. generalize L as l. induction l as [| q r IH]; intros G ND; cbn [MutexOK]; [exact I |].
      cbn [map] in ND. inversion ND as [| ? ? Nin ND']; subst. split.
      + intros M S q' Hq' M'. apply (G q q'); try assumption; [left; reflexivity | right; exact Hq' |].
        intro Eq. apply Nin. rewrite Eq. apply in_map. exact Hq'.
      + apply IH; [| exact ND']. intros u v Hu Hv. apply G; right; assumption.
    - discriminate. }
  rewrite E. split.
  - intro cq. rewrite in_flat_map. split.
    + intros [q [Hq Hs]]. apply sel_In in Hs as [Eh El]. exists (qi q).
      split; [apply L4; exact Hq |]. split; [exact Eh |]. apply lineIntersects_spec. exact El.
    + intros [i [Hi [Eh M]]].
      destruct (qtc_complete r1 t1 r2 t2 in1 in2 i Hi) as [Hin | Off].
      * fold L in Hin. apply in_map_iff in Hin as [q [Eq Hq]]. exists q. split; [exact Hq |].
        apply sel_In. rewrite Eq. split; [exact Eh |]. apply lineIntersects_spec. exact M.
      * exfalso. rewrite (Hhas _ _ Eh) in M. exact (offXY_not_met a b _ _ i Off M).
  - apply (ssorted_flat_map (fun q q' => ordXY r1 t1 r2 t2 (qi q) (qi q'))).
    + apply qtc_sorted.
    + intros q _. unfold sel. destruct (has (qi q)) as [cq |]; [| constructor].
      destruct (lineIntersects a b (qext cq)); repeat constructor.
    + intros q q' u v _ _ O Hu Hv. apply sel_In in Hu as [Eu _]. apply sel_In in Hv as [Ev _].
      rewrite (Hhas _ _ Eu), (Hhas _ _ Ev). apply ordXY_before. exact O.
Qed.

(** ** the "mutex" claim of the source ("if the line intersects this one, the other cannot be
    intersected") is true for half-open boxes: when the end points lie in diagonally opposite
    infinite quadrants, the segment meets at most one of the two other parts -- also when it passes
    exactly through the centre point, which belongs to the top right part only. *)
Theorem offdiagonal_mutex (a b : pt) (P : extent) (c : pt) :
  let r1 := (fst c <=? fst a)%Z in let t1 := (snd c <=? snd a)%Z in
  let r2 := (fst c <=? fst b)%Z in let t2 := (snd c <=? snd b)%Z in
  r1 <> r2 -> t1 <> t2 ->
  Meets a b (childExt P c (q2n r2 t1)) -> Meets a b (childExt P c (q2n r1 t2)) -> False.
Proof.
  intros r1 t1 r2 t2 Nr Nt M1 M2.
  apply (before_asym a b _ _ M1 M2); apply ordXY_before.
  - right. rewrite !isTop_q2n. auto.
  - left. rewrite !isRight_q2n. auto.
Qed.

(** no child is returned twice *)
Corollary findIntersectingQuadrants_NoDup (a b : pt) (has : nat -> option quad) (p : quad) (P : extent) :
  CentreIn P (qcen p) ->
  (containsPoint a (qext p) = true -> containsPoint a P = true) ->
  (containsPoint b (qext p) = true -> containsPoint b P = true) ->
  (forall i cq, has i = Some cq -> qext cq = childExt P (qcen p) i) ->
  NoDup (findIntersectingQuadrants a b has p).
Proof.
  intros C Ha Hb Hh. destruct (findIntersectingQuadrants_spec a b has p P C Ha Hb Hh) as [S1 S2].
  apply (ssorted_NoDup (fun u v => Before a b (qext u) (qext v))); [| exact S2].
  intros cq Hc. apply before_irrefl. apply S1 in Hc as [i [_ [_ M]]]. exact M.
Qed.
