(** * The descent: snapClosestPoints returns the centres of exactly the occupied pixels of the
      requested level that the closed segment meets, in order of travel (C02_routing). *)
From Coq Require Import ZArith QArith Lqa Lia List Bool Sorted.
From Texel Require Import Prelude.Base Index.Model Index.ProofsInsert Index.ProofsQ Index.ProofsLine
  Index.ProofsOrder Index.ProofsGrid Index.ProofsFind.
Import ListNotations.
Open Scope Z_scope.

(** the extent the index really covers *)
Definition rootBox (g : grid) : extent := quadExtent g 0 0 0.

(** the stored root extent is exactly the computed one (the tile matrix set extent divides evenly
    into 2^deepest pixels of the integer resolution) *)
Definition ExactRoot (g : grid) : Prop :=
  emaxx (gext g) = eminx (gext g) + gsize g * gres g /\
  emaxy (gext g) = eminy (gext g) + gsize g * gres g.

Lemma exactRoot_gext g : ExactRoot g -> gext g = rootBox g.
Proof.
  intros [Ex Ey]. unfold rootBox, quadExtent. rewrite quadSpan_root.
  destruct (gext g) as [x0 y0 x1 y1]. cbn [eminx eminy emaxx emaxy] in *. f_equal; lia.
Qed.

(** ** geometry of pixels *)
Lemma childExt_sub P c i : CentreIn P c -> SubE (childExt P c i) P.
Proof.
  intros [Cx Cy]. unfold SubE, childExt. cbn [eminx eminy emaxx emaxy].
  destruct (isRight i), (isTop i); lia.
Qed.

Lemma quad_centreIn g l x y : 0 < gres g -> (l < gdeep g)%nat ->
  CentreIn (quadExtent g l x y) (quadCentroid g l x y).
Proof.
  intros Hr Hl. unfold CentreIn, quadExtent, quadCentroid. cbn [fst snd eminx eminy emaxx emaxy].
  rewrite (quadSpan_half g l Hl), (quadSpan_step g l Hl). pose proof (quadSpan_pos g (S l) Hr). lia.
Qed.

Lemma quadExtent_sub_parent g l X Y : 0 < gres g -> (l < gdeep g)%nat ->
  SubE (quadExtent g (S l) X Y) (quadExtent g l (X / 2) (Y / 2)).
Proof.
  intros Hr Hl. unfold SubE, quadExtent. cbn [eminx eminy emaxx emaxy].
  rewrite (quadSpan_step g l Hl). pose proof (quadSpan_pos g (S l) Hr) as Hs. set (s := quadSpan g (S l)) in *.
  pose proof (Z.div_mod X 2 ltac:(lia)) as EX. pose proof (Z.mod_pos_bound X 2 ltac:(lia)) as BX.
  pose proof (Z.div_mod Y 2 ltac:(lia)) as EY. pose proof (Z.mod_pos_bound Y 2 ltac:(lia)) as BY.
  set (qX := X / 2) in *. set (qY := Y / 2) in *. nia.
Qed.

Lemma quadExtent_sub_root g l x y : 0 < gres g -> (l <= gdeep g)%nat ->
  0 <= x < pow2 l -> 0 <= y < pow2 l -> SubE (quadExtent g l x y) (rootBox g).
Proof.
  intros Hr Hl Hx Hy. unfold SubE, rootBox, quadExtent. cbn [eminx eminy emaxx emaxy].
  assert (E : quadSpan g 0 = pow2 l * quadSpan g l).
  { unfold quadSpan. rewrite Z.mul_assoc, <- pow2_add. f_equal. f_equal. lia. }
  rewrite E. pose proof (quadSpan_pos g l Hr) as Hs. set (s := quadSpan g l) in *. nia.
Qed.

Lemma pixels_disjoint g l x y x' y' : 0 < gres g -> (x, y) <> (x', y') ->
  DisjointE (quadExtent g l x y) (quadExtent g l x' y').
Proof.
  intros Hr Ne. unfold DisjointE, quadExtent. cbn [eminx eminy emaxx emaxy].
  pose proof (quadSpan_pos g l Hr) as Hs. set (s := quadSpan g l) in *.
  assert (C : x < x' \/ x' < x \/ y < y' \/ y' < y).
  { destruct (Z.eq_dec x x') as [Ex | Nx]; [| lia]. destruct (Z.eq_dec y y') as [Ey | Ny]; [| lia].
    subst. congruence. }
  destruct C as [C | [C | [C | C]]]; [left | right; left | right; right; left | right; right; right]; nia.
Qed.

Lemma oneIfRight_q2n r t : oneIfRight (q2n r t) = if r then 1 else 0.
Proof. destruct r, t; reflexivity. Qed.
Lemma oneIfTop_q2n r t : oneIfTop (q2n r t) = if t then 1 else 0.
Proof. destruct r, t; reflexivity. Qed.
Lemma q2n_lt4 r t : (q2n r t < 4)%nat.
Proof. destruct r, t; cbn; lia. Qed.

Lemma half_bit X : X = 2 * (X / 2) + (if X mod 2 =? 1 then 1 else 0).
Proof.
  pose proof (Z.div_mod X 2 ltac:(lia)) as E. pose proof (Z.mod_pos_bound X 2 ltac:(lia)) as B.
  destruct (Z.eqb_spec (X mod 2) 1) as [E1 | N1]; lia.
Qed.

Lemma quadAt_inj g l x y x' y' : quadAt g l x y = quadAt g l x' y' -> x = x' /\ y = y'.
Proof. intro E. split; [exact (f_equal qx E) | exact (f_equal qy E)]. Qed.

(** ** the invariant of the descent, for a grid whose stored root extent is the computed one *)
Section Descent.
  Variables (g : grid) (hs : hotset) (a b : pt).
  Hypothesis Hr : 0 < gres g.
  Hypothesis Hroot : gext g = rootBox g.
  Hypothesis Hin : Forall (fun c => inGridCoord g c = true) hs.
  Hypothesis Hne : hs <> [].

  Let BeforeQ (u v : quad) : Prop := Before a b (qext u) (qext v).

  Definition LevelInv (L : nat) (qs : list quad) : Prop :=
    (forall q, In q qs -> q = quadAt g L (qx q) (qy q)) /\
    (forall x y, In (quadAt g L x y) qs <->
                 In (x, y) (hotAt g hs L) /\ Meets a b (quadExtent g L x y)) /\
    StronglySorted BeforeQ qs.

  Lemma rootQuad_quadAt : rootQuad g = quadAt g 0 0 0.
  Proof. unfold rootQuad, quadAt. f_equal. exact Hroot. Qed.

  Lemma inv_root : Meets a b (rootBox g) -> LevelInv 0 (descendTo g (hotLevels g hs) a b 0).
  Proof.
    intro M. cbn [descendTo]. rewrite rootQuad_quadAt. split; [| split].
    - intros q [<- | []]. reflexivity.
    - intros x y. cbn [In]. rewrite (hotAt_root g hs Hne Hin (x, y)). split.
      + intros [E | []]. apply quadAt_inj in E as [<- <-]. split; [reflexivity | exact M].
      + intros [E _]. injection E as -> ->. left. reflexivity.
    - repeat constructor.
  Qed.

  (** one parent *)
  Lemma find_at L x y : (L < gdeep g)%nat ->
    let p := quadAt g L x y in
    let F := findIntersectingQuadrants a b (childHas g (hotLookup (hotLevels g hs) (S L)) (S L) p) p in
    (forall cq, In cq F <->
       exists i, (i < 4)%nat /\ In (2 * x + oneIfRight i, 2 * y + oneIfTop i) (hotAt g hs (S L)) /\
                 cq = quadAt g (S L) (2 * x + oneIfRight i) (2 * y + oneIfTop i) /\ Meets a b (qext cq)) /\
    StronglySorted BeforeQ F /\
    (forall cq, In cq F -> SubE (qext cq) (qext p)).
  Proof.
    intros HL p F.
    assert (Hhas : forall i cq, childHas g (hotLookup (hotLevels g hs) (S L)) (S L) p i = Some cq ->
              In (2 * x + oneIfRight i, 2 * y + oneIfTop i) (hotAt g hs (S L)) /\
              cq = quadAt g (S L) (2 * x + oneIfRight i) (2 * y + oneIfTop i)).
    { intros i cq. unfold childHas, p. cbn [qx qy quadAt]. rewrite hotLookup_hotLevels by lia.
      destruct (mem_addr _ _) eqn:Em; [| discriminate]. intro E. injection E as <-.
      apply mem_addr_In in Em. auto. }
    assert (Hext : forall i cq, childHas g (hotLookup (hotLevels g hs) (S L)) (S L) p i = Some cq ->
              qext cq = childExt (qext p) (qcen p) i).
    { intros i cq E. apply Hhas in E as [_ ->]. unfold p. cbn [qext qcen quadAt]. apply quadExtent_child. exact HL. }
    destruct (findIntersectingQuadrants_spec a b _ p (qext p)
                (quad_centreIn g L x y Hr HL) (fun H => H) (fun H => H) Hext) as [S1 S2].
    fold F in S1, S2. split; [| split].
    - intro cq. rewrite S1. split.
      + intros [i [Hi [Eh M]]]. exists i. apply Hhas in Eh as [Hhot Ecq]. auto.
      + intros [i [Hi [Hhot [Ecq M]]]]. exists i. split; [exact Hi |]. split; [| exact M].
        unfold childHas, p. cbn [qx qy quadAt]. rewrite hotLookup_hotLevels by lia.
        apply mem_addr_In in Hhot. rewrite Hhot. rewrite Ecq. reflexivity.
    - exact S2.
    - intros cq Hc. apply S1 in Hc as [i [_ [Eh _]]]. rewrite (Hext _ _ Eh). apply childExt_sub.
      exact (quad_centreIn g L x y Hr HL).
  Qed.

  Lemma inv_step L : (S L <= gdeep g)%nat ->
    LevelInv L (descendTo g (hotLevels g hs) a b L) ->
    LevelInv (S L) (descendTo g (hotLevels g hs) a b (S L)).
  Proof.
    intros HL [I1 [I2 I3]]. cbn [descendTo]. set (ps := descendTo g (hotLevels g hs) a b L) in *.
    assert (HL' : (L < gdeep g)%nat) by lia.
    split; [| split].
    - intros q Hq. apply in_flat_map in Hq as [p [Hp Hq]]. rewrite (I1 p Hp) in Hq.
      apply (find_at L _ _ HL') in Hq as [i [_ [_ [-> _]]]]. reflexivity.
    - intros X Y. rewrite in_flat_map. split.
      + intros [p [Hp Hq]]. rewrite (I1 p Hp) in Hq.
        apply (find_at L _ _ HL') in Hq as [i [_ [Hhot [E M]]]].
        apply quadAt_inj in E as [-> ->]. split; [exact Hhot | exact M].
      + intros [Hhot M]. exists (quadAt g L (X / 2) (Y / 2)).
        assert (Mp : Meets a b (quadExtent g L (X / 2) (Y / 2))).
        { apply (meets_sub a b (quadExtent g (S L) X Y)); [| exact M]. apply quadExtent_sub_parent; assumption. }
        split; [apply I2; split; [apply hotAt_parent; assumption | exact Mp] |].
        apply (find_at L _ _ HL'). exists (q2n (X mod 2 =? 1) (Y mod 2 =? 1)).
        rewrite oneIfRight_q2n, oneIfTop_q2n, <- (half_bit X), <- (half_bit Y).
        split; [apply q2n_lt4 |]. split; [exact Hhot |]. split; [reflexivity | exact M].
    - apply (ssorted_flat_map BeforeQ BeforeQ); [exact I3 | |].
      + intros p Hp. rewrite (I1 p Hp). apply (find_at L _ _ HL').
      + intros p p' u v Hp Hp' B Hu Hv. rewrite (I1 p Hp) in Hu. rewrite (I1 p' Hp') in Hv.
        apply (find_at L _ _ HL') in Hu. apply (find_at L _ _ HL') in Hv.
        rewrite <- (I1 p Hp) in Hu. rewrite <- (I1 p' Hp') in Hv.
        exact (before_sub a b _ _ _ _ Hu Hv B).
  Qed.

  Lemma descend_inv L : (L <= gdeep g)%nat -> Meets a b (rootBox g) ->
    LevelInv L (descendTo g (hotLevels g hs) a b L).
  Proof.
    intros HL M. induction L as [| L IH]; [apply inv_root; exact M |].
    apply inv_step; [exact HL |]. apply IH. lia.
  Qed.
End Descent.
