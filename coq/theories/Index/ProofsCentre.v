(** * C03 at the level of the index: what snapClosestPoints returns are centroids of occupied
      pixels of the requested level, and how far a centroid is from the ideal pixel centre. *)
From Coq Require Import ZArith QArith Lqa Lia List Bool.
From Texel Require Import Prelude.Base Index.Model Index.ProofsInsert Index.ProofsQ Index.ProofsLine Index.ProofsGrid.
Import ListNotations.
Open Scope Z_scope.

(** ** provenance of the returned points (direct induction over the levels; no geometry) *)
Lemma checkLoop_In a b has l : forall m cq, In cq (checkLoop a b has l m) ->
  exists q, In q l /\ has (qi q) = Some cq.
Proof.
  induction l as [| q r IH]; intros m cq H; cbn [checkLoop] in H; [contradiction |].
  destruct (qmutex q && m).
  - apply IH in H as [q' [Hq' E]]. exists q'. split; [right; exact Hq' | exact E].
  - destruct (has (qi q)) as [cq' |] eqn:Eh.
    + destruct (qcertain q || lineIntersects a b (qext cq')).
      * destruct H as [<- | H]; [exists q; split; [left; reflexivity | exact Eh] |].
        apply IH in H as [q' [Hq' E]]. exists q'. split; [right; exact Hq' | exact E].
      * apply IH in H as [q' [Hq' E]]. exists q'. split; [right; exact Hq' | exact E].
    + apply IH in H as [q' [Hq' E]]. exists q'. split; [right; exact Hq' | exact E].
Qed.

Lemma oneIfRight_range i : 0 <= oneIfRight i <= 1.
Proof. destruct i as [| [| [| [| i]]]]; cbn; lia. Qed.
Lemma oneIfTop_range i : 0 <= oneIfTop i <= 1.
Proof. destruct i as [| [| [| [| i]]]]; cbn; lia. Qed.

(** shape of the quads at level L: address in range, stored centroid = computed centroid, and below the
    root the address is in the occupied set of that level *)
Definition QuadOK (g : grid) (hots : list (list (Z * Z))) (L : nat) (q : quad) : Prop :=
  0 <= qx q < pow2 L /\ 0 <= qy q < pow2 L /\
  qcen q = quadCentroid g L (qx q) (qy q) /\
  (L <> 0%nat -> In (qx q, qy q) (hotLookup hots L) /\ qext q = quadExtent g L (qx q) (qy q)).

Lemma descendTo_shape g hots a b L : forall q, In q (descendTo g hots a b L) -> QuadOK g hots L q.
Proof.
  induction L as [| L IH]; intros q H.
  - cbn [descendTo In] in H. destruct H as [<- | []]. unfold QuadOK, rootQuad. cbn [qx qy qcen].
    rewrite pow2_0. repeat split; try lia; congruence.
  - cbn [descendTo] in H. apply in_flat_map in H as [p [Hp H]]. apply IH in Hp as [Px [Py _]].
    unfold findIntersectingQuadrants in H. apply checkLoop_In in H as [e [_ E]].
    unfold childHas in E.
    pose proof (oneIfRight_range (qi e)) as Rx. pose proof (oneIfTop_range (qi e)) as Ry.
    assert (Bx : 0 <= 2 * qx p + oneIfRight (qi e) < pow2 (S L)) by (rewrite pow2_S; lia).
    assert (By : 0 <= 2 * qy p + oneIfTop (qi e) < pow2 (S L)) by (rewrite pow2_S; lia).
    set (X := 2 * qx p + oneIfRight (qi e)) in *. set (Y := 2 * qy p + oneIfTop (qi e)) in *.
    destruct (mem_addr (X, Y) (hotLookup hots (S L))) eqn:Em; [| discriminate]. injection E as <-.
    apply mem_addr_In in Em. unfold QuadOK, quadAt. cbn [qx qy qcen qext].
    split; [exact Bx |]. split; [exact By |]. split; [reflexivity |]. intros _. split; [exact Em | reflexivity].
Qed.

(** every point returned for level L is the centroid of a pixel of level L; below the root that pixel
    is in the occupied set handed to the descent *)
Theorem outputs_are_centroids g hots a b L p : In p (snapClosestPoints g hots a b L) ->
  exists x y, 0 <= x < pow2 L /\ 0 <= y < pow2 L /\ p = quadCentroid g L x y /\
              (L <> 0%nat -> In (x, y) (hotLookup hots L)).
Proof.
  unfold snapClosestPoints, snapClosestQuads. destruct (lineIntersects a b (gext g)); [| intros []].
  intro H. apply in_map_iff in H as [q [<- Hq]]. apply descendTo_shape in Hq as [Hx [Hy [Ec Hh]]].
  exists (qx q), (qy q). repeat split; try lia; try assumption. intro N. apply Hh. exact N.
Qed.

(** for an indexed polygon: the pixel contains a vertex of the polygon *)
Theorem outputs_are_hot_centroids g P hs a b L p : 0 < gres g -> insertPolygon g P = Ok hs ->
  (0 < L <= gdeep g)%nat -> In p (snapClosestPoints g (hotLevels g hs) a b L) ->
  exists v, In v (concat P) /\ p = quadCentroid g L (fst (pixelOf g L v)) (snd (pixelOf g L v)) /\
            containsPoint v (quadExtent g L (fst (pixelOf g L v)) (snd (pixelOf g L v))) = true.
Proof.
  intros Hr Hi HL H. apply outputs_are_centroids in H as [x [y [_ [_ [-> Hh]]]]].
  specialize (Hh ltac:(lia)). rewrite hotLookup_hotLevels in Hh by lia.
  apply insertPolygon_ok in Hi as [-> _]. apply hotAt_In in Hh as [c [Hc [-> ->]]].
  apply in_map_iff in Hc as [v [<- Hv]]. exists v. split; [exact Hv |]. split; [reflexivity |].
  apply pixelOf_contains. exact Hr.
Qed.

(** ** deviation from the ideal pixel centre

    One axis.  [X] is the span of the tile matrix set, [r = X / 2^d] (rounded down) the integer
    resolution of the deepest level, [S = 2^(d-l) r] the pixel size the index uses at level l.  The ideal
    centre of pixel k of level l is [mn + (k + 1/2) X / 2^l]; the index uses [mn + k S + S/2] with S/2
    rounded down.  The tool reports the deviation [X - 2^d r]. *)
Open Scope Q_scope.

Lemma axis_deviation (mn X r : Z) (d l : nat) (k : Z) :
  (r = X / pow2 d)%Z -> (l <= d)%nat -> (0 <= k < pow2 l)%Z ->
  let S := (pow2 (d - l) * r)%Z in
  let ideal := inject_Z mn + (inject_Z k + (1 # 2)) * (inject_Z X / inject_Z (pow2 l)) in
  let actual := inject_Z (mn + k * S + S / 2) in
  let dev := inject_Z (X - pow2 d * r) in
  0 <= dev /\ 0 <= ideal - actual /\ ideal - actual <= dev + (1 # 2) /\
  (((l < d)%nat \/ Z.even r = true) -> ideal - actual <= dev).
Proof.
  intros Er Hl Hk S ideal actual dev.
  pose proof (pow2_pos d) as Pd. pose proof (pow2_pos l) as Pl.
  (* integer facts *)
  assert (Dz : (0 <= X - pow2 d * r)%Z).
  { pose proof (Z.div_mod X (pow2 d) ltac:(lia)) as E. pose proof (Z.mod_pos_bound X (pow2 d) Pd) as B.
    rewrite <- Er in E. lia. }
  assert (Xz : (X = pow2 l * S + (X - pow2 d * r))%Z).
  { unfold S. replace (pow2 d) with (pow2 (l + (d - l))) by (f_equal; lia). rewrite pow2_add. ring. }
  assert (Hz : (0 <= S - 2 * (S / 2) <= 1)%Z).
  { pose proof (Z.div_mod S 2 ltac:(lia)) as E. pose proof (Z.mod_pos_bound S 2 ltac:(lia)) as B. lia. }
  assert (Hz' : ((l < d)%nat \/ Z.even r = true) -> (S = 2 * (S / 2))%Z).
  { intros [H | H]; unfold S.
    - replace (d - l)%nat with (Datatypes.S (d - l - 1)) by lia. rewrite pow2_S.
      replace (2 * pow2 (d - l - 1) * r)%Z with (pow2 (d - l - 1) * r * 2)%Z by ring.
      rewrite Z.div_mul by lia. ring.
    - apply Z.even_spec in H as [j ->].
      replace (pow2 (d - l) * (2 * j))%Z with (pow2 (d - l) * j * 2)%Z by ring.
      rewrite Z.div_mul by lia. ring. }
  (* to Q *)
  set (Pq := inject_Z (pow2 l)) in *. set (Sq := inject_Z S). set (hq := inject_Z (S / 2)).
  set (kq := inject_Z k). set (Xq := inject_Z X).
  assert (PP : 0 < Pq) by (unfold Pq; change 0 with (inject_Z 0); rewrite <- Zlt_Qlt; exact Pl).
  assert (D0 : 0 <= dev) by (unfold dev; change 0 with (inject_Z 0); rewrite <- Zle_Qle; exact Dz).
  assert (XE : Xq == Pq * Sq + dev).
  { unfold Xq, Pq, Sq, dev. rewrite <- inject_Z_mult, <- inject_Z_plus. rewrite <- Xz. reflexivity. }
  assert (K0 : 0 <= kq) by (unfold kq; change 0 with (inject_Z 0); rewrite <- Zle_Qle; lia).
  assert (K1 : kq + 1 <= Pq).
  { unfold kq, Pq. change 1 with (inject_Z 1). rewrite <- inject_Z_plus, <- Zle_Qle. lia. }
  assert (A1 : inject_Z (2 * (S / 2)) <= inject_Z S) by (rewrite <- Zle_Qle; lia).
  assert (A2 : inject_Z S <= inject_Z (2 * (S / 2) + 1)) by (rewrite <- Zle_Qle; lia).
  rewrite inject_Z_plus in A2. rewrite inject_Z_mult in A1, A2.
  change (inject_Z 2) with 2 in A1, A2. change (inject_Z 1) with 1 in A2. fold Sq hq in A1, A2.
  assert (H0 : 0 <= Sq - 2 * hq) by lra.
  assert (H1 : Sq - 2 * hq <= 1) by lra.
  set (u := Xq / Pq).
  assert (UE : u * Pq == Xq) by (unfold u; field; lra).
  assert (AE : actual == inject_Z mn + kq * Sq + hq).
  { unfold actual, kq, Sq, hq. rewrite !inject_Z_plus, inject_Z_mult. reflexivity. }
  assert (W0 : 0 <= u - Sq).
  { destruct (Qlt_le_dec (u - Sq) 0) as [N | P]; [| exact P]. exfalso.
    pose proof (mul_pos (Sq - u) Pq ltac:(lra) PP). lra. }
  pose proof (mul_nn (kq + (1 # 2)) (u - Sq) ltac:(lra) W0) as Plo.
  pose proof (mul_nn (Pq - kq - (1 # 2)) (u - Sq) ltac:(lra) W0) as Phi.
  assert (IE : ideal - actual == (kq + (1 # 2)) * (u - Sq) + (Sq - 2 * hq) * (1 # 2)).
  { unfold ideal. fold kq Xq Pq u. rewrite AE. ring. }
  split; [exact D0 |]. rewrite IE. split; [lra |]. split; [lra |].
  intro Hev. apply Hz' in Hev.
  assert (HE : Sq - 2 * hq == 0).
  { assert (A3 : Sq = inject_Z (2 * (S / 2))) by (unfold Sq; f_equal; exact Hev).
    rewrite inject_Z_mult in A3. change (inject_Z 2) with 2 in A3. fold hq in A3. rewrite A3. ring. }
  lra.
Qed.

Open Scope Z_scope.

(** the same for a grid as FromTileMatrixSet builds it: res = XSpan / 2^deepest *)
Theorem centre_deviation_bound g l k y :
  gres g = (emaxx (gext g) - eminx (gext g)) / gsize g -> (l <= gdeep g)%nat -> 0 <= k < pow2 l ->
  let X := emaxx (gext g) - eminx (gext g) in
  let ideal := (inject_Z (eminx (gext g)) + (inject_Z k + (1 # 2)) * (inject_Z X / inject_Z (pow2 l)))%Q in
  let actual := inject_Z (fst (quadCentroid g l k y)) in
  let dev := inject_Z (X - gsize g * gres g) in
  (0 <= dev /\ 0 <= ideal - actual /\ ideal - actual <= dev + (1 # 2) /\
   (((l < gdeep g)%nat \/ Z.even (gres g) = true) -> ideal - actual <= dev))%Q.
Proof.
  intros Er Hl Hk. exact (axis_deviation (eminx (gext g)) _ (gres g) (gdeep g) l k Er Hl Hk).
Qed.

(** y axis: the resolution is derived from the x span, so the bound needs a square extent *)
Theorem centre_deviation_bound_y g l x k :
  gres g = (emaxx (gext g) - eminx (gext g)) / gsize g ->
  emaxy (gext g) - eminy (gext g) = emaxx (gext g) - eminx (gext g) ->
  (l <= gdeep g)%nat -> 0 <= k < pow2 l ->
  let Y := emaxy (gext g) - eminy (gext g) in
  let ideal := (inject_Z (eminy (gext g)) + (inject_Z k + (1 # 2)) * (inject_Z Y / inject_Z (pow2 l)))%Q in
  let actual := inject_Z (snd (quadCentroid g l x k)) in
  let dev := inject_Z (Y - gsize g * gres g) in
  (0 <= dev /\ 0 <= ideal - actual /\ ideal - actual <= dev + (1 # 2) /\
   (((l < gdeep g)%nat \/ Z.even (gres g) = true) -> ideal - actual <= dev))%Q.
Proof.
  intros Er Esq Hl Hk. rewrite <- Esq in Er.
  exact (axis_deviation (eminy (gext g)) _ (gres g) (gdeep g) l k Er Hl Hk).
Qed.
