(** * C02_routing and its corollaries, from the invariant of the descent. *)
From Coq Require Import ZArith QArith Lqa Lia List Bool Sorted.
From Texel Require Import Prelude.Base Index.Model Index.ProofsInsert Index.ProofsQ Index.ProofsLine
  Index.ProofsOrder Index.ProofsGrid Index.ProofsFind Index.ProofsDescent.
Import ListNotations.
Open Scope Z_scope.

(** pixels by address *)
Definition pixExt (g : grid) (L : nat) (q : Z * Z) : extent := quadExtent g L (fst q) (snd q).
Definition pixCen (g : grid) (L : nat) (q : Z * Z) : pt := quadCentroid g L (fst q) (snd q).
Definition BeforeP (g : grid) (L : nat) (a b : pt) (q q' : Z * Z) : Prop :=
  Before a b (pixExt g L q) (pixExt g L q').

(** the addresses of the pixels the model routes the segment through *)
Definition route (g : grid) (hs : hotset) (a b : pt) (L : nat) : list (Z * Z) :=
  map (fun q => (qx q, qy q)) (snapClosestQuads g (hotLevels g hs) a b L).

(** what C02 says about a list of addresses *)
Definition RouteSpec (g : grid) (hs : hotset) (a b : pt) (L : nat) (qs : list (Z * Z)) : Prop :=
  snapClosestPoints g (hotLevels g hs) a b L = map (pixCen g L) qs /\
  NoDup qs /\
  (forall q, In q qs <-> In q (hotAt g hs L) /\ Meets a b (pixExt g L q)) /\
  StronglySorted (BeforeP g L a b) qs.

Section Exact.
  Variables (g : grid) (hs : hotset).
  Hypothesis Hr : 0 < gres g.
  Hypothesis Hroot : gext g = rootBox g.
  Hypothesis Hin : Forall (fun c => inGridCoord g c = true) hs.
  Hypothesis Hne : hs <> [].

  Theorem routing_exact a b L : (L <= gdeep g)%nat -> RouteSpec g hs a b L (route g hs a b L).
  Proof.
    intro HL. unfold RouteSpec, route, snapClosestPoints, snapClosestQuads.
    destruct (lineIntersects a b (gext g)) eqn:El.
    - assert (M : Meets a b (rootBox g)) by (rewrite <- Hroot; apply lineIntersects_spec; exact El).
      destruct (descend_inv g hs a b Hr Hroot Hin Hne L HL M) as [I1 [I2 I3]].
      set (qs := descendTo g (hotLevels g hs) a b L) in *.
      assert (Mem : forall q, In q (map (fun q => (qx q, qy q)) qs) <->
                              In q (hotAt g hs L) /\ Meets a b (pixExt g L q)).
      { intros [x y]. unfold pixExt. cbn [fst snd]. rewrite <- I2, in_map_iff. split.
        - intros [q [E Hq]]. injection E as <- <-. rewrite <- (I1 q Hq). exact Hq.
        - intro Hq. exists (quadAt g L x y). split; [reflexivity | exact Hq]. }
      assert (Srt : StronglySorted (BeforeP g L a b) (map (fun q => (qx q, qy q)) qs)).
      { apply (proj1 (ssorted_map (BeforeP g L a b) (fun q => (qx q, qy q)) qs)). apply (ssorted_impl (fun u v => Before a b (qext u) (qext v))); [| exact I3].
        intros u v Hu Hv B. unfold BeforeP, pixExt. cbn [fst snd].
        rewrite (I1 u Hu), (I1 v Hv) in B. exact B. }
      split; [| split; [| split]].
      + rewrite map_map. apply map_ext_in. intros q Hq. rewrite (I1 q Hq). reflexivity.
      + apply (ssorted_NoDup (BeforeP g L a b)); [| exact Srt].
        intros q Hq. apply before_irrefl. apply Mem in Hq. apply Hq.
      + exact Mem.
      + exact Srt.
    - cbn [map]. split; [reflexivity |]. split; [constructor |]. split; [| constructor].
      intros [x y]. split; [intros [] |]. intros [Hhot M]. exfalso.
      pose proof (hotAt_range g hs L x y HL Hin Hhot) as [Rx Ry].
      assert (M0 : Meets a b (gext g)).
      { rewrite Hroot. apply (meets_sub a b (pixExt g L (x, y))); [| exact M].
        apply quadExtent_sub_root; assumption. }
      apply lineIntersects_spec in M0. congruence.
  Qed.

  (** the route of the reversed segment is the reversed route *)
  Theorem routing_reverse_exact a b L : (L <= gdeep g)%nat ->
    route g hs b a L = rev (route g hs a b L) /\
    snapClosestPoints g (hotLevels g hs) b a L = rev (snapClosestPoints g (hotLevels g hs) a b L).
  Proof.
    intro HL.
    destruct (routing_exact a b L HL) as [P1 [N1 [M1 S1]]].
    destruct (routing_exact b a L HL) as [P2 [N2 [M2 S2]]].
    assert (E : route g hs a b L = rev (route g hs b a L)).
    { apply (ssorted_unique (BeforeP g L a b)).
      - intros q Hq. apply before_irrefl. apply M1 in Hq. apply Hq.
      - intros x y Hx Hy. apply before_asym; [apply M1 in Hx; apply Hx | apply M1 in Hy; apply Hy].
      - exact S1.
      - apply (ssorted_impl (fun x y => BeforeP g L b a y x)).
        + intros x y _ _ B. unfold BeforeP in *. apply before_rev. exact B.
        + apply ssorted_rev. exact S2.
      - intro q. rewrite <- in_rev, M1, M2. rewrite (meets_sym a b). tauto. }
    assert (E' : route g hs b a L = rev (route g hs a b L)) by (rewrite E, rev_involutive; reflexivity).
    split; [exact E' |]. rewrite P1, P2, E', map_rev. reflexivity.
  Qed.

  (** a segment between two indexed points starts in the pixel of [a] and ends in the pixel of [b] *)
  Theorem routing_ends_exact a b L : (L <= gdeep g)%nat ->
    In (pixelOf g L a) (hotAt g hs L) -> In (pixelOf g L b) (hotAt g hs L) ->
    (exists r, route g hs a b L = pixelOf g L a :: r) /\
    (exists r, route g hs a b L = r ++ [pixelOf g L b]).
  Proof.
    intros HL Ha Hb. destruct (routing_exact a b L HL) as [_ [_ [M S]]].
    pose proof (pixelOf_contains g L a Hr) as Ca. pose proof (pixelOf_contains g L b Hr) as Cb.
    assert (Ia : In (pixelOf g L a) (route g hs a b L)).
    { apply M. split; [exact Ha |]. exists 0%Q. apply meets_start. exact Ca. }
    assert (Ib : In (pixelOf g L b) (route g hs a b L)).
    { apply M. split; [exact Hb |]. exists 1%Q. apply meets_end. exact Cb. }
    split.
    - destruct (route g hs a b L) as [| h r] eqn:E; [contradiction |]. exists r. f_equal.
      destruct Ia as [Eh | Hr']; [exact Eh | exfalso].
      apply StronglySorted_inv in S as [_ F]. rewrite Forall_forall in F. specialize (F _ Hr').
      apply (before_start a b (pixExt g L (pixelOf g L a)) (pixExt g L h)); [exact Ca | | exact F].
      apply (M h). left. reflexivity.
    - destruct (exists_last (l := route g hs a b L)) as [r [z E]].
      { intro E. rewrite E in Ia. contradiction. }
      rewrite E in *. exists r. f_equal. f_equal.
      apply in_app_or in Ib as [Hr' | [Ez | []]]; [exfalso | exact Ez].
      apply ssorted_app_inv in S as [_ [_ F]]. specialize (F _ z Hr' (or_introl eq_refl)).
      apply (before_end a b (pixExt g L (pixelOf g L b)) (pixExt g L z)); [exact Cb | | exact F].
      apply (M z). apply in_or_app. right. left. reflexivity.
  Qed.
End Exact.

(** ** grids whose stored root extent is larger than the computed one

    [FromTileMatrixSet] stores the real extent of the tile matrix set in the root; when the span
    is not a multiple of 2^deepest the pixels computed from the integer resolution cover a little
    less ([rootBox]).  The stored extent is only used for the two "is the end point inside the
    parent" flags of the root and for the initial test, so for end points that are not in the
    uncovered strip nothing changes. *)
Definition exactGrid (g : grid) : grid := mkGrid (rootBox g) (gres g) (gdeep g).

Lemma exactGrid_quadExtent g l x y : quadExtent (exactGrid g) l x y = quadExtent g l x y.
Proof.
  unfold quadExtent, exactGrid, rootBox, quadSpan. cbn [gext gres gdeep eminx eminy emaxx emaxy quadExtent].
  f_equal; ring.
Qed.

Lemma exactGrid_quadCentroid g l x y : quadCentroid (exactGrid g) l x y = quadCentroid g l x y.
Proof.
  unfold quadCentroid, exactGrid, rootBox, quadSpan. cbn [gext gres gdeep eminx eminy emaxx emaxy quadExtent].
  f_equal; ring.
Qed.

Lemma exactGrid_quadAt g l x y : quadAt (exactGrid g) l x y = quadAt g l x y.
Proof. unfold quadAt. rewrite exactGrid_quadExtent, exactGrid_quadCentroid. reflexivity. Qed.

Lemma exactGrid_root g : gext (exactGrid g) = rootBox (exactGrid g).
Proof. unfold rootBox. rewrite exactGrid_quadExtent. reflexivity. Qed.

Lemma checkLoop_ext a b has has' l : (forall i, has i = has' i) ->
  forall m, checkLoop a b has l m = checkLoop a b has' l m.
Proof.
  intro E. induction l as [| q r IH]; intro m; cbn [checkLoop]; [reflexivity |].
  rewrite <- E. destruct (qmutex q && m); [apply IH |].
  destruct (has (qi q)) as [cq |]; [| apply IH].
  destruct (qcertain q || lineIntersects a b (qext cq)); [f_equal |]; apply IH.
Qed.

Lemma find_congr a b has has' p p' : qcen p = qcen p' ->
  containsPoint a (qext p) = containsPoint a (qext p') ->
  containsPoint b (qext p) = containsPoint b (qext p') ->
  (forall i, has i = has' i) ->
  findIntersectingQuadrants a b has p = findIntersectingQuadrants a b has' p'.
Proof.
  intros Ec Ea Eb Eh. unfold findIntersectingQuadrants. rewrite Ec, Ea, Eb. apply checkLoop_ext. exact Eh.
Qed.

Lemma childHas_exact g hot l p p' i : qx p = qx p' -> qy p = qy p' ->
  childHas g hot l p i = childHas (exactGrid g) hot l p' i.
Proof. intros Ex Ey. unfold childHas. rewrite Ex, Ey, exactGrid_quadAt. reflexivity. Qed.

(** the end points are treated by the stored root extent as by the computed one *)
Definition RootAgrees (g : grid) (a b : pt) : Prop :=
  containsPoint a (gext g) = containsPoint a (rootBox g) /\
  containsPoint b (gext g) = containsPoint b (rootBox g) /\
  lineIntersects a b (gext g) = lineIntersects a b (rootBox g).

Lemma descendTo_exact g hots a b : RootAgrees g a b -> forall L,
  descendTo g hots a b (S L) = descendTo (exactGrid g) hots a b (S L).
Proof.
  intros [Ea [Eb _]]. induction L as [| L IH].
  - cbn [descendTo flat_map]. f_equal. apply find_congr; try reflexivity.
    + cbn [rootQuad qcen]. symmetry. apply exactGrid_quadCentroid.
    + exact Ea.
    + exact Eb.
    + intro i. apply childHas_exact; reflexivity.
  - change (descendTo g hots a b (S (S L))) with
      (flat_map (fun p => findIntersectingQuadrants a b (childHas g (hotLookup hots (S (S L))) (S (S L)) p) p)
                (descendTo g hots a b (S L))).
    change (descendTo (exactGrid g) hots a b (S (S L))) with
      (flat_map (fun p => findIntersectingQuadrants a b (childHas (exactGrid g) (hotLookup hots (S (S L))) (S (S L)) p) p)
                (descendTo (exactGrid g) hots a b (S L))).
    rewrite IH. apply flat_map_ext. intro p. apply find_congr; try reflexivity.
    intro i. apply childHas_exact; reflexivity.
Qed.

Lemma snap_exact g hots a b L : RootAgrees g a b ->
  snapClosestPoints g hots a b L = snapClosestPoints (exactGrid g) hots a b L /\
  map (fun q => (qx q, qy q)) (snapClosestQuads g hots a b L) =
  map (fun q => (qx q, qy q)) (snapClosestQuads (exactGrid g) hots a b L).
Proof.
  intro RA. pose proof RA as [_ [_ El]]. unfold snapClosestPoints, snapClosestQuads.
  change (gext (exactGrid g)) with (rootBox g). rewrite El.
  destruct (lineIntersects a b (rootBox g)); [| split; reflexivity].
  destruct L as [| L].
  - cbn [descendTo map rootQuad qcen qx qy]. rewrite exactGrid_quadCentroid. split; reflexivity.
  - rewrite (descendTo_exact g hots a b RA L). split; reflexivity.
Qed.

Lemma rootAgrees_exact g a b : ExactRoot g -> RootAgrees g a b.
Proof. intro E. apply exactRoot_gext in E. unfold RootAgrees. rewrite <- E. auto. Qed.

(** the computed pixels lie inside the stored extent (true of FromTileMatrixSet: res = XSpan / 2^deepest
    rounded down) and both end points lie in computed pixels (true of polygon vertices that were indexed) *)
Definition RootCovers (g : grid) : Prop := SubE (rootBox g) (gext g).

Lemma rootAgrees_inside g a b : RootCovers g ->
  containsPoint a (rootBox g) = true -> containsPoint b (rootBox g) = true -> RootAgrees g a b.
Proof.
  intros C Ha Hb.
  assert (G : forall p, containsPoint p (rootBox g) = true -> containsPoint p (gext g) = true).
  { intros p Hp. apply containsPoint_iff in Hp. apply containsPoint_iff. unfold RootCovers, SubE in C. lia. }
  unfold RootAgrees. rewrite Ha, Hb, (G a Ha), (G b Hb). split; [reflexivity |]. split; [reflexivity |].
  assert (M1 : lineIntersects a b (rootBox g) = true) by (apply lineIntersects_spec; exists 0%Q; apply meets_start; exact Ha).
  assert (M2 : lineIntersects a b (gext g) = true) by (apply lineIntersects_spec; exists 0%Q; apply meets_start; apply G; exact Ha).
  congruence.
Qed.

(** ** the general statements *)
Section General.
  Variables (g : grid) (hs : hotset).
  Hypothesis Hr : 0 < gres g.
  Hypothesis Hin : Forall (fun c => inGridCoord g c = true) hs.
  Hypothesis Hne : hs <> [].

  Lemma routeSpec_transfer a b L qs :
    RootAgrees g a b -> RouteSpec (exactGrid g) hs a b L qs -> RouteSpec g hs a b L qs.
  Proof.
    intros RA [P [N [M S]]]. unfold RouteSpec.
    split; [| split; [exact N | split]].
    - rewrite (proj1 (snap_exact g (hotLevels g hs) a b L RA)).
      change (hotLevels g hs) with (hotLevels (exactGrid g) hs). rewrite P.
      apply map_ext. intro q. apply exactGrid_quadCentroid.
    - intro q. rewrite (M q). unfold pixExt. rewrite exactGrid_quadExtent. reflexivity.
    - apply (ssorted_impl (BeforeP (exactGrid g) L a b)); [| exact S].
      intros x y _ _. unfold BeforeP, pixExt. rewrite !exactGrid_quadExtent. auto.
  Qed.

  Lemma route_transfer a b L : RootAgrees g a b -> route g hs a b L = route (exactGrid g) hs a b L.
  Proof. intro RA. exact (proj2 (snap_exact g (hotLevels g hs) a b L RA)). Qed.

  Theorem routing a b L : RootAgrees g a b -> (L <= gdeep g)%nat -> RouteSpec g hs a b L (route g hs a b L).
  Proof.
    intros RA HL. rewrite (route_transfer a b L RA). apply routeSpec_transfer; [exact RA |].
    apply (routing_exact (exactGrid g) hs Hr (exactGrid_root g) Hin Hne a b L HL).
  Qed.

  Lemma rootAgrees_sym a b : RootAgrees g a b -> RootAgrees g b a.
  Proof.
    intros [Ea [Eb El]]. split; [exact Eb |]. split; [exact Ea |].
    destruct (lineIntersects b a (gext g)) eqn:E1, (lineIntersects b a (rootBox g)) eqn:E2; try reflexivity; exfalso.
    - apply lineIntersects_spec, meets_sym, lineIntersects_spec in E1. rewrite El in E1.
      apply lineIntersects_spec, meets_sym, lineIntersects_spec in E1. congruence.
    - apply lineIntersects_spec, meets_sym, lineIntersects_spec in E2. rewrite <- El in E2.
      apply lineIntersects_spec, meets_sym, lineIntersects_spec in E2. congruence.
  Qed.

  Theorem routing_reverse a b L : RootAgrees g a b -> (L <= gdeep g)%nat ->
    route g hs b a L = rev (route g hs a b L) /\
    snapClosestPoints g (hotLevels g hs) b a L = rev (snapClosestPoints g (hotLevels g hs) a b L).
  Proof.
    intros RA HL. pose proof (rootAgrees_sym a b RA) as RA'.
    rewrite (route_transfer a b L RA), (route_transfer b a L RA').
    rewrite (proj1 (snap_exact g (hotLevels g hs) a b L RA)), (proj1 (snap_exact g (hotLevels g hs) b a L RA')).
    apply (routing_reverse_exact (exactGrid g) hs Hr (exactGrid_root g) Hin Hne a b L HL).
  Qed.

  Theorem routing_ends a b L : RootAgrees g a b -> (L <= gdeep g)%nat ->
    In (pixelOf g L a) (hotAt g hs L) -> In (pixelOf g L b) (hotAt g hs L) ->
    (exists r, route g hs a b L = pixelOf g L a :: r) /\
    (exists r, route g hs a b L = r ++ [pixelOf g L b]).
  Proof.
    intros RA HL Ha Hb. rewrite (route_transfer a b L RA).
    assert (Ep : forall v, pixelOf g L v = pixelOf (exactGrid g) L v).
    { intro v. unfold pixelOf, deepestCoord, exactGrid, rootBox, quadExtent. cbn [gext gres gdeep eminx eminy].
      rewrite !Z.mul_0_l, !Z.add_0_r. reflexivity. }
    rewrite !Ep. rewrite !Ep in Ha, Hb.
    apply (routing_ends_exact (exactGrid g) hs Hr (exactGrid_root g) Hin Hne a b L HL Ha Hb).
  Qed.
End General.

(** ** for an indexed polygon *)
Lemma insideGrid_rootBox g p : insideGrid g p <-> containsPoint p (rootBox g) = true.
Proof.
  rewrite containsPoint_iff. unfold insideGrid, rootBox, quadExtent. cbn [eminx eminy emaxx emaxy].
  rewrite quadSpan_root. lia.
Qed.

Lemma vertex_inside g P hs v : 0 < gres g -> insertPolygon g P = Ok hs -> In v (concat P) ->
  containsPoint v (rootBox g) = true.
Proof.
  intros Hr Hi Hv. apply insideGrid_rootBox.
  assert (F : Forall (insideGrid g) (concat P)) by (apply (insertPolygon_ok_iff g P Hr); eauto).
  rewrite Forall_forall in F. apply F. exact Hv.
Qed.

(** C02_routing, exact root *)
Theorem C02_routing_exact g P hs a b L : 0 < gres g -> ExactRoot g ->
  insertPolygon g P = Ok hs -> hs <> [] -> (L <= gdeep g)%nat ->
  RouteSpec g hs a b L (route g hs a b L).
Proof.
  intros Hr Ex Hi Hne HL. apply insertPolygon_ok in Hi as [_ Hin].
  apply routing; try assumption. apply rootAgrees_exact. exact Ex.
Qed.

(** C02_routing for the edges of the indexed polygon, any grid whose stored extent covers the pixels *)
Theorem C02_routing_vertices g P hs a b L : 0 < gres g -> RootCovers g ->
  insertPolygon g P = Ok hs -> In a (concat P) -> In b (concat P) -> (L <= gdeep g)%nat ->
  RouteSpec g hs a b L (route g hs a b L) /\
  (exists r, route g hs a b L = pixelOf g L a :: r) /\
  (exists r, route g hs a b L = r ++ [pixelOf g L b]) /\
  route g hs b a L = rev (route g hs a b L) /\
  snapClosestPoints g (hotLevels g hs) b a L = rev (snapClosestPoints g (hotLevels g hs) a b L).
Proof.
  intros Hr C Hi Ha Hb HL.
  pose proof (vertex_inside g P hs a Hr Hi Ha) as Ia. pose proof (vertex_inside g P hs b Hr Hi Hb) as Ib.
  pose proof (rootAgrees_inside g a b C Ia Ib) as RA.
  destruct (hot_contains_vertex g P hs a L Hr Hi Ha) as [Pa _].
  destruct (hot_contains_vertex g P hs b L Hr Hi Hb) as [Pb _].
  pose proof Hi as Hi'. apply insertPolygon_ok in Hi' as [Ehs Hin].
  assert (Hne : hs <> []).
  { rewrite Ehs. destruct (concat P); [contradiction | discriminate]. }
  split; [apply routing; assumption |].
  destruct (routing_ends g hs Hr Hin Hne a b L RA HL Pa Pb) as [E1 E2].
  split; [exact E1 |]. split; [exact E2 |].
  apply routing_reverse; assumption.
Qed.
