(** * Tie G2: pointindex.DeviationStats regenerated from source on every run (gen/DeviationGen.v, translator/deviation.go)
      and the deviation bound of property C03.

    REGENERATED: the numeric statements of DeviationStats (the two early returns, floatSpanX, floatRes, intRes with the
    truncating int64 division, floatRecalcMaxX, intRecalcMaxX = ToGeomOrd(intRes * int64(deepestSize)), deviationInUnits,
    deviationInPixels); it calls FromTileMatrixSet, ToGeomOrd and Extent.XSpan as regenerated in gen/IndexTopGen.v.
    READING: float64 = exact Q ([fo_exact lg], Index/GoDeviation.v), math.Log2 = any function [lg]; the rounding of the
    binary64 arithmetic of the real computation is outside the theorems.
    DROPPED (checked to only build the statistics text): the [stats += fmt.Sprintf(..)] statements.

    Results:
    - [gen_DeviationStats_spec]: an error of MatrixBoundingBox is returned as it is, with zero deviations; otherwise, for
      every view of a tile matrix set and every deepest id for which FromTileMatrixSet succeeds (level <= 32, integer x
      span non-negative and within int64), the function returns without a panic
      deviationInUnits == span - (span_int / 2^d) * 2^d / 10^10 ([deviation_closed]) and
      deviationInPixels == deviationInUnits / (span / 2^d);
    - [deviation_closed_grid], [deviation_closed_units]: in terms of the grid [tmsGrid e d] the index is built for,
      deviation * 10^10 = (X - gsize * gres) + (frac tr - frac bl), the first term being the [dev] of
      [centre_deviation_bound] and [frac] what FromGeomOrd truncates away of a corner ordinate (|frac| < 1 unit of 1e-10);
    - [deviation_bounds_distance]: the distance from a returned x ordinate (ToGeomOrd of a centroid, exact) to the ideal
      pixel centre is within (-1e-10, deviation + 3.5e-10); for corners that are whole numbers of units it is within
      [0, deviation + 0.5e-10], within [0, deviation] above the deepest level or for an even resolution;
    - [deviation_sign]: for such corners the deviation is >= 0, and = 0 exactly when 2^d divides the integer span. *)
From Coq Require Import ZArith NArith QArith Qround Qabs List Bool Lia Lqa.
From Texel Require Import Prelude.Base Prelude.GoAssoc Index.MachineInt Index.GoTop Index.Model Index.ProofsGen Index.ProofsInsert Index.ProofsGrid
  Index.ProofsCentre Index.ProofsRound Index.ProofsGenDescent Index.ProofsGenIndexTop Index.GoDeviation.
From Texel.Gen Require Import PointIndexGen LineGen ChildrenGen FindGen HitsGen DescentGen IndexTopGen DeviationGen.
Import ListNotations.
Open Scope Z_scope.

(** ** the exact float operations *)

Lemma pow10_exact lg : pow10_precision (fo_exact lg) = units_per_one.
Proof. reflexivity. Qed.

Lemma units_pos : (0 < units_per_one)%Q.
Proof. reflexivity. Qed.

Lemma ofF_exact lg (q : Q) : ofF (fo_exact lg) q = q_trunc (q * units_per_one).
Proof. reflexivity. Qed.

Lemma toF_exact lg (z : Z) : (toF (fo_exact lg) z == units_of z)%Q.
Proof.
  unfold toF, units_of. destruct (Z.eqb_spec z 0) as [-> | _].
  - reflexivity.
  - reflexivity.
Qed.

(** truncation toward zero: what is dropped is below one, and has the sign of the number *)
Lemma q_trunc_spec (q : Q) :
  exists r : Q, (q == inject_Z (q_trunc q) + r)%Q /\ (- (1) < r)%Q /\ (r < 1)%Q /\
                ((0 <= q)%Q -> (0 <= r)%Q) /\ ((q <= 0)%Q -> (r <= 0)%Q).
Proof.
  destruct q as [n d]. unfold q_trunc. cbn [Qnum Qden].
  exists (Z.rem n (Zpos d) # d).
  pose proof (Z.quot_rem' n (Zpos d)) as E.
  assert (Hd : 0 < Zpos d) by lia.
  repeat split.
  - unfold Qeq, Qplus, inject_Z. cbn [Qnum Qden]. nia.
  - unfold Qlt. cbn [Qnum Qden Qopp]. Z.to_euclidean_division_equations. nia.
  - unfold Qlt. cbn [Qnum Qden]. Z.to_euclidean_division_equations. nia.
  - unfold Qle. cbn [Qnum Qden]. intro H. Z.to_euclidean_division_equations. nia.
  - unfold Qle. cbn [Qnum Qden]. intro H. Z.to_euclidean_division_equations. nia.
Qed.

Lemma q_frac_bounds (x : Q) :
  (- (1) < q_frac x)%Q /\ (q_frac x < 1)%Q /\ ((0 <= x)%Q -> (0 <= q_frac x)%Q) /\ ((x <= 0)%Q -> (q_frac x <= 0)%Q).
Proof.
  unfold q_frac. destruct (q_trunc_spec (x * units_per_one)) as (r & E & L & U & P & N).
  pose proof units_pos as Hu.
  assert (Er : (x * units_per_one - inject_Z (q_trunc (x * units_per_one)) == r)%Q) by lra.
  rewrite Er. repeat split; try assumption.
  - intro Hx. apply P. apply Qmult_le_0_compat; lra.
  - intro Hx. apply N. setoid_replace (x * units_per_one)%Q with (- ((- x) * units_per_one))%Q by ring.
    assert (0 <= (- x) * units_per_one)%Q by (apply Qmult_le_0_compat; lra). lra.
Qed.

(** ** the regenerated function *)

Lemma size_facts d : (d <= 32)%nat ->
  0 < pow2 d /\ i64_of_N (Z.to_N (pow2 d)) = pow2 d /\ Z.of_N (Z.to_N (pow2 d)) = pow2 d.
Proof.
  intro Hd. pose proof (pow2_pos d) as Pp.
  assert (P32 : pow2 d <= 2 ^ 32) by (unfold pow2; apply Z.pow_le_mono_r; lia). change (2 ^ 32) with 4294967296 in P32.
  split; [exact Pp |]. split.
  - unfold i64_of_N. rewrite Z2N.id by lia. apply wrap64_small. apply (proj2 (is_i64_bounds _)). lia.
  - apply Z2N.id. lia.
Qed.

Lemma dev_algebra (T B S R : Q) : ~ (S == 0)%Q -> ((T - B) / S * S - R == T - B - R)%Q.
Proof. intro H. field. exact H. Qed.

Theorem gen_DeviationStats_spec lg (t : gotms (fo_exact lg) gen_OutsideGridError) (tmid : Z) :
  (forall bl tr er, gotms_MatrixBoundingBox t 0 = (bl, tr, Some er) ->
     gen_DeviationStats lg t tmid = DOk (0%Q, 0%Q, Some er)) /\
  (forall bl tr (d : nat), gotms_MatrixBoundingBox t 0 = (bl, tr, None) ->
     tms_level (fo_exact lg) t tmid = N.of_nat d -> (d <= 32)%nat ->
     let e := bbox_extent (fo_exact lg) bl tr in
     eminx e <= emaxx e -> is_i64 (emaxx e - eminx e) ->
     exists U P : Q, gen_DeviationStats lg t tmid = DOk (U, P, None) /\
       (U == deviation_closed bl tr e d)%Q /\
       (P == U / ((fst tr - fst bl) / inject_Z (pow2 d)))%Q).
Proof.
  split.
  - intros bl tr er Hb. unfold gen_DeviationStats. cbv zeta. rewrite Hb. reflexivity.
  - intros bl tr d Hb Hl Hd e He Hspan.
    destruct (gen_FromTileMatrixSet_spec (fo_exact lg) t tmid) as [_ HF].
    specialize (HF bl tr d Hb Hl Hd He Hspan). fold e in HF.
    destruct (size_facts d Hd) as (Pp & Esize & Esz).
    set (span := emaxx e - eminx e) in *.
    assert (Hq : quot64 span (pow2 d) = Ok (span / pow2 d)).
    { unfold quot64. destruct (Z.eqb_spec (pow2 d) 0); [lia |]. f_equal.
      rewrite Z.quot_div_nonneg by lia. apply wrap64_small. apply floor_div_range; [exact Pp | exact Hspan]. }
    assert (Hm : mul64w (span / pow2 d) (pow2 d) = span / pow2 d * pow2 d).
    { unfold mul64w. apply wrap64_small. apply (proj1 (is_i64_bounds _)) in Hspan. apply (proj2 (is_i64_bounds _)).
      pose proof (Z.mul_div_le span (pow2 d) Pp). assert (0 <= span) by (unfold span; lia).
      assert (0 <= span / pow2 d) by (apply Z.div_pos; lia). nia. }
    destruct (generated_intgeom_is_model (fo_exact lg)) as (HT & _ & _ & _ & _ & _ & _ & HX).
    unfold gen_DeviationStats. cbv zeta. rewrite Hb. cbn [is_some]. rewrite HF.
    cbn [dlift dbind dderef is_some].
    unfold gen_empty_indexT.
    cbn [PointIndexT_deepestSize PointIndexT_Quadrant Quadrant_intExtent].
    unfold tmsGrid, gsize. cbn [gext gdeep gres].
    rewrite Esize, Esz. rewrite (HX e Hspan). fold span. rewrite Hq. cbn [dlift dbind]. rewrite Hm. rewrite HT.
    eexists. eexists. split; [reflexivity |].
    assert (Pq : ~ (inject_Z (pow2 d) == 0)%Q).
    { intro H0. assert (0 < inject_Z (pow2 d))%Q by (change 0%Q with (inject_Z 0); rewrite <- Zlt_Qlt; exact Pp). lra. }
    assert (EU : ((fst tr - fst bl) / inject_Z (pow2 d) * inject_Z (pow2 d) - toF (fo_exact lg) (span / pow2 d * pow2 d)
                 == deviation_closed bl tr e d)%Q).
    { unfold deviation_closed. fold span. rewrite toF_exact. unfold units_of. apply dev_algebra. exact Pq. }
    split; [exact EU |]. rewrite EU. reflexivity.
Qed.

(** ** the closed form against the grid of the index and the [dev] of [centre_deviation_bound] *)

Lemma deviation_closed_grid bl tr e d :
  (deviation_closed bl tr e d ==
   (fst tr - fst bl) - inject_Z (gsize (tmsGrid e d) * gres (tmsGrid e d)) / units_per_one)%Q.
Proof.
  unfold deviation_closed, tmsGrid, gsize. cbn [gext gres gdeep]. rewrite (Z.mul_comm (pow2 d)). reflexivity.
Qed.

Lemma units_algebra (T B R ma mi u : Q) : ~ (u == 0)%Q ->
  (((T - B) - R / u) * u == (ma - mi - R) + ((T * u - ma) - (B * u - mi)))%Q.
Proof. intro H. field. exact H. Qed.

Lemma units_nz : ~ (units_per_one == 0)%Q.
Proof. discriminate. Qed.

Lemma deviation_closed_units lg (bl tr : Q * Q) d :
  let e := bbox_extent (fo_exact lg) bl tr in
  let g := tmsGrid e d in
  (deviation_closed bl tr e d * units_per_one ==
   inject_Z ((emaxx e - eminx e) - gsize g * gres g) + (q_frac (fst tr) - q_frac (fst bl)))%Q.
Proof.
  intros e g. rewrite deviation_closed_grid. fold g.
  unfold q_frac. change (q_trunc (fst tr * units_per_one)) with (emaxx e). change (q_trunc (fst bl * units_per_one)) with (eminx e).
  unfold Z.sub. rewrite !inject_Z_plus, !inject_Z_opp.
  rewrite (units_algebra (fst tr) (fst bl) (inject_Z (gsize g * gres g)) (inject_Z (emaxx e)) (inject_Z (eminx e)) _ units_nz).
  ring.
Qed.

(** ** the distance to the ideal pixel centre *)

Lemma dist_algebra (B T K W c u mi ma : Q) : ~ (W == 0)%Q -> ~ (u == 0)%Q ->
  ((B + K * ((T - B) / W) - c / u) * u ==
   (mi + K * ((ma - mi) / W) - c) + (B * u - mi) + (K / W) * ((T * u - ma) - (B * u - mi)))%Q.
Proof. intros H1 H2. field. split; assumption. Qed.

Lemma mulpos (a b : Q) : (0 < a -> 0 < b -> 0 < a * b)%Q.
Proof. intros Ha Hb. apply Qmult_lt_0_compat; assumption. Qed.

Lemma bound_algebra (D dev fb ft th : Q) :
  (0 < th -> th < 1 -> - (1) < fb -> fb < 1 -> - (1) < ft -> ft < 1 -> 0 <= D -> D <= dev + (1 # 2) ->
   - (1) < D + fb + th * (ft - fb) /\ D + fb + th * (ft - fb) < (dev + (ft - fb)) + (7 # 2))%Q.
Proof.
  intros T0 T1 B0 B1 F0 F1 D0 D1.
  pose proof (mulpos (1 - th) (fb + 1) ltac:(lra) ltac:(lra)) as P1.
  pose proof (mulpos th (ft + 1) T0 ltac:(lra)) as P2.
  pose proof (mulpos (2 - th) (1 - fb) ltac:(lra) ltac:(lra)) as P3.
  pose proof (mulpos (1 - th) (ft + 1) ltac:(lra) ltac:(lra)) as P4.
  split; nra.
Qed.

Lemma theta_bounds (k : Z) (l : nat) : 0 <= k < pow2 l ->
  (0 < (inject_Z k + (1 # 2)) / inject_Z (pow2 l) /\ (inject_Z k + (1 # 2)) / inject_Z (pow2 l) < 1)%Q.
Proof.
  intros [K0 K1].
  assert (W0 : (0 < inject_Z (pow2 l))%Q) by (change 0%Q with (inject_Z 0); rewrite <- Zlt_Qlt; lia).
  assert (Kq : (0 <= inject_Z k)%Q) by (change 0%Q with (inject_Z 0); rewrite <- Zle_Qle; lia).
  assert (Kw : (inject_Z k + 1 <= inject_Z (pow2 l))%Q).
  { change 1%Q with (inject_Z 1). rewrite <- inject_Z_plus, <- Zle_Qle. lia. }
  split.
  - apply Qlt_shift_div_l; [exact W0 | lra].
  - apply Qlt_shift_div_r; [exact W0 | lra].
Qed.

Lemma unscale_lt_l (a x u : Q) : (0 < u -> a < x * u -> a / u < x)%Q.
Proof. intros Hu H. apply Qlt_shift_div_r; assumption. Qed.

Lemma unscale_lt_r (x y c u : Q) : (0 < u -> x * u < y * u + c -> x < y + c / u)%Q.
Proof.
  intros Hu H. apply (proj1 (Qmult_lt_r x (y + c / u) u Hu)).
  setoid_replace ((y + c / u) * u)%Q with (y * u + c)%Q by (field; lra). exact H.
Qed.

Lemma unscale_le_r (x y c u : Q) : (0 < u -> x * u <= y * u + c -> x <= y + c / u)%Q.
Proof.
  intros Hu H. apply (proj1 (Qmult_le_r x (y + c / u) u Hu)).
  setoid_replace ((y + c / u) * u)%Q with (y * u + c)%Q by (field; lra). exact H.
Qed.

Lemma unscale_le0 (x u : Q) : (0 < u -> 0 <= x * u -> 0 <= x)%Q.
Proof. intros Hu H. apply (proj1 (Qmult_le_r 0 x u Hu)). lra. Qed.

Lemma unscale_le (x y u : Q) : (0 < u -> x * u <= y * u -> x <= y)%Q.
Proof. intros Hu H. apply (proj1 (Qmult_le_r x y u Hu)). exact H. Qed.

Theorem deviation_bounds_distance lg (bl tr : Q * Q) (d l : nat) (k y : Z) :
  let e := bbox_extent (fo_exact lg) bl tr in
  let g := tmsGrid e d in
  (l <= d)%nat -> 0 <= k < pow2 l ->
  let U := deviation_closed bl tr e d in
  let dist := (ideal_centre_x bl tr l k - units_of (fst (quadCentroid g l k y)))%Q in
  ((- (1) / units_per_one < dist /\ dist < U + (7 # 2) / units_per_one) /\
   (representable (fst bl) -> representable (fst tr) ->
      0 <= U /\ 0 <= dist /\ dist <= U + (1 # 2) / units_per_one /\
      (((l < d)%nat \/ Z.even (gres g) = true) -> dist <= U)))%Q.
Proof.
  intros e g Hl Hk U dist.
  pose proof (centre_deviation_bound g l k y eq_refl Hl Hk) as HC. cbv zeta in HC.
  change (gext g) with e in HC. change (gdeep g) with d in HC.
  set (X := emaxx e - eminx e) in *.
  set (D := (inject_Z (eminx e) + (inject_Z k + (1 # 2)) * (inject_Z X / inject_Z (pow2 l)) -
             inject_Z (fst (quadCentroid g l k y)))%Q) in *.
  set (dev := inject_Z (X - gsize g * gres g)) in *.
  destruct HC as (Dev0 & D0 & D1 & D2).
  pose proof units_pos as Hu. pose proof units_nz as Hnz.
  pose proof (theta_bounds k l Hk) as [T0 T1].
  set (th := ((inject_Z k + (1 # 2)) / inject_Z (pow2 l))%Q) in *.
  assert (W0 : ~ (inject_Z (pow2 l) == 0)%Q).
  { intro H0. assert (0 < inject_Z (pow2 l))%Q by (change 0%Q with (inject_Z 0); rewrite <- Zlt_Qlt; apply pow2_pos). lra. }
  destruct (q_frac_bounds (fst bl)) as (B0 & B1 & _ & _). destruct (q_frac_bounds (fst tr)) as (F0 & F1 & _ & _).
  assert (E1 : (dist * units_per_one == D + q_frac (fst bl) + th * (q_frac (fst tr) - q_frac (fst bl)))%Q).
  { unfold dist, ideal_centre_x, units_of, D, th, q_frac.
    change (q_trunc (fst tr * units_per_one)) with (emaxx e). change (q_trunc (fst bl * units_per_one)) with (eminx e).
    rewrite (dist_algebra (fst bl) (fst tr) (inject_Z k + (1 # 2)) (inject_Z (pow2 l)) (inject_Z (fst (quadCentroid g l k y)))
               units_per_one (inject_Z (eminx e)) (inject_Z (emaxx e)) W0 Hnz).
    unfold X, Z.sub. rewrite inject_Z_plus, inject_Z_opp. reflexivity. }
  assert (E2 : (U * units_per_one == dev + (q_frac (fst tr) - q_frac (fst bl)))%Q).
  { unfold U, dev, X. exact (deviation_closed_units lg bl tr d). }
  split.
  - destruct (bound_algebra D dev (q_frac (fst bl)) (q_frac (fst tr)) th T0 T1 B0 B1 F0 F1 D0 D1) as [L R].
    rewrite <- E1 in L, R. rewrite <- E2 in R. split.
    + apply unscale_lt_l; assumption.
    + apply unscale_lt_r; assumption.
  - intros Rb Rt. unfold representable in Rb, Rt. rewrite Rb, Rt in E1, E2.
    assert (E1' : (dist * units_per_one == D)%Q) by (rewrite E1; ring).
    assert (E2' : (U * units_per_one == dev)%Q) by (rewrite E2; ring).
    split; [apply (unscale_le0 U _ Hu); rewrite E2'; exact Dev0 |].
    split; [apply (unscale_le0 dist _ Hu); rewrite E1'; exact D0 |].
    split; [apply unscale_le_r; [exact Hu |]; rewrite E1', E2'; exact D1 |].
    intro Hev. apply (unscale_le dist U _ Hu). rewrite E1', E2'. exact (D2 Hev).
Qed.

(** sign and zero: for corners that are whole numbers of units the reported deviation is what the integer division
    drops, X mod 2^d units: never negative, zero exactly for the "round" sets *)
Theorem deviation_sign lg (bl tr : Q * Q) (d : nat) :
  let e := bbox_extent (fo_exact lg) bl tr in
  representable (fst bl) -> representable (fst tr) ->
  (deviation_closed bl tr e d * units_per_one == inject_Z ((emaxx e - eminx e) mod pow2 d))%Q /\
  (0 <= deviation_closed bl tr e d)%Q /\
  ((deviation_closed bl tr e d == 0)%Q <-> (pow2 d | emaxx e - eminx e)).
Proof.
  intros e Rb Rt. pose proof (deviation_closed_units lg bl tr d) as E. cbv zeta in E. fold e in E.
  unfold representable in Rb, Rt. rewrite Rb, Rt in E.
  pose proof (pow2_pos d) as Pp. pose proof units_pos as Hu.
  set (X := emaxx e - eminx e) in *.
  assert (Em : X - gsize (tmsGrid e d) * gres (tmsGrid e d) = X mod pow2 d).
  { unfold tmsGrid, gsize. cbn [gext gres gdeep]. fold X. rewrite Z.mod_eq by lia. reflexivity. }
  rewrite Em in E.
  assert (E' : (deviation_closed bl tr e d * units_per_one == inject_Z (X mod pow2 d))%Q) by (rewrite E; ring).
  pose proof (Z.mod_pos_bound X (pow2 d) Pp) as Mb.
  assert (M0 : (0 <= inject_Z (X mod pow2 d))%Q) by (change 0%Q with (inject_Z 0); rewrite <- Zle_Qle; lia).
  split; [exact E' |]. split.
  - apply (unscale_le0 _ _ Hu). rewrite E'. exact M0.
  - split.
    + intro H0. rewrite H0 in E'. apply Z.mod_divide; [lia |].
      assert (H1 : (inject_Z (X mod pow2 d) == inject_Z 0)%Q) by (rewrite <- E'; ring).
      unfold Qeq in H1. cbn [Qnum Qden inject_Z] in H1. lia.
    + intro Hdiv. apply Z.mod_divide in Hdiv; [| lia]. rewrite Hdiv in E'.
      apply Qmult_integral in E'. destruct E' as [E0 | E0]; [exact E0 | lra].
Qed.

(** ** the headline: the number the regenerated DeviationStats returns bounds the distance *)
Theorem gen_DeviationStats_bounds lg (t : gotms (fo_exact lg) gen_OutsideGridError) (tmid : Z) (bl tr : Q * Q) (d : nat) :
  gotms_MatrixBoundingBox t 0 = (bl, tr, None) ->
  tms_level (fo_exact lg) t tmid = N.of_nat d -> (d <= 32)%nat ->
  let e := bbox_extent (fo_exact lg) bl tr in
  let g := tmsGrid e d in
  eminx e <= emaxx e -> is_i64 (emaxx e - eminx e) ->
  exists U P : Q, gen_DeviationStats lg t tmid = DOk (U, P, None) /\
    forall (l : nat) (k y : Z), (l <= d)%nat -> 0 <= k < pow2 l ->
      let dist := (ideal_centre_x bl tr l k - units_of (fst (quadCentroid g l k y)))%Q in
      ((- (1) / units_per_one < dist /\ dist < U + (7 # 2) / units_per_one) /\
       (representable (fst bl) -> representable (fst tr) ->
          0 <= U /\ 0 <= dist /\ dist <= U + (1 # 2) / units_per_one /\
          (((l < d)%nat \/ Z.even (gres g) = true) -> dist <= U)))%Q.
Proof.
  intros Hb Hl Hd e g He Hs.
  destruct (gen_DeviationStats_spec lg t tmid) as [_ HO].
  destruct (HO bl tr d Hb Hl Hd He Hs) as (U & P & HG & HU & _).
  exists U, P. split; [exact HG |].
  intros l k y Hll Hk. cbv zeta. fold e in HU. rewrite HU.
  exact (deviation_bounds_distance lg bl tr d l k y Hll Hk).
Qed.
