(** * Why the model may address pixels by (x, y) although the Go code keys them by Morton code.

    pointindex.go stores the occupied pixels of a level in a map keyed by [morton.MustToZ x y] and finds the
    children of a parent through [getQuadrantZs parent.z].  Index/Model.v keeps the pairs (x, y) and looks
    up (2x+i, 2y+j).  By C17 (theorems about the programs regenerated from morton.go) the two are the same:
    - membership of a key in the keyed set = membership of the address in the address set (injectivity);
    - the i-th key returned by getQuadrantZs for the key of (x, y) is the key of the model's i-th child
      (2x + oneIfRight i, 2y + oneIfTop i), for i = 0..3 in the same order. *)
From Coq Require Import ZArith NArith List Bool Lia ZifyN ZifyBool.
From Texel Require Import Prelude.Base Bits.Bexpr Bits.MortonSpec Bits.Morton Bits.MortonProofs Index.Model.
Import ListNotations.

(** the key of an address (addresses are non-negative; below 2^32 at levels <= 32) *)
Definition key (c : Z * Z) : N := fst (toZ (Z.to_N (fst c)) (Z.to_N (snd c))).

Definition small (c : Z * Z) : Prop := (0 <= fst c < 2 ^ 32 /\ 0 <= snd c < 2 ^ 32)%Z.

Lemma small_N c : small c -> (Z.to_N (fst c) < 2 ^ 32 /\ Z.to_N (snd c) < 2 ^ 32)%N.
Proof.
  intros [[H1 H2] [H3 H4]]. split.
  - change (2 ^ 32)%N with (Z.to_N (2 ^ 32)). apply Z2N.inj_lt; lia.
  - change (2 ^ 32)%N with (Z.to_N (2 ^ 32)). apply Z2N.inj_lt; lia.
Qed.

Lemma key_injective c c' : small c -> small c' -> key c = key c' -> c = c'.
Proof.
  intros S S' H. destruct (small_N c S) as [A B]. destruct (small_N c' S') as [A' B'].
  destruct (injective _ _ _ _ A B A' B' H) as [E1 E2].
  destruct c as [x y], c' as [x' y']. cbn [fst snd] in *. destruct S as [[? ?] [? ?]], S' as [[? ?] [? ?]].
  cbn [fst snd] in *. apply Z2N.inj in E1; [| lia | lia]. apply Z2N.inj in E2; [| lia | lia]. congruence.
Qed.

Definition mem_key (k : N) (l : list N) : bool := existsb (N.eqb k) l.

(** a map keyed by Morton code holds the key of an address iff the address set holds the address *)
Theorem keyed_membership c hot : small c -> Forall small hot ->
  mem_key (key c) (map key hot) = mem_addr c hot.
Proof.
  intros S F. induction hot as [| h hot IH]; [reflexivity |].
  inversion F as [| ? ? Sh Fh]; subst. cbn [map mem_key existsb mem_addr]. fold (mem_key (key c) (map key hot)).
  rewrite (IH Fh). f_equal.
  destruct (N.eqb_spec (key c) (key h)) as [E | NE].
  - apply (key_injective c h S Sh) in E. subst h. unfold addr_eqb. rewrite !Z.eqb_refl. reflexivity.
  - unfold addr_eqb. destruct (Z.eqb_spec (fst c) (fst h)) as [E1 | ?]; [| reflexivity].
    destruct (Z.eqb_spec (snd c) (snd h)) as [E2 | ?]; [| reflexivity].
    exfalso. apply NE. destruct c, h. cbn [fst snd] in *. subst. reflexivity.
Qed.

(** the children enumerated by getQuadrantZs are, in order, the keys of the model's children *)
Theorem children_keys x y : (0 <= x < 2 ^ 31)%Z -> (0 <= y < 2 ^ 31)%Z ->
  getQuadrantZs (key (x, y)) =
  map (fun i => Some (key (2 * x + oneIfRight i, 2 * y + oneIfTop i)%Z)) [0; 1; 2; 3]%nat.
Proof.
  intros Hx Hy. unfold key. cbn [fst snd].
  assert (A : (Z.to_N x < 2 ^ 31)%N) by (change (2 ^ 31)%N with (Z.to_N (2 ^ 31)); apply Z2N.inj_lt; lia).
  assert (B : (Z.to_N y < 2 ^ 31)%N) by (change (2 ^ 31)%N with (Z.to_N (2 ^ 31)); apply Z2N.inj_lt; lia).
  assert (A' : (Z.to_N x < 2 ^ 32)%N) by (change (2 ^ 32)%N with (2 * 2 ^ 31)%N; lia).
  assert (B' : (Z.to_N y < 2 ^ 32)%N) by (change (2 ^ 32)%N with (2 * 2 ^ 31)%N; lia).
  rewrite (children (Z.to_N x) (Z.to_N y) A B). cbn zeta.
  rewrite (toZ_spec _ _ A' B'). cbn [fst map oneIfRight oneIfTop].
  assert (C : forall a b : bool,
             fst (toZ (Z.to_N (2 * x + Z.b2z a)) (Z.to_N (2 * y + Z.b2z b)))
             = (4 * interleave (Z.to_N x) (Z.to_N y) + bit a + 2 * bit b)%N).
  { intros a b.
    change (2 ^ 31)%Z with 2147483648%Z in Hx, Hy.
    assert (Ea : Z.to_N (2 * x + Z.b2z a) = (2 * Z.to_N x + bit a)%N) by (destruct a; unfold Z.b2z, bit; lia).
    assert (Eb : Z.to_N (2 * y + Z.b2z b) = (2 * Z.to_N y + bit b)%N) by (destruct b; unfold Z.b2z, bit; lia).
    rewrite Ea, Eb.
    assert (La : (2 * Z.to_N x + bit a < 2 ^ 32)%N) by (change (2 ^ 32)%N with (2 * 2 ^ 31)%N; destruct a; unfold bit; lia).
    assert (Lb : (2 * Z.to_N y + bit b < 2 ^ 32)%N) by (change (2 ^ 32)%N with (2 * 2 ^ 31)%N; destruct b; unfold bit; lia).
    rewrite (toZ_spec _ _ La Lb). cbn [fst]. apply interleave_child. }
  pose proof (C false false) as C00. pose proof (C true false) as C10.
  pose proof (C false true) as C01. pose proof (C true true) as C11.
  cbn [Z.b2z bit] in C00, C10, C01, C11.
  rewrite C00, C10, C01, C11.
  repeat match goal with
         | |- _ :: _ = _ :: _ => f_equal
         | |- Some _ = Some _ => f_equal; lia
         end.
Qed.
