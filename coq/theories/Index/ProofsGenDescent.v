(** * Tie G2 + refinement: [PointIndex.snapClosestPoints] of pointindex.go, regenerated from source on every run
      (gen/DescentGen.v), computes the model's descent (Index/Model.v [descendTo] / [snapClosestQuads]) when the
      index of the code, keyed by Morton codes, REFINES the occupied-address lists of the model: key = toZ(x, y).

    The code keeps, per level, a map from [morton.MustToZ x y] to the quadrant; the model keeps, per level, the list
    of occupied addresses (x, y) and computes a quadrant from its address ([quadAt]).  [ix_rel g hots ix]:
    - the root quadrant of [ix] is the model's root (key 0, the stored extent, the computed centroid);
    - [ix.deepestLevel], [ix.deepestSize], [ix.deepestRes] are the model's;
    - for every level 1 <= l <= deepest and every address c below 2^32: the level-l map of the code has an entry for
      [key c] iff c is occupied at level l in the model, and the entry is the quadrant of c ([gq_quad (quadAt g l c)]).
    Theorems of C17 used (Bits/MortonProofs.v, Index/ProofsMortonTie.v, about the programs regenerated from morton.go):
    [children_keys] — getQuadrantZs of the key of (x, y) returns the keys of the four children in order — and
    [gen_getQuadrantZs_spec] (the regenerated getQuadrantZs is the model's).

    Trusted / modelled: as listed at the top of gen/DescentGen.v (maps as association lists, range loops, the fuel of
    the level loop, uint as N). *)
From Coq Require Import ZArith NArith List Bool Lia.
From Texel Require Import Prelude.Base Prelude.GoLoop Prelude.GoAssoc Bits.Bexpr Bits.Morton Bits.ProofsGenChildren.
From Texel Require Import Index.Model Index.MachineInt Index.ProofsGen Index.ProofsGenLine Index.ProofsInsert Index.ProofsGrid Index.ProofsMortonTie
  Index.ProofsCentre Index.ProofsGenFind.
From Texel.Gen Require Import PointIndexGen LineGen ChildrenGen FindGen DescentGen.
Import ListNotations.
Open Scope Z_scope.

(** ** association lists *)
Section GoMapFacts.
  Context {K V : Type} (eqb : K -> K -> bool).
  Hypothesis eqb_spec : forall x y, eqb x y = true <-> x = y.

  Lemma eqb_refl' x : eqb x x = true.
  Proof. apply eqb_spec. reflexivity. Qed.

  Lemma gm_get_set (m : gomap K V) k v k' :
    gm_get eqb (gm_set eqb m k v) k' = if eqb k' k then Some v else gm_get eqb m k'.
  Proof.
    induction m as [| [k0 v0] r IH]; cbn [gm_set gm_get].
    - destruct (eqb k' k); reflexivity.
    - destruct (eqb k k0) eqn:E0.
      + apply eqb_spec in E0. subst k0. cbn [gm_get]. destruct (eqb k' k); reflexivity.
      + cbn [gm_get]. destruct (eqb k' k0) eqn:E1; [| exact IH].
        apply eqb_spec in E1. subst k0. destruct (eqb k' k) eqn:E2; [| reflexivity].
        apply eqb_spec in E2. subst k'. rewrite eqb_refl' in E0. discriminate.
  Qed.
End GoMapFacts.

Lemma gm_has_false_get_or {K V : Type} (eqb : K -> K -> bool) (zero : V) (m : gomap K V) (k : K) :
  gm_has eqb m k = false -> gm_get_or eqb zero m k = zero.
Proof. unfold gm_has, gm_get_or. destruct (gm_get eqb m k); [discriminate | reflexivity]. Qed.

Lemma Neqb_spec x y : N.eqb x y = true <-> x = y.
Proof. apply N.eqb_eq. Qed.
Lemma Zeqb_spec x y : Z.eqb x y = true <-> x = y.
Proof. apply Z.eqb_eq. Qed.

(** ** range loops whose body appends *)
Lemma range_loop_append {A B R : Type} (body : A -> list B -> res (rctl (list B) R)) (F : A -> list B) (P : A -> Prop) :
  (forall x acc, P x -> body x acc = Ok (Cont (acc ++ F x))) ->
  forall l acc, Forall P l -> range_loop body l acc = Ok (Next (acc ++ flat_map F l)).
Proof.
  intros Hb l. induction l as [| x l IH]; intros acc Hl.
  - cbn. rewrite app_nil_r. reflexivity.
  - inversion Hl as [| ? ? Hx Hl']; subst. cbn [range_loop flat_map]. rewrite (Hb x acc Hx), (IH _ Hl'), app_assoc. reflexivity.
Qed.

Lemma range_loop_append1 {A B R : Type} (body : A -> list B -> res (rctl (list B) R)) (f : A -> B) :
  (forall x acc, body x acc = Ok (Cont (acc ++ [f x]))) ->
  forall l acc, range_loop body l acc = Ok (Next (acc ++ map f l)).
Proof.
  intros Hb l acc.
  assert (E : flat_map (fun x => [f x]) l = map f l)
    by (induction l as [| x l IH]; [reflexivity |]; cbn [flat_map map app]; rewrite IH; reflexivity).
  rewrite <- E. apply (range_loop_append body (fun x => [f x]) (fun _ => True)).
  - intros x a _. apply Hb.
  - apply Forall_forall. intros; exact I.
Qed.

(** ** the quadrant of the code for a quad of the model: Morton key of the address, extent, centroid *)
Definition gq_quad (q : quad) : gen_Quadrant := mk_gen_Quadrant (key (qx q, qy q)) (ext_tuple (qext q)) (qcen q).

Lemma gq_quad_rel q : quad_rel q (gq_quad q).
Proof. split; reflexivity. Qed.

Lemma key_root : key (0, 0) = 0%N.
Proof. vm_compute. reflexivity. Qed.

(** the map of one level of the code against the occupied addresses of that level of the model *)
Definition level_rel (g : grid) (hot : list (Z * Z)) (l : nat) (m : gomap N gen_Quadrant) : Prop :=
  forall c, small c ->
    gm_get N.eqb m (key c) = if mem_addr c hot then Some (gq_quad (quadAt g l (fst c) (snd c))) else None.

Record ix_rel (g : grid) (hots : list (list (Z * Z))) (ix : gen_PointIndex) : Prop := {
  ixr_root : PointIndex_Quadrant ix = mk_gen_Quadrant 0%N (ext_tuple (gext g)) (quadCentroid g 0 0 0);
  ixr_deep : PointIndex_deepestLevel ix = N.of_nat (gdeep g);
  ixr_size : Z.of_N (PointIndex_deepestSize ix) = gsize g;
  ixr_res : PointIndex_deepestRes ix = gres g;
  ixr_level : forall l, (1 <= l <= gdeep g)%nat ->
    level_rel g (hotLookup hots l) l (gm_get_or N.eqb (@nil (N * gen_Quadrant)) (PointIndex_quadrants ix) (N.of_nat l))
}.

(** the lookups of the caller select the model's quadrants (has_eq: the entries ARE the images of the model's) *)
Definition has_eq (has : nat -> option quad) (m : gomap Z gen_Quadrant) : Prop :=
  forall i, lt4 i -> gm_get Z.eqb m (Z.of_nat i) = option_map gq_quad (has i).

Lemma has_eq_rel has m : has_eq has m -> has_rel has m.
Proof.
  intros H i Hi. rewrite (H i Hi). destruct (has i) as [q |]; cbn [option_map]; [apply gq_quad_rel | exact I].
Qed.

Lemma find_lookup_eq (a b : pt) (m : gomap Z gen_Quadrant) (has : nat -> option quad) (p : quad) (zero : gen_Quadrant) :
  has_eq has m ->
  (forall i q, lt4 i -> has i = Some q -> line_fits a b (qext q)) ->
  exists qs : list Z,
    gen_findIntersectingQuadrants_full (a, b) m (gq_quad p) = Ok qs /\
    map (gm_get_or Z.eqb zero m) qs = map gq_quad (findIntersectingQuadrants a b has p).
Proof.
  intros Hm Hf.
  destruct (generated_find_is_model a b m (gq_quad p) has p (gq_quad_rel p) (has_eq_rel has m Hm) Hf) as (qs & E & Flt & Hq).
  exists (map Z.of_nat qs). split; [exact E |]. clear E.
  revert Hq. generalize (findIntersectingQuadrants a b has p) as out.
  induction Flt as [| i r Hi Flt IH]; intros out Hq.
  - destruct out; [reflexivity | discriminate].
  - destruct out as [| q out]; [discriminate |]. cbn [map] in Hq |- *. injection Hq as Hq Hr.
    rewrite (IH out Hr). f_equal. unfold gm_get_or. rewrite (Hm i Hi), Hq. reflexivity.
Qed.

(** ** small facts *)
Lemma indexed4 {A : Type} (x0 x1 x2 x3 : A) : indexed_from 0 [x0; x1; x2; x3] = [(0, x0); (1, x1); (2, x2); (3, x3)].
Proof. reflexivity. Qed.

Lemma range_loop_map {A B S R : Type} (body : B -> S -> res (rctl S R)) (h : A -> B) l s :
  range_loop body (map h l) s = range_loop (fun x => body (h x)) l s.
Proof.
  revert s. induction l as [| x l IH]; intro s; [reflexivity |]. cbn [map range_loop].
  destruct (body (h x) s) as [[s' | s' | r] | e]; try reflexivity. apply IH.
Qed.

Lemma map_flat_map {A B C : Type} (f : B -> C) (F : A -> list B) l :
  map f (flat_map F l) = flat_map (fun x => map f (F x)) l.
Proof. induction l as [| x l IH]; [reflexivity |]. cbn [flat_map]. rewrite map_app, IH. reflexivity. Qed.

Lemma w64_small_nat n : (n <= 40)%nat -> w64 (N.of_nat n + 1) = N.of_nat (S n).
Proof. intro H. unfold w64, W64. rewrite N.mod_small by lia. lia. Qed.

Lemma pow2_le_31 L : (L <= 31)%nat -> pow2 L <= 2 ^ 31.
Proof. intro H. unfold pow2. apply Z.pow_le_mono_r; lia. Qed.

Lemma child_small x y i : 0 <= x < 2 ^ 31 -> 0 <= y < 2 ^ 31 ->
  small (2 * x + Index.Model.oneIfRight i, 2 * y + Index.Model.oneIfTop i).
Proof.
  intros Hx Hy. pose proof (oneIfRight_range i). pose proof (oneIfTop_range i).
  unfold small. cbn [fst snd]. change (2 ^ 32) with (2 * 2 ^ 31). lia.
Qed.

(** ** one level of the descent *)
Section Level.
  Variables (g : grid) (hots : list (list (Z * Z))) (ix : gen_PointIndex) (a b : pt) (lm : gomap N unit).
  Hypothesis Hix : ix_rel g hots ix.
  Hypothesis Hdeep : (gdeep g <= 32)%nat.
  (** no int64 subtraction of lineIntersects wraps on the extents of the occupied pixels *)
  Hypothesis Hfit : forall l c, (1 <= l <= gdeep g)%nat -> mem_addr c (hotLookup hots l) = true ->
    line_fits a b (quadExtent g l (fst c) (snd c)).

  (** what the map of results holds when the loop is about to treat level l *)
  Definition Pinv (l : nat) (P : gomap N (list gen_Quadrant)) : Prop :=
    forall k : N, gm_get N.eqb P k =
      if (k <? N.of_nat l)%N && gm_has N.eqb lm k
      then Some (map gq_quad (descendTo g hots a b (N.to_nat k))) else None.

  Lemma level_loop : forall f L P, (L <= gdeep g)%nat -> (gdeep g - L < f)%nat -> Pinv (S L) P ->
    exists P' ps' lev',
      gen_snapClosestPoints_loop1 ix (a, b) lm f P (map gq_quad (descendTo g hots a b L)) (N.of_nat (S L))
      = Ok (Next (P', ps', lev')) /\ Pinv (S (gdeep g)) P'.
  Proof.
    induction f as [| f IH]; intros L P HL Hf HP; [lia |].
    cbn [gen_snapClosestPoints_loop1]. rewrite (ixr_deep _ _ _ Hix).
    destruct (N.leb_spec (N.of_nat (S L)) (N.of_nat (gdeep g))) as [Hle | Hgt].
    2:{ assert (L = gdeep g) by lia. subst L. exists P, (map gq_quad (descendTo g hots a b (gdeep g))), (N.of_nat (S (gdeep g))).
        split; [reflexivity | exact HP]. }
    assert (HL' : (S L <= gdeep g)%nat) by lia.
    set (l := S L) in *. set (hot := hotLookup hots l).
    pose proof (ixr_level _ _ _ Hix l ltac:(lia)) as Hlvl. fold hot in Hlvl.
    set (lvl := gm_get_or N.eqb [] (PointIndex_quadrants ix) (N.of_nat l)) in *.
    set (zero := {| Quadrant_z := 0; Quadrant_intExtent := (0, 0, 0, 0); Quadrant_intCentroid := (0, 0) |}).
    match goal with |- context [range_loop ?bd (map gq_quad (descendTo g hots a b L)) []] => set (body := bd) end.
    assert (Hlook : forall c, small c ->
              gm_get_ok N.eqb zero lvl (key c)
              = if mem_addr c hot then (gq_quad (quadAt g l (fst c) (snd c)), true) else (zero, false)).
    { intros c Hc. unfold gm_get_ok. rewrite (Hlvl c Hc). destruct (mem_addr c hot); reflexivity. }
    assert (Hbody : forall p acc, (0 <= qx p < 2 ^ 31 /\ 0 <= qy p < 2 ^ 31) ->
              body (gq_quad p) acc
              = Ok (Cont (acc ++ map gq_quad (findIntersectingQuadrants a b (childHas g hot l p) p)))).
    { intros p acc [Hx Hy]. unfold body.
      change (Quadrant_z (gq_quad p)) with (key (qx p, qy p)).
      rewrite gen_getQuadrantZs_spec, (children_keys (qx p) (qy p) Hx Hy). cbn [map all_some bind].
      rewrite indexed4.
      assert (Hcf : forall i q, lt4 i -> childHas g hot l p i = Some q -> line_fits a b (qext q)).
      { intros i q _ Hq. unfold childHas in Hq.
        destruct (mem_addr (2 * qx p + Index.Model.oneIfRight i, 2 * qy p + Index.Model.oneIfTop i) hot) eqn:Em; [| discriminate].
        injection Hq as <-. cbn [quadAt qext]. exact (Hfit l _ ltac:(lia) Em). }
      cbn [range_loop].
      rewrite !Hlook by (apply child_small; assumption). cbn [fst snd].
      destruct (mem_addr (2 * qx p + Index.Model.oneIfRight 0, 2 * qy p + Index.Model.oneIfTop 0) hot) eqn:E0;
      destruct (mem_addr (2 * qx p + Index.Model.oneIfRight 1, 2 * qy p + Index.Model.oneIfTop 1) hot) eqn:E1;
      destruct (mem_addr (2 * qx p + Index.Model.oneIfRight 2, 2 * qy p + Index.Model.oneIfTop 2) hot) eqn:E2;
      destruct (mem_addr (2 * qx p + Index.Model.oneIfRight 3, 2 * qy p + Index.Model.oneIfTop 3) hot) eqn:E3;
      cbn [gm_set Z.eqb Pos.eqb bind];
      (match goal with |- context [gen_findIntersectingQuadrants_full (a, b) ?m (gq_quad p)] =>
         assert (Hm : has_eq (childHas g hot l p) m)
           by (intros i Hi; unfold lt4 in Hi; destruct i as [| [| [| [| i]]]]; [| | | | lia];
               unfold childHas; cbv zeta; rewrite ?E0, ?E1, ?E2, ?E3; reflexivity);
         destruct (find_lookup_eq a b m (childHas g hot l p) p zero Hm Hcf) as (qs & Eq & Hq);
         rewrite Eq; cbn [bind];
         rewrite (range_loop_append1 _ (gm_get_or Z.eqb zero m)) by (intros; reflexivity);
         rewrite Hq; reflexivity
       end). }
    rewrite range_loop_map.
    rewrite (range_loop_append (fun p => body (gq_quad p))
               (fun p => map gq_quad (findIntersectingQuadrants a b (childHas g hot l p) p))
               (fun p => 0 <= qx p < 2 ^ 31 /\ 0 <= qy p < 2 ^ 31) Hbody).
    2:{ apply Forall_forall. intros p Hp. apply descendTo_shape in Hp as [Px [Py _]].
        pose proof (pow2_le_31 L ltac:(lia)). lia. }
    cbn [bind app]. rewrite <- map_flat_map.
    change (flat_map (fun p => findIntersectingQuadrants a b (childHas g hot l p) p) (descendTo g hots a b L))
      with (descendTo g hots a b l).
    rewrite (w64_small_nat l) by lia.
    set (v := map gq_quad (descendTo g hots a b l)).
    assert (Hstep : forall P', P' = (if gm_has N.eqb lm (N.of_nat l) then gm_set N.eqb P (N.of_nat l) v else P) ->
              Pinv (S l) P').
    { intros P' ->. intro k. specialize (HP k).
      destruct (gm_has N.eqb lm (N.of_nat l)) eqn:Eh.
      - rewrite (gm_get_set N.eqb Neqb_spec). destruct (N.eqb_spec k (N.of_nat l)) as [-> | Hne].
        + rewrite Eh. replace (N.of_nat l <? N.of_nat (S l))%N with true by (symmetry; apply N.ltb_lt; lia).
          rewrite Nat2N.id. reflexivity.
        + rewrite HP. destruct (N.ltb_spec k (N.of_nat l)), (N.ltb_spec k (N.of_nat (S l))); try lia; reflexivity.
      - rewrite HP. destruct (N.eqb_spec k (N.of_nat l)) as [-> | Hne].
        + rewrite Eh, !andb_false_r. reflexivity.
        + destruct (N.ltb_spec k (N.of_nat l)), (N.ltb_spec k (N.of_nat (S l))); try lia; reflexivity. }
    unfold gm_get_ok. unfold gm_has in Hstep.
    destruct (gm_get N.eqb lm (N.of_nat l)) as [u |].
    - apply (IH l _ HL' ltac:(lia)). apply Hstep. reflexivity.
    - apply (IH l _ HL' ltac:(lia)). apply Hstep. reflexivity.
  Qed.
End Level.

Lemma root_gq g hots ix : ix_rel g hots ix -> PointIndex_Quadrant ix = gq_quad (rootQuad g).
Proof.
  intro H. rewrite (ixr_root _ _ _ H). unfold gq_quad, rootQuad. cbn [qx qy qext qcen]. rewrite key_root. reflexivity.
Qed.

(** ** the whole function *)
Theorem gen_snapClosestPoints_spec (g : grid) (hots : list (list (Z * Z))) (ix : gen_PointIndex) (a b : pt) (lm : gomap N unit) :
  ix_rel g hots ix -> (gdeep g <= 32)%nat -> line_fits a b (gext g) ->
  (forall l c, (1 <= l <= gdeep g)%nat -> mem_addr c (hotLookup hots l) = true ->
     line_fits a b (quadExtent g l (fst c) (snd c))) ->
  exists result : gomap N (list gen_Quadrant),
    gen_snapClosestPoints ix (a, b) lm = Ok result /\
    forall k : N, gm_get N.eqb result k =
      if negb (gm_len lm =? 0) && lineIntersects a b (gext g) && (k <=? N.of_nat (gdeep g))%N && gm_has N.eqb lm k
      then Some (map gq_quad (snapClosestQuads g hots a b (N.to_nat k))) else None.
Proof.
  intros Hix Hdeep (F1 & F2 & F3 & F4 & F5 & F6) Hfit.
  unfold gen_snapClosestPoints. cbv zeta. rewrite (root_gq g hots ix Hix).
  change (Quadrant_intExtent (gq_quad (rootQuad g))) with (ext_tuple (gext g)).
  rewrite (gen_lineIntersects_spec_diff a b (gext g) F1 F2 F3 F4 F5 F6).
  destruct (gm_len lm =? 0) eqn:Elen; cbn [orb negb andb].
  { exists []. split; [reflexivity | intro k; reflexivity]. }
  destruct (lineIntersects a b (gext g)) eqn:Eline; cbn [negb andb].
  2:{ exists []. split; [reflexivity | intro k; reflexivity]. }
  rewrite (ixr_deep _ _ _ Hix), Nat2N.id.
  set (P0 := if gm_has N.eqb lm 0%N then gm_set N.eqb (@nil (N * list gen_Quadrant)) 0%N [gq_quad (rootQuad g)] else []).
  assert (HP0 : Pinv g hots a b lm 1 P0).
  { intro k. unfold P0. destruct (N.ltb_spec k (N.of_nat 1)) as [Hk | Hk]; cbn [andb].
    - assert (k = 0%N) by lia. subst k. destruct (gm_has N.eqb lm 0%N); reflexivity.
    - destruct (gm_has N.eqb lm 0%N); [| reflexivity]. cbn [gm_set gm_get].
      destruct (N.eqb_spec k 0%N); [lia | reflexivity]. }
  destruct (level_loop g hots ix a b lm Hix Hdeep Hfit (S (gdeep g)) 0%nat P0 ltac:(lia) ltac:(lia) HP0)
    as (P' & ps' & lev' & Eloop & HP').
  cbn [descendTo map] in Eloop. change (N.of_nat 1) with 1%N in Eloop.
  exists P'. split.
  - unfold gm_get_ok. unfold P0, gm_has in Eloop.
    destruct (gm_get N.eqb lm 0%N) as [u |]; rewrite Eloop; reflexivity.
  - intro k. rewrite (HP' k). unfold snapClosestQuads. rewrite Eline.
    destruct (N.ltb_spec k (N.of_nat (S (gdeep g)))), (N.leb_spec k (N.of_nat (gdeep g))); try lia; reflexivity.
Qed.

(** * insertCoord establishes the refinement: inserting the deepest-level address (dx, dy) into an index that refines
      the model's hot set [hs] gives an index that refines [hs ++ [(dx, dy)]] (the model's insertPoint). *)
Definition ix_with (ix : gen_PointIndex) (Q : gomap N (gomap N gen_Quadrant)) : gen_PointIndex :=
  mk_gen_PointIndex (PointIndex_Quadrant ix) (PointIndex_deepestLevel ix) (PointIndex_deepestSize ix) (PointIndex_deepestRes ix) Q.

Lemma mem_addr_app c l1 l2 : mem_addr c (l1 ++ l2) = mem_addr c l1 || mem_addr c l2.
Proof. induction l1 as [| x l1 IH]; [reflexivity |]. cbn [app mem_addr]. rewrite IH, orb_assoc. reflexivity. Qed.

Lemma mem_addr_dedup c l : mem_addr c (dedup_addr l) = mem_addr c l.
Proof.
  destruct (mem_addr c l) eqn:E.
  - apply mem_addr_In. apply dedup_addr_In. apply mem_addr_In. exact E.
  - destruct (mem_addr c (dedup_addr l)) eqn:E'; [| reflexivity].
    apply (proj1 (mem_addr_In _ _)) in E'. apply (proj1 (dedup_addr_In _ _)) in E'. apply (proj2 (mem_addr_In _ _)) in E'. congruence.
Qed.

Lemma mem_hotAt_app g hs c l c' :
  mem_addr c' (hotAt g (hs ++ [c]) l)
  = mem_addr c' (hotAt g hs l) || addr_eqb c' (fst c / pow2 (gdeep g - l), snd c / pow2 (gdeep g - l)).
Proof.
  unfold hotAt. rewrite !mem_addr_dedup, map_app, mem_addr_app. cbn [map mem_addr]. rewrite orb_false_r. reflexivity.
Qed.

Lemma usubN_nat a b : (b <= a)%nat -> (a <= 64)%nat -> usubN (N.of_nat a) (N.of_nat b) = N.of_nat (a - b).
Proof.
  intros H Ha. unfold usubN.
  assert (B : (N.of_nat b < 2 ^ 64)%N) by (change (2 ^ 64)%N with 18446744073709551616%N; lia).
  rewrite (N.mod_small (N.of_nat b)) by exact B.
  replace (N.of_nat a + 2 ^ 64 - N.of_nat b)%N with (N.of_nat (a - b) + 1 * 2 ^ 64)%N by lia.
  rewrite N.mod_add by (change (2 ^ 64)%N with 18446744073709551616%N; lia).
  apply N.mod_small. change (2 ^ 64)%N with 18446744073709551616%N. lia.
Qed.

Lemma gen_Pow2_uint_nat k : (k <= 32)%nat -> gen_Pow2_uint (N.of_nat k) = Z.to_N (pow2 k).
Proof.
  intro H. unfold gen_Pow2_uint. rewrite nat_N_Z, gen_Pow2_spec by lia. fold (pow2 k). f_equal.
  apply u64_small. unfold is_u64, pow2. split; [apply Z.pow_nonneg; lia |].
  apply Z.lt_le_trans with (2 ^ 33); [apply Z.pow_lt_mono_r; lia | rewrite two64_lit; vm_compute; discriminate].
Qed.

Lemma coord_level (d : Z) (deep l : nat) : (l <= deep)%nat -> (deep <= 32)%nat -> 0 <= d < pow2 deep ->
  udivN (Z.to_N (u64 d)) (gen_Pow2_uint (usubN (N.of_nat deep) (N.of_nat l))) = Ok (Z.to_N (d / pow2 (deep - l))).
Proof.
  intros Hl Hd Hr.
  assert (P32 : pow2 deep <= 2 ^ 32) by (unfold pow2; apply Z.pow_le_mono_r; lia).
  rewrite usubN_nat by lia. rewrite gen_Pow2_uint_nat by lia.
  rewrite u64_small by (unfold is_u64; rewrite two64_lit; change (2 ^ 32) with 4294967296 in P32; lia).
  pose proof (pow2_pos (deep - l)) as Pp. unfold udivN.
  destruct (N.eqb_spec (Z.to_N (pow2 (deep - l))) 0%N) as [E | _]; [lia |].
  f_equal. symmetry. apply Z2N.inj_div; lia.
Qed.

Lemma mustToZ_key c : small c -> mustToZ (Z.to_N (fst c)) (Z.to_N (snd c)) = Some (key c).
Proof.
  intro S. destruct (small_N c S) as [A B]. unfold mustToZ, key.
  rewrite (Bits.MortonProofs.toZ_spec _ _ A B). reflexivity.
Qed.

Lemma getQEC_uint g hots ix (l : nat) (X Y : Z) : ix_rel g hots ix -> 0 <= gres g -> (l <= gdeep g)%nat -> 0 <= X -> 0 <= Y ->
  gen_getQuadrantExtentAndCentroid_uint ix (N.of_nat l) (Z.to_N X) (Z.to_N Y) (Quadrant_intExtent (PointIndex_Quadrant ix))
  = (ext_tuple (quadExtent g l X Y), quadCentroid g l X Y).
Proof.
  intros Hix Hr Hl HX HY. unfold gen_getQuadrantExtentAndCentroid_uint.
  rewrite (ixr_root _ _ _ Hix), (ixr_deep _ _ _ Hix), (ixr_size _ _ _ Hix), (ixr_res _ _ _ Hix).
  cbn [Quadrant_intExtent]. rewrite !nat_N_Z, !Z2N.id by assumption.
  exact (gen_getQuadrantExtentAndCentroid_spec g l X Y Hr Hl).
Qed.

Lemma level_rel_insert g hotOld hotNew l inner cl : small cl ->
  (forall c', mem_addr c' hotNew = mem_addr c' hotOld || addr_eqb c' cl) ->
  level_rel g hotOld l inner ->
  level_rel g hotNew l (gm_set N.eqb inner (key cl) (gq_quad (quadAt g l (fst cl) (snd cl)))).
Proof.
  intros Scl Hmem Hold c' Sc'. rewrite (gm_get_set N.eqb Neqb_spec), Hmem, (Hold c' Sc').
  destruct (N.eqb_spec (key c') (key cl)) as [E | NE].
  - apply (key_injective c' cl Sc' Scl) in E. subst c'. destruct (mem_addr cl hotOld); cbn [orb]; [reflexivity |].
    replace (addr_eqb cl cl) with true by (symmetry; apply addr_eqb_eq; reflexivity). reflexivity.
  - replace (addr_eqb c' cl) with false; [rewrite orb_false_r; reflexivity |].
    symmetry. destruct (addr_eqb c' cl) eqn:E; [| reflexivity]. apply addr_eqb_eq in E. subst c'. contradiction.
Qed.

Section Insert.
  Variables (g : grid) (hs : hotset) (ix : gen_PointIndex) (dx dy : Z).
  Hypothesis Hix : ix_rel g (hotLevels g hs) ix.
  Hypothesis Hdeep : (gdeep g <= 32)%nat.
  Hypothesis Hres : 0 <= gres g.
  Hypothesis Hx : 0 <= dx < pow2 (gdeep g).
  Hypothesis Hy : 0 <= dy < pow2 (gdeep g).

  Definition Qinv (l : nat) (Q : gomap N (gomap N gen_Quadrant)) : Prop :=
    forall j, (1 <= j <= gdeep g)%nat ->
      level_rel g (if (j <? l)%nat then hotAt g (hs ++ [(dx, dy)]) j else hotAt g hs j) j
                (gm_get_or N.eqb (@nil (N * gen_Quadrant)) Q (N.of_nat j)).

  Lemma insert_loop : forall f l Q, (l <= S (gdeep g))%nat -> (S (gdeep g) - l < f)%nat -> Qinv l Q ->
    exists Q' lev', gen_insertCoord_loop1 ix dx dy f Q (N.of_nat l) = Ok (Next (Q', lev')) /\ Qinv (S (gdeep g)) Q'.
  Proof.
    induction f as [| f IH]; intros l Q Hl Hf HQ; [lia |].
    cbn [gen_insertCoord_loop1]. rewrite (ixr_deep _ _ _ Hix).
    destruct (N.leb_spec (N.of_nat l) (N.of_nat (gdeep g))) as [Hle | Hgt].
    2:{ assert (l = S (gdeep g)) by lia. subst l. exists Q, (N.of_nat (S (gdeep g))). split; [reflexivity | exact HQ]. }
    assert (Hl' : (l <= gdeep g)%nat) by lia.
    set (d := pow2 (gdeep g - l)). pose proof (pow2_pos (gdeep g - l)) as Pd. fold d in Pd.
    set (cl := (dx / d, dy / d)).
    assert (P32 : pow2 (gdeep g) <= 2 ^ 32) by (unfold pow2; apply Z.pow_le_mono_r; lia).
    assert (Bx : 0 <= dx / d <= dx) by (split; [apply Z.div_pos; lia | apply Z.div_le_upper_bound; nia]).
    assert (By : 0 <= dy / d <= dy) by (split; [apply Z.div_pos; lia | apply Z.div_le_upper_bound; nia]).
    assert (Scl : small cl) by (unfold small, cl; cbn [fst snd]; lia).
    rewrite (coord_level dx (gdeep g) l Hl' Hdeep Hx), (coord_level dy (gdeep g) l Hl' Hdeep Hy). fold d. cbn [bind].
    change (Z.to_N (dx / d)) with (Z.to_N (fst cl)). change (Z.to_N (dy / d)) with (Z.to_N (snd cl)).
    rewrite (mustToZ_key cl Scl). cbn [bind].
    rewrite (getQEC_uint g (hotLevels g hs) ix l (fst cl) (snd cl) Hix Hres Hl') by (unfold cl; cbn [fst snd]; lia).
    rewrite (w64_small_nat l) by lia.
    change {| Quadrant_z := key cl; Quadrant_intExtent := ext_tuple (quadExtent g l (fst cl) (snd cl));
              Quadrant_intCentroid := quadCentroid g l (fst cl) (snd cl) |}
      with (gq_quad (quadAt g l (fst cl) (snd cl))).
    set (v := gq_quad (quadAt g l (fst cl) (snd cl))).
    (* both branches write the same inner map at level l and leave the other levels alone *)
    assert (Hnext : forall Q2,
              (forall j, gm_get_or N.eqb (@nil (N * gen_Quadrant)) Q2 (N.of_nat j)
                         = if Nat.eqb j l then gm_set N.eqb (gm_get_or N.eqb [] Q (N.of_nat l)) (key cl) v
                           else gm_get_or N.eqb [] Q (N.of_nat j)) ->
              Qinv (S l) Q2).
    { intros Q2 HQ2 j Hj. rewrite (HQ2 j). specialize (HQ j Hj).
      destruct (Nat.eqb_spec j l) as [-> | Hne].
      - replace (l <? S l)%nat with true by (symmetry; apply Nat.ltb_lt; lia).
        replace (l <? l)%nat with false in HQ by (symmetry; apply Nat.ltb_ge; lia).
        apply (level_rel_insert g (hotAt g hs l) _ l _ cl Scl); [| exact HQ].
        intro c'. apply mem_hotAt_app.
      - replace (j <? S l)%nat with (j <? l)%nat; [exact HQ |].
        destruct (Nat.ltb_spec j l), (Nat.ltb_spec j (S l)); try lia; reflexivity. }
    assert (Hget : forall (Q0 : gomap N (gomap N gen_Quadrant)) (inner : gomap N gen_Quadrant) j,
              gm_get_or N.eqb (@nil (N * gen_Quadrant)) (gm_set N.eqb Q0 (N.of_nat l) inner) (N.of_nat j)
              = if Nat.eqb j l then inner else gm_get_or N.eqb [] Q0 (N.of_nat j)).
    { intros Q0 inner j. unfold gm_get_or. rewrite (gm_get_set N.eqb Neqb_spec).
      destruct (Nat.eqb_spec j l) as [-> | Hne]; [rewrite N.eqb_refl; reflexivity |].
      destruct (N.eqb_spec (N.of_nat j) (N.of_nat l)); [lia | reflexivity]. }
    destruct (gm_has N.eqb Q (N.of_nat l)) eqn:Ehas; cbn [negb].
    - apply (IH (S l) _ ltac:(lia) ltac:(lia)). apply Hnext. intro j. apply Hget.
    - apply (IH (S l) _ ltac:(lia) ltac:(lia)). apply Hnext. intro j. rewrite !Hget, Nat.eqb_refl.
      destruct (Nat.eqb j l); [| reflexivity].
      f_equal. symmetry. exact (gm_has_false_get_or N.eqb [] Q (N.of_nat l) Ehas).
  Qed.

  Theorem gen_insertCoord_spec :
    exists Q', gen_insertCoord ix dx dy = Ok Q' /\ ix_rel g (hotLevels g (hs ++ [(dx, dy)])) (ix_with ix Q').
  Proof.
    assert (HQ0 : Qinv 0 (PointIndex_quadrants ix)).
    { intros j Hj. cbn [Nat.ltb Nat.leb]. rewrite <- (hotLookup_hotLevels g hs j) by lia. exact (ixr_level _ _ _ Hix j Hj). }
    destruct (insert_loop (S (S (gdeep g))) 0%nat _ ltac:(lia) ltac:(lia) HQ0) as (Q' & lev' & E & HQ').
    exists Q'. split.
    - unfold gen_insertCoord. cbv zeta. rewrite (ixr_deep _ _ _ Hix), Nat2N.id.
      change (N.of_nat 0) with 0%N in E. rewrite E. reflexivity.
    - constructor; cbn [ix_with PointIndex_Quadrant PointIndex_deepestLevel PointIndex_deepestSize PointIndex_deepestRes PointIndex_quadrants].
      + exact (ixr_root _ _ _ Hix).
      + exact (ixr_deep _ _ _ Hix).
      + exact (ixr_size _ _ _ Hix).
      + exact (ixr_res _ _ _ Hix).
      + intros l Hl. rewrite hotLookup_hotLevels by lia. specialize (HQ' l Hl).
        replace (l <? S (gdeep g))%nat with true in HQ' by (symmetry; apply Nat.ltb_lt; lia). exact HQ'.
  Qed.
End Insert.

(** ** building an index: the empty index refines the empty hot set, every accepted insertion keeps the refinement *)
Definition gen_empty_index (g : grid) : gen_PointIndex :=
  mk_gen_PointIndex (mk_gen_Quadrant 0%N (ext_tuple (gext g)) (quadCentroid g 0 0 0))
                    (N.of_nat (gdeep g)) (Z.to_N (gsize g)) (gres g) [].

Lemma empty_index_rel g : ix_rel g (hotLevels g []) (gen_empty_index g).
Proof.
  constructor; cbn [gen_empty_index PointIndex_Quadrant PointIndex_deepestLevel PointIndex_deepestSize PointIndex_deepestRes PointIndex_quadrants];
    try reflexivity.
  - pose proof (gsize_pos g). rewrite Z2N.id by lia. reflexivity.
  - intros l Hl c Hc. rewrite hotLookup_hotLevels by lia. reflexivity.
Qed.

Lemma inGridCoord_bounds g c : inGridCoord g c = true -> 0 <= fst c < pow2 (gdeep g) /\ 0 <= snd c < pow2 (gdeep g).
Proof.
  unfold inGridCoord, gsize. intro H. apply negb_true_iff in H. apply orb_false_iff in H as [H H4].
  apply orb_false_iff in H as [H H3]. apply orb_false_iff in H as [H1 H2].
  apply Z.ltb_ge in H1, H2, H3, H4. lia.
Qed.

(** InsertCoord for an accepted address (the range test is tied separately: gen_InsertCoord_outside, C02_source_tie):
    the regenerated insertCoord, the result written back into the index *)
Definition gen_insert_one (ix : gen_PointIndex) (c : Z * Z) : res gen_PointIndex :=
  do Q <- gen_insertCoord ix (fst c) (snd c); Ok (ix_with ix Q).

Theorem gen_insert_all_spec (g : grid) : (gdeep g <= 32)%nat -> 0 <= gres g ->
  forall (cs hs : hotset) (ix : gen_PointIndex),
  ix_rel g (hotLevels g hs) ix -> Forall (fun c => inGridCoord g c = true) cs ->
  exists ix', foldM gen_insert_one cs ix = Ok ix' /\ ix_rel g (hotLevels g (hs ++ cs)) ix'.
Proof.
  intros Hdeep Hres cs. induction cs as [| c cs IH]; intros hs ix Hix Hcs.
  - exists ix. split; [reflexivity |]. rewrite app_nil_r. exact Hix.
  - inversion Hcs as [| ? ? Hc Hcs']; subst. destruct (inGridCoord_bounds g c Hc) as [Bx By].
    destruct (gen_insertCoord_spec g hs ix (fst c) (snd c) Hix Hdeep Hres Bx By) as (Q' & E & Hix').
    rewrite <- surjective_pairing in Hix'.
    destruct (IH (hs ++ [c]) (ix_with ix Q') Hix' Hcs') as (ix' & E' & Hix'').
    exists ix'. split.
    + cbn [foldM]. unfold gen_insert_one at 1. rewrite E. cbn [bind]. exact E'.
    + rewrite <- app_assoc in Hix''. exact Hix''.
Qed.

(** end to end: the index built by the regenerated insertCoord from the addresses the model accepted
    ([insertPolygon g P = Ok hs]: every vertex inside the grid), searched by the regenerated snapClosestPoints,
    gives the model's quads for every requested level *)
Theorem gen_index_descent (g : grid) (hs : hotset) (a b : pt) (lm : gomap N unit) :
  (gdeep g <= 32)%nat -> 0 <= gres g -> Forall (fun c => inGridCoord g c = true) hs ->
  line_fits a b (gext g) ->
  (forall l c, (1 <= l <= gdeep g)%nat -> mem_addr c (hotLookup (hotLevels g hs) l) = true ->
     line_fits a b (quadExtent g l (fst c) (snd c))) ->
  exists ix result,
    foldM gen_insert_one hs (gen_empty_index g) = Ok ix /\
    gen_snapClosestPoints ix (a, b) lm = Ok result /\
    forall k : N, gm_get N.eqb result k =
      if negb (gm_len lm =? 0) && lineIntersects a b (gext g) && (k <=? N.of_nat (gdeep g))%N && gm_has N.eqb lm k
      then Some (map gq_quad (snapClosestQuads g (hotLevels g hs) a b (N.to_nat k))) else None.
Proof.
  intros Hdeep Hres Hhs Hroot Hfit.
  destruct (gen_insert_all_spec g Hdeep Hres hs [] (gen_empty_index g) (empty_index_rel g) Hhs) as (ix & E & Hix).
  cbn [app] in Hix.
  destruct (gen_snapClosestPoints_spec g (hotLevels g hs) ix a b lm Hix Hdeep Hroot Hfit) as (result & E' & Hres').
  exists ix, result. split; [exact E |]. split; [exact E' | exact Hres'].
Qed.

Corollary gen_index_descent_polygon (g : grid) (P : list ring) (hs : hotset) (a b : pt) (lm : gomap N unit) :
  (gdeep g <= 32)%nat -> 0 <= gres g -> insertPolygon g P = Ok hs ->
  line_fits a b (gext g) ->
  (forall l c, (1 <= l <= gdeep g)%nat -> mem_addr c (hotLookup (hotLevels g hs) l) = true ->
     line_fits a b (quadExtent g l (fst c) (snd c))) ->
  exists ix result,
    foldM gen_insert_one hs (gen_empty_index g) = Ok ix /\
    gen_snapClosestPoints ix (a, b) lm = Ok result /\
    forall k : N, gm_get N.eqb result k =
      if negb (gm_len lm =? 0) && lineIntersects a b (gext g) && (k <=? N.of_nat (gdeep g))%N && gm_has N.eqb lm k
      then Some (map gq_quad (snapClosestQuads g (hotLevels g hs) a b (N.to_nat k))) else None.
Proof.
  intros Hdeep Hres HP. apply gen_index_descent; try assumption. exact (proj2 (insertPolygon_ok g P hs HP)).
Qed.
