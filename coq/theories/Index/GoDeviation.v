(** * Hand-written support for gen/DeviationGen.v (tie G2: pointindex.DeviationStats).  Definitions only.

    The translator (translator/deviation.go) emits calls to these helpers and to the functions regenerated in
    gen/IndexTopGen.v (FromTileMatrixSet, ToGeomOrd, Extent.XSpan), nothing else.

    READING of float64 in DeviationStats: EXACT rational arithmetic.  gen/IndexTopGen.v takes the float operations as a
    record [floatops]; [fo_exact lg] is the instance whose carrier is [Q]:
    - [float64(i)] of an int64 / uint = [inject_Z]; an integer-valued constant = [inject_Z];
    - [*], [/] = the field operations of Q (x / 0 = 0 in Coq; Go gives +-Inf / NaN, which is outside the reading: the
      theorems name the divisors that must not vanish);
    - [int64(f)], [uint(f)] = truncation toward zero ([q_trunc]; no saturation / wrap: the theorems carry [is_i64]);
    - [math.Pow(a, b)] = [Qpower a (q_trunc b)] (exact for the integer-valued exponent Precision = 10);
    - [math.Log2] = the parameter [lg] (it only enters the deepest level: every theorem holds for every [lg]).
    The rounding of the real binary64 computation is OUTSIDE this reading (DESIGN 4.2); the run-time comparison of the
    C03 harness holds the reported number to the exact one within a stated slack.

    PANICS.  [dres] = the error monad [res] of Prelude/Base.v with one more panic: the nil-pointer dereference of
    [ix.f] for [ix *PointIndex]. *)
From Coq Require Import ZArith NArith QArith Qround List Bool.
From Texel Require Import Prelude.Base Prelude.GoAssoc Index.MachineInt Index.GoTop Index.Model.
Import ListNotations.
Open Scope Z_scope.

(** [int64(f)] / [uint(f)]: truncation toward zero *)
Definition q_trunc (q : Q) : Z := Z.quot (Qnum q) (Zpos (Qden q)).
(** [math.Pow(a, b)] for an integer-valued b *)
Definition q_pow (a b : Q) : Q := Qpower a (q_trunc b).

Definition fo_exact (lg : Q -> Q) : floatops :=
  mk_floatops Q inject_Z inject_Z (fun n => inject_Z (Z.of_N n)) q_trunc (fun q => Z.to_N (q_trunc q))
              Qmult Qdiv q_pow lg.

(** the instance used by the Examples: uint(math.Log2(x)) = floor(log2 x) for x >= 1 *)
Definition lg_floor (q : Q) : Q := inject_Z (Z.log2 (Qfloor q)).

(** ** panics of the translated function *)
Inductive gopanic :=
| PanicErr (e : err)      (* a panic of Prelude/Base.v: DivZero of an int64 division, a panic of a callee *)
| PanicNilDeref.          (* runtime error: invalid memory address or nil pointer dereference *)

Inductive dres (A : Type) :=
| DOk (a : A)
| DPanic (p : gopanic).
Arguments DOk {A} a.
Arguments DPanic {A} p.

Definition dbind {A B} (r : dres A) (f : A -> dres B) : dres B :=
  match r with DOk a => f a | DPanic p => DPanic p end.
Notation "'ddo' x <- r ; k" := (dbind r (fun x => k)) (at level 200, x pattern, r at level 100, k at level 200).

(** a call of a function translated into [res] *)
Definition dlift {A} (r : res A) : dres A := match r with Ok a => DOk a | Err e => DPanic (PanicErr e) end.
(** [ix.f] / [*ix] for a pointer ix *)
Definition dderef {A} (p : option A) : dres A := match p with Some a => DOk a | None => DPanic PanicNilDeref end.

(** ** the closed form of the reported deviation, and the quantities of the bound *)
(** 10^Precision *)
Definition units_per_one : Q := inject_Z (10 ^ 10).

(** span - (span_int / size) * size / 10^Precision, with span the exact x span of the bounding box of tile matrix 0,
    span_int the x span of its integer image [e] (the extent of the index), size = 2^d *)
Definition deviation_closed (bl tr : Q * Q) (e : extent) (d : nat) : Q :=
  ((fst tr - fst bl) - inject_Z (((emaxx e - eminx e) / pow2 d) * pow2 d) / units_per_one)%Q.

(** what the truncation of FromGeomOrd drops of an ordinate, in integer units: x * 10^10 - int64(x * 10^10) *)
Definition q_frac (x : Q) : Q := (x * units_per_one - inject_Z (q_trunc (x * units_per_one)))%Q.

(** the ordinate is a whole number of the tool's units of 1e-10 (FromGeomOrd loses nothing) *)
Definition representable (x : Q) : Prop := (q_frac x == 0)%Q.

(** the ideal centre of pixel k of level l on the x axis, in CRS units: corner of the extent + (k + 1/2) pixel sizes,
    pixel size = exact x span of the bounding box / 2^l *)
Definition ideal_centre_x (bl tr : Q * Q) (l : nat) (k : Z) : Q :=
  (fst bl + (inject_Z k + (1 # 2)) * ((fst tr - fst bl) / inject_Z (pow2 l)))%Q.

(** ToGeomOrd read exactly: integer units of 1e-10 -> CRS units *)
Definition units_of (z : Z) : Q := (inject_Z z / units_per_one)%Q.
