(** * Go's machine integers (int64 / uint64) and early-return range loops, for the generated file
      gen/LineGen.v (tie G2, lineIntersects / leavesRoomBelow / cmpProducts).

    Hand-written support: the translator emits calls to these helpers, nothing else.
    - an int64 value is the [Z] in [-2^63, 2^63), a uint64 value the [Z] in [0, 2^64);
    - [wrap64] is the two's complement wrap-around of Go's int64 [+], [-], unary [-], [*];
    - [u64] is the conversion [uint64(x)] of an int64 (and the wrap-around of uint64 arithmetic);
    - [mul64] is [math/bits.Mul64]: the (high, low) words of the full 128-bit product;
    - [range_ret] is [for _, x := range l { body }] where the body may [return]: [Some r] = returned r. *)
From Coq Require Import ZArith List Bool Lia.
Import ListNotations.
Open Scope Z_scope.

Definition wrap64 (z : Z) : Z := ((z + 2^63) mod 2^64) - 2^63.
Definition u64 (z : Z) : Z := z mod 2^64.

Definition neg64 (x : Z) : Z := wrap64 (- x).
Definition add64 (x y : Z) : Z := wrap64 (x + y).
Definition sub64 (x y : Z) : Z := wrap64 (x - y).
Definition mul64w (x y : Z) : Z := wrap64 (x * y).

Definition uneg64 (x : Z) : Z := u64 (- x).
Definition uadd64 (x y : Z) : Z := u64 (x + y).
Definition usub64 (x y : Z) : Z := u64 (x - y).
Definition umul64w (x y : Z) : Z := u64 (x * y).

(** bits.Mul64(x, y) = (hi, lo) with x*y = hi * 2^64 + lo *)
Definition mul64 (x y : Z) : Z * Z := ((x * y) / 2^64, (x * y) mod 2^64).

Fixpoint range_ret {A R : Type} (body : A -> option R) (l : list A) : option R :=
  match l with
  | [] => None
  | x :: l' => match body x with Some r => Some r | None => range_ret body l' end
  end.

(** ** ranges *)
Definition is_i64 (z : Z) : Prop := - 2^63 <= z < 2^63.
Definition is_u64 (z : Z) : Prop := 0 <= z < 2^64.

Lemma two63_lit : 2^63 = 9223372036854775808. Proof. reflexivity. Qed.
Lemma two64_lit : 2^64 = 18446744073709551616. Proof. reflexivity. Qed.
Lemma two62_lit : 2^62 = 4611686018427387904. Proof. reflexivity. Qed.

Lemma wrap64_small z : is_i64 z -> wrap64 z = z.
Proof.
  unfold is_i64, wrap64. rewrite two63_lit, two64_lit. intro H.
  rewrite Z.mod_small by lia. lia.
Qed.

Lemma wrap64_is_i64 z : is_i64 (wrap64 z).
Proof.
  unfold is_i64, wrap64. rewrite two63_lit, two64_lit.
  pose proof (Z.mod_pos_bound (z + 9223372036854775808) 18446744073709551616 ltac:(lia)). lia.
Qed.

Lemma neg64_small x : - 2^63 < x < 2^63 -> neg64 x = - x.
Proof. intro H. unfold neg64. apply wrap64_small. unfold is_i64. lia. Qed.

(** the one int64 whose negation wraps *)
Lemma neg64_min : neg64 (- 2^63) = - 2^63.
Proof. reflexivity. Qed.

Lemma sub64_small x y : is_i64 (x - y) -> sub64 x y = x - y.
Proof. apply wrap64_small. Qed.

Lemma u64_small z : is_u64 z -> u64 z = z.
Proof. unfold is_u64, u64. intro H. apply Z.mod_small. exact H. Qed.

Lemma u64_is_u64 z : is_u64 (u64 z).
Proof. unfold is_u64, u64. apply Z.mod_pos_bound. reflexivity. Qed.

(** uint64(-x) is the magnitude of a negative int64 x, ALSO for x = -2^63 (where -x wraps to -2^63) *)
Lemma u64_neg64_magnitude x : - 2^63 <= x < 0 -> u64 (neg64 x) = - x.
Proof.
  intro H. rewrite two63_lit in H. unfold u64, neg64, wrap64. rewrite two63_lit, two64_lit.
  destruct (Z.eq_dec x (-9223372036854775808)) as [-> | Hne]; [reflexivity |].
  rewrite (Z.mod_small (- x + 9223372036854775808)) by lia.
  rewrite Z.mod_small by lia. lia.
Qed.

(** comparing two numbers below 2^128 word by word (high word first) is comparing the numbers *)
Lemma hi_lo_compare x y : 0 <= x -> 0 <= y ->
  (x ?= y) = match (x / 2^64 ?= y / 2^64) with
             | Eq => (x mod 2^64 ?= y mod 2^64)
             | c => c
             end.
Proof.
  intros Hx Hy. rewrite two64_lit.
  pose proof (Z.div_mod x 18446744073709551616 ltac:(lia)) as Ex.
  pose proof (Z.div_mod y 18446744073709551616 ltac:(lia)) as Ey.
  pose proof (Z.mod_pos_bound x 18446744073709551616 ltac:(lia)) as Bx.
  pose proof (Z.mod_pos_bound y 18446744073709551616 ltac:(lia)) as By.
  set (xh := x / 18446744073709551616) in *. set (xl := x mod 18446744073709551616) in *.
  set (yh := y / 18446744073709551616) in *. set (yl := y mod 18446744073709551616) in *.
  clearbody xh xl yh yl.
  destruct (Z.compare_spec xh yh) as [E | L | G].
  - subst yh. destruct (Z.compare_spec xl yl) as [E2 | L2 | G2].
    + apply Z.compare_eq_iff. lia.
    + apply Z.compare_lt_iff. lia.
    + apply Z.compare_gt_iff. lia.
  - apply Z.compare_lt_iff. lia.
  - apply Z.compare_gt_iff. lia.
Qed.

Lemma range_ret_forallb {A : Type} (p : A -> bool) (l : list A) :
  range_ret (fun x => if negb (p x) then Some false else None) l = if forallb p l then None else Some false.
Proof.
  induction l as [| x l IH]; [reflexivity |]. cbn [range_ret forallb].
  destruct (p x); cbn [negb andb]; [exact IH | reflexivity].
Qed.
