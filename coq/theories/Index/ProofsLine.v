(** * lineIntersects decides "the closed segment meets the half-open box" (C02, pixel test).

    [Meets a b e]: some point a + t (b - a), 0 <= t <= 1 (rational t), lies in
    [eminx, emaxx) x [eminy, emaxy).  No hypothesis on the extent is needed: for an empty
    extent (max <= min) both sides are false. *)
From Coq Require Import ZArith QArith Lqa Lia List Bool.
From Texel Require Import Prelude.Base Index.Model Index.ProofsQ.
Import ListNotations.
Open Scope Q_scope.

(** one coordinate of the point with parameter t *)
Definition co (from to : Z) (t : Q) : Q := inject_Z from + t * (inject_Z to - inject_Z from).

Definition AxisIn (from to mn mx : Z) (t : Q) : Prop :=
  inject_Z mn <= co from to t /\ co from to t < inject_Z mx.

(** the point with parameter t is in the half-open box *)
Definition PIn (a b : pt) (t : Q) (e : extent) : Prop :=
  AxisIn (fst a) (fst b) (eminx e) (emaxx e) t /\ AxisIn (snd a) (snd b) (eminy e) (emaxy e) t.

(** ... and t is a parameter of the closed segment *)
Definition OnSeg (a b : pt) (t : Q) (e : extent) : Prop := 0 <= t /\ t <= 1 /\ PIn a b t e.

Definition Meets (a b : pt) (e : extent) : Prop := exists t : Q, OnSeg a b t e.

(** a parameter bound as a rational with its strictness *)
Definition qb (p : pbound) : bnd := (bnum p # Z.to_pos (bden p), bstrict p).

Lemma leavesRoomBelow_compat lo up : (0 < bden lo)%Z -> (0 < bden up)%Z ->
  leavesRoomBelow lo up = true <-> compat (qb lo) (qb up).
Proof.
  intros Hl Hu. unfold leavesRoomBelow, cmpProducts, compat, qb. cbn [fst snd].
  unfold Qlt, Qeq. cbn [Qnum Qden]. rewrite !Z2Pos.id by assumption.
  destruct (Z.compare_spec (bnum lo * bden up) (bnum up * bden lo)) as [E | L | G].
  - rewrite andb_true_iff, !negb_true_iff. split.
    + intros [A B]. right. auto.
    + intros [C | [_ [A B]]]; [lia | auto].
  - split; [intros _; left; exact L | reflexivity].
  - split; [discriminate | intros [C | [C _]]; lia].
Qed.

Lemma qmk_le_l n d t : (0 < d)%Z -> (n # Z.to_pos d) <= t <-> inject_Z n <= t * inject_Z d.
Proof.
  intro Hd. destruct t as [tn tp]. unfold Qle, Qmult, inject_Z. cbn [Qnum Qden].
  rewrite Z2Pos.id by exact Hd. rewrite Pos.mul_1_r, !Z.mul_1_r. reflexivity.
Qed.
Lemma qmk_lt_l n d t : (0 < d)%Z -> (n # Z.to_pos d) < t <-> inject_Z n < t * inject_Z d.
Proof.
  intro Hd. destruct t as [tn tp]. unfold Qlt, Qmult, inject_Z. cbn [Qnum Qden].
  rewrite Z2Pos.id by exact Hd. rewrite Pos.mul_1_r, !Z.mul_1_r. reflexivity.
Qed.
Lemma qmk_le_r n d t : (0 < d)%Z -> t <= (n # Z.to_pos d) <-> t * inject_Z d <= inject_Z n.
Proof.
  intro Hd. destruct t as [tn tp]. unfold Qle, Qmult, inject_Z. cbn [Qnum Qden].
  rewrite Z2Pos.id by exact Hd. rewrite Pos.mul_1_r, !Z.mul_1_r. reflexivity.
Qed.
Lemma qmk_lt_r n d t : (0 < d)%Z -> t < (n # Z.to_pos d) <-> t * inject_Z d < inject_Z n.
Proof.
  intro Hd. destruct t as [tn tp]. unfold Qlt, Qmult, inject_Z. cbn [Qnum Qden].
  rewrite Z2Pos.id by exact Hd. rewrite Pos.mul_1_r, !Z.mul_1_r. reflexivity.
Qed.

Lemma inject_Z_minus x y : inject_Z (x - y) = inject_Z x - inject_Z y.
Proof. unfold Z.sub, Qminus. rewrite inject_Z_plus, inject_Z_opp. reflexivity. Qed.

Lemma Forall1 {A} (P : A -> Prop) x : Forall P [x] <-> P x.
Proof. split; [intro F; inversion F; assumption | intro H; constructor; [exact H | constructor]]. Qed.

(** what one axis contributes *)
Lemma axisBounds_some from to mn mx ls us : axisBounds from to mn mx = Some (ls, us) ->
  Forall (fun p => (0 < bden p)%Z) ls /\ Forall (fun p => (0 < bden p)%Z) us /\
  forall t, (allL (map qb ls) t /\ allU (map qb us) t) <-> AxisIn from to mn mx t.
Proof.
  unfold axisBounds, AxisIn, co. intro H.
  destruct (Z.eqb_spec (to - from) 0) as [E0 | N0].
  - destruct ((from <? mn)%Z || (mx <=? from)%Z) eqn:Eo; [discriminate |].
    injection H as <- <-. apply orb_false_iff in Eo as [E1 E2].
    apply Z.ltb_ge in E1. apply Z.leb_gt in E2.
    split; [constructor |]. split; [constructor |]. intro t.
    assert (Et : inject_Z to == inject_Z from) by (replace to with from by lia; reflexivity).
    assert (Q1 : inject_Z mn <= inject_Z from) by (rewrite <- Zle_Qle; exact E1).
    assert (Q2 : inject_Z from < inject_Z mx) by (rewrite <- Zlt_Qlt; exact E2).
    split.
    + intros _. rewrite Et. split; lra.
    + intros _. split; constructor.
  - destruct (Z.ltb_spec 0 (to - from)) as [P | NP].
    + injection H as <- <-. split; [repeat constructor; exact P |]. split; [repeat constructor; exact P |].
      intro t. cbn [map]. unfold allL, allU. rewrite !Forall1. unfold satL, satU, qb. cbn [fst snd bnum bden bstrict].
      rewrite (qmk_le_l _ _ t P), (qmk_lt_r _ _ t P). rewrite !inject_Z_minus. split; intros [A B]; split; lra.
    + assert (P : (0 < - (to - from))%Z) by lia.
      injection H as <- <-. split; [repeat constructor; exact P |]. split; [repeat constructor; exact P |].
      intro t. cbn [map]. unfold allL, allU. rewrite !Forall1. unfold satL, satU, qb. cbn [fst snd bnum bden bstrict].
      rewrite (qmk_lt_l _ _ t P), (qmk_le_r _ _ t P). rewrite inject_Z_opp, !inject_Z_minus.
      split; intros [A B]; split; lra.
Qed.

Lemma axisBounds_none from to mn mx : axisBounds from to mn mx = None ->
  forall t, ~ AxisIn from to mn mx t.
Proof.
  unfold axisBounds, AxisIn, co. intros H t [A B].
  destruct (Z.eqb_spec (to - from) 0) as [E0 | N0].
  - destruct ((from <? mn)%Z || (mx <=? from)%Z) eqn:Eo; [| discriminate].
    assert (Et : inject_Z to == inject_Z from) by (replace to with from by lia; reflexivity).
    rewrite Et in A, B. apply orb_true_iff in Eo as [E1 | E2].
    + apply Z.ltb_lt in E1. rewrite Zlt_Qlt in E1. lra.
    + apply Z.leb_le in E2. rewrite Zle_Qle in E2. lra.
  - destruct (0 <? to - from)%Z; discriminate.
Qed.

Lemma forallb2_spec (lows ups : list pbound) :
  forallb (fun lo => forallb (fun up => leavesRoomBelow lo up) ups) lows = true <->
  forall lo up, In lo lows -> In up ups -> leavesRoomBelow lo up = true.
Proof.
  rewrite forallb_forall. split.
  - intros H lo up Hl Hu. specialize (H lo Hl). rewrite forallb_forall in H. apply H. exact Hu.
  - intros H lo Hl. apply forallb_forall. intros up Hu. apply H; assumption.
Qed.

Theorem lineIntersects_spec (a b : pt) (e : extent) :
  lineIntersects a b e = true <-> Meets a b e.
Proof.
  unfold lineIntersects, Meets, OnSeg, PIn.
  destruct (axisBounds (fst a) (fst b) (eminx e) (emaxx e)) as [[lx ux] |] eqn:Ex.
  2:{ split; [discriminate |]. intros [t [_ [_ [A _]]]]. exfalso. exact (axisBounds_none _ _ _ _ Ex t A). }
  destruct (axisBounds (snd a) (snd b) (eminy e) (emaxy e)) as [[ly uy] |] eqn:Ey.
  2:{ split; [discriminate |]. intros [t [_ [_ [_ A]]]]. exfalso. exact (axisBounds_none _ _ _ _ Ey t A). }
  destruct (axisBounds_some _ _ _ _ _ _ Ex) as [Dlx [Dux Sx]].
  destruct (axisBounds_some _ _ _ _ _ _ Ey) as [Dly [Duy Sy]].
  set (l0 := mkBound 0 1 false). set (u0 := mkBound 1 1 false).
  assert (DL : Forall (fun p => (0 < bden p)%Z) (l0 :: lx ++ ly)).
  { constructor; [cbn; lia | apply Forall_app; split; assumption]. }
  assert (DU : Forall (fun p => (0 < bden p)%Z) (u0 :: ux ++ uy)).
  { constructor; [cbn; lia | apply Forall_app; split; assumption]. }
  rewrite forallb2_spec.
  transitivity (forall l u, In l (qb l0 :: map qb (lx ++ ly)) -> In u (qb u0 :: map qb (ux ++ uy)) -> compat l u).
  { rewrite Forall_forall in DL, DU. split.
    - intros H l u Hl Hu. change (In l (map qb (l0 :: lx ++ ly))) in Hl. change (In u (map qb (u0 :: ux ++ uy))) in Hu.
      apply in_map_iff in Hl as [lo [<- Hlo]]. apply in_map_iff in Hu as [up [<- Hup]].
      apply leavesRoomBelow_compat; [apply DL | apply DU | apply H]; assumption.
    - intros H lo up Hlo Hup. apply leavesRoomBelow_compat; [apply DL | apply DU |]; try assumption.
      apply H; [change (In (qb lo) (map qb (l0 :: lx ++ ly))) | change (In (qb up) (map qb (u0 :: ux ++ uy)))];
        apply in_map; assumption. }
  rewrite helly1. unfold allL, allU.
  split; intros [t H]; exists t.
  - destruct H as [HL HU]. inversion HL as [| ? ? H0 HL']; subst. inversion HU as [| ? ? H1 HU']; subst.
    rewrite map_app in HL', HU'. apply Forall_app in HL' as [HLx HLy]. apply Forall_app in HU' as [HUx HUy].
    unfold satL, qb in H0. unfold satU, qb in H1. cbn in H0, H1.
    split; [unfold Qle in *; cbn in *; lia |]. split; [unfold Qle in *; cbn in *; lia |].
    split; [apply Sx | apply Sy]; split; assumption.
  - destruct H as [H0 [H1 [Ax Ay]]]. apply Sx in Ax as [HLx HUx]. apply Sy in Ay as [HLy HUy].
    rewrite !map_app. split; constructor.
    + unfold satL, qb; cbn. unfold Qle in *; cbn in *; lia.
    + apply Forall_app; split; assumption.
    + unfold satU, qb; cbn. unfold Qle in *; cbn in *; lia.
    + apply Forall_app; split; assumption.
Qed.

(** ** basic facts about [Meets] used later *)

Lemma co_0 from to : co from to 0 == inject_Z from.
Proof. unfold co. ring. Qed.
Lemma co_1 from to : co from to 1 == inject_Z to.
Proof. unfold co. ring. Qed.

Lemma containsPoint_iff p e : containsPoint p e = true <->
  (eminx e <= fst p < emaxx e /\ eminy e <= snd p < emaxy e)%Z.
Proof.
  unfold containsPoint. rewrite !andb_true_iff, !Z.leb_le, !Z.ltb_lt. tauto.
Qed.

Lemma meets_start a b e : containsPoint a e = true -> OnSeg a b 0 e.
Proof.
  rewrite containsPoint_iff. intros [[A B] [C D]]. unfold OnSeg, PIn, AxisIn. rewrite !co_0.
  rewrite <- !Zle_Qle, <- !Zlt_Qlt. repeat split; try assumption; lra.
Qed.

Lemma meets_end a b e : containsPoint b e = true -> OnSeg a b 1 e.
Proof.
  rewrite containsPoint_iff. intros [[A B] [C D]]. unfold OnSeg, PIn, AxisIn. rewrite !co_1.
  rewrite <- !Zle_Qle, <- !Zlt_Qlt. repeat split; try assumption; lra.
Qed.

(** reversing the segment *)
Lemma co_rev from to t : co to from (1 - t) == co from to t.
Proof. unfold co. ring. Qed.

Lemma onseg_rev a b t e : OnSeg a b t e -> OnSeg b a (1 - t) e.
Proof.
  unfold OnSeg, PIn, AxisIn. rewrite !co_rev. intros [A [B C]]. repeat split; try tauto; lra.
Qed.

Lemma meets_sym a b e : Meets a b e <-> Meets b a e.
Proof. split; intros [t H]; exists (1 - t); apply onseg_rev; exact H. Qed.

(** a smaller box is met only if the bigger is *)
Definition SubE (e1 e2 : extent) : Prop :=
  (eminx e2 <= eminx e1 /\ emaxx e1 <= emaxx e2 /\ eminy e2 <= eminy e1 /\ emaxy e1 <= emaxy e2)%Z.

Lemma pin_sub a b t e1 e2 : SubE e1 e2 -> PIn a b t e1 -> PIn a b t e2.
Proof.
  unfold SubE, PIn, AxisIn. rewrite !Zle_Qle. intros [A [B [C D]]] [[E F] [G H]]. repeat split; lra.
Qed.

Lemma onseg_sub a b t e1 e2 : SubE e1 e2 -> OnSeg a b t e1 -> OnSeg a b t e2.
Proof. unfold OnSeg. intros S [A [B C]]. split; [exact A |]. split; [exact B |]. exact (pin_sub _ _ _ _ _ S C). Qed.

Lemma meets_sub a b e1 e2 : SubE e1 e2 -> Meets a b e1 -> Meets a b e2.
Proof. intros S [t H]. exists t. exact (onseg_sub _ _ _ _ _ S H). Qed.
