(** * Tie G2 with machine integers: cmpProducts, paramBound.leavesRoomBelow and lineIntersects
      REGENERATED from pointindex.go on every run (gen/LineGen.v), with Go's int64 / uint64
      semantics (Index/MachineInt.v: wrap-around negation and subtraction, uint64 conversion,
      bits.Mul64 as high and low word of the full product), are the model's exact-[Z] definitions
      (Index/Model.v) on the stated ranges.

    This removes the assumption "cmpProducts' 128-bit arithmetic is modelled as exact Z products"
    from the trusted base: [gen_cmpProducts_spec] holds for EVERY int64 a, c (including -2^63,
    whose negation wraps) and every positive int64 b, d. *)
From Coq Require Import ZArith List Bool Lia.
From Texel Require Import Prelude.Base Index.Model Index.MachineInt Index.ProofsGen.
From Texel.Gen Require Import LineGen.
Import ListNotations.
Open Scope Z_scope.

(** the int result of cmpProducts *)
Definition sgn_of (c : comparison) : Z := match c with Lt => -1 | Eq => 0 | Gt => 1 end.

(** the word-by-word comparison written in cmpProducts *)
Lemma cmp_words p q : 0 <= p -> 0 <= q ->
  (if negb (p / 2^64 =? q / 2^64) then (if p / 2^64 <? q / 2^64 then -1 else 1)
   else if negb (p mod 2^64 =? q mod 2^64) then (if p mod 2^64 <? q mod 2^64 then -1 else 1)
   else 0) = sgn_of (p ?= q).
Proof.
  intros Hp Hq. rewrite (hi_lo_compare p q Hp Hq).
  destruct (Z.compare_spec (p / 2^64) (q / 2^64)) as [E | L | G].
  - rewrite E, Z.eqb_refl. cbn [negb].
    destruct (Z.compare_spec (p mod 2^64) (q mod 2^64)) as [E2 | L2 | G2].
    + rewrite E2, Z.eqb_refl. reflexivity.
    + rewrite (proj2 (Z.eqb_neq _ _)) by lia. cbn [negb]. rewrite (proj2 (Z.ltb_lt _ _)) by lia. reflexivity.
    + rewrite (proj2 (Z.eqb_neq _ _)) by lia. cbn [negb]. rewrite (proj2 (Z.ltb_ge _ _)) by lia. reflexivity.
  - rewrite (proj2 (Z.eqb_neq _ _)) by lia. cbn [negb]. rewrite (proj2 (Z.ltb_lt _ _)) by lia. reflexivity.
  - rewrite (proj2 (Z.eqb_neq _ _)) by lia. cbn [negb]. rewrite (proj2 (Z.ltb_ge _ _)) by lia. reflexivity.
Qed.

(** ** cmpProducts: all int64 a and c, all positive int64 b and d *)
Lemma gen_cmpProducts_spec a b c d :
  - 2^63 <= a < 2^63 -> 0 < b < 2^63 -> - 2^63 <= c < 2^63 -> 0 < d < 2^63 ->
  gen_cmpProducts a b c d = match a * b ?= c * d with Lt => -1 | Eq => 0 | Gt => 1 end.
Proof.
  intros Ha Hb Hc Hd. change (gen_cmpProducts a b c d = sgn_of (a * b ?= c * d)).
  assert (Ub : u64 b = b) by (apply u64_small; unfold is_u64; rewrite two64_lit; rewrite two63_lit in Hb; lia).
  assert (Ud : u64 d = d) by (apply u64_small; unfold is_u64; rewrite two64_lit; rewrite two63_lit in Hd; lia).
  unfold gen_cmpProducts. cbv beta iota zeta delta [mul64].
  destruct (Z.ltb_spec a 0) as [An | Ap]; destruct (Z.ltb_spec c 0) as [Cn | Cp]; cbn [Bool.eqb negb].
  - (* both negative: the magnitudes, the other way around; -x wraps for x = -2^63 and uint64 repairs it *)
    rewrite (u64_neg64_magnitude c) by lia. rewrite (u64_neg64_magnitude a) by lia. rewrite Ub, Ud.
    rewrite cmp_words by nia. f_equal.
    replace (- c * d) with (- (c * d)) by ring. replace (- a * b) with (- (a * b)) by ring.
    apply Z.compare_opp.
  - assert (L : a * b < c * d) by nia. apply Z.compare_lt_iff in L. rewrite L. reflexivity.
  - assert (G : c * d < a * b) by nia. apply Z.compare_gt_iff in G. rewrite G. reflexivity.
  - rewrite (u64_small a) by (unfold is_u64; rewrite two64_lit; rewrite two63_lit in Ha; lia).
    rewrite (u64_small c) by (unfold is_u64; rewrite two64_lit; rewrite two63_lit in Hc; lia).
    rewrite Ub, Ud. apply cmp_words; nia.
Qed.

(** ** leavesRoomBelow *)
Definition pb_of (p : pbound) : gen_paramBound := mk_gen_paramBound (bnum p) (bden p) (bstrict p).
Definition pb_to (p : gen_paramBound) : pbound := mkBound (paramBound_num p) (paramBound_den p) (paramBound_strict p).

(** a paramBound whose fields are int64 values, with a positive denominator *)
Definition pb_ok (p : pbound) : Prop := - 2^63 <= bnum p < 2^63 /\ 0 < bden p < 2^63.

Lemma pb_to_of p : pb_to (pb_of p) = p.
Proof. destruct p; reflexivity. Qed.

Lemma gen_leavesRoomBelow_to lo up : pb_ok (pb_to lo) -> pb_ok (pb_to up) ->
  gen_leavesRoomBelow lo up = leavesRoomBelow (pb_to lo) (pb_to up).
Proof.
  intros [Hn Hd] [Hn' Hd']. unfold gen_leavesRoomBelow, leavesRoomBelow, cmpProducts, pb_to in *.
  cbn [bnum bden bstrict] in *. cbv zeta.
  rewrite gen_cmpProducts_spec by assumption.
  destruct (paramBound_num lo * paramBound_den up ?= paramBound_num up * paramBound_den lo); reflexivity.
Qed.

Lemma gen_leavesRoomBelow_spec lo up : pb_ok lo -> pb_ok up ->
  gen_leavesRoomBelow (pb_of lo) (pb_of up) = leavesRoomBelow lo up.
Proof.
  intros Hl Hu. rewrite gen_leavesRoomBelow_to by (rewrite pb_to_of; assumption).
  rewrite !pb_to_of. reflexivity.
Qed.

(** ** the two nested range loops with their early return are the model's [forallb (forallb ...)] *)
Lemma range_inner lo ups : pb_ok (pb_to lo) -> Forall (fun p => pb_ok (pb_to p)) ups ->
  range_ret (fun up : gen_paramBound => if negb (gen_leavesRoomBelow lo up) then Some false else None) ups
  = if forallb (fun up => leavesRoomBelow (pb_to lo) up) (map pb_to ups) then None else Some false.
Proof.
  intros Hl Hu. induction Hu as [| up ups Hup _ IH]; [reflexivity |].
  cbn [range_ret map forallb]. rewrite gen_leavesRoomBelow_to by assumption.
  destruct (leavesRoomBelow (pb_to lo) (pb_to up)); cbn [negb andb]; [exact IH | reflexivity].
Qed.

Lemma range_loops lows ups :
  Forall (fun p => pb_ok (pb_to p)) lows -> Forall (fun p => pb_ok (pb_to p)) ups ->
  match range_ret (fun lo : gen_paramBound =>
          match range_ret (fun up : gen_paramBound =>
                  if negb (gen_leavesRoomBelow lo up) then Some false else None) ups with
          | Some r => Some r
          | None => None
          end) lows with
  | Some r => r
  | None => true
  end = forallb (fun lo => forallb (fun up => leavesRoomBelow lo up) (map pb_to ups)) (map pb_to lows).
Proof.
  intros Hl Hu. induction Hl as [| lo lows Hlo _ IH]; [reflexivity |].
  cbn [range_ret map forallb]. rewrite (range_inner lo ups Hlo Hu).
  destruct (forallb (fun up => leavesRoomBelow (pb_to lo) up) (map pb_to ups)); cbn [andb]; [exact IH | reflexivity].
Qed.

(** ** lineIntersects.  The int64 subtractions of the source must not wrap: per axis the differences
    to - from, min - from, max - from lie strictly between -2^63 and 2^63 (the first one also because
    its negation is taken). *)
Definition diff_ok (x y : Z) : Prop := - 2^63 < x - y < 2^63.

Lemma gen_lineIntersects_spec_diff (a b : pt) (e : extent) :
  diff_ok (fst b) (fst a) -> diff_ok (eminx e) (fst a) -> diff_ok (emaxx e) (fst a) ->
  diff_ok (snd b) (snd a) -> diff_ok (eminy e) (snd a) -> diff_ok (emaxy e) (snd a) ->
  gen_lineIntersects (a, b) (ext_tuple e) = lineIntersects a b e.
Proof.
  destruct a as [ax ay], b as [bx by_], e as [mnx mny mxx mxy]. unfold diff_ok, ext_tuple.
  cbn [fst snd eminx eminy emaxx emaxy]. rewrite two63_lit. intros Dx Lx Ux Dy Ly Uy.
  unfold gen_lineIntersects. cbv beta zeta. cbn [fst snd gl_ext0 gl_ext1 gl_ext2 gl_ext3].
  rewrite !sub64_small by (unfold is_i64; rewrite two63_lit; lia).
  rewrite !neg64_small by (rewrite two63_lit; lia).
  unfold lineIntersects, axisBounds. cbn [fst snd eminx eminy emaxx emaxy].
  set (dx := bx - ax) in *. set (dy := by_ - ay) in *.
  assert (Ok01 : pb_ok (mkBound 0 1 false)) by (unfold pb_ok; cbn [bnum bden]; rewrite two63_lit; lia).
  assert (Ok11 : pb_ok (mkBound 1 1 false)) by (unfold pb_ok; cbn [bnum bden]; rewrite two63_lit; lia).
  destruct (Z.eqb_spec dx 0) as [Zx | NZx];
    [destruct ((ax <? mnx) || (mxx <=? ax)); [reflexivity |] | destruct (Z.ltb_spec 0 dx) as [Px | Nx]];
  (destruct (Z.eqb_spec dy 0) as [Zy | NZy];
    [destruct ((ay <? mny) || (mxy <=? ay)); [reflexivity |] | destruct (Z.ltb_spec 0 dy) as [Py | Ny]]);
  (rewrite range_loops;
   [ reflexivity
   | cbn [app]; repeat constructor; cbn [pb_to paramBound_num paramBound_den paramBound_strict bnum bden];
     rewrite ?two63_lit; lia ..]).
Qed.

(** the same for ordinates in [-2^62, 2^62) *)
Definition ord_ok (z : Z) : Prop := - 2^62 <= z < 2^62.

Lemma gen_lineIntersects_spec (a b : pt) (e : extent) :
  ord_ok (fst a) -> ord_ok (snd a) -> ord_ok (fst b) -> ord_ok (snd b) ->
  ord_ok (eminx e) -> ord_ok (eminy e) -> ord_ok (emaxx e) -> ord_ok (emaxy e) ->
  gen_lineIntersects (a, b) (ext_tuple e) = lineIntersects a b e.
Proof.
  unfold ord_ok. rewrite two62_lit. intros.
  apply gen_lineIntersects_spec_diff; unfold diff_ok; rewrite two63_lit; lia.
Qed.
