(** * Order of travel along a segment (C02): [Before] is a strict total order on
      pairwise disjoint half-open boxes met by the segment. *)
From Coq Require Import ZArith QArith Lqa Lia List Bool Sorted.
From Texel Require Import Prelude.Base Index.Model Index.ProofsQ Index.ProofsLine.
Import ListNotations.
Open Scope Q_scope.

(** two half-open integer boxes without a common point *)
Definition DisjointE (e1 e2 : extent) : Prop :=
  (emaxx e1 <= eminx e2 \/ emaxx e2 <= eminx e1 \/ emaxy e1 <= eminy e2 \/ emaxy e2 <= eminy e1)%Z.

(** every parameter of the segment inside e1 comes before every parameter inside e2 *)
Definition Before (a b : pt) (e1 e2 : extent) : Prop :=
  forall t1 t2 : Q, OnSeg a b t1 e1 -> OnSeg a b t2 e2 -> t1 < t2.

Lemma disjointE_sym e1 e2 : DisjointE e1 e2 -> DisjointE e2 e1.
Proof. unfold DisjointE. tauto. Qed.

Lemma pin_disjoint a b t e1 e2 : DisjointE e1 e2 -> PIn a b t e1 -> PIn a b t e2 -> False.
Proof.
  unfold DisjointE, PIn, AxisIn. rewrite !Zle_Qle.
  intros D [[A1 A2] [A3 A4]] [[B1 B2] [B3 B4]]. destruct D as [D | [D | [D | D]]]; lra.
Qed.

Lemma onseg_disjoint a b t e1 e2 : DisjointE e1 e2 -> OnSeg a b t e1 -> OnSeg a b t e2 -> False.
Proof. intros D [_ [_ A]] [_ [_ B]]. exact (pin_disjoint _ _ _ _ _ D A B). Qed.

(** the parameter set of a box is convex *)
Lemma axis_convex from to mn mx s t u : s <= t -> t <= u ->
  AxisIn from to mn mx s -> AxisIn from to mn mx u -> AxisIn from to mn mx t.
Proof.
  unfold AxisIn, co. intros H1 H2 [A1 A2] [B1 B2].
  destruct (affine_between (inject_Z from) (inject_Z to - inject_Z from) s t u H1 H2) as [[C1 C2] | [C1 C2]];
    split; lra.
Qed.

Lemma onseg_convex a b e s t u : s <= t -> t <= u -> OnSeg a b s e -> OnSeg a b u e -> OnSeg a b t e.
Proof.
  intros H1 H2 [A0 [A1 [Ax Ay]]] [B0 [B1 [Bx By]]]. split; [lra |]. split; [lra |].
  split; eapply axis_convex; eauto.
Qed.

Lemma before_irrefl a b e : Meets a b e -> ~ Before a b e e.
Proof. intros [t H] B. specialize (B t t H H). lra. Qed.

Lemma before_asym a b e1 e2 : Meets a b e1 -> Meets a b e2 -> Before a b e1 e2 -> Before a b e2 e1 -> False.
Proof. intros [t1 H1] [t2 H2] B1 B2. specialize (B1 t1 t2 H1 H2). specialize (B2 t2 t1 H2 H1). lra. Qed.

Lemma before_trans a b e1 e2 e3 : Meets a b e2 -> Before a b e1 e2 -> Before a b e2 e3 -> Before a b e1 e3.
Proof.
  intros [t2 H2] B1 B2 t1 t3 H1 H3. specialize (B1 t1 t2 H1 H2). specialize (B2 t2 t3 H2 H3). lra.
Qed.

(** two disjoint convex parameter sets are ordered one way or the other *)
Lemma before_total a b e1 e2 : DisjointE e1 e2 -> Meets a b e1 -> Meets a b e2 ->
  Before a b e1 e2 \/ Before a b e2 e1.
Proof.
  intros D [t1 H1] [t2 H2].
  assert (Ne : ~ t1 == t2).
  { intro E. apply (onseg_disjoint a b t1 e1 e2 D H1).
    destruct H2 as [A [B [[C1 C2] [C3 C4]]]]. unfold OnSeg, PIn, AxisIn, co in *. rewrite E. tauto. }
  assert (G : forall e1 e2 t1 t2, DisjointE e1 e2 -> OnSeg a b t1 e1 -> OnSeg a b t2 e2 -> t1 < t2 -> Before a b e1 e2).
  { clear. intros e1 e2 t1 t2 D H1 H2 L s1 s2 S1 S2.
    destruct (Qlt_le_dec s1 s2) as [Ls | Gs]; [exact Ls | exfalso].
    destruct (Qlt_le_dec t1 s2) as [C | C].
    - (* t1 < s2 <= s1: s2 lies between two parameters of e1 *)
      apply (onseg_disjoint a b s2 e1 e2 D); [| exact S2].
      apply (onseg_convex a b e1 t1 s2 s1); [lra | lra | assumption | assumption].
    - (* s2 <= t1 < t2: t1 lies between two parameters of e2 *)
      apply (onseg_disjoint a b t1 e1 e2 D); [exact H1 |].
      apply (onseg_convex a b e2 s2 t1 t2); [lra | lra | assumption | assumption]. }
  destruct (Qlt_le_dec t1 t2) as [L | Ge].
  - left. exact (G e1 e2 t1 t2 D H1 H2 L).
  - right. apply (G e2 e1 t2 t1 (disjointE_sym _ _ D) H2 H1).
    destruct (Qlt_le_dec t2 t1) as [L | Ge']; [exact L |]. exfalso. apply Ne. lra.
Qed.

(** travelling the segment backwards reverses the order *)
Lemma onseg_rev_iff a b t e : OnSeg a b t e <-> OnSeg b a (1 - t) e.
Proof.
  split; [apply onseg_rev |]. intro H. apply onseg_rev in H.
  unfold OnSeg, PIn, AxisIn, co in *. assert (E : 1 - (1 - t) == t) by ring. rewrite E in H. exact H.
Qed.

Lemma before_rev a b e1 e2 : Before a b e1 e2 <-> Before b a e2 e1.
Proof.
  split; intros B t1 t2 H1 H2.
  - apply onseg_rev in H1. apply onseg_rev in H2. specialize (B _ _ H2 H1). lra.
  - apply onseg_rev in H1. apply onseg_rev in H2. specialize (B _ _ H2 H1). lra.
Qed.

(** a box inside another one inherits its place in the order *)
Lemma before_sub a b e1 e2 f1 f2 : SubE f1 e1 -> SubE f2 e2 -> Before a b e1 e2 -> Before a b f1 f2.
Proof.
  intros S1 S2 B t1 t2 H1 H2. apply B; eapply onseg_sub; eauto.
Qed.

(** the box of the start point comes first, the box of the end point last *)
Lemma before_start a b e e' : containsPoint a e = true -> Meets a b e' -> ~ Before a b e' e.
Proof.
  intros Ha [t H] B. specialize (B t 0 H (meets_start a b e Ha)). destruct H as [H0 _]. lra.
Qed.

Lemma before_end a b e e' : containsPoint b e = true -> Meets a b e' -> ~ Before a b e e'.
Proof.
  intros Hb [t H] B. specialize (B 1 t (meets_end a b e Hb) H). destruct H as [_ [H1 _]]. lra.
Qed.

(** Summary: on any family of pairwise disjoint boxes met by the segment, [Before a b] is a strict
    total order. *)
Theorem before_strict_total_order a b (F : extent -> Prop) :
  (forall e, F e -> Meets a b e) ->
  (forall e1 e2, F e1 -> F e2 -> e1 <> e2 -> DisjointE e1 e2) ->
  (forall e, F e -> ~ Before a b e e) /\
  (forall e1 e2 e3, F e1 -> F e2 -> F e3 -> Before a b e1 e2 -> Before a b e2 e3 -> Before a b e1 e3) /\
  (forall e1 e2, F e1 -> F e2 -> Before a b e1 e2 -> ~ Before a b e2 e1) /\
  (forall e1 e2, F e1 -> F e2 -> e1 <> e2 -> Before a b e1 e2 \/ Before a b e2 e1).
Proof.
  intros M D. repeat split.
  - intros e Fe. apply before_irrefl. auto.
  - intros e1 e2 e3 _ F2 _. apply before_trans. auto.
  - intros e1 e2 F1 F2 B1 B2. apply (before_asym a b e1 e2); auto.
  - intros e1 e2 F1 F2 Ne. apply before_total; auto.
Qed.

(** ** generic list facts about strongly sorted lists *)
Section Sorted.
  Context {A : Type} (R : A -> A -> Prop).

  Lemma ssorted_app l1 l2 : StronglySorted R l1 -> StronglySorted R l2 ->
    (forall x y, In x l1 -> In y l2 -> R x y) -> StronglySorted R (l1 ++ l2).
  Proof.
    intros S1 S2 H. induction S1 as [| x l1 S1 IH F]; cbn [app]; [exact S2 |].
    constructor.
    - apply IH. intros u v Hu Hv. apply H; [right; exact Hu | exact Hv].
    - apply Forall_app. split; [exact F |]. apply Forall_forall. intros y Hy. apply H; [left; reflexivity | exact Hy].
  Qed.

  Lemma ssorted_app_inv l1 l2 : StronglySorted R (l1 ++ l2) ->
    StronglySorted R l1 /\ StronglySorted R l2 /\ (forall x y, In x l1 -> In y l2 -> R x y).
  Proof.
    induction l1 as [| x l1 IH]; cbn [app]; intro S.
    - split; [constructor |]. split; [exact S |]. intros x y [].
    - apply StronglySorted_inv in S as [S F]. apply IH in S as [S1 [S2 H]].
      apply Forall_app in F as [F1 F2]. split; [constructor; assumption |]. split; [exact S2 |].
      intros u v [<- | Hu] Hv; [rewrite Forall_forall in F2; apply F2; exact Hv | apply H; assumption].
  Qed.

  (** a strongly sorted list w.r.t. a relation that is irreflexive on its members has no duplicates *)
  Lemma ssorted_NoDup l : (forall x, In x l -> ~ R x x) -> StronglySorted R l -> NoDup l.
  Proof.
    intros Irr S. induction S as [| x l S IH F]; constructor.
    - intro Hx. rewrite Forall_forall in F. apply (Irr x (or_introl eq_refl)). apply F. exact Hx.
    - apply IH. intros y Hy. apply Irr. right. exact Hy.
  Qed.

  (** two strongly sorted lists with the same members are equal when the relation is asymmetric and
      irreflexive on the members *)
  Lemma ssorted_unique l1 : forall l2,
    (forall x, In x l1 -> ~ R x x) ->
    (forall x y, In x l1 -> In y l1 -> R x y -> R y x -> False) ->
    StronglySorted R l1 -> StronglySorted R l2 -> (forall x, In x l1 <-> In x l2) -> l1 = l2.
  Proof.
    induction l1 as [| x l1 IH]; intros l2 Irr Asym S1 S2 E.
    - destruct l2 as [| y l2]; [reflexivity |]. exfalso. apply (E y). left. reflexivity.
    - destruct l2 as [| y l2]; [exfalso; apply (E x); left; reflexivity |].
      apply StronglySorted_inv in S1 as [S1 F1]. apply StronglySorted_inv in S2 as [S2 F2].
      rewrite Forall_forall in F1, F2.
      assert (Exy : x = y).
      { destruct (proj1 (E x) (or_introl eq_refl)) as [Hy | Hx]; [auto |].
        destruct (proj2 (E y) (or_introl eq_refl)) as [Hx' | Hy']; [auto |].
        exfalso. apply (Asym x y); [left; reflexivity | right; exact Hy' | apply F1; exact Hy' | apply F2; exact Hx]. }
      subst y. f_equal. apply IH; try assumption.
      + intros z Hz. apply Irr. right. exact Hz.
      + intros u v Hu Hv. apply Asym; right; assumption.
      + intro z. split; intro Hz.
        * destruct (proj1 (E z) (or_intror Hz)) as [Ez | Hz']; [| exact Hz'].
          subst z. exfalso. apply (Irr x (or_introl eq_refl)). apply F1. exact Hz.
        * destruct (proj2 (E z) (or_intror Hz)) as [Ez | Hz']; [| exact Hz'].
          subst z. exfalso. apply (Irr x (or_introl eq_refl)). apply F2. exact Hz.
  Qed.
End Sorted.

Lemma ssorted_rev {A} (R : A -> A -> Prop) l : StronglySorted R l -> StronglySorted (fun x y => R y x) (rev l).
Proof.
  intro S. induction S as [| x l S IH F]; cbn [rev]; [constructor |].
  apply ssorted_app; [exact IH | repeat constructor |].
  intros u v Hu [<- | []]. rewrite Forall_forall in F. apply F. apply in_rev. exact Hu.
Qed.

Lemma ssorted_map {A B} (R : B -> B -> Prop) (f : A -> B) l :
  StronglySorted (fun x y => R (f x) (f y)) l <-> StronglySorted R (map f l).
Proof.
  induction l as [| x l IH]; cbn [map]; [split; constructor |]. split; intro S.
  - apply StronglySorted_inv in S as [S F]. constructor; [apply IH; exact S |]. rewrite Forall_map. exact F.
  - apply StronglySorted_inv in S as [S F]. constructor; [apply IH; exact S |]. rewrite Forall_map in F. exact F.
Qed.

Lemma ssorted_impl {A} (R R' : A -> A -> Prop) l :
  (forall x y, In x l -> In y l -> R x y -> R' x y) -> StronglySorted R l -> StronglySorted R' l.
Proof.
  intros H S. induction S as [| x l S IH F]; constructor.
  - apply IH. intros u v Hu Hv. apply H; right; assumption.
  - rewrite Forall_forall in *. intros y Hy. apply H; [left; reflexivity | right; exact Hy | apply F; exact Hy].
Qed.

(** flat_map over a sorted list of blocks that are sorted and ordered blockwise *)
Lemma ssorted_flat_map {A B} (RA : A -> A -> Prop) (RB : B -> B -> Prop) (f : A -> list B) l :
  StronglySorted RA l ->
  (forall x, In x l -> StronglySorted RB (f x)) ->
  (forall x y u v, In x l -> In y l -> RA x y -> In u (f x) -> In v (f y) -> RB u v) ->
  StronglySorted RB (flat_map f l).
Proof.
  intros S. induction S as [| x l S IH F]; intros Hs Hc; cbn [flat_map]; [constructor |].
  apply ssorted_app.
  - apply Hs. left. reflexivity.
  - apply IH; [intros y Hy; apply Hs; right; exact Hy |].
    intros u v p q Hu Hv. apply Hc; right; assumption.
  - intros u v Hu Hv. apply in_flat_map in Hv as [y [Hy Hv]]. rewrite Forall_forall in F.
    apply (Hc x y u v); [left; reflexivity | right; exact Hy | apply F; exact Hy | exact Hu | exact Hv].
Qed.
