(** * Grid arithmetic of the quadtree index (C03 / C08 / C02 building blocks).  Pure Z arithmetic. *)
From Coq Require Import ZArith List Bool Lia.
From Texel Require Import Prelude.Base Index.Model Index.ProofsInsert.
Import ListNotations.
Open Scope Z_scope.

(** ** powers of two, spans *)
Lemma pow2_0 : pow2 0 = 1.
Proof. reflexivity. Qed.

Lemma pow2_S n : pow2 (S n) = 2 * pow2 n.
Proof. unfold pow2. rewrite Nat2Z.inj_succ. apply Z.pow_succ_r. lia. Qed.

Lemma pow2_add n m : pow2 (n + m) = pow2 n * pow2 m.
Proof. unfold pow2. rewrite Nat2Z.inj_add. apply Z.pow_add_r; lia. Qed.

Lemma pow2_ne n : pow2 n <> 0.
Proof. pose proof (pow2_pos n). lia. Qed.

Lemma quadSpan_step g l : (l < gdeep g)%nat -> quadSpan g l = 2 * quadSpan g (S l).
Proof.
  intro H. unfold quadSpan. replace (gdeep g - l)%nat with (S (gdeep g - S l)) by lia.
  rewrite pow2_S. ring.
Qed.

Lemma quadSpan_pos g l : 0 < gres g -> 0 < quadSpan g l.
Proof. intro H. unfold quadSpan. pose proof (pow2_pos (gdeep g - l)). nia. Qed.

Lemma quadSpan_deepest g : quadSpan g (gdeep g) = gres g.
Proof. unfold quadSpan. rewrite Nat.sub_diag, pow2_0. ring. Qed.

Lemma quadSpan_root g : quadSpan g 0 = gsize g * gres g.
Proof. unfold quadSpan, gsize. rewrite Nat.sub_0_r. reflexivity. Qed.

(** half the span is exact above the deepest level *)
Lemma quadSpan_half g l : (l < gdeep g)%nat -> quadSpan g l / 2 = quadSpan g (S l).
Proof. intro H. rewrite (quadSpan_step g l H), Z.mul_comm. apply Z.div_mul. lia. Qed.

(** ** centre_formula *)
Lemma centre_formula g l x y :
  quadCentroid g l x y =
  (eminx (gext g) + x * (pow2 (gdeep g - l) * gres g) + (pow2 (gdeep g - l) * gres g) / 2,
   eminy (gext g) + y * (pow2 (gdeep g - l) * gres g) + (pow2 (gdeep g - l) * gres g) / 2).
Proof. reflexivity. Qed.

(** the centroid is the exact middle of the extent when the span is even *)
Lemma centre_is_middle g l x y : ((l < gdeep g)%nat \/ Z.even (gres g) = true) ->
  2 * fst (quadCentroid g l x y) = eminx (quadExtent g l x y) + emaxx (quadExtent g l x y) /\
  2 * snd (quadCentroid g l x y) = eminy (quadExtent g l x y) + emaxy (quadExtent g l x y).
Proof.
  intro H. unfold quadCentroid, quadExtent. cbn [fst snd eminx eminy emaxx emaxy].
  assert (E : 2 * (quadSpan g l / 2) = quadSpan g l).
  { destruct H as [H | H].
    - rewrite (quadSpan_half g l H). symmetry. apply quadSpan_step. exact H.
    - unfold quadSpan. apply Z.even_spec in H. destruct H as [k Hk]. rewrite Hk.
      replace (pow2 (gdeep g - l) * (2 * k)) with (pow2 (gdeep g - l) * k * 2) by ring.
      rewrite Z.div_mul by lia. ring. }
  split; lia.
Qed.

(** in general the centroid is at most half a unit below the middle *)
Lemma centre_near_middle g l x y :
  0 <= eminx (quadExtent g l x y) + emaxx (quadExtent g l x y) - 2 * fst (quadCentroid g l x y) <= 1 /\
  0 <= eminy (quadExtent g l x y) + emaxy (quadExtent g l x y) - 2 * snd (quadCentroid g l x y) <= 1.
Proof.
  unfold quadCentroid, quadExtent. cbn [fst snd eminx eminy emaxx emaxy].
  pose proof (Z.div_mod (quadSpan g l) 2 ltac:(lia)) as E.
  pose proof (Z.mod_pos_bound (quadSpan g l) 2 ltac:(lia)) as B.
  split; lia.
Qed.

(** ** children_partition *)
Definition isRight (i : nat) : bool := match i with 1%nat | 3%nat => true | _ => false end.
Definition isTop (i : nat) : bool := match i with 2%nat | 3%nat => true | _ => false end.

(** the part of the box [P] in the infinite quadrant [i] of the point [c] *)
Definition childExt (P : extent) (c : pt) (i : nat) : extent :=
  mkExtent (if isRight i then fst c else eminx P) (if isTop i then snd c else eminy P)
           (if isRight i then emaxx P else fst c) (if isTop i then emaxy P else snd c).

Lemma quadExtent_child g l x y i : (l < gdeep g)%nat ->
  quadExtent g (S l) (2 * x + oneIfRight i) (2 * y + oneIfTop i) =
  childExt (quadExtent g l x y) (quadCentroid g l x y) i.
Proof.
  intro H. unfold quadExtent, quadCentroid, childExt. cbn [fst snd eminx eminy emaxx emaxy].
  rewrite (quadSpan_half g l H), (quadSpan_step g l H).
  set (s := quadSpan g (S l)).
  destruct i as [| [| [| [| i]]]]; cbn [isRight isTop oneIfRight oneIfTop]; f_equal; ring.
Qed.

Lemma quadCentroid_corner g l x y : (l < gdeep g)%nat ->
  quadCentroid g l x y =
  (eminx (quadExtent g (S l) (2 * x + 1) (2 * y + 1)), eminy (quadExtent g (S l) (2 * x + 1) (2 * y + 1))).
Proof.
  intro H. unfold quadExtent, quadCentroid. cbn [fst snd eminx eminy emaxx emaxy].
  rewrite (quadSpan_half g l H), (quadSpan_step g l H). f_equal; ring.
Qed.

Lemma getInfiniteQuadrant_lt4 p c : (getInfiniteQuadrant p c < 4)%nat.
Proof. unfold getInfiniteQuadrant. destruct (fst c <=? fst p), (snd c <=? snd p); cbn; lia. Qed.

(** membership in the part [childExt P c i], for a centre strictly inside the box *)
Lemma childExt_contains P c i p : (i < 4)%nat ->
  eminx P < fst c < emaxx P -> eminy P < snd c < emaxy P ->
  (containsPoint p (childExt P c i) = true <->
   containsPoint p P = true /\ getInfiniteQuadrant p c = i).
Proof.
  intros Hi Hx Hy. unfold containsPoint, childExt, getInfiniteQuadrant.
  cbn [fst snd eminx eminy emaxx emaxy].
  rewrite !andb_true_iff, !Z.leb_le, !Z.ltb_lt.
  destruct (Z.leb_spec (fst c) (fst p)) as [Cx | Cx], (Z.leb_spec (snd c) (snd p)) as [Cy | Cy];
    destruct i as [| [| [| [| i]]]]; cbn [isRight isTop Nat.add]; try lia.
Qed.

(** the four children of a pixel partition it at its centroid, and the child owning a point is its
    infinite quadrant *)
Theorem children_partition g l x y i p : 0 < gres g -> (l < gdeep g)%nat -> (i < 4)%nat ->
  (containsPoint p (quadExtent g (S l) (2 * x + oneIfRight i) (2 * y + oneIfTop i)) = true <->
   containsPoint p (quadExtent g l x y) = true /\ getInfiniteQuadrant p (quadCentroid g l x y) = i).
Proof.
  intros Hr Hl Hi. rewrite (quadExtent_child g l x y i Hl). apply childExt_contains; [exact Hi | |].
  - unfold quadExtent, quadCentroid. cbn [fst snd eminx eminy emaxx emaxy].
    rewrite (quadSpan_half g l Hl), (quadSpan_step g l Hl). pose proof (quadSpan_pos g (S l) Hr). lia.
  - unfold quadExtent, quadCentroid. cbn [fst snd eminx eminy emaxx emaxy].
    rewrite (quadSpan_half g l Hl), (quadSpan_step g l Hl). pose proof (quadSpan_pos g (S l) Hr). lia.
Qed.

(** every point of the parent is in exactly one child *)
Corollary children_cover g l x y p : 0 < gres g -> (l < gdeep g)%nat ->
  containsPoint p (quadExtent g l x y) = true ->
  exists i, (i < 4)%nat /\
    containsPoint p (quadExtent g (S l) (2 * x + oneIfRight i) (2 * y + oneIfTop i)) = true /\
    forall j, (j < 4)%nat ->
      containsPoint p (quadExtent g (S l) (2 * x + oneIfRight j) (2 * y + oneIfTop j)) = true -> j = i.
Proof.
  intros Hr Hl Hp. exists (getInfiniteQuadrant p (quadCentroid g l x y)).
  pose proof (getInfiniteQuadrant_lt4 p (quadCentroid g l x y)) as H4.
  split; [exact H4 |]. split.
  - apply (children_partition g l x y _ p Hr Hl H4). auto.
  - intros j Hj Hc. apply (children_partition g l x y j p Hr Hl Hj) in Hc. symmetry. apply Hc.
Qed.

(** ** address lists *)
Lemma addr_eqb_eq a b : addr_eqb a b = true <-> a = b.
Proof.
  unfold addr_eqb. rewrite andb_true_iff, !Z.eqb_eq. destruct a, b; cbn [fst snd].
  split; [intros [-> ->]; reflexivity | intro E; injection E; auto].
Qed.

Lemma mem_addr_In a l : mem_addr a l = true <-> In a l.
Proof.
  induction l as [| b r IH]; cbn [mem_addr In]; [split; [discriminate | tauto] |].
  rewrite orb_true_iff, addr_eqb_eq, IH. split; intros [H | H]; auto.
Qed.

Lemma dedup_addr_In a l : In a (dedup_addr l) <-> In a l.
Proof.
  induction l as [| b r IH]; cbn [dedup_addr In]; [tauto |].
  destruct (mem_addr b r) eqn:E.
  - rewrite IH. apply mem_addr_In in E. split; [auto | intros [<- | H]; auto].
  - cbn [In]. rewrite IH. tauto.
Qed.

Lemma dedup_addr_NoDup l : NoDup (dedup_addr l).
Proof.
  induction l as [| b r IH]; cbn [dedup_addr]; [constructor |].
  destruct (mem_addr b r) eqn:E; [exact IH |].
  constructor; [| exact IH]. rewrite dedup_addr_In. intro H. apply mem_addr_In in H. congruence.
Qed.

Lemma hotAt_In g hs l x y :
  In (x, y) (hotAt g hs l) <->
  exists c, In c hs /\ x = fst c / pow2 (gdeep g - l) /\ y = snd c / pow2 (gdeep g - l).
Proof.
  unfold hotAt. rewrite dedup_addr_In, in_map_iff. split.
  - intros [c [E H]]. exists c. injection E as <- <-. auto.
  - intros [c [H [-> ->]]]. exists c. auto.
Qed.

Lemma hotAt_NoDup g hs l : NoDup (hotAt g hs l).
Proof. apply dedup_addr_NoDup. Qed.

Lemma hotLookup_hotLevels g hs l : (l <= gdeep g)%nat -> hotLookup (hotLevels g hs) l = hotAt g hs l.
Proof.
  intro H. unfold hotLookup, hotLevels.
  change (@nil (Z * Z)) with (hotAt g [] 0) at 1.
  rewrite (nth_indep _ (hotAt g [] 0) (hotAt g hs 0)) by (rewrite map_length, seq_length; lia).
  rewrite (map_nth (hotAt g hs)). rewrite seq_nth by lia. reflexivity.
Qed.

(** ** hotAt_parent: the occupied addresses are closed under parents and every one has a child *)
Lemma div_pow2_step k a : a / pow2 k / 2 = a / pow2 (S k).
Proof. rewrite Z.div_div by (pose proof (pow2_pos k); lia). rewrite pow2_S. f_equal. ring. Qed.

Theorem hotAt_parent g hs l x y : (S l <= gdeep g)%nat ->
  In (x, y) (hotAt g hs (S l)) -> In (x / 2, y / 2) (hotAt g hs l).
Proof.
  intros Hl H. apply hotAt_In in H as [c [Hc [-> ->]]]. apply hotAt_In. exists c.
  replace (gdeep g - l)%nat with (S (gdeep g - S l)) by lia.
  rewrite !div_pow2_step. auto.
Qed.

Theorem hotAt_child g hs l x y : (S l <= gdeep g)%nat ->
  In (x, y) (hotAt g hs l) -> exists x' y', In (x', y') (hotAt g hs (S l)) /\ x = x' / 2 /\ y = y' / 2.
Proof.
  intros Hl H. apply hotAt_In in H as [c [Hc [-> ->]]].
  exists (fst c / pow2 (gdeep g - S l)), (snd c / pow2 (gdeep g - S l)). split.
  - apply hotAt_In. exists c. auto.
  - replace (gdeep g - l)%nat with (S (gdeep g - S l)) by lia. rewrite !div_pow2_step. auto.
Qed.

(** ** what insertPolygon stores *)
Lemma foldM_insert_ok g vs : forall hs0 hs, foldM (insertPoint g) vs hs0 = Ok hs ->
  hs = hs0 ++ map (deepestCoord g) vs /\ Forall (fun v => inGridCoord g (deepestCoord g v) = true) vs.
Proof.
  induction vs as [| v vs IH]; intros hs0 hs H; cbn [foldM] in H.
  - injection H as <-. rewrite app_nil_r. split; [reflexivity | constructor].
  - unfold insertPoint in H at 1. destruct (gres g =? 0); [discriminate |].
    destruct (inGridCoord g (deepestCoord g v)) eqn:Ei; [| discriminate]. cbn [bind] in H.
    apply IH in H as [-> F]. rewrite <- app_assoc. split; [reflexivity | constructor; assumption].
Qed.

Lemma insertPolygon_ok g P hs : insertPolygon g P = Ok hs ->
  hs = map (deepestCoord g) (concat P) /\ Forall (fun c => inGridCoord g c = true) hs.
Proof.
  unfold insertPolygon. intro H. apply foldM_insert_ok in H as [-> F]. cbn [app]. split; [reflexivity |].
  rewrite Forall_map. exact F.
Qed.

Lemma inGridCoord_iff g c : inGridCoord g c = true <-> 0 <= fst c < gsize g /\ 0 <= snd c < gsize g.
Proof.
  unfold inGridCoord. rewrite negb_true_iff, !orb_false_iff, !Z.ltb_ge. lia.
Qed.

(** addresses at level l of in-grid deepest addresses are in [0, 2^l) *)
Lemma level_addr_range g l c : (l <= gdeep g)%nat -> 0 <= c < gsize g -> 0 <= c / pow2 (gdeep g - l) < pow2 l.
Proof.
  intros Hl [H0 H1]. pose proof (pow2_pos (gdeep g - l)) as Hp. split.
  - apply Z.div_pos; lia.
  - apply Z.div_lt_upper_bound; [exact Hp |]. rewrite <- pow2_add.
    replace (gdeep g - l + l)%nat with (gdeep g) by lia. exact H1.
Qed.

Lemma hotAt_range g hs l x y : (l <= gdeep g)%nat -> Forall (fun c => inGridCoord g c = true) hs ->
  In (x, y) (hotAt g hs l) -> 0 <= x < pow2 l /\ 0 <= y < pow2 l.
Proof.
  intros Hl F H. apply hotAt_In in H as [c [Hc [-> ->]]]. rewrite Forall_forall in F.
  specialize (F c Hc). apply inGridCoord_iff in F as [Fx Fy].
  split; apply level_addr_range; assumption.
Qed.

Lemma hotAt_root g hs : hs <> [] -> Forall (fun c => inGridCoord g c = true) hs ->
  forall q, In q (hotAt g hs 0) <-> q = (0, 0).
Proof.
  intros Hne F [x y]. split.
  - intro H. apply (hotAt_range g hs 0 x y ltac:(lia) F) in H. rewrite pow2_0 in H.
    f_equal; lia.
  - intro E. injection E as -> ->. destruct hs as [| c r]; [congruence |].
    apply hotAt_In. exists c. split; [left; reflexivity |].
    inversion F as [| ? ? Fc _]; subst. apply inGridCoord_iff in Fc as [Fx Fy].
    rewrite Nat.sub_0_r. fold (gsize g). rewrite !Z.div_small by lia. auto.
Qed.

(** ** hot_contains_vertex *)
Definition pixelOf (g : grid) (l : nat) (v : pt) : Z * Z :=
  (fst (deepestCoord g v) / pow2 (gdeep g - l), snd (deepestCoord g v) / pow2 (gdeep g - l)).

Lemma axis_pixel (o mn res k : Z) : 0 < res -> 0 < k ->
  let px := (o - mn) / res / k in mn + px * (k * res) <= o < mn + (px + 1) * (k * res).
Proof.
  intros Hr Hk px. unfold px. rewrite Z.div_div by lia. rewrite (Z.mul_comm res k).
  assert (Hs : 0 < k * res) by nia.
  pose proof (Z.div_mod (o - mn) (k * res) ltac:(lia)) as E.
  pose proof (Z.mod_pos_bound (o - mn) (k * res) Hs) as B.
  set (q := (o - mn) / (k * res)) in *. lia.
Qed.

Lemma pixelOf_contains g l v : 0 < gres g ->
  containsPoint v (quadExtent g l (fst (pixelOf g l v)) (snd (pixelOf g l v))) = true.
Proof.
  intro Hr. apply andb_true_iff. unfold quadExtent, pixelOf, deepestCoord, quadSpan.
  cbn [fst snd eminx eminy emaxx emaxy].
  pose proof (pow2_pos (gdeep g - l)) as Hp.
  pose proof (axis_pixel (fst v) (eminx (gext g)) (gres g) _ Hr Hp) as [X1 X2].
  pose proof (axis_pixel (snd v) (eminy (gext g)) (gres g) _ Hr Hp) as [Y1 Y2].
  rewrite !andb_true_iff, !Z.leb_le, !Z.ltb_lt. auto.
Qed.

Theorem hot_contains_vertex g P hs v l : 0 < gres g -> insertPolygon g P = Ok hs -> In v (concat P) ->
  In (pixelOf g l v) (hotAt g hs l) /\
  containsPoint v (quadExtent g l (fst (pixelOf g l v)) (snd (pixelOf g l v))) = true.
Proof.
  intros Hr Hi Hv. split; [| apply pixelOf_contains; exact Hr].
  apply insertPolygon_ok in Hi as [-> _]. unfold pixelOf. apply hotAt_In.
  exists (deepestCoord g v). split; [apply in_map; exact Hv | auto].
Qed.

(** the pixel containing a point is unique: pixels of one level are pairwise disjoint *)
Lemma pixel_unique g l x y v : 0 < gres g ->
  containsPoint v (quadExtent g l x y) = true -> (x, y) = pixelOf g l v.
Proof.
  intros Hr H. pose proof (pixelOf_contains g l v Hr) as H'.
  unfold containsPoint, quadExtent in H, H'. cbn [fst snd eminx eminy emaxx emaxy] in H, H'.
  rewrite !andb_true_iff, !Z.leb_le, !Z.ltb_lt in H, H'.
  pose proof (quadSpan_pos g l Hr) as Hs. set (s := quadSpan g l) in *.
  destruct (pixelOf g l v) as [px py]. cbn [fst snd] in H'. f_equal; nia.
Qed.
