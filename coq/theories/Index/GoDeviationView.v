(** * The view of a tile matrix set of the model (Tms/Model.v) that pointindex.go reads.  Definitions only.

    gen/IndexTopGen.v and gen/DeviationGen.v take a tms20.TileMatrixSet as the record [gotms]: the tile width of every
    tile matrix and the result of the method MatrixBoundingBox per id.  [gotms_of_tms t] builds that record from a
    [tms] of Tms/Model.v with the method REGENERATED over exact rationals in gen/TmsAddrGen.v ([gen_MatrixBoundingBox],
    tie C15_source_tie_addressing): a non-nil error = [Some ErrOther], with the zero points the Go method returns then.
    A PANIC of the method (nil pointOfOrigin, variable matrix widths) has no image in the view: [view_total t] says
    that matrix 0 does not panic -- DeviationStats calls MatrixBoundingBox(0) first, so a panic there is a panic of
    DeviationStats before anything else happens (the verdict [deviationVerdict] of Tms/Model.v, C14). *)
From Coq Require Import ZArith NArith QArith List Bool.
From Texel Require Import Prelude.GoAssoc Index.GoTop Index.GoDeviation Tms.Json Tms.Model Tms.GoAddr.
From Texel.Gen Require Import TmsAddrGen.
Import ListNotations.
Open Scope Z_scope.

Definition view_bbox (E : Type) (t : tms) (id : Z) : ((Q * Q) * (Q * Q) * option (goerr E))%type :=
  match gen_MatrixBoundingBox t id with
  | Tms.Model.Ok (bl, tr) => (bl, tr, None)
  | _ => ((0%Q, 0%Q), (0%Q, 0%Q), Some ErrOther)
  end.

Definition view_total (t : tms) : Prop :=
  match gen_MatrixBoundingBox t 0 with
  | Tms.Model.Ok _ | Tms.Model.Error => True
  | _ => False
  end.

Definition gotms_of_tms (lg : Q -> Q) (E : Type) (t : tms) : gotms (fo_exact lg) E :=
  mk_gotms (fo_exact lg) E
           (map (fun km => (fst km, mk_gotm (Z.to_N (tm_tileWidth (snd km))))) (t_matrices t))
           (view_bbox E t).
