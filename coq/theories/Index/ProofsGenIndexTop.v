(** * Tie G2: the exported entry points of pointindex.go and the parts of package intgeom they use, regenerated from
      source on every run (gen/IndexTopGen.v, translator/indextop.go), against the model (Index/Model.v).

    REGENERATED: ToGeomOrd, FromGeomOrd, Point.ToGeomPoint, FromGeomPoint, FromGeomLine, Point.X / Y, Extent.MinX / MinY /
    MaxX / MaxY / XSpan of package intgeom; floorDiv, InsertCoord, InsertPoint, InsertPolygon, SnapClosestPoints,
    GetHitMultiple, FromTileMatrixSet of pointindex.go (every statement).

    TRUSTED / MODELLED (the mappings the translator makes after checking the AST; listed at the top of gen/IndexTopGen.v):
    - float64 is an abstract type [F fo]; the float operations are the fields of [fo : floatops] (Index/GoTop.v).  The
      theorems below hold for EVERY [fo]: none of them needs a property of the float operations except
      [gen_FromTileMatrixSet_spec], which names the two numbers the code computes with math.Log2;
    - int64 / int arithmetic wraps (Index/MachineInt.v, GoTop.v): the theorems carry the hypotheses under which no
      subtraction wraps ([is_i64] of the differences in play);
    - error values = [option (goerr gen_OutsideGridError)]; fmt.Errorf = [ErrOther];
    - a method that changes maps of its pointer receiver returns their final values; calls rebuild the receiver;
    - Go maps = association lists; the range over the per-level result map of SnapClosestPoints iterates in the order
      [ord 1 _ _ m] chosen by the caller: the theorem holds for every [ord] that permutes ([goorder_ok]);
    - geom.Polygon.LinearRings() (go-spatial) = the polygon; tms20.TileMatrixSet = the view [gotms] (tile widths,
      result of MatrixBoundingBox);
    - insertCoord, snapClosestPoints, checkPointHits, getQuadrantExtentAndCentroid, Pow2 are the functions regenerated
      in DescentGen.v / HitsGen.v / PointIndexGen.v (ties C02_source_tie_descent, _insert_coord, _check_point_hits,
      C03_source_tie), called through the projection [gen_descent_ix] of the receiver;
    - the level loop of InsertPolygon = Fixpoint on fuel deepestLevel + 2. *)
From Coq Require Import ZArith NArith List Bool Lia Permutation.
From Texel Require Import Prelude.Base Prelude.GoLoop Prelude.GoAssoc Bits.Bexpr Bits.Morton.
From Texel Require Import Index.Model Index.MachineInt Index.GoTop Index.ProofsGen Index.ProofsGenLine Index.ProofsInsert Index.ProofsGrid
  Index.ProofsGenFind Index.ProofsGenHits Index.ProofsGenDescent Index.ProofsRound.
From Texel.Gen Require Import PointIndexGen LineGen ChildrenGen FindGen HitsGen DescentGen IndexTopGen.
Import ListNotations.
Open Scope Z_scope.

(** ** package intgeom: the codec over the abstract float operations, and the accessors *)
Definition pow10_precision (fo : floatops) : F fo := f_pow fo (f_const fo 10) (f_const fo 10).

(** ToGeomOrd(o) = float64(o) / 10^Precision (0 for 0), FromGeomOrd(f) = int64(f * 10^Precision), Precision = 10 *)
Definition toF (fo : floatops) (z : Z) : F fo :=
  if z =? 0 then f_const fo 0 else f_div fo (f_of_int64 fo z) (pow10_precision fo).
Definition ofF (fo : floatops) (f : F fo) : Z := f_to_int64 fo (f_mul fo f (pow10_precision fo)).

Definition toFpt (fo : floatops) (p : pt) : FPt fo := (toF fo (fst p), toF fo (snd p)).
Definition ofFpt (fo : floatops) (p : FPt fo) : pt := (ofF fo (fst p), ofF fo (snd p)).
Definition ofFline (fo : floatops) (l : FLine fo) : pt * pt := (ofFpt fo (fst l), ofFpt fo (snd l)).

Lemma generated_intgeom_is_model (fo : floatops) :
  (forall z, gen_ToGeomOrd fo z = toF fo z) /\
  (forall f, gen_FromGeomOrd fo f = ofF fo f) /\
  (forall p, gen_Point_ToGeomPoint fo p = toFpt fo p) /\
  (forall p, gen_FromGeomPoint fo p = ofFpt fo p) /\
  (forall l, gen_FromGeomLine fo l = ofFline fo l) /\
  (forall p : pt, gen_Point_X p = fst p /\ gen_Point_Y p = snd p) /\
  (forall e : extent, gen_Extent_MinX (ext_tuple e) = eminx e /\ gen_Extent_MinY (ext_tuple e) = eminy e /\
                      gen_Extent_MaxX (ext_tuple e) = emaxx e /\ gen_Extent_MaxY (ext_tuple e) = emaxy e) /\
  (forall e : extent, is_i64 (emaxx e - eminx e) -> gen_Extent_XSpan (ext_tuple e) = emaxx e - eminx e).
Proof.
  repeat split; try reflexivity.
  intros e H. unfold gen_Extent_XSpan, ext_tuple. cbn [gx_maxx gx_minx]. apply sub64_small. exact H.
Qed.

(** ** machine-integer facts *)
Lemma is_i64_bounds z : is_i64 z <-> - 9223372036854775808 <= z < 9223372036854775808.
Proof. unfold is_i64. rewrite two63_lit. reflexivity. Qed.

Lemma floor_div_range a b : 0 < b -> is_i64 a -> is_i64 (a / b).
Proof.
  intros Hb Ha. apply (proj1 (is_i64_bounds _)) in Ha. apply (proj2 (is_i64_bounds _)).
  pose proof (Z.div_mod a b ltac:(lia)) as E. pose proof (Z.mod_pos_bound a b Hb) as M.
  set (q := a / b) in *. set (r := a mod b) in *. clearbody q r.
  destruct (Z_lt_le_dec a 0) as [Hn | Hp].
  - assert (q < 0) by nia. assert (0 <= (b - 1) * (-1 - q)) by (apply Z.mul_nonneg_nonneg; lia). lia.
  - assert (0 <= q) by nia. assert (0 <= (b - 1) * q) by (apply Z.mul_nonneg_nonneg; lia). lia.
Qed.

(** floorDiv with machine integers: floor division for a positive divisor, the division-by-zero panic for 0 *)
Lemma gen_floorDiv64_spec fo a b : 0 < b -> is_i64 a -> gen_floorDiv64 fo a b = Ok (a / b).
Proof.
  intros Hb Ha. unfold gen_floorDiv64, quot64, rem64.
  destruct (Z.eqb_spec b 0) as [E | _]; [lia |]. cbn [bind].
  pose proof (floor_div_range a b Hb Ha) as Hq.
  assert (Hquot : is_i64 (Z.quot a b)).
  { apply (proj1 (is_i64_bounds _)) in Ha. apply (proj1 (is_i64_bounds _)) in Hq. apply (proj2 (is_i64_bounds _)). Z.to_euclidean_division_equations. nia. }
  rewrite (wrap64_small _ Hquot).
  destruct (Z.ltb_spec (Z.rem a b) 0) as [Hneg | Hpos].
  - assert (E : Z.quot a b - 1 = a / b) by (Z.to_euclidean_division_equations; nia).
    unfold sub64. rewrite E, (wrap64_small _ Hq). reflexivity.
  - f_equal. Z.to_euclidean_division_equations; nia.
Qed.

Lemma gen_floorDiv64_zero fo a : gen_floorDiv64 fo a 0 = Err DivZero.
Proof. reflexivity. Qed.

(** ** the receiver record of this file against the one of DescentGen.v *)
Definition ixT_rel (g : grid) (hots : list (list (Z * Z))) (ix : gen_PointIndexT) : Prop := ix_rel g hots (gen_descent_ix ix).

Lemma with_quadrants_id ix : PointIndexT_with_quadrants ix (PointIndexT_quadrants ix) = ix.
Proof. destruct ix; reflexivity. Qed.

Lemma with_quadrants_twice ix Q Q' : PointIndexT_with_quadrants (PointIndexT_with_quadrants ix Q) Q' = PointIndexT_with_quadrants ix Q'.
Proof. reflexivity. Qed.

Lemma descent_with_quadrants ix Q : gen_descent_ix (PointIndexT_with_quadrants ix Q) = ix_with (gen_descent_ix ix) Q.
Proof. reflexivity. Qed.

Lemma i64_of_size g ix hots : ixT_rel g hots ix -> (gdeep g <= 32)%nat -> i64_of_N (PointIndexT_deepestSize ix) = gsize g.
Proof.
  intros Hix Hd. pose proof (ixr_size _ _ _ Hix) as Hs. cbn [gen_descent_ix PointIndex_deepestSize] in Hs.
  unfold i64_of_N. rewrite Hs. apply wrap64_small. apply (proj2 (is_i64_bounds _)).
  pose proof (gsize_pos g). assert (gsize g <= 2 ^ 32) by (unfold gsize, pow2; apply Z.pow_le_mono_r; lia).
  change (2 ^ 32) with 4294967296 in *. lia.
Qed.

(** ** InsertCoord: the range test, then the regenerated insertCoord *)
Definition outside_error (ix : gen_PointIndexT) (c : Z * Z) : option (goerr gen_OutsideGridError) :=
  Some (ErrOf (mk_gen_OutsideGridError (fst c) (snd c) (PointIndexT_deepestSize ix))).

Lemma gen_InsertCoord_spec fo g hs ix x y :
  ixT_rel g (hotLevels g hs) ix -> (gdeep g <= 32)%nat -> 0 <= gres g ->
  if inGridCoord g (x, y)
  then exists Q', gen_InsertCoord fo ix x y = Ok (Q', None) /\
                  ixT_rel g (hotLevels g (hs ++ [(x, y)])) (PointIndexT_with_quadrants ix Q')
  else gen_InsertCoord fo ix x y = Ok (PointIndexT_quadrants ix, outside_error ix (x, y)).
Proof.
  intros Hix Hd Hr. unfold gen_InsertCoord. cbv zeta.
  rewrite (i64_of_size g ix _ Hix Hd).
  assert (Es : sub64 (gsize g) 1 = gsize g - 1).
  { apply sub64_small. apply (proj2 (is_i64_bounds _)). pose proof (gsize_pos g).
    assert (gsize g <= 2 ^ 32) by (unfold gsize, pow2; apply Z.pow_le_mono_r; lia). change (2 ^ 32) with 4294967296 in *. lia. }
  rewrite Es.
  set (t := (x <? 0) || (y <? 0) || (gsize g - 1 <? x) || (gsize g - 1 <? y)).
  assert (Et : t = negb (inGridCoord g (x, y)))
    by (unfold t, inGridCoord; cbn [fst snd]; rewrite negb_involutive; reflexivity).
  rewrite Et. clear Et t.
  destruct (inGridCoord g (x, y)) eqn:Ein; cbn [negb].
  - destruct (inGridCoord_bounds g (x, y) Ein) as [Bx By]. cbn [fst snd] in Bx, By.
    rewrite with_quadrants_id. unfold gen_insertCoord_T.
    destruct (gen_insertCoord_spec g hs (gen_descent_ix ix) x y Hix Hd Hr Bx By) as (Q' & E & Hix').
    exists Q'. rewrite E. cbn [bind]. split; [reflexivity |]. unfold ixT_rel. rewrite descent_with_quadrants. exact Hix'.
  - reflexivity.
Qed.

(** ** InsertPoint: float -> integer conversion, the address by floor division, InsertCoord *)
Definition pt_fits (g : grid) (p : pt) : Prop :=
  is_i64 (fst p - eminx (gext g)) /\ is_i64 (snd p - eminy (gext g)).

Lemma gen_InsertPoint_spec fo g hs ix (v : FPt fo) :
  ixT_rel g (hotLevels g hs) ix -> (gdeep g <= 32)%nat -> 0 < gres g -> pt_fits g (ofFpt fo v) ->
  let c := deepestCoord g (ofFpt fo v) in
  if inGridCoord g c
  then exists Q', gen_InsertPoint fo ix v = Ok (Q', None) /\
                  ixT_rel g (hotLevels g (hs ++ [c])) (PointIndexT_with_quadrants ix Q')
  else gen_InsertPoint fo ix v = Ok (PointIndexT_quadrants ix, outside_error ix c).
Proof.
  intros Hix Hd Hr [Fx Fy] c. unfold gen_InsertPoint. cbv zeta.
  change (gen_FromGeomPoint fo v) with (ofFpt fo v). set (p := ofFpt fo v) in *.
  pose proof (ixr_root _ _ _ Hix) as Hroot. cbn [gen_descent_ix PointIndex_Quadrant] in Hroot.
  pose proof (ixr_res _ _ _ Hix) as Hres. cbn [gen_descent_ix PointIndex_deepestRes] in Hres.
  rewrite Hroot, Hres. cbn [Quadrant_intExtent].
  unfold gen_Point_X, gen_Point_Y, gen_Extent_MinX, gen_Extent_MinY, ext_tuple. cbn [gx_minx gx_miny].
  rewrite (sub64_small _ _ Fx), (sub64_small _ _ Fy).
  rewrite !gen_floorDiv64_spec by assumption. cbn [bind].
  rewrite with_quadrants_id.
  change ((fst p - eminx (gext g)) / gres g) with (fst c). change ((snd p - eminy (gext g)) / gres g) with (snd c).
  pose proof (gen_InsertCoord_spec fo g hs ix (fst c) (snd c) Hix Hd ltac:(lia)) as HC.
  rewrite <- surjective_pairing in HC.
  destruct (inGridCoord g c).
  - destruct HC as (Q' & E & Hix'). exists Q'. rewrite E. cbn [bind]. split; [reflexivity | exact Hix'].
  - rewrite HC. reflexivity.
Qed.

(** ** InsertPolygon *)
(** the model's fold, stopping at the first address outside the grid: the accepted addresses and the rejected one *)
Fixpoint insertAll (g : grid) (hs : hotset) (ps : list pt) : hotset * option (Z * Z) :=
  match ps with
  | [] => (hs, None)
  | p :: r => let c := deepestCoord g p in
              if inGridCoord g c then insertAll g (hs ++ [c]) r else (hs, Some c)
  end.

Lemma insertAll_model g : 0 < gres g -> forall ps hs,
  foldM (insertPoint g) ps hs = match insertAll g hs ps with (hs', None) => Ok hs' | (_, Some _) => Err OutsideGrid end.
Proof.
  intro Hr. induction ps as [| p ps IH]; intro hs; [reflexivity |].
  cbn [foldM insertAll]. unfold insertPoint at 1.
  destruct (Z.eqb_spec (gres g) 0) as [E | _]; [lia |].
  destruct (inGridCoord g (deepestCoord g p)); cbn [bind]; [apply IH | reflexivity].
Qed.

Lemma insertAll_app g ps1 : forall hs ps2,
  insertAll g hs (ps1 ++ ps2) = match insertAll g hs ps1 with (hs', None) => insertAll g hs' ps2 | r => r end.
Proof.
  induction ps1 as [| p ps1 IH]; intros hs ps2; [reflexivity |].
  cbn [app insertAll]. destruct (inGridCoord g (deepestCoord g p)); [apply IH | reflexivity].
Qed.

Section InsertPolygon.
  Variables (fo : floatops) (g : grid) (ix : gen_PointIndexT).
  Hypothesis Hd : (gdeep g <= 32)%nat.
  Hypothesis Hr : 0 < gres g.

  (** what the two loops hand on: the accepted prefix is in the index; on a rejection the OutsideGridError of its address *)
  Definition poly_outcome (hs : hotset) (ps : list pt) (Q' : gomap N (gomap N gen_Quadrant))
      (out : ctl (gomap N (gomap N gen_Quadrant)) (gomap N (gomap N gen_Quadrant) * option (goerr gen_OutsideGridError))) : Prop :=
    ixT_rel g (hotLevels g (fst (insertAll g hs ps))) (PointIndexT_with_quadrants ix Q') /\
    out = match snd (insertAll g hs ps) with
          | None => Next Q'
          | Some c => Ret (Q', outside_error ix c)
          end.

  Definition vertex_body (v : FPt fo) (Q : gomap N (gomap N gen_Quadrant)) :=
    do (Q', t) <- gen_InsertPoint fo (PointIndexT_with_quadrants ix Q) v;
    if is_some t then Ok (RRet (Q', t)) else Ok (Cont Q').

  Lemma ring_loop : forall (vs : list (FPt fo)) hs Q,
    ixT_rel g (hotLevels g hs) (PointIndexT_with_quadrants ix Q) -> Forall (fun v => pt_fits g (ofFpt fo v)) vs ->
    exists Q' out, range_loop vertex_body vs Q = Ok out /\ poly_outcome hs (map (ofFpt fo) vs) Q' out.
  Proof.
    induction vs as [| v vs IH]; intros hs Q Hix Hf.
    - exists Q, (Next Q). split; [reflexivity |]. split; [exact Hix | reflexivity].
    - inversion Hf as [| ? ? Hv Hf']; subst.
      unfold poly_outcome. cbn [range_loop map insertAll]. cbv zeta. unfold vertex_body at 1.
      pose proof (gen_InsertPoint_spec fo g hs _ v Hix Hd Hr Hv) as HP. cbv zeta in HP.
      destruct (inGridCoord g (deepestCoord g (ofFpt fo v))).
      + destruct HP as (Q1 & E & Hix1). rewrite E. cbn [bind is_some].
        rewrite with_quadrants_twice in Hix1. exact (IH _ _ Hix1 Hf').
      + rewrite HP. cbn [bind]. unfold outside_error at 1. cbn [is_some PointIndexT_with_quadrants PointIndexT_quadrants PointIndexT_deepestSize].
        exists Q. eexists. split; [reflexivity |]. split; [exact Hix | reflexivity].
  Qed.

  Definition ring_body (ring : list (FPt fo)) (Q : gomap N (gomap N gen_Quadrant)) :=
    do out <- range_loop vertex_body ring Q;
    match out with
    | Ret r => Ok (RRet r)
    | Next Q' => Ok (Cont Q')
    end.

  Lemma rings_loop : forall (rings : list (list (FPt fo))) hs Q,
    ixT_rel g (hotLevels g hs) (PointIndexT_with_quadrants ix Q) ->
    Forall (fun v => pt_fits g (ofFpt fo v)) (concat rings) ->
    exists Q' out, range_loop ring_body rings Q = Ok out /\
                   poly_outcome hs (concat (map (map (ofFpt fo)) rings)) Q' out.
  Proof.
    induction rings as [| ring rings IH]; intros hs Q Hix Hf.
    - exists Q, (Next Q). split; [reflexivity |]. split; [exact Hix | reflexivity].
    - cbn [concat] in Hf. apply Forall_app in Hf as [Hf1 Hf2].
      cbn [range_loop map concat]. unfold ring_body at 1.
      destruct (ring_loop ring hs Q Hix Hf1) as (Q1 & out1 & E1 & Hix1 & Eout1).
      rewrite E1. cbn [bind]. unfold poly_outcome in *. rewrite insertAll_app.
      destruct (insertAll g hs (map (ofFpt fo) ring)) as [hs1 [c |]] eqn:Eall; cbn [fst snd] in Hix1, Eout1; subst out1.
      + exists Q1. eexists. split; [reflexivity |]. split; [exact Hix1 | reflexivity].
      + exact (IH hs1 Q1 Hix1 Hf2).
  Qed.

  (** the loop that makes the per-level maps that do not exist yet: every level reads as before *)
  Lemma make_levels_loop (poly : list (list (FPt fo))) pc : forall f (Q : gomap N (gomap N gen_Quadrant)) (l : nat), (l <= S (gdeep g))%nat -> (S (gdeep g) - l < f)%nat ->
    PointIndexT_deepestLevel ix = N.of_nat (gdeep g) ->
    exists Q' lev, gen_InsertPolygon_loop1 fo ix poly pc f Q (N.of_nat l) = Ok (Next (Q', lev)) /\
                   forall k, gm_get_or N.eqb (@nil (N * gen_Quadrant)) Q' k = gm_get_or N.eqb [] Q k.
  Proof.
    induction f as [| f IH]; intros Q l Hl Hf Hdeep; [lia |].
    cbn [gen_InsertPolygon_loop1]. rewrite Hdeep.
    destruct (N.leb_spec (N.of_nat l) (N.of_nat (gdeep g))) as [Hle | Hgt].
    2:{ exists Q, (N.of_nat l). split; [reflexivity | intro k; reflexivity]. }
    rewrite (w64_small_nat l) by lia.
    destruct (gm_has N.eqb Q (N.of_nat l)) eqn:Eh; cbn [negb].
    - apply (IH Q (S l)); [lia | lia | exact Hdeep].
    - destruct (IH (gm_set N.eqb Q (N.of_nat l) []) (S l) ltac:(lia) ltac:(lia) Hdeep) as (Q' & lev & E & HQ').
      exists Q', lev. split; [exact E |]. intro k. rewrite HQ'.
      destruct (N.eqb_spec k (N.of_nat l)) as [-> | Hne].
      + rewrite (gm_has_false_get_or N.eqb [] Q _ Eh). unfold gm_get_or.
        rewrite (gm_get_set N.eqb Neqb_spec), N.eqb_refl. reflexivity.
      + unfold gm_get_or. rewrite (gm_get_set N.eqb Neqb_spec).
        destruct (N.eqb_spec k (N.of_nat l)); [contradiction | reflexivity].
  Qed.
End InsertPolygon.

Lemma range_loop_cont_only {A S R : Type} (body : A -> S -> res (rctl S R)) :
  (forall x s, exists s', body x s = Ok (Cont s')) -> forall l s, exists s', range_loop body l s = Ok (Next s').
Proof.
  intros Hb l. induction l as [| x l IH]; intro s; [exists s; reflexivity |].
  cbn [range_loop]. destruct (Hb x s) as (s1 & E). rewrite E. apply IH.
Qed.

Lemma ixT_rel_quadrants_ext g hots ix Q :
  (forall k, gm_get_or N.eqb (@nil (N * gen_Quadrant)) Q k = gm_get_or N.eqb [] (PointIndexT_quadrants ix) k) ->
  ixT_rel g hots ix -> ixT_rel g hots (PointIndexT_with_quadrants ix Q).
Proof.
  intros HQ Hix. destruct Hix as [H1 H2 H3 H4 H5].
  constructor; cbn [gen_descent_ix PointIndexT_with_quadrants PointIndex_Quadrant PointIndex_deepestLevel PointIndex_deepestSize
                    PointIndex_deepestRes PointIndex_quadrants PointIndexT_Quadrant PointIndexT_deepestLevel PointIndexT_deepestSize
                    PointIndexT_deepestRes PointIndexT_quadrants] in *; try assumption.
  intros l Hl. rewrite HQ. exact (H5 l Hl).
Qed.

(** InsertPolygon: every vertex of every ring, in order, is converted to integers and inserted ([insertAll] = the model's
    fold up to the first address outside the grid).  The vertices before a rejected one stay in the index (the Go code
    does not undo them), and the error is the OutsideGridError of the rejected address. *)
Theorem gen_InsertPolygon_spec fo g hs ix (polygon : list (list (FPt fo))) :
  ixT_rel g (hotLevels g hs) ix -> (gdeep g <= 32)%nat -> 0 < gres g ->
  Forall (fun v => pt_fits g (ofFpt fo v)) (concat polygon) ->
  let P := map (map (ofFpt fo)) polygon in
  exists Q' e, gen_InsertPolygon fo ix polygon = Ok (Q', e) /\
    ixT_rel g (hotLevels g (fst (insertAll g hs (concat P)))) (PointIndexT_with_quadrants ix Q') /\
    e = match snd (insertAll g hs (concat P)) with None => None | Some c => outside_error ix c end.
Proof.
  intros Hix Hd Hr Hf P. unfold gen_InsertPolygon. cbv zeta. unfold go_LinearRings.
  match goal with |- context [range_loop ?b polygon 0] =>
    destruct (range_loop_cont_only b ltac:(intros x s; eexists; reflexivity) polygon 0) as (pc & Epc); rewrite Epc end.
  cbn [bind].
  pose proof (ixr_deep _ _ _ Hix) as Hdeep. cbn [gen_descent_ix PointIndex_deepestLevel] in Hdeep.
  rewrite Hdeep, Nat2N.id.
  destruct (make_levels_loop fo g ix Hd polygon pc (S (S (gdeep g))) (PointIndexT_quadrants ix) 0%nat ltac:(lia) ltac:(lia) Hdeep)
    as (Q1 & lev & E1 & HQ1).
  change (N.of_nat 0) with 0%N in E1. rewrite E1. cbn [bind].
  pose proof (ixT_rel_quadrants_ext g _ ix Q1 HQ1 Hix) as Hix1.
  destruct (rings_loop fo g ix Hd Hr polygon hs Q1 Hix1 Hf) as (Q' & out & E2 & Hix2 & Eout).
  match goal with |- context [range_loop ?b polygon Q1] => change b with (ring_body fo ix) end.
  rewrite E2. cbn [bind]. fold P in Hix2, Eout. subst out.
  exists Q'. destruct (snd (insertAll g hs (concat P))) as [c |]; eexists; (split; [reflexivity | split; [exact Hix2 | reflexivity]]).
Qed.

(** the same against the model's [insertPoint] fold / [insertPolygon] *)
Corollary gen_InsertPolygon_model fo g hs ix (polygon : list (list (FPt fo))) :
  ixT_rel g (hotLevels g hs) ix -> (gdeep g <= 32)%nat -> 0 < gres g ->
  Forall (fun v => pt_fits g (ofFpt fo v)) (concat polygon) ->
  let P := map (map (ofFpt fo)) polygon in
  exists Q' e, gen_InsertPolygon fo ix polygon = Ok (Q', e) /\
    match foldM (insertPoint g) (concat P) hs with
    | Ok hs' => e = None /\ ixT_rel g (hotLevels g hs') (PointIndexT_with_quadrants ix Q')
    | Err er => er = OutsideGrid /\
                exists hs1 c, insertAll g hs (concat P) = (hs1, Some c) /\ inGridCoord g c = false /\ e = outside_error ix c /\
                              ixT_rel g (hotLevels g hs1) (PointIndexT_with_quadrants ix Q')
    end.
Proof.
  intros Hix Hd Hr Hf P.
  destruct (gen_InsertPolygon_spec fo g hs ix polygon Hix Hd Hr Hf) as (Q' & e & E & Hix' & Ee). fold P in Hix', Ee.
  exists Q', e. split; [exact E |]. rewrite (insertAll_model g Hr).
  destruct (insertAll g hs (concat P)) as [hs1 [c |]] eqn:Eall; cbn [fst snd] in *.
  - split; [reflexivity |]. exists hs1, c. split; [reflexivity |]. split; [| split; assumption].
    clear - Eall. revert hs Eall. induction (concat P) as [| p ps IH]; intros hs Eall; [discriminate |].
    cbn [insertAll] in Eall. destruct (inGridCoord g (deepestCoord g p)) eqn:Ein; [exact (IH _ Eall) |].
    injection Eall as _ <-. exact Ein.
  - split; assumption.
Qed.

(** the index FromTileMatrixSet-style code starts from: no quadrants, no hits *)
Definition gen_empty_indexT (g : grid) : gen_PointIndexT :=
  mk_gen_PointIndexT (mk_gen_Quadrant 0%N (ext_tuple (gext g)) (quadCentroid g 0 0 0))
                     (N.of_nat (gdeep g)) (Z.to_N (gsize g)) (gres g) [] [] [].

Lemma empty_indexT_rel g : ixT_rel g (hotLevels g []) (gen_empty_indexT g).
Proof. exact (empty_index_rel g). Qed.

Corollary gen_InsertPolygon_insertPolygon fo g (polygon : list (list (FPt fo))) :
  (gdeep g <= 32)%nat -> 0 < gres g -> Forall (fun v => pt_fits g (ofFpt fo v)) (concat polygon) ->
  let P := map (map (ofFpt fo)) polygon in
  exists Q' e, gen_InsertPolygon fo (gen_empty_indexT g) polygon = Ok (Q', e) /\
    match insertPolygon g P with
    | Ok hs => e = None /\ ixT_rel g (hotLevels g hs) (PointIndexT_with_quadrants (gen_empty_indexT g) Q')
    | Err er => er = OutsideGrid /\
                exists hs1 c, insertAll g [] (concat P) = (hs1, Some c) /\ inGridCoord g c = false /\
                              e = outside_error (gen_empty_indexT g) c /\
                              ixT_rel g (hotLevels g hs1) (PointIndexT_with_quadrants (gen_empty_indexT g) Q')
    end.
Proof. intros Hd Hr Hf. exact (gen_InsertPolygon_model fo g [] _ polygon (empty_indexT_rel g) Hd Hr Hf). Qed.

(** ** SnapClosestPoints *)

(** *** association lists with distinct keys *)
Lemma gm_set_keys {V : Type} (m : gomap N V) k v x :
  In x (map fst (gm_set N.eqb m k v)) -> x = k \/ In x (map fst m).
Proof.
  induction m as [| [k0 v0] r IH]; cbn [gm_set map fst In].
  - intros [<- | []]. left; reflexivity.
  - destruct (N.eqb k k0); cbn [map fst In].
    + intros [<- | H]; [right; left; reflexivity | right; right; exact H].
    + intros [<- | H]; [right; left; reflexivity |]. destruct (IH H) as [-> | H']; [left; reflexivity | right; right; exact H'].
Qed.

Lemma gm_set_nodup {V : Type} (m : gomap N V) k v : NoDup (map fst m) -> NoDup (map fst (gm_set N.eqb m k v)).
Proof.
  induction m as [| [k0 v0] r IH]; intro H; cbn [gm_set map fst].
  - constructor; [intros [] | constructor].
  - inversion H as [| ? ? Hn Hr]; subst. destruct (N.eqb_spec k k0) as [-> | Hne]; cbn [map fst].
    + constructor; assumption.
    + constructor; [| exact (IH Hr)]. intro Hin. destruct (gm_set_keys r k v k0 Hin) as [-> | Hin']; [congruence | contradiction].
Qed.

Lemma gm_get_none_notin {V : Type} (m : gomap N V) k : ~ In k (map fst m) -> gm_get N.eqb m k = None.
Proof.
  induction m as [| [k0 v0] r IH]; intro H; [reflexivity |]. cbn [gm_get map fst In] in *.
  destruct (N.eqb_spec k k0) as [-> | _]; [exfalso; apply H; left; reflexivity |]. apply IH. intro Hin. apply H. right. exact Hin.
Qed.

Lemma gm_get_in_nodup {V : Type} (m : gomap N V) k v : NoDup (map fst m) -> (gm_get N.eqb m k = Some v <-> In (k, v) m).
Proof.
  induction m as [| [k0 v0] r IH]; intro H; cbn [gm_get In]; [split; [discriminate | intros []] |].
  inversion H as [| ? ? Hn Hr]; subst. destruct (N.eqb_spec k k0) as [-> | Hne].
  - split; [intro E; injection E as <-; left; reflexivity |].
    intros [E | Hin]; [injection E as <-; reflexivity |]. exfalso. apply Hn. apply (in_map fst) in Hin. exact Hin.
  - rewrite (IH Hr). split; [intro Hin; right; exact Hin |]. intros [E | Hin]; [injection E as <- _; congruence | exact Hin].
Qed.

Lemma gm_get_perm {V : Type} (m m' : gomap N V) : Permutation m' m -> NoDup (map fst m) -> forall k, gm_get N.eqb m' k = gm_get N.eqb m k.
Proof.
  intros Hp Hn k.
  assert (Hn' : NoDup (map fst m')) by (apply (Permutation_NoDup (l := map fst m)); [apply Permutation_sym, Permutation_map; exact Hp | exact Hn]).
  destruct (gm_get N.eqb m k) as [v |] eqn:E.
  - apply (gm_get_in_nodup m' k v Hn'). apply (Permutation_in _ (Permutation_sym Hp)). apply (gm_get_in_nodup m k v Hn). exact E.
  - destruct (gm_get N.eqb m' k) as [v |] eqn:E'; [| reflexivity].
    apply (gm_get_in_nodup m' k v Hn') in E'. apply (Permutation_in _ Hp) in E'. apply (gm_get_in_nodup m k v Hn) in E'. congruence.
Qed.

Lemma gm_get_or_set {V : Type} (z : V) (m : gomap N V) k v k' :
  gm_get_or N.eqb z (gm_set N.eqb m k v) k' = if N.eqb k' k then v else gm_get_or N.eqb z m k'.
Proof. unfold gm_get_or. rewrite (gm_get_set N.eqb Neqb_spec). destruct (N.eqb k' k); reflexivity. Qed.

(** *** the result map of the regenerated snapClosestPoints has distinct keys *)
Lemma descent_loop_nodup ix l lm : forall f P ps lev P' ps' lev',
  NoDup (map fst P) -> gen_snapClosestPoints_loop1 ix l lm f P ps lev = Ok (Next (P', ps', lev')) -> NoDup (map fst P').
Proof.
  induction f as [| f IH]; intros P ps lev P' ps' lev' HP E; [discriminate |].
  cbn [gen_snapClosestPoints_loop1] in E.
  destruct (lev <=? PointIndex_deepestLevel ix)%N.
  2:{ injection E as <- _ _. exact HP. }
  match type of E with bind ?r _ = _ => destruct r as [[qi | r0] | e] end; cbn [bind] in E; try discriminate.
  destruct (gm_get_ok N.eqb tt lm lev) as [u inc]. destruct inc.
  - exact (IH _ _ _ _ _ _ (gm_set_nodup P lev qi HP) E).
  - exact (IH _ _ _ _ _ _ HP E).
Qed.

Theorem gen_snapClosestPoints_spec_nodup (g : grid) (hots : list (list (Z * Z))) (ix : gen_PointIndex) (a b : pt) (lm : gomap N unit) :
  ix_rel g hots ix -> (gdeep g <= 32)%nat -> line_fits a b (gext g) ->
  (forall l c, (1 <= l <= gdeep g)%nat -> mem_addr c (hotLookup hots l) = true ->
     line_fits a b (quadExtent g l (fst c) (snd c))) ->
  exists result : gomap N (list gen_Quadrant),
    gen_snapClosestPoints ix (a, b) lm = Ok result /\
    (forall k : N, gm_get N.eqb result k =
      if negb (gm_len lm =? 0) && lineIntersects a b (gext g) && (k <=? N.of_nat (gdeep g))%N && gm_has N.eqb lm k
      then Some (map gq_quad (snapClosestQuads g hots a b (N.to_nat k))) else None) /\
    NoDup (map fst result).
Proof.
  intros Hix Hdeep Hroot Hfit.
  destruct (gen_snapClosestPoints_spec g hots ix a b lm Hix Hdeep Hroot Hfit) as (result & E & Hres).
  exists result. split; [exact E |]. split; [exact Hres |].
  destruct Hroot as (F1 & F2 & F3 & F4 & F5 & F6).
  unfold gen_snapClosestPoints in E. cbv zeta in E. rewrite (root_gq g hots ix Hix) in E.
  change (Quadrant_intExtent (gq_quad (rootQuad g))) with (ext_tuple (gext g)) in E.
  rewrite (gen_lineIntersects_spec_diff a b (gext g) F1 F2 F3 F4 F5 F6) in E.
  destruct ((gm_len lm =? 0) || negb (lineIntersects a b (gext g))).
  { injection E as <-. constructor. }
  rewrite (ixr_deep _ _ _ Hix), Nat2N.id in E.
  set (P0 := if gm_has N.eqb lm 0%N then gm_set N.eqb (@nil (N * list gen_Quadrant)) 0%N [gq_quad (rootQuad g)] else []).
  assert (HP0 : Pinv g hots a b lm 1 P0).
  { intro k. unfold P0. destruct (N.ltb_spec k (N.of_nat 1)) as [Hk | Hk]; cbn [andb].
    - assert (k = 0%N) by lia. subst k. destruct (gm_has N.eqb lm 0%N); reflexivity.
    - destruct (gm_has N.eqb lm 0%N); [| reflexivity]. cbn [gm_set gm_get].
      destruct (N.eqb_spec k 0%N); [lia | reflexivity]. }
  assert (HN0 : NoDup (map fst P0)).
  { unfold P0. destruct (gm_has N.eqb lm 0%N); [apply gm_set_nodup |]; constructor. }
  destruct (level_loop g hots ix a b lm Hix Hdeep Hfit (S (gdeep g)) 0%nat P0 ltac:(lia) ltac:(lia) HP0)
    as (P' & ps' & lev' & Eloop & _).
  cbn [descendTo map] in Eloop. change (N.of_nat 1) with 1%N in Eloop.
  pose proof (descent_loop_nodup _ _ _ _ _ _ _ _ _ _ HN0 Eloop) as HN'.
  unfold gm_get_ok in E. unfold P0, gm_has in Eloop.
  destruct (gm_get N.eqb lm 0%N) as [u |]; rewrite Eloop in E; injection E as <-; exact HN'.
Qed.

(** *** the loops of SnapClosestPoints *)
Definition hitsT : Type := gomap N (gomap pt (list Z)).

(** the per-level hit maps of the code against per-level hit states of the model *)
Definition hit_rel (S : N -> hits) (h1 h2 : hitsT) : Prop :=
  forall k, gm_get_or N.eqb [] h1 k = hm_conv (hitOnce (S k)) /\ gm_get_or N.eqb [] h2 k = hm_conv (hitMultiple (S k)).

Lemma setidx_mid {A : Type} (done rest : list A) (z v : A) :
  setidx (done ++ z :: rest) (zlen done) v = Ok (done ++ v :: rest).
Proof.
  unfold setidx, zlen. destruct (Z.ltb_spec (Z.of_nat (length done)) 0) as [H | _]; [lia |].
  rewrite Nat2Z.id. induction done as [| d done IH]; [reflexivity |]. cbn [app length set_nth].
  destruct (set_nth (done ++ z :: rest) (length done) v) as [l' |]; [| discriminate]. injection IH as ->. reflexivity.
Qed.

Lemma zlen_snoc {A : Type} (l : list A) x : zlen (l ++ [x]) = zlen l + 1.
Proof. unfold zlen. rewrite app_length. cbn [length]. lia. Qed.

Section Snap.
  Variables (fo : floatops) (ringId : nat).

  Definition cpt (q : gen_Quadrant) : FPt fo := gen_Point_ToGeomPoint fo (Quadrant_intCentroid q).
  Definition zeroFPt : FPt fo := (f_const fo 0, f_const fo 0).

  (** the model's hit accounting for the centres of one level after the first *)
  Definition after (s : hits) (qs : list gen_Quadrant) : hits :=
    fold_left (fun s v => checkPointHits s v ringId) (tl (map Quadrant_intCentroid qs)) s.

  (** the body of the loop over the quadrants of one level (the text of gen/IndexTopGen.v, the level a parameter) *)
  Definition level_inner_body (k : N)
    : Z * gen_Quadrant -> hitsT * hitsT * list (FPt fo) ->
      res (rctl (hitsT * hitsT * list (FPt fo)) (hitsT * hitsT * gomap N (list (FPt fo)))) :=
    fun '((v_i, v_quadrant) : (Z * gen_Quadrant)%type) '((v_ix_hitOnce, v_ix_hitMultiple, v_points) : (hitsT * hitsT * list (FPt fo))%type) =>
      do v_points <- setidx v_points v_i (gen_Point_ToGeomPoint fo (Quadrant_intCentroid v_quadrant));
      if (0 <? v_i) then (do (h_3, h_4) <- gen_checkPointHits (gm_get_or N.eqb (@nil ((Z * Z)%type * (list Z))) v_ix_hitOnce k) (gm_get_or N.eqb (@nil ((Z * Z)%type * (list Z))) v_ix_hitMultiple k) (Quadrant_intCentroid v_quadrant) (Z.of_nat ringId);
        let v_ix_hitOnce := (gm_set N.eqb v_ix_hitOnce k h_3) in
        let v_ix_hitMultiple := (gm_set N.eqb v_ix_hitMultiple k h_4) in
        Ok (Cont (v_ix_hitOnce, v_ix_hitMultiple, v_points)))
      else (Ok (Cont (v_ix_hitOnce, v_ix_hitMultiple, v_points))).

  (** the quadrants after the first: every centre is converted and accounted *)
  Lemma inner_loop_tail k : forall (rest : list gen_Quadrant) (done : list (FPt fo)) (h1 h2 : hitsT) (s : hits),
    done <> [] ->
    gm_get_or N.eqb [] h1 k = hm_conv (hitOnce s) -> gm_get_or N.eqb [] h2 k = hm_conv (hitMultiple s) ->
    exists h1' h2',
      range_loop (level_inner_body k) (indexed_from (zlen done) rest) (h1, h2, done ++ repeat zeroFPt (length rest))
      = Ok (Next (h1', h2', done ++ map cpt rest)) /\
      let s' := fold_left (fun s v => checkPointHits s v ringId) (map Quadrant_intCentroid rest) s in
      gm_get_or N.eqb [] h1' k = hm_conv (hitOnce s') /\ gm_get_or N.eqb [] h2' k = hm_conv (hitMultiple s') /\
      (forall k', k' <> k -> gm_get_or N.eqb [] h1' k' = gm_get_or N.eqb [] h1 k' /\ gm_get_or N.eqb [] h2' k' = gm_get_or N.eqb [] h2 k').
  Proof.
    induction rest as [| q rest IH]; intros done h1 h2 s Hne E1 E2.
    - exists h1, h2. cbn [indexed_from range_loop repeat length map fold_left]. rewrite app_nil_r.
      split; [reflexivity |]. split; [exact E1 |]. split; [exact E2 |]. intros k' _. split; reflexivity.
    - cbn [indexed_from range_loop length repeat]. unfold level_inner_body at 1.
      rewrite setidx_mid. cbn [bind].
      assert (Hpos : (0 <? zlen done) = true).
      { apply Z.ltb_lt. unfold zlen. destruct done; [contradiction | cbn [length]; lia]. }
      rewrite Hpos. cbv iota.
      match goal with |- context [gen_checkPointHits ?x ?y _ _] =>
        replace x with (hm_conv (hitOnce s)) by (symmetry; exact E1);
        replace y with (hm_conv (hitMultiple s)) by (symmetry; exact E2) end.
      rewrite gen_checkPointHits_spec. cbn [bind].
      set (s1 := checkPointHits s (Quadrant_intCentroid q) ringId).
      set (h1a := gm_set N.eqb h1 k (hm_conv (hitOnce s1))). set (h2a := gm_set N.eqb h2 k (hm_conv (hitMultiple s1))).
      assert (A1 : gm_get_or N.eqb [] h1a k = hm_conv (hitOnce s1)) by (unfold h1a; rewrite gm_get_or_set, N.eqb_refl; reflexivity).
      assert (A2 : gm_get_or N.eqb [] h2a k = hm_conv (hitMultiple s1)) by (unfold h2a; rewrite gm_get_or_set, N.eqb_refl; reflexivity).
      assert (Hne' : done ++ [cpt q] <> []) by (intro Hx; apply app_eq_nil in Hx as [_ Hx]; discriminate).
      destruct (IH (done ++ [cpt q]) h1a h2a s1 Hne' A1 A2) as (h1' & h2' & E & B1 & B2 & B3).
      rewrite zlen_snoc in E. rewrite <- app_assoc in E. cbn [app] in E.
      exists h1', h2'. split.
      + refine (eq_trans E _). cbn [map]. rewrite <- app_assoc. reflexivity.
      + cbn [map fold_left]. fold s1. split; [exact B1 |]. split; [exact B2 |].
        intros k' Hk'. destruct (B3 k' Hk') as [C1 C2]. rewrite C1, C2. unfold h1a, h2a. rewrite !gm_get_or_set.
        destruct (N.eqb_spec k' k); [contradiction | split; reflexivity].
  Qed.

  (** all quadrants of one level: the first centre is converted only *)
  Lemma inner_loop k (qs : list gen_Quadrant) (h1 h2 : hitsT) (s : hits) :
    gm_get_or N.eqb [] h1 k = hm_conv (hitOnce s) -> gm_get_or N.eqb [] h2 k = hm_conv (hitMultiple s) ->
    exists h1' h2',
      range_loop (level_inner_body k) (indexed_from 0 qs) (h1, h2, repeat zeroFPt (length qs))
      = Ok (Next (h1', h2', map cpt qs)) /\
      gm_get_or N.eqb [] h1' k = hm_conv (hitOnce (after s qs)) /\ gm_get_or N.eqb [] h2' k = hm_conv (hitMultiple (after s qs)) /\
      (forall k', k' <> k -> gm_get_or N.eqb [] h1' k' = gm_get_or N.eqb [] h1 k' /\ gm_get_or N.eqb [] h2' k' = gm_get_or N.eqb [] h2 k').
  Proof.
    intros E1 E2. destruct qs as [| q rest].
    - exists h1, h2. split; [reflexivity |]. split; [exact E1 |]. split; [exact E2 |]. intros k' _. split; reflexivity.
    - cbn [indexed_from range_loop length repeat]. unfold level_inner_body at 1.
      change (setidx (zeroFPt :: repeat zeroFPt (length rest)) 0 (gen_Point_ToGeomPoint fo (Quadrant_intCentroid q)))
        with (setidx ([] ++ zeroFPt :: repeat zeroFPt (length rest)) (zlen (@nil (FPt fo))) (cpt q)).
      rewrite setidx_mid. cbn [bind app]. change (0 <? 0) with false. cbv iota.
      destruct (inner_loop_tail k rest [cpt q] h1 h2 s ltac:(discriminate) E1 E2) as (h1' & h2' & E & B).
      change (zlen [cpt q]) with (0 + 1) in E. cbn [app] in E.
      exists h1', h2'. split; [exact E |]. unfold after. cbn [map tl]. exact B.
  Qed.

  (** one entry (level, quadrants) of the result map: the text of gen/IndexTopGen.v *)
  Definition level_core (k : N) (qs : list gen_Quadrant) (ppl : gomap N (list (FPt fo))) (h1 h2 : hitsT)
    : res (rctl (hitsT * hitsT * gomap N (list (FPt fo))) (hitsT * hitsT * gomap N (list (FPt fo)))) :=
    do t_2 <- make_slice zeroFPt (zlen qs);
    let v_points := t_2 in
    do out_5 <- range_loop (level_inner_body k) (indexed_from 0 qs) (h1, h2, v_points);
    match out_5 with
    | Ret r_6 => Ok (RRet r_6)
    | Next (v_ix_hitOnce, v_ix_hitMultiple, v_points) =>
        let v_pointsPerLevel := (gm_set N.eqb ppl k v_points) in
        Ok (Cont (v_ix_hitOnce, v_ix_hitMultiple, v_pointsPerLevel))
    end.

  Definition level_body
    : N * list gen_Quadrant -> hitsT * hitsT * gomap N (list (FPt fo)) ->
      res (rctl (hitsT * hitsT * gomap N (list (FPt fo))) (hitsT * hitsT * gomap N (list (FPt fo)))) :=
    fun '((v_level, v_quadrants) : (N * (list gen_Quadrant))%type) '((v_ix_hitOnce, v_ix_hitMultiple, v_pointsPerLevel) : (hitsT * hitsT * gomap N (list (FPt fo)))%type) =>
      if ((zlen v_quadrants) =? 0) then (Ok (Cont (v_ix_hitOnce, v_ix_hitMultiple, v_pointsPerLevel)))
      else (let k_8 := fun (v_ix_hitOnce : hitsT) =>
        (let k_7 := fun (v_ix_hitMultiple : hitsT) => (level_core v_level v_quadrants v_pointsPerLevel v_ix_hitOnce v_ix_hitMultiple) in
         if (negb (gm_has N.eqb v_ix_hitMultiple v_level)) then (let v_ix_hitMultiple := (gm_set N.eqb v_ix_hitMultiple v_level (@nil ((Z * Z)%type * (list Z)))) in (k_7 v_ix_hitMultiple))
         else ((k_7 v_ix_hitMultiple))) in
        if (negb (gm_has N.eqb v_ix_hitOnce v_level)) then (let v_ix_hitOnce := (gm_set N.eqb v_ix_hitOnce v_level (@nil ((Z * Z)%type * (list Z)))) in (k_8 v_ix_hitOnce))
        else ((k_8 v_ix_hitOnce))).

  Definition ppl_after (ppl : gomap N (list (FPt fo))) (k : N) (qs : list gen_Quadrant) (k' : N) : option (list (FPt fo)) :=
    if N.eqb k' k then match qs with [] => gm_get N.eqb ppl k | _ :: _ => Some (map cpt qs) end else gm_get N.eqb ppl k'.

  Lemma level_core_spec k q rest ppl (h1 h2 : hitsT) s :
    gm_get_or N.eqb [] h1 k = hm_conv (hitOnce s) -> gm_get_or N.eqb [] h2 k = hm_conv (hitMultiple s) ->
    exists h1' h2' ppl', level_core k (q :: rest) ppl h1 h2 = Ok (Cont (h1', h2', ppl')) /\
      gm_get_or N.eqb [] h1' k = hm_conv (hitOnce (after s (q :: rest))) /\
      gm_get_or N.eqb [] h2' k = hm_conv (hitMultiple (after s (q :: rest))) /\
      (forall k', k' <> k -> gm_get_or N.eqb [] h1' k' = gm_get_or N.eqb [] h1 k' /\ gm_get_or N.eqb [] h2' k' = gm_get_or N.eqb [] h2 k') /\
      (forall k', gm_get N.eqb ppl' k' = ppl_after ppl k (q :: rest) k').
  Proof.
    intros E1 E2. unfold level_core, make_slice.
    destruct (Z.ltb_spec (zlen (q :: rest)) 0) as [H | _]; [unfold zlen in H; lia |].
    cbn [bind]. unfold zlen at 1. rewrite Nat2Z.id.
    destruct (inner_loop k (q :: rest) h1 h2 s E1 E2) as (h1' & h2' & E & B1 & B2 & B3).
    rewrite E. cbn [bind]. exists h1', h2'. eexists. split; [reflexivity |].
    split; [exact B1 |]. split; [exact B2 |]. split; [exact B3 |].
    intro k'. unfold ppl_after. rewrite (gm_get_set N.eqb Neqb_spec). destruct (N.eqb k' k); reflexivity.
  Qed.

  Lemma gm_get_or_made (h : hitsT) k k' :
    gm_has N.eqb h k = false -> gm_get_or N.eqb [] (gm_set N.eqb h k []) k' = gm_get_or N.eqb [] h k'.
  Proof.
    intro G. rewrite gm_get_or_set. destruct (N.eqb_spec k' k) as [-> | _]; [| reflexivity].
    symmetry. exact (gm_has_false_get_or N.eqb [] h k G).
  Qed.

  Lemma level_body_step k qs (h1 h2 : hitsT) ppl s :
    gm_get_or N.eqb [] h1 k = hm_conv (hitOnce s) -> gm_get_or N.eqb [] h2 k = hm_conv (hitMultiple s) ->
    exists h1' h2' ppl', level_body (k, qs) (h1, h2, ppl) = Ok (Cont (h1', h2', ppl')) /\
      gm_get_or N.eqb [] h1' k = hm_conv (hitOnce (after s qs)) /\
      gm_get_or N.eqb [] h2' k = hm_conv (hitMultiple (after s qs)) /\
      (forall k', k' <> k -> gm_get_or N.eqb [] h1' k' = gm_get_or N.eqb [] h1 k' /\ gm_get_or N.eqb [] h2' k' = gm_get_or N.eqb [] h2 k') /\
      (forall k', gm_get N.eqb ppl' k' = ppl_after ppl k qs k').
  Proof.
    intros E1 E2. unfold level_body. destruct qs as [| q rest].
    - exists h1, h2, ppl. split; [reflexivity |]. split; [exact E1 |]. split; [exact E2 |].
      split; [intros k' _; split; reflexivity |]. intro k'. unfold ppl_after. destruct (N.eqb_spec k' k) as [-> | _]; reflexivity.
    - destruct (Z.eqb_spec (zlen (q :: rest)) 0) as [H | _]; [unfold zlen in H; cbn [length] in H; lia |].
      cbv zeta.
      destruct (gm_has N.eqb h1 k) eqn:G1; destruct (gm_has N.eqb h2 k) eqn:G2; cbn [negb].
      + exact (level_core_spec k q rest ppl h1 h2 s E1 E2).
      + destruct (level_core_spec k q rest ppl h1 (gm_set N.eqb h2 k []) s E1 ltac:(rewrite (gm_get_or_made h2 k k G2); exact E2))
          as (h1' & h2' & ppl' & E & B1 & B2 & B3 & B4).
        exists h1', h2', ppl'. split; [exact E |]. split; [exact B1 |]. split; [exact B2 |]. split; [| exact B4].
        intros k' Hk'. destruct (B3 k' Hk') as [C1 C2]. rewrite C1, C2, (gm_get_or_made h2 k k' G2). split; reflexivity.
      + destruct (level_core_spec k q rest ppl (gm_set N.eqb h1 k []) h2 s ltac:(rewrite (gm_get_or_made h1 k k G1); exact E1) E2)
          as (h1' & h2' & ppl' & E & B1 & B2 & B3 & B4).
        exists h1', h2', ppl'. split; [exact E |]. split; [exact B1 |]. split; [exact B2 |]. split; [| exact B4].
        intros k' Hk'. destruct (B3 k' Hk') as [C1 C2]. rewrite C1, C2, (gm_get_or_made h1 k k' G1). split; reflexivity.
      + destruct (level_core_spec k q rest ppl (gm_set N.eqb h1 k []) (gm_set N.eqb h2 k []) s
                    ltac:(rewrite (gm_get_or_made h1 k k G1); exact E1) ltac:(rewrite (gm_get_or_made h2 k k G2); exact E2))
          as (h1' & h2' & ppl' & E & B1 & B2 & B3 & B4).
        exists h1', h2', ppl'. split; [exact E |]. split; [exact B1 |]. split; [exact B2 |]. split; [| exact B4].
        intros k' Hk'. destruct (B3 k' Hk') as [C1 C2]. rewrite C1, C2, (gm_get_or_made h1 k k' G1), (gm_get_or_made h2 k k' G2). split; reflexivity.
  Qed.

  (** the loop over the entries of the result map, in ANY order in which every key occurs once *)
  Lemma levels_loop : forall (L : list (N * list gen_Quadrant)) (S : N -> hits) (h1 h2 : hitsT) ppl,
    NoDup (map fst L) -> hit_rel S h1 h2 ->
    exists h1' h2' ppl',
      range_loop level_body L (h1, h2, ppl) = Ok (Next (h1', h2', ppl')) /\
      hit_rel (fun k => match gm_get N.eqb L k with Some qs => after (S k) qs | None => S k end) h1' h2' /\
      (forall k, gm_get N.eqb ppl' k = match gm_get N.eqb L k with
                                       | Some ((_ :: _) as qs) => Some (map cpt qs)
                                       | _ => gm_get N.eqb ppl k
                                       end).
  Proof.
    induction L as [| [k qs] L IH]; intros S h1 h2 ppl HN HS.
    - exists h1, h2, ppl. split; [reflexivity |]. split; [exact HS | intro k; reflexivity].
    - cbn [map fst] in HN. inversion HN as [| ? ? Hnotin HN']; subst.
      destruct (HS k) as [E1 E2].
      destruct (level_body_step k qs h1 h2 ppl (S k) E1 E2) as (h1a & h2a & ppla & E & B1 & B2 & B3 & B4).
      cbn [range_loop]. rewrite E.
      set (S1 := fun k' => if N.eqb k' k then after (S k) qs else S k').
      assert (HS1 : hit_rel S1 h1a h2a).
      { intro k'. unfold S1. destruct (N.eqb_spec k' k) as [-> | Hne]; [split; assumption |].
        destruct (B3 k' Hne) as [C1 C2]. rewrite C1, C2. exact (HS k'). }
      destruct (IH S1 h1a h2a ppla HN' HS1) as (h1' & h2' & ppl' & E' & HS' & Hp').
      exists h1', h2', ppl'. split; [exact E' |]. split.
      + intro k'. specialize (HS' k'). cbn [gm_get]. unfold S1 in HS'.
        destruct (N.eqb_spec k' k) as [Heq | Hne]; [| exact HS'].
        rewrite Heq in HS'. rewrite (gm_get_none_notin L k Hnotin) in HS'. rewrite Heq. exact HS'.
      + intro k'. rewrite (Hp' k'), (B4 k'). cbn [gm_get]. unfold ppl_after.
        destruct (N.eqb_spec k' k) as [Heq | Hne]; [| reflexivity].
        rewrite Heq, (gm_get_none_notin L k Hnotin). destruct qs; reflexivity.
  Qed.
End Snap.

Lemma map_centroid_gq (qs : list quad) : map Quadrant_intCentroid (map gq_quad qs) = map qcen qs.
Proof. rewrite map_map. apply map_ext. intro q. reflexivity. Qed.

Lemma map_cpt_gq fo (qs : list quad) : map (cpt fo) (map gq_quad qs) = map (toFpt fo) (map qcen qs).
Proof. rewrite !map_map. apply map_ext. intro q. reflexivity. Qed.

(** SnapClosestPoints: the line is converted to integers, the regenerated descent gives the quadrants per requested
    level; then, for every level with at least one quadrant, IN ANY ORDER of the levels: the centroids converted to
    floats, and the hit accounting of that level for every centre but the first — the model's [snapAndHit], level by
    level.  The levels are independent: the hit maps are per level, so the order does not show in the result. *)
Theorem gen_SnapClosestPoints_spec (fo : floatops) (ord : goorder) (g : grid) (hots : list (list (Z * Z)))
    (ix : gen_PointIndexT) (line : FLine fo) (lm : gomap N unit) (ringId : nat) (H : N -> hits) :
  goorder_ok ord -> ixT_rel g hots ix -> (gdeep g <= 32)%nat ->
  let a := fst (ofFline fo line) in
  let b := snd (ofFline fo line) in
  line_fits a b (gext g) ->
  (forall l c, (1 <= l <= gdeep g)%nat -> mem_addr c (hotLookup hots l) = true -> line_fits a b (quadExtent g l (fst c) (snd c))) ->
  hit_rel H (PointIndexT_hitOnce ix) (PointIndexT_hitMultiple ix) ->
  exists (h1 h2 : hitsT) (ppl : gomap N (list (FPt fo))),
    gen_SnapClosestPoints fo ord ix line lm (Z.of_nat ringId) = Ok (h1, h2, ppl) /\
    forall k : N,
      let requested := negb (gm_len lm =? 0) && lineIntersects a b (gext g) && (k <=? N.of_nat (gdeep g))%N && gm_has N.eqb lm k in
      let r := snapAndHit g hots (H k) a b (N.to_nat k) ringId in
      gm_get N.eqb ppl k = (if requested then match fst r with [] => None | _ :: _ => Some (map (toFpt fo) (fst r)) end else None) /\
      gm_get_or N.eqb [] h1 k = hm_conv (hitOnce (if requested then snd r else H k)) /\
      gm_get_or N.eqb [] h2 k = hm_conv (hitMultiple (if requested then snd r else H k)).
Proof.
  intros Hord Hix Hd a b Hroot Hfit Hhit.
  unfold gen_SnapClosestPoints. cbv zeta.
  change (gen_FromGeomLine fo line) with (ofFline fo line). rewrite (surjective_pairing (ofFline fo line)). fold a b.
  unfold gen_snapClosestPoints_T.
  change (gen_descent_ix (PointIndexT_with_hitMultiple (PointIndexT_with_hitOnce ix (PointIndexT_hitOnce ix)) (PointIndexT_hitMultiple ix)))
    with (gen_descent_ix ix).
  destruct (gen_snapClosestPoints_spec_nodup g hots (gen_descent_ix ix) a b lm Hix Hd Hroot Hfit) as (R & ER & HR & HN).
  rewrite ER. cbn [bind].
  match goal with |- context [range_loop ?bd (ord 1%nat _ _ R) _] => change bd with (level_body fo ringId) end.
  set (L := ord 1%nat _ _ R).
  assert (HP : Permutation L R) by apply Hord.
  assert (HNL : NoDup (map fst L))
    by (apply (Permutation_NoDup (l := map fst R)); [apply Permutation_sym, Permutation_map; exact HP | exact HN]).
  destruct (levels_loop fo ringId L H (PointIndexT_hitOnce ix) (PointIndexT_hitMultiple ix) [] HNL Hhit)
    as (h1 & h2 & ppl & E & HS & Hp).
  match goal with |- context [bind ?rl _] => assert (Erl : rl = Ok (Next (h1, h2, ppl))) by exact E; rewrite Erl end.
  cbn [bind]. exists h1, h2, ppl. split; [reflexivity |].
  intro k. cbv zeta. specialize (HS k). specialize (Hp k). cbv beta in HS.
  rewrite (gm_get_perm R L HP HN k), (HR k) in HS, Hp.
  destruct (negb (gm_len lm =? 0) && lineIntersects a b (gext g) && (k <=? N.of_nat (gdeep g))%N && gm_has N.eqb lm k).
  - unfold snapAndHit, snapClosestPoints. cbn [fst snd].
    unfold after in HS. rewrite map_centroid_gq in HS.
    split; [| exact HS]. rewrite Hp.
    destruct (snapClosestQuads g hots a b (N.to_nat k)) as [| q qs]; [reflexivity |].
    rewrite map_cpt_gq. reflexivity.
  - split; [exact Hp | exact HS].
Qed.

(** GetHitMultiple reads the per-level map *)
Lemma gen_GetHitMultiple_spec fo ix (H : N -> hits) k :
  hit_rel H (PointIndexT_hitOnce ix) (PointIndexT_hitMultiple ix) ->
  gen_GetHitMultiple fo ix k = Ok (hm_conv (hitMultiple (H k))).
Proof. intro Hh. unfold gen_GetHitMultiple. apply f_equal. exact (proj2 (Hh k)). Qed.

(** ** FromTileMatrixSet *)
(** the deepest level as the code computes it: uint(deepestTMID) + (uint(Log2(float64(TileWidth of matrix 0))) +
    uint(Log2(float64(16)))), in uint arithmetic; the tile width of a missing matrix 0 reads as 0 *)
Definition tms_root_width {fo E} (t : gotms fo E) : N := gotm_TileWidth (gm_get_or Z.eqb (mk_gotm 0%N) (gotms_TileMatrices t) 0).
Definition tms_level (fo : floatops) {E} (t : gotms fo E) (tmid : Z) : N :=
  w64 (Z.to_N (u64 tmid)
       + w64 (f_to_uint64 fo (f_log2 fo (f_of_uint64 fo (tms_root_width t))) + f_to_uint64 fo (f_log2 fo (f_const fo 16))))%N.

(** ... which is id + log2(width) + 4 when the two float computations give log2(width) and 4 (small numbers) *)
Lemma tms_level_plain fo {E} (t : gotms fo E) (tmid : Z) (lw : N) :
  f_to_uint64 fo (f_log2 fo (f_of_uint64 fo (tms_root_width t))) = lw -> f_to_uint64 fo (f_log2 fo (f_const fo 16)) = 4%N ->
  0 <= tmid < 2 ^ 32 -> (lw < 2 ^ 32)%N ->
  tms_level fo t tmid = (Z.to_N tmid + lw + 4)%N.
Proof.
  intros H1 H2 Ht Hl. unfold tms_level. rewrite H1, H2. unfold w64, W64.
  rewrite u64_small by (unfold is_u64; rewrite two64_lit; change (2 ^ 32) with 4294967296 in Ht; lia).
  change (2 ^ 32)%N with 4294967296%N in Hl. change (2 ^ 32) with 4294967296 in Ht.
  rewrite (N.mod_small (lw + 4)) by lia. rewrite N.mod_small by lia. lia.
Qed.

Definition bbox_extent (fo : floatops) (bl tr : FPt fo) : extent :=
  mkExtent (ofF fo (fst bl)) (ofF fo (snd bl)) (ofF fo (fst tr)) (ofF fo (snd tr)).

(** FromTileMatrixSet builds the empty index of the model's grid constructor [tmsGrid] (Index/ProofsRound.v) from the
    same numbers: the extent = the integer images of the bounding box of matrix 0, the deepest level as computed,
    size 2^level, resolution = x span / size rounded down, the centroid of the root; no quadrants, no hits.
    An error of MatrixBoundingBox is handed on (as another error, wrapped by fmt.Errorf). *)
Theorem gen_FromTileMatrixSet_spec fo (t : gotms fo gen_OutsideGridError) (tmid : Z) :
  (forall bl tr er, gotms_MatrixBoundingBox t 0 = (bl, tr, Some er) ->
     gen_FromTileMatrixSet fo t tmid = Ok (None, Some ErrOther)) /\
  (forall bl tr (d : nat), gotms_MatrixBoundingBox t 0 = (bl, tr, None) ->
     tms_level fo t tmid = N.of_nat d -> (d <= 32)%nat ->
     let e := bbox_extent fo bl tr in
     eminx e <= emaxx e -> is_i64 (emaxx e - eminx e) ->
     gen_FromTileMatrixSet fo t tmid = Ok (Some (gen_empty_indexT (tmsGrid e d)), None)).
Proof.
  split.
  - intros bl tr er Hb. unfold gen_FromTileMatrixSet. cbv zeta. rewrite Hb. reflexivity.
  - intros bl tr d Hb Hl Hd e He Hspan. unfold gen_FromTileMatrixSet. cbv zeta. rewrite Hb. cbn [is_some].
    unfold tms_level, tms_root_width in Hl.
    rewrite Hl.
    change (gen_Point_X (gen_FromGeomPoint fo bl), gen_Point_Y (gen_FromGeomPoint fo bl), gen_Point_X (gen_FromGeomPoint fo tr), gen_Point_Y (gen_FromGeomPoint fo tr))
      with (ext_tuple e).
    rewrite (gen_Pow2_uint_nat d Hd).
    pose proof (pow2_pos d) as Pp.
    assert (P32 : pow2 d <= 2 ^ 32) by (unfold pow2; apply Z.pow_le_mono_r; lia). change (2 ^ 32) with 4294967296 in P32.
    assert (Esize : i64_of_N (Z.to_N (pow2 d)) = pow2 d).
    { unfold i64_of_N. rewrite Z2N.id by lia. apply wrap64_small. apply (proj2 (is_i64_bounds _)). lia. }
    rewrite Esize.
    destruct (generated_intgeom_is_model fo) as (_ & _ & _ & _ & _ & _ & _ & HX). rewrite (HX e Hspan).
    set (span := emaxx e - eminx e) in *.
    assert (Hq : quot64 span (pow2 d) = Ok (span / pow2 d)).
    { unfold quot64. destruct (Z.eqb_spec (pow2 d) 0); [lia |]. f_equal.
      rewrite Z.quot_div_nonneg by lia. apply wrap64_small. apply floor_div_range; [exact Pp | exact Hspan]. }
    rewrite Hq. cbn [bind].
    set (g := tmsGrid e d).
    assert (Hres : 0 <= gres g) by (unfold g, tmsGrid; cbn [gres]; fold span; apply Z.div_pos; lia).
    unfold gen_getQuadrantExtentAndCentroid_T, gen_getQuadrantExtentAndCentroid_uint.
    cbn [gen_descent_ix PointIndexT_Quadrant PointIndexT_deepestLevel PointIndexT_deepestSize PointIndexT_deepestRes PointIndexT_quadrants
         PointIndex_Quadrant PointIndex_deepestLevel PointIndex_deepestSize PointIndex_deepestRes Quadrant_intExtent].
    rewrite nat_N_Z, Z2N.id by lia. change (Z.of_N 0) with 0.
    pose proof (gen_getQuadrantExtentAndCentroid_spec g 0%nat 0 0 Hres ltac:(lia)) as HC.
    unfold ix_of in HC. unfold g at 1 2 3 4, tmsGrid in HC. cbn [gext gdeep gres gsize] in HC. unfold gsize in HC. cbn [gdeep] in HC.
    change (Z.of_nat 0) with 0 in HC. fold span in HC. change (gext g) with e in HC. rewrite HC.
    reflexivity.
Qed.

(** ** a concrete instance of the float operations, for the examples: exact decimal fixed point with 10 decimals (a float64
    value v is the integer v * 10^10), for which the codec is the identity.  It shows that the generated code runs and
    that hypotheses such as [ofF (toF z) = z] are satisfiable; the theorems above do not depend on it. *)
Definition fx : Z := 10000000000.
Definition fo_fixed : floatops :=
  mk_floatops Z (fun z => z * fx) (fun z => z * fx) (fun n => Z.of_N n * fx)
              (fun f => Z.quot f fx) (fun f => Z.to_N (Z.quot f fx))
              (fun a b => Z.quot (a * b) fx) (fun a b => Z.quot (a * fx) b)
              (fun a b => fx * Z.pow (Z.quot a fx) (Z.quot b fx)) (fun a => fx * Z.log2 (Z.quot a fx)).

Lemma fo_fixed_codec : forall z : Z, toF fo_fixed z = z /\ ofF fo_fixed z = z.
Proof.
  intro z. unfold toF, ofF, pow10_precision. cbn [fo_fixed f_const f_div f_of_int64 f_pow f_to_int64 f_mul F].
  change (fx * Z.quot (10 * fx) fx ^ Z.quot (10 * fx) fx) with (fx * fx). unfold fx. split.
  - destruct (Z.eqb_spec z 0) as [-> | _]; [reflexivity |].
    replace (z * 10000000000 * 10000000000) with (z * (10000000000 * 10000000000)) by ring.
    apply Z.quot_mul. discriminate.
  - replace (z * (10000000000 * 10000000000)) with (z * 10000000000 * 10000000000) by ring.
    rewrite Z.quot_mul by discriminate. apply Z.quot_mul. discriminate.
Qed.
