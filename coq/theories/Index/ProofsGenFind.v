(** * Tie G2: the WHOLE body of pointindex.findIntersectingQuadrants, regenerated from source on every run
      (gen/FindGen.v: the table of quadrants to check AND the loop over it with the mutex flag, the two
      [continue]s, [certain || lineIntersects] and [append]), is the model's function (Index/Model.v).

    Trusted / modelled (the mappings the translator makes after checking the AST, translator/find.go):
    - [quadrants map[Q]Quadrant], read only by [quadrant, hasPoints := quadrants[i]], is an association list
      ([gomap], [gm_get_ok] of Prelude/GoAssoc.v); the theorem holds for EVERY association list;
    - [for _, x := range s] with [continue] and loop-carried variables is [range_loop] of Prelude/GoLoop.v;
    - the leaf functions are called as regenerated in PointIndexGen.v / LineGen.v (ties C02_source_tie,
      C02_source_tie_lineIntersects); [int] quadrant numbers are exact [Z] (they stay in 0..3).
    The Go function returns quadrant NUMBERS ([]Q), the caller reads [quadrantsWithPoints[q]] for each; the model
    returns the quadrants themselves: the statement is [map has qs = map Some (model's list)]. *)
From Coq Require Import ZArith NArith List Bool Lia.
From Texel Require Import Prelude.Base Prelude.GoLoop Prelude.GoAssoc Index.Model Index.MachineInt Index.ProofsGen Index.ProofsGenLine.
From Texel.Gen Require Import PointIndexGen LineGen FindGen.
Import ListNotations.
Open Scope Z_scope.

(** a quadrant of the model and the struct of the code agree on what findIntersectingQuadrants reads
    (extent and centroid; the Morton key [z] is not read) *)
Definition quad_rel (q : quad) (gq : gen_Quadrant) : Prop :=
  Quadrant_intExtent gq = ext_tuple (qext q) /\ Quadrant_intCentroid gq = qcen q.

(** the map of the code holds, for each quadrant number 0..3, what the model's [has] says *)
Definition has_rel (has : nat -> option quad) (m : gomap Z gen_Quadrant) : Prop :=
  forall i, lt4 i ->
    match has i, gm_get Z.eqb m (Z.of_nat i) with
    | Some q, Some gq => quad_rel q gq
    | None, None => True
    | _, _ => False
    end.

(** no int64 subtraction of lineIntersects wraps (cf. C02_source_tie_lineIntersects_diff) *)
Definition line_fits (a b : pt) (e : extent) : Prop :=
  diff_ok (fst b) (fst a) /\ diff_ok (eminx e) (fst a) /\ diff_ok (emaxx e) (fst a) /\
  diff_ok (snd b) (snd a) /\ diff_ok (eminy e) (snd a) /\ diff_ok (emaxy e) (snd a).

(** the model's loop, returning the quadrant numbers instead of the quadrants *)
Fixpoint checkQs (a b : pt) (has : nat -> option quad) (l : list qtc) (mutexed : bool) : list nat :=
  match l with
  | [] => []
  | q :: r =>
      if qmutex q && mutexed then checkQs a b has r mutexed
      else match has (qi q) with
           | None => checkQs a b has r mutexed
           | Some cq =>
               if qcertain q || lineIntersects a b (qext cq)
               then qi q :: checkQs a b has r (mutexed || qmutex q)
               else checkQs a b has r mutexed
           end
  end.

Lemma checkQs_checkLoop a b has l : forall mutexed,
  map has (checkQs a b has l mutexed) = map Some (checkLoop a b has l mutexed).
Proof.
  induction l as [| q r IH]; intro mutexed; [reflexivity |]. cbn [checkQs checkLoop].
  destruct (qmutex q && mutexed); [apply IH |].
  destruct (has (qi q)) as [cq |] eqn:Hq; [| apply IH].
  destruct (qcertain q || lineIntersects a b (qext cq)); [| apply IH].
  cbn [map]. rewrite Hq, IH. reflexivity.
Qed.

Lemma checkQs_lt4 a b has l : Forall (fun q => lt4 (qi q)) l -> forall mutexed, Forall lt4 (checkQs a b has l mutexed).
Proof.
  intro F. induction F as [| q r Hq F IH]; intro mutexed; [constructor |]. cbn [checkQs].
  destruct (qmutex q && mutexed); [apply IH |].
  destruct (has (qi q)) as [cq |]; [| apply IH].
  destruct (qcertain q || lineIntersects a b (qext cq)); [constructor; [exact Hq | apply IH] | apply IH].
Qed.

Definition findQs (a b : pt) (has : nat -> option quad) (parent : quad) : list nat :=
  checkQs a b has (quadrantsToCheck (getInfiniteQuadrant a (qcen parent)) (getInfiniteQuadrant b (qcen parent))
                                    (containsPoint a (qext parent)) (containsPoint b (qext parent))) false.

Lemma quadrantsToCheck_lt4 i1 i2 in1 in2 : lt4 i1 -> lt4 i2 ->
  Forall (fun q => lt4 (qi q)) (quadrantsToCheck i1 i2 in1 in2).
Proof.
  unfold lt4. intros H1 H2.
  destruct i1 as [| [| [| [| i1]]]]; try lia; destruct i2 as [| [| [| [| i2]]]]; try lia;
    cbn; repeat constructor.
Qed.

(** the struct literal the generated table holds for an entry of the model's table *)
Definition qtc_rec (q : qtc) : gen_quadrantToCheck := mk_gen_quadrantToCheck (Z.of_nat (qi q)) (qcertain q) (qmutex q).

(** one iteration of the model's loop on the state (found, mutexed) of the generated loop *)
Definition step (a b : pt) (has : nat -> option quad) (q : qtc) (s : list Z * bool) : list Z * bool :=
  if qmutex q && snd s then s
  else match has (qi q) with
       | None => s
       | Some cq => if qcertain q || lineIntersects a b (qext cq)
                    then (fst s ++ [Z.of_nat (qi q)], snd s || qmutex q) else s
       end.

Lemma range_loop_steps (a b : pt) (has : nat -> option quad)
      (body : gen_quadrantToCheck -> list Z * bool -> res (rctl (list Z * bool) (list Z))) (l : list qtc) :
  (forall q s, lt4 (qi q) -> body (qtc_rec q) s = Ok (Cont (step a b has q s))) ->
  Forall (fun q => lt4 (qi q)) l ->
  forall found mutexed, exists mutexed',
    range_loop body (map qtc_rec l) (found, mutexed)
    = Ok (Next (found ++ map Z.of_nat (checkQs a b has l mutexed), mutexed')).
Proof.
  intros Hbody F. induction F as [| q r Hq F IH]; intros found mutexed.
  - exists mutexed. cbn. rewrite app_nil_r. reflexivity.
  - cbn [map range_loop checkQs]. rewrite (Hbody q _ Hq). unfold step. cbn [fst snd].
    destruct (qmutex q && mutexed); [apply IH |].
    destruct (has (qi q)) as [cq |]; [| apply IH].
    destruct (qcertain q || lineIntersects a b (qext cq)); [| apply IH].
    destruct (IH (found ++ [Z.of_nat (qi q)]) (mutexed || qmutex q)) as [m' E]. exists m'.
    rewrite E. cbn [map]. rewrite <- app_assoc. reflexivity.
Qed.

Theorem gen_findIntersectingQuadrants_full_spec (a b : pt) (m : gomap Z gen_Quadrant) (gparent : gen_Quadrant)
        (has : nat -> option quad) (parent : quad) :
  quad_rel parent gparent -> has_rel has m ->
  (forall i q, lt4 i -> has i = Some q -> line_fits a b (qext q)) ->
  gen_findIntersectingQuadrants_full (a, b) m gparent = Ok (map Z.of_nat (findQs a b has parent)).
Proof.
  intros [Hext Hcen] Hhas Hfits.
  unfold gen_findIntersectingQuadrants_full. cbv beta zeta. cbn [fst snd]. rewrite Hext, Hcen.
  rewrite !gen_containsPoint_spec, !gen_getInfiniteQuadrant_spec.
  pose proof (getInfiniteQuadrant_lt4 a (qcen parent)) as H1.
  pose proof (getInfiniteQuadrant_lt4 b (qcen parent)) as H2.
  unfold findQs.
  set (i1 := getInfiniteQuadrant a (qcen parent)) in *. set (i2 := getInfiniteQuadrant b (qcen parent)) in *.
  set (in1 := containsPoint a (qext parent)). set (in2 := containsPoint b (qext parent)).
  rewrite gen_quadrantsAreAdjacent_spec by assumption.
  rewrite gen_adjacentQuadrantX_spec, gen_adjacentQuadrantY_spec by assumption.
  match goal with |- context [range_loop ?f _ _] => set (body := f) end.
  assert (Hbody : forall q s, lt4 (qi q) -> body (qtc_rec q) s = Ok (Cont (step a b has q s))).
  { intros q [found mutexed] Hq. unfold body, step, qtc_rec.
    cbn [quadrantToCheck_i quadrantToCheck_certain quadrantToCheck_mutex fst snd].
    destruct (qmutex q && mutexed) eqn:Hm; [reflexivity |].
    unfold gm_get_ok. specialize (Hhas (qi q) Hq).
    destruct (has (qi q)) as [cq |] eqn:Hcq; destruct (gm_get Z.eqb m (Z.of_nat (qi q))) as [gq |]; try contradiction;
      cbn [negb]; [| reflexivity].
    destruct Hhas as [He _]. rewrite He.
    destruct (Hfits (qi q) cq Hq Hcq) as (F1 & F2 & F3 & F4 & F5 & F6).
    rewrite (gen_lineIntersects_spec_diff a b (qext cq) F1 F2 F3 F4 F5 F6).
    destruct (qcertain q || lineIntersects a b (qext cq)); [| reflexivity].
    destruct (qmutex q), mutexed; try discriminate; reflexivity. }
  assert (Hloop : forall l, Forall (fun q => lt4 (qi q)) l ->
            (do out <- range_loop body (map qtc_rec l) ([], false);
             match out with Ret r => Ok r | Next (found, _) => Ok found end)
            = Ok (map Z.of_nat (checkQs a b has l false))).
  { intros l Fl. destruct (range_loop_steps a b has body l Hbody Fl [] false) as [m' E]. rewrite E. reflexivity. }
  pose proof (quadrantsToCheck_lt4 i1 i2 in1 in2 H1 H2) as Flt. revert Flt.
  unfold quadrantsToCheck.
  replace (Z.of_nat i1 =? Z.of_nat i2) with (Nat.eqb i1 i2)
    by (destruct (Nat.eqb_spec i1 i2), (Z.eqb_spec (Z.of_nat i1) (Z.of_nat i2)); lia || reflexivity).
  destruct (Nat.eqb i1 i2); [destruct in1, in2; intro Flt; exact (Hloop _ Flt) |].
  destruct (quadrantsAreAdjacent i1 i2); destruct in1, in2; intro Flt; exact (Hloop _ Flt).
Qed.

(** the statement cited from Properties/C02.v: the numbers returned select exactly the model's quadrants *)
Theorem generated_find_is_model (a b : pt) (m : gomap Z gen_Quadrant) (gparent : gen_Quadrant)
        (has : nat -> option quad) (parent : quad) :
  quad_rel parent gparent -> has_rel has m ->
  (forall i q, lt4 i -> has i = Some q -> line_fits a b (qext q)) ->
  exists qs : list nat,
    gen_findIntersectingQuadrants_full (a, b) m gparent = Ok (map Z.of_nat qs) /\
    Forall lt4 qs /\
    map has qs = map Some (findIntersectingQuadrants a b has parent).
Proof.
  intros Hp Hh Hf. exists (findQs a b has parent).
  split; [exact (gen_findIntersectingQuadrants_full_spec a b m gparent has parent Hp Hh Hf) |].
  split.
  - apply checkQs_lt4. apply quadrantsToCheck_lt4; apply getInfiniteQuadrant_lt4.
  - apply checkQs_checkLoop.
Qed.

(** what the caller [snapClosestPoints] does with the numbers: [quadrantsWithPoints[q]] for each, in order *)
Corollary generated_find_lookup (a b : pt) (m : gomap Z gen_Quadrant) (gparent : gen_Quadrant)
          (has : nat -> option quad) (parent : quad) (zero : gen_Quadrant) :
  quad_rel parent gparent -> has_rel has m ->
  (forall i q, lt4 i -> has i = Some q -> line_fits a b (qext q)) ->
  exists qs : list Z,
    gen_findIntersectingQuadrants_full (a, b) m gparent = Ok qs /\
    Forall2 quad_rel (findIntersectingQuadrants a b has parent) (map (gm_get_or Z.eqb zero m) qs).
Proof.
  intros Hp Hh Hf. destruct (generated_find_is_model a b m gparent has parent Hp Hh Hf) as (qs & E & Flt & Hm).
  exists (map Z.of_nat qs). split; [exact E |]. clear E.
  revert Hm. generalize (findIntersectingQuadrants a b has parent) as out.
  induction Flt as [| i r Hi Flt IH]; intros out Hm.
  - destruct out; [constructor | discriminate].
  - destruct out as [| q out]; [discriminate |]. cbn [map] in Hm |- *. injection Hm as Hq Hr.
    constructor; [| exact (IH out Hr)].
    specialize (Hh i Hi). rewrite Hq in Hh. unfold gm_get_or.
    destruct (gm_get Z.eqb m (Z.of_nat i)); [exact Hh | contradiction].
Qed.
