(** * Rational-arithmetic lemmas used by the routing proofs (no model content).

    - products posed by hand ([mul_nn], [mul_pos]) then [lra]: plain [nra] does not close these goals;
    - [helly1]: finitely many lower and upper bounds (value, strict?) on one rational parameter have
      a common solution iff every lower bound is compatible with every upper bound;
    - [monotone_param]: a strictly monotone affine function orders its parameters. *)
From Coq Require Import QArith Lqa List Bool.
Import ListNotations.
Open Scope Q_scope.

Lemma mul_nn (a b : Q) : 0 <= a -> 0 <= b -> 0 <= a * b.
Proof. intros Ha Hb; apply Qmult_le_0_compat; assumption. Qed.

Lemma mul_pos (a b : Q) : 0 < a -> 0 < b -> 0 < a * b.
Proof. intros Ha Hb. apply Qmult_lt_0_compat; assumption. Qed.

(** strictly increasing / decreasing affine maps reflect the order *)
Lemma monotone_param (ax dx t0 t1 : Q) : 0 < dx -> ax + t0 * dx < ax + t1 * dx -> t0 < t1.
Proof.
  intros Hd H. destruct (Qlt_le_dec t0 t1) as [L | G]; [assumption |].
  pose proof (mul_nn (t0 - t1) dx ltac:(lra) ltac:(lra)). lra.
Qed.

Lemma monotone_param_neg (ax dx t0 t1 : Q) : dx < 0 -> ax + t1 * dx < ax + t0 * dx -> t0 < t1.
Proof.
  intros Hd H. destruct (Qlt_le_dec t0 t1) as [L | G]; [assumption |].
  pose proof (mul_nn (t0 - t1) (- dx) ltac:(lra) ltac:(lra)). lra.
Qed.

(** the value of an affine map between two parameters lies between the two values *)
Lemma affine_between (ax dx s t u : Q) : s <= t -> t <= u ->
  (ax + s * dx <= ax + t * dx /\ ax + t * dx <= ax + u * dx) \/
  (ax + u * dx <= ax + t * dx /\ ax + t * dx <= ax + s * dx).
Proof.
  intros H1 H2. destruct (Qlt_le_dec dx 0) as [N | P].
  - right. pose proof (mul_nn (t - s) (- dx) ltac:(lra) ltac:(lra)).
    pose proof (mul_nn (u - t) (- dx) ltac:(lra) ltac:(lra)). lra.
  - left. pose proof (mul_nn (t - s) dx ltac:(lra) ltac:(lra)).
    pose proof (mul_nn (u - t) dx ltac:(lra) ltac:(lra)). lra.
Qed.

(** ** one-dimensional Helly for bounds with strictness *)
Definition bnd := (Q * bool)%type.
Definition satL (l : bnd) (t : Q) : Prop := if snd l then fst l < t else fst l <= t.
Definition satU (u : bnd) (t : Q) : Prop := if snd u then t < fst u else t <= fst u.
Definition compat (l u : bnd) : Prop :=
  fst l < fst u \/ (fst l == fst u /\ snd l = false /\ snd u = false).

Lemma compat_of_point l u t : satL l t -> satU u t -> compat l u.
Proof.
  unfold satL, satU, compat. destruct l as [lv [|]], u as [uv [|]]; cbn [fst snd]; intros H1 H2.
  - left; lra.
  - left; lra.
  - left; lra.
  - destruct (Qlt_le_dec lv uv) as [L | G]; [left; assumption | right; repeat split; lra].
Qed.

Definition maxL (a b : bnd) : bnd :=
  match fst a ?= fst b with Gt => a | Lt => b | Eq => (fst a, snd a || snd b) end.
Definition minU (a b : bnd) : bnd :=
  match fst a ?= fst b with Lt => a | Gt => b | Eq => (fst a, snd a || snd b) end.

Lemma maxL_sat a b t : satL (maxL a b) t <-> satL a t /\ satL b t.
Proof.
  unfold maxL, satL. destruct (fst a ?= fst b) eqn:E.
  - apply Qeq_alt in E. destruct a as [av [|]], b as [bv [|]]; cbn [fst snd orb] in *;
      split; intros H; try split; try lra; destruct H; lra.
  - apply Qlt_alt in E. destruct a as [av [|]], b as [bv [|]]; cbn [fst snd orb] in *;
      split; intros H; try split; try lra; destruct H; lra.
  - apply Qgt_alt in E. destruct a as [av [|]], b as [bv [|]]; cbn [fst snd orb] in *;
      split; intros H; try split; try lra; destruct H; lra.
Qed.

Lemma minU_sat a b t : satU (minU a b) t <-> satU a t /\ satU b t.
Proof.
  unfold minU, satU. destruct (fst a ?= fst b) eqn:E.
  - apply Qeq_alt in E. destruct a as [av [|]], b as [bv [|]]; cbn [fst snd orb] in *;
      split; intros H; try split; try lra; destruct H; lra.
  - apply Qlt_alt in E. destruct a as [av [|]], b as [bv [|]]; cbn [fst snd orb] in *;
      split; intros H; try split; try lra; destruct H; lra.
  - apply Qgt_alt in E. destruct a as [av [|]], b as [bv [|]]; cbn [fst snd orb] in *;
      split; intros H; try split; try lra; destruct H; lra.
Qed.

Lemma compat_maxL a b u : compat (maxL a b) u <-> compat a u /\ compat b u.
Proof.
  unfold maxL, compat. destruct (fst a ?= fst b) eqn:E.
  - apply Qeq_alt in E. destruct a as [av [|]], b as [bv [|]], u as [uv [|]]; cbn [fst snd orb] in *;
      split; intros H; repeat split;
      try (destruct H as [H | [H1 [H2 H3]]]; try discriminate; try (left; lra);
           try (right; repeat split; try reflexivity; lra); fail);
      try (destruct H as [[H | [H1 [H2 H3]]] [H' | [H1' [H2' H3']]]]; try discriminate;
           try (left; lra); try (right; repeat split; try reflexivity; lra)).
  - apply Qlt_alt in E. destruct a as [av sa], b as [bv sb], u as [uv su]; cbn [fst snd] in *; split.
    + intros [H | [H1 [H2 H3]]]; split; try (left; lra). right; repeat split; assumption.
    + intros [_ H]; exact H.
  - apply Qgt_alt in E. destruct a as [av sa], b as [bv sb], u as [uv su]; cbn [fst snd] in *; split.
    + intros [H | [H1 [H2 H3]]]; split; try (left; lra). right; repeat split; assumption.
    + intros [H _]; exact H.
Qed.

Lemma compat_minU l a b : compat l (minU a b) <-> compat l a /\ compat l b.
Proof.
  unfold minU, compat. destruct (fst a ?= fst b) eqn:E.
  - apply Qeq_alt in E. destruct a as [av [|]], b as [bv [|]], l as [lv [|]]; cbn [fst snd orb] in *;
      split; intros H; repeat split;
      try (destruct H as [H | [H1 [H2 H3]]]; try discriminate; try (left; lra);
           try (right; repeat split; try reflexivity; lra); fail);
      try (destruct H as [[H | [H1 [H2 H3]]] [H' | [H1' [H2' H3']]]]; try discriminate;
           try (left; lra); try (right; repeat split; try reflexivity; lra)).
  - apply Qlt_alt in E. destruct a as [av sa], b as [bv sb], l as [lv sl]; cbn [fst snd] in *; split.
    + intros [H | [H1 [H2 H3]]]; split; try (left; lra). right; repeat split; assumption.
    + intros [H _]; exact H.
  - apply Qgt_alt in E. destruct a as [av sa], b as [bv sb], l as [lv sl]; cbn [fst snd] in *; split.
    + intros [H | [H1 [H2 H3]]]; split; try (left; lra). right; repeat split; assumption.
    + intros [_ H]; exact H.
Qed.

Lemma point_of_compat l u : compat l u -> exists t, satL l t /\ satU u t.
Proof.
  unfold compat, satL, satU. destruct l as [lv sl], u as [uv su]; cbn [fst snd].
  intros [H | [H1 [H2 H3]]].
  - exists ((lv + uv) * (1 # 2)). destruct sl, su; split; lra.
  - subst. exists lv. split; lra.
Qed.

Definition allL (ls : list bnd) (t : Q) : Prop := Forall (fun l => satL l t) ls.
Definition allU (us : list bnd) (t : Q) : Prop := Forall (fun u => satU u t) us.

Lemma fold_maxL_sat ls : forall l0 t, satL (fold_left maxL ls l0) t <-> allL (l0 :: ls) t.
Proof.
  unfold allL. induction ls as [| a r IH]; intros l0 t; cbn [fold_left].
  - split; [intro H; constructor; [assumption | constructor] | intro F; inversion F; assumption].
  - rewrite IH. split.
    + intro F. inversion F as [| x xs Hx Hxs]; subst. apply maxL_sat in Hx as [A B].
      constructor; [assumption | constructor; assumption].
    + intro F. inversion F as [| x xs Hx Hxs]; subst. inversion Hxs as [| y ys Hy Hys]; subst.
      constructor; [apply maxL_sat; split; assumption | assumption].
Qed.

Lemma fold_minU_sat us : forall u0 t, satU (fold_left minU us u0) t <-> allU (u0 :: us) t.
Proof.
  unfold allU. induction us as [| a r IH]; intros u0 t; cbn [fold_left].
  - split; [intro H; constructor; [assumption | constructor] | intro F; inversion F; assumption].
  - rewrite IH. split.
    + intro F. inversion F as [| x xs Hx Hxs]; subst. apply minU_sat in Hx as [A B].
      constructor; [assumption | constructor; assumption].
    + intro F. inversion F as [| x xs Hx Hxs]; subst. inversion Hxs as [| y ys Hy Hys]; subst.
      constructor; [apply minU_sat; split; assumption | assumption].
Qed.

Lemma fold_maxL_compat ls : forall l0 u,
  (forall l, In l (l0 :: ls) -> compat l u) -> compat (fold_left maxL ls l0) u.
Proof.
  induction ls as [| a r IH]; intros l0 u Hc; cbn [fold_left].
  - apply Hc; left; reflexivity.
  - apply IH. intros l [<- | Hin].
    + apply compat_maxL; split; apply Hc; cbn [In]; auto.
    + apply Hc; cbn [In]; auto.
Qed.

Lemma fold_minU_compat us : forall u0 l,
  (forall u, In u (u0 :: us) -> compat l u) -> compat l (fold_left minU us u0).
Proof.
  induction us as [| a r IH]; intros u0 l Hc; cbn [fold_left].
  - apply Hc; left; reflexivity.
  - apply IH. intros u [<- | Hin].
    + apply compat_minU; split; apply Hc; cbn [In]; auto.
    + apply Hc; cbn [In]; auto.
Qed.

Theorem helly1 (l0 : bnd) (ls : list bnd) (u0 : bnd) (us : list bnd) :
  (forall l u, In l (l0 :: ls) -> In u (u0 :: us) -> compat l u) <->
  exists t, allL (l0 :: ls) t /\ allU (u0 :: us) t.
Proof.
  split.
  - intros H.
    assert (HC : compat (fold_left maxL ls l0) (fold_left minU us u0)).
    { apply fold_maxL_compat. intros l Hl. apply fold_minU_compat. intros u Hu. apply H; assumption. }
    destruct (point_of_compat _ _ HC) as [t [A B]]. exists t.
    split; [apply fold_maxL_sat | apply fold_minU_sat]; assumption.
  - intros [t [A B]] l u Hl Hu. unfold allL, allU in *. rewrite Forall_forall in A, B.
    apply (compat_of_point l u t); [apply A | apply B]; assumption.
Qed.
