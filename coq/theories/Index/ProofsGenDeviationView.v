(** * DeviationStats regenerated (gen/DeviationGen.v) on a tile matrix set of the model (Tms/Model.v), through the view
      [gotms_of_tms] whose bounding boxes are computed by the MatrixBoundingBox REGENERATED in gen/TmsAddrGen.v:
      the two source ties composed, so that the statements run on the built-in documents of gen/TmsData.v.

    - [gen_DeviationStats_tms]: for every tile matrix set whose matrix 0 does not make MatrixBoundingBox panic
      ([view_total]): an error of MatrixBoundingBox (no matrix 0, unknown axis order) is the result, with zero
      deviations; otherwise the closed form of [gen_DeviationStats_spec] at the corners that method computes.
    - [lg_floor_uint], [tms_level_lg_floor]: with math.Log2 read as the exact logarithm ([lg_floor]: floor(log2 x) after the
      conversion to uint) the deepest level is id + floor(log2(tile width of matrix 0)) + 4. *)
From Coq Require Import ZArith NArith QArith Qround List Bool Lia.
From Texel Require Import Prelude.GoAssoc Index.MachineInt Index.GoTop Index.Model Index.ProofsRound
  Index.ProofsGenIndexTop Index.GoDeviation Index.GoDeviationView Index.ProofsGenDeviation Tms.Json Tms.Model Tms.GoAddr.
From Texel Require Import Tms.ProofsC14 Tms.ProofsC14b Tms.ProofsGenQuadTree.
From Texel.Gen Require Import TmsAddrGen IndexTopGen DeviationGen QuadTreeGen.
Import ListNotations.
Open Scope Z_scope.

Theorem gen_DeviationStats_tms lg (t : tms) (tmid : Z) :
  match gen_MatrixBoundingBox t 0 with
  | Tms.Model.Ok (bl, tr) =>
      forall d : nat, tms_level (fo_exact lg) (gotms_of_tms lg gen_OutsideGridError t) tmid = N.of_nat d -> (d <= 32)%nat ->
        let e := bbox_extent (fo_exact lg) bl tr in
        eminx e <= emaxx e -> is_i64 (emaxx e - eminx e) ->
        exists U P : Q, gen_DeviationStats lg (gotms_of_tms lg _ t) tmid = DOk (U, P, None) /\
          (U == deviation_closed bl tr e d)%Q /\ (P == U / ((fst tr - fst bl) / inject_Z (pow2 d)))%Q
  | Tms.Model.Error => gen_DeviationStats lg (gotms_of_tms lg _ t) tmid = DOk (0%Q, 0%Q, Some ErrOther)
  | _ => True
  end.
Proof.
  destruct (gen_DeviationStats_spec lg (gotms_of_tms lg gen_OutsideGridError t) tmid) as [HE HO].
  destruct (gen_MatrixBoundingBox t 0) as [[bl tr] | | |] eqn:Hb; try exact I.
  - intros d Hl Hd e He Hs. apply (HO bl tr d); try assumption.
    cbn [gotms_of_tms gotms_MatrixBoundingBox]. unfold view_bbox. rewrite Hb. reflexivity.
  - apply (HE (0%Q, 0%Q) (0%Q, 0%Q) ErrOther).
    cbn [gotms_of_tms gotms_MatrixBoundingBox]. unfold view_bbox. rewrite Hb. reflexivity.
Qed.

Lemma q_trunc_Z (z : Z) : q_trunc (inject_Z z) = z.
Proof. unfold q_trunc, inject_Z. cbn [Qnum Qden]. apply Z.quot_1_r. Qed.

Lemma lg_floor_uint (w : N) :
  f_to_uint64 (fo_exact lg_floor) (f_log2 (fo_exact lg_floor) (f_of_uint64 (fo_exact lg_floor) w)) = N.log2 w.
Proof.
  cbn [fo_exact f_to_uint64 f_log2 f_of_uint64]. unfold lg_floor. rewrite Qfloor_Z, q_trunc_Z.
  destruct w as [| [p | p |]]; reflexivity.
Qed.

Lemma lg_floor_16 : f_to_uint64 (fo_exact lg_floor) (f_log2 (fo_exact lg_floor) (f_const (fo_exact lg_floor) 16)) = 4%N.
Proof. reflexivity. Qed.

Lemma tms_level_lg_floor {E} (t : gotms (fo_exact lg_floor) E) (tmid : Z) :
  0 <= tmid < 2 ^ 32 -> (tms_root_width t < 2 ^ 64)%N ->
  tms_level (fo_exact lg_floor) t tmid = (Z.to_N tmid + N.log2 (tms_root_width t) + 4)%N.
Proof.
  intros Ht Hw. apply tms_level_plain; [apply lg_floor_uint | exact lg_floor_16 | exact Ht |].
  destruct (N.eq_dec (tms_root_width t) 0) as [-> | Hn]; [reflexivity |].
  assert (H3 : (N.log2 (tms_root_width t) < 64)%N) by (apply N.log2_lt_pow2; [lia | exact Hw]).
  change (2 ^ 32)%N with 4294967296%N. lia.
Qed.

(** ** IsQuadTree and the y axis.  DeviationStats measures the x span only.  main.validateTileMatrixSet calls
    pointindex.IsQuadTree first (regenerated whole in gen/QuadTreeGen.v): when it accepts, every tile matrix has square
    tiles and a square matrix, so the bounding box of matrix 0 that the regenerated MatrixBoundingBox computes is square
    in exact arithmetic: the reported number is the deviation of the y axis as well (up to the truncation of the corners) *)
Theorem quadtree_bbox_square (t : tms) (bl tr : Q * Q) :
  gen_isQuadTree t = Accept -> gen_MatrixBoundingBox t 0 = Tms.Model.Ok (bl, tr) ->
  (snd tr - snd bl == fst tr - fst bl)%Q.
Proof.
  intros Hq Hb. rewrite gen_isQuadTree_eq in Hq.
  destruct (isQuadTree_sound_lemma t Hq) as [Hsq _].
  unfold gen_MatrixBoundingBox, gen_MatrixSize, map_get in Hb. cbv zeta in Hb.
  destruct (find_tm 0 (t_matrices t)) as [m |] eqn:Hf; cbn [negb fst] in Hb; [| discriminate].
  pose proof (proj2 (in_sorted_iff t (0, m)) (find_tm_in _ _ _ Hf)) as Hin.
  destruct (Hsq 0 m Hin) as (Emh & Eth & _ & _).
  destruct (negb (slice_len (tm_vmw m) =? 0)); [discriminate |]. cbn [Tms.Model.bind] in Hb.
  unfold roundFloat_modelled in Hb.
  destruct (deref (tm_origin m)) as [o | | |]; cbn [Tms.Model.bind] in Hb; try discriminate.
  destruct (split_err (0%Q, 0%Q) (gen_ToXYPoint t (qpoint o))) as [[xy er] | | |]; cbn [Tms.Model.bind] in Hb; try discriminate.
  destruct er; [discriminate |].
  destruct (corner_eqb (tm_corner m) TopLeft); [| destruct (corner_eqb (tm_corner m) BottomLeft)];
    cbn [Tms.Model.bind] in Hb; injection Hb as <- <-; unfold set0, set1; cbn [fst snd]; rewrite Emh, Eth; ring.
Qed.
