(** * Tie G2: the leaf functions REGENERATED from pointindex.go / mathhelp.go on every run
      (gen/PointIndexGen.v) are the definitions of the hand-written model (Index/Model.v).

    A change to one of these functions in /repo changes the generated file; the
    corresponding lemma below then stops checking, and with it every property theorem
    that cites it. *)
From Coq Require Import ZArith List Bool Lia.
From Texel Require Import Prelude.Base Index.Model.
From Texel.Gen Require Import PointIndexGen.
Import ListNotations.
Open Scope Z_scope.

Definition ext_tuple (e : extent) : gen_extent := (eminx e, eminy e, emaxx e, emaxy e).

Definition ix_of (g : grid) : gen_ix :=
  mk_gen_ix (ext_tuple (gext g)) (Z.of_nat (gdeep g)) (gsize g) (gres g).

(** Go's truncating division with the explicit correction is floor division (positive divisor) *)
Lemma gen_floorDiv_spec a b : 0 < b -> gen_floorDiv a b = a / b.
Proof.
  intro Hb. unfold gen_floorDiv.
  destruct (Z.ltb_spec (Z.rem a b) 0) as [Hneg | Hpos]; Z.to_euclidean_division_equations; nia.
Qed.

(** the proofs of the comparison-only leaves do not depend on HOW the Go code writes the comparisons (operand order,
    [>=] for [<=], intermediate variables, if-statements for boolean conversions): every integer comparison is split
    by its specification and the residue closed by computation or [lia] — so that a harmless rewrite keeps checking *)
Ltac cmp_cases :=
  cbv beta zeta;
  repeat (match goal with
          | |- context [Z.geb ?a ?b] => rewrite (Z.geb_leb a b)
          | |- context [Z.gtb ?a ?b] => rewrite (Z.gtb_ltb a b)
          | |- context [Z.leb ?a ?b] => destruct (Z.leb_spec a b)
          | |- context [Z.ltb ?a ?b] => destruct (Z.ltb_spec a b)
          | |- context [Z.eqb ?a ?b] => destruct (Z.eqb_spec a b)
          end; cbv beta iota zeta);
  cbn [andb orb negb]; try reflexivity; try lia.

Lemma gen_containsPoint_spec p e : gen_containsPoint p (ext_tuple e) = containsPoint p e.
Proof.
  unfold gen_containsPoint, containsPoint, ext_tuple. cbn [gx_minx gx_miny gx_maxx gx_maxy]. cmp_cases.
Qed.

Lemma gen_getInfiniteQuadrant_spec p c : gen_getInfiniteQuadrant p c = Z.of_nat (getInfiniteQuadrant p c).
Proof.
  unfold gen_getInfiniteQuadrant, getInfiniteQuadrant. cbv delta [gen_Bool2int gen_const_right gen_const_top]. cmp_cases.
Qed.

Definition lt4 (i : nat) : Prop := (i < 4)%nat.

Lemma gen_quadrantsAreAdjacent_spec a b : lt4 a -> lt4 b ->
  gen_quadrantsAreAdjacent (Z.of_nat a) (Z.of_nat b) = quadrantsAreAdjacent a b.
Proof.
  unfold lt4. intros Ha Hb.
  destruct a as [| [| [| [| a]]]]; try lia; destruct b as [| [| [| [| b]]]]; try lia; reflexivity.
Qed.

Lemma gen_adjacentQuadrantX_spec i : lt4 i -> gen_adjacentQuadrantX (Z.of_nat i) = Z.of_nat (adjacentQuadrantX i).
Proof. unfold lt4. intro H. destruct i as [| [| [| [| i]]]]; try lia; reflexivity. Qed.

Lemma gen_adjacentQuadrantY_spec i : lt4 i -> gen_adjacentQuadrantY (Z.of_nat i) = Z.of_nat (adjacentQuadrantY i).
Proof. unfold lt4. intro H. destruct i as [| [| [| [| i]]]]; try lia; reflexivity. Qed.

Lemma gen_oneIfRight_spec i : lt4 i -> gen_oneIfRight (Z.of_nat i) = oneIfRight i.
Proof. unfold lt4. intro H. destruct i as [| [| [| [| i]]]]; try lia; reflexivity. Qed.

Lemma gen_oneIfTop_spec i : lt4 i -> gen_oneIfTop (Z.of_nat i) = oneIfTop i.
Proof. unfold lt4. intro H. destruct i as [| [| [| [| i]]]]; try lia; reflexivity. Qed.

Lemma getInfiniteQuadrant_lt4 p c : lt4 (getInfiniteQuadrant p c).
Proof. unfold lt4, getInfiniteQuadrant. destruct (fst c <=? fst p), (snd c <=? snd p); simpl; lia. Qed.

Lemma gen_Pow2_spec n : 0 <= n -> gen_Pow2 n = 2 ^ n.
Proof. intro H. unfold gen_Pow2. rewrite Z.shiftl_1_l. reflexivity. Qed.

Lemma quadSpan_nonneg g l : 0 <= gres g -> 0 <= quadSpan g l.
Proof. intro H. unfold quadSpan, pow2. assert (0 < 2 ^ Z.of_nat (gdeep g - l)) by (apply Z.pow_pos_nonneg; lia). nia. Qed.

(** getQuadrantExtentAndCentroid for a level 0 <= l <= deepest (level differences are computed in uint in Go) *)
Lemma gen_getQuadrantExtentAndCentroid_spec g (l : nat) x y : 0 <= gres g -> (l <= gdeep g)%nat ->
  gen_getQuadrantExtentAndCentroid (ix_of g) (Z.of_nat l) x y (ext_tuple (gext g))
  = (ext_tuple (quadExtent g l x y), quadCentroid g l x y).
Proof.
  intros Hr Hl. unfold gen_getQuadrantExtentAndCentroid, ix_of. cbn [ix_deepestLevel ix_deepestRes].
  replace (Z.of_nat (gdeep g) - Z.of_nat l) with (Z.of_nat (gdeep g - l)) by lia.
  rewrite gen_Pow2_spec by lia. fold (pow2 (gdeep g - l)). fold (quadSpan g l).
  pose proof (quadSpan_nonneg g l Hr) as Hs.
  rewrite Z.quot_div_nonneg by lia.
  unfold quadExtent, quadCentroid, ext_tuple. cbn [gx_minx gx_miny eminx eminy emaxx emaxy]. reflexivity.
Qed.

Definition qtc_triple (q : qtc) : Z * bool * bool := (Z.of_nat (qi q), qcertain q, qmutex q).

Definition quad_of (q : quad) : gen_quad := mk_gen_quad 0 (ext_tuple (qext q)) (qcen q).

(** the table of quadrants to check built by findIntersectingQuadrants *)
Lemma gen_findIntersectingQuadrants_spec a b parent :
  gen_findIntersectingQuadrants (a, b) (quad_of parent)
  = map qtc_triple (quadrantsToCheck (getInfiniteQuadrant a (qcen parent)) (getInfiniteQuadrant b (qcen parent))
                                     (containsPoint a (qext parent)) (containsPoint b (qext parent))).
Proof.
  unfold gen_findIntersectingQuadrants, quad_of. cbn [fst snd q_intCentroid q_intExtent].
  rewrite !gen_containsPoint_spec, !gen_getInfiniteQuadrant_spec.
  pose proof (getInfiniteQuadrant_lt4 a (qcen parent)) as H1.
  pose proof (getInfiniteQuadrant_lt4 b (qcen parent)) as H2.
  set (i1 := getInfiniteQuadrant a (qcen parent)) in *. set (i2 := getInfiniteQuadrant b (qcen parent)) in *.
  set (in1 := containsPoint a (qext parent)). set (in2 := containsPoint b (qext parent)).
  rewrite gen_quadrantsAreAdjacent_spec by assumption.
  rewrite gen_adjacentQuadrantX_spec, gen_adjacentQuadrantY_spec by assumption.
  unfold quadrantsToCheck.
  replace (Z.of_nat i1 =? Z.of_nat i2) with (Nat.eqb i1 i2)
    by (destruct (Nat.eqb_spec i1 i2), (Z.eqb_spec (Z.of_nat i1) (Z.of_nat i2)); lia || reflexivity).
  destruct (Nat.eqb i1 i2); [destruct in1, in2; reflexivity |].
  destruct (quadrantsAreAdjacent i1 i2); destruct in1, in2; reflexivity.
Qed.

(** InsertPoint's address computation and InsertCoord's range test *)
Lemma gen_InsertPoint_coord_spec g p : 0 < gres g -> gen_InsertPoint_coord (ix_of g) p = deepestCoord g p.
Proof.
  intro Hr. unfold gen_InsertPoint_coord, deepestCoord, ix_of, ext_tuple.
  cbn [ix_intExtent ix_deepestRes gx_minx gx_miny]. rewrite !gen_floorDiv_spec by assumption. reflexivity.
Qed.

Lemma gen_InsertCoord_outside_spec g x y : gen_InsertCoord_outside (ix_of g) x y = negb (inGridCoord g (x, y)).
Proof.
  unfold gen_InsertCoord_outside, inGridCoord, ix_of. cbn [ix_deepestSize fst snd].
  rewrite negb_involutive. reflexivity.
Qed.

(** FromTileMatrixSet: the deepest resolution is the x span divided by 2^deepest, rounded DOWN (for a
    non-negative span) — the grid of the theorems that speak about FromTileMatrixSet-style grids
    ([tmsGrid] in Index/ProofsRound.v uses exactly this quotient) *)
Lemma gen_deepestRes_spec e d : eminx e <= emaxx e ->
  gen_deepestRes (ext_tuple e) (pow2 d) = (emaxx e - eminx e) / pow2 d.
Proof.
  intro H. unfold gen_deepestRes, gx_xspan, ext_tuple. cbn [gx_minx gx_maxx].
  assert (0 < pow2 d) by (unfold pow2; apply Z.pow_pos_nonneg; lia).
  apply Z.quot_div_nonneg; lia.
Qed.

(** all ties of this file in one statement, cited from the property files *)
Theorem generated_pointindex_is_model :
  (forall a b, 0 < b -> gen_floorDiv a b = a / b) /\
  (forall p e, gen_containsPoint p (ext_tuple e) = containsPoint p e) /\
  (forall p c, gen_getInfiniteQuadrant p c = Z.of_nat (getInfiniteQuadrant p c)) /\
  (forall a b parent, gen_findIntersectingQuadrants (a, b) (quad_of parent)
      = map qtc_triple (quadrantsToCheck (getInfiniteQuadrant a (qcen parent)) (getInfiniteQuadrant b (qcen parent))
                                         (containsPoint a (qext parent)) (containsPoint b (qext parent)))) /\
  (forall i, lt4 i -> gen_oneIfRight (Z.of_nat i) = oneIfRight i /\ gen_oneIfTop (Z.of_nat i) = oneIfTop i) /\
  (forall g l x y, 0 <= gres g -> (l <= gdeep g)%nat ->
      gen_getQuadrantExtentAndCentroid (ix_of g) (Z.of_nat l) x y (ext_tuple (gext g))
      = (ext_tuple (quadExtent g l x y), quadCentroid g l x y)) /\
  (forall g p, 0 < gres g -> gen_InsertPoint_coord (ix_of g) p = deepestCoord g p) /\
  (forall g x y, gen_InsertCoord_outside (ix_of g) x y = negb (inGridCoord g (x, y))).
Proof.
  split; [exact gen_floorDiv_spec |].
  split; [exact gen_containsPoint_spec |].
  split; [exact gen_getInfiniteQuadrant_spec |].
  split; [exact gen_findIntersectingQuadrants_spec |].
  split; [intros i Hi; split; [apply gen_oneIfRight_spec | apply gen_oneIfTop_spec]; exact Hi |].
  split; [exact gen_getQuadrantExtentAndCentroid_spec |].
  split; [exact gen_InsertPoint_coord_spec | exact gen_InsertCoord_outside_spec].
Qed.
