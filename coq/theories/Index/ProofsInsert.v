(** * C09: InsertPoint / InsertPolygon accept exactly the points of the half-open integer extent. *)
From Coq Require Import ZArith List Bool Lia.
From Texel Require Import Prelude.Base Index.Model.
Import ListNotations.
Open Scope Z_scope.

(** the half-open extent the index really covers: [min, min + 2^deepest * res) on both axes *)
Definition insideGrid (g : grid) (p : pt) : Prop :=
  eminx (gext g) <= fst p < eminx (gext g) + gsize g * gres g /\
  eminy (gext g) <= snd p < eminy (gext g) + gsize g * gres g.

Lemma pow2_pos n : 0 < pow2 n.
Proof. unfold pow2. apply Z.pow_pos_nonneg; lia. Qed.

Lemma gsize_pos g : 0 < gsize g.
Proof. apply pow2_pos. Qed.

(** one axis: the floor-divided coordinate is in [0, size) iff the ordinate is in [min, min + size*res) *)
Lemma axis_in_range (o mn res size : Z) : 0 < res -> 0 < size ->
  (0 <= (o - mn) / res <= size - 1) <-> (mn <= o < mn + size * res).
Proof.
  intros Hr Hs.
  pose proof (Z.div_mod (o - mn) res ltac:(lia)) as E.
  pose proof (Z.mod_pos_bound (o - mn) res Hr) as B.
  set (q := (o - mn) / res) in *. set (r := (o - mn) mod res) in *.
  split; intros [H0 H1]; split; nia.
Qed.

Lemma inGridCoord_spec g p : 0 < gres g ->
  inGridCoord g (deepestCoord g p) = true <-> insideGrid g p.
Proof.
  intro Hr. unfold inGridCoord, deepestCoord, insideGrid. cbn [fst snd].
  pose proof (gsize_pos g) as Hs.
  rewrite negb_true_iff, !orb_false_iff, !Z.ltb_ge.
  pose proof (axis_in_range (fst p) (eminx (gext g)) (gres g) (gsize g) Hr Hs) as Hx.
  pose proof (axis_in_range (snd p) (eminy (gext g)) (gres g) (gsize g) Hr Hs) as Hy.
  split.
  - intros [[[H1 H2] H3] H4]. split; [apply Hx | apply Hy]; lia.
  - intros [H1 H2]. apply Hx in H1. apply Hy in H2. lia.
Qed.

Lemma insertPoint_ok g hs p : 0 < gres g ->
  (exists hs', insertPoint g hs p = Ok hs') <-> insideGrid g p.
Proof.
  intro Hr. unfold insertPoint. destruct (Z.eqb_spec (gres g) 0) as [E | _]; [lia |].
  rewrite <- (inGridCoord_spec g p Hr).
  destruct (inGridCoord g (deepestCoord g p)); split; intro H; try reflexivity; eauto.
  - destruct H as [? H]; discriminate.
  - discriminate.
Qed.

Lemma insertPoint_err g hs p : 0 < gres g ->
  insertPoint g hs p = Err OutsideGrid \/ exists hs', insertPoint g hs p = Ok hs'.
Proof.
  intro Hr. unfold insertPoint. destruct (Z.eqb_spec (gres g) 0) as [E | _]; [lia |].
  destruct (inGridCoord g (deepestCoord g p)); eauto.
Qed.

Lemma foldM_insert g : 0 < gres g -> forall vs hs,
  (Forall (insideGrid g) vs -> exists hs', foldM (insertPoint g) vs hs = Ok hs') /\
  (~ Forall (insideGrid g) vs -> foldM (insertPoint g) vs hs = Err OutsideGrid).
Proof.
  intro Hr. induction vs as [| v vs IH]; intros hs; cbn [foldM].
  - split; [eauto | intro H; exfalso; apply H; constructor].
  - split.
    + intro F. inversion F as [| ? ? Hv Hvs]; subst.
      apply (insertPoint_ok g hs v Hr) in Hv. destruct Hv as [hs1 E]. rewrite E. cbn [bind].
      apply IH. exact Hvs.
    + intro NF. destruct (insertPoint_err g hs v Hr) as [E | [hs1 E]]; rewrite E; cbn [bind]; [reflexivity |].
      apply IH. intro Hvs. apply NF. constructor; [| exact Hvs].
      apply (insertPoint_ok g hs v Hr). eauto.
Qed.

Theorem insertPolygon_ok_iff g P : 0 < gres g ->
  (exists hs, insertPolygon g P = Ok hs) <-> Forall (insideGrid g) (concat P).
Proof.
  intro Hr. unfold insertPolygon. destruct (foldM_insert g Hr (concat P) []) as [A B]. split.
  - intros [hs E]. destruct (Forall_dec (insideGrid g)) with (l := concat P) as [F | NF]; [| exact F |].
    + intro p. unfold insideGrid.
      destruct (Z_le_dec (eminx (gext g)) (fst p)), (Z_lt_dec (fst p) (eminx (gext g) + gsize g * gres g)),
               (Z_le_dec (eminy (gext g)) (snd p)), (Z_lt_dec (snd p) (eminy (gext g) + gsize g * gres g));
        (left; lia) || (right; lia).
    + rewrite (B NF) in E. discriminate.
  - exact A.
Qed.

Theorem insertPolygon_outside g P : 0 < gres g ->
  ~ Forall (insideGrid g) (concat P) <-> insertPolygon g P = Err OutsideGrid.
Proof.
  intro Hr. split.
  - apply (foldM_insert g Hr (concat P) []).
  - intros E F. apply (insertPolygon_ok_iff g P Hr) in F. destruct F as [hs E']. congruence.
Qed.
