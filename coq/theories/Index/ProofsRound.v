(** * C08 arithmetic: an index built for a deeper level answers the coarser levels exactly like an
      index built for the coarser level, when the coarser resolution is the exact multiple. *)
From Coq Require Import ZArith Lia List Bool.
From Texel Require Import Prelude.Base Index.Model Index.ProofsInsert Index.ProofsGrid Index.ProofsRouting.
Import ListNotations.
Open Scope Z_scope.

(** the grid of deepest level [L] whose pixel is exactly 2^(d-L) pixels of [g] *)
Definition coarsen (g : grid) (L : nat) : grid := mkGrid (gext g) (pow2 (gdeep g - L) * gres g) L.

(** deepest-level addresses seen from level L *)
Definition coarsenHs (g : grid) (L : nat) (hs : hotset) : hotset :=
  map (fun c => (fst c / pow2 (gdeep g - L), snd c / pow2 (gdeep g - L))) hs.

Section Round.
  Variables (g : grid) (L : nat).
  Hypothesis HL : (L <= gdeep g)%nat.

  Lemma coarsen_quadSpan l : (l <= L)%nat -> quadSpan (coarsen g L) l = quadSpan g l.
  Proof.
    intro Hl. unfold quadSpan, coarsen. cbn [gdeep gres].
    replace (gdeep g - l)%nat with ((L - l) + (gdeep g - L))%nat by lia. rewrite pow2_add. ring.
  Qed.

  Lemma coarsen_quadExtent l x y : (l <= L)%nat -> quadExtent (coarsen g L) l x y = quadExtent g l x y.
  Proof. intro Hl. unfold quadExtent. rewrite (coarsen_quadSpan l Hl). reflexivity. Qed.

  Lemma coarsen_quadCentroid l x y : (l <= L)%nat -> quadCentroid (coarsen g L) l x y = quadCentroid g l x y.
  Proof. intro Hl. unfold quadCentroid. rewrite (coarsen_quadSpan l Hl). reflexivity. Qed.

  Lemma coarsen_quadAt l x y : (l <= L)%nat -> quadAt (coarsen g L) l x y = quadAt g l x y.
  Proof. intro Hl. unfold quadAt. rewrite coarsen_quadExtent, coarsen_quadCentroid by exact Hl. reflexivity. Qed.

  Lemma coarsen_rootQuad : rootQuad (coarsen g L) = rootQuad g.
  Proof. unfold rootQuad. rewrite coarsen_quadCentroid by lia. reflexivity. Qed.

  (** floor division composes *)
  Lemma coarsen_hotAt hs l : (l <= L)%nat -> hotAt (coarsen g L) (coarsenHs g L hs) l = hotAt g hs l.
  Proof.
    intro Hl. unfold hotAt, coarsenHs, coarsen. cbn [gdeep]. rewrite map_map. f_equal. apply map_ext.
    intro c. cbn [fst snd].
    pose proof (pow2_pos (gdeep g - L)) as P1. pose proof (pow2_pos (L - l)) as P2.
    rewrite !Z.div_div by lia. rewrite <- pow2_add.
    replace (gdeep g - L + (L - l))%nat with (gdeep g - l)%nat by lia. reflexivity.
  Qed.

  Lemma coarsen_hotLookup hs l : (l <= L)%nat ->
    hotLookup (hotLevels (coarsen g L) (coarsenHs g L hs)) l = hotLookup (hotLevels g hs) l.
  Proof.
    intro Hl. rewrite (hotLookup_hotLevels (coarsen g L)) by (cbn [coarsen gdeep]; lia).
    rewrite (hotLookup_hotLevels g) by lia. apply coarsen_hotAt. exact Hl.
  Qed.

  Lemma coarsen_childHas hs l p i : (l <= L)%nat ->
    childHas (coarsen g L) (hotLookup (hotLevels (coarsen g L) (coarsenHs g L hs)) l) l p i =
    childHas g (hotLookup (hotLevels g hs) l) l p i.
  Proof. intro Hl. unfold childHas. rewrite coarsen_hotLookup, coarsen_quadAt by exact Hl. reflexivity. Qed.

  Lemma coarsen_descendTo hs a b l : (l <= L)%nat ->
    descendTo (coarsen g L) (hotLevels (coarsen g L) (coarsenHs g L hs)) a b l =
    descendTo g (hotLevels g hs) a b l.
  Proof.
    induction l as [| l IH]; intro Hl; cbn [descendTo]; [rewrite coarsen_rootQuad; reflexivity |].
    rewrite IH by lia. apply flat_map_ext. intro p. apply find_congr; try reflexivity.
    intro i. apply coarsen_childHas. exact Hl.
  Qed.

  Lemma coarsen_snapClosestPoints hs a b l : (l <= L)%nat ->
    snapClosestPoints (coarsen g L) (hotLevels (coarsen g L) (coarsenHs g L hs)) a b l =
    snapClosestPoints g (hotLevels g hs) a b l.
  Proof.
    intro Hl. unfold snapClosestPoints, snapClosestQuads. change (gext (coarsen g L)) with (gext g).
    rewrite coarsen_descendTo by exact Hl. reflexivity.
  Qed.

  (** indexing the same polygon in the coarser grid gives the coarsened addresses *)
  Hypothesis Hr : 0 < gres g.

  Lemma coarsen_res_pos : 0 < gres (coarsen g L).
  Proof. cbn [coarsen gres]. pose proof (pow2_pos (gdeep g - L)). nia. Qed.

  Lemma coarsen_deepestCoord p :
    deepestCoord (coarsen g L) p =
    (fst (deepestCoord g p) / pow2 (gdeep g - L), snd (deepestCoord g p) / pow2 (gdeep g - L)).
  Proof.
    unfold deepestCoord, coarsen. cbn [gext gres fst snd].
    pose proof (pow2_pos (gdeep g - L)) as P1.
    rewrite !Z.div_div by lia. rewrite (Z.mul_comm (gres g)). reflexivity.
  Qed.

  Lemma coarsen_insideGrid p : insideGrid (coarsen g L) p <-> insideGrid g p.
  Proof.
    unfold insideGrid, gsize, coarsen. cbn [gext gres gdeep].
    replace (pow2 L * (pow2 (gdeep g - L) * gres g)) with (pow2 (gdeep g) * gres g); [tauto |].
    rewrite Z.mul_assoc, <- pow2_add. f_equal. f_equal. lia.
  Qed.

  Lemma coarsen_insertPolygon P hs : insertPolygon g P = Ok hs ->
    insertPolygon (coarsen g L) P = Ok (coarsenHs g L hs).
  Proof.
    intro Hi.
    assert (F : Forall (insideGrid g) (concat P)) by (apply (insertPolygon_ok_iff g P Hr); eauto).
    assert (F' : Forall (insideGrid (coarsen g L)) (concat P)).
    { rewrite Forall_forall in *. intros p Hp. apply coarsen_insideGrid. apply F. exact Hp. }
    apply (insertPolygon_ok_iff (coarsen g L) P coarsen_res_pos) in F' as [hs' Hi'].
    rewrite Hi'. f_equal. apply insertPolygon_ok in Hi as [-> _]. apply insertPolygon_ok in Hi' as [-> _].
    unfold coarsenHs. rewrite map_map. apply map_ext. intro p. apply coarsen_deepestCoord.
  Qed.
End Round.

(** round_grid_levels: everything the routing of level l looks at is the same in both indexes *)
Theorem round_grid_levels g L l hs x y : (L <= gdeep g)%nat -> (l <= L)%nat ->
  quadExtent (coarsen g L) l x y = quadExtent g l x y /\
  quadCentroid (coarsen g L) l x y = quadCentroid g l x y /\
  hotAt (coarsen g L) (coarsenHs g L hs) l = hotAt g hs l /\
  (forall a b, descendTo (coarsen g L) (hotLevels (coarsen g L) (coarsenHs g L hs)) a b l =
               descendTo g (hotLevels g hs) a b l) /\
  (forall a b, snapClosestPoints (coarsen g L) (hotLevels (coarsen g L) (coarsenHs g L hs)) a b l =
               snapClosestPoints g (hotLevels g hs) a b l).
Proof.
  intros HL Hl. split; [apply coarsen_quadExtent; assumption |]. split; [apply coarsen_quadCentroid; assumption |].
  split; [apply coarsen_hotAt; assumption |].
  split; intros a b; [apply coarsen_descendTo | apply coarsen_snapClosestPoints]; assumption.
Qed.

(** the consequence for a polygon: index it at deepest level d or at deepest level L, the routed centres of
    every level l <= L are the same *)
Theorem round_grid_routing g L l P hs : 0 < gres g -> (L <= gdeep g)%nat -> (l <= L)%nat ->
  insertPolygon g P = Ok hs ->
  exists hs', insertPolygon (coarsen g L) P = Ok hs' /\
    forall a b, snapClosestPoints (coarsen g L) (hotLevels (coarsen g L) hs') a b l =
                snapClosestPoints g (hotLevels g hs) a b l.
Proof.
  intros Hr HL Hl Hi. exists (coarsenHs g L hs). split; [apply coarsen_insertPolygon; assumption |].
  intros a b. apply coarsen_snapClosestPoints; assumption.
Qed.

(** ** grids as FromTileMatrixSet builds them: extent of the set, res = XSpan / 2^deepest (rounded down) *)
Definition tmsGrid (e : extent) (d : nat) : grid := mkGrid e ((emaxx e - eminx e) / pow2 d) d.

(** when the span divides evenly into 2^d pixels, the grid of a coarser level is the coarsened grid *)
Lemma round_res X d L : (L <= d)%nat -> (pow2 d | X) -> X / pow2 L = pow2 (d - L) * (X / pow2 d).
Proof.
  intros HL [k ->]. pose proof (pow2_pos d) as Pd. pose proof (pow2_pos L) as Pl.
  rewrite Z.div_mul by lia. replace (pow2 d) with (pow2 (d - L) * pow2 L) by (rewrite <- pow2_add; f_equal; lia).
  rewrite Z.mul_assoc, Z.div_mul by lia. ring.
Qed.

Theorem tmsGrid_round e d L : (L <= d)%nat -> (pow2 d | emaxx e - eminx e) ->
  tmsGrid e L = coarsen (tmsGrid e d) L.
Proof.
  intros HL Hd. unfold tmsGrid, coarsen. cbn [gext gres gdeep]. f_equal. apply round_res; assumption.
Qed.

(** C08 for tile matrix sets whose extent divides evenly into the pixels of the deepest requested level *)
Theorem round_tms_routing e d L l P hs : 0 < (emaxx e - eminx e) / pow2 d ->
  (pow2 d | emaxx e - eminx e) -> (L <= d)%nat -> (l <= L)%nat ->
  insertPolygon (tmsGrid e d) P = Ok hs ->
  exists hs', insertPolygon (tmsGrid e L) P = Ok hs' /\
    forall a b, snapClosestPoints (tmsGrid e L) (hotLevels (tmsGrid e L) hs') a b l =
                snapClosestPoints (tmsGrid e d) (hotLevels (tmsGrid e d) hs) a b l.
Proof.
  intros Hr Hd HL Hl Hi. rewrite (tmsGrid_round e d L HL Hd).
  apply round_grid_routing; try assumption.
Qed.

(** every grid FromTileMatrixSet builds stores an extent that covers its computed pixels
    (the resolution is rounded down), provided the extent is at least as high as wide *)
Lemma tmsGrid_rootCovers e d : emaxx e - eminx e <= emaxy e - eminy e -> RootCovers (tmsGrid e d).
Proof.
  intro Hsq. unfold RootCovers, ProofsLine.SubE, ProofsDescent.rootBox, quadExtent.
  rewrite quadSpan_root. unfold tmsGrid, gsize. cbn [gext gres gdeep eminx eminy emaxx emaxy].
  pose proof (Z.mul_div_le (emaxx e - eminx e) (pow2 d) (pow2_pos d)) as H. lia.
Qed.
