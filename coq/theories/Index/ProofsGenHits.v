(** * Tie G2: pointindex.checkPointHits, regenerated from source on every run (gen/HitsGen.v), is the model's
      hit accounting (Index/Model.v [checkPointHits], and its fold over the centres of one call of
      SnapClosestPoints, [snapAndHit]).

    Trusted / modelled (the mappings the translator makes after checking the AST, translator/hits.go):
    - [levelHitOnce := ix.hitOnce[level]] and [levelHitMultiple := ix.hitMultiple[level]] are references to the inner
      maps of the receiver: the generated function takes their contents before the call and returns their contents
      after it (they are non-nil: SnapClosestPoints makes them before the call, checked by the translator);
    - [map[intgeom.Point][]int] used through [m[k]] and [m[k] = v] is an association list (Prelude/GoAssoc.v), which is
      literally the model's [hitmap] up to the representation of ring ids ([int] in the code = exact [Z], [nat] in
      the model);
    - [slices.Contains] on [[]int] is [existsb (Z.eqb x)]. *)
From Coq Require Import ZArith List Bool Lia.
From Texel Require Import Prelude.Base Prelude.GoAssoc Index.Model.
From Texel.Gen Require Import HitsGen.
Import ListNotations.
Open Scope Z_scope.

(** the model's hit map as the map of the code *)
Definition hm_conv (m : hitmap) : gomap pt (list Z) := map (fun e => (fst e, map Z.of_nat (snd e))) m.

Lemma hm_conv_get m v : gm_get_or pt_eqb (@nil Z) (hm_conv m) v = map Z.of_nat (hm_get m v).
Proof.
  unfold gm_get_or. induction m as [| [q l] r IH]; [reflexivity |].
  cbn [hm_conv map gm_get hm_get fst snd]. destruct (pt_eqb v q); [reflexivity | exact IH].
Qed.

Lemma hm_conv_app m v (ringId : nat) :
  gm_set pt_eqb (hm_conv m) v (map Z.of_nat (hm_get m v) ++ [Z.of_nat ringId]) = hm_conv (hm_app m v ringId).
Proof.
  induction m as [| [q l] r IH]; [reflexivity |].
  cbn [hm_conv map gm_set hm_get hm_app fst snd]. destruct (pt_eqb v q).
  - cbn [map fst snd]. rewrite map_app. reflexivity.
  - cbn [map fst snd]. f_equal. exact IH.
Qed.

Lemma contains_mem_nat (ringId : nat) l : existsb (Z.eqb (Z.of_nat ringId)) (map Z.of_nat l) = mem_nat ringId l.
Proof.
  unfold mem_nat. induction l as [| x l IH]; [reflexivity |]. cbn [map existsb]. rewrite IH. f_equal.
  destruct (Nat.eqb_spec ringId x), (Z.eqb_spec (Z.of_nat ringId) (Z.of_nat x)); lia || reflexivity.
Qed.

Lemma len_pos_cons (l : list nat) : (0 <? zlen (map Z.of_nat l)) = match l with [] => false | _ :: _ => true end.
Proof. destruct l; [reflexivity |]. unfold zlen. cbn [map length]. apply Z.ltb_lt. lia. Qed.

Theorem gen_checkPointHits_spec (st : hits) (v : pt) (ringId : nat) :
  gen_checkPointHits (hm_conv (hitOnce st)) (hm_conv (hitMultiple st)) v (Z.of_nat ringId)
  = Ok (hm_conv (hitOnce (checkPointHits st v ringId)), hm_conv (hitMultiple (checkPointHits st v ringId))).
Proof.
  unfold gen_checkPointHits, checkPointHits. cbv zeta.
  rewrite !hm_conv_get, len_pos_cons, !contains_mem_nat, !hm_conv_app.
  destruct (hm_get (hitOnce st) v) as [| x l].
  - reflexivity.
  - destruct (negb (mem_nat ringId (x :: l))); [reflexivity |].
    destruct (negb (mem_nat ringId (hm_get (hitMultiple st) v))); reflexivity.
Qed.

(** the loop of SnapClosestPoints over the centres of one level ("ignore first point"): running the regenerated
    function over the centres after the first one is the model's fold ([snapAndHit]) *)
Definition gen_hit_all (ringId : Z) (s : gomap pt (list Z) * gomap pt (list Z)) (vs : list pt)
  : res (gomap pt (list Z) * gomap pt (list Z)) :=
  foldM (fun s v => gen_checkPointHits (fst s) (snd s) v ringId) vs s.

Theorem gen_hit_all_spec (vs : list pt) (ringId : nat) : forall st : hits,
  gen_hit_all (Z.of_nat ringId) (hm_conv (hitOnce st), hm_conv (hitMultiple st)) vs
  = let st' := fold_left (fun s v => checkPointHits s v ringId) vs st in
    Ok (hm_conv (hitOnce st'), hm_conv (hitMultiple st')).
Proof.
  unfold gen_hit_all. induction vs as [| v vs IH]; intro st; [reflexivity |].
  cbn [foldM fold_left fst snd]. rewrite gen_checkPointHits_spec. cbn [bind]. apply IH.
Qed.

Corollary gen_hits_snapAndHit g hots (st : hits) (a b : pt) (L ringId : nat) :
  gen_hit_all (Z.of_nat ringId) (hm_conv (hitOnce st), hm_conv (hitMultiple st)) (tl (snapClosestPoints g hots a b L))
  = let st' := snd (snapAndHit g hots st a b L ringId) in
    Ok (hm_conv (hitOnce st'), hm_conv (hitMultiple st')).
Proof. unfold snapAndHit. cbn [snd]. apply gen_hit_all_spec. Qed.
