(** * Hand-written support for gen/IndexTopGen.v (tie G2: the exported entry points of pointindex.go and package intgeom).

    The translator (translator/indextop.go) emits calls to these helpers, nothing else.

    FLOATS.  float64 values are elements of an ABSTRACT type [F fo]; every float64 operation the translated code performs
    is a field of the record [floatops] (DESIGN 4.2: the codec FromGeomOrd / ToGeomOrd is kept out of the theorems; the
    theorems state which property of these operations they need, if any):
    - [f_const z]      an integer-valued constant or literal converted to float64 ([0.0], [10], [Precision], [16]);
    - [f_of_int64 z]   [float64(z)] for an int64 z;        [f_of_uint64 n]   [float64(n)] for a uint n;
    - [f_to_int64 f]   [int64(f)] (truncation);            [f_to_uint64 f]   [uint(f)];
    - [f_mul], [f_div] float64 [*] and [/];   [f_pow] = math.Pow;   [f_log2] = math.Log2.
    [[2]float64] (geom.Point) is a pair, [[2][2]float64] (geom.Line) a pair of pairs.

    MACHINE INTEGERS (beside Index/MachineInt.v): int64 / int [/] and [%] with the division-by-zero panic and the
    wrap-around of MinInt64 / -1; conversions between uint (N) and int / int64 (Z in [-2^63, 2^63)).

    MAP ITERATION.  [for k, v := range m] over a Go map visits every entry once, in an order the language does not
    define.  The translated function takes a parameter [ord : goorder]; the n-th range-over-a-map statement of the
    function iterates over [ord n _ _ m].  The theorems quantify over every [ord] that permutes ([goorder_ok]).

    ERRORS.  A value of the interface type [error] is [option (goerr E)]: [None] = nil, [Some (ErrOf e)] = a value of the
    one error struct E the package declares (OutsideGridError), [Some ErrOther] = any other error (fmt.Errorf(..): the
    message is not modelled).

    go-spatial/geom and tms20 (other packages, not translated here): [go_LinearRings] = geom.Polygon.LinearRings (the
    polygon itself, type Polygon [][][2]float64); [gotms] = the view of a tms20.TileMatrixSet that FromTileMatrixSet
    reads: the tile widths of its matrices and the result of its method MatrixBoundingBox per matrix id. *)
From Coq Require Import ZArith NArith List Bool Permutation.
From Texel Require Import Prelude.Base Prelude.GoAssoc Index.MachineInt.
Import ListNotations.
Open Scope Z_scope.

Record floatops := mk_floatops {
  F : Type;
  f_const : Z -> F;
  f_of_int64 : Z -> F;
  f_of_uint64 : N -> F;
  f_to_int64 : F -> Z;
  f_to_uint64 : F -> N;
  f_mul : F -> F -> F;
  f_div : F -> F -> F;
  f_pow : F -> F -> F;
  f_log2 : F -> F
}.

Definition FPt (fo : floatops) : Type := (F fo * F fo)%type.
Definition FLine (fo : floatops) : Type := (FPt fo * FPt fo)%type.

(** int64 / int division and remainder (Go truncates; x / 0 panics; MinInt64 / -1 wraps to MinInt64, MinInt64 % -1 = 0) *)
Definition quot64 (x y : Z) : res Z := if y =? 0 then Err DivZero else Ok (wrap64 (Z.quot x y)).
Definition rem64 (x y : Z) : res Z := if y =? 0 then Err DivZero else Ok (Z.rem x y).

(** int64(n) / int(n) of a uint n, uint(z) of an int64 / int z: two's complement *)
Definition i64_of_N (n : N) : Z := wrap64 (Z.of_N n).
Definition N_of_i64 (z : Z) : N := Z.to_N (u64 z).

(** make([]T, n): n zero values (a negative length panics) *)
Definition make_slice {A : Type} (zero : A) (n : Z) : res (list A) :=
  if n <? 0 then Err SliceBounds else Ok (repeat zero (Z.to_nat n)).

Definition is_some {A : Type} (o : option A) : bool := match o with Some _ => true | None => false end.

(** the iteration order of the range-over-a-map statements of one function *)
Definition goorder : Type := nat -> forall K V : Type, gomap K V -> gomap K V.
Definition goorder_ok (ord : goorder) : Prop := forall n K V (m : gomap K V), Permutation (ord n K V m) m.
Definition goorder_id : goorder := fun _ _ _ m => m.
Definition goorder_rev : goorder := fun _ K V m => rev m.

Lemma goorder_id_ok : goorder_ok goorder_id.
Proof. intros n K V m. apply Permutation_refl. Qed.
Lemma goorder_rev_ok : goorder_ok goorder_rev.
Proof. intros n K V m. apply Permutation_sym, Permutation_rev. Qed.

Inductive goerr (E : Type) : Type :=
| ErrOf (e : E)
| ErrOther.
Arguments ErrOf {E} e.
Arguments ErrOther {E}.

(** geom.Polygon.LinearRings() of go-spatial/geom: [return p] *)
Definition go_LinearRings {A : Type} (p : list (list A)) : list (list A) := p.

(** what FromTileMatrixSet reads of a tms20.TileMatrixSet *)
Record gotm := mk_gotm { gotm_TileWidth : N }.
Record gotms (fo : floatops) (E : Type) := mk_gotms {
  gotms_TileMatrices : gomap Z gotm;
  gotms_MatrixBoundingBox : Z -> (FPt fo * FPt fo * option (goerr E))%type
}.
Arguments gotms_TileMatrices {fo E} _.
Arguments gotms_MatrixBoundingBox {fo E} _ _.
