(** * Executable model of package pointindex (and the parts of intgeom it uses).

    Definitions only.  Integers are unbounded [Z] (DESIGN 4.1: the Go code works on
    int64 in units of 1e-10 and 128-bit products in [cmpProducts]; the theorems carry the
    no-overflow bound where it matters).  Pixel addresses are pairs (x, y) instead of Morton
    keys: by C17 (injectivity, children) a map keyed by [morton.Z] is a map keyed by (x, y)
    and [getQuadrantZs] enumerates the addresses (2x+i, 2y+j). *)
From Coq Require Import ZArith List Bool.
From Texel Require Import Prelude.Base.
Import ListNotations.
Open Scope Z_scope.

(** ** intgeom.Extent; right and top edges exclusive (pointindex.containsPoint) *)
Record extent := mkExtent { eminx : Z; eminy : Z; emaxx : Z; emaxy : Z }.

Definition containsPoint (p : pt) (e : extent) : bool :=
  (eminx e <=? fst p) && (fst p <? emaxx e) && (eminy e <=? snd p) && (snd p <? emaxy e).

(** ** pointindex.lineIntersects (exact integer clip of the segment parameter) *)
Record pbound := mkBound { bnum : Z; bden : Z; bstrict : bool }.

(** cmpProducts a b c d compares a*b with c*d (the Go code does it with 128-bit products) *)
Definition cmpProducts (a b c d : Z) : comparison := (a * b ?= c * d).

Definition leavesRoomBelow (lo up : pbound) : bool :=
  match cmpProducts (bnum lo) (bden up) (bnum up) (bden lo) with
  | Lt => true
  | Eq => negb (bstrict lo) && negb (bstrict up)
  | Gt => false
  end.

(** bounds contributed by one axis; [None] = the early [return false] *)
Definition axisBounds (from to mn mx : Z) : option (list pbound * list pbound) :=
  let delta := to - from in
  if delta =? 0 then
    if (from <? mn) || (mx <=? from) then None else Some ([], [])
  else if 0 <? delta then
    Some ([mkBound (mn - from) delta false], [mkBound (mx - from) delta true])
  else
    Some ([mkBound (from - mx) (- delta) true], [mkBound (from - mn) (- delta) false]).

Definition lineIntersects (a b : pt) (e : extent) : bool :=
  match axisBounds (fst a) (fst b) (eminx e) (emaxx e),
        axisBounds (snd a) (snd b) (eminy e) (emaxy e) with
  | Some (lx, ux), Some (ly, uy) =>
      let lows := mkBound 0 1 false :: lx ++ ly in
      let ups := mkBound 1 1 false :: ux ++ uy in
      forallb (fun lo => forallb (fun up => leavesRoomBelow lo up) ups) lows
  | _, _ => false
  end.

(** ** The grid: what FromTileMatrixSet puts into a PointIndex *)
Record grid := mkGrid {
  gext : extent;   (* ix.intExtent: bounding box of the root tile matrix *)
  gres : Z;        (* ix.deepestRes = XSpan / 2^deepestLevel *)
  gdeep : nat      (* ix.deepestLevel *)
}.

Definition pow2 (n : nat) : Z := 2 ^ Z.of_nat n.
Definition gsize (g : grid) : Z := pow2 (gdeep g).

(** a quadrant (pixel) with what the code stores about it *)
Record quad := mkQuad { qx : Z; qy : Z; qext : extent; qcen : pt }.

(** pointindex.getQuadrantExtentAndCentroid *)
Definition quadSpan (g : grid) (l : nat) : Z := pow2 (gdeep g - l) * gres g.

Definition quadExtent (g : grid) (l : nat) (x y : Z) : extent :=
  let s := quadSpan g l in
  mkExtent (eminx (gext g) + x * s) (eminy (gext g) + y * s)
           (eminx (gext g) + (x + 1) * s) (eminy (gext g) + (y + 1) * s).

Definition quadCentroid (g : grid) (l : nat) (x y : Z) : pt :=
  let s := quadSpan g l in
  (eminx (gext g) + x * s + s / 2, eminy (gext g) + y * s + s / 2).

Definition quadAt (g : grid) (l : nat) (x y : Z) : quad :=
  mkQuad x y (quadExtent g l x y) (quadCentroid g l x y).

(** the root keeps the real extent of the tile matrix set, its centroid is computed *)
Definition rootQuad (g : grid) : quad := mkQuad 0 0 (gext g) (quadCentroid g 0 0 0).

(** ** InsertPoint / InsertCoord (after the F2 repair: floorDiv) *)
Definition deepestCoord (g : grid) (p : pt) : Z * Z :=
  ((fst p - eminx (gext g)) / gres g, (snd p - eminy (gext g)) / gres g).

Definition inGridCoord (g : grid) (c : Z * Z) : bool :=
  negb ((fst c <? 0) || (snd c <? 0) || (gsize g - 1 <? fst c) || (gsize g - 1 <? snd c)).

(** the index content: deepest-level addresses of the inserted vertices, in insertion order *)
Definition hotset := list (Z * Z).

Definition insertPoint (g : grid) (hs : hotset) (p : pt) : res hotset :=
  if gres g =? 0 then Err DivZero
  else let c := deepestCoord g p in
       if inGridCoord g c then Ok (hs ++ [c]) else Err OutsideGrid.

Definition insertPolygon (g : grid) (P : list ring) : res hotset :=
  foldM (insertPoint g) (concat P) [].

(** addresses occupied at level l (insertCoord inserts every ancestor) *)
Definition addr_eqb (a b : Z * Z) : bool := (fst a =? fst b) && (snd a =? snd b).
Fixpoint mem_addr (a : Z * Z) (l : list (Z * Z)) : bool :=
  match l with [] => false | b :: r => addr_eqb a b || mem_addr a r end.
Fixpoint dedup_addr (l : list (Z * Z)) : list (Z * Z) :=
  match l with
  | [] => []
  | a :: r => if mem_addr a r then dedup_addr r else a :: dedup_addr r
  end.

Definition hotAt (g : grid) (hs : hotset) (l : nat) : list (Z * Z) :=
  let d := pow2 (gdeep g - l) in
  dedup_addr (map (fun c => (fst c / d, snd c / d)) hs).

(** all levels 0 .. deepest, computed once per polygon *)
Definition hotLevels (g : grid) (hs : hotset) : list (list (Z * Z)) :=
  map (hotAt g hs) (seq 0 (S (gdeep g))).

Definition hotLookup (hots : list (list (Z * Z))) (l : nat) : list (Z * Z) := nth l hots [].

(** ** findIntersectingQuadrants *)
Definition getInfiniteQuadrant (p c : pt) : nat :=
  Nat.add (if fst c <=? fst p then 1%nat else 0%nat) (if snd c <=? snd p then 2%nat else 0%nat).

Definition adjacentQuadrantX (i : nat) : nat :=
  match i with 0 => 1 | 1 => 0 | 2 => 3 | _ => 2 end%nat.
Definition adjacentQuadrantY (i : nat) : nat :=
  match i with 0 => 2 | 1 => 3 | 2 => 0 | _ => 1 end%nat.
Definition quadrantsAreAdjacent (a b : nat) : bool :=
  Nat.eqb (adjacentQuadrantX a) b || Nat.eqb (adjacentQuadrantY a) b.

Definition oneIfRight (i : nat) : Z := match i with 1%nat | 3%nat => 1 | _ => 0 end.
Definition oneIfTop (i : nat) : Z := match i with 2%nat | 3%nat => 1 | _ => 0 end.

Record qtc := mkQtc { qi : nat; qcertain : bool; qmutex : bool }.

Definition quadrantsToCheck (i1 i2 : nat) (in1 in2 : bool) : list qtc :=
  if Nat.eqb i1 i2 then [mkQtc i1 (in1 && in2) false]
  else if quadrantsAreAdjacent i1 i2 then
    [mkQtc i1 (in1 && in2) false; mkQtc i2 (in1 && in2) false]
  else
    [mkQtc i1 in1 false; mkQtc (adjacentQuadrantX i1) false true;
     mkQtc (adjacentQuadrantY i1) false true; mkQtc i2 in2 false].

Fixpoint checkLoop (a b : pt) (has : nat -> option quad) (l : list qtc) (mutexed : bool) : list quad :=
  match l with
  | [] => []
  | q :: r =>
      if qmutex q && mutexed then checkLoop a b has r mutexed
      else match has (qi q) with
           | None => checkLoop a b has r mutexed
           | Some cq =>
               if qcertain q || lineIntersects a b (qext cq)
               then cq :: checkLoop a b has r (mutexed || qmutex q)
               else checkLoop a b has r mutexed
           end
  end.

Definition findIntersectingQuadrants (a b : pt) (has : nat -> option quad) (parent : quad) : list quad :=
  let i1 := getInfiniteQuadrant a (qcen parent) in
  let in1 := containsPoint a (qext parent) in
  let i2 := getInfiniteQuadrant b (qcen parent) in
  let in2 := containsPoint b (qext parent) in
  checkLoop a b has (quadrantsToCheck i1 i2 in1 in2) false.

(** children of [parent] that contain a vertex, by quadrant number *)
Definition childHas (g : grid) (hot : list (Z * Z)) (l : nat) (parent : quad) (i : nat) : option quad :=
  let x := 2 * qx parent + oneIfRight i in
  let y := 2 * qy parent + oneIfTop i in
  if mem_addr (x, y) hot then Some (quadAt g l x y) else None.

(** ** snapClosestPoints: descent from the root to level L *)
Fixpoint descendTo (g : grid) (hots : list (list (Z * Z))) (a b : pt) (L : nat) : list quad :=
  match L with
  | O => [rootQuad g]
  | S L' =>
      flat_map (fun p => findIntersectingQuadrants a b (childHas g (hotLookup hots L) L p) p)
               (descendTo g hots a b L')
  end.

Definition snapClosestQuads (g : grid) (hots : list (list (Z * Z))) (a b : pt) (L : nat) : list quad :=
  if lineIntersects a b (gext g) then descendTo g hots a b L else [].

Definition snapClosestPoints (g : grid) (hots : list (list (Z * Z))) (a b : pt) (L : nat) : list pt :=
  map qcen (snapClosestQuads g hots a b L).

(** ** hit accounting (checkPointHits), per level *)
Definition hitmap := list (pt * list nat).

Fixpoint hm_get (m : hitmap) (p : pt) : list nat :=
  match m with [] => [] | (q, l) :: r => if pt_eqb p q then l else hm_get r p end.

Fixpoint hm_app (m : hitmap) (p : pt) (ringId : nat) : hitmap :=
  match m with
  | [] => [(p, [ringId])]
  | (q, l) :: r => if pt_eqb p q then (q, l ++ [ringId]) :: r else (q, l) :: hm_app r p ringId
  end.

Definition mem_nat (n : nat) (l : list nat) : bool := existsb (Nat.eqb n) l.

Record hits := mkHits { hitOnce : hitmap; hitMultiple : hitmap }.

Definition checkPointHits (st : hits) (v : pt) (ringId : nat) : hits :=
  match hm_get (hitOnce st) v with
  | _ :: _ =>
      if negb (mem_nat ringId (hm_get (hitOnce st) v)) then
        mkHits (hm_app (hitOnce st) v ringId) (hitMultiple st)
      else if negb (mem_nat ringId (hm_get (hitMultiple st) v)) then
        mkHits (hitOnce st) (hm_app (hitMultiple st) v ringId)
      else st
  | [] => mkHits (hm_app (hitOnce st) v ringId) (hitMultiple st)
  end.

(** SnapClosestPoints: centroids for one level plus the hit accounting ("ignore first point") *)
Definition snapAndHit (g : grid) (hots : list (list (Z * Z))) (st : hits) (a b : pt) (L : nat) (ringId : nat)
  : list pt * hits :=
  let pts := snapClosestPoints g hots a b L in
  (pts, fold_left (fun s v => checkPointHits s v ringId) (tl pts) st).
