(** * Gpkg/ProofsGenWriter.v — the REGENERATED GeoPackage target writer equals the model's (tie G2 for C12).

    gen/GpkgWriterGen.v is written by translator/gpkgwriter.go from processing/gpkg/gpkg.go on every run:
    [gen_writeFeatures] (one transaction per page) and [gen_WriteFeatures] (the paging loop on the channel),
    statement by statement.  This file proves, for ALL inputs (errors included):

      gen_writeFeatures tg (idle d) fs = lift_db (flush (tg_Table tg) d fs)
      gen_WriteFeatures tg (idle d) fs = lift_db (write_features (tg_pagesize tg) (tg_Table tg) d fs)

    The code interleaves insert and extent accumulation in ONE loop over the page and talks to the database
    in steps (Begin, Prepare, Exec .., Close, Commit, UpdateGeometryExtent); the model folds [insert_row]
    over the page, computes [page_extent] separately and updates the table once.  The code receives from a
    channel in a [for] loop with [break] (a Fixpoint on fuel); the model folds [recv] over the stream and
    then [close]s.  Both differences are bridged here by induction over the feature list with a loop invariant.

    MODELLED (trusted) — the calls the translator maps, after checking their exact shape in the AST, to the
    operations of Gpkg/WriterOps.v (which are defined from the pieces of Gpkg/Model.v):
      target.handle.Begin() = op_Begin;  tx.Prepare(Table.insertSQL()) = op_Prepare .. (op_insertSQL ..);
      gpkg.NewBinary(int32(srs id), geometry) = op_NewBinary (the blob = that srs id + the geometry);
      stmt.Exec(data...) = op_Exec (= insert_row; a blob whose srs id is not the table's is outside the model);
      stmt.Close() = op_StmtClose;  tx.Commit() = op_Commit;  target.handle.UpdateGeometryExtent = op_UpdateGeometryExtent
      (= merge_extent);  cmp.IsEmptyGeo = op_IsEmptyGeo (= geom_empty);  geom.NewExtentFromGeometry =
      op_NewExtentFromGeometry;  ext.AddGeometry = op_AddGeometry;  Feature.Geometry()/Columns() = f_geom / op_Columns;
      log.Fatalf / log.Fatalln(.., err) = the process ends with that error;  log.Println = nothing;
      a receive from the channel = taking the head of the list of values sent before it is closed.
    For the SQL texts (second part): strings.Join = String.concat; fmt.Sprintf with one %v of a string = the text
    around the verb and the string; the Go ints column.notnull / column.pk = Z.b2z (c_notnull ..) / Z.of_N (c_pk ..);
    strings.ReplaceAll with a one-byte ASCII text to replace = op_ReplaceAll1 (every such byte).  [quoteIdentifier] (fix
    a631213, F20) is REGENERATED from its body and proved equal to [quote_ident]; the last part shows that SQL's reading
    of a quoted identifier ([read_ident]) gives the name back, for every name. *)
From Coq Require Import ZArith NArith List Bool String Ascii Lia.
From Texel Require Import Gpkg.Model Gpkg.Proofs Gpkg.WriterOps.
From Texel.Gen Require Import GpkgWriterGen.
Import ListNotations.
Open Scope Z_scope.

(** ** Small facts about the Go-level helpers *)

Lemma zlen_nonneg : forall A (l : list A), 0 <= zlen l.
Proof. intros; unfold zlen; lia. Qed.

Lemma slice3_full : forall A (l : list A), slice3 l 0 (zlen l) (zlen l) = WOk l.
Proof.
  intros A l. unfold slice3. pose proof (zlen_nonneg A l) as H.
  replace (0 <? 0) with false by reflexivity.
  replace (zlen l <? 0) with false by (symmetry; apply Z.ltb_ge; lia).
  replace (zlen l <? zlen l) with false by (symmetry; apply Z.ltb_irrefl).
  cbn [orb]. f_equal. rewrite Z.sub_0_r. cbn [Z.to_nat skipn]. unfold zlen. rewrite Nat2Z.id.
  apply firstn_all.
Qed.

Lemma split_args_columns : forall attrs (g : blob), split_args (map AVal attrs ++ [ABin g]) = Some (attrs, g).
Proof.
  induction attrs as [|a attrs IH]; intros g; [reflexivity|].
  cbn [map app split_args]. now rewrite IH.
Qed.

(** ** One page: the loop of writeFeatures *)

(** what one iteration does to (world, page extent) while a statement for [t] is prepared on table state [ts] *)
Definition page_world (d : db) (o : bool) (t : table) (ts : tabstate) (dirty : bool) : world :=
  MkWorld d o (Some (t, ts)) true dirty.

Section Page.
Variable tg : target.

(** any loop body that does, per feature, what [insert_row] and [page_step] do *)
Definition body_ok (body : feature -> world * option ext -> wres (lctl (world * option ext))) : Prop :=
  forall f d o ts dirty e,
  body f (page_world d o (tg_Table tg) ts dirty, e) =
  match insert_row (tg_Table tg) ts f with
  | Ok ts' => WOk (Cont (page_world d o (tg_Table tg) ts' true, page_step e (f_geom f)))
  | Err x => WErr (Model x)
  end.

Lemma page_loop_spec : forall body, body_ok body -> forall fs d o ts dirty e,
  wrange_loop body fs (page_world d o (tg_Table tg) ts dirty, e) =
  match foldM (insert_row (tg_Table tg)) fs ts with
  | Ok ts' => WOk (page_world d o (tg_Table tg) ts' (dirty || match fs with [] => false | _ => true end),
                   fold_left page_step (map f_geom fs) e)
  | Err x => WErr (Model x)
  end.
Proof.
  intros body Hb. induction fs as [|f fs IH]; intros d o ts dirty e.
  - cbn [wrange_loop foldM map fold_left]. now rewrite orb_false_r.
  - cbn [wrange_loop foldM map fold_left]. rewrite Hb.
    destruct (insert_row (tg_Table tg) ts f) as [ts'|x]; cbn [bind]; [|reflexivity].
    rewrite IH. destruct (foldM (insert_row (tg_Table tg)) fs ts'); [|reflexivity].
    rewrite orb_true_r. destruct fs; reflexivity.
Qed.

(** ** writeFeatures = flush *)
Theorem gen_writeFeatures_flush : forall d fs,
  gen_writeFeatures tg (idle d) fs = lift_db (flush (tg_Table tg) d fs).
Proof.
  intros d fs. unfold gen_writeFeatures.
  unfold idle at 1, op_Begin. cbn [wd_open wd_db wd_prepared is_nil negb].
  unfold op_Prepare, op_insertSQL. cbn [wd_open wd_db wd_dirty negb].
  unfold flush.
  destruct (find_tab (t_name (tg_Table tg)) (db_tabs d)) as [ts|] eqn:F; [|reflexivity].
  cbn [is_nil negb].
  change (MkWorld d true (Some (tg_Table tg, ts)) true false) with (page_world d true (tg_Table tg) ts false).
  match goal with |- context [wrange_loop ?b] => set (body := b) end.
  assert (Hb : body_ok body).
  { intros [attrs g] d0 o ts0 dirty e. subst body. unfold page_world. cbv beta iota.
    cbn [f_geom f_attrs]. unfold op_NewBinary.
    destruct (geom_known g) eqn:K.
    2:{ cbn [is_nil negb fatal]. unfold insert_row. cbn [f_geom]. rewrite K. reflexivity. }
    cbn [is_nil negb]. unfold op_Columns. cbn [f_attrs].
    rewrite slice3_full. cbn [wbind].
    unfold op_Exec. cbn [wd_prepared negb wd_pend]. rewrite split_args_columns.
    rewrite Z.eqb_refl. cbn [negb]. set (t := tg_Table tg).
    destruct (insert_row t ts0 (MkFeature attrs g)) as [ts'|x] eqn:E.
    2:{ cbn [is_nil negb fatal].
        match goal with |- (if 0 <? zlen ?data then _ else _) = _ => destruct data as [|a l] end; [reflexivity|].
        replace (0 <? zlen (a :: l)) with true
          by (symmetry; apply Z.ltb_lt; unfold zlen; cbn [List.length]; lia).
        reflexivity. }
    cbn [is_nil negb wd_db wd_open wd_prepared]. unfold op_IsEmptyGeo, page_step.
    destruct (geom_empty g); [reflexivity|].
    destruct e as [x|]; cbn [is_nil].
    - reflexivity.
    - unfold op_NewExtentFromGeometry. rewrite K. cbn [is_nil negb]. reflexivity. }
  rewrite (page_loop_spec body Hb). fold (page_extent fs).
  destruct (foldM (insert_row (tg_Table tg)) fs ts) as [ts1|x] eqn:E; cbn [bind wbind lift_db]; [|reflexivity].
  assert (N1 : tab_name ts1 = t_name (tg_Table tg)).
  { unfold tab_name. rewrite (insert_rows_desc _ _ _ _ E). exact (find_tab_name _ _ _ F). }
  unfold page_world, op_StmtClose. cbn [wd_db wd_open wd_pend wd_dirty wd_prepared].
  unfold op_Commit. cbn [wd_db wd_open wd_pend wd_dirty wd_prepared negb orb].
  unfold op_UpdateGeometryExtent.
  destruct (page_extent fs) as [pe|] eqn:P.
  - cbn [wd_db db_tabs db_srs db_txs db_writes wd_open wd_pend wd_prepared wd_dirty].
    rewrite (find_replace_same _ _ _ _ F N1). cbn [is_nil negb].
    rewrite (replace_replace _ _ _ _ N1). unfold idle.
    destruct fs; reflexivity.
  - cbn [is_nil negb]. unfold idle. destruct ts1 as [de ro ex rt]. cbn [ts_desc ts_rows ts_extent ts_rtree merge_extent].
    rewrite N.add_0_r. destruct fs; reflexivity.
Qed.

(** ** WriteFeatures = write_features: the receive loop against [foldM recv] + [close] *)

(** invariant: the local [features] is the model's buffer, the world is idle on the model's database; the fuel
    covers the rest of the stream and the final receive on the closed channel *)
Lemma write_loop_spec : forall ch fuel d buf,
  (List.length ch < fuel)%nat ->
  gen_WriteFeatures_loop1 tg fuel (idle d) ch buf =
  match foldM recv ch (MkWriter (tg_pagesize tg) (tg_Table tg) buf d) with
  | Ok w => match close w with
            | Ok d' => WOk (idle d', [], w_buf w)
            | Err x => WErr (Model x)
            end
  | Err x => WErr (Model x)
  end.
Proof.
  induction ch as [|f ch IH]; intros fuel d buf Hf; (destruct fuel as [|fuel]; [cbn [List.length] in Hf; lia|]).
  - cbn [gen_WriteFeatures_loop1 chan_recv negb foldM bind]. unfold close. cbn [w_table w_db w_buf].
    rewrite gen_writeFeatures_flush.
    destruct (flush (tg_Table tg) d buf); reflexivity.
  - cbn [gen_WriteFeatures_loop1 chan_recv negb foldM].
    unfold recv at 1. cbn [w_buf w_p w_table w_db]. unfold go_rem.
    change (zlen (buf ++ [f])) with (Z.of_nat (List.length (buf ++ [f]))).
    destruct (tg_pagesize tg =? 0) eqn:P0; [reflexivity|]. cbn [wbind].
    assert (Hf' : (List.length ch < fuel)%nat) by (cbn [List.length] in Hf; lia).
    destruct (Z.rem (Z.of_nat (List.length (buf ++ [f]))) (tg_pagesize tg) =? 0).
    + rewrite gen_writeFeatures_flush.
      destruct (flush (tg_Table tg) d (buf ++ [f])) as [d1|x]; cbn [lift_db wbind bind]; [|reflexivity].
      apply (IH fuel d1 [] Hf').
    + cbn [bind]. apply (IH fuel d (buf ++ [f]) Hf').
Qed.

Theorem gen_WriteFeatures_write_features : forall d fs,
  gen_WriteFeatures tg (idle d) fs = lift_db (write_features (tg_pagesize tg) (tg_Table tg) d fs).
Proof.
  intros d fs. unfold gen_WriteFeatures, write_features.
  rewrite write_loop_spec by (cbn [List.length]; lia).
  destruct (foldM recv fs (MkWriter (tg_pagesize tg) (tg_Table tg) [] d)) as [w|x]; cbn [bind]; [|reflexivity].
  destruct (close w); reflexivity.
Qed.

End Page.

(** ** the srs id in the blob header.  [op_NewBinary] records its first argument in the blob; [op_Exec] only accepts a blob
    whose header srs id is int32 of the srs id of the table the statement was prepared for (anything else is reported as
    outside the model).  The equalities above never produce that report, so every blob the code hands to stmt.Exec
    carries the table's srs id. *)
Lemma new_binary_srs : forall srsid g, fst (op_NewBinary srsid g) = (srsid, g).
Proof. intros srsid g. unfold op_NewBinary. now destruct (geom_known g). Qed.

Lemma exec_blob_srs : forall w st data w',
  op_Exec w st data = (w', (tt, None)) ->
  exists t ts attrs g, wd_pend w = Some (t, ts) /\
    split_args data = Some (attrs, (go_int32 (s_id (t_srs t)), g)) /\
    exists ts', insert_row t ts (MkFeature attrs g) = Ok ts' /\ wd_pend w' = Some (t, ts').
Proof.
  intros w st data w' H. unfold op_Exec in H.
  destruct (wd_prepared w); cbn [negb] in H; [|discriminate H].
  destruct (wd_pend w) as [[t ts]|]; [|discriminate H].
  destruct (split_args data) as [[attrs [sid g]]|]; [|discriminate H].
  destruct (Z.eqb_spec sid (go_int32 (s_id (t_srs t)))) as [->|_]; cbn [negb] in H; [|discriminate H].
  destruct (insert_row t ts (MkFeature attrs g)) as [ts'|x] eqn:E; [|discriminate H].
  injection H as <-. exists t, ts, attrs, g. split; [reflexivity|]. split; [reflexivity|].
  exists ts'. split; [exact E|reflexivity].
Qed.

(** the tie, both functions, every input *)
Theorem source_tie_writer : forall tg d fs,
  gen_WriteFeatures tg (idle d) fs = lift_db (write_features (tg_pagesize tg) (tg_Table tg) d fs) /\
  gen_writeFeatures tg (idle d) fs = lift_db (flush (tg_Table tg) d fs).
Proof. intros; split; [apply gen_WriteFeatures_write_features | apply gen_writeFeatures_flush]. Qed.

Theorem source_tie_writer_srs :
  (forall srsid g, fst (op_NewBinary srsid g) = (srsid, g)) /\
  (forall w st data w', op_Exec w st data = (w', (tt, None)) ->
     exists t ts attrs g, wd_pend w = Some (t, ts) /\
       split_args data = Some (attrs, (go_int32 (s_id (t_srs t)), g)) /\
       exists ts', insert_row t ts (MkFeature attrs g) = Ok ts' /\ wd_pend w' = Some (t, ts')).
Proof. split; [exact new_binary_srs|exact exec_blob_srs]. Qed.

(** ** The SQL texts: createSQL / selectSQL / insertSQL regenerated as functions to [string] *)

Lemma wrange_loop_pure : forall A S (body : A -> S -> wres (lctl S)) (f : S -> A -> S),
  (forall x s, body x s = WOk (Cont (f s x))) ->
  forall l s, wrange_loop body l s = WOk (fold_left f l s).
Proof.
  intros A S body f H. induction l as [|x l IH]; intros s; cbn [wrange_loop fold_left]; [reflexivity|].
  rewrite H. apply IH.
Qed.

Lemma fold_snoc_map : forall A B (g : A -> B) l acc,
  fold_left (fun s x => s ++ [g x]) l acc = acc ++ map g l.
Proof.
  induction l as [|x l IH]; intros acc; cbn [fold_left map]; [now rewrite app_nil_r|].
  rewrite IH, <- app_assoc. reflexivity.
Qed.

Lemma go_pk_one : forall c, (go_pk c =? 1) = N.eqb (c_pk c) 1.
Proof.
  intros c. unfold go_pk. destruct (N.eqb_spec (c_pk c) 1) as [->|H]; [reflexivity|].
  apply Z.eqb_neq. lia.
Qed.

Lemma go_notnull_one : forall c, (go_notnull c =? 1) = c_notnull c.
Proof. intros c. unfold go_notnull. destruct (c_notnull c); reflexivity. Qed.

(** quoteIdentifier: the name in double quotes, every double quote in it doubled *)
Lemma replace_dquote : forall s, op_ReplaceAll1 s dquote """""" = double_quotes s.
Proof.
  induction s as [|c r IH]; [reflexivity|]. cbn [op_ReplaceAll1 double_quotes].
  destruct (Ascii.eqb_spec c dquote) as [->|_]; rewrite IH; reflexivity.
Qed.

Theorem gen_quoteIdentifier_spec : forall s, gen_quoteIdentifier s = WOk (quote_ident s).
Proof.
  intros s. unfold gen_quoteIdentifier, quote_ident. fold dquote. rewrite replace_dquote. reflexivity.
Qed.

(** the CREATE TABLE text declares exactly the columns of the model's table description [desc_of t]
    (quoted name, type, NOT NULL, PRIMARY KEY only for pk = 1) *)
Lemma col_sql_norm : forall c, col_sql (norm_col c) = col_sql c.
Proof.
  intros c. unfold col_sql, norm_col. cbn [c_name c_type c_notnull c_pk].
  destruct (N.eqb (c_pk c) 1); reflexivity.
Qed.

Theorem gen_createSQL_spec : forall t,
  gen_createSQL t =
  WOk (String.append (String.append (String.append
         (String.append "CREATE TABLE IF NOT EXISTS """ (String.append (t_name t) """")) "(")
         (String.concat ", " (map col_sql (td_cols (desc_of t))))) ");").
Proof.
  intros t. unfold gen_createSQL.
  rewrite (wrange_loop_pure _ _ _ (fun s c => s ++ [col_sql c])).
  2:{ intros c s. cbv beta zeta. rewrite gen_quoteIdentifier_spec. cbn [wbind].
      rewrite go_pk_one, go_notnull_one. unfold col_sql.
      destruct (c_notnull c); destruct (N.eqb (c_pk c) 1); reflexivity. }
  cbn [wbind]. rewrite fold_snoc_map. cbn [app].
  unfold desc_of. cbn [td_cols]. rewrite map_map.
  rewrite (map_ext _ _ col_sql_norm). reflexivity.
Qed.

Theorem gen_selectSQL_spec : forall t,
  gen_selectSQL t =
  WOk (String.append (String.append (String.append (String.append "SELECT "
         (String.concat "," (select_columns_sql t))) " FROM """) (t_name t)) """;").
Proof.
  intros t. unfold gen_selectSQL.
  rewrite (wrange_loop_pure _ _ _ (fun s c => s ++ [quote_ident (c_name c)])).
  2:{ intros c s. cbv beta zeta. rewrite gen_quoteIdentifier_spec. reflexivity. }
  cbn [wbind]. rewrite fold_snoc_map. unfold select_columns_sql. rewrite map_map. reflexivity.
Qed.

Lemma fold_insert_cols : forall gcol l a b,
  fold_left (fun (s : list string * list string) (c : column) =>
               if negb (String.eqb (c_name c) gcol) then (fst s ++ [quote_ident (c_name c)], snd s ++ ["?"%string]) else s) l (a, b) =
  (a ++ map quote_ident (map c_name (filter (fun c => negb (String.eqb (c_name c) gcol)) l)),
   b ++ repeat "?"%string (List.length (filter (fun c => negb (String.eqb (c_name c) gcol)) l))).
Proof.
  induction l as [|c l IH]; intros a b; cbn [fold_left filter].
  - cbn [map List.length repeat]. now rewrite !app_nil_r.
  - destruct (negb (String.eqb (c_name c) gcol)).
    + cbn [fst snd]. rewrite IH. cbn [map List.length repeat]. now rewrite <- !app_assoc.
    + apply IH.
Qed.

Lemma repeat_snoc : forall A (x : A) n, repeat x n ++ [x] = repeat x (S n).
Proof. induction n as [|n IH]; cbn [repeat app]; [reflexivity|]. now rewrite IH. Qed.

(** the INSERT text names [insert_columns t], each as a quoted identifier, and has one placeholder per name *)
Theorem gen_insertSQL_spec : forall t,
  gen_insertSQL t =
  WOk (String.append (String.append (String.append (String.append (String.append (String.append
         "INSERT INTO """ (t_name t)) """(") (String.concat "," (insert_columns_sql t))) ") VALUES(")
         (String.concat "," (repeat "?"%string (List.length (insert_columns t))))) ")").
Proof.
  intros t. unfold gen_insertSQL.
  rewrite (wrange_loop_pure _ _ _ (fun s c =>
     if negb (String.eqb (c_name c) (t_gcol t)) then (fst s ++ [quote_ident (c_name c)], snd s ++ ["?"%string]) else s)).
  2:{ intros c [a b]. cbv beta iota zeta. cbn [fst snd]. destruct (negb (String.eqb (c_name c) (t_gcol t))); [|reflexivity].
      rewrite gen_quoteIdentifier_spec. reflexivity. }
  cbn [wbind]. rewrite fold_insert_cols. cbn [app]. rewrite gen_quoteIdentifier_spec. cbn [wbind].
  unfold insert_columns_sql, insert_columns, attr_cols. rewrite repeat_snoc, app_length, map_length, map_app. cbn [List.length map].
  rewrite Nat.add_1_r. reflexivity.
Qed.

(** ** SQL's reading of a quoted identifier gives the name back *)

Lemma sapp_assoc : forall a b c : string, String.append (String.append a b) c = String.append a (String.append b c).
Proof. induction a as [|x a IH]; intros b c; cbn [String.append]; [reflexivity|]. now rewrite IH. Qed.

Lemma sapp_nil_r : forall a : string, String.append a EmptyString = a.
Proof. induction a as [|x a IH]; cbn [String.append]; [reflexivity|]. now rewrite IH. Qed.

(** the text after the closing quote does not go on with another double quote (in the SQL texts: a comma, a space, a
    parenthesis or the end) *)
Definition no_dquote_head (rest : string) : Prop :=
  match rest with String c _ => Ascii.eqb c dquote = false | EmptyString => True end.

Lemma read_body_quoted : forall s rest, no_dquote_head rest ->
  read_ident_body (String.append (double_quotes s) (String dquote rest)) = Some (s, rest).
Proof.
  induction s as [|c r IH]; intros rest H.
  - cbn [double_quotes String.append read_ident_body]. rewrite Ascii.eqb_refl.
    destruct rest as [|c2 r2]; [reflexivity|]. cbn [no_dquote_head] in H. now rewrite H.
  - cbn [double_quotes]. destruct (Ascii.eqb_spec c dquote) as [->|Hc].
    + cbn [String.append read_ident_body]. rewrite Ascii.eqb_refl. rewrite (IH rest H). reflexivity.
    + cbn [String.append read_ident_body].
      destruct (Ascii.eqb_spec c dquote) as [E|_]; [contradiction|]. rewrite (IH rest H). reflexivity.
Qed.

Theorem read_quoted_ident : forall s rest, no_dquote_head rest ->
  read_ident (String.append (quote_ident s) rest) = Some (s, rest).
Proof.
  intros s rest H. unfold quote_ident. cbn [String.append read_ident]. rewrite Ascii.eqb_refl.
  rewrite sapp_assoc. cbn [String.append]. now apply read_body_quoted.
Qed.

Theorem unquote_quote_ident : forall s, unquote_ident (quote_ident s) = Some s.
Proof.
  intros s. unfold unquote_ident. rewrite <- (sapp_nil_r (quote_ident s)).
  rewrite (read_quoted_ident s EmptyString I). reflexivity.
Qed.

Theorem quote_ident_injective : forall a b, quote_ident a = quote_ident b -> a = b.
Proof.
  intros a b H. pose proof (unquote_quote_ident a) as Ha. rewrite H, unquote_quote_ident in Ha. now injection Ha.
Qed.

(** a comma-separated list of quoted names -- the column lists of the SELECT and INSERT texts -- reads back as exactly
    these names, whatever characters they contain (commas, quotes, spaces, keywords ..) *)
Theorem quoted_names_read_back : forall names fuel, names <> [] -> (List.length names <= fuel)%nat ->
  read_ident_list fuel ","%char (String.concat "," (map quote_ident names)) = Some names.
Proof.
  induction names as [|x names IH]; intros fuel Hne Hf; [now exfalso|].
  destruct fuel as [|fuel]; [cbn [List.length] in Hf; lia|]. cbn [List.length] in Hf.
  destruct names as [|y names].
  - cbn [map String.concat read_ident_list]. rewrite <- (sapp_nil_r (quote_ident x)).
    rewrite (read_quoted_ident x EmptyString I). reflexivity.
  - change (String.concat "," (map quote_ident (x :: y :: names)))
      with (String.append (quote_ident x) (String.append "," (String.concat "," (map quote_ident (y :: names))))).
    cbn [read_ident_list]. cbn [String.append].
    rewrite read_quoted_ident by reflexivity.
    rewrite Ascii.eqb_refl. rewrite IH; [reflexivity|discriminate|cbn [List.length] in *; lia].
Qed.

Lemma insert_columns_nonempty : forall t, insert_columns t <> [].
Proof. intros t. unfold insert_columns. destruct (map c_name (attr_cols t)); discriminate. Qed.

(** ** the model's row layout [weave] IS what that INSERT does: every table column gets the value listed under its
    name, when the values are the feature's attribute values followed by the geometry *)

Local Notation nong gcol := (fun c : column => negb (String.eqb (c_name c) gcol)).

Lemma lookup_skip : forall pn pv ns vs n, List.length pn = List.length pv -> ~ In n pn ->
  lookup_by_name (pn ++ ns) (pv ++ vs) n = lookup_by_name ns vs n.
Proof.
  induction pn as [|x pn IH]; intros [|v pv] ns vs n L H; try discriminate L; [reflexivity|].
  cbn [app lookup_by_name]. destruct (String.eqb_spec x n) as [->|_].
  - exfalso. apply H. now left.
  - apply IH; [now injection L|]. intros I. apply H. now right.
Qed.

Lemma lookup_last : forall ns vs n v, List.length ns = List.length vs -> ~ In n ns ->
  lookup_by_name (ns ++ [n]) (vs ++ [v]) n = Some v.
Proof.
  intros ns vs n v L H. rewrite (lookup_skip ns vs [n] [v] n L H). cbn [lookup_by_name].
  now rewrite String.eqb_refl.
Qed.

Lemma not_in_attr_names : forall gcol cols, ~ In gcol (map c_name (filter (nong gcol) cols)).
Proof.
  intros gcol cols I. apply in_map_iff in I. destruct I as [c [E I]]. apply filter_In in I.
  destruct I as [_ I]. rewrite E, String.eqb_refl in I. discriminate.
Qed.

Lemma weave_by_name_gen : forall cols pn pv attrs gcol g,
  List.length pn = List.length pv ->
  NoDup (pn ++ map c_name cols) -> ~ In gcol pn ->
  List.length attrs = List.length (filter (nong gcol) cols) ->
  sql_row_of cols (pn ++ map c_name (filter (nong gcol) cols) ++ [gcol]) (pv ++ map CVal attrs ++ [CGeom g]) =
  weave cols gcol attrs g.
Proof.
  induction cols as [|c cols IH]; intros pn pv attrs gcol g L ND NG LA.
  - cbn [filter List.length] in LA. destruct attrs; [reflexivity|discriminate].
  - cbn [sql_row_of weave filter]. cbn [filter] in LA. cbn [map] in ND.
    assert (NDc : NoDup (pn ++ map c_name cols)) by (eapply NoDup_remove_1; exact ND).
    assert (NIc : ~ In (c_name c) pn).
    { intros I. apply NoDup_remove_2 in ND. apply ND. apply in_or_app. now left. }
    destruct (String.eqb_spec (c_name c) gcol) as [E|E]; cbn [negb] in *.
    + (* the geometry column: its name is the last one listed *)
      rewrite E. rewrite !app_assoc.
      rewrite lookup_last.
      2:{ rewrite !app_length, !map_length. lia. }
      2:{ intros I. apply in_app_or in I. destruct I as [I|I]; [now apply NG|]. now apply (not_in_attr_names gcol cols). }
      rewrite <- !app_assoc. rewrite (IH pn pv attrs gcol g L NDc NG LA).
      destruct (weave cols gcol attrs g); reflexivity.
    + destruct attrs as [|a attrs]; [discriminate LA|]. cbn [List.length] in LA. injection LA as LA.
      cbn [map app]. rewrite (lookup_skip pn pv _ _ _ L NIc). cbn [lookup_by_name]. rewrite String.eqb_refl.
      specialize (IH (pn ++ [c_name c]) (pv ++ [CVal a]) attrs gcol g).
      rewrite <- !app_assoc in IH. cbn [app] in IH. rewrite IH.
      * destruct (weave cols gcol attrs g); reflexivity.
      * rewrite !app_length. cbn [List.length]. lia.
      * exact ND.
      * intros I. apply in_app_or in I. destruct I as [I|[I|[]]]; [now apply NG|]. now apply E.
      * exact LA.
Qed.

Lemma weave_none : forall cols gcol attrs g,
  List.length attrs <> List.length (filter (nong gcol) cols) -> weave cols gcol attrs g = None.
Proof.
  induction cols as [|c cols IH]; intros gcol attrs g H; cbn [weave].
  - destruct attrs; [now exfalso; apply H|reflexivity].
  - cbn [filter] in H. destruct (String.eqb (c_name c) gcol); cbn [negb] in H.
    + now rewrite IH.
    + destruct attrs as [|a attrs]; [reflexivity|]. rewrite IH; [reflexivity|].
      cbn [List.length] in H. lia.
Qed.

Theorem weave_is_insert_by_name : forall t attrs g,
  NoDup (map c_name (t_cols t)) ->
  weave (t_cols t) (t_gcol t) attrs g =
  sql_insert_row (t_cols t) (insert_columns t) (map CVal attrs ++ [CGeom g]).
Proof.
  intros t attrs g ND. unfold sql_insert_row, insert_columns, attr_cols.
  rewrite !app_length, !map_length. cbn [List.length].
  destruct (Nat.eqb_spec (List.length (filter (nong (t_gcol t)) (t_cols t)) + 1) (List.length attrs + 1)) as [E|E].
  - symmetry. apply (weave_by_name_gen (t_cols t) [] [] attrs (t_gcol t) g); [reflexivity|exact ND|intros []|lia].
  - apply weave_none. lia.
Qed.

Theorem source_tie_sql :
  (forall t, gen_createSQL t =
     WOk (String.append (String.append (String.append
            (String.append "CREATE TABLE IF NOT EXISTS """ (String.append (t_name t) """")) "(")
            (String.concat ", " (map col_sql (td_cols (desc_of t))))) ");")) /\
  (forall t, gen_selectSQL t =
     WOk (String.append (String.append (String.append (String.append "SELECT "
            (String.concat "," (select_columns_sql t))) " FROM """) (t_name t)) """;")) /\
  (forall t, gen_insertSQL t =
     WOk (String.append (String.append (String.append (String.append (String.append (String.append
            "INSERT INTO """ (t_name t)) """(") (String.concat "," (insert_columns_sql t))) ") VALUES(")
            (String.concat "," (repeat "?"%string (List.length (insert_columns t))))) ")")) /\
  (forall t attrs g, NoDup (map c_name (t_cols t)) ->
     weave (t_cols t) (t_gcol t) attrs g =
     sql_insert_row (t_cols t) (insert_columns t) (map CVal attrs ++ [CGeom g])) /\
  (forall s, gen_quoteIdentifier s = WOk (quote_ident s)) /\
  (forall t, read_ident_list (List.length (insert_columns t)) ","%char (String.concat "," (insert_columns_sql t)) =
             Some (insert_columns t)) /\
  (forall t, t_cols t <> [] ->
     read_ident_list (List.length (t_cols t)) ","%char (String.concat "," (select_columns_sql t)) = Some (map c_name (t_cols t))).
Proof.
  split; [exact gen_createSQL_spec|]. split; [exact gen_selectSQL_spec|].
  split; [exact gen_insertSQL_spec|]. split; [exact weave_is_insert_by_name|].
  split; [exact gen_quoteIdentifier_spec|]. split.
  - intros t. apply quoted_names_read_back; [apply insert_columns_nonempty|apply Nat.le_refl].
  - intros t H. unfold select_columns_sql. apply quoted_names_read_back.
    + intros E. apply H. now destruct (t_cols t).
    + now rewrite map_length.
Qed.

Theorem quoted_identifiers :
  (forall s rest, no_dquote_head rest -> read_ident (String.append (quote_ident s) rest) = Some (s, rest)) /\
  (forall s, unquote_ident (quote_ident s) = Some s) /\
  (forall a b, quote_ident a = quote_ident b -> a = b) /\
  (forall names fuel, names <> [] -> (List.length names <= fuel)%nat ->
     read_ident_list fuel ","%char (String.concat "," (map quote_ident names)) = Some names).
Proof.
  split; [exact read_quoted_ident|]. split; [exact unquote_quote_ident|].
  split; [exact quote_ident_injective|exact quoted_names_read_back].
Qed.
