(** * Gpkg/Model.v — executable model of the GeoPackage target writer
      /repo/processing/gpkg/gpkg.go (C12; reused by the CLI composition of C13).

    Definitions only (FRAMEWORK.md).  Proofs are in Gpkg/Proofs.v.

    What is MODELLED rather than verified (held to the code by Corr/C12.v on every run):
    SQLite, go-sqlite3, the GeoPackage library github.com/go-spatial/geom/encoding/gpkg
    ([Open], [UpdateSRS], [AddGeometryTable] and its rtree triggers, [UpdateGeometryExtent],
    [NewBinary]) and the `verif` stand-in for SpatiaLite's ST_IsEmpty/ST_Min*/ST_Max*.  Their
    combined effect is the abstract database [db] below:

    - a file holds the rows of gpkg_spatial_ref_sys ([db_srs]) and, per registered feature table,
      its description (user table columns + gpkg_contents + gpkg_geometry_columns rows), its rows in
      rowid order, the extent recorded in gpkg_contents, and the rtree entries;
    - [db_txs] counts the transactions begun and committed by [writeFeatures] (one per page, the
      final one possibly EMPTY: no row, no extent update);
    - [db_writes] counts the transactions that change the file (what the SQLite file change counter
      shows): the INSERT transaction of a non-empty page, and the UPDATE of gpkg_contents when the page
      has an extent that changes the recorded one (SQLite does not rewrite an identical record).

    Source lines refer to processing/gpkg/gpkg.go at the pinned tree + fix commits c3f647a, 16e3a13,
    e2006e7, 574d563 / 4dc32dc / a631213 (F18-F20: BOOLEAN cells read, blob cells stay blobs, column names quoted) (empty geometries are skipped when the page extent is accumulated; the geometry is appended
    to a capped copy of the columns slice; the source's srs row overwrites a row the target already has). *)
From Coq Require Import ZArith NArith List Bool String.
Import ListNotations.
Open Scope Z_scope.

(** ** Results.  [log.Fatalf] / panics of the writer are explicit error values. *)
Inductive gerr :=
| DivZero            (* :216  len(features) % target.pagesize  with pagesize = 0 *)
| UnknownGeometry    (* :238  gpkg.NewBinary fails (nil / unknown geometry): log.Fatalf *)
| ArgCount           (* :246  stmt.Exec: number of values differs from the number of '?' : log.Fatalf *)
| NoSuchTable        (* :229  tx.Prepare on a table that does not exist: log.Fatalf *)
| NoSuchColumn       (* AddGeometryTable "unknown table or field" / Prepare on an unknown column *)
| TableExists        (* AddGeometryTable: CREATE VIRTUAL TABLE rtree_<t>_<c> on an existing name *)
| NoPrimaryKey.      (* AddGeometryTable: SELECT name FROM pragma_table_info WHERE pk = 1 finds no row *)

Inductive res (A : Type) := Ok (a : A) | Err (e : gerr).
Arguments Ok {A} a.
Arguments Err {A} e.

Definition bind {A B} (r : res A) (f : A -> res B) : res B :=
  match r with Ok a => f a | Err e => Err e end.
Notation "'do' x <- r ; k" := (bind r (fun x => k)) (at level 200, x pattern, r at level 100, k at level 200).

Fixpoint foldM {A S} (f : S -> A -> res S) (l : list A) (s : S) : res S :=
  match l with
  | [] => Ok s
  | a :: r => do s' <- f s a; foldM f r s'
  end.

(** ** Data *)

(** attribute values as SQLite hands them to [ReadFeatures] and takes them from [stmt.Exec].
    A Go [bool] (what go-sqlite3 hands over for an integer cell of a column declared BOOLEAN; passed on by ReadFeatures
    since fix 574d563, F18) is not a value of its own here: nothing between the reader and stmt.Exec looks at an attribute
    value, and the driver binds true / false as the integers 1 / 0, so it is represented by [VInt 1] / [VInt 0]
    ([value_of_bool], Gpkg/SchemaOps.v). *)
Inductive value :=
| VNull
| VInt (z : Z)        (* int64 *)
| VReal (q : Z)       (* float64; the harness uses the exactly representable q/8 *)
| VText (s : N)       (* string: a TEXT value, identified by an abstract id of its content *)
| VBlob (b : N)       (* []uint8: a BLOB value (a blob in an ATTRIBUTE column; the geometry is [CGeom]), identified by an
                         abstract id of its content.  Distinct from the text with the same bytes: SQLite stores a storage
                         class with every value (typeof), and the driver binds a string as TEXT and a []byte as BLOB.
                         ReadFeatures hands a blob cell on as []byte since fix 4dc32dc (F19); before, as string(bytes):
                         the targets received TEXT *)
| VTime (ns : Z).     (* time.Time (what the driver hands over for a column declared DATE / DATETIME / TIMESTAMP):
                         the INSTANT, in nanoseconds since the Unix epoch -- the text layout in the file is the
                         driver's, not the source's, and is not part of the value *)

Definition pt := (Z * Z)%type.

(** A geometry: the type tag, ALL its coordinates in [geom.getCoordinates] order, and an identity
    standing for its exact shape.  Coordinates are integers (the harness uses small integers, exact in
    float64).  [g_pts = []] is what [cmp.IsEmptyGeo] calls empty: no coordinate at all (LINESTRING
    EMPTY, POLYGON EMPTY, ...) or only NaN coordinates (POINT EMPTY = (NaN,NaN)); geometries mixing NaN
    and finite coordinates are outside the model.  [g_kind = 0] is a geometry [gpkg.NewBinary]
    cannot encode (nil, unknown type). *)
Record geom := MkGeom { g_kind : N; g_pts : list pt; g_id : N }.

Definition geom_empty (g : geom) : bool := match g_pts g with [] => true | _ => false end.
Definition geom_known (g : geom) : bool := negb (N.eqb (g_kind g) 0).

(** [processing.Feature]: Columns() (attribute values, geometry column left out, table column order
    -- ReadFeatures :107-135) and Geometry() *)
Record feature := MkFeature { f_attrs : list value; f_geom : geom }.

(** [geom.Extent] = [minx, miny, maxx, maxy] *)
Record ext := MkExt { xmin : Z; ymin : Z; xmax : Z; ymax : Z }.

Definition ext_pt (p : pt) : ext := MkExt (fst p) (snd p) (fst p) (snd p).

(** Extent.AddPoints (bbox.go:132): math.Min / math.Max per coordinate *)
Definition ext_add_pt (e : ext) (p : pt) : ext :=
  MkExt (Z.min (fst p) (xmin e)) (Z.min (snd p) (ymin e)) (Z.max (fst p) (xmax e)) (Z.max (snd p) (ymax e)).

(** Extent.Add (bbox.go:121) *)
Definition ext_union (a b : ext) : ext :=
  MkExt (Z.min (xmin a) (xmin b)) (Z.min (ymin a) (ymin b)) (Z.max (xmax a) (xmax b)) (Z.max (ymax a) (ymax b)).

(** geom.NewExtentFromGeometry (bbox.go:229): nil for no points, else start at the first point and
    add every point (the first one again) *)
Definition new_extent_from_geometry (g : geom) : option ext :=
  match g_pts g with
  | [] => None
  | p :: _ => Some (fold_left ext_add_pt (g_pts g) (ext_pt p))
  end.

(** Extent.AddGeometry (bbox.go:156) *)
Definition add_geometry (e : ext) (g : geom) : ext := fold_left ext_add_pt (g_pts g) e.

(** one iteration of the extent part of the loop :257-269 (after fix 16e3a13: empty geometries are
    skipped; the first non-empty geometry starts the extent, later ones are added).  The error branch
    of NewExtentFromGeometry (:259-263) is unreachable: an unknown geometry already failed NewBinary. *)
Definition page_step (acc : option ext) (g : geom) : option ext :=
  if geom_empty g then acc
  else match acc with
       | None => new_extent_from_geometry g
       | Some e => Some (add_geometry e g)
       end.

Definition page_extent (fs : list feature) : option ext := fold_left page_step (map f_geom fs) None.

(** Handle.UpdateGeometryExtent (library gpkg.go:551): nil extent = no statement at all; NULL in
    gpkg_contents = take the page extent; otherwise the union *)
Definition merge_extent (old : option ext) (page : option ext) : option ext :=
  match page with
  | None => old
  | Some e => match old with None => Some e | Some o => Some (ext_union o e) end
  end.

(** equality tests on extents (also used by the correspondence check) *)
Definition ext_eqb (a b : ext) : bool :=
  Z.eqb (xmin a) (xmin b) && Z.eqb (ymin a) (ymin b) && Z.eqb (xmax a) (xmax b) && Z.eqb (ymax a) (ymax b).

Definition option_eqb {A} (eqb : A -> A -> bool) (a b : option A) : bool :=
  match a, b with
  | None, None => true
  | Some x, Some y => eqb x y
  | _, _ => false
  end.

(** ** Tables *)

(** PRAGMA table_info: name, type, notnull, pk (cid and dflt_value are read but not used) *)
Record column := MkCol { c_name : string; c_type : string; c_notnull : bool; c_pk : N }.

(** a row of gpkg_spatial_ref_sys; the definition text is represented by a digest *)
Record srs := MkSrs { s_name : string; s_id : Z; s_org : string; s_orgid : Z; s_def : N; s_desc : string }.

(** gpkg.Table as GetTableInfo builds it (:148): name, columns, geometry column, geometry type
    (gpkg.GeometryType 0..7 after geometryTypeFromString), srs row *)
Record table := MkTable { t_name : string; t_cols : list column; t_gcol : string; t_gtype : N; t_srs : srs }.

(** what a target file says about a registered feature table: the user table's columns, and the
    gpkg_contents / gpkg_geometry_columns rows (identifier = description = name, data_type =
    'features', z = m = 0 are constants of buildTable :375-385 and are checked by the harness) *)
Record tabdesc := MkDesc { td_name : string; td_cols : list column; td_gcol : string; td_gtype : N; td_srs : Z }.

(** a cell of a stored row, in TABLE column order *)
Inductive cell := CVal (v : value) | CGeom (g : geom).
Definition row := list cell.

Record tabstate := MkTab {
  ts_desc : tabdesc;
  ts_rows : list row;               (* in rowid order = insertion order *)
  ts_extent : option ext;           (* gpkg_contents min_x..max_y; None = NULL *)
  ts_rtree : list (N * ext)         (* rtree_<t>_<c>: (position of the row in ts_rows, its bbox) *)
}.

Record db := MkDb { db_srs : list srs; db_tabs : list tabstate; db_txs : N; db_writes : N }.

(** ** Opening a new file: gpkg.Open -> initHandle inserts the library's KnownSRS (-1, 0, 4326, 3857).
    The digests of the two definition texts are FNV-1a/32 of the library's strings; the harness
    computes the same digest on what it reads back, so a change of the library shows up. *)
Definition def_digest_empty : N := 2166136261.
Definition def_digest_4326 : N := 761772808.
Definition def_digest_3857 : N := 1088850955.

Definition known_srs : list srs := [
  MkSrs "any" (-1) "none" (-1) def_digest_empty "any";
  MkSrs "any" 0 "none" 0 def_digest_empty "any";
  MkSrs "WebMercator" 3857 "epsg" 3857 def_digest_3857 "WGS83 / Web Mercator";
  MkSrs "WGS 84" 4326 "epsg" 4326 def_digest_4326 "World Geodetic System: WGS 84"
].

Definition empty_db : db := MkDb known_srs [] 0 0.

Fixpoint find_srs (id : Z) (l : list srs) : option srs :=
  match l with
  | [] => None
  | s :: r => if Z.eqb (s_id s) id then Some s else find_srs id r
  end.

(** CreateTables :192-206 (after fix e2006e7): Handle.UpdateSRS (INSERT ... ON CONFLICT(srs_id) DO NOTHING)
    followed by UPDATE gpkg_spatial_ref_sys SET ... WHERE srs_id = ?  with the source table's row: a row
    with that id is replaced in place (also one the library pre-seeded), otherwise the row is appended.
    Two source tables with the same srs id but different rows: the LAST table's row stays. *)
Fixpoint update_srs (l : list srs) (s : srs) : list srs :=
  match l with
  | [] => [s]
  | x :: r => if Z.eqb (s_id x) (s_id s) then s :: r else x :: update_srs r s
  end.

Fixpoint find_tab (name : string) (l : list tabstate) : option tabstate :=
  match l with
  | [] => None
  | t :: r => if String.eqb (td_name (ts_desc t)) name then Some t else find_tab name r
  end.

Fixpoint replace_tab (name : string) (t' : tabstate) (l : list tabstate) : list tabstate :=
  match l with
  | [] => []
  | t :: r => if String.eqb (td_name (ts_desc t)) name then t' :: r else t :: replace_tab name t' r
  end.

(** createSQL :284: name, type, NOT NULL when notnull = 1, PRIMARY KEY when pk = 1 (members of a
    composite key have pk = 2, 3, .. and lose it; defaults and other constraints are not copied) *)
Definition norm_col (c : column) : column :=
  MkCol (c_name c) (c_type c) (c_notnull c) (if N.eqb (c_pk c) 1 then 1%N else 0%N).

Definition has_col (name : string) (cols : list column) : bool :=
  existsb (fun c => String.eqb (c_name c) name) cols.

Definition desc_of (t : table) : tabdesc :=
  MkDesc (t_name t) (map norm_col (t_cols t)) (t_gcol t) (t_gtype t) (s_id (t_srs t)).

(** CreateTables :190, one table: UpdateSRS, CREATE TABLE IF NOT EXISTS, AddGeometryTable.
    Only complete registrations are represented: a name that is already registered makes
    CREATE VIRTUAL TABLE fail. *)
Definition create_table (d : db) (t : table) : res db :=
  let srss := update_srs (db_srs d) (t_srs t) in
  match find_tab (t_name t) (db_tabs d) with
  | Some _ => Err TableExists
  | None =>
      if negb (has_col (t_gcol t) (t_cols t)) then Err NoSuchColumn
      else if negb (existsb (fun c => N.eqb (c_pk c) 1) (t_cols t)) then Err NoPrimaryKey
      else Ok (MkDb srss (db_tabs d ++ [MkTab (desc_of t) [] None []]) (db_txs d) (db_writes d))
  end.

Definition create_tables (d : db) (ts : list table) : res db := foldM create_table ts d.

(** ** Writing *)

(** insertSQL :316 + stmt.Exec(columns..., geometry): the attribute values go to the non-geometry
    columns in table order, the geometry to the geometry column WHEREVER it sits in the table; the
    stored row is in table column order.  [None] = the number of values does not fit. *)
Fixpoint weave (cols : list column) (gcol : string) (attrs : list value) (g : geom) : option row :=
  match cols with
  | [] => match attrs with [] => Some [] | _ => None end
  | c :: r =>
      if String.eqb (c_name c) gcol
      then option_map (cons (CGeom g)) (weave r gcol attrs g)
      else match attrs with
           | [] => None
           | a :: attrs' => option_map (cons (CVal a)) (weave r gcol attrs' g)
           end
  end.

(** one iteration of the loop :236-251 on the table state (the rtree insert trigger fires for a
    non-NULL, non-empty geometry; its id is the row's primary key, represented by the row position) *)
Definition insert_row (t : table) (ts : tabstate) (f : feature) : res tabstate :=
  if negb (geom_known (f_geom f)) then Err UnknownGeometry
  else if negb (has_col (t_gcol t) (t_cols t)) then Err NoSuchColumn
  else match weave (t_cols t) (t_gcol t) (f_attrs f) (f_geom f) with
       | None => Err ArgCount
       | Some r =>
           let rt := match new_extent_from_geometry (f_geom f) with
                     | None => ts_rtree ts
                     | Some e => ts_rtree ts ++ [(N.of_nat (List.length (ts_rows ts)), e)]
                     end in
           Ok (MkTab (ts_desc ts) (ts_rows ts ++ [r]) (ts_extent ts) rt)
       end.

(** writeFeatures :223: one transaction with the rows of the page, then UpdateGeometryExtent *)
Definition flush (t : table) (d : db) (fs : list feature) : res db :=
  match find_tab (t_name t) (db_tabs d) with
  | None => Err NoSuchTable
  | Some ts =>
      do ts1 <- foldM (insert_row t) fs ts;
      let pe := page_extent fs in
      let ts2 := MkTab (ts_desc ts1) (ts_rows ts1) (merge_extent (ts_extent ts1) pe) (ts_rtree ts1) in
      let w1 := match fs with [] => 0%N | _ => 1%N end in
      let w2 := match pe with
                | None => 0%N
                | Some _ => if option_eqb ext_eqb (merge_extent (ts_extent ts1) pe) (ts_extent ts1) then 0%N else 1%N
                end in
      Ok (MkDb (db_srs d) (replace_tab (t_name t) ts2 (db_tabs d)) (N.succ (db_txs d)) (db_writes d + w1 + w2))
  end.

(** TargetGeopackage + the local [features] of WriteFeatures :205 *)
Record writer := MkWriter { w_p : Z; w_table : table; w_buf : list feature; w_db : db }.

(** :214-219  features = append(features, feature); if len(features)%pagesize == 0 { write; features = nil }.
    Go's % truncates ([Z.rem]); pagesize 0 panics with an integer divide by zero. *)
Definition recv (w : writer) (f : feature) : res writer :=
  let buf := w_buf w ++ [f] in
  if Z.eqb (w_p w) 0 then Err DivZero
  else if Z.eqb (Z.rem (Z.of_nat (List.length buf)) (w_p w)) 0
       then do d <- flush (w_table w) (w_db w) buf; Ok (MkWriter (w_p w) (w_table w) [] d)
       else Ok (MkWriter (w_p w) (w_table w) buf (w_db w)).

(** :210-212  channel closed: write what is left -- also when nothing is left *)
Definition close (w : writer) : res db := flush (w_table w) (w_db w) (w_buf w).

(** one call of WriteFeatures on a stream *)
Definition write_features (p : Z) (t : table) (d : db) (fs : list feature) : res db :=
  do w <- foldM recv fs (MkWriter p t [] d); close w.

(** ** Specification-side functions (what the property says the file must contain) *)

Definition row_of (t : table) (f : feature) : option row := weave (t_cols t) (t_gcol t) (f_attrs f) (f_geom f).

(** attribute cells / geometry cells of a stored row *)
Definition row_attrs (r : row) : list value :=
  flat_map (fun c => match c with CVal v => [v] | CGeom _ => [] end) r.
Definition row_geoms (r : row) : list geom :=
  flat_map (fun c => match c with CVal _ => [] | CGeom g => [g] end) r.

(** bounding box of a list of points *)
Definition pts_ext (l : list pt) : option ext :=
  match l with [] => None | p :: r => Some (fold_left ext_add_pt r (ext_pt p)) end.

Definition all_pts (fs : list feature) : list pt := flat_map (fun f => g_pts (f_geom f)) fs.

(** rtree entries expected for the features [fs] appended after [n] existing rows *)
Fixpoint rtree_of (n : nat) (fs : list feature) : list (N * ext) :=
  match fs with
  | [] => []
  | f :: r => match pts_ext (g_pts (f_geom f)) with
              | None => rtree_of (S n) r
              | Some e => (N.of_nat n, e) :: rtree_of (S n) r
              end
  end.

Definition nonempty_count (fs : list feature) : nat :=
  List.length (filter (fun f => negb (geom_empty (f_geom f))) fs).

Definition attr_cols (t : table) : list column :=
  filter (fun c => negb (String.eqb (c_name c) (t_gcol t))) (t_cols t).

(** a feature fits a table: one value per non-geometry column, encodable geometry *)
Definition fits (t : table) (f : feature) : bool :=
  Nat.eqb (List.length (f_attrs f)) (List.length (attr_cols t)) && geom_known (f_geom f).

(** ** Decidable equalities (for the correspondence check) *)
Definition value_eqb (a b : value) : bool :=
  match a, b with
  | VNull, VNull => true
  | VInt x, VInt y => Z.eqb x y
  | VReal x, VReal y => Z.eqb x y
  | VText x, VText y => N.eqb x y
  | VBlob x, VBlob y => N.eqb x y
  | VTime x, VTime y => Z.eqb x y
  | _, _ => false
  end.

Fixpoint list_eqb {A} (eqb : A -> A -> bool) (a b : list A) : bool :=
  match a, b with
  | [], [] => true
  | x :: a', y :: b' => eqb x y && list_eqb eqb a' b'
  | _, _ => false
  end.

Definition column_eqb (a b : column) : bool :=
  String.eqb (c_name a) (c_name b) && String.eqb (c_type a) (c_type b) &&
  Bool.eqb (c_notnull a) (c_notnull b) && N.eqb (c_pk a) (c_pk b).

Definition srs_eqb (a b : srs) : bool :=
  String.eqb (s_name a) (s_name b) && Z.eqb (s_id a) (s_id b) && String.eqb (s_org a) (s_org b) &&
  Z.eqb (s_orgid a) (s_orgid b) && N.eqb (s_def a) (s_def b) && String.eqb (s_desc a) (s_desc b).

Definition desc_eqb (a b : tabdesc) : bool :=
  String.eqb (td_name a) (td_name b) && list_eqb column_eqb (td_cols a) (td_cols b) &&
  String.eqb (td_gcol a) (td_gcol b) && N.eqb (td_gtype a) (td_gtype b) && Z.eqb (td_srs a) (td_srs b).
