(** * Gpkg/Proofs.v — theorems about the paged GeoPackage writer model (C12).

    Everything is for EVERY stream and EVERY page size p > 0 (induction over the stream). *)
From Coq Require Import ZArith NArith List Bool String Lia.
From Texel Require Import Gpkg.Model.
Import ListNotations.
Open Scope Z_scope.

Local Notation len := List.length.

(** ** 1. Extents: bounding boxes form a commutative idempotent monoid under [merge_extent] *)

Lemma ext_eq : forall a b, xmin a = xmin b -> ymin a = ymin b -> xmax a = xmax b -> ymax a = ymax b -> a = b.
Proof. intros [] [] H1 H2 H3 H4; cbn in *; subst; reflexivity. Qed.

Lemma ext_union_assoc : forall a b c, ext_union (ext_union a b) c = ext_union a (ext_union b c).
Proof. intros; apply ext_eq; cbn; lia. Qed.

Lemma ext_union_comm : forall a b, ext_union a b = ext_union b a.
Proof. intros; apply ext_eq; cbn; lia. Qed.

Lemma ext_union_idem : forall a, ext_union a a = a.
Proof. intros; apply ext_eq; cbn; lia. Qed.

Lemma ext_add_pt_union : forall e p, ext_add_pt e p = ext_union e (ext_pt p).
Proof. intros; apply ext_eq; cbn; lia. Qed.

Lemma ext_add_pt_self : forall p, ext_add_pt (ext_pt p) p = ext_pt p.
Proof. intros; apply ext_eq; cbn; lia. Qed.

Lemma fold_add_union : forall l e b,
  fold_left ext_add_pt l (ext_union e b) = ext_union e (fold_left ext_add_pt l b).
Proof.
  induction l as [|q l IH]; intros e b; cbn [fold_left]; [reflexivity|].
  rewrite <- IH. f_equal. apply ext_eq; cbn; lia.
Qed.

(** the monoid: [None] is the unit *)
Lemma merge_none_l : forall x, merge_extent None x = x.
Proof. destruct x; reflexivity. Qed.

Lemma merge_none_r : forall x, merge_extent x None = x.
Proof. reflexivity. Qed.

Lemma merge_assoc : forall a b c, merge_extent (merge_extent a b) c = merge_extent a (merge_extent b c).
Proof. intros [a|] [b|] [c|]; cbn; try reflexivity. now rewrite ext_union_assoc. Qed.

Lemma merge_comm : forall a b, merge_extent a b = merge_extent b a.
Proof. intros [a|] [b|]; cbn; try reflexivity. now rewrite ext_union_comm. Qed.

Lemma merge_idem : forall a, merge_extent a a = a.
Proof. intros [a|]; cbn; try reflexivity. now rewrite ext_union_idem. Qed.

Lemma fold_add_pts_ext : forall l e,
  fold_left ext_add_pt l e = match pts_ext l with None => e | Some b => ext_union e b end.
Proof.
  intros [|p r] e; cbn [pts_ext fold_left]; [reflexivity|].
  rewrite ext_add_pt_union. apply fold_add_union.
Qed.

Lemma pts_ext_app : forall a b, pts_ext (a ++ b) = merge_extent (pts_ext a) (pts_ext b).
Proof.
  intros [|p a] b; [cbn [app pts_ext]; now rewrite merge_none_l|].
  cbn [app pts_ext]. rewrite fold_left_app, (fold_add_pts_ext b). destruct (pts_ext b); reflexivity.
Qed.

Lemma new_extent_pts_ext : forall g, new_extent_from_geometry g = pts_ext (g_pts g).
Proof.
  intros g; unfold new_extent_from_geometry. destruct (g_pts g) as [|p r]; [reflexivity|].
  cbn [pts_ext fold_left]. now rewrite ext_add_pt_self.
Qed.

Lemma page_step_merge : forall acc g, page_step acc g = merge_extent acc (pts_ext (g_pts g)).
Proof.
  intros acc g; unfold page_step, geom_empty.
  destruct (g_pts g) as [|p r] eqn:E; [reflexivity|].
  destruct acc as [e|].
  - unfold add_geometry. rewrite E, fold_add_pts_ext. reflexivity.
  - rewrite new_extent_pts_ext, E. now rewrite merge_none_l.
Qed.

Lemma fold_page_step : forall fs acc,
  fold_left page_step (map f_geom fs) acc = merge_extent acc (pts_ext (all_pts fs)).
Proof.
  induction fs as [|f fs IH]; intros acc; [reflexivity|].
  cbn [map fold_left]. rewrite IH, page_step_merge.
  unfold all_pts; cbn [flat_map]. fold (all_pts fs). now rewrite pts_ext_app, merge_assoc.
Qed.

(** the extent of a page, accumulated geometry by geometry as the code does, is the bounding box of
    all coordinates of the page *)
Lemma page_extent_bbox : forall fs, page_extent fs = pts_ext (all_pts fs).
Proof. intros; unfold page_extent. now rewrite fold_page_step, merge_none_l. Qed.

Lemma all_pts_app : forall a b, all_pts (a ++ b) = all_pts a ++ all_pts b.
Proof. intros; unfold all_pts; apply flat_map_app. Qed.

(** [pts_ext] really is the bounding box: it contains every point and each bound is attained *)
Definition inside (e : ext) (p : pt) : Prop :=
  xmin e <= fst p <= xmax e /\ ymin e <= snd p <= ymax e.

Definition tight (e : ext) (l : list pt) : Prop :=
  (exists p, In p l /\ fst p = xmin e) /\ (exists p, In p l /\ snd p = ymin e) /\
  (exists p, In p l /\ fst p = xmax e) /\ (exists p, In p l /\ snd p = ymax e).

Definition is_bbox (e : ext) (l : list pt) : Prop := (forall p, In p l -> inside e p) /\ tight e l.

Lemma is_bbox_step : forall e seen q, is_bbox e seen -> is_bbox (ext_add_pt e q) (seen ++ [q]).
Proof.
  intros e seen q [Hin [[p1 [I1 E1]] [[p2 [I2 E2]] [[p3 [I3 E3]] [p4 [I4 E4]]]]]].
  split.
  - intros p Hp. apply in_app_or in Hp. destruct Hp as [Hp|[Hp|[]]].
    + specialize (Hin p Hp). unfold inside in *; cbn. lia.
    + subst p. unfold inside; cbn. lia.
  - assert (Hq : In q (seen ++ [q])) by (apply in_or_app; right; apply in_eq).
    assert (Hs : forall x, In x seen -> In x (seen ++ [q])) by (intros; apply in_or_app; now left).
    unfold tight; cbn [xmin ymin xmax ymax ext_add_pt].
    repeat split.
    + destruct (Z.min_spec (fst q) (xmin e)) as [[_ ->]|[_ ->]]; [exists q|exists p1]; auto.
    + destruct (Z.min_spec (snd q) (ymin e)) as [[_ ->]|[_ ->]]; [exists q|exists p2]; auto.
    + destruct (Z.max_spec (fst q) (xmax e)) as [[_ ->]|[_ ->]]; [exists p3|exists q]; auto.
    + destruct (Z.max_spec (snd q) (ymax e)) as [[_ ->]|[_ ->]]; [exists p4|exists q]; auto.
Qed.

Lemma is_bbox_fold : forall l e seen, is_bbox e seen -> is_bbox (fold_left ext_add_pt l e) (seen ++ l).
Proof.
  induction l as [|q l IH]; intros e seen H; cbn [fold_left].
  - now rewrite app_nil_r.
  - replace (seen ++ q :: l) with ((seen ++ [q]) ++ l) by (now rewrite <- app_assoc).
    apply IH. now apply is_bbox_step.
Qed.

Lemma pts_ext_is_bbox : forall l e, pts_ext l = Some e -> is_bbox e l.
Proof.
  intros [|p r] e H; [discriminate|]. cbn [pts_ext] in H. injection H as <-.
  change (p :: r) with ([p] ++ r). apply is_bbox_fold.
  split.
  - intros q [<-|[]]. unfold inside; cbn. lia.
  - unfold tight; cbn. repeat split; exists p; auto.
Qed.

Lemma pts_ext_none : forall l, pts_ext l = None <-> l = [].
Proof. intros [|p r]; cbn; split; congruence. Qed.

(** ** 2. Rows: where the values of a feature end up *)

Lemma weave_fits : forall cols gcol attrs g,
  len attrs = len (filter (fun c => negb (String.eqb (c_name c) gcol)) cols) ->
  exists r, weave cols gcol attrs g = Some r.
Proof.
  induction cols as [|c cols IH]; intros gcol attrs g H; cbn [weave].
  - destruct attrs; [eauto|discriminate].
  - cbn [filter] in H. destruct (String.eqb (c_name c) gcol); cbn [negb] in H.
    + destruct (IH gcol attrs g H) as [r ->]. cbn; eauto.
    + destruct attrs as [|a attrs]; [discriminate|]. cbn [len] in H. injection H as H.
      destruct (IH gcol attrs g H) as [r ->]. cbn; eauto.
Qed.

Lemma fits_row_of : forall t f, fits t f = true -> exists r, row_of t f = Some r.
Proof.
  intros t f H. unfold fits in H. apply andb_prop in H. destruct H as [H _].
  apply Nat.eqb_eq in H. unfold row_of. apply weave_fits. exact H.
Qed.

(** the attribute values of the stored row are the feature's, in order; the row has one cell per
    table column; the geometry cells hold the feature's geometry, one per occurrence of the geometry
    column among the table columns (exactly one for a registered table) *)
Lemma weave_spec : forall cols gcol attrs g r,
  weave cols gcol attrs g = Some r ->
  row_attrs r = attrs /\ len r = len cols /\
  row_geoms r = repeat g (len (filter (fun c => String.eqb (c_name c) gcol) cols)).
Proof.
  induction cols as [|c cols IH]; intros gcol attrs g r H; cbn [weave] in H.
  - destruct attrs; [|discriminate]. injection H as <-. repeat split.
  - cbn [filter]. destruct (String.eqb (c_name c) gcol).
    + destruct (weave cols gcol attrs g) as [r'|] eqn:E; [|discriminate]. cbn in H. injection H as <-.
      destruct (IH _ _ _ _ E) as [H1 [H2 H3]]. unfold row_attrs, row_geoms in *; cbn. repeat split; congruence.
    + destruct attrs as [|a attrs]; [discriminate|].
      destruct (weave cols gcol attrs g) as [r'|] eqn:E; [|discriminate]. cbn in H. injection H as <-.
      destruct (IH _ _ _ _ E) as [H1 [H2 H3]]. unfold row_attrs, row_geoms in *; cbn. repeat split; congruence.
Qed.

(** position of the geometry cell = position of the geometry column, wherever it is *)
Lemma weave_geom_position : forall cols gcol attrs g r i c,
  weave cols gcol attrs g = Some r -> nth_error cols i = Some c -> String.eqb (c_name c) gcol = true ->
  nth_error r i = Some (CGeom g).
Proof.
  induction cols as [|c0 cols IH]; intros gcol attrs g r i c H Hn Hc; [destruct i; discriminate|].
  cbn [weave] in H. destruct i as [|i]; cbn [nth_error] in Hn.
  - injection Hn as ->. rewrite Hc in H.
    destruct (weave cols gcol attrs g); [|discriminate]. cbn in H. now injection H as <-.
  - destruct (String.eqb (c_name c0) gcol).
    + destruct (weave cols gcol attrs g) as [r'|] eqn:E; [|discriminate]. cbn in H. injection H as <-.
      cbn [nth_error]. eapply IH; eauto.
    + destruct attrs as [|a attrs]; [discriminate|].
      destruct (weave cols gcol attrs g) as [r'|] eqn:E; [|discriminate]. cbn in H. injection H as <-.
      cbn [nth_error]. eapply IH; eauto.
Qed.

(** ** 3. Tables of a file *)

Definition tab_name (ts : tabstate) : string := td_name (ts_desc ts).

Lemma find_tab_name : forall n l ts, find_tab n l = Some ts -> tab_name ts = n.
Proof.
  induction l as [|x l IH]; intros ts H; [discriminate|]. cbn [find_tab] in H.
  destruct (String.eqb (td_name (ts_desc x)) n) eqn:E.
  - injection H as <-. now apply String.eqb_eq.
  - now apply IH.
Qed.

Lemma find_replace_same : forall n l ts x, find_tab n l = Some ts -> tab_name x = n ->
  find_tab n (replace_tab n x l) = Some x.
Proof.
  induction l as [|y l IH]; intros ts x H Hx; [discriminate|]. cbn [find_tab replace_tab] in *.
  destruct (String.eqb (td_name (ts_desc y)) n) eqn:E.
  - cbn [find_tab]. unfold tab_name in Hx. rewrite Hx, String.eqb_refl. reflexivity.
  - cbn [find_tab]. rewrite E. eapply IH; eauto.
Qed.

Lemma find_replace_other : forall n m l x, tab_name x = n -> m <> n ->
  find_tab m (replace_tab n x l) = find_tab m l.
Proof.
  induction l as [|y l IH]; intros x Hx Hm; [reflexivity|]. cbn [find_tab replace_tab].
  destruct (String.eqb (td_name (ts_desc y)) n) eqn:E.
  - cbn [find_tab]. apply String.eqb_eq in E. unfold tab_name in Hx.
    assert (F : String.eqb n m = false) by (apply String.eqb_neq; congruence).
    rewrite Hx, E, F. reflexivity.
  - cbn [find_tab]. destruct (String.eqb (td_name (ts_desc y)) m); [reflexivity|]. now apply IH.
Qed.

Lemma replace_replace : forall n l x y, tab_name x = n ->
  replace_tab n y (replace_tab n x l) = replace_tab n y l.
Proof.
  induction l as [|z l IH]; intros x y Hx; [reflexivity|]. cbn [replace_tab].
  destruct (String.eqb (td_name (ts_desc z)) n) eqn:E; cbn [replace_tab].
  - unfold tab_name in Hx. now rewrite Hx, String.eqb_refl.
  - rewrite E. f_equal. now apply IH.
Qed.

Lemma replace_names : forall n l x, tab_name x = n -> map tab_name (replace_tab n x l) = map tab_name l.
Proof.
  induction l as [|z l IH]; intros x Hx; [reflexivity|]. cbn [replace_tab].
  destruct (String.eqb (td_name (ts_desc z)) n) eqn:E; cbn [map].
  - f_equal. apply String.eqb_eq in E. unfold tab_name at 2. congruence.
  - f_equal. now apply IH.
Qed.

(** ** 4. One page *)

(** the state of a table after the features [fs] (stored rows [rs]) were added to it *)
Definition apply_rows (ts : tabstate) (fs : list feature) (rs : list row) : tabstate :=
  MkTab (ts_desc ts) (ts_rows ts ++ rs)
        (merge_extent (ts_extent ts) (pts_ext (all_pts fs)))
        (ts_rtree ts ++ rtree_of (len (ts_rows ts)) fs).

Definition rows_for (t : table) (fs : list feature) (rs : list row) : Prop :=
  map (row_of t) fs = map Some rs.

Lemma rows_for_length : forall t fs rs, rows_for t fs rs -> len rs = len fs.
Proof. intros t fs rs H. apply (f_equal (@List.length _)) in H. now rewrite !map_length in H. Qed.

Lemma rows_for_app : forall t a b ra rb, rows_for t a ra -> rows_for t b rb -> rows_for t (a ++ b) (ra ++ rb).
Proof. unfold rows_for; intros. rewrite !map_app. congruence. Qed.

Lemma rows_for_unique : forall t fs r1 r2, rows_for t fs r1 -> rows_for t fs r2 -> r1 = r2.
Proof.
  unfold rows_for; intros t fs r1 r2 H1 H2. rewrite H1 in H2. clear H1.
  revert r2 H2; induction r1 as [|x r1 IH]; intros [|y r2] H; try discriminate; [reflexivity|].
  cbn in H. injection H as -> H. f_equal. now apply IH.
Qed.

Lemma rtree_of_app : forall a b n, rtree_of n (a ++ b) = rtree_of n a ++ rtree_of (n + len a) b.
Proof.
  induction a as [|f a IH]; intros b n; cbn [app rtree_of len].
  - now rewrite Nat.add_0_r.
  - rewrite IH. replace (S n + len a)%nat with (n + S (len a))%nat by lia.
    destruct (pts_ext (g_pts (f_geom f))); reflexivity.
Qed.

Lemma apply_rows_nil : forall ts, apply_rows ts [] [] = ts.
Proof. intros []; unfold apply_rows; cbn. now rewrite !app_nil_r. Qed.

Lemma apply_rows_app : forall t ts a b ra rb, rows_for t a ra ->
  apply_rows (apply_rows ts a ra) b rb = apply_rows ts (a ++ b) (ra ++ rb).
Proof.
  intros t ts a b ra rb Ha. unfold apply_rows; cbn [ts_desc ts_rows ts_extent ts_rtree].
  rewrite all_pts_app, pts_ext_app, merge_assoc, <- !app_assoc, rtree_of_app.
  rewrite app_length, (rows_for_length _ _ _ Ha). reflexivity.
Qed.

Lemma insert_rows_spec : forall t fs ts,
  has_col (t_gcol t) (t_cols t) = true -> Forall (fun f => fits t f = true) fs ->
  exists rs, rows_for t fs rs /\
    foldM (insert_row t) fs ts =
    Ok (MkTab (ts_desc ts) (ts_rows ts ++ rs) (ts_extent ts) (ts_rtree ts ++ rtree_of (len (ts_rows ts)) fs)).
Proof.
  intros t fs; induction fs as [|f fs IH]; intros ts Hg Hf.
  - exists []. split; [reflexivity|]. cbn. destruct ts; cbn. now rewrite !app_nil_r.
  - inversion Hf as [|? ? Hf1 Hf2]; subst.
    destruct (fits_row_of _ _ Hf1) as [r Hr].
    cbn [foldM]. unfold insert_row at 1.
    assert (Hk : geom_known (f_geom f) = true) by (unfold fits in Hf1; now apply andb_prop in Hf1).
    rewrite Hk, Hg. cbn [negb]. unfold row_of in Hr. rewrite Hr. cbn [bind].
    match goal with |- context [foldM _ fs ?s] => destruct (IH s Hg Hf2) as [rs [Hrs ->]] end.
    exists (r :: rs). split.
    + unfold rows_for in *; cbn [map]. unfold row_of at 1. now rewrite Hr, Hrs.
    + cbn [ts_desc ts_rows ts_extent ts_rtree]. f_equal. f_equal.
      * now rewrite <- app_assoc.
      * rewrite new_extent_pts_ext. cbn [rtree_of]. rewrite app_length; cbn [len].
        replace (len (ts_rows ts) + 1)%nat with (S (len (ts_rows ts))) by lia.
        destruct (pts_ext (g_pts (f_geom f))); [now rewrite <- app_assoc|reflexivity].
Qed.

Lemma flush_spec : forall t d fs ts,
  find_tab (t_name t) (db_tabs d) = Some ts ->
  has_col (t_gcol t) (t_cols t) = true -> Forall (fun f => fits t f = true) fs ->
  exists rs d', rows_for t fs rs /\ flush t d fs = Ok d' /\
    db_srs d' = db_srs d /\
    db_tabs d' = replace_tab (t_name t) (apply_rows ts fs rs) (db_tabs d) /\
    db_txs d' = N.succ (db_txs d).
Proof.
  intros t d fs ts Hfind Hg Hf. unfold flush. rewrite Hfind.
  destruct (insert_rows_spec t fs ts Hg Hf) as [rs [Hrs ->]]. cbn [bind].
  exists rs. eexists. split; [exact Hrs|]. split; [reflexivity|]. cbn [db_srs db_tabs db_txs].
  repeat split. unfold apply_rows. cbn [ts_desc ts_rows ts_extent ts_rtree]. now rewrite page_extent_bbox.
Qed.

(** ** 5. The whole stream, any page size p > 0 *)

Lemma rem_page : forall n p, 0 <= n -> n < p -> (Z.rem (n + 1) p =? 0) = (n + 1 =? p).
Proof.
  intros n p Hn Hp. rewrite Z.rem_mod_nonneg by lia.
  destruct (Z.eq_dec (n + 1) p) as [E|E].
  - rewrite E, Z.mod_same, !Z.eqb_refl by lia. reflexivity.
  - rewrite Z.mod_small by lia. apply Z.eqb_neq in E. rewrite E. apply Z.eqb_neq. lia.
Qed.

Lemma stream_spec : forall t p fs buf d ts,
  0 < p ->
  find_tab (t_name t) (db_tabs d) = Some ts ->
  has_col (t_gcol t) (t_cols t) = true ->
  Forall (fun f => fits t f = true) (buf ++ fs) ->
  Z.of_nat (len buf) < p ->
  exists rs d', rows_for t (buf ++ fs) rs /\
    (do w <- foldM recv fs (MkWriter p t buf d); close w) = Ok d' /\
    db_srs d' = db_srs d /\
    db_tabs d' = replace_tab (t_name t) (apply_rows ts (buf ++ fs) rs) (db_tabs d) /\
    Z.of_N (db_txs d') = Z.of_N (db_txs d) + Z.of_nat (len buf + len fs) / p + 1.
Proof.
  intros t p fs; induction fs as [|f fs IH]; intros buf d ts Hp Hfind Hg Hf Hb.
  - (* channel closed: the rest of the buffer, possibly nothing, is one more transaction *)
    cbn [foldM bind]. unfold close; cbn [w_table w_db w_buf]. rewrite app_nil_r in *.
    destruct (flush_spec t d buf ts Hfind Hg Hf) as [rs [d' [Hrs [Hfl [Hs [Ht Hx]]]]]].
    exists rs, d'. repeat split; auto.
    rewrite Hx, N2Z.inj_succ, Nat.add_0_r, Z.div_small by lia. lia.
  - cbn [foldM]. unfold recv at 1; cbn [w_p w_buf w_table w_db].
    assert (Hp0 : (p =? 0) = false) by (apply Z.eqb_neq; lia). rewrite Hp0.
    rewrite app_length; cbn [len]. rewrite Nat2Z.inj_add; cbn [Z.of_nat Pos.of_succ_nat].
    rewrite rem_page by lia.
    assert (Hf' : Forall (fun f0 => fits t f0 = true) ((buf ++ [f]) ++ fs)) by (now rewrite <- app_assoc).
    destruct (Z.eqb_spec (Z.of_nat (len buf) + 1) p) as [E|E].
    + (* the page is full: one transaction, buffer reset *)
      assert (Hfb : Forall (fun f0 => fits t f0 = true) (buf ++ [f])).
      { apply Forall_app in Hf'. tauto. }
      destruct (flush_spec t d (buf ++ [f]) ts Hfind Hg Hfb) as [rs1 [d1 [Hrs1 [Hfl [Hs1 [Ht1 Hx1]]]]]].
      rewrite Hfl. cbn [bind].
      assert (Hfind1 : find_tab (t_name t) (db_tabs d1) = Some (apply_rows ts (buf ++ [f]) rs1)).
      { rewrite Ht1. eapply find_replace_same; eauto. unfold tab_name, apply_rows; cbn.
        apply (find_tab_name _ _ _ Hfind). }
      assert (Hf2 : Forall (fun f0 => fits t f0 = true) ([] ++ fs)).
      { apply Forall_app in Hf'. tauto. }
      destruct (IH [] d1 _ Hp Hfind1 Hg Hf2) as [rs2 [d' [Hrs2 [Hrun [Hs2 [Ht2 Hx2]]]]]]; [cbn; lia|].
      exists (rs1 ++ rs2), d'. split; [|split; [exact Hrun|split; [congruence|split]]].
      * replace (buf ++ f :: fs) with ((buf ++ [f]) ++ fs) by (now rewrite <- app_assoc).
        now apply rows_for_app.
      * rewrite Ht2, Ht1. cbn [app] in *. rewrite replace_replace.
        -- rewrite (apply_rows_app t) by exact Hrs1. now rewrite <- app_assoc.
        -- unfold tab_name, apply_rows; cbn. apply (find_tab_name _ _ _ Hfind).
      * rewrite Hx2, Hx1, N2Z.inj_succ. cbn [len].
        replace (Z.of_nat (len buf + S (len fs))) with (Z.of_nat (len fs) + 1 * p) by lia.
        rewrite Z.div_add by lia. cbn [Nat.add]. lia.
    + (* not full: keep buffering *)
      cbn [bind].
      destruct (IH (buf ++ [f]) d ts Hp Hfind Hg Hf') as [rs [d' [Hrs [Hrun [Hs [Ht Hx]]]]]].
      { rewrite app_length; cbn [len]. lia. }
      exists rs, d'. rewrite <- app_assoc in *. cbn [app] in *.
      repeat split; auto. rewrite Hx, app_length. cbn [len].
      replace (len buf + 1 + len fs)%nat with (len buf + S (len fs))%nat by lia. reflexivity.
Qed.

(** *** Main theorem: everything the property says about one call of WriteFeatures *)
Theorem write_features_spec : forall t p fs d ts,
  0 < p ->
  find_tab (t_name t) (db_tabs d) = Some ts ->
  has_col (t_gcol t) (t_cols t) = true ->
  Forall (fun f => fits t f = true) fs ->
  exists rs d', rows_for t fs rs /\ write_features p t d fs = Ok d' /\
    db_srs d' = db_srs d /\
    db_tabs d' = replace_tab (t_name t) (apply_rows ts fs rs) (db_tabs d) /\
    Z.of_N (db_txs d') = Z.of_N (db_txs d) + Z.of_nat (len fs) / p + 1.
Proof.
  intros t p fs d ts Hp Hfind Hg Hf. unfold write_features.
  destruct (stream_spec t p fs [] d ts Hp Hfind Hg Hf) as [rs [d' H]]; [cbn; lia|].
  exists rs, d'. exact H.
Qed.

(** the table after the call, looked up in the file *)
Lemma written_table : forall t d d' ts x,
  find_tab (t_name t) (db_tabs d) = Some ts ->
  db_tabs d' = replace_tab (t_name t) x (db_tabs d) -> tab_name x = t_name t ->
  find_tab (t_name t) (db_tabs d') = Some x.
Proof. intros t d d' ts x Hfind -> Hx. eapply find_replace_same; eauto. Qed.

Section Clauses.
  Variables (t : table) (p : Z) (fs : list feature) (d d' : db) (ts ts' : tabstate).
  Hypothesis Hp : 0 < p.
  Hypothesis Hfind : find_tab (t_name t) (db_tabs d) = Some ts.
  Hypothesis Hg : has_col (t_gcol t) (t_cols t) = true.
  Hypothesis Hf : Forall (fun f => fits t f = true) fs.
  Hypothesis Hrun : write_features p t d fs = Ok d'.
  Hypothesis Hfind' : find_tab (t_name t) (db_tabs d') = Some ts'.

  Lemma clauses_ts' : exists rs, rows_for t fs rs /\ ts' = apply_rows ts fs rs /\
    db_srs d' = db_srs d /\ db_tabs d' = replace_tab (t_name t) ts' (db_tabs d) /\
    Z.of_N (db_txs d') = Z.of_N (db_txs d) + Z.of_nat (len fs) / p + 1.
  Proof.
    destruct (write_features_spec t p fs d ts Hp Hfind Hg Hf) as [rs [d2 [Hrs [Hrun2 [Hs [Ht Hx]]]]]].
    rewrite Hrun in Hrun2. injection Hrun2 as <-.
    assert (E : find_tab (t_name t) (db_tabs d') = Some (apply_rows ts fs rs)).
    { apply (written_table t d d' ts _ Hfind Ht). unfold tab_name, apply_rows; cbn. apply (find_tab_name _ _ _ Hfind). }
    rewrite Hfind' in E. injection E as ->. exists rs. repeat split; auto.
  Qed.

  (** exactly one row per feature, in stream order, after the rows that were there; each row holds
      the feature's attribute values in order and its geometry in the geometry column *)
  Lemma rows_all_in_order :
    exists rs, ts_rows ts' = ts_rows ts ++ rs /\ map (row_of t) fs = map Some rs /\ len rs = len fs.
  Proof.
    destruct clauses_ts' as [rs [Hrs [-> _]]]. exists rs. repeat split; auto. eapply rows_for_length; eauto.
  Qed.

  (** one transaction per full page and one more when the channel closes (empty when n is a multiple of p) *)
  Lemma transactions_count : Z.of_N (db_txs d') = Z.of_N (db_txs d) + Z.of_nat (len fs) / p + 1.
  Proof. destruct clauses_ts' as [rs [_ [_ [_ [_ H]]]]]. exact H. Qed.

  (** the recorded extent is the old one merged with the bounding box of ALL coordinates written *)
  Lemma extent_merged : ts_extent ts' = merge_extent (ts_extent ts) (pts_ext (all_pts fs)).
  Proof. destruct clauses_ts' as [rs [_ [-> _]]]. reflexivity. Qed.

  (** one rtree entry per row with a non-empty geometry: its position and its bounding box *)
  Lemma rtree_entries : ts_rtree ts' = ts_rtree ts ++ rtree_of (len (ts_rows ts)) fs.
  Proof. destruct clauses_ts' as [rs [_ [-> _]]]. reflexivity. Qed.

  (** the description of the table, the other tables and the srs rows are untouched *)
  Lemma schema_kept : ts_desc ts' = ts_desc ts /\ db_srs d' = db_srs d /\
    map tab_name (db_tabs d') = map tab_name (db_tabs d) /\
    forall m, m <> t_name t -> find_tab m (db_tabs d') = find_tab m (db_tabs d).
  Proof.
    destruct clauses_ts' as [rs [_ [E [Hs [Ht _]]]]]. repeat split; auto.
    - now rewrite E.
    - rewrite Ht. apply replace_names. rewrite E. unfold tab_name, apply_rows; cbn. apply (find_tab_name _ _ _ Hfind).
    - intros m Hm. rewrite Ht. apply find_replace_other; auto.
      rewrite E. unfold tab_name, apply_rows; cbn. apply (find_tab_name _ _ _ Hfind).
  Qed.
End Clauses.

Lemma rtree_of_length : forall fs n, len (rtree_of n fs) = nonempty_count fs.
Proof.
  induction fs as [|f fs IH]; intros n; [reflexivity|]. cbn [rtree_of]. unfold nonempty_count in *; cbn [filter].
  unfold geom_empty. destruct (g_pts (f_geom f)) as [|q r] eqn:E; cbn [pts_ext negb].
  - apply IH.
  - cbn [len]. f_equal. apply IH.
Qed.

Lemma rtree_of_in : forall fs n i e, In (i, e) (rtree_of n fs) ->
  exists k f, nth_error fs k = Some f /\ i = N.of_nat (n + k) /\ pts_ext (g_pts (f_geom f)) = Some e.
Proof.
  induction fs as [|f fs IH]; intros n i e H; [destruct H|]. cbn [rtree_of] in H.
  assert (Hrec : In (i, e) (rtree_of (S n) fs) ->
    exists k f0, nth_error (f :: fs) k = Some f0 /\ i = N.of_nat (n + k) /\ pts_ext (g_pts (f_geom f0)) = Some e).
  { intros H'. destruct (IH _ _ _ H') as [k [f0 [H1 [H2 H3]]]]. exists (S k), f0. cbn [nth_error].
    repeat split; auto. rewrite H2. f_equal. lia. }
  destruct (pts_ext (g_pts (f_geom f))) as [e0|] eqn:E; [|auto].
  destruct H as [H|H]; [|auto]. injection H as <- <-. exists 0%nat, f. cbn. rewrite Nat.add_0_r. auto.
Qed.

(** ** 6. Page size 0: the first feature makes the writer panic; an empty stream does not *)
Lemma pagesize_zero : forall t d f fs, write_features 0 t d (f :: fs) = Err DivZero.
Proof. reflexivity. Qed.

Lemma pagesize_zero_empty : forall t d, write_features 0 t d [] = flush t d [].
Proof. reflexivity. Qed.

(** ** 7. CreateTables *)

Lemma find_tab_none : forall n l, find_tab n l = None <-> ~ In n (map tab_name l).
Proof.
  induction l as [|x l IH]; cbn [find_tab map In]; [tauto|].
  destruct (String.eqb (td_name (ts_desc x)) n) eqn:E.
  - apply String.eqb_eq in E. split; [discriminate|]. intros H. exfalso. apply H. now left.
  - apply String.eqb_neq in E. rewrite IH. unfold tab_name at 2. tauto.
Qed.

Lemma find_tab_app_new : forall n l x, find_tab n l = None -> tab_name x = n -> find_tab n (l ++ [x]) = Some x.
Proof.
  induction l as [|y l IH]; intros x H Hx; cbn [app find_tab] in *.
  - unfold tab_name in Hx. now rewrite Hx, String.eqb_refl.
  - destruct (String.eqb (td_name (ts_desc y)) n); [discriminate|]. now apply IH.
Qed.

Lemma find_tab_app_old : forall n l x ts, find_tab n l = Some ts -> find_tab n (l ++ [x]) = Some ts.
Proof.
  induction l as [|y l IH]; intros x ts H; cbn [app find_tab] in *; [discriminate|].
  destruct (String.eqb (td_name (ts_desc y)) n); [exact H|]. now apply IH.
Qed.

Definition table_ok (t : table) : Prop :=
  has_col (t_gcol t) (t_cols t) = true /\ existsb (fun c => N.eqb (c_pk c) 1) (t_cols t) = true.

Definition fresh_tab (t : table) : tabstate := MkTab (desc_of t) [] None [].

Lemma create_tables_spec : forall tl d,
  Forall table_ok tl -> NoDup (map t_name tl) ->
  (forall t, In t tl -> ~ In (t_name t) (map tab_name (db_tabs d))) ->
  exists d', create_tables d tl = Ok d' /\
    db_tabs d' = db_tabs d ++ map fresh_tab tl /\
    db_srs d' = fold_left update_srs (map t_srs tl) (db_srs d) /\
    db_txs d' = db_txs d /\ db_writes d' = db_writes d.
Proof.
  induction tl as [|t tl IH]; intros d Hok Hnd Hfresh.
  - exists d. cbn. now rewrite app_nil_r.
  - inversion Hok as [|? ? [Hg Hpk] Hok']; subst. cbn [map] in Hnd. inversion Hnd as [|? ? Hnotin Hnd']; subst.
    unfold create_tables; cbn [foldM]. unfold create_table at 1.
    assert (Hnone : find_tab (t_name t) (db_tabs d) = None).
    { apply find_tab_none. apply Hfresh. now left. }
    rewrite Hnone, Hg, Hpk. cbn [negb bind].
    match goal with |- context [foldM create_table tl ?d1] => destruct (IH d1 Hok' Hnd') as [d' [Hrun [Ht [Hs [Hx Hw]]]]] end.
    { intros t' Hin. cbn [db_tabs]. rewrite map_app, in_app_iff. cbn [map In fresh_tab tab_name ts_desc desc_of td_name].
      intros [H|[H|[]]].
      - eapply Hfresh; [right; exact Hin|exact H].
      - apply Hnotin. rewrite H. now apply in_map. }
    exists d'. split; [exact Hrun|]. cbn [db_tabs db_srs db_txs db_writes] in *.
    rewrite Ht, Hs, Hx, Hw. cbn [map fold_left]. rewrite <- app_assoc. repeat split; reflexivity.
Qed.

Lemma find_tab_in_fresh : forall tl t l, NoDup (map t_name tl) -> In t tl ->
  (forall t', In t' tl -> ~ In (t_name t') (map tab_name l)) ->
  find_tab (t_name t) (l ++ map fresh_tab tl) = Some (fresh_tab t).
Proof.
  induction tl as [|t0 tl IH]; intros t l Hnd Hin Hfresh; [destruct Hin|].
  cbn [map] in *. inversion Hnd as [|? ? Hnotin Hnd']; subst.
  replace (l ++ fresh_tab t0 :: map fresh_tab tl) with ((l ++ [fresh_tab t0]) ++ map fresh_tab tl)
    by (now rewrite <- app_assoc).
  destruct Hin as [->|Hin].
  - assert (H : find_tab (t_name t) (l ++ [fresh_tab t]) = Some (fresh_tab t)).
    { apply find_tab_app_new; [|reflexivity]. apply find_tab_none. apply Hfresh. now left. }
    clear - H. induction (map fresh_tab tl) as [|y r IHr]; [now rewrite app_nil_r|].
    replace ((l ++ [fresh_tab t]) ++ y :: r) with (((l ++ [fresh_tab t]) ++ [y]) ++ r) by (now rewrite <- app_assoc).
    revert H. generalize (l ++ [fresh_tab t]). intros l0 H.
    assert (H' := find_tab_app_old _ _ y _ H). clear H.
    revert H'. generalize (l0 ++ [y]). clear. induction r as [|z r IH]; intros l1 H; [now rewrite app_nil_r|].
    replace (l1 ++ z :: r) with ((l1 ++ [z]) ++ r) by (now rewrite <- app_assoc). apply IH.
    now apply find_tab_app_old.
  - apply IH; auto. intros t' Hin'. rewrite map_app, in_app_iff. cbn [map In fresh_tab tab_name ts_desc desc_of td_name].
    intros [H|[H|[]]].
    + eapply Hfresh; [right; exact Hin'|exact H].
    + apply Hnotin. rewrite H. now apply in_map.
Qed.

(** srs rows: the source's row replaces a row with the same id, so the LAST table with an id decides *)
Lemma find_srs_app : forall id l s,
  find_srs id (l ++ [s]) = match find_srs id l with Some k => Some k | None => if Z.eqb (s_id s) id then Some s else None end.
Proof.
  induction l as [|x l IH]; intros s; cbn [app find_srs]; [reflexivity|].
  destruct (Z.eqb (s_id x) id); [reflexivity|apply IH].
Qed.

Lemma find_srs_update : forall id l s,
  find_srs id (update_srs l s) = if Z.eqb (s_id s) id then Some s else find_srs id l.
Proof.
  induction l as [|x l IH]; intros s; cbn [update_srs find_srs]; [reflexivity|].
  destruct (Z.eqb_spec (s_id x) (s_id s)) as [E|E]; cbn [find_srs].
  - destruct (Z.eqb_spec (s_id s) id) as [E2|E2]; [reflexivity|].
    destruct (Z.eqb_spec (s_id x) id) as [E3|E3]; [congruence|reflexivity].
  - rewrite IH. destruct (Z.eqb_spec (s_id x) id) as [E3|E3]; [|reflexivity].
    destruct (Z.eqb_spec (s_id s) id) as [E2|E2]; [congruence|reflexivity].
Qed.

Lemma find_srs_fold : forall ss l id,
  find_srs id (fold_left update_srs ss l) =
  match find_srs id (rev ss) with Some k => Some k | None => find_srs id l end.
Proof.
  induction ss as [|s ss IH]; intros l id; cbn [fold_left rev find_srs]; [reflexivity|].
  rewrite IH, find_srs_app, find_srs_update. destruct (find_srs id (rev ss)); [reflexivity|].
  destruct (Z.eqb (s_id s) id); reflexivity.
Qed.

Lemma find_srs_some : forall id l s, find_srs id l = Some s -> In s l /\ s_id s = id.
Proof.
  induction l as [|x l IH]; intros s H; [discriminate|]. cbn [find_srs] in H.
  destruct (Z.eqb_spec (s_id x) id) as [E|E].
  - injection H as <-. split; [now left|exact E].
  - destruct (IH _ H). split; [now right|assumption].
Qed.

Lemma find_srs_in : forall id l s, In s l -> s_id s = id -> exists s', find_srs id l = Some s'.
Proof.
  induction l as [|x l IH]; intros s Hin Hid; [destruct Hin|]. cbn [find_srs].
  destruct (Z.eqb_spec (s_id x) id) as [E|E]; [eauto|].
  destruct Hin as [->|Hin]; [contradiction|]. eapply IH; eauto.
Qed.

(** what the code does in general: per srs id the row of the LAST table with that id, else what was there *)
Lemma create_tables_srs : forall tl d d' id,
  Forall table_ok tl -> NoDup (map t_name tl) ->
  (forall t, In t tl -> ~ In (t_name t) (map tab_name (db_tabs d))) ->
  create_tables d tl = Ok d' ->
  find_srs id (db_srs d') =
  match find_srs id (rev (map t_srs tl)) with Some s => Some s | None => find_srs id (db_srs d) end.
Proof.
  intros tl d d' id Hok Hnd Hfresh H.
  destruct (create_tables_spec tl d Hok Hnd Hfresh) as [d2 [Hrun [_ [Hs _]]]].
  rewrite H in Hrun. injection Hrun as <-. rewrite Hs. apply find_srs_fold.
Qed.

(** *** schema_copied: a new file on which CreateTables ran describes every table as the source does,
    and holds the source's srs row for EVERY srs id (also the ids the library pre-seeds) *)
Theorem create_tables_fresh : forall tl,
  Forall table_ok tl -> NoDup (map t_name tl) ->
  (* the source's srs table has one row per id *)
  (forall t t', In t tl -> In t' tl -> s_id (t_srs t) = s_id (t_srs t') -> t_srs t = t_srs t') ->
  exists d, create_tables empty_db tl = Ok d /\
    map ts_desc (db_tabs d) = map desc_of tl /\
    (forall t, In t tl ->
       find_tab (t_name t) (db_tabs d) = Some (fresh_tab t) /\
       find_srs (s_id (t_srs t)) (db_srs d) = Some (t_srs t)).
Proof.
  intros tl Hok Hnd Hcons.
  destruct (create_tables_spec tl empty_db Hok Hnd) as [d [Hrun [Ht [Hs _]]]]; [intros ? ? []|].
  exists d. split; [exact Hrun|]. cbn [empty_db db_tabs db_srs app] in *. split.
  - rewrite Ht, map_map. apply map_ext. reflexivity.
  - intros t Hin. split.
    + rewrite Ht. apply (find_tab_in_fresh tl t []); auto.
    + rewrite Hs, find_srs_fold.
      destruct (find_srs_in (s_id (t_srs t)) (rev (map t_srs tl)) (t_srs t)) as [s' Hs'];
        [apply -> in_rev; now apply in_map|reflexivity|].
      rewrite Hs'. f_equal. apply find_srs_some in Hs'. destruct Hs' as [Hin' Hid].
      apply in_rev in Hin'. apply in_map_iff in Hin'. destruct Hin' as [t' [<- Hin']]. symmetry. apply Hcons; auto.
Qed.

(** the description equals the source's when no column is a member of a composite key *)
Lemma desc_of_faithful : forall t, Forall (fun c => (c_pk c <= 1)%N) (t_cols t) ->
  desc_of t = MkDesc (t_name t) (t_cols t) (t_gcol t) (t_gtype t) (s_id (t_srs t)).
Proof.
  intros t H. unfold desc_of. f_equal. induction (t_cols t) as [|c l IH]; [reflexivity|].
  inversion H as [|? ? Hc Hl]; subst. cbn [map]. rewrite IH by assumption. f_equal.
  destruct c as [n ty nn pk]; unfold norm_col; cbn in *. f_equal.
  destruct (N.eqb_spec pk 1); lia.
Qed.

(** ** 8. Derived statements used by Properties/C12.v *)

(** merging the extents of the pages of ANY split of a stream gives the bounding box of the stream *)
Lemma pages_merge : forall pages old,
  fold_left (fun acc pg => merge_extent acc (page_extent pg)) pages old =
  merge_extent old (pts_ext (all_pts (List.concat pages))).
Proof.
  induction pages as [|pg pages IH]; intros old; cbn [fold_left List.concat]; [reflexivity|].
  now rewrite IH, page_extent_bbox, all_pts_app, pts_ext_app, merge_assoc.
Qed.

Lemma bbox_monoid :
  (forall a, merge_extent None a = a) /\ (forall a, merge_extent a None = a) /\
  (forall a b c, merge_extent (merge_extent a b) c = merge_extent a (merge_extent b c)) /\
  (forall a b, merge_extent a b = merge_extent b a) /\ (forall a, merge_extent a a = a).
Proof. repeat split; auto using merge_none_l, merge_assoc, merge_comm, merge_idem. Qed.

Lemma extent_is_bbox : forall t p fs d d' ts ts' pts0,
  0 < p -> find_tab (t_name t) (db_tabs d) = Some ts -> has_col (t_gcol t) (t_cols t) = true ->
  Forall (fun f => fits t f = true) fs -> write_features p t d fs = Ok d' ->
  find_tab (t_name t) (db_tabs d') = Some ts' ->
  ts_extent ts = pts_ext pts0 ->
  ts_extent ts' = pts_ext (pts0 ++ all_pts fs) /\
  (forall e, ts_extent ts' = Some e -> is_bbox e (pts0 ++ all_pts fs)) /\
  (ts_extent ts' = None <-> pts0 ++ all_pts fs = []).
Proof.
  intros t p fs d d' ts ts' pts0 Hp Hfind Hg Hf Hrun Hfind' H0.
  assert (E : ts_extent ts' = pts_ext (pts0 ++ all_pts fs)).
  { rewrite (extent_merged t p fs d d' ts ts' Hp Hfind Hg Hf Hrun Hfind'), H0. now rewrite pts_ext_app. }
  split; [exact E|]. rewrite E. split; [apply pts_ext_is_bbox|apply pts_ext_none].
Qed.

Lemma rtree_count : forall t p fs d d' ts ts',
  0 < p -> find_tab (t_name t) (db_tabs d) = Some ts -> has_col (t_gcol t) (t_cols t) = true ->
  Forall (fun f => fits t f = true) fs -> write_features p t d fs = Ok d' ->
  find_tab (t_name t) (db_tabs d') = Some ts' ->
  ts_rtree ts' = ts_rtree ts ++ rtree_of (len (ts_rows ts)) fs /\
  len (ts_rtree ts') = (len (ts_rtree ts) + nonempty_count fs)%nat /\
  (forall i e, In (i, e) (rtree_of (len (ts_rows ts)) fs) ->
     exists k f, nth_error fs k = Some f /\ i = N.of_nat (len (ts_rows ts) + k) /\
                 pts_ext (g_pts (f_geom f)) = Some e).
Proof.
  intros t p fs d d' ts ts' Hp Hfind Hg Hf Hrun Hfind'.
  assert (E := rtree_entries t p fs d d' ts ts' Hp Hfind Hg Hf Hrun Hfind').
  split; [exact E|]. split.
  - now rewrite E, app_length, rtree_of_length.
  - intros i e. apply rtree_of_in.
Qed.

Lemma table_ok_in : forall tl t, Forall table_ok tl -> In t tl -> table_ok t.
Proof. intros tl t H Hin. rewrite Forall_forall in H. now apply H. Qed.

(** a NEW file: CreateTables for the source's tables, then one WriteFeatures call for one of them *)
Theorem fresh_file_spec : forall tl t p fs,
  Forall table_ok tl -> NoDup (map t_name tl) ->
  (forall t1 t2, In t1 tl -> In t2 tl -> s_id (t_srs t1) = s_id (t_srs t2) -> t_srs t1 = t_srs t2) ->
  In t tl -> 0 < p -> Forall (fun f => fits t f = true) fs ->
  exists d0 d' ts' rs,
    create_tables empty_db tl = Ok d0 /\ write_features p t d0 fs = Ok d' /\
    find_tab (t_name t) (db_tabs d') = Some ts' /\
    (* rows *)      ts_rows ts' = rs /\ map (row_of t) fs = map Some rs /\ len rs = len fs /\
    (* extent *)    ts_extent ts' = pts_ext (all_pts fs) /\
    (* rtree *)     ts_rtree ts' = rtree_of 0 fs /\ len (ts_rtree ts') = nonempty_count fs /\
    (* schema *)    ts_desc ts' = desc_of t /\ map ts_desc (db_tabs d') = map desc_of tl /\
                    find_srs (s_id (t_srs t)) (db_srs d') = Some (t_srs t) /\
    (* transactions *) Z.of_N (db_txs d') = Z.of_nat (len fs) / p + 1.
Proof.
  intros tl t p fs Hok Hnd Hcons Hin Hp Hf.
  destruct (create_tables_fresh tl Hok Hnd Hcons) as [d0 [Hc [Hdesc Hall]]].
  destruct (Hall t Hin) as [Hfind Hsrs].
  destruct (table_ok_in _ _ Hok Hin) as [Hg _].
  destruct (write_features_spec t p fs d0 (fresh_tab t) Hp Hfind Hg Hf) as [rs [d' [Hrs [Hrun [Hs [Ht Hx]]]]]].
  assert (Hfind' : find_tab (t_name t) (db_tabs d') = Some (apply_rows (fresh_tab t) fs rs)).
  { apply (written_table t d0 d' (fresh_tab t) _ Hfind Ht). reflexivity. }
  exists d0, d', (apply_rows (fresh_tab t) fs rs), rs.
  split; [exact Hc|]. split; [exact Hrun|]. split; [exact Hfind'|].
  unfold apply_rows, fresh_tab; cbn [ts_desc ts_rows ts_extent ts_rtree app len].
  repeat split; auto.
  - eapply rows_for_length; eauto.
  - now rewrite merge_none_l.
  - apply rtree_of_length.
  - rewrite Ht. clear - Hdesc Hfind.
    revert Hfind. generalize (fresh_tab t). rewrite <- Hdesc. generalize (db_tabs d0). clear.
    induction l as [|y l IH]; intros x H; [reflexivity|]. cbn [find_tab replace_tab map] in *.
    destruct (String.eqb (td_name (ts_desc y)) (t_name t)).
    + injection H as ->. reflexivity.
    + cbn [map]. f_equal. now apply IH.
  - rewrite Hs. exact Hsrs.
  - rewrite Hx. assert (E : db_txs d0 = 0%N).
    { destruct (create_tables_spec tl empty_db Hok Hnd) as [d1 [Hc1 [_ [_ [Hx1 _]]]]]; [intros ? ? []|].
      rewrite Hc in Hc1. injection Hc1 as <-. exact Hx1. }
    rewrite E. reflexivity.
Qed.

(** F10 regression (fixed by e2006e7): an srs id that gpkg.Open pre-seeds (-1, 0, 4326, 3857) used to keep
    the LIBRARY's row; now the source's row is copied over it *)
Definition witness_srs : srs := MkSrs "WGS 84 / Pseudo-Mercator" 3857 "EPSG" 3857 77 "as written by GDAL".
Definition witness_table : table :=
  MkTable "roads" [MkCol "fid" "INTEGER" true 1; MkCol "geom" "LINESTRING" false 0] "geom" 2 witness_srs.

(** ** 9. Writing to one table never touches another (no side condition on the stream) *)

Lemma insert_rows_desc : forall t fs ts ts', foldM (insert_row t) fs ts = Ok ts' -> ts_desc ts' = ts_desc ts.
Proof.
  intros t fs; induction fs as [|f fs IH]; intros ts ts' H; cbn [foldM] in H; [now injection H as <-|].
  destruct (insert_row t ts f) as [ts1|] eqn:E; [|discriminate]. cbn [bind] in H.
  rewrite (IH _ _ H). unfold insert_row in E.
  destruct (negb (geom_known (f_geom f))); [discriminate|].
  destruct (negb (has_col (t_gcol t) (t_cols t))); [discriminate|].
  destruct (weave (t_cols t) (t_gcol t) (f_attrs f) (f_geom f)); [|discriminate].
  now injection E as <-.
Qed.

Lemma flush_other : forall t d fs d' m, flush t d fs = Ok d' -> m <> t_name t ->
  find_tab m (db_tabs d') = find_tab m (db_tabs d).
Proof.
  intros t d fs d' m H Hm. unfold flush in H.
  destruct (find_tab (t_name t) (db_tabs d)) as [ts|] eqn:Ef; [|discriminate].
  destruct (foldM (insert_row t) fs ts) as [ts1|] eqn:Ei; [|discriminate]. cbn [bind] in H.
  injection H as <-. cbn [db_tabs]. apply find_replace_other; [|exact Hm].
  unfold tab_name; cbn [ts_desc]. rewrite (insert_rows_desc _ _ _ _ Ei). apply (find_tab_name _ _ _ Ef).
Qed.

Lemma recv_other : forall w f w' m, recv w f = Ok w' -> m <> t_name (w_table w) ->
  w_table w' = w_table w /\ w_p w' = w_p w /\ find_tab m (db_tabs (w_db w')) = find_tab m (db_tabs (w_db w)).
Proof.
  intros w f w' m H Hm. unfold recv in H. destruct (w_p w =? 0); [discriminate|].
  destruct (Z.rem (Z.of_nat (List.length (w_buf w ++ [f]))) (w_p w) =? 0).
  - destruct (flush (w_table w) (w_db w) (w_buf w ++ [f])) as [d1|] eqn:E; [|discriminate]. cbn [bind] in H.
    injection H as <-. cbn. repeat split. eapply flush_other; eauto.
  - injection H as <-. cbn. repeat split.
Qed.

Lemma write_features_other : forall p t d fs d' m, write_features p t d fs = Ok d' -> m <> t_name t ->
  find_tab m (db_tabs d') = find_tab m (db_tabs d).
Proof.
  intros p t d fs d' m H Hm. unfold write_features in H.
  assert (G : forall fs w, w_table w = t ->
            (do w' <- foldM recv fs w; close w') = Ok d' -> find_tab m (db_tabs d') = find_tab m (db_tabs (w_db w))).
  { clear H. induction fs0 as [|f fs0 IH]; intros w Hw H; cbn [foldM bind] in H.
    - unfold close in H. rewrite Hw in H. eapply flush_other; eauto.
    - destruct (recv w f) as [w1|] eqn:E; [|discriminate]. cbn [bind] in H.
      destruct (recv_other _ _ _ m E) as [H1 [_ H3]]; [now rewrite Hw|].
      rewrite <- H3. apply IH; [congruence|exact H]. }
  apply (G fs (MkWriter p t [] d)); [reflexivity|exact H].
Qed.
