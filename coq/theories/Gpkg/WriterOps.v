(** * Gpkg/WriterOps.v — what the REGENERATED writer (gen/GpkgWriterGen.v) is written in.

    Definitions only.  translator/gpkgwriter.go turns [TargetGeopackage.WriteFeatures] and
    [TargetGeopackage.writeFeatures] of processing/gpkg/gpkg.go into Gallina, statement by statement: all
    control flow, the page arithmetic, the order of the calls and every condition come from the AST.  The
    calls into database/sql, go-sqlite3, the GeoPackage library and package log cannot be translated; each
    is mapped — after its exact shape has been checked in the AST — to one of the operations [op_...] below,
    which decompose [Gpkg.Model.flush] into the steps the code takes.  They are the MODELLED part (trusted
    base) of the tie [C12_source_tie_writer]; Gpkg/ProofsGenWriter.v proves that the regenerated functions,
    built from these steps, equal the model's [flush] / [write_features] on ALL inputs.

    The hidden mutable state behind [target.handle] / [tx] / [stmt] is the explicit [world]; every call
    that can change it takes and returns it. *)
From Coq Require Import ZArith NArith List Bool String Ascii.
From Texel Require Import Gpkg.Model.
Import ListNotations.
Open Scope Z_scope.

(** ** Results of the regenerated code: the model's error values plus the Go panics the model does not
    have (the tie shows they cannot happen) *)
Inductive werr :=
| Model (e : gerr)     (* log.Fatalf / log.Fatalln with an error of the modelled library; integer divide by zero *)
| FatalNoError         (* log.Fatalf reached with a nil error *)
| IndexOutOfRange      (* runtime error: index out of range *)
| SliceBounds          (* runtime error: slice bounds out of range *)
| OutOfFuel            (* the fuel of a translated [for] loop ran out *)
| ApiMisuse            (* a transaction / statement used when it is not open *)
| Stop (what : string). (* any other way the process ends or a call fails, named by a text (used by the schema side,
                           Gpkg/SchemaOps.v: nil dereference, failed type assertion, log.Fatalf without an error value,
                           an SQL error the model has no value for) *)

Inductive wres (A : Type) := WOk (a : A) | WErr (e : werr).
Arguments WOk {A} a.
Arguments WErr {A} e.

Definition wbind {A B} (r : wres A) (f : A -> wres B) : wres B :=
  match r with WOk a => f a | WErr e => WErr e end.
Notation "'wdo' x <- r ; k" := (wbind r (fun x => k)) (at level 200, x pattern, r at level 100, k at level 200).

Definition lift {A} (r : res A) : wres A := match r with Ok a => WOk a | Err e => WErr (Model e) end.

(** Go's [error]: nil or a value *)
Definition goerr := option werr.
Definition is_nil {A} (o : option A) : bool := match o with None => true | Some _ => false end.
(** log.Fatalf(.., err) / log.Fatalln(.., err): the process ends with that error *)
Definition fatal (e : goerr) : werr := match e with Some x => x | None => FatalNoError end.

(** ** Loops *)
Inductive lctl (S : Type) : Type := Cont (s : S) | Brk (s : S).
Arguments Cont {S} s.
Arguments Brk {S} s.

(** [for _, x := range l { body }] over the variables the body assigns: [Cont] = next element (also
    [continue]), [Brk] = [break] *)
Fixpoint wrange_loop {A S : Type} (body : A -> S -> wres (lctl S)) (l : list A) (s : S) : wres S :=
  match l with
  | [] => WOk s
  | x :: l' =>
      match body x s with
      | WErr e => WErr e
      | WOk (Cont s') => wrange_loop body l' s'
      | WOk (Brk s') => WOk s'
      end
  end.

(** ** Go values *)
Definition zlen {A} (l : list A) : Z := Z.of_nat (List.length l).

(** [a % b] on int: truncated remainder, panics for b = 0 *)
Definition go_rem (a b : Z) : wres Z := if Z.eqb b 0 then WErr (Model DivZero) else WOk (Z.rem a b).

(** [int32(x)] (wrap-around) *)
Definition go_int32 (x : Z) : Z := (x + 2147483648) mod 4294967296 - 2147483648.

(** [l[i]] *)
Definition widx {A} (l : list A) (i : Z) : wres A :=
  if i <? 0 then WErr IndexOutOfRange
  else match nth_error l (Z.to_nat i) with Some a => WOk a | None => WErr IndexOutOfRange end.

(** [l[lo:hi:max]]; checked against the length (Go: against the capacity, which is at least the length) *)
Definition slice3 {A} (l : list A) (lo hi mx : Z) : wres (list A) :=
  if (lo <? 0) || (hi <? lo) || (mx <? hi) || (zlen l <? mx) then WErr SliceBounds
  else WOk (firstn (Z.to_nat (hi - lo)) (skipn (Z.to_nat lo) l)).

(** a geometry blob (pointer to gpkg.StandardBinary): the srs id in its header and the geometry *)
Definition blob := (Z * geom)%type.

(** [interface{}] values that occur: a column value, a geometry blob, a Go string *)
Inductive anyv := AVal (v : value) | ABin (b : blob) | AStr (s : string).

(** a nil processing.Feature (what a receive from the closed channel yields; never used by the code) *)
Definition feature_nil : feature := MkFeature [] (MkGeom 0 [] 0).

(** [x, ok := <-ch]: the channel is the list of values sent before it is closed *)
Definition chan_recv {A} (zero : A) (ch : list A) : A * bool * list A :=
  match ch with
  | [] => (zero, false, [])
  | x :: r => (x, true, r)
  end.

(** pointer to TargetGeopackage: [Table], [pagesize]; [handle] is the [world] *)
Record target := MkTarget { tg_Table : table; tg_pagesize : Z }.

(** handles are tokens; what they stand for is in the world *)
Inductive txh := TxH.
Inductive stmth := StmtH.
(** the text of an SQL statement, as far as the model distinguishes it *)
Inductive sqltext := InsertSQL (t : table).

(** the database file ([wd_db]: committed state) and the connection: is a transaction open, the table
    state the open transaction works on (set by Prepare), is a prepared statement open, did the
    transaction insert a row *)
Record world := MkWorld {
  wd_db : db;
  wd_open : bool;
  wd_pend : option (table * tabstate);
  wd_prepared : bool;
  wd_dirty : bool
}.

Definition idle (d : db) : world := MkWorld d false None false false.

Definition lift_db (r : res db) : wres world :=
  match r with Ok d => WOk (idle d) | Err e => WErr (Model e) end.

(** ** The modelled calls *)

(** Table.insertSQL() *)
Definition op_insertSQL (t : table) : sqltext := InsertSQL t.

(** processing.Feature: Geometry() is [f_geom]; Columns() *)
Definition op_Columns (f : feature) : list anyv := map AVal (f_attrs f).

(** target.handle.Begin() *)
Definition op_Begin (w : world) : world * (txh * goerr) :=
  if wd_open w then (w, (TxH, Some ApiMisuse))
  else (MkWorld (wd_db w) true None (wd_prepared w) false, (TxH, None)).

(** tx.Prepare(Table.insertSQL()): "no such table" unless the table is registered *)
Definition op_Prepare (w : world) (tx : txh) (q : sqltext) : world * (stmth * goerr) :=
  match q with
  | InsertSQL t =>
      if negb (wd_open w) then (w, (StmtH, Some ApiMisuse))
      else match find_tab (t_name t) (db_tabs (wd_db w)) with
           | None => (w, (StmtH, Some (Model NoSuchTable)))
           | Some ts => (MkWorld (wd_db w) true (Some (t, ts)) true (wd_dirty w), (StmtH, None))
           end
  end.

(** gpkg.NewBinary(srsid, geometry): the blob is the srs id for its header and the geometry itself; nil / unknown
    geometries are refused. *)
Definition op_NewBinary (srsid : Z) (g : geom) : blob * goerr :=
  if geom_known g then ((srsid, g), None) else ((srsid, g), Some (Model UnknownGeometry)).

(** the arguments of stmt.Exec: column values followed by ONE geometry blob *)
Fixpoint split_args (data : list anyv) : option (list value * blob) :=
  match data with
  | [] => None
  | [ABin g] => Some ([], g)
  | AVal v :: r => match split_args r with Some (vs, g) => Some (v :: vs, g) | None => None end
  | _ => None
  end.

(** stmt.Exec(data...) = [insert_row] of the model on the table state of the open transaction.
    The model's rows hold geometries, not blobs: a stored geometry is understood to carry, in its blob header, the srs
    id of its table (int32, as gpkg_geometry_columns registers it).  A blob with ANOTHER header srs id is therefore
    outside the model and reported as such (SQLite itself would store it); the tie [C12_source_tie_writer] shows that
    the code never hands one over, i.e. NewBinary's first argument is the table's srs id. *)
Definition op_Exec (w : world) (s : stmth) (data : list anyv) : world * (unit * goerr) :=
  if negb (wd_prepared w) then (w, (tt, Some ApiMisuse))
  else match wd_pend w with
       | None => (w, (tt, Some ApiMisuse))
       | Some (t, ts) =>
           match split_args data with
           | None => (w, (tt, Some (Model ArgCount)))
           | Some (attrs, (sid, g)) =>
               if negb (Z.eqb sid (go_int32 (s_id (t_srs t))))
               then (w, (tt, Some (Stop "outside the model: the srs id in the blob header is not the srs id of the table")))
               else
               match insert_row t ts (MkFeature attrs g) with
               | Err e => (w, (tt, Some (Model e)))
               | Ok ts' => (MkWorld (wd_db w) (wd_open w) (Some (t, ts')) (wd_prepared w) true, (tt, None))
               end
           end
       end.

(** stmt.Close() *)
Definition op_StmtClose (w : world) (s : stmth) : world :=
  MkWorld (wd_db w) (wd_open w) (wd_pend w) false (wd_dirty w).

(** tx.Commit(): the table state of the transaction becomes the file's; one more transaction; the file
    changes when a row was inserted *)
Definition op_Commit (w : world) (tx : txh) : world * goerr :=
  if negb (wd_open w) then (w, Some ApiMisuse)
  else
    let d := wd_db w in
    let tabs := match wd_pend w with
                | None => db_tabs d
                | Some (t, ts) => replace_tab (t_name t) ts (db_tabs d)
                end in
    (MkWorld (MkDb (db_srs d) tabs (N.succ (db_txs d)) (db_writes d + (if wd_dirty w then 1 else 0))%N)
             false None (wd_prepared w) false, None).

(** cmp.IsEmptyGeo *)
Definition op_IsEmptyGeo (g : geom) : bool := geom_empty g.

(** geom.NewExtentFromGeometry: (nil, err) for an unknown geometry, (nil, nil) without coordinates *)
Definition op_NewExtentFromGeometry (g : geom) : option ext * goerr :=
  if geom_known g then (new_extent_from_geometry g, None) else (None, Some (Model UnknownGeometry)).

(** ext.AddGeometry(g) on a non-nil extent owned by the caller (the error result is discarded by the code) *)
Definition op_AddGeometry (e : option ext) (g : geom) : option ext :=
  match e with Some x => Some (add_geometry x g) | None => None end.

(** target.handle.UpdateGeometryExtent(name, ext): nothing for a nil extent; otherwise the recorded extent
    becomes the union (the page extent when NULL), which changes the file unless it is the same record *)
Definition op_UpdateGeometryExtent (w : world) (name : string) (e : option ext) : world * goerr :=
  match e with
  | None => (w, None)
  | Some pe =>
      let d := wd_db w in
      match find_tab name (db_tabs d) with
      | None => (w, Some (Model NoSuchTable))
      | Some ts =>
          let ne := merge_extent (ts_extent ts) (Some pe) in
          let ts2 := MkTab (ts_desc ts) (ts_rows ts) ne (ts_rtree ts) in
          let w2 := if option_eqb ext_eqb ne (ts_extent ts) then 0%N else 1%N in
          (MkWorld (MkDb (db_srs d) (replace_tab name ts2 (db_tabs d)) (db_txs d) (db_writes d + w2)%N)
                   (wd_open w) (wd_pend w) (wd_prepared w) (wd_dirty w), None)
      end
  end.

(** ** The SQL texts (createSQL / selectSQL / insertSQL are regenerated as functions to [string]) *)

(** the Go struct [column] has [notnull int] and [pk int] (PRAGMA table_info); the model has a bool and an N *)
Definition go_notnull (c : column) : Z := Z.b2z (c_notnull c).
Definition go_pk (c : column) : Z := Z.of_N (c_pk c).

(** strings.ReplaceAll(s, old, new) for an [old] of ONE byte below 0x80 (the translator accepts nothing else): Go replaces
    the non-overlapping occurrences from the left; occurrences of one byte cannot overlap, and a byte below 0x80 is never
    part of a multi-byte UTF-8 sequence, so every such byte is replaced.  Strings are byte strings on both sides. *)
Fixpoint op_ReplaceAll1 (s : string) (old : ascii) (new : string) : string :=
  match s with
  | EmptyString => EmptyString
  | String c r => if Ascii.eqb c old then String.append new (op_ReplaceAll1 r old new) else String c (op_ReplaceAll1 r old new)
  end.

(** ** SQL identifiers (fix a631213, F20).  A column name is written in double quotes, a double quote in the name doubled:
    any name -- an SQL keyword ("order"), a name with a space, a dash, a leading digit, a quote, non-ASCII bytes -- is
    then ONE identifier token that stands for exactly that name ([read_ident] below is SQLite's reading of such a token). *)
Definition dquote : ascii := """"%char.

Fixpoint double_quotes (s : string) : string :=
  match s with
  | EmptyString => EmptyString
  | String c r => if Ascii.eqb c dquote then String c (String c (double_quotes r)) else String c (double_quotes r)
  end.

(** the model of [quoteIdentifier] *)
Definition quote_ident (s : string) : string := String dquote (String.append (double_quotes s) (String dquote EmptyString)).

(** how SQL reads a quoted identifier: after the opening quote, up to the first double quote that is not followed by
    another one; a doubled quote stands for one quote character.  Result: the name and the text after the closing quote
    ([None]: the closing quote is missing). *)
Fixpoint read_ident_body (s : string) : option (string * string) :=
  match s with
  | EmptyString => None
  | String c r =>
      if Ascii.eqb c dquote then
        match r with
        | String c2 r2 =>
            if Ascii.eqb c2 dquote
            then match read_ident_body r2 with Some (n, rest) => Some (String dquote n, rest) | None => None end
            else Some (EmptyString, r)
        | EmptyString => Some (EmptyString, EmptyString)
        end
      else match read_ident_body r with Some (n, rest) => Some (String c n, rest) | None => None end
  end.

Definition read_ident (s : string) : option (string * string) :=
  match s with
  | String c r => if Ascii.eqb c dquote then read_ident_body r else None
  | EmptyString => None
  end.

(** the name a text that is exactly one quoted identifier stands for *)
Definition unquote_ident (s : string) : option string :=
  match read_ident s with Some (n, EmptyString) => Some n | _ => None end.

(** a list of quoted identifiers separated by [sep] (one character that is not a double quote: the comma of the column
    lists), read back; fuel = the length of the text is always enough *)
Fixpoint read_ident_list (fuel : nat) (sep : ascii) (s : string) : option (list string) :=
  match fuel with
  | O => None
  | S fuel' =>
      match read_ident s with
      | Some (n, EmptyString) => Some [n]
      | Some (n, String c r) =>
          if Ascii.eqb c sep
          then match read_ident_list fuel' sep r with Some l => Some (n :: l) | None => None end
          else None
      | None => None
      end
  end.

(** a column definition of CREATE TABLE as createSQL writes it *)
Definition col_sql (c : column) : string :=
  let p := String.append (String.append (quote_ident (c_name c)) " ") (c_type c) in
  let p := if c_notnull c then String.append p " NOT NULL" else p in
  if N.eqb (c_pk c) 1 then String.append p " PRIMARY KEY" else p.

(** the column list of the INSERT statement: the non-geometry columns in table order, then the geometry column; in the
    text every name is a quoted identifier ([read_ident_list] reads the names back: [quoted_names_read_back]) *)
Definition insert_columns (t : table) : list string := map c_name (attr_cols t) ++ [t_gcol t].
Definition insert_columns_sql (t : table) : list string := map quote_ident (insert_columns t).
(** the column list of the SELECT statement: every table column, in table order *)
Definition select_columns_sql (t : table) : list string := map quote_ident (map c_name (t_cols t)).

(** what SQL's [INSERT INTO t(names) VALUES(vals)] stores: every table column gets the value listed under its
    name ([None]: a column that is not listed — NULL / default in SQL — or a value count that does not fit) *)
Fixpoint lookup_by_name (names : list string) (vals : list cell) (n : string) : option cell :=
  match names, vals with
  | nm :: ns, v :: vs => if String.eqb nm n then Some v else lookup_by_name ns vs n
  | _, _ => None
  end.

Fixpoint sql_row_of (cols : list column) (names : list string) (vals : list cell) : option row :=
  match cols with
  | [] => Some []
  | c :: r => match lookup_by_name names vals (c_name c), sql_row_of r names vals with
              | Some v, Some vs => Some (v :: vs)
              | _, _ => None
              end
  end.

Definition sql_insert_row (cols : list column) (names : list string) (vals : list cell) : option row :=
  if Nat.eqb (List.length names) (List.length vals) then sql_row_of cols names vals else None.
