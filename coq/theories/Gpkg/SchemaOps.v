(** * Gpkg/SchemaOps.v — what the REGENERATED schema side of processing/gpkg/gpkg.go (gen/GpkgSchemaGen.v) is written in.

    Definitions only.  translator/gpkgschema.go (on the engine of translator/gpkgwriter.go) turns
      TargetGeopackage.CreateTables, buildTable                                  (target side)
      SourceGeopackage.GetTableInfo, getTableColumns, getSpatialReferenceSystem,
      geometryTypeFromString, SourceGeopackage.ReadFeatures                      (source side)
    into Gallina, statement by statement: all control flow, the order of the calls, every condition and ALL argument
    plumbing (which srs field goes to which placeholder, which Scan destination receives which result column, which
    table field goes into which member of gpkg.TableDescription, the geometry type / z / m flags) come from the AST.
    The calls into database/sql, go-sqlite3, the GeoPackage library, package log, strings.ToUpper cannot be
    translated; each is mapped -- after its exact shape (and for SQL: its exact text) has been checked in the AST --
    to one of the operations [op_...] below.  They are the MODELLED part (trusted base) of [C12_source_tie_schema];
    Gpkg/ProofsGenSchema.v proves what the regenerated functions, built from these steps, compute on ALL inputs.

    Two databases:
    - the TARGET behind [target.handle] while CreateTables runs is [cworld]: the model's [db] plus the user tables
      that CREATE TABLE has made and AddGeometryTable has not registered yet (the model only represents complete
      registrations);
    - the SOURCE behind [source.handle] is [srcdb]: the rows of gpkg_geometry_columns and gpkg_spatial_ref_sys
      (description nullable), and per user table what PRAGMA table_info says and the rows as the driver hands them
      over.  The source side only reads (the SQL texts are checked to be SELECT / PRAGMA table_info), so [srcdb] is a
      parameter, not a state. *)
From Coq Require Import ZArith NArith List Bool String Ascii.
From Texel Require Import Gpkg.Model Gpkg.WriterOps.
Import ListNotations.
Open Scope Z_scope.

(** ** Control: a range loop whose body may [return] *)
Inductive rctl (S R : Type) : Type := RCont (s : S) | RBrk (s : S) | RRet (r : R).
Arguments RCont {S R} s.
Arguments RBrk {S R} s.
Arguments RRet {S R} r.

(** [for _, x := range l { body }]: [inl s] = the loop ended (or [break]) with the assigned variables [s];
    [inr r] = the body executed [return r] *)
Fixpoint rrange_loop {A S R : Type} (body : A -> S -> wres (rctl S R)) (l : list A) (s : S) : wres (S + R) :=
  match l with
  | [] => WOk (inl s)
  | x :: l' =>
      match body x s with
      | WErr e => WErr e
      | WOk (RCont s') => rrange_loop body l' s'
      | WOk (RBrk s') => WOk (inl s')
      | WOk (RRet r) => WOk (inr r)
      end
  end.

(** [for i, x := range l]: the elements with their index *)
Definition zindexed {A} (l : list A) : list (Z * A) := combine (map Z.of_nat (seq 0 (List.length l))) l.

(** [*p] *)
Definition wderef {A} (p : option A) : wres A :=
  match p with Some a => WOk a | None => WErr (Stop "nil pointer dereference") end.

(** what the caller (main.go:156) does with the error CreateTables returns: log.Fatalf *)
Definition outcome {W} (r : wres (W * goerr)) : wres W :=
  match r with
  | WOk (w, None) => WOk w
  | WOk (_, Some e) => WErr e
  | WErr e => WErr e
  end.

(** ** Go structs.  [Table], [column], [gpkg.SpatialReferenceSystem] are the model's [table], [column], [srs]
    (as in Gpkg/WriterOps.v); their zero values and field assignments: *)
Definition srs_zero : srs := MkSrs "" 0 "" 0 def_digest_empty "".
Definition table_zero : table := MkTable "" [] "" 0 srs_zero.
Definition column_zero : column := MkCol "" "" false 0.

Definition set_s_name (s : srs) (x : string) : srs := MkSrs x (s_id s) (s_org s) (s_orgid s) (s_def s) (s_desc s).
Definition set_s_id (s : srs) (x : Z) : srs := MkSrs (s_name s) x (s_org s) (s_orgid s) (s_def s) (s_desc s).
Definition set_s_org (s : srs) (x : string) : srs := MkSrs (s_name s) (s_id s) x (s_orgid s) (s_def s) (s_desc s).
Definition set_s_orgid (s : srs) (x : Z) : srs := MkSrs (s_name s) (s_id s) (s_org s) x (s_def s) (s_desc s).
(** the definition text is represented by its digest (Gpkg/Model.v) *)
Definition set_s_def (s : srs) (x : N) : srs := MkSrs (s_name s) (s_id s) (s_org s) (s_orgid s) x (s_desc s).
Definition set_s_desc (s : srs) (x : string) : srs := MkSrs (s_name s) (s_id s) (s_org s) (s_orgid s) (s_def s) x.

Definition set_t_name (t : table) (x : string) : table := MkTable x (t_cols t) (t_gcol t) (t_gtype t) (t_srs t).
Definition set_t_cols (t : table) (x : list column) : table := MkTable (t_name t) x (t_gcol t) (t_gtype t) (t_srs t).
Definition set_t_gcol (t : table) (x : string) : table := MkTable (t_name t) (t_cols t) x (t_gtype t) (t_srs t).
Definition set_t_gtype (t : table) (x : N) : table := MkTable (t_name t) (t_cols t) (t_gcol t) x (t_srs t).
Definition set_t_srs (t : table) (x : srs) : table := MkTable (t_name t) (t_cols t) (t_gcol t) (t_gtype t) x.

(** [column.notnull int] / [column.pk int] hold the 0/1 flag and the key position PRAGMA table_info delivers; the model
    keeps them as [bool] / [N] (read back as [go_notnull] = Z.b2z, [go_pk] = Z.of_N, Gpkg/WriterOps.v).
    [column.cid] and [column.dfltValue] are written by rows.Scan and read by nothing (the translator refuses any read,
    and checks that no other selector of these fields occurs in the package): they are not represented. *)
Definition set_c_name (c : column) (x : string) : column := MkCol x (c_type c) (c_notnull c) (c_pk c).
Definition set_c_type (c : column) (x : string) : column := MkCol (c_name c) x (c_notnull c) (c_pk c).
Definition set_c_notnull (c : column) (x : bool) : column := MkCol (c_name c) (c_type c) x (c_pk c).
Definition set_c_pk (c : column) (x : N) : column := MkCol (c_name c) (c_type c) (c_notnull c) x.
Definition set_c_cid (c : column) (x : Z) : column := c.
Definition set_c_dflt (c : column) (x : option Z) : column := c.
Definition get_c_cid (c : column) : Z := 0.
Definition get_c_dflt (c : column) : option Z := None.
(** [dfltValue *string] (fix de070c1, F17): still written by Scan only *)
Definition set_c_dflt_s (c : column) (x : option string) : column := c.
Definition get_c_dflt_s (c : column) : option string := None.

(** gpkg.GeometryType (library constants) and the names GeometryType.String() writes into gpkg_geometry_columns *)
Definition gt_Geometry : N := 0.
Definition gt_Point : N := 1.
Definition gt_Linestring : N := 2.
Definition gt_Polygon : N := 3.
Definition gt_MultiPoint : N := 4.
Definition gt_MultiLinestring : N := 5.
Definition gt_MultiPolygon : N := 6.
Definition gt_GeometryCollection : N := 7.

Definition gtype_name (n : N) : string :=
  match n with
  | 0%N => "GEOMETRY" | 1%N => "POINT" | 2%N => "LINESTRING" | 3%N => "POLYGON" | 4%N => "MULTIPOINT"
  | 5%N => "MULTILINESTRING" | 6%N => "MULTIPOLYGON" | 7%N => "GEOMETRYCOLLECTION" | _ => "UNKNOWN"
  end.

(** gpkg.MaybeBool: Prohibited = No = 0, Mandatory = Yes = 1, Optional = Maybe = 2 *)
Definition mb_Prohibited : Z := 0.
Definition mb_Mandatory : Z := 1.
Definition mb_Optional : Z := 2.

(** gpkg.TableDescription, members in the library's order *)
Record tabledesc := MkTableDescription {
  gd_Name : string; gd_ShortName : string; gd_Description : string; gd_GeometryField : string;
  gd_GeometryType : N; gd_SRS : Z; gd_Z : Z; gd_M : Z }.

(** strings.ToUpper on ASCII letters (bytes >= 128 are left alone; Go also maps a few non-ASCII runes to ASCII
    capitals, e.g. U+0131, U+017F: outside the model) *)
Definition upper_ascii (c : ascii) : ascii :=
  let n := nat_of_ascii c in if (97 <=? n)%nat && (n <=? 122)%nat then ascii_of_nat (n - 32) else c.
Fixpoint op_ToUpper (s : string) : string :=
  match s with EmptyString => EmptyString | String c r => String (upper_ascii c) (op_ToUpper r) end.

(** ** The TARGET while CreateTables runs *)
Record cworld := MkCWorld {
  cw_db : db;
  cw_user : list (string * list column)   (* user tables made by CREATE TABLE, not (yet) registered *)
}.
Definition cidle (d : db) : cworld := MkCWorld d [].

Definition with_srs (w : cworld) (l : list srs) : cworld :=
  MkCWorld (MkDb l (db_tabs (cw_db w)) (db_txs (cw_db w)) (db_writes (cw_db w))) (cw_user w).

(** target.handle.UpdateSRS(srs): INSERT .. ON CONFLICT(srs_id) DO NOTHING *)
Definition op_UpdateSRS (w : cworld) (s : srs) : cworld * goerr :=
  let l := db_srs (cw_db w) in
  (with_srs w (match find_srs (s_id s) l with Some _ => l | None => l ++ [s] end), None).

(** target.handle.Exec(`UPDATE gpkg_spatial_ref_sys SET srs_name = ?, organization = ?, organization_coordsys_id = ?,
    definition = ?, description = ? WHERE srs_id = ?;`, a1 .. a6): EVERY row with that id gets the five values *)
Definition op_ExecUpdateSrs (w : cworld) (name org : string) (orgid : Z) (def : N) (desc : string) (id : Z)
  : cworld * (unit * goerr) :=
  (with_srs w (map (fun x => if Z.eqb (s_id x) id then MkSrs name (s_id x) org orgid def desc else x)
                   (db_srs (cw_db w))), (tt, None)).

(** the text of Table.createSQL() / Table.selectSQL(), as far as the model distinguishes it (the texts themselves
    are regenerated and tied in [C12_source_tie_sql]) *)
Inductive csql := CreateSQL (t : table).
Inductive qsql := SelectSQL (t : table).
Definition op_createSQL (t : table) : csql := CreateSQL t.
Definition op_selectSQL (t : table) : qsql := SelectSQL t.

Fixpoint find_user (n : string) (l : list (string * list column)) : option (list column) :=
  match l with
  | [] => None
  | (m, cols) :: r => if String.eqb m n then Some cols else find_user n r
  end.
Definition remove_user (n : string) (l : list (string * list column)) : list (string * list column) :=
  filter (fun x => negb (String.eqb (fst x) n)) l.

(** the columns of the user table [n] and whether it is registered *)
Definition user_cols (w : cworld) (n : string) : option (list column * bool) :=
  match find_tab n (db_tabs (cw_db w)) with
  | Some ts => Some (td_cols (ts_desc ts), true)
  | None => match find_user n (cw_user w) with Some cols => Some (cols, false) | None => None end
  end.

(** h.Exec(t.createSQL()): CREATE TABLE IF NOT EXISTS "name"(columns): nothing when the table exists; no column at all
    is a syntax error.  The new table has what the text says: name, type, NOT NULL, PRIMARY KEY for pk = 1
    ([norm_col], see [gen_createSQL_spec]). *)
Definition op_ExecCreate (w : cworld) (q : csql) : cworld * (unit * goerr) :=
  match q with
  | CreateSQL t =>
      match t_cols t with
      | [] => (w, (tt, Some (Stop "SQL syntax error: CREATE TABLE without columns")))
      | _ =>
          match user_cols w (t_name t) with
          | Some _ => (w, (tt, None))
          | None => (MkCWorld (cw_db w) (cw_user w ++ [(t_name t, map norm_col (t_cols t))]), (tt, None))
          end
      end
  end.

(** h.AddGeometryTable(description), in the library's order: the srs must be there (or be one the library knows);
    the table must exist and have the geometry field; rows in gpkg_contents / gpkg_geometry_columns; the primary key
    column; the rtree table (exists already for a registered table).  The model's description [tabdesc] only
    represents registrations with identifier = description = table name and z = m = prohibited: anything else is
    reported as outside the model (the tie shows the code never asks for it).  On an error the world is returned as
    it was: partial registrations are not represented (the process ends: main.go:156). *)
Definition op_AddGeometryTable (w : cworld) (g : tabledesc) : cworld * goerr :=
  let d := cw_db w in
  let srss := match find_srs (gd_SRS g) (db_srs d) with
              | Some _ => Some (db_srs d)
              | None => match find_srs (gd_SRS g) known_srs with
                        | Some s => Some (db_srs d ++ [s])
                        | None => None
                        end
              end in
  match srss with
  | None => (w, Some (Stop "unknown srs"))
  | Some srss =>
      match user_cols w (gd_Name g) with
      | None => (w, Some (Model NoSuchColumn))
      | Some (cols, registered) =>
          if negb (has_col (gd_GeometryField g) cols) then (w, Some (Model NoSuchColumn))
          else if negb (String.eqb (gd_ShortName g) (gd_Name g) && String.eqb (gd_Description g) (gd_Name g) &&
                        Z.eqb (gd_Z g) mb_Prohibited && Z.eqb (gd_M g) mb_Prohibited)
          then (w, Some (Stop "outside the model: identifier / description differ from the table name, or z / m not prohibited"))
          else if negb (existsb (fun c => N.eqb (c_pk c) 1) cols) then (w, Some (Model NoPrimaryKey))
          else if registered then (w, Some (Model TableExists))
          else (MkCWorld (MkDb srss
                               (db_tabs d ++ [MkTab (MkDesc (gd_Name g) cols (gd_GeometryField g) (gd_GeometryType g) (gd_SRS g))
                                                    [] None []])
                               (db_txs d) (db_writes d))
                         (remove_user (gd_Name g) (cw_user w)), None)
      end
  end.

(** ** The SOURCE *)

(** a byte string as the driver hands it over: the identity of its content (the model's text id) and the geometry
    gpkg.DecodeGeometry finds in it, if it is a GeoPackage blob *)
Inductive bytesv := Bytes (id : N) (dec : option geom).
(** string(b): the text with that content *)
Definition bytes_text (b : bytesv) : N := match b with Bytes id _ => id end.
(** b itself, kept as a []byte attribute value (fix 4dc32dc, F19): the blob with that content *)
Definition bytes_blob (b : bytesv) : N := match b with Bytes id _ => id end.
(** x := make([]byte, len(b)); copy(x, b): a copy with the same content *)
Definition bytes_copy (b : bytesv) : bytesv := b.

(** what rows.Scan stores into an *interface{}: []uint8 (a BLOB cell), int64, float64, time.Time (a cell of a column declared
    DATE / DATETIME / TIMESTAMP), string (a TEXT cell), bool (an INTEGER cell z of a column declared BOOLEAN: go-sqlite3 hands
    over [z > 0]), nil -- or something else (no such driver value is known; [DOther] keeps the default branch of the type
    switch meaningful) *)
Inductive drv := DBytes (b : bytesv) | DInt (z : Z) | DFloat (q : Z) | DTime (ns : Z) | DString (s : N) | DBool (b : bool) | DNil | DOther (k : N).

(** a Go bool as an attribute value: go-sqlite3 binds a bool argument of stmt.Exec as the integer 1 / 0 (sqlite3_bind_int),
    and nothing between ReadFeatures and stmt.Exec looks at the value: it is represented by that integer *)
Definition value_of_bool (b : bool) : value := VInt (Z.b2z b).

(** x.([]byte) *)
Definition assert_bytes (v : drv) : wres bytesv :=
  match v with DBytes b => WOk b | _ => WErr (Stop "interface conversion: interface {} is not []uint8") end.

(** a nil geom.Geometry *)
Definition geom_nil : geom := MkGeom 0 [] 0.

(** gpkg.DecodeGeometry(bytes) -> *StandardBinary (represented by its Geometry member) *)
Definition op_DecodeGeometry (b : bytesv) : geom * goerr :=
  match b with
  | Bytes _ (Some g) => (g, None)
  | Bytes _ None => (geom_nil, Some (Stop "gpkg.DecodeGeometry: not a GeoPackage geometry blob"))
  end.
Definition sb_Geometry (g : geom) : geom := g.

(** featureGPKG{columns []interface{}; geometry geom.Geometry} *)
Record gfeat := MkGFeat { gf_columns : list anyv; gf_geometry : geom }.
Definition gfeat_zero : gfeat := MkGFeat [] geom_nil.
Definition set_gf_columns (f : gfeat) (x : list anyv) : gfeat := MkGFeat x (gf_geometry f).
Definition set_gf_geometry (f : gfeat) (x : geom) : gfeat := MkGFeat (gf_columns f) x.
(** the processing.Feature a model feature is: Columns() = [op_Columns], Geometry() = [f_geom] *)
Definition gfeat_of (f : feature) : gfeat := MkGFeat (op_Columns f) (f_geom f).

(** a [chan<- processing.Feature]: what was sent, and whether it is closed *)
Record ochan := MkOChan { oc_sent : list gfeat; oc_closed : bool }.
Definition chan_send (c : ochan) (x : gfeat) : wres ochan :=
  if oc_closed c then WErr (Stop "send on closed channel") else WOk (MkOChan (oc_sent c ++ [x]) false).
Definition chan_close (c : ochan) : wres ochan :=
  if oc_closed c then WErr (Stop "close of closed channel") else WOk (MkOChan (oc_sent c) true).

(** rows of gpkg_spatial_ref_sys (description is the only nullable column) *)
Record ssrs := MkSSrs { ss_name : string; ss_id : Z; ss_org : string; ss_orgid : Z; ss_def : N; ss_desc : option string }.
(** gpkg_geometry_columns: table_name, column_name, geometry_type_name, srs_id *)
Definition gcrow := (string * string * string * Z)%type.
(** PRAGMA table_info: cid, name, type, notnull (0/1), dflt_value (NULL, an integer, or some other text), pk (0, 1, ..) *)
Inductive dfltv := DfNull | DfInt (z : Z) | DfText.
Definition tirow := (Z * string * string * bool * dfltv * N)%type.

Record stable := MkSTable { st_name : string; st_info : list tirow; st_rows : list (list drv) }.
Record srcdb := MkSrc { sd_gc : list gcrow; sd_srs : list ssrs; sd_tables : list stable }.

Fixpoint find_stable (n : string) (l : list stable) : option stable :=
  match l with
  | [] => None
  | t :: r => if String.eqb (st_name t) n then Some t else find_stable n r
  end.

(** *sql.Rows: the row Scan reads (after a successful Next), the rows to come, the result column names *)
Record cursor (T : Type) := MkCursor { cu_cur : option T; cu_rest : list T; cu_cols : list string }.
Arguments MkCursor {T} cu_cur cu_rest cu_cols.
Arguments cu_cur {T} c.
Arguments cu_rest {T} c.
Arguments cu_cols {T} c.

Definition cursor_len {T} (c : cursor T) : nat := List.length (cu_rest c).
(** rows.Next() *)
Definition op_Next {T} (c : cursor T) : cursor T * bool :=
  match cu_rest c with
  | [] => (MkCursor None [] (cu_cols c), false)
  | x :: r => (MkCursor (Some x) r (cu_cols c), true)
  end.
(** rows.Close() (deferred to the end of the function) *)
Definition op_RowsClose {T} (c : cursor T) : cursor T := MkCursor None [] (cu_cols c).
(** rows.Columns() *)
Definition op_RowsColumns {T} (c : cursor T) : list string * goerr := (cu_cols c, None).
(** rows.Err(): errors during the iteration are not modelled *)
Definition op_RowsErr {T} (c : cursor T) : goerr := None.

(** source.handle.Query(`SELECT table_name, column_name, geometry_type_name, srs_id FROM gpkg_geometry_columns;`) *)
Definition op_QueryGeometryColumns (sd : srcdb) : cursor gcrow * goerr :=
  (MkCursor None (sd_gc sd) ["table_name"; "column_name"; "geometry_type_name"; "srs_id"]%string, None).

(** h.Query(fmt.Sprintf(`PRAGMA table_info('%v');`, table)): no row for a table that does not exist *)
Definition op_QueryTableInfo (sd : srcdb) (n : string) : cursor tirow * goerr :=
  (MkCursor None (match find_stable n (sd_tables sd) with Some t => st_info t | None => [] end)
            ["cid"; "name"; "type"; "notnull"; "dflt_value"; "pk"]%string, None).

(** h.QueryRow(fmt.Sprintf(`SELECT srs_name, srs_id, organization, organization_coordsys_id, definition, description
    FROM gpkg_spatial_ref_sys WHERE srs_id = %v;`, id)): the first row with that id, if any *)
Definition op_QueryRowSrs (sd : srcdb) (id : Z) : option ssrs :=
  find (fun r => Z.eqb (ss_id r) id) (sd_srs sd).

(** position of a name in a list of names *)
Fixpoint index_of (n : string) (l : list string) : option nat :=
  match l with
  | [] => None
  | m :: r => if String.eqb m n then Some O else option_map S (index_of n r)
  end.

Definition ti_name (r : tirow) : string := let '(_, n, _, _, _, _) := r in n.

(** source.handle.Query(source.Table.selectSQL()) = SELECT "c1","c2",.. FROM "name": "no such table", a syntax error
    without columns; every row of the table, projected on the selected columns in the selected order, and these names
    (as the table declares them) as result columns.  A selected name that is NO column of the table: with bare names
    SQLite says "no such column", which is what this operation answers; a DOUBLE-QUOTED name that is no column is read by
    SQLite as a string literal (its legacy rule), so since fix a631213 the real answer is that text in every row -- the
    tool never asks for it (GetTableInfo takes the names from PRAGMA table_info of the same table; clause 8 of
    [C12_source_tie_schema] has it as a hypothesis), and nothing is proved from this branch. *)
Definition op_QuerySelect (sd : srcdb) (q : qsql) : cursor (list drv) * goerr :=
  match q with
  | SelectSQL t =>
      let names := map c_name (t_cols t) in
      let none := MkCursor None [] [] in
      match find_stable (t_name t) (sd_tables sd) with
      | None => (none, Some (Model NoSuchTable))
      | Some st =>
          let decl := map ti_name (st_info st) in
          match names with
          | [] => (none, Some (Stop "SQL syntax error: SELECT without columns"))
          | _ =>
              if forallb (fun n => match index_of n decl with Some _ => true | None => false end) names
              then (MkCursor None
                      (map (fun row => map (fun n => match index_of n decl with
                                                     | Some i => nth i row DNil
                                                     | None => DNil
                                                     end) names) (st_rows st))
                      names, None)
              else (none, Some (Model NoSuchColumn))
          end
      end
  end.

(** rows.Scan / row.Scan: the destinations get the columns of the current row in order; without a row (Scan before
    Next, QueryRow that found nothing) it fails and leaves the destinations as they are ([cur]) *)
Definition no_row : goerr := Some (Stop "sql: no rows in result set").

Definition op_ScanGC (r : option gcrow) (cur : string * string * string * Z) : (string * string * string * Z) * goerr :=
  match r with Some x => (x, None) | None => (cur, no_row) end.

(** dflt_value goes into a *int: NULL and an integer convert, any other text makes Scan fail *)
Definition op_ScanTableInfo (r : option tirow) (cur : Z * string * string * bool * option Z * N)
  : (Z * string * string * bool * option Z * N) * goerr :=
  match r with
  | Some (cid, n, ty, nn, df, pk) =>
      match df with
      | DfNull => ((cid, n, ty, nn, None, pk), None)
      | DfInt z => ((cid, n, ty, nn, Some z, pk), None)
      | DfText => (cur, Some (Stop "sql: Scan error on column dflt_value: converting a string to int"))
      end
  | None => (cur, no_row)
  end.

(** dflt_value into a *string (fix de070c1, F17): database/sql converts NULL to nil and every other driver value
    (an integer, a real, a text) to its text, so the scan succeeds whatever the default is.  The text itself is not
    represented ([Some ""] for a non-NULL default): nothing reads the field (checked by the translator). *)
Definition op_ScanTableInfoS (r : option tirow) (cur : Z * string * string * bool * option string * N)
  : (Z * string * string * bool * option string * N) * goerr :=
  match r with
  | Some (cid, n, ty, nn, df, pk) =>
      ((cid, n, ty, nn, match df with DfNull => None | _ => Some EmptyString end, pk), None)
  | None => (cur, no_row)
  end.

Definition op_ScanSrs (r : option ssrs) (cur : string * Z * string * Z * N * option string)
  : (string * Z * string * Z * N * option string) * goerr :=
  match r with
  | Some x => ((ss_name x, ss_id x, ss_org x, ss_orgid x, ss_def x, ss_desc x), None)
  | None => (cur, no_row)
  end.

(** vals := make([]interface{}, n) *)
Definition make_nils (n : Z) : list drv := repeat DNil (Z.to_nat n).

(** rows.Scan(valPtrs...) with valPtrs[i] = &vals[i] for every i: the row is stored into vals *)
Definition op_ScanAll (r : option (list drv)) (vals : list drv) : list drv * goerr :=
  match r with
  | Some x => if Nat.eqb (List.length x) (List.length vals) then (x, None)
              else (vals, Some (Stop "sql: wrong number of destination arguments in Scan"))
  | None => (vals, no_row)
  end.

(** SourceGeopackage: [Table]; [handle] is the [srcdb] *)
Record source := MkSource { src_Table : table }.

(** ** Specification side: what the source functions are to compute *)

Definition srs_of_ssrs (r : ssrs) : srs :=
  MkSrs (ss_name r) (ss_id r) (ss_org r) (ss_orgid r) (ss_def r) (match ss_desc r with Some s => s | None => "" end).

(** getSpatialReferenceSystem: the row with that id, a NULL description read as ""; the zero value without a row *)
Definition spec_srs (sd : srcdb) (id : Z) : srs :=
  match find (fun r => Z.eqb (ss_id r) id) (sd_srs sd) with Some r => srs_of_ssrs r | None => srs_zero end.

Definition col_of_tirow (r : tirow) : column := let '(_, n, ty, nn, _, pk) := r in MkCol n ty nn pk.
Definition ti_dflt (r : tirow) : dfltv := let '(_, _, _, _, df, _) := r in df.

(** getTableColumns *)
Definition spec_columns (sd : srcdb) (n : string) : list column :=
  map col_of_tirow (match find_stable n (sd_tables sd) with Some t => st_info t | None => [] end).

(** geometryTypeFromString *)
Definition spec_gtype (s : string) : N :=
  let u := op_ToUpper s in
  (if String.eqb u "POINT" then 1 else if String.eqb u "LINESTRING" then 2 else if String.eqb u "POLYGON" then 3
   else if String.eqb u "MULTIPOINT" then 4 else if String.eqb u "MULTILINESTRING" then 5
   else if String.eqb u "MULTIPOLYGON" then 6 else if String.eqb u "GEOMETRYCOLLECTION" then 7 else 0)%N.

(** GetTableInfo: one table per row of gpkg_geometry_columns, in that order *)
Definition spec_table (sd : srcdb) (g : gcrow) : table :=
  let '(tn, cn, gt, id) := g in MkTable tn (spec_columns sd tn) cn (spec_gtype gt) (spec_srs sd id).
Definition spec_tables (sd : srcdb) : list table := map (spec_table sd) (sd_gc sd).

(** every default PRAGMA table_info reports for the tables listed in gpkg_geometry_columns is NULL or an integer *)
Definition dflt_ok (r : tirow) : bool := match ti_dflt r with DfText => false | _ => true end.
Definition src_dflts_ok (sd : srcdb) : Prop :=
  forall g st, In g (sd_gc sd) -> find_stable (fst (fst (fst g))) (sd_tables sd) = Some st -> forallb dflt_ok (st_info st) = true.

(** ** A file the model describes ([db]), opened as a SOURCE *)
Definition drv_of_value (v : value) : drv :=
  match v with
  | VNull => DNil | VInt z => DInt z | VReal q => DFloat q | VText s => DString s | VTime ns => DTime ns
  | VBlob b => DBytes (Bytes b None)   (* an attribute blob: whether it happens to decode as a geometry plays no role *)
  end.
(** the geometry cell is a blob that decodes to the geometry (its content identity plays no role) *)
Definition drv_of_cell (c : cell) : drv :=
  match c with CVal v => drv_of_value v | CGeom g => DBytes (Bytes 0 (Some g)) end.

(** a driver value that stands for a cell: a text comes as string, a blob as []uint8 with that content (whatever it would
    decode to), an integer 1 / 0 of a column declared BOOLEAN as the bool true / false, a geometry as a blob that decodes
    to it.  (An integer cell z other than 0 / 1 in a BOOLEAN column is handed over as [z > 0] and written as 1 / 0: the
    driver's normalisation, outside this relation.) *)
Inductive cell_drv : cell -> drv -> Prop :=
| cd_null : cell_drv (CVal VNull) DNil
| cd_int : forall z, cell_drv (CVal (VInt z)) (DInt z)
| cd_real : forall q, cell_drv (CVal (VReal q)) (DFloat q)
| cd_time : forall ns, cell_drv (CVal (VTime ns)) (DTime ns)
| cd_string : forall s, cell_drv (CVal (VText s)) (DString s)
| cd_bytes : forall s dec, cell_drv (CVal (VBlob s)) (DBytes (Bytes s dec))
| cd_bool : forall b, cell_drv (CVal (VInt (Z.b2z b))) (DBool b)
| cd_geom : forall g id, cell_drv (CGeom g) (DBytes (Bytes id (Some g))).

Fixpoint tirows_of (i : Z) (cols : list column) : list tirow :=
  match cols with
  | [] => []
  | c :: r => (i, c_name c, c_type c, c_notnull c, DfNull, c_pk c) :: tirows_of (i + 1) r
  end.

Definition ssrs_of_srs (s : srs) : ssrs := MkSSrs (s_name s) (s_id s) (s_org s) (s_orgid s) (s_def s) (Some (s_desc s)).

Definition src_of_db (d : db) : srcdb :=
  MkSrc (map (fun ts => (td_name (ts_desc ts), td_gcol (ts_desc ts), gtype_name (td_gtype (ts_desc ts)), td_srs (ts_desc ts)))
             (db_tabs d))
        (map ssrs_of_srs (db_srs d))
        (map (fun ts => MkSTable (td_name (ts_desc ts)) (tirows_of 0 (td_cols (ts_desc ts)))
                                 (map (map drv_of_cell) (ts_rows ts))) (db_tabs d)).

(** the [gpkg.Table] GetTableInfo builds for a registered table of [d] *)
Definition table_of_tab (d : db) (ts : tabstate) : table :=
  MkTable (td_name (ts_desc ts)) (td_cols (ts_desc ts)) (td_gcol (ts_desc ts)) (td_gtype (ts_desc ts))
          (match find_srs (td_srs (ts_desc ts)) (db_srs d) with Some s => s | None => srs_zero end).
