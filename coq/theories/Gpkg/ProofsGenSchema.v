(** * Gpkg/ProofsGenSchema.v — the REGENERATED schema side of processing/gpkg/gpkg.go against the model (tie G2 for C12).

    gen/GpkgSchemaGen.v is written by translator/gpkgschema.go from processing/gpkg/gpkg.go on every run, statement by
    statement: [gen_CreateTables], [gen_buildTable] (target side), [gen_GetTableInfo], [gen_getTableColumns],
    [gen_getSpatialReferenceSystem], [gen_geometryTypeFromString], [gen_ReadFeatures] (source side).  This file proves, for
    ALL inputs:

      gen_CreateTables tg (cidle d) tl            = the model's [create_tables d tl] when that succeeds; an error (returned
                                                    or fatal) when the model fails          ([gen_create_tables_spec])
      gen_geometryTypeFromString s                = WOk (spec_gtype s);  spec_gtype (gtype_name n) = n for n <= 7
      gen_getSpatialReferenceSystem sd id         = WOk (spec_srs sd id)
      gen_getTableColumns sd n                    = WOk (spec_columns sd n)
      gen_GetTableInfo src sd                     = WOk (spec_tables sd)
      gen_ReadFeatures (MkSource t) sd ch         = the features whose rows ([row_of] = the model's [weave]) the table holds,
                                                    in order, then the channel closed         ([gen_read_features_spec])
    and, composing them with the model's theorems: a file the model describes, opened as a source and copied by
    GetTableInfo -> CreateTables into a new file, gives the same table descriptions and srs rows ([schema_copy]); the
    rows [write_features] stored are read back as the features that were written ([read_back]).

    The code talks to the database in steps (UpdateSRS, UPDATE, CREATE TABLE, AddGeometryTable; Query, Next, Scan ..);
    the model has [update_srs] / [create_table] / [weave].  The differences are bridged here: insert-unless-present
    followed by update-all-with-the-id is [update_srs] when srs_id is a key; the fuelled [for rows.Next()] loops and the
    column loop of ReadFeatures are handled by induction with a loop invariant.

    MODELLED (trusted) — the calls the translator maps, after checking their exact shape (for SQL: the exact text) in the
    AST, to the operations of Gpkg/SchemaOps.v: target.handle.UpdateSRS = op_UpdateSRS; target.handle.Exec(UPDATE
    gpkg_spatial_ref_sys ..) = op_ExecUpdateSrs; h.Exec(t.createSQL()) = op_ExecCreate; h.AddGeometryTable = op_AddGeometryTable;
    handle.Query / QueryRow of the three known texts and of Table.selectSQL() = op_QueryGeometryColumns / op_QueryTableInfo /
    op_QueryRowSrs / op_QuerySelect; rows.Next / Scan / Columns / Err / Close = op_Next / op_Scan.. / op_RowsColumns /
    op_RowsErr / op_RowsClose; the idiom valPtrs[i] = &vals[i] + rows.Scan(valPtrs...) = op_ScanAll; make+copy of a []byte =
    bytes_copy; gpkg.DecodeGeometry = op_DecodeGeometry; strings.ToUpper = op_ToUpper (ASCII); the gpkg.GeometryType and
    gpkg.MaybeBool constants; log.Fatalf / log.Fatal(err) = the process ends with that error; log.Fatalf(format, values) =
    the process ends ([Stop format]); a send / close on the channel = [chan_send] / [chan_close]; the caller's log.Fatalf on
    the error CreateTables returns = [outcome]. *)
From Coq Require Import ZArith NArith List Bool String Lia.
From Texel Require Import Gpkg.Model Gpkg.Proofs Gpkg.WriterOps Gpkg.SchemaOps.
From Texel.Gen Require Import GpkgSchemaGen.
Import ListNotations.
Open Scope Z_scope.

(** ** geometryTypeFromString, getSpatialReferenceSystem, getTableColumns, GetTableInfo *)

Theorem gen_gtype_spec : forall s, gen_geometryTypeFromString s = WOk (spec_gtype s).
Proof.
  intros s. unfold gen_geometryTypeFromString, spec_gtype. cbv zeta.
  destruct (String.eqb_spec (op_ToUpper s) "GEOMETRY") as [E|_]; [rewrite E; reflexivity|].
  repeat match goal with |- context [String.eqb ?a ?b] => destruct (String.eqb a b) end; reflexivity.
Qed.

Lemma gtype_roundtrip : forall n, (n <= 7)%N -> spec_gtype (gtype_name n) = n.
Proof.
  intros n H.
  assert (C : In n [0;1;2;3;4;5;6;7]%N).
  { destruct n as [|p]; [now left|]. do 8 (try (destruct p as [p|p|]; cbn; try tauto; try lia)). all: try (exfalso; lia). }
  cbn [In] in C. repeat destruct C as [<-|C]; try reflexivity. destruct C.
Qed.

Theorem gen_srs_spec : forall sd id, gen_getSpatialReferenceSystem sd id = WOk (spec_srs sd id).
Proof.
  intros sd id. unfold gen_getSpatialReferenceSystem, spec_srs, op_QueryRowSrs.
  destruct (find (fun r => Z.eqb (ss_id r) id) (sd_srs sd)) as [[n i o oi df [ds|]]|]; reflexivity.
Qed.

Lemma columns_loop : forall sd tbl q e rs fuel acc cur cols,
  (List.length rs < fuel)%nat ->
  gen_getTableColumns_loop1 sd tbl q e fuel acc (MkCursor cur rs cols) =
  WOk (acc ++ map col_of_tirow rs, MkCursor None [] cols).
Proof.
  induction rs as [|r rs IH]; intros fuel acc cur cols Hf; (destruct fuel as [|fuel]; [cbn [List.length] in Hf; lia|]).
  - cbn. now rewrite app_nil_r.
  - destruct r as [[[[[cid n] ty] nn] df] pk].
    cbn [List.length] in Hf.
    destruct df; cbn; (rewrite IH by lia); rewrite <- app_assoc; reflexivity.
Qed.

Definition info_of (sd : srcdb) (n : string) : list tirow :=
  match find_stable n (sd_tables sd) with Some t => st_info t | None => [] end.

Theorem gen_columns_spec : forall sd n,
  gen_getTableColumns sd n = WOk (spec_columns sd n).
Proof.
  intros sd n. unfold gen_getTableColumns, op_QueryTableInfo. cbn [is_nil negb].
  fold (info_of sd n). rewrite columns_loop; [reflexivity|].
  unfold cursor_len. cbn [cu_rest]. lia.
Qed.

Lemma tables_loop : forall sd src q e rs fuel acc cur cols,
  (List.length rs < fuel)%nat ->
  gen_GetTableInfo_loop1 sd src q e fuel (MkCursor cur rs cols) acc =
  WOk (MkCursor None [] cols, acc ++ map (spec_table sd) rs).
Proof.
  induction rs as [|r rs IH]; intros fuel acc cur cols Hf; (destruct fuel as [|fuel]; [cbn [List.length] in Hf; lia|]).
  - cbn. now rewrite app_nil_r.
  - destruct r as [[[tn cn] gt] id]. cbn [List.length] in Hf.
    cbn [gen_GetTableInfo_loop1 op_Next cu_rest cu_cols cu_cur negb op_ScanGC is_nil].
    cbn [table_zero t_name t_gcol set_t_name set_t_gcol t_cols t_gtype t_srs].
    rewrite gen_columns_spec.
    cbn [wbind]. rewrite gen_gtype_spec. cbn [wbind]. rewrite gen_srs_spec. cbn [wbind].
    rewrite IH; [|lia].
    cbn [map spec_table]. rewrite <- app_assoc. reflexivity.
Qed.

Theorem gen_table_info_spec : forall src sd,
  gen_GetTableInfo src sd = WOk (spec_tables sd).
Proof.
  intros src sd. unfold gen_GetTableInfo, op_QueryGeometryColumns. cbn [is_nil negb].
  rewrite tables_loop; [reflexivity|]. unfold cursor_len. cbn [cu_rest]. apply Nat.lt_succ_diag_r.
Qed.

(** ** ReadFeatures *)

(** what the type switch of ReadFeatures appends for a driver value (after the repairs F18 / F19: a bool is passed on --
    represented by the integer it is bound as --, a []byte stays a blob) *)
Definition attr_of_drv (d : drv) : option anyv :=
  match d with
  | DBytes b => Some (AVal (VBlob (bytes_blob b)))
  | DInt z => Some (AVal (VInt z))
  | DFloat q => Some (AVal (VReal q))
  | DTime ns => Some (AVal (VTime ns))
  | DString s => Some (AVal (VText s))
  | DBool b => Some (AVal (value_of_bool b))
  | DNil => Some (AVal VNull)
  | DOther _ => None
  end.

(** what the body of the column loop does with the value [d] of the column called [name] *)
Definition row_step (gcol name : string) (d : drv) (st : gfeat * list anyv) : wres (lctl (gfeat * list anyv)) :=
  let '(f, c) := st in
  if String.eqb name gcol then
    match d with
    | DBytes (Bytes _ (Some g)) => WOk (Cont (MkGFeat c g, c))
    | DBytes (Bytes _ None) => WErr (Stop "gpkg.DecodeGeometry: not a GeoPackage geometry blob")
    | _ => WErr (Stop "interface conversion: interface {} is not []uint8")
    end
  else match attr_of_drv d with
       | Some a => WOk (Cont (MkGFeat (c ++ [a]) (gf_geometry f), c ++ [a]))
       | None => WErr (Stop "unexpected type for sqlite column data: %v: %T")
       end.

Definition row_body_ok (gcol : string) (names : list string) (vals : list drv)
  (body : Z * string -> gfeat * list anyv -> wres (lctl (gfeat * list anyv))) : Prop :=
  forall pre d post name f c, vals = pre ++ d :: post -> nth_error names (List.length pre) = Some name ->
    body (Z.of_nat (List.length pre), name) (f, c) = row_step gcol name d (f, c).

Lemma widx_app : forall A (pre : list A) d post, widx (pre ++ d :: post) (Z.of_nat (List.length pre)) = WOk d.
Proof.
  intros A pre d post. unfold widx.
  replace (Z.of_nat (List.length pre) <? 0) with false by (symmetry; apply Z.ltb_ge; lia).
  rewrite Nat2Z.id, nth_error_app2 by lia. now rewrite Nat.sub_diag.
Qed.

Lemma widx_nth : forall A (l : list A) i x, nth_error l i = Some x -> widx l (Z.of_nat i) = WOk x.
Proof.
  intros A l i x H. unfold widx.
  replace (Z.of_nat i <? 0) with false by (symmetry; apply Z.ltb_ge; lia).
  now rewrite Nat2Z.id, H.
Qed.

Lemma F2_cons : forall A B (R : A -> B -> Prop) x l y m, Forall2 R (x :: l) (y :: m) -> R x y /\ Forall2 R l m.
Proof. intros A B R x l y m H. inversion H; subst. now split. Qed.

Section Row.
Variable gcol : string.
Variable names : list string.
Variable vals : list drv.
Variable body : Z * string -> gfeat * list anyv -> wres (lctl (gfeat * list anyv)).
Hypothesis Hb : row_body_ok gcol names vals body.

Lemma row_loop_spec : forall cs pn pre dr attrs g r f c,
  vals = pre ++ dr -> names = pn ++ map c_name cs -> List.length pn = List.length pre ->
  weave cs gcol attrs g = Some r -> Forall2 cell_drv r dr ->
  wrange_loop body (combine (map Z.of_nat (seq (List.length pre) (List.length cs))) (map c_name cs)) (f, c) =
  WOk (match cs with
       | [] => f
       | _ => MkGFeat (c ++ map AVal attrs) (if has_col gcol cs then g else gf_geometry f)
       end, c ++ map AVal attrs).
Proof.
  induction cs as [|col cs IH]; intros pn pre dr attrs g r f c Hv Hn Hl Hw Hr.
  - cbn [weave] in Hw. destruct attrs; [|discriminate]. cbn. now rewrite app_nil_r.
  - cbn [List.length seq map combine wrange_loop].
    cbn [weave] in Hw.
    assert (Hname : nth_error names (List.length pre) = Some (c_name col)).
    { rewrite Hn, <- Hl, nth_error_app2 by lia. now rewrite Nat.sub_diag. }
    assert (Hn' : names = (pn ++ [c_name col]) ++ map c_name cs) by (now rewrite <- app_assoc).
    assert (Hl' : forall d : drv, List.length (pn ++ [c_name col]) = List.length (pre ++ [d]))
      by (intros; rewrite !app_length; cbn; lia).
    assert (Hseq : forall d : drv, S (List.length pre) = List.length (pre ++ [d]))
      by (intros; rewrite app_length; cbn; lia).
    destruct (String.eqb (c_name col) gcol) eqn:E.
    + destruct (weave cs gcol attrs g) as [r'|] eqn:W; [|discriminate]. cbn [option_map] in Hw. injection Hw as <-.
      destruct dr as [|d dr']; [inversion Hr|]. apply F2_cons in Hr. destruct Hr as [Hc Hr'].
      assert (Hd : exists id, d = DBytes (Bytes id (Some g))) by (inversion Hc; eauto).
      destruct Hd as [id Hd]. rewrite Hd in Hv. clear Hc Hd d.
      rewrite (Hb pre _ dr' _ f c Hv Hname). unfold row_step. rewrite E.
      rewrite (Hseq (DBytes (Bytes id (Some g)))).
      rewrite (IH (pn ++ [c_name col]) (pre ++ [DBytes (Bytes id (Some g))]) dr' attrs g r' (MkGFeat c g) c);
        [|now rewrite <- app_assoc|exact Hn'|apply Hl'|exact W|exact Hr'].
      unfold has_col. cbn [existsb]. rewrite E. cbn [orb gf_geometry].
      destruct cs; [|destruct (existsb _ _); reflexivity].
      cbn [weave] in W. destruct attrs; [|discriminate]. cbn [map]. now rewrite app_nil_r.
    + destruct attrs as [|a attrs]; [discriminate|].
      destruct (weave cs gcol attrs g) as [r'|] eqn:W; [|discriminate]. cbn [option_map] in Hw. injection Hw as <-.
      destruct dr as [|d dr']; [inversion Hr|]. apply F2_cons in Hr. destruct Hr as [Hc Hr'].
      rewrite (Hb pre d dr' _ f c Hv Hname). unfold row_step. rewrite E.
      assert (Ha : attr_of_drv d = Some (AVal a)) by (inversion Hc; reflexivity).
      rewrite Ha. rewrite (Hseq d).
      rewrite (IH (pn ++ [c_name col]) (pre ++ [d]) dr' attrs g r' _ _);
        [|now rewrite <- app_assoc|exact Hn'|apply Hl'|exact W|exact Hr'].
      unfold has_col. cbn [existsb]. rewrite E. cbn [orb gf_geometry map].
      rewrite <- !app_assoc. cbn [app].
      destruct cs; [|reflexivity].
      cbn [weave] in W. destruct attrs; [|discriminate]. reflexivity.
Qed.
End Row.

Definition row_rel (t : table) (f : feature) (dr : list drv) : Prop :=
  exists r, row_of t f = Some r /\ Forall2 cell_drv r dr.

Lemma F2_length : forall A B (R : A -> B -> Prop) l m, Forall2 R l m -> List.length l = List.length m.
Proof. induction 1; cbn; congruence. Qed.

Lemma make_nils_length : forall A (l : list A), List.length (make_nils (zlen l)) = List.length l.
Proof. intros. unfold make_nils, zlen. now rewrite repeat_length, Nat2Z.id. Qed.

Lemma has_col_nonempty : forall g cols, has_col g cols = true -> cols <> [].
Proof. intros g [|c cols] H; [discriminate|discriminate]. Qed.

Lemma match_nonempty : forall A B (l : list A) (x y : B), l <> [] ->
  match l with [] => x | _ :: _ => y end = y.
Proof. intros A B [|a l] x y H; [now exfalso|reflexivity]. Qed.

Lemma features_loop : forall t sd drs fs fuel sent cur,
  has_col (t_gcol t) (t_cols t) = true ->
  (List.length drs < fuel)%nat -> Forall2 (row_rel t) fs drs ->
  gen_ReadFeatures_loop1 sd (MkSource t) (map c_name (t_cols t)) fuel (MkOChan sent false)
    (MkCursor cur drs (map c_name (t_cols t))) None =
  WOk (MkOChan (sent ++ map gfeat_of fs) false, MkCursor None [] (map c_name (t_cols t)), None).
Proof.
  intros t sd. induction drs as [|dr drs IH]; intros fs fuel sent cur Hg Hf Hr;
    (destruct fuel as [|fuel]; [cbn [List.length] in Hf; lia|]).
  - inversion Hr; subst. cbn. now rewrite app_nil_r.
  - destruct fs as [|f fs]; [inversion Hr|]. apply F2_cons in Hr. destruct Hr as [[r [Hw Hc]] Hr].
    unfold row_of in Hw. cbn [List.length] in Hf.
    assert (Hlen : List.length dr = List.length (t_cols t)).
    { rewrite <- (F2_length _ _ _ _ _ Hc). now destruct (weave_spec _ _ _ _ _ Hw) as [_ [H _]]. }
    cbn [gen_ReadFeatures_loop1 op_Next cu_rest cu_cols cu_cur negb].
    unfold op_ScanAll. rewrite make_nils_length, map_length, Hlen, Nat.eqb_refl. cbn [is_nil negb].
    match goal with |- context [wrange_loop ?b] => set (body := b) end.
    assert (Hb : row_body_ok (t_gcol t) (map c_name (t_cols t)) dr body).
    { intros pre d post name f0 c Hv Hn. subst body. cbv beta iota zeta. cbn [src_Table].
      rewrite Hv, widx_app. cbn [wbind]. unfold row_step.
      destruct (String.eqb name (t_gcol t)).
      - destruct d as [[id [g|]]| | | | | | |]; reflexivity.
      - destruct d as [[id dec]| | | | | | |]; try reflexivity.
        cbn [wbind attr_of_drv]. rewrite (widx_nth _ _ _ _ Hn). reflexivity. }
    unfold zindexed. rewrite map_length.
    pose proof (row_loop_spec _ _ _ _ Hb (t_cols t) [] [] dr (f_attrs f) (f_geom f) r gfeat_zero []
                  eq_refl eq_refl eq_refl Hw Hc) as Hloop.
    cbn [List.length] in Hloop. rewrite Hloop. clear Hloop.
    cbn [wbind app]. rewrite Hg.
    rewrite (match_nonempty _ _ (t_cols t)) by (exact (has_col_nonempty _ _ Hg)).
    unfold chan_send. cbn [oc_closed oc_sent wbind].
    rewrite (IH fs fuel _ _ Hg) by (try lia; assumption).
    cbn [map]. rewrite <- app_assoc. reflexivity.
Qed.

Lemma index_of_app : forall n pre suf, ~ In n pre -> index_of n (pre ++ n :: suf) = Some (List.length pre).
Proof.
  induction pre as [|m pre IH]; intros suf H; cbn [app index_of List.length].
  - now rewrite String.eqb_refl.
  - destruct (String.eqb_spec m n) as [->|_]; [exfalso; apply H; now left|].
    rewrite IH; [reflexivity|]. intros I. apply H. now right.
Qed.

Lemma project_id : forall suf pre rpre rsuf,
  NoDup (pre ++ suf) -> List.length pre = List.length rpre -> List.length suf = List.length rsuf ->
  map (fun n => match index_of n (pre ++ suf) with Some i => nth i (rpre ++ rsuf) DNil | None => DNil end) suf = rsuf.
Proof.
  induction suf as [|n suf IH]; intros pre rpre rsuf ND L1 L2.
  - destruct rsuf; [reflexivity|discriminate].
  - destruct rsuf as [|x rsuf]; [discriminate|]. cbn [map]. f_equal.
    + rewrite index_of_app by (apply NoDup_remove_2 in ND; intros I; apply ND; apply in_or_app; now left).
      rewrite L1, app_nth2 by lia. now rewrite Nat.sub_diag.
    + specialize (IH (pre ++ [n]) (rpre ++ [x]) rsuf). rewrite <- !app_assoc in IH. cbn [app] in IH.
      apply IH; [exact ND|rewrite !app_length; cbn; lia|cbn in L2; lia].
Qed.

Lemma index_of_in : forall n l, In n l -> exists i, index_of n l = Some i.
Proof.
  induction l as [|m l IH]; intros H; [destruct H|]. cbn [index_of].
  destruct (String.eqb_spec m n) as [_|Hne]; [eauto|].
  destruct H as [H|H]; [contradiction|]. destruct (IH H) as [i ->]. cbn. eauto.
Qed.

Theorem gen_read_features_spec : forall t sd st fs,
  find_stable (t_name t) (sd_tables sd) = Some st ->
  map ti_name (st_info st) = map c_name (t_cols t) ->
  NoDup (map c_name (t_cols t)) ->
  has_col (t_gcol t) (t_cols t) = true ->
  Forall2 (row_rel t) fs (st_rows st) ->
  gen_ReadFeatures (MkSource t) sd (MkOChan [] false) = WOk (MkOChan (map gfeat_of fs) true).
Proof.
  intros t sd st fs Hst Hdecl ND Hg Hr.
  unfold gen_ReadFeatures, op_QuerySelect, op_selectSQL. cbn [src_Table]. rewrite Hst, Hdecl.
  assert (Hne : map c_name (t_cols t) <> []).
  { intros E. apply (has_col_nonempty _ _ Hg). now destruct (t_cols t). }
  rewrite (match_nonempty _ _ (map c_name (t_cols t))) by exact Hne.
  replace (forallb _ (map c_name (t_cols t))) with true.
  2:{ symmetry. apply forallb_forall. intros n Hn. destruct (index_of_in _ _ Hn) as [i ->]. reflexivity. }
  cbn [is_nil negb op_RowsColumns cu_cols].
  replace (map _ (st_rows st)) with (st_rows st).
  2:{ symmetry. clear - Hr ND. induction Hr as [|f dr fs drs [r [Hw Hc]] Hr IH]; [reflexivity|].
      cbn [map]. f_equal; [|exact IH].
      apply (project_id (map c_name (t_cols t)) [] [] dr ND eq_refl).
      rewrite map_length, <- (F2_length _ _ _ _ _ Hc). symmetry. now destruct (weave_spec _ _ _ _ _ Hw) as [_ [H _]]. }
  unfold cursor_len. cbn [cu_rest].
  rewrite (features_loop t sd (st_rows st) fs _ [] None Hg (Nat.lt_succ_diag_r _) Hr).
  cbn [wbind is_nil negb op_RowsErr app]. reflexivity.
Qed.

(** ** CreateTables *)

Lemma srs_eta : forall s, MkSrs (s_name s) (s_id s) (s_org s) (s_orgid s) (s_def s) (s_desc s) = s.
Proof. now intros []. Qed.

Definition upd_rows (s : srs) (l : list srs) : list srs :=
  map (fun x => if Z.eqb (s_id x) (s_id s) then MkSrs (s_name s) (s_id x) (s_org s) (s_orgid s) (s_def s) (s_desc s) else x) l.

Lemma upd_rows_other : forall s l, ~ In (s_id s) (map s_id l) -> upd_rows s l = l.
Proof.
  induction l as [|x l IH]; intros H; [reflexivity|]. cbn [upd_rows map] in *.
  destruct (Z.eqb_spec (s_id x) (s_id s)) as [E|_]; [exfalso; apply H; now left|].
  f_equal. apply IH. intros I. apply H. now right.
Qed.

(** UpdateSRS (insert unless the id is there) followed by the UPDATE of every row with the id = the model's [update_srs],
    when srs_id is a key of the table *)
Lemma insert_update_srs : forall s l, NoDup (map s_id l) ->
  upd_rows s (match find_srs (s_id s) l with Some _ => l | None => l ++ [s] end) = update_srs l s.
Proof.
  induction l as [|x l IH]; intros ND; cbn [find_srs update_srs].
  - cbn. rewrite Z.eqb_refl. now rewrite srs_eta.
  - cbn [map] in ND. inversion ND as [|? ? Hx ND']; subst.
    destruct (Z.eqb_spec (s_id x) (s_id s)) as [E|E].
    + cbn [upd_rows map]. rewrite E, Z.eqb_refl, srs_eta. f_equal.
      apply upd_rows_other. now rewrite <- E.
    + specialize (IH ND').
      destruct (find_srs (s_id s) l); cbn [app upd_rows map] in *;
        (destruct (Z.eqb_spec (s_id x) (s_id s)) as [E'|_]; [contradiction|]); f_equal; exact IH.
Qed.

Lemma update_srs_ids : forall s l i, In i (map s_id (update_srs l s)) -> In i (map s_id l) \/ i = s_id s.
Proof.
  induction l as [|x l IH]; intros i H; cbn [update_srs map In] in *.
  - destruct H as [H|[]]. now right.
  - destruct (Z.eqb_spec (s_id x) (s_id s)) as [E|E]; cbn [map In] in H.
    + destruct H as [H|H]; [now right|left; now right].
    + destruct H as [H|H]; [left; now left|]. destruct (IH _ H) as [H'|H']; [left; now right|now right].
Qed.

Lemma update_srs_nodup : forall s l, NoDup (map s_id l) -> NoDup (map s_id (update_srs l s)).
Proof.
  induction l as [|x l IH]; intros ND; cbn [update_srs map].
  - repeat constructor. intros [].
  - cbn [map] in ND. inversion ND as [|? ? Hx ND']; subst.
    destruct (Z.eqb_spec (s_id x) (s_id s)) as [E|E]; cbn [map].
    + rewrite <- E. now constructor.
    + constructor; [|now apply IH]. intros I. destruct (update_srs_ids _ _ _ I); [contradiction|congruence].
Qed.

Lemma has_col_norm : forall g cols, has_col g (map norm_col cols) = has_col g cols.
Proof. intros g cols. unfold has_col. induction cols as [|c cols IH]; [reflexivity|]. cbn [map existsb]. now rewrite IH. Qed.

Lemma pk_norm : forall cols, existsb (fun c => N.eqb (c_pk c) 1) (map norm_col cols) = existsb (fun c => N.eqb (c_pk c) 1) cols.
Proof.
  induction cols as [|c cols IH]; [reflexivity|]. cbn [map existsb]. rewrite IH. f_equal.
  unfold norm_col. cbn [c_pk]. now destruct (N.eqb (c_pk c) 1).
Qed.

Definition fails {W} (r : wres (W * goerr)) : Prop := match r with WOk (_, None) => False | _ => True end.

Lemma fails_outcome : forall W (r : wres (W * goerr)), fails r -> exists e, outcome r = WErr e.
Proof. intros W [[w [e|]]|e] H; cbn in *; eauto. destruct H. Qed.

(** buildTable on a target without pending user tables in which the srs row is present *)
Lemma build_table_spec : forall t srss tabs txs wr x,
  find_srs (s_id (t_srs t)) srss = Some x -> go_int32 (s_id (t_srs t)) = s_id (t_srs t) ->
  match create_table (MkDb srss tabs txs wr) t with
  | Ok _ => gen_buildTable (cidle (MkDb srss tabs txs wr)) t =
            WOk (cidle (MkDb srss (tabs ++ [fresh_tab t]) txs wr), None)
  | Err _ => fails (gen_buildTable (cidle (MkDb srss tabs txs wr)) t)
  end.
Proof.
  intros t srss tabs txs wr x Hs H32.
  unfold create_table, gen_buildTable, op_createSQL, op_ExecCreate, cidle. cbn [db_tabs db_srs db_txs db_writes].
  destruct (t_cols t) as [|c0 cs] eqn:Ecols.
  { cbn [is_nil negb fatal]. destruct (find_tab (t_name t) tabs); cbn; exact I. }
  rewrite <- Ecols.
  unfold user_cols. cbn [cw_db cw_user db_tabs find_user].
  destruct (find_tab (t_name t) tabs) as [ts|] eqn:F.
  - (* registered: AddGeometryTable ends with an error *)
    rewrite ?F. cbn [is_nil negb]. unfold op_AddGeometryTable, user_cols.
    cbn [cw_db cw_user db_srs db_tabs gd_SRS gd_Name gd_GeometryField gd_ShortName gd_Description gd_Z gd_M gd_GeometryType].
    rewrite H32, Hs, F. cbv beta iota.
    destruct (negb (has_col _ _)); [exact I|].
    destruct (negb (_ && _ && _ && _)); [exact I|].
    destruct (negb (existsb _ _)); exact I.
  - rewrite ?F. cbn [is_nil negb app]. unfold op_AddGeometryTable, user_cols.
    cbn [cw_db cw_user db_srs db_tabs db_txs db_writes gd_SRS gd_Name gd_GeometryField gd_ShortName gd_Description gd_Z gd_M gd_GeometryType app find_user].
    rewrite H32, Hs, F, String.eqb_refl, has_col_norm, pk_norm. cbn [andb].
    change (mb_Prohibited =? mb_Prohibited) with true. cbn [andb negb].
    destruct (has_col (t_gcol t) (t_cols t)); cbn [negb]; [|cbn; exact I].
    destruct (existsb (fun c => N.eqb (c_pk c) 1) (t_cols t)); cbn [negb]; [|cbn; exact I].
    cbn [is_nil negb remove_user filter fst]. rewrite String.eqb_refl. cbn [negb]. reflexivity.
Qed.

Definition int32_srs (t : table) : Prop := go_int32 (s_id (t_srs t)) = s_id (t_srs t).
Definition srs_keyed (d : db) : Prop := NoDup (map s_id (db_srs d)).

(** one iteration of the loop of CreateTables against [create_table] *)
Definition ct_body_ok (body : table -> cworld -> wres (rctl cworld (cworld * goerr))) : Prop :=
  forall t d, srs_keyed d -> int32_srs t ->
  match create_table d t with
  | Ok d' => body t (cidle d) = WOk (RCont (cidle d'))
  | Err _ => (exists e, body t (cidle d) = WErr e) \/ (exists w e, body t (cidle d) = WOk (RRet (w, Some e)))
  end.

Lemma create_table_srs : forall d t d', create_table d t = Ok d' -> db_srs d' = update_srs (db_srs d) (t_srs t).
Proof.
  intros d t d' H. unfold create_table in H. destruct (find_tab _ _); [discriminate|].
  destruct (negb (has_col _ _)); [discriminate|]. destruct (negb (existsb _ _)); [discriminate|].
  now injection H as <-.
Qed.

Lemma ct_loop_spec : forall body, ct_body_ok body -> forall tl d, srs_keyed d -> Forall int32_srs tl ->
  match create_tables d tl with
  | Ok d' => rrange_loop body tl (cidle d) = WOk (inl (cidle d'))
  | Err _ => (exists e, rrange_loop body tl (cidle d) = WErr e) \/
             (exists w e, rrange_loop body tl (cidle d) = WOk (inr (w, Some e)))
  end.
Proof.
  intros body Hb. induction tl as [|t tl IH]; intros d Hk H32; [reflexivity|].
  inversion H32 as [|? ? Ht Htl]; subst. unfold create_tables. cbn [foldM rrange_loop].
  specialize (Hb t d Hk Ht). destruct (create_table d t) as [d1|x] eqn:E; cbn [bind].
  - rewrite Hb. apply IH; [|exact Htl]. unfold srs_keyed. rewrite (create_table_srs _ _ _ E).
    now apply update_srs_nodup.
  - destruct Hb as [[e ->]|[w [e ->]]]; [left|right]; eauto.
Qed.

Theorem gen_create_tables_spec : forall tg d tl, srs_keyed d -> Forall int32_srs tl ->
  match create_tables d tl with
  | Ok d' => gen_CreateTables tg (cidle d) tl = WOk (cidle d', None)
  | Err _ => exists e, outcome (gen_CreateTables tg (cidle d) tl) = WErr e
  end.
Proof.
  intros tg d tl Hk H32. unfold gen_CreateTables.
  match goal with |- context [rrange_loop ?b] => set (body := b) end.
  assert (Hb : ct_body_ok body).
  { intros t d0 Hk0 Ht. subst body. cbv beta.
    unfold op_UpdateSRS, op_ExecUpdateSrs, cidle, with_srs. cbn [cw_db cw_user db_srs db_tabs db_txs db_writes is_nil negb].
    fold (upd_rows (t_srs t) (match find_srs (s_id (t_srs t)) (db_srs d0) with Some _ => db_srs d0 | None => db_srs d0 ++ [t_srs t] end)).
    rewrite (insert_update_srs _ _ Hk0).
    pose proof (build_table_spec t (update_srs (db_srs d0) (t_srs t)) (db_tabs d0) (db_txs d0) (db_writes d0) (t_srs t)) as Hbt.
    rewrite find_srs_update, Z.eqb_refl in Hbt. specialize (Hbt eq_refl Ht).
    unfold cidle in Hbt.
    assert (Hct : create_table d0 t = create_table (MkDb (update_srs (db_srs d0) (t_srs t)) (db_tabs d0) (db_txs d0) (db_writes d0)) t \/ True) by (now right).
    clear Hct.
    unfold create_table in *. cbn [db_tabs db_srs db_txs db_writes] in Hbt.
    destruct (find_tab (t_name t) (db_tabs d0)).
    - destruct (gen_buildTable _ t) as [[w [e|]]|e]; cbn in Hbt; try destruct Hbt; cbn; eauto.
    - destruct (negb (has_col (t_gcol t) (t_cols t))).
      + destruct (gen_buildTable _ t) as [[w [e|]]|e]; cbn in Hbt; try destruct Hbt; cbn; eauto.
      + destruct (negb (existsb _ (t_cols t))).
        * destruct (gen_buildTable _ t) as [[w [e|]]|e]; cbn in Hbt; try destruct Hbt; cbn; eauto.
        * rewrite Hbt. cbn [wbind is_nil negb].
          reflexivity. }
  pose proof (ct_loop_spec body Hb tl d Hk H32) as Hl.
  destruct (create_tables d tl) as [d'|x].
  - rewrite Hl. reflexivity.
  - destruct Hl as [[e ->]|[w [e ->]]]; cbn; eauto.
Qed.

(** ** A file the model describes, opened as a source *)

Definition stable_of_tab (ts : tabstate) : stable :=
  MkSTable (td_name (ts_desc ts)) (tirows_of 0 (td_cols (ts_desc ts))) (map (map drv_of_cell) (ts_rows ts)).

Lemma find_stable_of_db : forall n l, find_stable n (map stable_of_tab l) = option_map stable_of_tab (find_tab n l).
Proof.
  induction l as [|ts l IH]; [reflexivity|]. cbn [map find_stable find_tab stable_of_tab st_name].
  destruct (String.eqb (td_name (ts_desc ts)) n); [reflexivity|exact IH].
Qed.

Lemma cols_of_tirows : forall cols i, map col_of_tirow (tirows_of i cols) = cols.
Proof. induction cols as [|[n ty nn pk] cols IH]; intros i; [reflexivity|]. cbn. now rewrite IH. Qed.

Lemma names_of_tirows : forall cols i, map ti_name (tirows_of i cols) = map c_name cols.
Proof. induction cols as [|c cols IH]; intros i; [reflexivity|]. cbn. now rewrite IH. Qed.

Lemma dflts_of_tirows : forall cols i, forallb dflt_ok (tirows_of i cols) = true.
Proof. induction cols as [|c cols IH]; intros i; [reflexivity|]. cbn. apply IH. Qed.

Lemma find_ssrs_of_db : forall id l,
  find (fun r => Z.eqb (ss_id r) id) (map ssrs_of_srs l) = option_map ssrs_of_srs (find_srs id l).
Proof.
  induction l as [|s l IH]; [reflexivity|]. cbn [map find find_srs ssrs_of_srs ss_id].
  destruct (Z.eqb (s_id s) id); [reflexivity|exact IH].
Qed.

Lemma srs_of_ssrs_of_srs : forall s, srs_of_ssrs (ssrs_of_srs s) = s.
Proof. now intros []. Qed.

Lemma spec_srs_of_db : forall d id,
  spec_srs (src_of_db d) id = match find_srs id (db_srs d) with Some s => s | None => srs_zero end.
Proof.
  intros d id. unfold spec_srs, src_of_db. cbn [sd_srs]. rewrite find_ssrs_of_db.
  destruct (find_srs id (db_srs d)); cbn [option_map]; [apply srs_of_ssrs_of_srs|reflexivity].
Qed.

Lemma info_of_db : forall d n,
  info_of (src_of_db d) n = match find_tab n (db_tabs d) with Some ts => tirows_of 0 (td_cols (ts_desc ts)) | None => [] end.
Proof.
  intros d n. unfold info_of, src_of_db. cbn [sd_tables]. fold stable_of_tab. rewrite find_stable_of_db.
  destruct (find_tab n (db_tabs d)); reflexivity.
Qed.

Lemma find_tab_nodup : forall l ts, NoDup (map tab_name l) -> In ts l -> find_tab (tab_name ts) l = Some ts.
Proof.
  induction l as [|x l IH]; intros ts ND H; [destruct H|]. cbn [map] in ND. inversion ND as [|? ? Hx ND']; subst.
  cbn [find_tab]. fold (tab_name x). destruct H as [->|H]; [now rewrite String.eqb_refl|].
  destruct (String.eqb_spec (tab_name x) (tab_name ts)) as [E|_]; [|now apply IH].
  exfalso. apply Hx. rewrite E. now apply in_map.
Qed.

(** GetTableInfo on such a file: the registered tables, in order, with their columns, geometry column, geometry type and
    the srs ROW their srs id refers to *)
Theorem table_info_of_db : forall src d,
  NoDup (map tab_name (db_tabs d)) -> Forall (fun ts => (td_gtype (ts_desc ts) <= 7)%N) (db_tabs d) ->
  gen_GetTableInfo src (src_of_db d) = WOk (map (table_of_tab d) (db_tabs d)).
Proof.
  intros src d ND Hg. rewrite gen_table_info_spec.
  { f_equal. unfold spec_tables, src_of_db at 2. cbn [sd_gc]. rewrite map_map. apply map_ext_in.
    intros ts Hin. cbn [spec_table]. unfold table_of_tab. f_equal.
    + unfold spec_columns. fold (info_of (src_of_db d) (td_name (ts_desc ts))). rewrite info_of_db.
      fold (tab_name ts). rewrite (find_tab_nodup _ _ ND Hin). apply cols_of_tirows.
    + apply gtype_roundtrip. rewrite Forall_forall in Hg. now apply Hg.
    + apply spec_srs_of_db. }
Qed.

(** ** source file -> GetTableInfo -> CreateTables on a new file: same descriptions, same srs rows *)

Definition norm_desc (de : tabdesc) : tabdesc :=
  MkDesc (td_name de) (map norm_col (td_cols de)) (td_gcol de) (td_gtype de) (td_srs de).

(** a registered table of a source file as the GeoPackage rules want it: the geometry column is a column, there is a
    primary key column, a geometry type the library knows, an srs id that fits int32 and has a row *)
Definition tab_wf (d : db) (ts : tabstate) : Prop :=
  has_col (td_gcol (ts_desc ts)) (td_cols (ts_desc ts)) = true /\
  existsb (fun c => N.eqb (c_pk c) 1) (td_cols (ts_desc ts)) = true /\
  (td_gtype (ts_desc ts) <= 7)%N /\
  go_int32 (td_srs (ts_desc ts)) = td_srs (ts_desc ts) /\
  exists s, find_srs (td_srs (ts_desc ts)) (db_srs d) = Some s.

Lemma known_srs_keyed : NoDup (map s_id (db_srs empty_db)).
Proof. cbn. repeat constructor; cbn; intuition discriminate. Qed.

Theorem schema_copy : forall src tg d,
  NoDup (map tab_name (db_tabs d)) -> Forall (tab_wf d) (db_tabs d) ->
  exists tl d',
    gen_GetTableInfo src (src_of_db d) = WOk tl /\
    gen_CreateTables tg (cidle empty_db) tl = WOk (cidle d', None) /\
    map ts_desc (db_tabs d') = map (fun ts => norm_desc (ts_desc ts)) (db_tabs d) /\
    (forall ts, In ts (db_tabs d) ->
       find_srs (td_srs (ts_desc ts)) (db_srs d') = find_srs (td_srs (ts_desc ts)) (db_srs d)).
Proof.
  intros src tg d ND Hwf. exists (map (table_of_tab d) (db_tabs d)).
  rewrite Forall_forall in Hwf.
  assert (Hsid : forall ts, In ts (db_tabs d) -> s_id (t_srs (table_of_tab d ts)) = td_srs (ts_desc ts)).
  { intros ts Hin. destruct (Hwf ts Hin) as [_ [_ [_ [_ [s Hs]]]]]. unfold table_of_tab. cbn [t_srs]. rewrite Hs.
    now destruct (find_srs_some _ _ _ Hs). }
  destruct (create_tables_fresh (map (table_of_tab d) (db_tabs d))) as [d' [Hrun [Hdesc Hall]]].
  - apply Forall_forall. intros t Hin. apply in_map_iff in Hin. destruct Hin as [ts [<- Hin]].
    destruct (Hwf ts Hin) as [H1 [H2 _]]. split; assumption.
  - rewrite map_map. exact ND.
  - intros t t' Hin Hin' E. apply in_map_iff in Hin. destruct Hin as [ts [<- Hin]].
    apply in_map_iff in Hin'. destruct Hin' as [ts' [<- Hin']].
    rewrite (Hsid ts Hin), (Hsid ts' Hin') in E. unfold table_of_tab. cbn [t_srs]. now rewrite E.
  - exists d'. split; [|split; [|split]].
    + apply table_info_of_db; [exact ND|]. apply Forall_forall. intros ts Hin. now destruct (Hwf ts Hin) as [_ [_ [H _]]].
    + pose proof (gen_create_tables_spec tg empty_db (map (table_of_tab d) (db_tabs d)) known_srs_keyed) as H.
      rewrite Hrun in H. apply H. apply Forall_forall. intros t Hin. apply in_map_iff in Hin.
      destruct Hin as [ts [<- Hin]]. unfold int32_srs. rewrite (Hsid ts Hin). now destruct (Hwf ts Hin) as [_ [_ [_ [H32 _]]]].
    + rewrite Hdesc, map_map. apply map_ext_in. intros ts Hin. unfold desc_of, norm_desc.
      rewrite (Hsid ts Hin). reflexivity.
    + intros ts Hin. destruct (Hall (table_of_tab d ts) (in_map _ _ _ Hin)) as [_ Hs].
      rewrite (Hsid ts Hin) in Hs. rewrite Hs. unfold table_of_tab. cbn [t_srs].
      destruct (Hwf ts Hin) as [_ [_ [_ [_ [s Hs']]]]]. now rewrite Hs'.
Qed.

(** ** the rows [write_features] stored, read back *)

Lemma cell_drv_of_cell : forall c, cell_drv c (drv_of_cell c).
Proof. intros [[| | | | |]|g]; constructor. Qed.

Theorem read_back : forall d t ts fs,
  find_tab (t_name t) (db_tabs d) = Some ts ->
  map c_name (td_cols (ts_desc ts)) = map c_name (t_cols t) ->
  NoDup (map c_name (t_cols t)) -> has_col (t_gcol t) (t_cols t) = true ->
  map (row_of t) fs = map Some (ts_rows ts) ->
  gen_ReadFeatures (MkSource t) (src_of_db d) (MkOChan [] false) = WOk (MkOChan (map gfeat_of fs) true).
Proof.
  intros d t ts fs F Hn ND Hg Hrows.
  apply (gen_read_features_spec t (src_of_db d) (stable_of_tab ts) fs).
  - unfold src_of_db. cbn [sd_tables]. fold stable_of_tab. rewrite find_stable_of_db, F. reflexivity.
  - cbn [stable_of_tab st_info]. rewrite names_of_tirows. exact Hn.
  - exact ND.
  - exact Hg.
  - cbn [stable_of_tab st_rows]. revert fs Hrows. induction (ts_rows ts) as [|r rs IH]; intros [|f fs] H; try discriminate H.
    + constructor.
    + cbn [map] in H. injection H as Hf Hfs. constructor; [|now apply IH].
      exists r. split; [exact Hf|]. clear. induction r as [|c r IH]; constructor; [apply cell_drv_of_cell|exact IH].
Qed.

(** ** the tie, all functions *)
Theorem source_tie_schema :
  (* CreateTables / buildTable *)
  (forall tg d tl, srs_keyed d -> Forall int32_srs tl ->
     match create_tables d tl with
     | Ok d' => gen_CreateTables tg (cidle d) tl = WOk (cidle d', None)
     | Err _ => exists e, outcome (gen_CreateTables tg (cidle d) tl) = WErr e
     end) /\
  (forall t srss tabs txs wr x,
     find_srs (s_id (t_srs t)) srss = Some x -> int32_srs t ->
     match create_table (MkDb srss tabs txs wr) t with
     | Ok _ => gen_buildTable (cidle (MkDb srss tabs txs wr)) t = WOk (cidle (MkDb srss (tabs ++ [fresh_tab t]) txs wr), None)
     | Err _ => fails (gen_buildTable (cidle (MkDb srss tabs txs wr)) t)
     end) /\
  (* geometryTypeFromString *)
  (forall s, gen_geometryTypeFromString s = WOk (spec_gtype s)) /\
  (forall n, (n <= 7)%N -> spec_gtype (gtype_name n) = n) /\
  (* getSpatialReferenceSystem, getTableColumns, GetTableInfo *)
  (forall sd id, gen_getSpatialReferenceSystem sd id = WOk (spec_srs sd id)) /\
  (forall sd n, gen_getTableColumns sd n = WOk (spec_columns sd n)) /\
  (forall src sd, gen_GetTableInfo src sd = WOk (spec_tables sd)) /\
  (* ReadFeatures *)
  (forall t sd st fs,
     find_stable (t_name t) (sd_tables sd) = Some st -> map ti_name (st_info st) = map c_name (t_cols t) ->
     NoDup (map c_name (t_cols t)) -> has_col (t_gcol t) (t_cols t) = true ->
     Forall2 (row_rel t) fs (st_rows st) ->
     gen_ReadFeatures (MkSource t) sd (MkOChan [] false) = WOk (MkOChan (map gfeat_of fs) true)).
Proof.
  split; [exact gen_create_tables_spec|]. split; [exact build_table_spec|]. split; [exact gen_gtype_spec|].
  split; [exact gtype_roundtrip|]. split; [exact gen_srs_spec|]. split; [exact gen_columns_spec|].
  split; [exact gen_table_info_spec|exact gen_read_features_spec].
Qed.
