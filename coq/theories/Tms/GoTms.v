(** * Meaning of the Go constructs that translator/quadtree.go emits for pointindex.IsQuadTree
      (gen/QuadTreeGen.v).  Definitions only.

    The generated function lives in the monad [qres] (a value, or the run-time panic "nil pointer
    dereference"); a translated [for _, x := range l { body }] is [qrange] over the variables the body assigns;
    a Go [error] is [goerr]: [None] is nil, [Some c] the error number c (the c-th [errors.New] of the function in
    source order; [atoi_error] for the error of strconv.Atoi) -- the numbering of [verdict] in Tms/Model.v.

    TRUSTED (these say what the library / the machine does; the translator only uses them after checking the
    exact shape of the call in the AST):
    - [go_atoi]: strconv.Atoi(s) = (n, nil) when [parse_int s = Some n] (Tms/Json.v: strconv.ParseInt(s, 10, 64));
      otherwise an error.  The number returned beside an error is NOT modelled (0 here; Go gives 0 or the clamped
      value): the translator refuses a source that does not return the error at once.
    - [int_add] ..: Go's [int] is 64 bits and wraps; [uint_add] ..: [uint] is 64 bits and wraps.
    - [fbetween_quo a b lo hi]: mathhelp.FBetweenInc(a / b, lo, hi) on float64 -- binary64 division (Tms/Json.v [f64])
      of the float64 images of a and b, compared with the float64 images of the two literals; a zero divisor gives
      an infinity or NaN, which is not between.  It is [ratio_ok] of Tms/Model.v with the literals as parameters.
    - [go_len]: len of a slice held as [option (list _)] (nil = [None]).
    - [deref]: [*p] / [p.f] on a nil pointer panics. *)
From Coq Require Import ZArith QArith String List Bool.
From Texel Require Import Tms.Json Tms.Model.
Import ListNotations.
Open Scope Z_scope.

Inductive qres (A : Type) :=
| QOk (a : A)
| QNilDeref.           (* panic: invalid memory address or nil pointer dereference *)
Arguments QOk {A} a.
Arguments QNilDeref {A}.

Definition qbind {A B} (r : qres A) (f : A -> qres B) : qres B :=
  match r with QOk a => f a | QNilDeref => QNilDeref end.
Notation "'qdo' x <- r ; k" := (qbind r (fun x => k)) (at level 200, x pattern, r at level 100, k at level 200).

(** a Go [error] value *)
Definition goerr := option nat.
Definition atoi_error : nat := 10.

Definition is_nonnil {A} (p : option A) : bool := match p with Some _ => true | None => false end.
Definition is_nil {A} (p : option A) : bool := match p with Some _ => false | None => true end.

Definition deref {A} (p : option A) : qres A :=
  match p with Some a => QOk a | None => QNilDeref end.

Definition go_len {A} (s : option (list A)) : Z :=
  match s with None => 0 | Some l => Z.of_nat (List.length l) end.

Definition go_atoi (s : string) : Z * goerr :=
  match parse_int s with
  | Some n => (n, None)
  | None => (0, Some atoi_error)
  end.

(** 64-bit machine integers *)
Definition wrap_int (z : Z) : Z := (z + 2 ^ 63) mod 2 ^ 64 - 2 ^ 63.
Definition int_add (a b : Z) : Z := wrap_int (a + b).
Definition int_sub (a b : Z) : Z := wrap_int (a - b).
Definition int_mul (a b : Z) : Z := wrap_int (a * b).
Definition uint_add (a b : Z) : Z := (a + b) mod two64.
Definition uint_sub (a b : Z) : Z := (a - b) mod two64.
Definition uint_mul (a b : Z) : Z := (a * b) mod two64.

(** mathhelp.FBetweenInc(a / b, lo, hi) on float64 *)
Definition fbetween_quo (a b lo hi : dec) : bool :=
  match f64_dec a, f64_dec b with
  | FNum x, FNum y =>
      if Qeq_bool y 0 then false
      else match f64 (x / y) with
           | FNum r =>
               let l := fnum lo in
               let h := fnum hi in
               if Qle_bool l h then Qle_bool l r && Qle_bool r h else Qle_bool h r && Qle_bool r l
           | FInf _ => false
           end
  | _, _ => false
  end.

(** the outcome of one run of the body of a range loop / of the whole loop; S = the variables the body assigns *)
Inductive qbody (S R : Type) :=
| QCont (s : S)        (* the body ended: next element *)
| QRet (r : R).        (* [return r] *)
Arguments QCont {S R} s.
Arguments QRet {S R} r.

Inductive qloop (S R : Type) :=
| QNext (s : S)        (* the loop is over *)
| QReturn (r : R).     (* the body returned from the function *)
Arguments QNext {S R} s.
Arguments QReturn {S R} r.

Fixpoint qrange {A S R : Type} (body : A -> S -> qres (qbody S R)) (l : list A) (s : S) : qres (qloop S R) :=
  match l with
  | [] => QOk (QNext s)
  | x :: l' =>
      match body x s with
      | QNilDeref => QNilDeref
      | QOk (QCont s') => qrange body l' s'
      | QOk (QRet r) => QOk (QReturn r)
      end
  end.

(** what the caller of IsQuadTree observes *)
Definition verdict_of (r : qres goerr) : verdict :=
  match r with
  | QOk None => Accept
  | QOk (Some c) => Reject c
  | QNilDeref => VPanic
  end.
