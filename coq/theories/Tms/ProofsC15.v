(** * C15 — tile addressing over exact rationals *)
From Coq Require Import ZArith QArith Qround Qabs String Ascii List Bool Lia Lqa.
From Texel Require Import Tms.Json Tms.Model.
From Texel.Gen Require Import ConstsGen TmsData.
Import ListNotations.
Open Scope Z_scope.
Open Scope list_scope.

(** ** Q helpers *)
Lemma Qltb_true : forall a b, Qltb a b = true <-> (a < b)%Q.
Proof. intros a b. unfold Qltb. rewrite Qlt_alt. destruct (a ?= b)%Q; split; intro H; try discriminate; auto. Qed.

Lemma Qltb_false : forall a b, Qltb a b = false <-> (b <= a)%Q.
Proof.
  intros a b. split; intro H.
  - apply Qnot_lt_le. intro L. apply Qltb_true in L. congruence.
  - destruct (Qltb a b) eqn:E; auto. apply Qltb_true in E. exfalso. eapply Qlt_not_le; eauto.
Qed.

Lemma Qfloor_unique : forall (q : Q) (x : Z), (inject_Z x <= q)%Q -> (q < inject_Z (x + 1))%Q -> Qfloor q = x.
Proof.
  intros q x H1 H2.
  assert (A := Qfloor_le q). assert (B := Qlt_floor q).
  assert (C : (inject_Z (Qfloor q) < inject_Z (x + 1))%Q) by (eapply Qle_lt_trans; eauto).
  assert (D : (inject_Z x < inject_Z (Qfloor q + 1))%Q) by (eapply Qle_lt_trans; eauto).
  rewrite <- Zlt_Qlt in C. rewrite <- Zlt_Qlt in D. lia.
Qed.

Lemma Qfloor_shift : forall (x : Z) (f q : Q), (0 <= f)%Q -> (f < 1)%Q -> (q == inject_Z x + f)%Q -> Qfloor q = x.
Proof.
  intros x f q H0 H1 E. apply Qfloor_unique; rewrite E.
  - lra.
  - rewrite inject_Z_plus. change (inject_Z 1) with 1%Q. lra.
Qed.

(** ** positivity of the tile spans *)
Definition tm_positive (m : tileMatrix) : Prop :=
  (0 < dq (tm_cellSize m))%Q /\ 0 < tm_tileWidth m /\ 0 < tm_tileHeight m.

Lemma tileSpanX_pos : forall m, tm_positive m -> (0 < tileSpanX m)%Q.
Proof.
  intros m [H1 [H2 _]]. unfold tileSpanX. apply Qmult_lt_0_compat; auto.
  change 0%Q with (inject_Z 0). rewrite <- Zlt_Qlt. exact H2.
Qed.

Lemma tileSpanY_pos : forall m, tm_positive m -> (0 < tileSpanY m)%Q.
Proof.
  intros m [H1 [_ H2]]. unfold tileSpanY. apply Qmult_lt_0_compat; auto.
  change 0%Q with (inject_Z 0). rewrite <- Zlt_Qlt. exact H2.
Qed.

(** the corner of tile (x, y) that lies at the corner of origin's side: top-left for topLeft (and unset), bottom-left
    for bottomLeft.  ToNative returns the TOP-LEFT corner in both conventions. *)
Definition originCornerTM (m : tileMatrix) (o : Q * Q) (tile : Z * Z) : Q * Q :=
  ((fst o + inject_Z (fst tile) * tileSpanX m)%Q,
   match tm_corner m with
   | BottomLeft => (snd o + inject_Z (snd tile) * tileSpanY m)%Q
   | _ => (snd o - inject_Z (snd tile) * tileSpanY m)%Q
   end).

Definition is_bottom_left (m : tileMatrix) : bool := match tm_corner m with BottomLeft => true | _ => false end.

Lemma toNative_is_corner : forall m o x y,
  x <= tm_matrixWidth m -> y <= tm_matrixHeight m ->
  toNativeTM m o (x, y) = Some (originCornerTM m o (x, if is_bottom_left m then y + 1 else y)).
Proof.
  intros m o x y Hx Hy. unfold toNativeTM, originCornerTM, is_bottom_left.
  destruct (Z.ltb_spec (tm_matrixWidth m) x); [lia|]. destruct (Z.ltb_spec (tm_matrixHeight m) y); [lia|].
  simpl. destruct (tm_corner m); reflexivity.
Qed.

(** ** from_to_native *)
Theorem from_to_native_lemma : forall m o x y fx fy,
  tm_positive m ->
  0 <= x < tm_matrixWidth m -> 0 <= y < tm_matrixHeight m ->
  (0 < fx)%Q -> (fx < 1)%Q -> (0 < fy)%Q -> (fy < 1)%Q ->
  exists cx cy, toNativeTM m o (x, y) = Some (cx, cy) /\
    fromNativeTM m o ((cx + fx * tileSpanX m)%Q, (cy - fy * tileSpanY m)%Q) = Some (x, y).
Proof.
  intros m o x y fx fy HP Hx Hy Hfx0 Hfx1 Hfy0 Hfy1.
  assert (SX := tileSpanX_pos m HP). assert (SY := tileSpanY_pos m HP).
  unfold toNativeTM.
  destruct (Z.ltb_spec (tm_matrixWidth m) x); [lia|]. destruct (Z.ltb_spec (tm_matrixHeight m) y); [lia|].
  cbn [orb]. eexists. eexists. split; [reflexivity|].
  unfold fromNativeTM. cbn [fst snd].
  set (X := ((fst o + inject_Z x * tileSpanX m + fx * tileSpanX m - fst o) / tileSpanX m)%Q).
  assert (EX : (X == inject_Z x + fx)%Q) by (unfold X; field; lra).
  assert (X0 : (0 <= inject_Z x)%Q) by (change 0%Q with (inject_Z 0); rewrite <- Zle_Qle; lia).
  assert (L1 : Qltb X 0 = false) by (apply Qltb_false; rewrite EX; lra).
  rewrite L1. unfold qfloor.
  rewrite (Qfloor_shift x fx X) by (auto; lra).
  destruct (Z.leb_spec (tm_matrixWidth m) x); [lia|].
  assert (Y0 : (0 <= inject_Z y)%Q) by (change 0%Q with (inject_Z 0); rewrite <- Zle_Qle; lia).
  destruct (tm_corner m) eqn:EC.
  - set (Y := ((snd o - (snd o - inject_Z y * tileSpanY m - fy * tileSpanY m)) / tileSpanY m)%Q).
    assert (EY : (Y == inject_Z y + fy)%Q) by (unfold Y; field; lra).
    assert (L2 : Qltb Y 0 = false) by (apply Qltb_false; rewrite EY; lra).
    rewrite L2. rewrite (Qfloor_shift y fy Y) by (auto; lra).
    destruct (Z.leb_spec (tm_matrixHeight m) y); [lia|reflexivity].
  - set (Y := ((snd o - (snd o - inject_Z y * tileSpanY m - fy * tileSpanY m)) / tileSpanY m)%Q).
    assert (EY : (Y == inject_Z y + fy)%Q) by (unfold Y; field; lra).
    assert (L2 : Qltb Y 0 = false) by (apply Qltb_false; rewrite EY; lra).
    rewrite L2. rewrite (Qfloor_shift y fy Y) by (auto; lra).
    destruct (Z.leb_spec (tm_matrixHeight m) y); [lia|reflexivity].
  - set (Y := ((snd o + inject_Z (y + 1) * tileSpanY m - fy * tileSpanY m - snd o) / tileSpanY m)%Q).
    assert (EY : (Y == inject_Z y + (1 - fy))%Q).
    { unfold Y. rewrite inject_Z_plus. change (inject_Z 1) with 1%Q. field; lra. }
    assert (L2 : Qltb Y 0 = false) by (apply Qltb_false; rewrite EY; lra).
    rewrite L2. rewrite (Qfloor_shift y (1 - fy) Y) by (auto; lra).
    destruct (Z.leb_spec (tm_matrixHeight m) y); [lia|reflexivity].
Qed.

(** ** what an answer of FromNative means: the point lies in the half-open tile; and the converse *)
Definition yoff (m : tileMatrix) (o pt : Q * Q) : Q :=
  match tm_corner m with
  | BottomLeft => (snd pt - snd o)%Q
  | _ => (snd o - snd pt)%Q
  end.

Theorem fromNative_spec_lemma : forall m o pt x y,
  tm_positive m ->
  (fromNativeTM m o pt = Some (x, y) <->
   0 <= x < tm_matrixWidth m /\ 0 <= y < tm_matrixHeight m /\
   (inject_Z x * tileSpanX m <= fst pt - fst o)%Q /\ (fst pt - fst o < inject_Z (x + 1) * tileSpanX m)%Q /\
   (inject_Z y * tileSpanY m <= yoff m o pt)%Q /\ (yoff m o pt < inject_Z (y + 1) * tileSpanY m)%Q).
Proof.
  intros m o pt x y HP.
  assert (SX := tileSpanX_pos m HP). assert (SY := tileSpanY_pos m HP).
  unfold fromNativeTM.
  set (X := ((fst pt - fst o) / tileSpanX m)%Q).
  set (Y := match tm_corner m with
            | BottomLeft => ((snd pt - snd o) / tileSpanY m)%Q
            | _ => ((snd o - snd pt) / tileSpanY m)%Q
            end).
  assert (EY : (Y == yoff m o pt / tileSpanY m)%Q) by (unfold Y, yoff; destruct (tm_corner m); reflexivity).
  assert (MX : forall a : Q, (a * tileSpanX m <= fst pt - fst o)%Q <-> (a <= X)%Q).
  { intros a. unfold X. split; intro H.
    - apply Qle_shift_div_l; auto.
    - assert (E : ((fst pt - fst o) / tileSpanX m * tileSpanX m == fst pt - fst o)%Q) by (field; lra).
      eapply Qle_trans; [apply Qmult_le_compat_r; [exact H|lra]|]. rewrite E. apply Qle_refl. }
  assert (MX' : forall a : Q, (fst pt - fst o < a * tileSpanX m)%Q <-> (X < a)%Q).
  { intros a. split; intro H.
    - apply Qnot_le_lt. intro L. apply MX in L. lra.
    - apply Qnot_le_lt. intro L. apply MX in L. lra. }
  assert (MY : forall a : Q, (a * tileSpanY m <= yoff m o pt)%Q <-> (a <= Y)%Q).
  { intros a. rewrite EY. split; intro H.
    - apply Qle_shift_div_l; auto.
    - assert (E : (yoff m o pt / tileSpanY m * tileSpanY m == yoff m o pt)%Q) by (field; lra).
      eapply Qle_trans; [apply Qmult_le_compat_r; [exact H|lra]|]. rewrite E. apply Qle_refl. }
  assert (MY' : forall a : Q, (yoff m o pt < a * tileSpanY m)%Q <-> (Y < a)%Q).
  { intros a. split; intro H.
    - apply Qnot_le_lt. intro L. apply MY in L. lra.
    - apply Qnot_le_lt. intro L. apply MY in L. lra. }
  rewrite MX, MX', MY, MY'.
  assert (FX := Qfloor_le X). assert (FX' := Qlt_floor X). assert (FY := Qfloor_le Y). assert (FY' := Qlt_floor Y).
  unfold qfloor.
  destruct (Qltb X 0) eqn:LX.
  - apply Qltb_true in LX. split; [discriminate|]. intros [[Hx _] [_ [H _]]].
    assert ((0 <= inject_Z x)%Q) by (change 0%Q with (inject_Z 0); rewrite <- Zle_Qle; lia). lra.
  - apply Qltb_false in LX.
    destruct (Z.leb_spec (tm_matrixWidth m) (Qfloor X)) as [WX|WX].
    + split; [discriminate|]. intros [[_ Hx] [_ [H1 [H2 _]]]].
      assert (Qfloor X = x) by (apply Qfloor_unique; auto). lia.
    + destruct (Qltb Y 0) eqn:LY.
      * apply Qltb_true in LY. split; [discriminate|]. intros [_ [[Hy _] [_ [_ [H _]]]]].
        assert ((0 <= inject_Z y)%Q) by (change 0%Q with (inject_Z 0); rewrite <- Zle_Qle; lia). lra.
      * apply Qltb_false in LY.
        destruct (Z.leb_spec (tm_matrixHeight m) (Qfloor Y)) as [WY|WY].
        -- split; [discriminate|]. intros [_ [[_ Hy] [_ [_ [H1 H2]]]]].
           assert (Qfloor Y = y) by (apply Qfloor_unique; auto). lia.
        -- assert (PX : 0 <= Qfloor X).
           { assert ((inject_Z (-1) < inject_Z (Qfloor X))%Q).
             { change (inject_Z (-1)) with (-1)%Q. rewrite inject_Z_plus in FX'. change (inject_Z 1) with 1%Q in FX'. lra. }
             rewrite <- Zlt_Qlt in H. lia. }
           assert (PY : 0 <= Qfloor Y).
           { assert ((inject_Z (-1) < inject_Z (Qfloor Y))%Q).
             { change (inject_Z (-1)) with (-1)%Q. rewrite inject_Z_plus in FY'. change (inject_Z 1) with 1%Q in FY'. lra. }
             rewrite <- Zlt_Qlt in H. lia. }
           split.
           ++ intro H. inversion H; subst. repeat split; auto; lia.
           ++ intros [_ [_ [H1 [H2 [H3 H4]]]]].
              rewrite (Qfloor_unique X x H1 H2), (Qfloor_unique Y y H3 H4). reflexivity.
Qed.

(** ** outside_none: a point outside the half-open extent of the matrix has no tile *)
Theorem outside_none_lemma : forall m o pt,
  tm_positive m ->
  ((fst pt - fst o < 0)%Q \/ (inject_Z (tm_matrixWidth m) * tileSpanX m <= fst pt - fst o)%Q \/
   (yoff m o pt < 0)%Q \/ (inject_Z (tm_matrixHeight m) * tileSpanY m <= yoff m o pt)%Q) ->
  fromNativeTM m o pt = None.
Proof.
  intros m o pt HP H.
  destruct (fromNativeTM m o pt) as [[x y]|] eqn:E; [|reflexivity]. exfalso.
  apply (fromNative_spec_lemma m o pt x y HP) in E.
  destruct E as [[Hx0 Hx1] [[Hy0 Hy1] [A [B [C D]]]]].
  assert (SX := tileSpanX_pos m HP). assert (SY := tileSpanY_pos m HP).
  assert (X0 : (0 <= inject_Z x)%Q) by (change 0%Q with (inject_Z 0); rewrite <- Zle_Qle; lia).
  assert (Y0 : (0 <= inject_Z y)%Q) by (change 0%Q with (inject_Z 0); rewrite <- Zle_Qle; lia).
  assert (X1 : (inject_Z (x + 1) <= inject_Z (tm_matrixWidth m))%Q) by (rewrite <- Zle_Qle; lia).
  assert (Y1 : (inject_Z (y + 1) <= inject_Z (tm_matrixHeight m))%Q) by (rewrite <- Zle_Qle; lia).
  destruct H as [H|[H|[H|H]]].
  - assert ((0 <= inject_Z x * tileSpanX m)%Q) by (apply Qmult_le_0_compat; lra). lra.
  - assert ((inject_Z (x + 1) * tileSpanX m <= inject_Z (tm_matrixWidth m) * tileSpanX m)%Q) by (apply Qmult_le_compat_r; lra). lra.
  - assert ((0 <= inject_Z y * tileSpanY m)%Q) by (apply Qmult_le_0_compat; lra). lra.
  - assert ((inject_Z (y + 1) * tileSpanY m <= inject_Z (tm_matrixHeight m) * tileSpanY m)%Q) by (apply Qmult_le_compat_r; lra). lra.
Qed.

(** ** bbox_spec *)
Definition Qeq2 (a b : Q * Q) : Prop := (fst a == fst b)%Q /\ (snd a == snd b)%Q.

Theorem bbox_spec_lemma : forall m o,
  let c00 := originCornerTM m o (0, 0) in
  let cWH := originCornerTM m o (tm_matrixWidth m, tm_matrixHeight m) in
  let '(bl, tr) := matrixBBoxTM m o in
  if is_bottom_left m
  then Qeq2 bl c00 /\ Qeq2 tr cWH
  else Qeq2 bl (fst c00, snd cWH) /\ Qeq2 tr (fst cWH, snd c00).
Proof.
  intros m o. unfold matrixBBoxTM, matrixSizeTM, originCornerTM, is_bottom_left, Qeq2, tileSpanX, tileSpanY.
  destruct (tm_corner m); cbn [fst snd]; repeat split; ring.
Qed.

(** ** xy order *)
Lemma toXY_spec : forall (s : bool) (p : Q * Q), toXY s p = if s then (snd p, fst p) else p.
Proof. reflexivity. Qed.

Lemma toXY_involutive : forall (s : bool) (p : Q * Q), toXY s (toXY s p) = p.
Proof. intros [] [a b]; reflexivity. Qed.

(** the set-level functions are the per-matrix ones on the origin put in x,y order *)
Theorem set_level_lemma : forall t z m s p,
  find_tm z (t_matrices t) = Some m -> vmw_nonempty m = false ->
  tm_origin m = Some p -> tms_swaps t = Ok s ->
  let o := toXY s (qpoint p) in
  (forall pt, fromNative t z pt = Ok (fromNativeTM m o pt)) /\
  (forall tile, toNative t z tile = Ok (toNativeTM m o tile)) /\
  matrixBoundingBox t z = Ok (matrixBBoxTM m o).
Proof.
  intros t z m s p Hf Hv Ho Hs o. unfold fromNative, toNative, matrixBoundingBox, originXY.
  rewrite Hf, Hv, Ho, Hs. cbn [bind]. repeat split; auto.
  intros [x y]. unfold toNativeTM. cbn [fst snd].
  destruct ((tm_matrixWidth m <? x) || (tm_matrixHeight m <? y)); reflexivity.
Qed.

(** the built-in sets: the axis order comes from the CRS itself (EPSG table / OGC:CRS84, never the orderedAxes
    fall-back, never an error) and agrees with the document's own orderedAxes *)
Definition first_axis_northing (axes : option (list string)) : option bool :=
  match axes with
  | Some (a :: _) =>
      let s := to_lower a in
      if String.eqb s "lat" || String.eqb s "y" || String.eqb s "n" then Some true
      else if String.eqb s "lon" || String.eqb s "x" || String.eqb s "e" then Some false
      else None
  | _ => None
  end.

Definition obool_eqb (a : outcome bool) (b : option bool) : bool :=
  match a, b with Ok x, Some y => Bool.eqb x y | _, _ => false end.

Definition axis_check (d : string * json) : bool :=
  match decodeTMS (snd d) with
  | Ok t => obool_eqb (isLatLon (t_crs t)) (first_axis_northing (t_orderedAxes t))
            && obool_eqb (tms_swaps t) (first_axis_northing (t_orderedAxes t))
            && forallb (fun e => match tm_origin (snd e) with Some _ => true | None => false end) (t_matrices t)
  | _ => false
  end.

Lemma axis_check_all : forallb axis_check gen_tms_documents = true.
Proof. vm_compute. reflexivity. Qed.

Theorem xy_order_builtin_lemma : forall name doc, In (name, doc) gen_tms_documents ->
  exists t b, decodeTMS doc = Ok t /\ isLatLon (t_crs t) = Ok b /\ tms_swaps t = Ok b /\
              first_axis_northing (t_orderedAxes t) = Some b /\
              forall z m, In (z, m) (t_matrices t) -> exists p, tm_origin m = Some p.
Proof.
  intros name doc HI. assert (H := axis_check_all). rewrite forallb_forall in H. specialize (H _ HI).
  unfold axis_check in H. cbn [snd] in H. destruct (decodeTMS doc) as [t| | |]; try discriminate.
  apply andb_true_iff in H. destruct H as [H H3]. apply andb_true_iff in H. destruct H as [H1 H2].
  destruct (first_axis_northing (t_orderedAxes t)) as [b|] eqn:EA.
  2:{ unfold obool_eqb in H1. destruct (isLatLon (t_crs t)); discriminate. }
  exists t, b. split; [reflexivity|].
  unfold obool_eqb in H1, H2.
  destruct (isLatLon (t_crs t)) as [x| | |]; try discriminate. apply eqb_prop in H1. subst x.
  destruct (tms_swaps t) as [y| | |]; try discriminate. apply eqb_prop in H2. subst y.
  repeat split; auto.
  intros z m Hzm. rewrite forallb_forall in H3. specialize (H3 _ Hzm). cbn [snd] in H3.
  destruct (tm_origin m) as [p|]; [eauto|discriminate].
Qed.

(** ** the orderedAxes fall-back of ToXYPoint (used when the CRS authority is unknown): after the repair of F15 it
       swaps exactly the northing-first orders *)
Lemma to_lower_app a b : to_lower (append a b) = append (to_lower a) (to_lower b).
Proof. induction a as [| c a IH]; cbn [append to_lower]; [reflexivity | rewrite IH; reflexivity]. Qed.

Definition axis_table : list (string * string * bool) :=
  [("e", "n", false); ("x", "y", false); ("lon", "lat", false); ("e(x)", "n(y)", false);
   ("n", "e", true); ("y", "x", true); ("lat", "lon", true); ("n(y)", "e(x)", true)]%string.

Lemma fallback_axis_order a b rest r : In (to_lower a, to_lower b, r) axis_table ->
  axisOrderIsLatLon (Some (a :: b :: rest)) = Ok r.
Proof.
  intro H. unfold axisOrderIsLatLon. rewrite to_lower_app. cbn [to_lower append].
  change (lower_ascii ","%char) with ","%char.
  unfold axis_table in H. cbn [In] in H.
  repeat (destruct H as [H | H]; [injection H as Ha Hb Hr; rewrite <- Ha, <- Hb, <- Hr; reflexivity |]).
  contradiction.
Qed.
