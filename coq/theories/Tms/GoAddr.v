(** * The Go constructs of the tile-addressing functions of tms20.go, as Gallina — the vocabulary of the
      REGENERATED file gen/TmsAddrGen.v (translator/tmsaddr.go).  Definitions only.

    This is the reading under which the generated definitions are a translation of the Go source (trusted base
    of the source tie C15_source_tie_addressing, together with the data representation of Tms/Model.v):

    - [float64] is an exact rational [Q]: [+ - * /] are the field operations (x / 0 = 0 in Coq; Go gives +-Inf / NaN,
      which is outside the reading), [<] is [Qltb]; a float64 FIELD of a tile matrix is the decimal of the document
      ([dq]); the float envelope is held by the run-time correspondence C15 (harness_tms/c15.go);
    - [uint] / [int] / [TMID] are exact integers [Z]: no wrap-around, conversions between them are the identity;
      [float64(u)] is [inject_Z u]; [uint(f)] is truncation toward zero ([f2uint], no saturation);
    - [[2]float64] / [geom.Point] / [TwoDPoint] are pairs, [p[0]] / [p.X()] = [fst], [p[1]] / [p.Y()] = [snd],
      [p[0] = v] = [set0];
    - a map [map[TMID]TileMatrix] is the model's key-sorted association list read with [find_tm];
      a missing key gives the zero value [zero_tm];
    - a pointer that is dereferenced is an [option]: [nil] = [None], dereferencing [None] is [Panic];
    - a function whose last result is an [error] returns [outcome T]: a non-nil error is [Error] (its other
      results are not observable), [panic(..)] is [Panic]; [v, err := f(..)] is [split_err zero (f ..)], [err]
      being the boolean "err != nil". *)
From Coq Require Import ZArith QArith Qround String List Bool.
From Texel Require Import Tms.Json Tms.Model.
From Texel.Gen Require Import TmsData.
Open Scope Z_scope.

(** the zero value of tms20.TileMatrix *)
Definition zero_tm : tileMatrix :=
  MkTM EmptyString EmptyString EmptyString None dzero dzero CornerUnset None 0 0 0 0 None.

(** [v, ok := m[k]] on a map[TMID]TileMatrix; [v := m[k]] is its first component *)
Definition map_get (l : list (Z * tileMatrix)) (k : Z) : tileMatrix * bool :=
  match find_tm k l with
  | Some m => (m, true)
  | None => (zero_tm, false)
  end.

(** [len(s)] of a slice ([None] = nil) *)
Definition slice_len {A : Type} (s : option (list A)) : Z :=
  match s with None => 0 | Some l => Z.of_nat (List.length l) end.

(** [*p] *)
Definition deref {A : Type} (p : option A) : outcome A :=
  match p with Some a => Ok a | None => Panic end.

(** [v, err := f(..)] for f returning (T, error): the value and "err != nil"; on an error the value is the zero value
    (what every error return of the functions concerned hands back) *)
Definition split_err {A : Type} (zero : A) (r : outcome A) : outcome (A * bool) :=
  match r with
  | Ok a => Ok (a, false)
  | Error => Ok (zero, true)
  | Panic => Panic
  | ErrorOrPanic => ErrorOrPanic
  end.

(** [return v, err] with [err] a variable *)
Definition ret_err {A : Type} (v : A) (err : bool) : outcome A := if err then Error else Ok v.

Definition set0 {A : Type} (p : A * A) (v : A) : A * A := (v, snd p).
Definition set1 {A : Type} (p : A * A) (v : A) : A * A := (fst p, v).

(** [uint(f)] for a float64 f: truncation toward zero *)
Definition f2uint (q : Q) : Z := Z.quot (Qnum q) (Zpos (Qden q)).

(** [*slippy.Tile]: a pointer to Tile{Z, X, Y} *)
Definition tile : Type := (Z * Z * Z)%type.
Definition tileZ (t : tile) : Z := fst (fst t).
Definition tileX (t : tile) : Z := snd (fst t).
Definition tileY (t : tile) : Z := snd t.
(** slippy.NewTile(z, x, y) = &Tile{Z: z, X: x, Y: y} *)
Definition newTile (z x y : Z) : option tile := Some (z, x, y).

(** MODELLED: a CALL of roundFloat(f, p) = math.Round(f * 10^p) / 10^p is the identity in the model over exact
    rationals (the corners of the implementation are compared within 1e-9 x scale by the correspondence C15); the
    body of roundFloat is translated as well (gen_roundFloat) and shown to stay within 1 / (2 * 10^p) of the identity *)
Definition roundFloat_modelled (f : Q) (p : Z) : Q := f.

(** ** the vocabulary of IsLatLon and axisOrderIsLatLon *)
(** MAPPED: crs.Authority() / .Version() / .Code() on the interface CRS: the three implementations as modelled by
    [crs_avc] (ReferenceSystemCRS panics "not implemented") *)
Definition crs_authority (c : crs) : outcome string := do avc <- crs_avc c; Ok (fst (fst avc)).
Definition crs_version (c : crs) : outcome string := do avc <- crs_avc c; Ok (snd (fst avc)).
Definition crs_code (c : crs) : outcome string := do avc <- crs_avc c; Ok (snd avc).

(** [s[i]] on a []string: index out of range (and nil) panics *)
Definition str_idx (s : option (list string)) (i : Z) : outcome string :=
  match s with
  | None => Panic
  | Some l => if i <? 0 then Panic
              else match nth_error l (Z.to_nat i) with Some x => Ok x | None => Panic end
  end.

(** MAPPED: regexp.MustCompile(`^(p1|p2|..)`).Match(s) with literal alternatives: s starts with one of them *)
Definition prefix_any (ps : list string) (s : string) : bool := existsb (fun p => has_prefix p s) ps.

(** MAPPED: strconv.ParseUint(s, 10, 64) *)
Definition parse_uint_res (s : string) : outcome Z :=
  match parse_uint s with Some n => Ok n | None => Error end.

(** [v, ok := epsgAxesAreLatLon[k]]: the map literal of tms20/epsg_axis_order.go as regenerated into gen/TmsData.v
    (the keys with value true, the keys with value false) *)
Definition epsg_get (k : Z) : bool * bool :=
  if existsb (Z.eqb k) gen_epsg_latlon_true then (true, true)
  else if existsb (Z.eqb k) gen_epsg_latlon_false then (false, true)
  else (false, false).

(** math.Round on an exact rational: to the nearest integer, halves away from zero; math.Pow(10, p) for a natural p *)
Definition go_round (q : Q) : Q :=
  if Qle_bool 0 q then inject_Z (Qfloor (q + (1 # 2))) else (- inject_Z (Qfloor (- q + (1 # 2))))%Q.
Definition go_pow10 (p : Q) : Q := pow10Q (Qfloor p).
