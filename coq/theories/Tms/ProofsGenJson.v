(** * Source tie for the JSON decoding / encoding code of tms20/tms20.go: the REGENERATED functions of gen/TmsJsonGen.v
      (translator/tmsjson.go) compute what the hand-written model of Tms/Model.v computes, for ALL inputs.

    Trusted: the reading of the Go constructs in Tms/GoJson.v, and the library calls the translator MAPS to the model
    after checking their exact shape in the AST (they are listed at the top of gen/TmsJsonGen.v):
      defaults.Set(<receiver>) = nil, nothing changed (no `default:` tag in tms20.go);
      strconv.ParseInt(s, 10, 64) = parse_int (with the error dropped: 0 for a text that is not a number);
      math.Trunc = truncation toward zero;
      the end of TileMatrix.UnmarshalJSONFromMap (marshmallow.UnmarshalFromJSONMap, then validator.Struct) = decodeTM_fields
        (the declarations of TileMatrix / VariableMatrixWidth are compared with the ones the model transcribes);
      the two CRS URI regular expressions (their text is compared) = parse_crs_url / parse_crs_urn;
      marshmallow.UnmarshalFromJSONMap into a ProjJSON = projjson_ok;
      marshmallow.Unmarshal of a text into a TileMatrixSet / TwoDBoundingBox = the streaming fold of top_step / bb_step,
        the fields then taken by their json tags (gen_T_populated);
      validate.Struct = nothing for a struct without exported fields, otherwise one vtag_ function per `validate:` tag;
      json.Marshal of a string / of a struct literal = the members by their json tags in field order (collapse and the enc_ functions);
      the values of the tile matrix map in any order followed at once by sort.Slice = sort_slice with the regenerated
        comparison (not stable in Go: determined when no two ids denote the same integer).
    [crs_of] / [bbox_of] / [tms_of] read a regenerated struct as the model's value (Go keeps the raw maps of a WKT /
    reference-system CRS; the model keeps them as they print: canon_obj). *)
From Coq Require Import ZArith QArith String List Bool Lia.
From Texel Require Import Tms.Json Tms.Model Tms.GoJson.
From Texel.Gen Require Import TmsJsonGen.
From Texel.Gen Require TmsData.
Import ListNotations.
Open Scope Z_scope.

(** ** float64 tests of checkUnsignedIntegers = uint_number_ok *)
Lemma Qle0_not_lt : forall q, Qle_bool 0 q = negb (Qltb q 0).
Proof.
  intros [n d]. unfold Qle_bool, Qltb, Qcompare. cbn [Qnum Qden].
  rewrite Z.mul_1_r. change (0 * Z.pos d) with 0.
  destruct (Z.compare_spec n 0) as [E|E|E]; destruct (Z.leb_spec 0 (n * 1)) as [L|L]; cbn; try reflexivity; lia.
Qed.

Lemma Qeq_trunc_mod : forall q,
  Qeq_bool q (inject_Z (Z.quot (Qnum q) (Zpos (Qden q)))) = (Qnum q mod Zpos (Qden q) =? 0).
Proof.
  intros [n d]. unfold Qeq_bool. cbn [Qnum Qden inject_Z]. rewrite Z.mul_1_r.
  assert (P : 0 < Z.pos d) by lia.
  destruct (Z.eqb_spec (n mod Z.pos d) 0) as [M|M].
  - apply Zeq_is_eq_bool.
    assert (R : Z.rem n (Z.pos d) = 0).
    { apply Z.rem_divide; [lia|]. apply Z.mod_divide; [lia|exact M]. }
    pose proof (Z.quot_rem' n (Z.pos d)) as QR. rewrite R in QR. lia.
  - destruct (Zeq_bool n (Z.quot n (Z.pos d) * Z.pos d)) eqn:E; [|reflexivity].
    apply Zeq_is_eq_bool in E. exfalso. apply M.
    rewrite E. apply Z.mod_mul. lia.
Qed.

Lemma float_tests_uint_number_ok : forall q,
  (fl_ltb (FNum q) (fl_of_Z 0) || fl_neqb (FNum q) (fl_trunc (FNum q)) || fl_geb (FNum q) (fl_of_Z 9007199254740992))
  = negb (uint_number_ok q).
Proof.
  intros q. unfold uint_number_ok, fl_geb, fl_neqb, fl_ltb, fl_trunc, fl_of_Z, fl_eqb.
  change (inject_Z 0) with 0%Q. rewrite Qle0_not_lt, Qeq_trunc_mod.
  change (2 ^ 53) with 9007199254740992.
  destruct (Qltb q 0); destruct (Qnum q mod Z.pos (Qden q) =? 0);
    destruct (Qltb q (inject_Z 9007199254740992)); reflexivity.
Qed.

(** ** checkUnsignedIntegers *)
Lemma check_loop_body : forall o k,
  gen_checkUnsignedIntegers_loop1 o k tt = if uint_member_ok k o then Ok (LCont tt) else Error.
Proof.
  intros o k. unfold gen_checkUnsignedIntegers_loop1, uint_member_ok, obj_get.
  destruct (lookup_last k o) as [v|]; [|reflexivity].
  destruct v as [| b | d | s | l | l]; try reflexivity.
  cbn [fst as_float64]. destruct (f64_dec d) as [q|neg].
  - cbn [andb]. rewrite float_tests_uint_number_ok. destruct (uint_number_ok q); reflexivity.
  - destruct neg; reflexivity.
Qed.

Theorem checkUnsignedIntegers_tie : forall o keys,
  gen_checkUnsignedIntegers o keys = if forallb (fun k => uint_member_ok k o) keys then Ok tt else Error.
Proof.
  intros o keys. unfold gen_checkUnsignedIntegers.
  assert (L : orange (gen_checkUnsignedIntegers_loop1 o) keys tt
              = if forallb (fun k => uint_member_ok k o) keys then Ok (LCont tt) else Error).
  { induction keys as [|k r IH]; [reflexivity|].
    cbn [orange forallb]. rewrite check_loop_body. destruct (uint_member_ok k o); cbn [bind andb]; [exact IH|reflexivity]. }
  rewrite L. destruct (forallb (fun k => uint_member_ok k o) keys); reflexivity.
Qed.

(** ** TileMatrix.UnmarshalJSONFromMap *)
Lemma vmw_loop_body : forall tm0 j,
  gen_TileMatrix_UnmarshalJSONFromMap_loop1 tm0 j false = if vmw_elem_ok j then Ok (LCont false) else Error.
Proof.
  intros tm0 j. unfold gen_TileMatrix_UnmarshalJSONFromMap_loop1, vmw_elem_ok.
  destruct j as [| b | d | s | l | e]; try reflexivity.
  cbn [as_object]. rewrite checkUnsignedIntegers_tie. cbn [forallb]. rewrite andb_true_r, andb_assoc.
  destruct (uint_member_ok "coalesce" e && uint_member_ok "minTileRow" e && uint_member_ok "maxTileRow" e); reflexivity.
Qed.

Lemma vmw_loop : forall tm0 l,
  orange (gen_TileMatrix_UnmarshalJSONFromMap_loop1 tm0) l false = if forallb vmw_elem_ok l then Ok (LCont false) else Error.
Proof.
  intros tm0 l. induction l as [|j r IH]; [reflexivity|].
  cbn [orange forallb]. rewrite vmw_loop_body. destruct (vmw_elem_ok j); cbn [bind andb]; [exact IH|reflexivity].
Qed.

Theorem TileMatrix_UnmarshalJSONFromMap_tie : forall j,
  gen_TileMatrix_UnmarshalJSONFromMap zero_tm j = match j with JObj o => decodeTM o | _ => Error end.
Proof.
  intros j. unfold gen_TileMatrix_UnmarshalJSONFromMap. cbn [err_of defaults_set_noop bind].
  destruct j as [| b | d | s | l | o]; try reflexivity.
  cbn [as_object negb]. rewrite checkUnsignedIntegers_tie. cbn [forallb]. rewrite andb_true_r.
  unfold decodeTM, uints_ok, marshmallow_then_validate_tm, obj_get.
  rewrite !andb_assoc.
  destruct (uint_member_ok "tileWidth" o && uint_member_ok "tileHeight" o && uint_member_ok "matrixWidth" o
            && uint_member_ok "matrixHeight" o); [|reflexivity].
  cbn [err_of bind andb].
  destruct (lookup_last "variableMatrixWidths" o) as [v|]; [|reflexivity].
  destruct v as [| b | d | s | l | e]; try reflexivity.
  cbn [fst as_array]. rewrite vmw_loop. destruct (forallb vmw_elem_ok l); reflexivity.
Qed.

(** ** TwoDPoint.UnmarshalJSONFromMap *)
Theorem TwoDPoint_UnmarshalJSONFromMap_exact : forall p j,
  gen_TwoDPoint_UnmarshalJSONFromMap p j =
  match j with JArr [JNum a; JNum b] => Ok (f64_dec a, f64_dec b) | _ => Error end.
Proof.
  intros p j. unfold gen_TwoDPoint_UnmarshalJSONFromMap.
  destruct j as [| b | d | s | l | o]; try reflexivity.
  cbn [as_array negb orb].
  destruct l as [|x [|y [|z r]]]; try reflexivity.
  - destruct x; reflexivity.
  - (* two elements *)
    destruct x as [| xb | xd | xs | xl | xo]; try reflexivity;
    destruct y as [| yb | yd | ys | yl | yo]; reflexivity.
  - (* three or more *)
    assert (E : (zlen (x :: y :: z :: r) =? 2) = false).
    { unfold zlen. cbn [List.length]. apply Z.eqb_neq. lia. }
    rewrite E. destruct x; try reflexivity; destruct y; try reflexivity.
Qed.

(** against the model's [conv_point]: a tree produced by encoding/json only holds numbers with a finite float64 image *)
Theorem TwoDPoint_UnmarshalJSONFromMap_tie : forall p j, nums_finite j = true ->
  match conv_point j with
  | CVal (a, b) => gen_TwoDPoint_UnmarshalJSONFromMap p j = Ok (f64_dec a, f64_dec b)
  | _ => gen_TwoDPoint_UnmarshalJSONFromMap p j = Error
  end.
Proof.
  intros p j F. rewrite TwoDPoint_UnmarshalJSONFromMap_exact. unfold conv_point.
  destruct j as [| b | d | s | l | o]; try reflexivity.
  destruct l as [|x [|y [|z r]]]; try reflexivity.
  - destruct x; reflexivity.
  - destruct x as [| xb | xd | xs | xl | xo]; try reflexivity;
    destruct y as [| yb | yd | ys | yl | yo]; try reflexivity.
    cbn [nums_finite forallb] in F.
    destruct (f64_dec xd) eqn:EX; [|discriminate F]. destruct (f64_dec yd) eqn:EY; [|discriminate F].
    cbn. rewrite EX, EY. reflexivity.
  - destruct x as [| xb | xd | xs | xl | xo]; try reflexivity; destruct y; reflexivity.
Qed.

(** ** unmarshalTileMatrices *)
Lemma tms_loop : forall b l acc,
  orange (gen_unmarshalTileMatrices_loop1 b) l acc = bind (decodeTMs l acc) (fun r => Ok (LCont r)).
Proof.
  intros b l. induction l as [|x r IH]; intros acc; [reflexivity|].
  cbn [orange decodeTMs]. unfold gen_unmarshalTileMatrices_loop1 at 1.
  destruct x as [| xb | xd | xs | xl | o]; try reflexivity.
  cbn [as_object negb]. rewrite TileMatrix_UnmarshalJSONFromMap_tie.
  destruct (decodeTM o) as [m| | |]; try reflexivity.
  cbn [split_err bind]. unfold parse_int_res.
  destruct (parse_int (tm_id m)) as [k|]; [|reflexivity].
  cbn [split_err bind]. apply IH.
Qed.

Theorem unmarshalTileMatrices_tie : forall j,
  gen_unmarshalTileMatrices j = match j with JArr l => decodeTMs l [] | _ => Error end.
Proof.
  intros j. unfold gen_unmarshalTileMatrices.
  destruct j as [| b | d | s | l | o]; try reflexivity.
  cbn [as_array negb]. rewrite tms_loop. destruct (decodeTMs l []); reflexivity.
Qed.

(** ** The three CRS forms: URICRS / WKTCRS / ReferenceSystemCRS .UnmarshalJSONFromMap, unmarshalCRS *)
Definition uri_spec (o : obj) : outcome gen_URICRS :=
  match crs_description o with
  | None => Error
  | Some d =>
      match lookup_last "uri" o with
      | Some (JStr u) =>
          match parse_crs_uri u with
          | Some (a, v, c) => Ok (Mk_gen_URICRS d u a v c false)
          | None => Error
          end
      | _ => Error
      end
  end.

Lemma URICRS_tie : forall o, gen_URICRS_UnmarshalJSONFromMap gen_URICRS_zero (JObj o) = uri_spec o.
Proof.
  intros o. unfold gen_URICRS_UnmarshalJSONFromMap, uri_spec, crs_description, obj_get, parse_crs_uri, submatch_url, submatch_urn.
  cbn [as_object negb].
  destruct (lookup_last "description" o) as [dv|];
    [destruct dv; cbn [as_string negb fst snd]; try reflexivity|];
    (destruct (lookup_last "uri" o) as [uv|]; [|reflexivity]);
    (destruct uv as [| ? | ? | u | ? | ?]; try reflexivity);
    cbn -[parse_crs_url parse_crs_urn];
    (destruct (parse_crs_url u) as [[[a v] c]|]; [reflexivity|]);
    cbn -[parse_crs_url parse_crs_urn];
    (destruct (parse_crs_urn u) as [[[a v] c]|]; reflexivity).
Qed.

Definition wkt_spec (o : obj) : outcome gen_WKTCRS :=
  match crs_description o with
  | None => Error
  | Some d =>
      match lookup_last "wkt" o with
      | Some (JObj w) => if projjson_ok w then Ok (Mk_gen_WKTCRS d (projjson_read w) w) else Error
      | _ => Error
      end
  end.

Lemma WKTCRS_tie : forall o, gen_WKTCRS_UnmarshalJSONFromMap gen_WKTCRS_zero (JObj o) = wkt_spec o.
Proof.
  intros o. unfold gen_WKTCRS_UnmarshalJSONFromMap, wkt_spec, crs_description, obj_get, marshmallow_projjson.
  cbn [as_object negb].
  destruct (lookup_last "description" o) as [dv|];
    [destruct dv; cbn [as_string negb fst snd]; try reflexivity|];
    (destruct (lookup_last "wkt" o) as [wv|]; [|reflexivity]);
    (destruct wv as [| ? | ? | ? | ? | w]; try reflexivity);
    cbn -[projjson_ok projjson_read];
    (destruct (projjson_ok w); reflexivity).
Qed.

Definition ref_spec (o : obj) : outcome gen_ReferenceSystemCRS :=
  match crs_description o with
  | None => Error
  | Some d =>
      match lookup_last "referenceSystem" o with
      | Some (JObj w) => Ok (Mk_gen_ReferenceSystemCRS d w)
      | _ => Error
      end
  end.

Lemma ReferenceSystemCRS_tie : forall o,
  gen_ReferenceSystemCRS_UnmarshalJSONFromMap gen_ReferenceSystemCRS_zero (JObj o) = ref_spec o.
Proof.
  intros o. unfold gen_ReferenceSystemCRS_UnmarshalJSONFromMap, ref_spec, crs_description, obj_get.
  cbn [as_object negb].
  destruct (lookup_last "description" o) as [dv|];
    [destruct dv; cbn [as_string negb fst snd]; try reflexivity|];
    (destruct (lookup_last "referenceSystem" o) as [wv|]; [|reflexivity]);
    (destruct wv as [| ? | ? | ? | ? | w]; reflexivity).
Qed.

Definition crs_of (c : gen_CRS) : outcome crs :=
  match c with
  | gen_CRS_nil => Panic
  | gen_CRS_URICRS r => Ok (CrsURI (gen_URICRS_description r) (gen_URICRS_uri r) (gen_URICRS_asString r))
  | gen_CRS_WKTCRS r => Ok (CrsWKT (gen_WKTCRS_description r) (canon_obj (gen_WKTCRS_originalWKT r)))
  | gen_CRS_ReferenceSystemCRS r =>
      Ok (CrsRef (gen_ReferenceSystemCRS_description r) (canon_obj (gen_ReferenceSystemCRS_referenceSystem r)))
  end.


Lemma uri_spec_dec : forall o b,
  match uri_spec o with
  | Ok r => decodeCrsURI o b = Some (CrsURI (gen_URICRS_description r) (gen_URICRS_uri r) b)
            /\ parse_crs_uri (gen_URICRS_uri r) = Some (gen_URICRS_authority r, gen_URICRS_version r, gen_URICRS_code r)
  | Error => decodeCrsURI o b = None
  | _ => False
  end.
Proof.
  intros o b. unfold uri_spec, decodeCrsURI.
  destruct (crs_description o) as [d|]; [|reflexivity].
  destruct (lookup_last "uri" o) as [uv|]; [|reflexivity].
  destruct uv as [| ? | ? | u | ? | ?]; try reflexivity.
  destruct (parse_crs_uri u) as [[[a v] c]|] eqn:E; [|reflexivity].
  cbn [gen_URICRS_description gen_URICRS_uri gen_URICRS_authority gen_URICRS_version gen_URICRS_code]. split; [reflexivity|exact E].
Qed.

Lemma wkt_spec_dec : forall o,
  match wkt_spec o with
  | Ok r => decodeCrsWKT o = Some (CrsWKT (gen_WKTCRS_description r) (canon_obj (gen_WKTCRS_originalWKT r)))
  | Error => decodeCrsWKT o = None
  | _ => False
  end.
Proof.
  intros o. unfold wkt_spec, decodeCrsWKT.
  destruct (crs_description o) as [d|]; [|reflexivity].
  destruct (lookup_last "wkt" o) as [wv|]; [|reflexivity].
  destruct wv as [| ? | ? | ? | ? | w]; try reflexivity.
  destruct (projjson_ok w); reflexivity.
Qed.

Lemma ref_spec_dec : forall o,
  match ref_spec o with
  | Ok r => decodeCrsRef o = Some (CrsRef (gen_ReferenceSystemCRS_description r) (canon_obj (gen_ReferenceSystemCRS_referenceSystem r)))
  | Error => decodeCrsRef o = None
  | _ => False
  end.
Proof.
  intros o. unfold ref_spec, decodeCrsRef.
  destruct (crs_description o) as [d|]; [|reflexivity].
  destruct (lookup_last "referenceSystem" o) as [wv|]; [|reflexivity].
  destruct wv as [| ? | ? | ? | ? | w]; reflexivity.
Qed.

Ltac crs_try o b :=
  rewrite (URICRS_tie o);
  pose proof (uri_spec_dec o b) as HU; destruct (uri_spec o) as [ru| | |]; try contradiction;
  [destruct HU as [HU _]; rewrite HU; reflexivity|];
  rewrite HU; cbn [split_err bind negb];
  rewrite (WKTCRS_tie o);
  pose proof (wkt_spec_dec o) as HW; destruct (wkt_spec o) as [rw| | |]; try contradiction;
  [rewrite HW; reflexivity|];
  rewrite HW; cbn [split_err bind negb];
  rewrite (ReferenceSystemCRS_tie o);
  pose proof (ref_spec_dec o) as HR; destruct (ref_spec o) as [rr| | |]; try contradiction;
  rewrite HR; reflexivity.

Theorem unmarshalCRS_tie : forall j, bind (gen_unmarshalCRS j) crs_of = decodeCRS j.
Proof.
  intros j. unfold gen_unmarshalCRS, decodeCRS.
  destruct j as [| ? | ? | s | ? | o]; try reflexivity.
  - cbn [as_string as_object negb]. cbv zeta. unfold obj_single. crs_try [("uri"%string, JStr s)] true.
  - cbn [as_string as_object negb]. cbv zeta. crs_try o false.
Qed.

(** the stored authority / version / code of a decoded URI CRS are the groups of the model's parser *)
Theorem unmarshalCRS_uri_parts : forall j r, gen_unmarshalCRS j = Ok (gen_CRS_URICRS r) ->
  parse_crs_uri (gen_URICRS_uri r) = Some (gen_URICRS_authority r, gen_URICRS_version r, gen_URICRS_code r).
Proof.
  assert (G : forall o b r,
    (do (v_uriCrs, v_err) <- split_err gen_URICRS_zero (gen_URICRS_UnmarshalJSONFromMap gen_URICRS_zero (JObj o));
     if negb v_err then Ok (gen_CRS_URICRS (gen_URICRS_set_asString v_uriCrs b))
     else
      do (v_wktCrs, v_err0) <- split_err gen_WKTCRS_zero (gen_WKTCRS_UnmarshalJSONFromMap gen_WKTCRS_zero (JObj o));
      if negb v_err0 then Ok (gen_CRS_WKTCRS v_wktCrs)
      else
       do (v_referenceSystemCrs, v_err1) <- split_err gen_ReferenceSystemCRS_zero
          (gen_ReferenceSystemCRS_UnmarshalJSONFromMap gen_ReferenceSystemCRS_zero (JObj o));
       if negb v_err1 then Ok (gen_CRS_ReferenceSystemCRS v_referenceSystemCrs) else Error) = Ok (gen_CRS_URICRS r) ->
    parse_crs_uri (gen_URICRS_uri r) = Some (gen_URICRS_authority r, gen_URICRS_version r, gen_URICRS_code r)).
  { intros o b r. rewrite (URICRS_tie o).
    pose proof (uri_spec_dec o b) as HU. destruct (uri_spec o) as [ru| | |]; try contradiction.
    - cbn [split_err bind negb]. intros E. inversion E. subst r. destruct HU as [_ HU]. destruct ru. exact HU.
    - cbn [split_err bind negb]. rewrite (WKTCRS_tie o). destruct (wkt_spec o); cbn [split_err bind negb]; try discriminate.
      rewrite (ReferenceSystemCRS_tie o). destruct (ref_spec o); cbn [split_err bind negb]; discriminate. }
  intros j r. unfold gen_unmarshalCRS.
  destruct j as [| ? | ? | s | ? | o]; try discriminate.
  - cbn [as_string as_object negb]. cbv zeta. apply G.
  - cbn [as_string as_object negb]. cbv zeta. apply G.
Qed.

(** ** MarshalJSON of the three CRS types, through the interface: the model's encodeCRS *)
Theorem CRS_MarshalJSON_tie : forall c m, crs_of c = Ok m -> gen_CRS_MarshalJSON c = Ok (encodeCRS m).
Proof.
  intros [|r|r|r] m H; try discriminate H; inversion H; subst m; try reflexivity.
  destruct r as [d u a v c b]. unfold gen_CRS_MarshalJSON, gen_URICRS_MarshalJSON.
  cbn [gen_URICRS_asString gen_URICRS_uri gen_URICRS_description]. destruct b; reflexivity.
Qed.

(** ** TileMatrixSet.UnmarshalJSON *)
Definition tms_of (r : gen_TileMatrixSet) : outcome tms :=
  do c <- crs_of (gen_TileMatrixSet_CRS r);
  Ok (MkTMS (gen_TileMatrixSet_ID r) (gen_TileMatrixSet_Title r) (gen_TileMatrixSet_Description r)
            (gen_TileMatrixSet_Keywords r) (gen_TileMatrixSet_URI r) (gen_TileMatrixSet_OrderedAxes r)
            (gen_TileMatrixSet_WellKnownScaleSet r) (gen_TileMatrixSet_BoundingBox r) c
            (gen_TileMatrixSet_TileMatrices r)).

Lemma decodeCRS_value_or_error : forall j, decodeCRS j <> Panic /\ decodeCRS j <> ErrorOrPanic.
Proof.
  intros j. unfold decodeCRS. destruct j as [| ? | ? | s | ? | o]; try (split; discriminate).
  - destruct (decodeCrsURI _ true); [split; discriminate|].
    destruct (decodeCrsWKT _); [split; discriminate|]. destruct (decodeCrsRef _); split; discriminate.
  - destruct (decodeCrsURI _ false); [split; discriminate|].
    destruct (decodeCrsWKT _); [split; discriminate|]. destruct (decodeCrsRef _); split; discriminate.
Qed.

(** the bounding box of a populated set went through its own decoder, which enforces the tags of TwoDBoundingBox *)
Lemma zlen_eqb_nat : forall {A} (l : list A) n, (zlen l =? Z.of_nat n) = Nat.eqb (List.length l) n.
Proof.
  intros A l n. unfold zlen. destruct (Nat.eqb_spec (List.length l) n) as [E|E].
  - rewrite E. apply Z.eqb_refl.
  - apply Z.eqb_neq. lia.
Qed.

Lemma zlen_eqb_2 : forall {A} (l : list A), (zlen l =? 2) = Nat.eqb (List.length l) 2.
Proof. intros A l. exact (zlen_eqb_nat l 2). Qed.

Lemma decodeBBox_tags : forall v b, decodeBBox v = Ok b -> vtag_struct_bbox (Some b) = true.
Proof.
  intros v b. unfold decodeBBox. destruct v as [| ? | ? | ? | ? | o]; try discriminate.
  destruct (foldO bb_step o _) as [a| | |]; try discriminate. cbn [bind].
  destruct (ba_crs a) as [cj|]; [|discriminate].
  destruct (decodeCRS cj) as [c| | |]; try discriminate. cbn [bind].
  destruct (ba_ll a) as [ll|]; [|discriminate]. destruct (ba_ur a) as [ur|]; [|discriminate].
  destruct (ba_axes a) as [ax|].
  - destruct (Nat.eqb (List.length ax) 2) eqn:E; [|discriminate]. intros H. inversion H. subst b.
    unfold vtag_struct_bbox, vtag_omitempty_len_strs. cbn [bb_orderedAxes].
    rewrite (zlen_eqb_2 ax). exact E.
  - intros H. inversion H. reflexivity.
Qed.

Lemma top_step_bbox : forall a kv a', top_step a kv = Ok a' ->
  vtag_struct_bbox (ta_bbox a) = true -> vtag_struct_bbox (ta_bbox a') = true.
Proof.
  intros a [k v] a'. unfold top_step, top_str, top_strs.
  repeat match goal with
  | |- context [if String.eqb k ?s then _ else _] => destruct (String.eqb k s)
  end;
  try (destruct (conv_str v); intros H; inversion H; subst; cbn [ta_bbox]; auto; fail);
  try (destruct (conv_strs v); intros H; inversion H; subst; cbn [ta_bbox]; auto; fail).
  - destruct (decodeBBox v) as [b| | |] eqn:E; cbn [bind]; intros H; inversion H. subst a'. cbn [ta_bbox].
    intros _. exact (decodeBBox_tags _ _ E).
  - destruct (nums_finite v); intros H; inversion H; subst; cbn [ta_bbox]; auto.
  - destruct (nums_finite v); intros H; inversion H; subst; cbn [ta_bbox]; auto.
  - destruct (nums_finite v); intros H; inversion H; subst; cbn [ta_bbox]; auto.
Qed.

Lemma foldO_top_bbox : forall o a a', foldO top_step o a = Ok a' ->
  vtag_struct_bbox (ta_bbox a) = true -> vtag_struct_bbox (ta_bbox a') = true.
Proof.
  induction o as [|kv r IH]; intros a a' H Ha.
  - inversion H. subst. exact Ha.
  - cbn [foldO] in H. destruct (top_step a kv) as [a1| | |] eqn:E; try discriminate. cbn [bind] in H.
    apply (IH a1 a' H). exact (top_step_bbox _ _ _ E Ha).
Qed.

Lemma min_strs_model : forall l, vtag_omitnil_min_strs 1 l = match l with None => true | Some x => Nat.leb 1 (List.length x) end.
Proof.
  intros [[|x r]|]; try reflexivity.
  unfold vtag_omitnil_min_strs, zlen. cbn [List.length Nat.leb]. apply Z.leb_le. lia.
Qed.

Lemma min_tmmap_model : forall (m : list (Z * tileMatrix)), vtag_required_min_tmmap 1 m = match m with [] => false | _ => true end.
Proof.
  intros [|x r]; [reflexivity|]. unfold vtag_required_min_tmmap, zlen. cbn [List.length]. apply Z.leb_le. lia.
Qed.

Theorem TileMatrixSet_UnmarshalJSON_tie : forall j,
  bind (gen_TileMatrixSet_UnmarshalJSON gen_TileMatrixSet_zero j) tms_of = decodeTMS j.
Proof.
  intros j. unfold gen_TileMatrixSet_UnmarshalJSON, decodeTMS. cbn [err_of defaults_set_noop bind].
  destruct j as [| ? | ? | ? | ? | o]; try reflexivity.
  cbn [marshmallow_unmarshal_top].
  destruct (foldO top_step o top_empty) as [a| | |] eqn:F; try reflexivity.
  cbn [split_err bind]. unfold decodeTop, top_specials, obj_get.
  assert (BB : vtag_struct_bbox (ta_bbox a) = true) by (exact (foldO_top_bbox _ _ _ F eq_refl)).
  destruct (ta_crs a) as [cj|]; [|destruct (ta_tms a); reflexivity].
  assert (LC : forall w, lookup_last "crs" ([("crs"%string, cj)] ++ match w with Some v => [("tileMatrices"%string, v)] | None => [] end) = Some cj)
    by (intros [w|]; reflexivity).
  rewrite LC. cbn [negb].
  pose proof (unmarshalCRS_tie cj) as HC. pose proof (decodeCRS_value_or_error cj) as [NP NEP].
  destruct (gen_unmarshalCRS cj) as [c| | |]; cbn [bind] in HC; try (rewrite <- HC; reflexivity);
    try (exfalso; congruence).
  cbn [split_err bind].
  destruct (crs_of c) as [m| | |] eqn:EC; try (exfalso; congruence).
  - rewrite <- HC. cbn [bind].
    destruct (ta_tms a) as [w|]; [|reflexivity].
    assert (LT : lookup_last "tileMatrices" ([("crs"%string, cj)] ++ [("tileMatrices"%string, w)]) = Some w) by reflexivity.
    rewrite LT. cbn [negb]. rewrite unmarshalTileMatrices_tie.
    destruct w as [| ? | ? | ? | l | ?]; try reflexivity.
    destruct (decodeTMs l []) as [ms| | |]; try reflexivity.
    cbn [split_err bind]. unfold gen_TileMatrixSet_validate, tms_valid.
    cbn [gen_TileMatrixSet_populated gen_TileMatrixSet_set_CRS gen_TileMatrixSet_set_TileMatrices
         gen_TileMatrixSet_ID gen_TileMatrixSet_Title gen_TileMatrixSet_Description gen_TileMatrixSet_Keywords
         gen_TileMatrixSet_URI gen_TileMatrixSet_OrderedAxes gen_TileMatrixSet_CRS gen_TileMatrixSet_WellKnownScaleSet
         gen_TileMatrixSet_BoundingBox gen_TileMatrixSet_TileMatrices
         t_uri t_orderedAxes t_wkss t_matrices].
    assert (NN : gen_CRS_is_nil c = false) by (destruct c; [discriminate EC|reflexivity|reflexivity|reflexivity]).
    rewrite BB, min_strs_model, min_tmmap_model, NN.
    unfold vtag_required_iface, vtag_omitempty_uri. cbn [negb]. rewrite !andb_true_r.
    destruct ((String.eqb (ta_uri a) "" || uri_ok (ta_uri a))
              && match ta_axes a with None => true | Some x => Nat.leb 1 (List.length x) end
              && (String.eqb (ta_wkss a) "" || uri_ok (ta_wkss a))
              && match ms with [] => false | _ :: _ => true end);
      cbn [validate_result err_of bind ret_err]; [|reflexivity].
    unfold tms_of.
    cbn [gen_TileMatrixSet_populated gen_TileMatrixSet_set_CRS gen_TileMatrixSet_set_TileMatrices
         gen_TileMatrixSet_ID gen_TileMatrixSet_Title gen_TileMatrixSet_Description gen_TileMatrixSet_Keywords
         gen_TileMatrixSet_URI gen_TileMatrixSet_OrderedAxes gen_TileMatrixSet_CRS gen_TileMatrixSet_WellKnownScaleSet
         gen_TileMatrixSet_BoundingBox gen_TileMatrixSet_TileMatrices].
    rewrite EC. reflexivity.
  - destruct c; discriminate EC.
Qed.

(** ** TwoDBoundingBox.UnmarshalJSON / MarshalJSON *)
Definition bbox_of (r : gen_TwoDBoundingBox) : outcome bbox :=
  match gen_TwoDBoundingBox_LowerLeft r, gen_TwoDBoundingBox_UpperRight r with
  | Some ll, Some ur =>
      do c <- crs_of (gen_TwoDBoundingBox_CRS r);
      Ok (MkBB ll ur (gen_TwoDBoundingBox_OrderedAxes r) c)
  | _, _ => Panic
  end.

Theorem TwoDBoundingBox_UnmarshalJSON_tie : forall j,
  bind (gen_TwoDBoundingBox_UnmarshalJSON gen_TwoDBoundingBox_zero j) bbox_of = decodeBBox j.
Proof.
  intros j. unfold gen_TwoDBoundingBox_UnmarshalJSON, decodeBBox. cbn [err_of defaults_set_noop bind].
  destruct j as [| ? | ? | ? | ? | o]; try reflexivity.
  cbn [marshmallow_unmarshal_bbox]. fold bb_empty.
  destruct (foldO bb_step o bb_empty) as [a| | |]; try reflexivity.
  destruct a as [all aur aax acrs].
  cbn [split_err bind]. unfold bb_specials, obj_get. cbn [ba_ll ba_ur ba_axes ba_crs].
  destruct acrs as [cj|]; [|reflexivity].
  assert (LC : lookup_last "crs" [("crs"%string, cj)] = Some cj) by reflexivity.
  rewrite LC. cbn [negb].
  pose proof (unmarshalCRS_tie cj) as HC. pose proof (decodeCRS_value_or_error cj) as [NP NEP].
  destruct (gen_unmarshalCRS cj) as [c| | |]; cbn [bind] in HC; try (rewrite <- HC; reflexivity);
    try (exfalso; congruence).
  cbn [split_err bind].
  destruct (crs_of c) as [m| | |] eqn:EC; try (exfalso; congruence); [|destruct c; discriminate EC].
  rewrite <- HC. cbn [bind]. unfold gen_TwoDBoundingBox_validate.
  cbn [gen_TwoDBoundingBox_populated gen_TwoDBoundingBox_set_CRS gen_TwoDBoundingBox_LowerLeft
       gen_TwoDBoundingBox_UpperRight gen_TwoDBoundingBox_OrderedAxes gen_TwoDBoundingBox_CRS].
  unfold vtag_required_ptr, vtag_omitempty_len_strs. cbn [ba_ll ba_ur ba_axes ba_crs].
  destruct all as [ll|]; [|reflexivity]. destruct aur as [ur|]; [|reflexivity]. cbn [andb].
  destruct aax as [ax|].
  - rewrite (zlen_eqb_2 ax). destruct (Nat.eqb (List.length ax) 2); cbn [validate_result err_of bind ret_err]; [|reflexivity].
    unfold bbox_of. cbn [ba_ll ba_ur ba_axes ba_crs gen_TwoDBoundingBox_populated gen_TwoDBoundingBox_set_CRS gen_TwoDBoundingBox_LowerLeft gen_TwoDBoundingBox_UpperRight gen_TwoDBoundingBox_OrderedAxes gen_TwoDBoundingBox_CRS].
    rewrite EC. reflexivity.
  - cbn [validate_result err_of bind ret_err]. unfold bbox_of.
    cbn [ba_ll ba_ur ba_axes ba_crs gen_TwoDBoundingBox_populated gen_TwoDBoundingBox_set_CRS gen_TwoDBoundingBox_LowerLeft gen_TwoDBoundingBox_UpperRight gen_TwoDBoundingBox_OrderedAxes gen_TwoDBoundingBox_CRS].
    rewrite EC. reflexivity.
Qed.

Theorem TwoDBoundingBox_MarshalJSON_tie : forall r b, bbox_of r = Ok b -> gen_TwoDBoundingBox_MarshalJSON r = Ok (encodeBBox b).
Proof.
  intros r b H. unfold bbox_of in H.
  destruct (gen_TwoDBoundingBox_LowerLeft r) as [ll|] eqn:EL; [|discriminate H].
  destruct (gen_TwoDBoundingBox_UpperRight r) as [ur|] eqn:EU; [|discriminate H].
  destruct (crs_of (gen_TwoDBoundingBox_CRS r)) as [c| | |] eqn:EC; try discriminate H.
  cbn [bind] in H. inversion H. subst b. clear H.
  unfold gen_TwoDBoundingBox_MarshalJSON. rewrite (CRS_MarshalJSON_tie _ _ EC), EL, EU. reflexivity.
Qed.

(** ** TileMatrixSet.MarshalJSON *)
Lemma sort_slice_by_id : forall l, sort_slice gen_TileMatrixSet_MarshalJSON_less1 l = sort_by_id l.
Proof.
  assert (I : forall x l, sort_insert gen_TileMatrixSet_MarshalJSON_less1 x l = insert_by_id x l).
  { intros x l. induction l as [|y r IH]; [reflexivity|].
    cbn [sort_insert insert_by_id]. rewrite IH. reflexivity. }
  intros l. unfold sort_slice, sort_by_id. induction l as [|x r IH]; [reflexivity|].
  cbn [fold_right]. rewrite IH. apply I.
Qed.

Theorem TileMatrixSet_MarshalJSON_tie : forall r t, tms_of r = Ok t -> gen_TileMatrixSet_MarshalJSON r = Ok (encodeTMS t).
Proof.
  intros r t H. unfold tms_of in H. destruct (crs_of (gen_TileMatrixSet_CRS r)) as [c| | |] eqn:EC; try discriminate H.
  cbn [bind] in H. inversion H. subst t. clear H.
  unfold gen_TileMatrixSet_MarshalJSON. rewrite (CRS_MarshalJSON_tie _ _ EC). cbn [bind].
  rewrite sort_slice_by_id. reflexivity.
Qed.

(** ** the regenerated code runs *)
Local Open Scope string_scope.
Lemma source_tie_runs :
  gen_checkUnsignedIntegers [("tileWidth", jn (-1) 0)] ["tileWidth"] = Error /\
  gen_checkUnsignedIntegers [("tileWidth", jn 2565 (-1))] ["tileWidth"] = Error /\
  gen_checkUnsignedIntegers [("tileWidth", jn 9007199254740992 0)] ["tileWidth"] = Error /\
  gen_checkUnsignedIntegers [("tileWidth", jn 9007199254740991 0); ("tileHeight", JStr "x")] ["tileWidth"; "tileHeight"] = Ok tt /\
  gen_TwoDPoint_UnmarshalJSONFromMap (fl_of_Z 0, fl_of_Z 0) (JArr [jn 1 0; jn 2 0; jn 3 0]) = Error /\
  gen_TwoDPoint_UnmarshalJSONFromMap (fl_of_Z 0, fl_of_Z 0) (JArr [jn 15 (-1); jn (-2) 0]) = Ok (FNum (3 # 2), FNum (-2 # 1)) /\
  exists r t, gen_TileMatrixSet_UnmarshalJSON gen_TileMatrixSet_zero TmsData.gen_doc_NetherlandsRDNewQuad = Ok r /\
    tms_of r = Ok t /\ List.length (t_matrices t) = 17%nat /\
    gen_TileMatrixSet_MarshalJSON r = Ok (encodeTMS t) /\ decodeTMS (encodeTMS t) = Ok t.
Proof.
  repeat (split; [vm_compute; reflexivity|]).
  destruct (gen_TileMatrixSet_UnmarshalJSON gen_TileMatrixSet_zero TmsData.gen_doc_NetherlandsRDNewQuad) as [r| | |] eqn:ER;
    try (vm_compute in ER; discriminate ER).
  destruct (tms_of r) as [t| | |] eqn:ET;
    try (apply (f_equal (fun x => bind x tms_of)) in ER; cbn [bind] in ER; rewrite ET in ER; vm_compute in ER; discriminate ER).
  exists r, t. split; [first [exact ER | reflexivity]|]. split; [exact ET|].
  assert (D : decodeTMS TmsData.gen_doc_NetherlandsRDNewQuad = Ok t).
  { rewrite <- TileMatrixSet_UnmarshalJSON_tie, ER. exact ET. }
  split.
  - assert (X : match decodeTMS TmsData.gen_doc_NetherlandsRDNewQuad with Ok t => List.length (t_matrices t) = 17%nat | _ => False end)
      by (vm_compute; reflexivity).
    rewrite D in X. exact X.
  - split; [exact (TileMatrixSet_MarshalJSON_tie r t ET)|].
    assert (X : match decodeTMS TmsData.gen_doc_NetherlandsRDNewQuad with Ok t => decodeTMS (encodeTMS t) = Ok t | _ => False end)
      by (vm_compute; reflexivity).
    rewrite D in X. exact X.
Qed.
