(** * C16 — what IS rejected: zero and non-positive sizes; and where decoding cannot panic *)
From Coq Require Import ZArith QArith String Ascii List Bool Lia Lqa.
From Texel Require Import Tms.Json Tms.Model Tms.ProofsC15 Tms.ProofsC16b Tms.ProofsC16c Tms.F64Facts.
From Texel.Gen Require Import ConstsGen TmsData.
Import ListNotations.
Open Scope string_scope.
Open Scope Z_scope.
Open Scope list_scope.

(** ** the record a successful decodeTM returns *)
Lemma decodeTM_ok : forall o m, decodeTM o = Ok m ->
  tm_valid m = true /\
  tm_tileWidth m = cval (member "tileWidth" conv_uint o) 0 /\
  tm_tileHeight m = cval (member "tileHeight" conv_uint o) 0 /\
  tm_matrixWidth m = cval (member "matrixWidth" conv_uint o) 0 /\
  tm_matrixHeight m = cval (member "matrixHeight" conv_uint o) 0 /\
  tm_cellSize m = cval (member "cellSize" conv_float o) dzero /\
  tm_scaleDenominator m = cval (member "scaleDenominator" conv_float o) dzero /\
  tm_id m = cval (member "id" conv_str o) "" /\
  tm_vmw m = copt (member "variableMatrixWidths" conv_vmws o) /\
  uints_ok o = true.
Proof.
  intros o m H. apply decodeTM_inv in H. destruct H as [HU H]. unfold decodeTM_fields in H.
  match type of H with (if ?hs then _ else _) = _ => destruct hs end; [discriminate|].
  match type of H with (if tm_valid ?mm then _ else _) = _ => destruct (tm_valid mm) eqn:EV end; [|discriminate].
  inversion H; subst. clear H. split; [exact EV|]. repeat split; try reflexivity. exact HU.
Qed.

(** truncation toward zero of a float strictly between -1 and 1 is 0 *)
Lemma go_uint_small : forall q, (-1 < q)%Q -> (q < 1)%Q -> go_uint_of_float q = 0.
Proof.
  intros q H1 H2.
  assert (T : Z.quot (Qnum q) (Z.pos (Qden q)) = 0).
  { destruct q as [n d]. unfold Qlt in H1, H2. cbn [Qnum Qden] in *.
    destruct (Z_lt_le_dec n 0).
    - rewrite <- (Z.opp_involutive n). rewrite Z.quot_opp_l by lia. rewrite Z.quot_small by lia. reflexivity.
    - apply Z.quot_small. lia. }
  unfold go_uint_of_float. rewrite T.
  destruct (Qle_bool 0 q) eqn:E0.
  - destruct (Qle_bool (pow2Q 64) q) eqn:E1; [|reflexivity].
    apply Qle_bool_iff in E1. exfalso. assert ((1 < pow2Q 64)%Q) by (vm_compute; reflexivity). lra.
  - destruct (Qle_bool (- pow2Q 63) q) eqn:E2; [reflexivity|].
    exfalso. assert (N : ~ (- pow2Q 63 <= q)%Q) by (intro X; apply Qle_bool_iff in X; congruence).
    apply Qnot_le_lt in N. assert ((- pow2Q 63 < -1)%Q) by (vm_compute; reflexivity). lra.
Qed.

(** ** nonpositive_rejected, the part that holds: a size that is zero (or truncates to zero), and a cell size or scale
    denominator that is not positive, make the tile matrix -- and with it the document -- an error *)
Definition size_keys : list string := ["tileWidth"; "tileHeight"; "matrixWidth"; "matrixHeight"].

Lemma conv_uint_small : forall d q, f64_dec d = FNum q -> (-1 < q)%Q -> (q < 1)%Q -> conv_uint (JNum d) = CVal 0.
Proof. intros d q E H1 H2. unfold conv_uint. rewrite E, (go_uint_small q H1 H2). reflexivity. Qed.

Definition pos_float (d : dec) : bool := match f64_dec d with FNum q => Qltb 0 q | FInf s => negb s end.

Lemma tm_valid_parts : forall m, tm_valid m = true ->
  pos_float (tm_scaleDenominator m) = true /\ pos_float (tm_cellSize m) = true /\
  1 <= tm_tileWidth m /\ 1 <= tm_tileHeight m /\ 1 <= tm_matrixWidth m /\ 1 <= tm_matrixHeight m.
Proof.
  intros m H. unfold tm_valid in H.
  apply andb_true_iff in H. destruct H as [H A8]. apply andb_true_iff in H. destruct H as [H A7].
  apply andb_true_iff in H. destruct H as [H A6]. apply andb_true_iff in H. destruct H as [H A5].
  apply andb_true_iff in H. destruct H as [H A4]. apply andb_true_iff in H. destruct H as [H A3].
  apply andb_true_iff in H. destruct H as [A1 A2].
  unfold pos_float. repeat split; try assumption; apply Z.leb_le; assumption.
Qed.

Theorem zero_size_rejected_tm : forall o k d q m,
  In k size_keys -> lookup_last k o = Some (JNum d) -> f64_dec d = FNum q -> (-1 < q)%Q -> (q < 1)%Q ->
  decodeTM o <> Ok m.
Proof.
  intros o k d q m Hk HL HF H1 H2 HD. apply decodeTM_ok in HD.
  destruct HD as [HV [E1 [E2 [E3 [E4 _]]]]].
  assert (C : member k conv_uint o = CVal 0) by (unfold member; rewrite HL; eapply conv_uint_small; eauto).
  apply tm_valid_parts in HV. destruct HV as [_ [_ [V1 [V2 [V3 V4]]]]].
  cbn [size_keys In] in Hk. destruct Hk as [Hk|[Hk|[Hk|[Hk|[]]]]]; subst k.
  - rewrite E1, C in V1. cbn [cval] in V1. lia.
  - rewrite E2, C in V2. cbn [cval] in V2. lia.
  - rewrite E3, C in V3. cbn [cval] in V3. lia.
  - rewrite E4, C in V4. cbn [cval] in V4. lia.
Qed.

Theorem nonpositive_float_rejected_tm : forall o k d q m,
  (k = "cellSize" \/ k = "scaleDenominator") -> lookup_last k o = Some (JNum d) -> f64_dec d = FNum q -> (q <= 0)%Q ->
  decodeTM o <> Ok m.
Proof.
  intros o k d q m Hk HL HF Hq HD. apply decodeTM_ok in HD.
  destruct HD as [HV [_ [_ [_ [_ [E5 [E6 _]]]]]]].
  assert (C : member k conv_float o = CVal d) by (unfold member; rewrite HL; unfold conv_float; rewrite HF; reflexivity).
  apply tm_valid_parts in HV. destruct HV as [V1 [V2 _]].
  destruct Hk; subst k.
  - rewrite E5, C in V2. cbn [cval] in V2. unfold pos_float in V2. rewrite HF in V2. apply Qltb_true in V2. lra.
  - rewrite E6, C in V1. cbn [cval] in V1. unfold pos_float in V1. rewrite HF in V1. apply Qltb_true in V1. lra.
Qed.

(** ** lifting to documents: the tile matrices a successful decode went through *)
Lemma decodeTMs_each : forall l acc ms, decodeTMs l acc = Ok ms -> forall o, In (JObj o) l -> exists m, decodeTM o = Ok m.
Proof.
  induction l as [|x r IH]; intros acc ms H o HI; [contradiction|].
  simpl in H. destruct x; try discriminate.
  destruct (decodeTM l) as [m| | |] eqn:ED; try discriminate. cbn [bind] in H.
  destruct (parse_int (tm_id m)); [|discriminate].
  destruct HI as [HI|HI].
  - inversion HI; subst. eauto.
  - eapply IH; eauto.
Qed.

Lemma decodeTMs_all_objects : forall l acc ms, decodeTMs l acc = Ok ms -> forall x, In x l -> exists o, x = JObj o.
Proof.
  induction l as [|x r IH]; intros acc ms H y HI; [contradiction|].
  simpl in H. destruct x; try discriminate.
  destruct (decodeTM l) as [m| | |]; try discriminate. cbn [bind] in H.
  destruct (parse_int (tm_id m)); [|discriminate].
  destruct HI as [HI|HI]; [subst; eauto|eapply IH; eauto].
Qed.

(** the value of the LAST "tileMatrices" member is what gets decoded *)
Lemma top_step_tms : forall a kv a', top_step a kv = Ok a' ->
  ta_tms a' = if String.eqb (fst kv) "tileMatrices" then Some (snd kv) else ta_tms a.
Proof.
  intros a [k v] a' H. unfold top_step in H. cbn [fst snd].
  assert (S1 : forall set, (forall s, ta_tms (set s) = ta_tms a) -> top_str v set a = Ok a' -> ta_tms a' = ta_tms a).
  { intros set Hs HH. unfold top_str in HH. destruct (conv_str v); try discriminate; inversion HH; subst; auto. }
  assert (S2 : forall set, (forall s, ta_tms (set s) = ta_tms a) -> top_strs v set a = Ok a' -> ta_tms a' = ta_tms a).
  { intros set Hs HH. unfold top_strs in HH. destruct (conv_strs v); try discriminate; inversion HH; subst; auto. }
  destruct (String.eqb k "id") eqn:K1. { apply String.eqb_eq in K1. subst k. cbn. eapply S1; [|exact H]. reflexivity. }
  destruct (String.eqb k "title") eqn:K2. { apply String.eqb_eq in K2. subst k. cbn. eapply S1; [|exact H]. reflexivity. }
  destruct (String.eqb k "description") eqn:K3. { apply String.eqb_eq in K3. subst k. cbn. eapply S1; [|exact H]. reflexivity. }
  destruct (String.eqb k "keywords") eqn:K4. { apply String.eqb_eq in K4. subst k. cbn. eapply S2; [|exact H]. reflexivity. }
  destruct (String.eqb k "uri") eqn:K5. { apply String.eqb_eq in K5. subst k. cbn. eapply S1; [|exact H]. reflexivity. }
  destruct (String.eqb k "orderedAxes") eqn:K6. { apply String.eqb_eq in K6. subst k. cbn. eapply S2; [|exact H]. reflexivity. }
  destruct (String.eqb k "wellKnownScaleSet") eqn:K7. { apply String.eqb_eq in K7. subst k. cbn. eapply S1; [|exact H]. reflexivity. }
  destruct (String.eqb k "boundingBox") eqn:K8.
  { apply String.eqb_eq in K8. subst k. cbn. destruct (decodeBBox v); try discriminate. cbn [bind] in H. inversion H; subst. reflexivity. }
  destruct (nums_finite v); [|discriminate].
  destruct (String.eqb k "crs") eqn:K9. { apply String.eqb_eq in K9. subst k. cbn. inversion H; subst. reflexivity. }
  destruct (String.eqb k "tileMatrices"); inversion H; subst; reflexivity.
Qed.

Lemma fold_top_tms : forall o a a', foldO top_step o a = Ok a' ->
  ta_tms a' = match lookup_last "tileMatrices" o with Some v => Some v | None => ta_tms a end.
Proof.
  induction o as [|[k v] r IH]; intros a a' H.
  - cbn [foldO] in H. inversion H; subst. reflexivity.
  - rewrite foldO_cons in H. destruct (top_step a (k, v)) as [a1| | |] eqn:E; try discriminate. cbn [bind] in H.
    rewrite (IH _ _ H). cbn [lookup_last]. destruct (lookup_last "tileMatrices" r); [reflexivity|].
    rewrite (top_step_tms _ _ _ E). cbn [fst snd]. rewrite (String.eqb_sym "tileMatrices" k). destruct (String.eqb k "tileMatrices"); reflexivity.
Qed.

Theorem decoded_matrices_lemma : forall o t, decodeTMS (JObj o) = Ok t ->
  exists l, lookup_last "tileMatrices" o = Some (JArr l) /\
    forall x, In x l -> exists tmo m, x = JObj tmo /\ decodeTM tmo = Ok m.
Proof.
  intros o t H. unfold decodeTMS in H.
  destruct (foldO top_step o top_empty) as [a| | |] eqn:EF; try discriminate. cbn [bind] in H.
  assert (HT := fold_top_tms _ _ _ EF). cbn [top_empty ta_tms] in HT.
  unfold decodeTop in H. destruct (ta_crs a); [|discriminate].
  destruct (decodeCRS j); try discriminate. cbn [bind] in H.
  destruct (ta_tms a) as [[| | | |l|]|] eqn:ET; try discriminate.
  destruct (decodeTMs l []) as [ms| | |] eqn:EM; try discriminate.
  exists l. split.
  - destruct (lookup_last "tileMatrices" o); [inversion HT; reflexivity|discriminate].
  - intros x Hx. destruct (decodeTMs_all_objects _ _ _ EM x Hx) as [tmo E]. subst x.
    destruct (decodeTMs_each _ _ _ EM tmo Hx) as [m Hm]. eauto.
Qed.

(** nonpositive_rejected at the level of documents *)
Theorem nonpositive_rejected_lemma : forall o l tmo k d q,
  lookup_last "tileMatrices" o = Some (JArr l) -> In (JObj tmo) l ->
  lookup_last k tmo = Some (JNum d) -> f64_dec d = FNum q ->
  (In k size_keys /\ (-1 < q)%Q /\ (q < 1)%Q) \/ ((k = "cellSize" \/ k = "scaleDenominator") /\ (q <= 0)%Q) ->
  forall t, decodeTMS (JObj o) <> Ok t.
Proof.
  intros o l tmo k d q HL HI HK HF HC t HD.
  destruct (decoded_matrices_lemma o t HD) as [l' [HL' HA]]. rewrite HL in HL'. inversion HL'; subst l'.
  destruct (HA _ HI) as [tmo' [m [E Hm]]]. inversion E; subst tmo'.
  destruct HC as [[Hk [H1 H2]]|[Hk Hq]].
  - exact (zero_size_rejected_tm tmo k d q m Hk HK HF H1 H2 Hm).
  - exact (nonpositive_float_rejected_tm tmo k d q m Hk HK HF Hq Hm).
Qed.

(** ** decode_total: decoding never panics (since the repair of F6c, without any hypothesis on the document) *)
Definition no_panic {A} (r : outcome A) : Prop := r <> Panic /\ r <> ErrorOrPanic.

Lemma decodeTM_no_panic : forall o, no_panic (decodeTM o).
Proof.
  intros o. unfold decodeTM. destruct (uints_ok o); [|split; discriminate]. unfold decodeTM_fields.
  match goal with |- no_panic (if ?c then _ else _) => destruct c end; [split; discriminate|].
  match goal with |- no_panic (if ?c then _ else _) => destruct c end; split; discriminate.
Qed.

Lemma decodeTMs_no_panic : forall l acc, no_panic (decodeTMs l acc).
Proof.
  induction l as [|x r IH]; intros acc; simpl.
  - split; discriminate.
  - destruct x; try (split; discriminate).
    destruct (decodeTM_no_panic l) as [N1 N2].
    destruct (decodeTM l) as [m| | |]; cbn [bind]; try (split; discriminate); try contradiction.
    destruct (parse_int (tm_id m)); [apply IH|split; discriminate].
Qed.

Lemma decodeCRS_no_panic : forall j, no_panic (decodeCRS j).
Proof.
  intros j. unfold decodeCRS.
  assert (T : forall o a, no_panic (match decodeCrsURI o a with
                                    | Some c => Ok c
                                    | None => match decodeCrsWKT o with
                                              | Some c => Ok c
                                              | None => match decodeCrsRef o with Some c => Ok c | None => Error end
                                              end
                                    end)).
  { intros o a. destruct (decodeCrsURI o a); [split; discriminate|]. destruct (decodeCrsWKT o); [split; discriminate|].
    destruct (decodeCrsRef o); split; discriminate. }
  destruct j; try (split; discriminate); apply T.
Qed.

Lemma foldO_no_panic : forall {A S} (f : S -> A -> outcome S) l,
  (forall s x, no_panic (f s x)) -> forall s0, no_panic (foldO f l s0).
Proof.
  intros A S f. induction l as [|x r IH]; intros H s0; simpl.
  - split; discriminate.
  - destruct (H s0 x) as [N1 N2].
    destruct (f s0 x) as [s1| | |]; cbn [bind]; try (split; discriminate); try contradiction.
    apply IH. exact H.
Qed.

Lemma bb_step_no_panic : forall a kv, no_panic (bb_step a kv).
Proof.
  intros a [k v]. unfold bb_step.
  destruct (String.eqb k "lowerLeft"). { destruct (conv_point v); split; discriminate. }
  destruct (String.eqb k "upperRight"). { destruct (conv_point v); split; discriminate. }
  destruct (String.eqb k "orderedAxes"). { destruct (conv_strs v); split; discriminate. }
  destruct (nums_finite v); [|split; discriminate]. destruct (String.eqb k "crs"); split; discriminate.
Qed.

Lemma decodeBBox_no_panic : forall j, no_panic (decodeBBox j).
Proof.
  intros j. unfold decodeBBox. destruct j as [| | | | |o]; try (split; discriminate).
  destruct (foldO_no_panic bb_step o bb_step_no_panic (MkBBAcc None None None None)) as [F1 F2].
  destruct (foldO bb_step o (MkBBAcc None None None None)) as [a| | |]; cbn [bind]; try (split; discriminate); try contradiction.
  destruct (ba_crs a) as [cj|]; [|split; discriminate].
  destruct (decodeCRS_no_panic cj) as [C1 C2].
  destruct (decodeCRS cj); cbn [bind]; try (split; discriminate); try contradiction.
  destruct (ba_ll a); [|split; discriminate]. destruct (ba_ur a); [|split; discriminate].
  destruct (ba_axes a); [destruct (Nat.eqb _ _)|]; split; discriminate.
Qed.

Lemma top_step_no_panic : forall a kv, no_panic (top_step a kv).
Proof.
  intros a [k v]. unfold top_step.
  assert (S1 : forall set, no_panic (top_str v set a)) by (intros; unfold top_str; destruct (conv_str v); split; discriminate).
  assert (S2 : forall set, no_panic (top_strs v set a)) by (intros; unfold top_strs; destruct (conv_strs v); split; discriminate).
  destruct (String.eqb k "id"); [apply S1|]. destruct (String.eqb k "title"); [apply S1|].
  destruct (String.eqb k "description"); [apply S1|]. destruct (String.eqb k "keywords"); [apply S2|].
  destruct (String.eqb k "uri"); [apply S1|]. destruct (String.eqb k "orderedAxes"); [apply S2|].
  destruct (String.eqb k "wellKnownScaleSet"); [apply S1|].
  destruct (String.eqb k "boundingBox").
  { destruct (decodeBBox_no_panic v) as [B1 B2]. destruct (decodeBBox v); cbn [bind]; try (split; discriminate); contradiction. }
  destruct (nums_finite v); [|split; discriminate].
  destruct (String.eqb k "crs"); [split; discriminate|]. destruct (String.eqb k "tileMatrices"); split; discriminate.
Qed.

Theorem decode_total_lemma : forall j, decodeTMS j <> Panic /\ decodeTMS j <> ErrorOrPanic.
Proof.
  intros j. change (no_panic (decodeTMS j)). unfold decodeTMS. destruct j as [| | | | |o]; try (split; discriminate).
  destruct (foldO_no_panic top_step o top_step_no_panic top_empty) as [F1 F2].
  destruct (foldO top_step o top_empty) as [a| | |]; cbn [bind]; try (split; discriminate); try contradiction.
  unfold decodeTop. destruct (ta_crs a) as [cj|]; [|split; discriminate].
  destruct (decodeCRS_no_panic cj) as [C1 C2].
  destruct (decodeCRS cj); cbn [bind]; try (split; discriminate); try contradiction.
  destruct (ta_tms a) as [[| | | |l|]|]; try (split; discriminate).
  destruct (decodeTMs_no_panic l []) as [M1 M2].
  destruct (decodeTMs l []) as [ms| | |]; cbn [bind]; try (split; discriminate); try contradiction.
  match goal with |- no_panic (if ?c then _ else _) => destruct c end; split; discriminate.
Qed.

(** a point member is accepted only as an array of exactly two finite numbers *)
Theorem point_exact_lemma : forall v p, conv_point v = CVal p -> v = JArr [JNum (fst p); JNum (snd p)].
Proof.
  intros v p H. unfold conv_point in H.
  destruct v as [| | | |l|]; try discriminate. destruct l as [|x [|y [|z r]]]; try discriminate.
  - destruct x; discriminate.
  - destruct x; try discriminate. destruct y; try discriminate.
    destruct (f64_dec d); [|discriminate]. destruct (f64_dec d0); [|discriminate]. inversion H; subst. reflexivity.
  - destruct x; try discriminate. destruct y; discriminate.
Qed.

Theorem origin_exact_lemma : forall o m, decodeTM o = Ok m ->
  exists a b, lookup_last "pointOfOrigin" o = Some (JArr [JNum a; JNum b]) /\ tm_origin m = Some (a, b).
Proof.
  intros o m H. assert (W := decodeTM_wf o m H). destruct W as [_ [_ [_ [p [HO _]]]]].
  apply decodeTM_inv in H. destruct H as [_ H]. unfold decodeTM_fields in H.
  match type of H with (if ?hs then _ else _) = _ => destruct hs end; [discriminate|].
  match type of H with (if tm_valid ?mm then _ else _) = _ => destruct (tm_valid mm) end; [|discriminate].
  inversion H; subst. clear H. cbn [tm_origin] in *. unfold copt, member in *.
  destruct (lookup_last "pointOfOrigin" o) as [v|]; [|discriminate].
  destruct (conv_point v) eqn:EC; try discriminate. inversion HO; subst.
  apply point_exact_lemma in EC. subst v. exists (fst p), (snd p). split; [reflexivity|]. destruct p; reflexivity.
Qed.

(** ** Since the repair of F6b: the unsigned members of every decoded value are whole numbers below 2^53 *)
Lemma uint_number_ok_small : forall q, uint_number_ok q = true -> small (go_uint_of_float q).
Proof.
  intros q H. unfold uint_number_ok in H.
  apply andb_true_iff in H. destruct H as [H H3]. apply andb_true_iff in H. destruct H as [H1 H2].
  apply Qle_bool_iff in H1. apply Qltb_true in H3.
  unfold go_uint_of_float. assert (A : Qle_bool 0 q = true) by (apply Qle_bool_iff; exact H1). rewrite A.
  assert (P : 2 ^ 53 < 2 ^ 64) by (apply Z.pow_lt_mono_r; lia).
  assert (B : Qle_bool (pow2Q 64) q = false).
  { destruct (Qle_bool (pow2Q 64) q) eqn:X; [|reflexivity]. apply Qle_bool_iff in X. rewrite (pow2Q_nonneg 64) in X by lia.
    exfalso. assert ((inject_Z (2 ^ 53) < inject_Z (2 ^ 64))%Q) by (rewrite <- Zlt_Qlt; exact P). lra. }
  rewrite B. destruct q as [n d]. unfold Qle, Qlt in *. cbn [Qnum Qden inject_Z] in *.
  assert (N0 : 0 <= n) by lia. rewrite Z.quot_div_nonneg by lia. unfold small. split.
  - apply Z.div_pos; lia.
  - apply Z.div_lt_upper_bound; lia.
Qed.

Lemma small_0 : small 0.
Proof. unfold small. split; [lia|]. apply Z.pow_pos_nonneg; lia. Qed.

Lemma member_small : forall k o, uint_member_ok k o = true -> small (cval (member k conv_uint o) 0).
Proof.
  intros k o H. unfold uint_member_ok, member in *. destruct (lookup_last k o) as [v|]; [|apply small_0].
  destruct v; cbn [conv_uint cval]; try apply small_0.
  destruct (f64_dec d) as [q|]; [|apply small_0]. cbn [cval]. apply uint_number_ok_small. exact H.
Qed.

Lemma uint_member_small : forall k e c, uint_member_ok k e = true -> uint_member k e = Some c -> small c.
Proof.
  intros k e c H U. unfold uint_member_ok, uint_member in *. destruct (lookup_last k e) as [v|].
  - destruct v; cbn [conv_uint] in U; try discriminate; try (inversion U; subst; apply small_0).
    destruct (f64_dec d) as [q|]; [|discriminate]. inversion U; subst. apply uint_number_ok_small. exact H.
  - inversion U; subst. apply small_0.
Qed.

Lemma vmws_small : forall l vs, forallb vmw_elem_ok l = true -> vmws_of l = Some vs -> Forall vmw_small vs.
Proof.
  induction l as [|j r IH]; intros vs H V.
  - simpl in V. inversion V; subst. constructor.
  - cbn [forallb] in H. apply andb_true_iff in H. destruct H as [Hj Hr]. cbn [vmws_of] in V.
    destruct (vmw_of j) as [v|] eqn:EJ; [|discriminate]. destruct (vmws_of r) as [t|] eqn:ER; [|discriminate].
    inversion V; subst. constructor; [|exact (IH t Hr eq_refl)].
    unfold vmw_of in EJ. destruct j; try discriminate.
    + inversion EJ; subst. unfold vmw_small. cbn. repeat split; apply small_0.
    + unfold vmw_elem_ok in Hj. apply andb_true_iff in Hj. destruct Hj as [Hj K3]. apply andb_true_iff in Hj. destruct Hj as [K1 K2].
      destruct (uint_member "coalesce" l) as [c|] eqn:E1; [|discriminate].
      destruct (uint_member "minTileRow" l) as [a|] eqn:E2; [|discriminate].
      destruct (uint_member "maxTileRow" l) as [b|] eqn:E3; [|discriminate].
      inversion EJ; subst. unfold vmw_small. cbn [v_coalesce v_minTileRow v_maxTileRow].
      split; [exact (uint_member_small _ _ _ K1 E1)|]. split; [exact (uint_member_small _ _ _ K2 E2)|exact (uint_member_small _ _ _ K3 E3)].
Qed.

Theorem decodeTM_small : forall o m, decodeTM o = Ok m -> tm_small m.
Proof.
  intros o m H. apply decodeTM_ok in H. destruct H as [_ [E1 [E2 [E3 [E4 [_ [_ [_ [EV HU]]]]]]]]].
  unfold uints_ok in HU.
  apply andb_true_iff in HU. destruct HU as [HU U5]. apply andb_true_iff in HU. destruct HU as [HU U4].
  apply andb_true_iff in HU. destruct HU as [HU U3]. apply andb_true_iff in HU. destruct HU as [U1 U2].
  unfold tm_small. rewrite E1, E2, E3, E4.
  split; [apply member_small; exact U1|]. split; [apply member_small; exact U2|].
  split; [apply member_small; exact U3|]. split; [apply member_small; exact U4|].
  intros l Hl. rewrite EV in Hl. unfold copt, member in Hl.
  destruct (lookup_last "variableMatrixWidths" o) as [v|]; [|discriminate].
  unfold conv_vmws in Hl. destruct v; try discriminate.
  destruct (vmws_of l0) as [t|] eqn:EW; [|discriminate]. inversion Hl; subst. eapply vmws_small; eauto.
Qed.

Lemma decodeTMs_small : forall l acc ms, Forall (fun e => tm_small (snd e)) acc ->
  decodeTMs l acc = Ok ms -> Forall (fun e => tm_small (snd e)) ms.
Proof.
  induction l as [|x r IH]; intros acc ms HA H; simpl in H.
  - inversion H; subst. exact HA.
  - destruct x; try discriminate. destruct (decodeTM l) as [m| | |] eqn:ED; try discriminate. cbn [bind] in H.
    destruct (parse_int (tm_id m)) as [k|]; [|discriminate].
    eapply IH; [|exact H]. apply (insert_tm_forall tm_small); [exact HA|]. eapply decodeTM_small; eauto.
Qed.

Theorem decode_small : forall j t, decodeTMS j = Ok t -> tms_small t.
Proof.
  intros j t H. unfold decodeTMS in H. destruct j as [| | | | |o]; try discriminate.
  destruct (foldO top_step o top_empty) as [a| | |]; try discriminate. cbn [bind] in H.
  unfold decodeTop in H. destruct (ta_crs a); [|discriminate].
  destruct (decodeCRS j); try discriminate. cbn [bind] in H.
  destruct (ta_tms a) as [[| | | |l|]|]; try discriminate.
  destruct (decodeTMs l []) as [ms| | |] eqn:EM; try discriminate. cbn [bind] in H.
  match type of H with (if ?c then _ else _) = _ => destruct c end; [|discriminate].
  inversion H; subst. unfold tms_small. cbn [t_matrices]. eapply decodeTMs_small; [|exact EM]. constructor.
Qed.

Theorem decode_stable : forall j t, decodeTMS j = Ok t -> tms_stable t.
Proof. intros j t H. apply tms_small_stable. eapply decode_small; eauto. Qed.

(** the round trip, unconditionally for every decoded value *)
Theorem decode_encode_decode_full : forall j t, decodeTMS j = Ok t -> decodeTMS (encodeTMS t) = Ok (norm_tms t).
Proof. intros j t H. exact (decode_encode_decode_lemma j t H (decode_stable j t H)). Qed.

Theorem encode_stable_full : forall j t, decodeTMS j = Ok t ->
  exists t', decodeTMS (encodeTMS t) = Ok t' /\ encodeTMS t' = encodeTMS t.
Proof.
  intros j t H. exists (norm_tms t). split; [exact (decode_encode_decode_full j t H)|exact (encode_norm t)].
Qed.

(** ** nonpositive_rejected, in full: a size that is not a positive whole number below 2^53 is rejected *)
Theorem bad_size_rejected_tm : forall o k d q m,
  In k size_keys -> lookup_last k o = Some (JNum d) -> f64_dec d = FNum q ->
  ((q <= 0)%Q \/ uint_number_ok q = false) ->
  decodeTM o <> Ok m.
Proof.
  intros o k d q m Hk HL HF HB HD.
  destruct (uint_number_ok q) eqn:EU.
  - (* whole and in range: then it is <= 0, i.e. 0 *)
    destruct HB as [HB|HB]; [|discriminate].
    unfold uint_number_ok in EU. apply andb_true_iff in EU. destruct EU as [EU _]. apply andb_true_iff in EU. destruct EU as [E0 _].
    apply Qle_bool_iff in E0.
    apply (zero_size_rejected_tm o k d q m Hk HL HF); [lra|lra|exact HD].
  - apply decodeTM_ok in HD. destruct HD as [_ [_ [_ [_ [_ [_ [_ [_ [_ HU]]]]]]]]].
    assert (M : uint_member_ok k o = false) by (unfold uint_member_ok; rewrite HL, HF; exact EU).
    unfold uints_ok in HU.
    apply andb_true_iff in HU. destruct HU as [HU _]. apply andb_true_iff in HU. destruct HU as [HU U4].
    apply andb_true_iff in HU. destruct HU as [HU U3]. apply andb_true_iff in HU. destruct HU as [U1 U2].
    cbn [size_keys In] in Hk. destruct Hk as [Hk|[Hk|[Hk|[Hk|[]]]]]; subst k; congruence.
Qed.

Theorem nonpositive_rejected_full : forall o l tmo k d q,
  lookup_last "tileMatrices" o = Some (JArr l) -> In (JObj tmo) l ->
  lookup_last k tmo = Some (JNum d) -> f64_dec d = FNum q ->
  (In k size_keys /\ ((q <= 0)%Q \/ uint_number_ok q = false)) \/ ((k = "cellSize" \/ k = "scaleDenominator") /\ (q <= 0)%Q) ->
  forall t, decodeTMS (JObj o) <> Ok t.
Proof.
  intros o l tmo k d q HL HI HK HF HC t HD.
  destruct (decoded_matrices_lemma o t HD) as [l' [HL' HA]]. rewrite HL in HL'. inversion HL'; subst l'.
  destruct (HA _ HI) as [tmo' [m [E Hm]]]. inversion E; subst tmo'.
  destruct HC as [[Hk HB]|[Hk Hq]].
  - exact (bad_size_rejected_tm tmo k d q m Hk HK HF HB Hm).
  - exact (nonpositive_float_rejected_tm tmo k d q m Hk HK HF Hq Hm).
Qed.

(** what [uint_number_ok q = false] means: q is negative, or not whole, or at least 2^53 *)
Lemma uint_number_ok_false : forall q, uint_number_ok q = false <->
  ((q < 0)%Q \/ Qnum q mod Z.pos (Qden q) <> 0 \/ (inject_Z (2 ^ 53) <= q)%Q).
Proof.
  intros q. unfold uint_number_ok. split.
  - intro H. destruct (Qle_bool 0 q) eqn:E1.
    + destruct (Z.eqb_spec (Qnum q mod Z.pos (Qden q)) 0) as [E2|E2]; [|right; left; exact E2].
      cbn [andb] in H. right; right. apply Qltb_false. exact H.
    + left. apply Qnot_le_lt. intro X. apply Qle_bool_iff in X. congruence.
  - intros [H|[H|H]].
    + destruct (Qle_bool 0 q) eqn:E1; [|reflexivity]. apply Qle_bool_iff in E1. exfalso. eapply Qlt_not_le; eauto.
    + destruct (Z.eqb_spec (Qnum q mod Z.pos (Qden q)) 0); [contradiction|]. rewrite andb_false_r. reflexivity.
    + apply Qltb_false in H. rewrite H. apply andb_false_r.
Qed.

(** ** corollaries stated in Properties/C16.v *)
Theorem normal_form_fixed_lemma : forall t, norm_tms (norm_tms t) = norm_tms t /\ encodeTMS (norm_tms t) = encodeTMS t.
Proof. intros t. split; [exact (norm_idem t)|exact (encode_norm t)]. Qed.
