(** * C16 — what IS rejected: zero and non-positive sizes; and where decoding cannot panic *)
From Coq Require Import ZArith QArith String Ascii List Bool Lia Lqa.
From Texel Require Import Tms.Json Tms.Model Tms.ProofsC16b Tms.ProofsC16c.
From Texel.Gen Require Import ConstsGen TmsData.
Import ListNotations.
Open Scope string_scope.
Open Scope Z_scope.
Open Scope list_scope.

(** ** the record a successful decodeTM returns *)
Lemma decodeTM_ok : forall o m, decodeTM o = Ok m ->
  tm_valid m = true /\
  tm_tileWidth m = cval (member "tileWidth" conv_uint o) 0 /\
  tm_tileHeight m = cval (member "tileHeight" conv_uint o) 0 /\
  tm_matrixWidth m = cval (member "matrixWidth" conv_uint o) 0 /\
  tm_matrixHeight m = cval (member "matrixHeight" conv_uint o) 0 /\
  tm_cellSize m = cval (member "cellSize" conv_float o) dzero /\
  tm_scaleDenominator m = cval (member "scaleDenominator" conv_float o) dzero /\
  tm_id m = cval (member "id" conv_str o) "".
Proof.
  intros o m H. unfold decodeTM in H.
  destruct (is_panic (member "pointOfOrigin" conv_point o)).
  - cbn [andb] in H. destruct (_ || _) in H; discriminate.
  - cbn [andb] in H.
    match type of H with (if ?hs then _ else _) = _ => destruct hs end; [discriminate|].
    match type of H with (if tm_valid ?mm then _ else _) = _ => destruct (tm_valid mm) eqn:EV end; [|discriminate].
    inversion H; subst. clear H. split; [exact EV|]. repeat split; reflexivity.
Qed.

(** truncation toward zero of a float strictly between -1 and 1 is 0 *)
Lemma go_uint_small : forall q, (-1 < q)%Q -> (q < 1)%Q -> go_uint_of_float q = 0.
Proof.
  intros q H1 H2.
  assert (T : Z.quot (Qnum q) (Z.pos (Qden q)) = 0).
  { destruct q as [n d]. unfold Qlt in H1, H2. cbn [Qnum Qden] in *.
    destruct (Z_lt_le_dec n 0).
    - rewrite <- (Z.opp_involutive n). rewrite Z.quot_opp_l by lia. rewrite Z.quot_small by lia. reflexivity.
    - apply Z.quot_small. lia. }
  unfold go_uint_of_float. rewrite T.
  destruct (Qle_bool 0 q) eqn:E0.
  - destruct (Qle_bool (pow2Q 64) q) eqn:E1; [|reflexivity].
    apply Qle_bool_iff in E1. exfalso. assert ((1 < pow2Q 64)%Q) by (vm_compute; reflexivity). lra.
  - destruct (Qle_bool (- pow2Q 63) q) eqn:E2; [reflexivity|].
    exfalso. assert (N : ~ (- pow2Q 63 <= q)%Q) by (intro X; apply Qle_bool_iff in X; congruence).
    apply Qnot_le_lt in N. assert ((- pow2Q 63 < -1)%Q) by (vm_compute; reflexivity). lra.
Qed.

(** ** nonpositive_rejected, the part that holds: a size that is zero (or truncates to zero), and a cell size or scale
    denominator that is not positive, make the tile matrix -- and with it the document -- an error *)
Definition size_keys : list string := ["tileWidth"; "tileHeight"; "matrixWidth"; "matrixHeight"].

Lemma conv_uint_small : forall d q, f64_dec d = FNum q -> (-1 < q)%Q -> (q < 1)%Q -> conv_uint (JNum d) = CVal 0.
Proof. intros d q E H1 H2. unfold conv_uint. rewrite E, (go_uint_small q H1 H2). reflexivity. Qed.

Theorem zero_size_rejected_tm : forall o k d q m,
  In k size_keys -> lookup_last k o = Some (JNum d) -> f64_dec d = FNum q -> (-1 < q)%Q -> (q < 1)%Q ->
  decodeTM o <> Ok m.
Proof.
  intros o k d q m Hk HL HF H1 H2 HD. apply decodeTM_ok in HD.
  destruct HD as [HV [E1 [E2 [E3 [E4 _]]]]].
  assert (C : member k conv_uint o = CVal 0) by (unfold member; rewrite HL; eapply conv_uint_small; eauto).
  unfold tm_valid in HV.
  repeat (apply andb_true_iff in HV; destruct HV as [HV ?]).
  cbn [size_keys In] in Hk. destruct Hk as [Hk|[Hk|[Hk|[Hk|[]]]]]; subst k.
  - rewrite E1, C in *. discriminate.
  - rewrite E2, C in *. discriminate.
  - rewrite E3, C in *. discriminate.
  - rewrite E4, C in *. discriminate.
Qed.

Theorem nonpositive_float_rejected_tm : forall o k d q m,
  (k = "cellSize" \/ k = "scaleDenominator") -> lookup_last k o = Some (JNum d) -> f64_dec d = FNum q -> (q <= 0)%Q ->
  decodeTM o <> Ok m.
Proof.
  intros o k d q m Hk HL HF Hq HD. apply decodeTM_ok in HD.
  destruct HD as [HV [_ [_ [_ [_ [E5 [E6 _]]]]]]].
  assert (C : member k conv_float o = CVal d) by (unfold member; rewrite HL; unfold conv_float; rewrite HF; reflexivity).
  unfold tm_valid in HV. repeat (apply andb_true_iff in HV; destruct HV as [HV ?]).
  destruct Hk; subst k.
  - rewrite E5, C in *. cbn [cval] in *. rewrite HF in *.
    match goal with X : Qltb 0 q = true |- _ => apply ProofsC15_Qltb in X end.
Abort.
