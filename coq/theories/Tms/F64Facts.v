(** * binary64 image: integers below 2^53 are exact, hence stable as unsigned members *)
From Coq Require Import ZArith QArith Qpower Qreduction String List Bool Lia Lqa.
From Texel Require Import Tms.Json Tms.Model Tms.ProofsC16b.
Import ListNotations.
Open Scope Z_scope.

Lemma rhe_one : forall x, round_half_even x 1 = x.
Proof.
  intros x. unfold round_half_even. rewrite Z.div_1_r. replace (2 * (x - x * 1)) with 0 by lia.
  reflexivity.
Qed.

Lemma two_ne0 : ~ (inject_Z 2 == 0)%Q.
Proof. intro H. discriminate H. Qed.

Lemma pow2Q_nonneg : forall k, 0 <= k -> (pow2Q k == inject_Z (2 ^ k))%Q.
Proof. intros k H. unfold pow2Q. rewrite Zpower_Qpower by exact H. reflexivity. Qed.

Lemma Qred_inject_Z : forall n, Qred (inject_Z n) = inject_Z n.
Proof.
  intros n. unfold Qred, inject_Z.
  assert (G := Z.ggcd_gcd n 1). assert (D := Z.ggcd_correct_divisors n 1).
  change (Z.pos 1) with 1. destruct (Z.ggcd n 1) as [g [aa bb]]. cbn [fst] in G. rewrite Z.gcd_1_r in G. subst g.
  destruct D as [D1 D2]. assert (E1 : aa = n) by lia. assert (E2 : bb = 1) by lia. rewrite E1, E2. reflexivity.
Qed.

Lemma ilog2_int : forall n, 0 < n -> ilog2_frac n 1 = Z.log2 n.
Proof.
  intros n H. unfold ilog2_frac. change (Z.log2 1) with 0. rewrite Z.sub_0_r.
  assert (L := Z.log2_nonneg n). destruct (Z.leb_spec 0 (Z.log2 n)); [|lia].
  destruct (Z.log2_spec n H) as [A B]. rewrite Z.mul_1_l. destruct (Z.leb_spec (2 ^ Z.log2 n) n); [reflexivity|lia].
Qed.

Lemma f64_pos_int : forall n, 0 < n -> n < 2 ^ 53 -> f64_pos n 1 = FNum (inject_Z n).
Proof.
  intros n H0 H1. unfold f64_pos. rewrite (ilog2_int n H0).
  assert (L0 := Z.log2_nonneg n).
  assert (L1 : Z.log2 n < 53) by (apply Z.log2_lt_pow2; lia).
  set (L := Z.log2 n) in *.
  assert (K : Z.max (L - 52) (-1074) = L - 52) by lia. rewrite K.
  assert (R : (inject_Z (if 0 <=? L - 52 then round_half_even n (1 * 2 ^ (L - 52)) else round_half_even (n * 2 ^ (- (L - 52))) 1)
               * pow2Q (L - 52) == inject_Z n)%Q).
  { destruct (Z.leb_spec 0 (L - 52)).
    - assert (L = 52) by lia. subst L. replace (Z.log2 n - 52) with 0 in * by lia.
      change (1 * 2 ^ 0) with 1. rewrite rhe_one. unfold pow2Q. cbn. ring.
    - rewrite rhe_one. rewrite inject_Z_mult. rewrite <- (pow2Q_nonneg (- (L - 52))) by lia.
      unfold pow2Q. rewrite <- Qmult_assoc. rewrite <- Qpower_plus by exact two_ne0.
      replace (- (L - 52) + (L - 52)) with 0 by lia. cbn. ring. }
  assert (B : Qle_bool (pow2Q 1024) (inject_Z n) = false).
  { destruct (Qle_bool (pow2Q 1024) (inject_Z n)) eqn:E; [|reflexivity]. apply Qle_bool_iff in E.
    rewrite (pow2Q_nonneg 1024) in E by lia. rewrite <- Zle_Qle in E.
    assert (2 ^ 53 < 2 ^ 1024) by (apply Z.pow_lt_mono_r; lia). lia. }
  rewrite (Qleb_comp _ _ (Qeq_refl _) _ _ R), B.
  f_equal. rewrite (Qred_complete _ _ R). apply Qred_inject_Z.
Qed.

Lemma go_uint_int : forall n, 0 <= n -> n < 2 ^ 64 -> go_uint_of_float (inject_Z n) = n.
Proof.
  intros n H0 H1. unfold go_uint_of_float.
  assert (A : Qle_bool 0 (inject_Z n) = true).
  { apply Qle_bool_iff. change 0%Q with (inject_Z 0). rewrite <- Zle_Qle. exact H0. }
  assert (B : Qle_bool (pow2Q 64) (inject_Z n) = false).
  { destruct (Qle_bool (pow2Q 64) (inject_Z n)) eqn:X; [|reflexivity]. apply Qle_bool_iff in X.
    rewrite (pow2Q_nonneg 64) in X by lia. rewrite <- Zle_Qle in X. lia. }
  rewrite A, B. cbn [Qnum Qden inject_Z]. apply Z.quot_1_r.
Qed.

Lemma f64_dec_int : forall n, 0 <= n -> n < 2 ^ 53 -> f64_dec (Dec n 0) = FNum (inject_Z n).
Proof.
  intros n H0 H1. unfold f64_dec, dq. cbn [dmant dexp].
  assert (E : (inject_Z n * pow10Q 0)%Q = (n * 1 # 1)).
  { unfold pow10Q. cbn [Qpower]. unfold Qmult, inject_Z. cbn [Qnum Qden]. reflexivity. }
  rewrite E. unfold f64. cbn [Qnum Qden]. rewrite Z.mul_1_r.
  destruct (Z.eqb_spec n 0) as [Z0|Z0].
  - subst n. reflexivity.
  - destruct (Z.ltb_spec 0 n); [|lia]. apply f64_pos_int; lia.
Qed.

Theorem uint_stable_small : forall n, 0 <= n -> n < 2 ^ 53 -> uint_stable n.
Proof.
  intros n H0 H1. unfold uint_stable, conv_uint, jint. rewrite (f64_dec_int n H0 H1).
  assert (P : 2 ^ 53 < 2 ^ 64) by (apply Z.pow_lt_mono_r; lia).
  rewrite go_uint_int by lia. reflexivity.
Qed.

Lemma uint_number_ok_int : forall n, 0 <= n -> n < 2 ^ 53 -> uint_number_ok (inject_Z n) = true.
Proof.
  intros n H0 H1. unfold uint_number_ok. apply andb_true_iff. split; [apply andb_true_iff; split|].
  - apply Qle_bool_iff. change 0%Q with (inject_Z 0). rewrite <- Zle_Qle. exact H0.
  - cbn [Qnum Qden inject_Z]. rewrite Z.mod_1_r. reflexivity.
  - unfold Qltb. destruct (inject_Z n ?= inject_Z (2 ^ 53))%Q eqn:E; try reflexivity.
    + apply Qeq_alt in E. unfold Qeq in E. cbn [Qnum Qden inject_Z] in E. lia.
    + apply Qgt_alt in E. unfold Qlt in E. cbn [Qnum Qden inject_Z] in E. lia.
Qed.

Lemma uint_member_ok_jint : forall k o n, lookup_last k o = Some (jint n) -> 0 <= n -> n < 2 ^ 53 -> uint_member_ok k o = true.
Proof.
  intros k o n H H0 H1. unfold uint_member_ok. rewrite H. unfold jint. rewrite (f64_dec_int n H0 H1).
  apply uint_number_ok_int; assumption.
Qed.

(** every unsigned member below 2^53: the readable sufficient condition for [tms_stable] *)
Definition small (n : Z) : Prop := 0 <= n < 2 ^ 53.
Definition vmw_small (v : vmw) : Prop := small (v_coalesce v) /\ small (v_minTileRow v) /\ small (v_maxTileRow v).
Definition tm_small (m : tileMatrix) : Prop :=
  small (tm_tileWidth m) /\ small (tm_tileHeight m) /\ small (tm_matrixWidth m) /\ small (tm_matrixHeight m) /\
  forall l, tm_vmw m = Some l -> Forall vmw_small l.
Definition tms_small (t : tms) : Prop := Forall (fun e => tm_small (snd e)) (t_matrices t).

Lemma small_stable : forall n, small n -> uint_stable n.
Proof. intros n [H0 H1]. apply uint_stable_small; assumption. Qed.

Lemma vmw_elem_ok_encode : forall v, vmw_small v -> vmw_elem_ok (encodeVmw v) = true.
Proof.
  intros [c a b] [[C0 C1] [[A0 A1] [B0 B1]]]. cbn [v_coalesce v_minTileRow v_maxTileRow] in *.
  unfold vmw_elem_ok, encodeVmw. cbn [v_coalesce v_minTileRow v_maxTileRow].
  rewrite (uint_member_ok_jint "coalesce" _ c) by (auto; reflexivity).
  rewrite (uint_member_ok_jint "minTileRow" _ a) by (auto; reflexivity).
  rewrite (uint_member_ok_jint "maxTileRow" _ b) by (auto; reflexivity).
  reflexivity.
Qed.

Lemma uints_ok_encode : forall m, tm_small m -> uints_ok (collapse (tm_fields m)) = true.
Proof.
  intros m [[W0 W1] [[H0 H1] [[MW0 MW1] [[MH0 MH1] HV]]]]. unfold uints_ok.
  rewrite (uint_member_ok_jint "tileWidth" _ (tm_tileWidth m)); [|look; reflexivity|assumption|assumption].
  rewrite (uint_member_ok_jint "tileHeight" _ (tm_tileHeight m)); [|look; reflexivity|assumption|assumption].
  rewrite (uint_member_ok_jint "matrixWidth" _ (tm_matrixWidth m)); [|look; reflexivity|assumption|assumption].
  rewrite (uint_member_ok_jint "matrixHeight" _ (tm_matrixHeight m)); [|look; reflexivity|assumption|assumption].
  cbn [andb]. look.
  destruct (tm_vmw m) as [[|x r]|] eqn:E; try reflexivity.
  specialize (HV _ eq_refl). cbn [ovmws]. rewrite forallb_forall. intros j Hj. apply in_map_iff in Hj.
  destruct Hj as [v [Ev Hv]]. subst j. rewrite Forall_forall in HV. apply vmw_elem_ok_encode. apply HV. exact Hv.
Qed.

Lemma tms_small_stable : forall t, tms_small t -> tms_stable t.
Proof.
  intros t H. unfold tms_small, tms_stable in *. rewrite Forall_forall in *. intros e He. specialize (H e He).
  assert (U := uints_ok_encode _ H).
  destruct H as [S1 [S2 [S3 [S4 S5]]]]. unfold tm_stable. repeat split; try (apply small_stable; assumption); try exact U.
  intros l Hl. specialize (S5 l Hl). rewrite Forall_forall in *. intros v Hv. destruct (S5 v Hv) as [A [B C]].
  unfold vmw_stable. repeat split; apply small_stable; assumption.
Qed.
