(** * The Go constructs of the JSON decoding / encoding code of tms20/tms20.go, as Gallina -- the vocabulary of the
      REGENERATED file gen/TmsJsonGen.v (translator/tmsjson.go).  Definitions only.

    This is the reading under which the generated definitions are a translation of the Go source (trusted base of
    the source ties C16_source_tie_*, together with the data representation of Tms/Model.v):

    - an [interface{}] value produced by encoding/json is a [json] tree (Tms/Json.v); the nil interface is [JNull]
      (encoding/json decodes null to nil); a [map[string]interface{}] is an [obj] read with [lookup_last]
      (the last duplicate of a key wins), a missing key reads as nil; a [[]interface{}] is a [list json]
      (nil = the empty list: only len / index / range are translated);
    - type assertions [v.(T)] in their comma-ok form are [as_float64] / [as_string] / [as_object] / [as_array]: the
      value and whether the dynamic type is T; on failure the zero value of T;
    - a [float64] is [fl] of Tms/Json.v: a finite binary64 as the exact rational it denotes, or an infinity
      (no NaN: none of the translated operations produces one from these); the float64 held by a JSON number is
      the binary64 image [f64_dec] of its decimal (strconv.ParseFloat, correctly rounded).  [<], [>=], [!=] compare the
      denoted values exactly; [math.Trunc] truncates toward zero (exact in binary64); an untyped integer constant
      converted to float64 is [fl_of_Z] (the translator checks that it is exactly representable);
    - [int], [int64], [TMID] are exact [Z] (conversions between them are the identity on a 64-bit platform);
    - an [error] variable is the boolean "err != nil"; a function whose last result is an error returns
      [outcome T] (Tms/Model.v): a non-nil error is [Error] (its other results are not observable), a run-time
      panic (index out of range) is [Panic];
    - [for _, x := range l] / [for i := range l] are [orange] over the elements / the indices, the state being the
      variables declared outside the loop that the body assigns; [return] inside the body is [LRet];
    - a [map[TMID]TileMatrix] is the model's key-sorted association list: [make] = [[]], [m[k] = v] = [insert_tm],
      ranging over it (any order in Go) is only translated where the order is forgotten again by a sort. *)
From Coq Require Import ZArith QArith String List Bool.
From Texel Require Import Tms.Json Tms.Model.
Import ListNotations.
Open Scope Z_scope.

(** ** interface{} values *)
Definition as_float64 (j : json) : fl * bool :=
  match j with JNum d => (f64_dec d, true) | _ => (FNum 0%Q, false) end.
Definition as_string (j : json) : string * bool :=
  match j with JStr s => (s, true) | _ => (EmptyString, false) end.
Definition as_object (j : json) : obj * bool :=
  match j with JObj o => (o, true) | _ => ([], false) end.
Definition as_array (j : json) : list json * bool :=
  match j with JArr l => (l, true) | _ => ([], false) end.

(** [v, ok := m[k]] on a map[string]interface{}; [m[k]] alone is its first component *)
Definition obj_get (m : obj) (k : string) : json * bool :=
  match lookup_last k m with Some v => (v, true) | None => (JNull, false) end.

(** the composite literal [map[string]interface{}{k: v}] *)
Definition obj_single (k : string) (v : json) : obj := [(k, v)].

(** ** float64 *)
Definition fl_of_Z (z : Z) : fl := FNum (inject_Z z).
Definition fl_ltb (a b : fl) : bool :=
  match a, b with
  | FNum x, FNum y => Qltb x y
  | FInf n, FNum _ => n
  | FNum _, FInf n => negb n
  | FInf n, FInf m => n && negb m
  end.
Definition fl_geb (a b : fl) : bool := negb (fl_ltb a b).
Definition fl_neqb (a b : fl) : bool := negb (fl_eqb a b).
Definition fl_trunc (a : fl) : fl :=
  match a with
  | FNum q => FNum (inject_Z (Z.quot (Qnum q) (Zpos (Qden q))))
  | FInf n => FInf n
  end.

(** ** slices and arrays *)
Definition zlen {A : Type} (l : list A) : Z := Z.of_nat (List.length l).

(** [l[i]]: index out of range panics *)
Definition idx {A : Type} (l : list A) (i : Z) : outcome A :=
  if i <? 0 then Panic
  else match nth_error l (Z.to_nat i) with Some x => Ok x | None => Panic end.

(** the indices [0 .. n-1] of [for i := range l] *)
Definition indices {A : Type} (l : list A) : list Z := map Z.of_nat (seq 0 (List.length l)).

(** [p[i] = v] on a [2]float64 (through a pointer to it): index out of range panics *)
Definition arr2_set {A : Type} (p : A * A) (i : Z) (v : A) : outcome (A * A) :=
  if i =? 0 then Ok (v, snd p) else if i =? 1 then Ok (fst p, v) else Panic.

(** ** errors *)
(** [err := f(..)] / [err = f(..)] for f returning only an error: "err != nil" *)
Definition err_of (r : outcome unit) : outcome bool :=
  match r with
  | Ok _ => Ok false
  | Error => Ok true
  | Panic => Panic
  | ErrorOrPanic => ErrorOrPanic
  end.

(** [v, err := f(..)] for f returning (T, error): the value and "err != nil"; on an error the zero value *)
Definition split_err {A : Type} (zero : A) (r : outcome A) : outcome (A * bool) :=
  match r with
  | Ok a => Ok (a, false)
  | Error => Ok (zero, true)
  | Panic => Panic
  | ErrorOrPanic => ErrorOrPanic
  end.

(** [return v, err] with [err] a variable *)
Definition ret_err {A : Type} (v : A) (err : bool) : outcome A := if err then Error else Ok v.

(** ** range loops *)
Inductive lstep (S R : Type) :=
| LCont (s : S)        (* the body ended: next element *)
| LRet (r : R).        (* [return r] *)
Arguments LCont {S R} s.
Arguments LRet {S R} r.

Fixpoint orange {A S R : Type} (body : A -> S -> outcome (lstep S R)) (l : list A) (s : S) : outcome (lstep S R) :=
  match l with
  | [] => Ok (LCont s)
  | x :: l' =>
      do b <- body x s;
      match b with
      | LCont s' => orange body l' s'
      | LRet r => Ok (LRet r)
      end
  end.

(** ** the zero value of tms20.TileMatrix ([var tileMatrix TileMatrix]) *)
Definition zero_tm : tileMatrix :=
  MkTM EmptyString EmptyString EmptyString None dzero dzero CornerUnset None 0 0 0 0 None.

(** ** MAPPED library calls (each used by the translator only after checking the exact shape of the call in the AST) *)

(** strconv.ParseInt(s, 10, 64) *)
Definition parse_int_res (s : string) : outcome Z :=
  match parse_int s with Some n => Ok n | None => Error end.

(** [defaults.Set(x)] for a struct type without any `default:` tag (checked in the AST): changes nothing, returns nil *)
Definition defaults_set_noop : outcome unit := Ok tt.

(** the tail of TileMatrix.UnmarshalJSONFromMap:
      _, err = marshmallow.UnmarshalFromJSONMap(dataMap, tm, marshmallow.WithExcludeKnownFieldsFromMap(true));
      if err != nil { return err }; validate := validator.New(validator.WithRequiredStructEnabled()); return validate.Struct(tm)
    -- population of the struct by marshmallow, then the validator: both libraries, modelled by [decodeTM_fields] of
    Tms/Model.v (held to the code by the correspondence C16).  The model describes a receiver [tm0] that is the zero
    value ([var tileMatrix TileMatrix] at the call site in unmarshalTileMatrices, which the generated
    gen_unmarshalTileMatrices passes); for another receiver the members absent from the document would keep their old
    values, which is not modelled: the theorems are stated for [zero_tm]. *)
Definition marshmallow_then_validate_tm (tm0 : tileMatrix) (dataMap : obj) : outcome tileMatrix := decodeTM_fields dataMap.

(** ** CRS decoding *)
(** MAPPED: R.FindStringSubmatch(s) for the two package-level regular expressions of tms20.go (their text is checked by the
    translator): nil when there is no match, otherwise the groups authority, version, code.  The value is the model's
    [parse_crs_url] / [parse_crs_urn]; only the indices 1, 2, 3 are translated (the whole match, index 0, is not modelled) *)
Definition submatch := option (string * string * string).
Definition submatch_url (s : string) : submatch := parse_crs_url s.
Definition submatch_urn (s : string) : submatch := parse_crs_urn s.
Definition sub_is_nil (m : submatch) : bool := match m with None => true | Some _ => false end.
Definition sub_idx (m : submatch) (i : Z) : outcome string :=
  match m with
  | None => Panic
  | Some (a, v, c) => if i =? 1 then Ok a else if i =? 2 then Ok v else if i =? 3 then Ok c else Panic
  end.

(** MAPPED: validate.Struct(x) for a struct type all of whose fields are unexported (checked in the AST): the validator
    skips unexported fields, so their `validate:` tags are never enforced -- nil *)
Definition validate_unexported_noop : outcome unit := Ok tt.

(** the result of a validation generated from the `validate:` tags *)
Definition validate_result (b : bool) : outcome unit := if b then Ok tt else Error.

(** MAPPED: var wkt ProjJSON; _, err := marshmallow.UnmarshalFromJSONMap(m, &wkt) (the declarations of ProjJSON and
    ProjJSONID are checked): the model's [projjson_ok]; the value read is (ID.AuthorityName, ID.AuthorityCode) *)
Definition projjson := (string * string)%type.
Definition projjson_zero : projjson := (EmptyString, EmptyString).
Definition projjson_read (w : obj) : projjson :=
  let s (k : string) := match lookup_last "id" w with
             | Some (JObj i) => match lookup_last k i with Some (JStr x) => x | _ => EmptyString end
             | _ => EmptyString
             end in
  (s "authority"%string, s "code"%string).
Definition marshmallow_projjson (w : obj) : outcome projjson :=
  if projjson_ok w then Ok (projjson_read w) else Error.

(** [append(errs, err)] on a []error: only its length could be observed *)
Definition errs_append (l : list bool) (e : bool) : list bool := l ++ [e].

(** ** json.Marshal (MAPPED: encoding/json).  The result []byte is the tree that the text denotes.
    - of a string: the JSON string;
    - of a struct literal whose fields carry `json:"key[,omitempty]"` tags: the object of the members in the order of the
      fields, an `omitempty` member with an empty value left out -- [collapse] of Tms/Model.v over [enc_*];
    - a map[string]interface{} member: the object with sorted keys, the last duplicate winning, recursively ([canon_obj]);
      a nil map is not distinguished from an empty one (Go prints null for nil; a decoded value never holds nil there) *)
Definition enc_str (omitempty : bool) (s : string) : option json := if omitempty then ostr s else Some (JStr s).
Definition enc_map (m : obj) : option json := Some (JObj (canon_obj m)).
Definition json_marshal_string (s : string) : outcome json := Ok (JStr s).
Definition json_marshal_struct (l : fields) : outcome json := Ok (JObj (collapse l)).

(** ** TileMatrixSet.UnmarshalJSON *)
(** [data []byte] is the tree that the text denotes (the text -> tree step of the lexer is trusted) *)

(** MAPPED: specials, err := marshmallow.Unmarshal(data, tms, marshmallow.WithExcludeKnownFieldsFromMap(true)) on a
    *TileMatrixSet: the streaming population of the tagged members in document order, the model's [top_step]; for the
    document `null` nothing is read.  The result: the populated members and the leftover ones ("specials") *)
Definition marshmallow_unmarshal_top (j : json) : outcome topacc :=
  match j with
  | JObj o => foldO top_step o top_empty
  | JNull => Ok top_empty
  | _ => Error
  end.
(** the leftover members the code looks at: "crs" and "tileMatrices" (the translator refuses any other key) *)
Definition top_specials (a : topacc) : obj :=
  (match ta_crs a with Some v => [("crs"%string, v)] | None => [] end)
  ++ (match ta_tms a with Some v => [("tileMatrices"%string, v)] | None => [] end).

(** the `validate:` tags of TileMatrixSet, one function per tag (MAPPED: go-playground/validator) *)
Definition vtag_omitempty_uri (s : string) : bool := String.eqb s "" || uri_ok s.
Definition vtag_omitnil_min_strs (n : Z) (l : option (list string)) : bool :=
  match l with None => true | Some x => n <=? zlen x end.
Definition vtag_required_iface (is_nil : bool) : bool := negb is_nil.
Definition vtag_required_min_tmmap (n : Z) (m : list (Z * tileMatrix)) : bool := n <=? zlen m.
(** `omitempty` on a slice skips the other tags only when the slice is NIL (validator's hasValue: !IsNil), so an empty
    non-nil slice is held to `len=2` *)
Definition vtag_omitempty_len_strs (n : Z) (l : option (list string)) : bool :=
  match l with None => true | Some x => zlen x =? n end.
Definition vtag_required_ptr {A : Type} (p : option A) : bool := match p with Some _ => true | None => false end.
(** a field *TwoDBoundingBox without a tag: the validator descends into the struct it points to (declaration checked):
    LowerLeft / UpperRight `required` (always set in the model's [bbox]), OrderedAxes `omitempty,len=2` *)
Definition vtag_struct_bbox (b : option bbox) : bool :=
  match b with
  | None => true
  | Some x => vtag_omitempty_len_strs 2 (bb_orderedAxes x)
  end.

(** ** TwoDBoundingBox.UnmarshalJSON / MarshalJSON *)
(** MAPPED: specials, err := marshmallow.Unmarshal(data, bb, marshmallow.WithExcludeKnownFieldsFromMap(true)) on a
    *TwoDBoundingBox: the model's [bb_step]; a *TwoDPoint field holds the decimals of the document *)
Definition bb_empty : bbacc := MkBBAcc None None None None.
Definition marshmallow_unmarshal_bbox (j : json) : outcome bbacc :=
  match j with
  | JObj o => foldO bb_step o bb_empty
  | JNull => Ok bb_empty
  | _ => Error
  end.
Definition bb_specials (a : bbacc) : obj :=
  match ba_crs a with Some v => [("crs"%string, v)] | None => [] end.
(** json.Marshal of a *TwoDPoint member (TwoDPoint has no MarshalJSON: an array of two numbers; null for nil) *)
Definition enc_point_ptr (omitempty : bool) (p : option (dec * dec)) : option json :=
  match p with
  | None => if omitempty then None else Some JNull
  | Some x => Some (jpoint x)
  end.

(** ** TileMatrixSet.MarshalJSON *)
(** MAPPED: [v, _ := strconv.ParseInt(s, 10, 64)], the error dropped: the number, 0 for a text that is not a number (for a
    number out of the int64 range Go hands back the nearest bound instead of 0: not modelled, as in [id_key] of
    Tms/Model.v; the ids of a decoded set always parse) *)
Definition parse_int_or0 (s : string) : Z := match parse_int s with Some n => n | None => 0 end.

(** MAPPED, as one unit after checking the exact shape in the AST:
      var l []*TileMatrix; for k := range m { v := m[k]; l = append(l, &v) }
    -- pointers to copies of the values of the map, in the unspecified order of a Go map range: [tmmap_values] takes the
    order of the key-sorted representation.  Only accepted when [sort.Slice(l, less)] follows at once; *)
Definition tmmap_values (m : list (Z * tileMatrix)) : list tileMatrix := map snd m.
(** MAPPED: sort.Slice(l, less), [less] a generated comparison of two ELEMENTS (the closure reads the slice only at its
    two index parameters): a permutation sorted by [less]; Go's sort is not stable, so where two elements are equivalent
    under [less] any of their orders can result -- the insertion sort below is the result when no two are equivalent *)
Fixpoint sort_insert {A : Type} (less : A -> A -> bool) (x : A) (l : list A) : list A :=
  match l with
  | [] => [x]
  | y :: r => if less x y then x :: y :: r else y :: sort_insert less x r
  end.
Definition sort_slice {A : Type} (less : A -> A -> bool) (l : list A) : list A := fold_right (sort_insert less) [] l.

(** json.Marshal of the members of the anonymous struct (MAPPED: encoding/json, and the model's encoders for the types
    whose declarations the translator checks): a []string member ([null] for nil unless omitempty, which also drops the
    empty slice); a *TwoDBoundingBox member (TwoDBoundingBox.MarshalJSON as modelled by [encodeBBox]); a member that was
    marshalled by a generated MarshalJSON; a []*TileMatrix member (TileMatrix has no MarshalJSON: its fields by their
    tags, the model's [encodeTM]; a nil slice would print null: not distinguished from the empty one) *)
Definition enc_strs (omitempty : bool) (l : option (list string)) : option json :=
  if omitempty then ostrs l else Some (match l with None => JNull | Some x => jstrs x end).
Definition enc_bbox_ptr (omitempty : bool) (b : option bbox) : option json :=
  match b with
  | None => if omitempty then None else Some JNull
  | Some x => Some (encodeBBox x)
  end.
Definition enc_json (j : json) : option json := Some j.
Definition enc_tm_ptrs (l : list tileMatrix) : option json := Some (JArr (map encodeTM l)).
