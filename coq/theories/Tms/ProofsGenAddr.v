(** * Source tie of the tile-addressing functions of tms20/tms20.go (C15).

    gen/TmsAddrGen.v is REGENERATED on every run by translator/tmsaddr.go from the bodies of roundFloat,
    axisOrderIsLatLon, IsLatLon, ToXYPoint, TileMatrixSet.MatrixSize, FromNative, ToNative and MatrixBoundingBox,
    statement by statement.  This file proves the regenerated functions EQUAL (Leibniz equality, all inputs) to the
    hand-written model of Tms/Model.v ([axisOrderIsLatLon], [isLatLon], [tms_swaps] / [toXY], [matrixSizeTM],
    [fromNative], [toNative], [matrixBoundingBox]) up to the fixed encoding of Go's result lists ([enc_tile],
    [enc_point] below), and that the translated roundFloat stays within 1 / (2 * 10^p) of the identity the model uses.

    Trusted (the reading of Tms/GoAddr.v, repeated in the header of the generated file): float64 arithmetic read as
    exact arithmetic over Q, uint / int as exact Z, the data representation of the model (maps as association lists,
    float64 fields as decimals, the three corner values, the three CRS forms), pointers as options.
    MAPPED to the model, not translated (the translator checks the shape of the call / the declarations in the AST):
      crs.Authority() / .Version() / .Code() = [crs_avc]  (interface dispatch), strings.ToLower = [to_lower],
      fmt.Sprintf of %s verbs = [append], strconv.ParseUint(s, 10, 64) = [parse_uint],
      regexp.MustCompile("^(p1|p2|..)").Match = [prefix_any], epsgAxesAreLatLon[k] = [epsg_get] (table of gen/TmsData.v),
      CALLS of roundFloat(f, 9) = f (the model does not round), math.Pow(10, e) / math.Round inside roundFloat =
      [go_pow10] / [go_round], slippy.NewTile(z, x, y) = Some (z, x, y), (geom.Point).X() / .Y() = fst / snd,
      fmt.Errorf / errors.New as a returned error = [Error]. *)
From Coq Require Import ZArith QArith Qround Qabs Qpower String List Bool Lia Lqa.
From Texel Require Import Tms.Json Tms.Model Tms.GoAddr Tms.ProofsC15.
From Texel.Gen Require Import ConstsGen TmsData TmsAddrGen.
Import ListNotations.
Open Scope Z_scope.

(** ** the encodings of Go's result lists *)
(** FromNative returns a pointer to slippy.Tile and a bool: (nil, false) or (&Tile{zoom, x, y}, true) *)
Definition enc_tile (z : Z) (r : outcome (option (Z * Z))) : outcome (option tile * bool) :=
  match r with
  | Ok (Some xy) => Ok (Some (z, fst xy, snd xy), true)
  | Ok None => Ok (None, false)
  | Error => Error
  | Panic => Panic
  | ErrorOrPanic => ErrorOrPanic
  end.

(** ToNative returns (geom.Point, bool): (the zero point, false) or (corner, true) *)
Definition enc_point (r : outcome (option (Q * Q))) : outcome ((Q * Q) * bool) :=
  match r with
  | Ok (Some p) => Ok (p, true)
  | Ok None => Ok ((0%Q, 0%Q), false)
  | Error => Error
  | Panic => Panic
  | ErrorOrPanic => ErrorOrPanic
  end.

(** the tile matrix [tm := tms.TileMatrices[id]] reads: the zero value for a missing id *)
Definition tm_at (t : tms) (z : Z) : tileMatrix :=
  match find_tm z (t_matrices t) with Some m => m | None => zero_tm end.

(** ** the mapped functions never answer [ErrorOrPanic] *)
Lemma isLatLon_cases : forall c, isLatLon c = Panic \/ isLatLon c = Error \/ exists b, isLatLon c = Ok b.
Proof.
  intro c. unfold isLatLon.
  destruct (crs_avc c) as [[[a v] code]| | |] eqn:E; cbn [bind].
  - destruct (String.eqb a "OGC" && String.eqb v "1.3" && String.eqb code "CRS84"); [right; right; eauto|].
    destruct (negb (String.eqb (to_lower a) "epsg")); [right; left; reflexivity|].
    destruct (parse_uint code) as [n|]; [|right; left; reflexivity].
    destruct (existsb (Z.eqb n) gen_epsg_latlon_true); [right; right; eauto|].
    destruct (existsb (Z.eqb n) gen_epsg_latlon_false); [right; right; eauto|right; left; reflexivity].
  - exfalso. destruct c; cbn in E; try discriminate.
    + destruct (parse_crs_uri uri); discriminate.
  - left; reflexivity.
  - exfalso. destruct c; cbn in E; try discriminate.
    + destruct (parse_crs_uri uri); discriminate.
Qed.

Lemma axisOrder_cases : forall a, axisOrderIsLatLon a = Error \/ exists b, axisOrderIsLatLon a = Ok b.
Proof.
  intro a. unfold axisOrderIsLatLon.
  destruct a as [[|x [|y r]]|]; auto.
  match goal with |- context [if ?c then _ else _] => destruct c end; [right; eauto|].
  match goal with |- context [if ?c then _ else _] => destruct c end; [right; eauto|left; reflexivity].
Qed.

Lemma tms_swaps_cases : forall t, tms_swaps t = Panic \/ tms_swaps t = Error \/ exists b, tms_swaps t = Ok b.
Proof.
  intro t. unfold tms_swaps.
  destruct (isLatLon_cases (t_crs t)) as [H|[H|[b H]]]; rewrite H; auto.
  - destruct (axisOrder_cases (t_orderedAxes t)) as [A|[b A]]; rewrite A; eauto.
  - right; right; eauto.
Qed.

(** ** axisOrderIsLatLon: the two regular expressions as prefix tests, in the model's order *)
Theorem gen_axisOrderIsLatLon_eq : forall a, gen_axisOrderIsLatLon a = axisOrderIsLatLon a.
Proof.
  intros [[|x [|y r]]|]; try reflexivity.
  assert (L : (slice_len (Some (x :: y :: r)) <? 2) = false).
  { apply Z.ltb_ge. unfold slice_len. cbn [List.length]. lia. }
  unfold gen_axisOrderIsLatLon. rewrite L.
  change (str_idx (Some (x :: y :: r)) 0) with (Ok x). change (str_idx (Some (x :: y :: r)) 1) with (Ok y).
  unfold axisOrderIsLatLon, prefix_any. cbn [bind existsb append].
  repeat match goal with |- context [has_prefix ?p ?s] => destruct (has_prefix p s) end; reflexivity.
Qed.

(** ** IsLatLon *)
Theorem gen_IsLatLon_eq : forall c, gen_IsLatLon c = isLatLon c.
Proof.
  intro c. unfold gen_IsLatLon, isLatLon, crs_authority, crs_version, crs_code.
  destruct (crs_avc c) as [[[a v] code]| | |]; cbn [bind fst snd]; try reflexivity.
  destruct (String.eqb a "OGC" && String.eqb v "1.3" && String.eqb code "CRS84"); [reflexivity|].
  destruct (negb (String.eqb (to_lower a) "epsg")); [reflexivity|].
  unfold parse_uint_res. destruct (parse_uint code) as [n|]; cbn [split_err bind]; [|reflexivity].
  unfold epsg_get.
  destruct (existsb (Z.eqb n) gen_epsg_latlon_true); [reflexivity|].
  destruct (existsb (Z.eqb n) gen_epsg_latlon_false); reflexivity.
Qed.

(** ** ToXYPoint *)
Theorem gen_ToXYPoint_eq : forall t p, gen_ToXYPoint t p = (do s <- tms_swaps t; Ok (toXY s p)).
Proof.
  intros t [px py]. unfold gen_ToXYPoint, tms_swaps. rewrite gen_IsLatLon_eq.
  destruct (isLatLon_cases (t_crs t)) as [H|[H|[b H]]]; rewrite H; cbn [split_err bind].
  - reflexivity.
  - rewrite gen_axisOrderIsLatLon_eq. destruct (axisOrder_cases (t_orderedAxes t)) as [A|[b A]]; rewrite A; cbn [split_err bind ret_err].
    + reflexivity.
    + destruct b; reflexivity.
  - destruct b; reflexivity.
Qed.

(** ** uint(f) is the floor for the f >= 0 that reach it *)
Lemma f2uint_floor : forall q, Qltb q 0 = false -> f2uint q = qfloor q.
Proof.
  intros [n d] H. apply Qltb_false in H. unfold f2uint, qfloor, Qfloor. cbn [Qnum Qden].
  unfold Qle in H. cbn [Qnum Qden] in H.
  apply Z.quot_div_nonneg; lia.
Qed.

Lemma vmw_len_nonempty : forall m, negb (slice_len (tm_vmw m) =? 0) = vmw_nonempty m.
Proof.
  intro m. unfold slice_len, vmw_nonempty. destruct (tm_vmw m) as [[|v l]|]; reflexivity.
Qed.

(** ** the per-matrix core of FromNative: the statements after the point of origin is known *)
Lemma fromNative_core : forall m (z : Z) (o pt : Q * Q),
  (let v_tileSizeX := (inject_Z (tm_tileWidth m) * dq (tm_cellSize m))%Q in
   let v_minX := fst o in
   let v_x := ((fst pt - v_minX) / v_tileSizeX)%Q in
   if Qltb v_x 0%Q then Ok (None, false)
   else
   let v_ux := f2uint v_x in
   if tm_matrixWidth m <=? v_ux then Ok (None, false)
   else
   let v_tileSizeY := (inject_Z (tm_tileHeight m) * dq (tm_cellSize m))%Q in
   let v_y := 0%Q in
   do v_y <- (
     if corner_eqb (tm_corner m) TopLeft then
       let v_maxY := snd o in
       let v_y := ((v_maxY - snd pt) / v_tileSizeY)%Q in
       Ok v_y
     else
     if corner_eqb (tm_corner m) BottomLeft then
       let v_minY := snd o in
       let v_y := ((snd pt - v_minY) / v_tileSizeY)%Q in
       Ok v_y
     else
       let v_maxY := snd o in
       let v_y := ((v_maxY - snd pt) / v_tileSizeY)%Q in
       Ok v_y);
   if Qltb v_y 0%Q then Ok (None, false)
   else
   let v_uy := f2uint v_y in
   if tm_matrixHeight m <=? v_uy then Ok (None, false)
   else Ok (newTile z v_ux v_uy, true))
  = enc_tile z (Ok (fromNativeTM m o pt)).
Proof.
  intros m z o pt. unfold fromNativeTM, tileSpanX, tileSpanY. cbv zeta.
  destruct (Qltb ((fst pt - fst o) / (inject_Z (tm_tileWidth m) * dq (tm_cellSize m))) 0) eqn:LX; [reflexivity|].
  rewrite (f2uint_floor _ LX).
  destruct (tm_matrixWidth m <=? qfloor ((fst pt - fst o) / (inject_Z (tm_tileWidth m) * dq (tm_cellSize m)))); [reflexivity|].
  destruct (tm_corner m); cbn [corner_eqb bind].
  - destruct (Qltb ((snd o - snd pt) / (inject_Z (tm_tileHeight m) * dq (tm_cellSize m))) 0) eqn:LY; [reflexivity|].
    rewrite (f2uint_floor _ LY).
    destruct (tm_matrixHeight m <=? qfloor ((snd o - snd pt) / (inject_Z (tm_tileHeight m) * dq (tm_cellSize m)))); reflexivity.
  - destruct (Qltb ((snd o - snd pt) / (inject_Z (tm_tileHeight m) * dq (tm_cellSize m))) 0) eqn:LY; [reflexivity|].
    rewrite (f2uint_floor _ LY).
    destruct (tm_matrixHeight m <=? qfloor ((snd o - snd pt) / (inject_Z (tm_tileHeight m) * dq (tm_cellSize m)))); reflexivity.
  - destruct (Qltb ((snd pt - snd o) / (inject_Z (tm_tileHeight m) * dq (tm_cellSize m))) 0) eqn:LY; [reflexivity|].
    rewrite (f2uint_floor _ LY).
    destruct (tm_matrixHeight m <=? qfloor ((snd pt - snd o) / (inject_Z (tm_tileHeight m) * dq (tm_cellSize m)))); reflexivity.
Qed.

(** ** FromNative *)
Theorem gen_FromNative_eq : forall t z pt, gen_FromNative t z pt = enc_tile z (fromNative t z pt).
Proof.
  intros t z pt. unfold gen_FromNative, fromNative, map_get.
  destruct (find_tm z (t_matrices t)) as [m|]; [|reflexivity].
  cbn [negb]. rewrite vmw_len_nonempty. destruct (vmw_nonempty m); [reflexivity|].
  unfold originXY. destruct (tm_origin m) as [p|]; cbn [deref bind]; [|reflexivity].
  rewrite gen_ToXYPoint_eq.
  destruct (tms_swaps_cases t) as [H|[H|[s H]]]; rewrite H; cbn [bind split_err]; try reflexivity.
  exact (fromNative_core m z (toXY s (qpoint p)) pt).
Qed.

(** ** ToNative *)
Theorem gen_ToNative_eq : forall t z x y, gen_ToNative t (Some (z, x, y)) = enc_point (toNative t z (x, y)).
Proof.
  intros t z x y. unfold gen_ToNative, toNative, map_get. cbn [deref bind tileZ tileX tileY fst snd].
  destruct (find_tm z (t_matrices t)) as [m|]; [|reflexivity].
  cbn [negb]. unfold toNativeTM.
  destruct ((tm_matrixWidth m <? x) || (tm_matrixHeight m <? y)); [reflexivity|].
  unfold originXY. destruct (tm_origin m) as [p|]; cbn [deref bind]; [|reflexivity].
  rewrite gen_ToXYPoint_eq.
  destruct (tms_swaps_cases t) as [H|[H|[s H]]]; rewrite H; cbn [bind split_err]; try reflexivity.
  unfold tileSpanX, tileSpanY, roundFloat_modelled, set0, set1.
  destruct (tm_corner m); reflexivity.
Qed.

Theorem gen_ToNative_nil : forall t, gen_ToNative t None = Panic.
Proof. reflexivity. Qed.

(** ** MatrixSize: of the matrix read from the map (the zero matrix for a missing id) *)
Theorem gen_MatrixSize_eq : forall t z,
  gen_MatrixSize t z = if vmw_nonempty (tm_at t z) then Panic else Ok (matrixSizeTM (tm_at t z)).
Proof.
  intros t z. unfold gen_MatrixSize, tm_at, map_get.
  destruct (find_tm z (t_matrices t)) as [m|]; cbn [fst].
  - rewrite vmw_len_nonempty. destruct (vmw_nonempty m); reflexivity.
  - reflexivity.
Qed.

(** ** MatrixBoundingBox *)
Theorem gen_MatrixBoundingBox_eq : forall t z, gen_MatrixBoundingBox t z = matrixBoundingBox t z.
Proof.
  intros t z. unfold gen_MatrixBoundingBox, matrixBoundingBox.
  rewrite gen_MatrixSize_eq. unfold tm_at, map_get.
  destruct (find_tm z (t_matrices t)) as [m|]; [|reflexivity].
  cbn [negb]. destruct (vmw_nonempty m); [reflexivity|]. cbn [bind].
  unfold originXY. destruct (tm_origin m) as [p|]; cbn [deref bind]; [|reflexivity].
  rewrite gen_ToXYPoint_eq.
  destruct (tms_swaps_cases t) as [H|[H|[s H]]]; rewrite H; cbn [bind split_err]; try reflexivity.
  unfold matrixBBoxTM, matrixSizeTM, roundFloat_modelled, set0, set1.
  destruct (tm_corner m); reflexivity.
Qed.

(** ** roundFloat: translated too; its CALLS are mapped to the identity of the model, which is within half a unit of the
       last kept decimal of what the body computes in exact arithmetic *)
Lemma go_round_near : forall x, (- (1 # 2) <= go_round x - x)%Q /\ (go_round x - x <= 1 # 2)%Q.
Proof.
  intro x. unfold go_round. destruct (Qle_bool 0 x).
  - assert (A := Qfloor_le (x + (1 # 2))). assert (B := Qlt_floor (x + (1 # 2))).
    rewrite inject_Z_plus in B. change (inject_Z 1) with 1%Q in B. split; lra.
  - assert (A := Qfloor_le (- x + (1 # 2))). assert (B := Qlt_floor (- x + (1 # 2))).
    rewrite inject_Z_plus in B. change (inject_Z 1) with 1%Q in B. split; lra.
Qed.

Theorem gen_roundFloat_near : forall f p,
  exists r, gen_roundFloat f p = Ok r /\ (Qabs (r - f) <= (1 # 2) / pow10Q p)%Q.
Proof.
  intros f p. eexists. split; [reflexivity|].
  unfold go_pow10. rewrite Qfloor_Z. set (R := pow10Q p).
  assert (HR : (0 < R)%Q) by (apply Qpower_0_lt; reflexivity).
  destruct (go_round_near (f * R)) as [N1 N2].
  assert (E : (go_round (f * R) / R - f == (go_round (f * R) - f * R) / R)%Q) by (field; lra).
  apply Qabs_Qle_condition. rewrite E. split.
  - apply Qle_shift_div_l; [exact HR|].
    setoid_replace (- ((1 # 2) / R) * R)%Q with (- (1 # 2))%Q by (field; lra). exact N1.
  - apply Qle_shift_div_r; [exact HR|].
    setoid_replace ((1 # 2) / R * R)%Q with (1 # 2)%Q by (field; lra). exact N2.
Qed.

(** at the precision the functions above use (tms20.CoordPrecision, regenerated into ConstsGen.v): 5e-10 *)
Theorem gen_roundFloat_near_9 : forall f,
  exists r, gen_roundFloat f gen_tms20_CoordPrecision = Ok r /\ (Qabs (r - f) <= 1 # 2000000000)%Q.
Proof.
  intro f. destruct (gen_roundFloat_near f gen_tms20_CoordPrecision) as [r [E B]]. exists r. split; [exact E|].
  eapply Qle_trans; [exact B|]. vm_compute. discriminate.
Qed.

(** ** all of it *)
Theorem source_tie_addressing :
  (forall a, gen_axisOrderIsLatLon a = axisOrderIsLatLon a) /\
  (forall c, gen_IsLatLon c = isLatLon c) /\
  (forall t p, gen_ToXYPoint t p = (do s <- tms_swaps t; Ok (toXY s p))) /\
  (forall t z pt, gen_FromNative t z pt = enc_tile z (fromNative t z pt)) /\
  (forall t z x y, gen_ToNative t (Some (z, x, y)) = enc_point (toNative t z (x, y))) /\
  (forall t z, gen_MatrixSize t z = if vmw_nonempty (tm_at t z) then Panic else Ok (matrixSizeTM (tm_at t z))) /\
  (forall t z, gen_MatrixBoundingBox t z = matrixBoundingBox t z).
Proof.
  repeat split.
  - apply gen_axisOrderIsLatLon_eq.
  - apply gen_IsLatLon_eq.
  - apply gen_ToXYPoint_eq.
  - apply gen_FromNative_eq.
  - apply gen_ToNative_eq.
  - apply gen_MatrixSize_eq.
  - apply gen_MatrixBoundingBox_eq.
Qed.

(** with the per-matrix functions of the C15 theorems: for a matrix without variable widths whose origin is [p], in a
    set whose axis order is decided ([tms_swaps t = Ok s]) *)
Corollary source_tie_addressing_tm : forall t z m s p,
  find_tm z (t_matrices t) = Some m -> vmw_nonempty m = false ->
  tm_origin m = Some p -> tms_swaps t = Ok s ->
  let o := toXY s (qpoint p) in
  (forall pt, gen_FromNative t z pt = enc_tile z (Ok (fromNativeTM m o pt))) /\
  (forall x y, gen_ToNative t (Some (z, x, y)) = enc_point (Ok (toNativeTM m o (x, y)))) /\
  gen_MatrixSize t z = Ok (matrixSizeTM m) /\
  gen_MatrixBoundingBox t z = Ok (matrixBBoxTM m o).
Proof.
  intros t z m s p Hf Hv Ho Hs o.
  destruct (set_level_lemma t z m s p Hf Hv Ho Hs) as [A [B C]].
  repeat split.
  - intro pt. rewrite gen_FromNative_eq, A. reflexivity.
  - intros x y. rewrite gen_ToNative_eq, B. reflexivity.
  - rewrite gen_MatrixSize_eq. unfold tm_at. rewrite Hf, Hv. reflexivity.
  - rewrite gen_MatrixBoundingBox_eq. exact C.
Qed.
