(** * Executable model of tile matrix sets: tms20 (decode / encode / tile addressing),
      pointindex.IsQuadTree, the panic / error behaviour of pointindex.DeviationStats and
      main.validateTileMatrixSet.

    Definitions only.  Every function mirrors the Go code AS IT STANDS (file / function named in
    the comment), including what the libraries underneath really do (marshmallow v1.1.5,
    validator v10.16.0, creasty/defaults, encoding/json): those rules were found by experiment
    on the real code and are held to it by the correspondence checks C14-C16 (harness_tms).

    Numbers: a float64 field holds the DECIMAL of the document ([dec]); wherever Go looks at the
    float64 (comparison, validation, conversion to uint, division) the model takes its binary64
    image [f64_dec].  Tile addressing (C15) is stated over exact rationals. *)
From Coq Require Import ZArith QArith Qround String Ascii List Bool.
From Texel Require Import Tms.Json.
From Texel.Gen Require Import ConstsGen TmsData.
Import ListNotations.
Open Scope Z_scope.

(** ** Results.  [ErrorOrPanic]: marshmallow populates a struct from a Go map, i.e. in random
    order; when one member makes it stop with an error and another one makes it panic, either
    can happen first.  (Since the repair of F6c no decoder of this model produces [Panic] or
    [ErrorOrPanic] any more -- theorem C16_decode_total; they remain for the tile addressing functions.) *)
Inductive outcome (A : Type) :=
| Ok (a : A)
| Error
| Panic
| ErrorOrPanic.
Arguments Ok {A} a.
Arguments Error {A}.
Arguments Panic {A}.
Arguments ErrorOrPanic {A}.

Definition bind {A B} (r : outcome A) (f : A -> outcome B) : outcome B :=
  match r with
  | Ok a => f a
  | Error => Error
  | Panic => Panic
  | ErrorOrPanic => ErrorOrPanic
  end.
Notation "'do' x <- r ; k" := (bind r (fun x => k)) (at level 200, x pattern, r at level 100, k at level 200).

(** ** Records (tms20.TileMatrixSet, TileMatrix, CRS, TwoDBoundingBox, VariableMatrixWidth).
    A Go slice is [option (list _)]: [None] is the nil slice, [Some []] the empty non-nil one. *)
Inductive corner := CornerUnset (* "" *) | TopLeft | BottomLeft.

Record vmw := MkVmw { v_coalesce : Z; v_minTileRow : Z; v_maxTileRow : Z }.

Record tileMatrix := MkTM {
  tm_id : string;
  tm_title : string;
  tm_description : string;
  tm_keywords : option (list string);
  tm_scaleDenominator : dec;
  tm_cellSize : dec;
  tm_corner : corner;
  tm_origin : option (dec * dec);       (* *TwoDPoint: nil until populated *)
  tm_tileWidth : Z;                     (* uint: 0 <= _ < 2^64 *)
  tm_tileHeight : Z;
  tm_matrixWidth : Z;
  tm_matrixHeight : Z;
  tm_vmw : option (list vmw)
}.

Inductive crs :=
| CrsURI (desc uri : string) (asString : bool)
| CrsWKT (desc : string) (wkt : obj)           (* originalWKT, as the Go map prints: keys sorted, last duplicate wins *)
| CrsRef (desc : string) (rs : obj).

Record bbox := MkBB {
  bb_lowerLeft : dec * dec;
  bb_upperRight : dec * dec;
  bb_orderedAxes : option (list string);
  bb_crs : crs
}.

Record tms := MkTMS {
  t_id : string;
  t_title : string;
  t_description : string;
  t_keywords : option (list string);
  t_uri : string;
  t_orderedAxes : option (list string);
  t_wkss : string;
  t_bbox : option bbox;
  t_crs : crs;
  t_matrices : list (Z * tileMatrix)    (* map[TMID]TileMatrix; decode keeps it sorted by key, keys unique *)
}.

Definition dzero : dec := Dec 0 0.

(** ** Conversions of marshmallow (reflection.go primitiveConverters, buildSlice, buildArray, buildStruct) *)
Inductive conv (A : Type) :=
| CVal (a : A)
| CNil          (* JSON null: the field keeps its zero value *)
| CSoft         (* an error is recorded, population of the other members goes on *)
| CHard         (* an error is recorded and population stops (ModeFailOnFirstError) *)
| CPanic.       (* reflect: array index out of range -- not produced any more (F6c repaired) *)
Arguments CVal {A} a.
Arguments CNil {A}.
Arguments CSoft {A}.
Arguments CHard {A}.
Arguments CPanic {A}.

Definition conv_str (j : json) : conv string :=
  match j with JNull => CNil | JStr s => CVal s | _ => CHard end.

Definition conv_float (j : json) : conv dec :=
  match j with
  | JNull => CNil
  | JNum d => match f64_dec d with FNum _ => CVal d | FInf _ => CHard end
  | _ => CHard
  end.

(** float64 -> uint: truncation (Go conversion, amd64); since the repair of F6b it only ever sees whole numbers in
    [0, 2^53): [uints_ok] below *)
Definition conv_uint (j : json) : conv Z :=
  match j with
  | JNull => CNil
  | JNum d => match f64_dec d with FNum q => CVal (go_uint_of_float q) | FInf _ => CHard end
  | _ => CHard
  end.

Fixpoint strs_of (l : list json) : option (list string) :=
  match l with
  | [] => Some []
  | JStr s :: r => match strs_of r with Some t => Some (s :: t) | None => None end
  | JNull :: r => match strs_of r with Some t => Some (EmptyString :: t) | None => None end
  | _ :: _ => None
  end.

Definition conv_strs (j : json) : conv (list string) :=
  match j with
  | JNull => CNil
  | JArr l => match strs_of l with Some t => CVal t | None => CSoft end
  | _ => CHard
  end.

(** TwoDPoint.UnmarshalJSONFromMap / UnmarshalJSON (since the repair of F6c): exactly an array of two numbers;
    anything else -- another length, a non-number element, null, a non-array -- is an error (recorded by the custom
    unmarshaler, so in a tile matrix it does not stop the population of the other members) *)
Definition conv_point (j : json) : conv (dec * dec) :=
  match j with
  | JArr [JNum a; JNum b] =>
      match f64_dec a, f64_dec b with
      | FNum _, FNum _ => CVal (a, b)
      | _, _ => CSoft
      end
  | _ => CSoft
  end.

Definition uint_member (k : string) (o : obj) : option Z :=   (* None: wrong type *)
  match lookup_last k o with
  | None => Some 0
  | Some v => match conv_uint v with CVal z => Some z | CNil => Some 0 | _ => None end
  end.

Definition vmw_of (j : json) : option vmw :=
  match j with
  | JNull => Some (MkVmw 0 0 0)
  | JObj o =>
      match uint_member "coalesce" o, uint_member "minTileRow" o, uint_member "maxTileRow" o with
      | Some c, Some a, Some b => Some (MkVmw c a b)
      | _, _, _ => None
      end
  | _ => None
  end.

Fixpoint vmws_of (l : list json) : option (list vmw) :=
  match l with
  | [] => Some []
  | j :: r => match vmw_of j, vmws_of r with Some v, Some t => Some (v :: t) | _, _ => None end
  end.

Definition conv_vmws (j : json) : conv (list vmw) :=
  match j with
  | JNull => CNil
  | JArr l => match vmws_of l with Some t => CVal t | None => CSoft end
  | _ => CHard
  end.

(** CornerOfOrigin.UnmarshalJSONFromMap (custom unmarshaler: its error does not stop population) *)
Definition conv_corner (j : json) : conv corner :=
  match j with
  | JStr s =>
      if String.eqb s "" then CVal TopLeft
      else if String.eqb s "topLeft" then CVal TopLeft
      else if String.eqb s "bottomLeft" then CVal BottomLeft
      else CSoft
  | _ => CSoft
  end.

(** classification of the members of one struct populated from a Go map *)
Definition is_panic {A} (c : conv A) : bool := match c with CPanic => true | _ => false end.
Definition is_hard {A} (c : conv A) : bool := match c with CHard => true | _ => false end.
Definition is_soft {A} (c : conv A) : bool := match c with CSoft => true | _ => false end.
Definition cval {A} (c : conv A) (dflt : A) : A := match c with CVal a => a | _ => dflt end.
Definition copt {A} (c : conv A) : option A := match c with CVal a => Some a | _ => None end.

Definition member {A} (k : string) (f : json -> conv A) (o : obj) : conv A :=
  match lookup_last k o with None => CNil | Some v => f v end.

(** ** TileMatrix.UnmarshalJSONFromMap: populate, then validator.Struct *)
Definition tm_valid (m : tileMatrix) : bool :=
  negb (String.eqb (tm_id m) "")                                            (* ID required *)
  && match f64_dec (tm_scaleDenominator m) with FNum q => Qltb 0 q | FInf s => negb s end   (* required,gt=0 *)
  && match f64_dec (tm_cellSize m) with FNum q => Qltb 0 q | FInf s => negb s end
  && match tm_origin m with Some _ => true | None => false end              (* required *)
  && (1 <=? tm_tileWidth m) && (1 <=? tm_tileHeight m)                      (* required,min=1 *)
  && (1 <=? tm_matrixWidth m) && (1 <=? tm_matrixHeight m).

(** checkUnsignedIntegers (repair of F6b, /repo 4bfd034), on the RAW map before marshmallow: a member that is a JSON
    number must be whole, not negative and below 2^53 (as float64); other JSON types are left to the type check of the
    conversion; 0 passes here (and is rejected by `required,min=1` where that applies) *)
Definition uint_number_ok (q : Q) : bool :=
  Qle_bool 0 q && (Qnum q mod Zpos (Qden q) =? 0) && Qltb q (inject_Z (2 ^ 53)).

Definition uint_member_ok (k : string) (o : obj) : bool :=
  match lookup_last k o with
  | Some (JNum d) => match f64_dec d with FNum q => uint_number_ok q | FInf _ => false end
  | _ => true
  end.

Definition vmw_elem_ok (j : json) : bool :=
  match j with
  | JObj e => uint_member_ok "coalesce" e && uint_member_ok "minTileRow" e && uint_member_ok "maxTileRow" e
  | _ => true
  end.

Definition uints_ok (o : obj) : bool :=
  uint_member_ok "tileWidth" o && uint_member_ok "tileHeight" o
  && uint_member_ok "matrixWidth" o && uint_member_ok "matrixHeight" o
  && match lookup_last "variableMatrixWidths" o with
     | Some (JArr l) => forallb vmw_elem_ok l
     | _ => true
     end.

Definition decodeTM_fields (o : obj) : outcome tileMatrix :=
  let c_id := member "id" conv_str o in
  let c_title := member "title" conv_str o in
  let c_desc := member "description" conv_str o in
  let c_kw := member "keywords" conv_strs o in
  let c_sd := member "scaleDenominator" conv_float o in
  let c_cs := member "cellSize" conv_float o in
  let c_co := member "cornerOfOrigin" conv_corner o in
  let c_po := member "pointOfOrigin" conv_point o in
  let c_tw := member "tileWidth" conv_uint o in
  let c_th := member "tileHeight" conv_uint o in
  let c_mw := member "matrixWidth" conv_uint o in
  let c_mh := member "matrixHeight" conv_uint o in
  let c_vm := member "variableMatrixWidths" conv_vmws o in
  let hard := is_hard c_id || is_hard c_title || is_hard c_desc || is_hard c_kw || is_hard c_sd || is_hard c_cs
              || is_hard c_po || is_hard c_tw || is_hard c_th || is_hard c_mw || is_hard c_mh || is_hard c_vm in
  let soft := is_soft c_kw || is_soft c_co || is_soft c_po || is_soft c_vm in
  if hard || soft then Error
  else
    let m := MkTM (cval c_id "") (cval c_title "") (cval c_desc "") (copt c_kw)
                  (cval c_sd dzero) (cval c_cs dzero) (cval c_co CornerUnset) (copt c_po)
                  (cval c_tw 0) (cval c_th 0) (cval c_mw 0) (cval c_mh 0) (copt c_vm) in
    if tm_valid m then Ok m else Error.

Definition decodeTM (o : obj) : outcome tileMatrix :=
  if uints_ok o then decodeTM_fields o else Error.

(** map assignment tileMatrices[id] = tm, the map kept as a key-sorted list *)
Fixpoint insert_tm (k : Z) (m : tileMatrix) (l : list (Z * tileMatrix)) : list (Z * tileMatrix) :=
  match l with
  | [] => [(k, m)]
  | (k', m') :: r =>
      if k =? k' then (k, m) :: r
      else if k <? k' then (k, m) :: (k', m') :: r
      else (k', m') :: insert_tm k m r
  end.

(** unmarshalTileMatrices *)
Fixpoint decodeTMs (l : list json) (acc : list (Z * tileMatrix)) : outcome (list (Z * tileMatrix)) :=
  match l with
  | [] => Ok acc
  | JObj o :: r =>
      do m <- decodeTM o;
      match parse_int (tm_id m) with
      | Some k => decodeTMs r (insert_tm k m acc)
      | None => Error
      end
  | _ :: _ => Error
  end.

(** ** CRS *)
(** crsURIRegexURL: "https?://" then one or more non-newline characters then "/def/crs/AUTHORITY/VERSION/CODE" at the end,
    AUTHORITY and CODE non-empty, none of the three containing a slash; the match may start anywhere *)
Fixpoint no_newline (s : string) : bool :=
  match s with EmptyString => true | String a r => negb (Ascii.eqb a "010"%char) && no_newline r end.

(** some suffix of [s] is "http://" or "https://" followed by a non-empty, newline-free remainder *)
Fixpoint http_then_some (s : string) : bool :=
  let here :=
    match drop_prefix "http://" s with
    | Some r => negb (String.eqb r "") && no_newline r
    | None => match drop_prefix "https://" s with
              | Some r => negb (String.eqb r "") && no_newline r
              | None => false
              end
    end in
  here || match s with EmptyString => false | String _ r => http_then_some r end.

Definition parse_crs_url (s : string) : option (string * string * string) :=
  match rev (split_on "/" s) with
  | code :: version :: authority :: crsw :: defw :: restrev =>
      if negb (String.eqb code "") && negb (String.eqb authority "")
         && String.eqb crsw "crs" && String.eqb defw "def"
         && http_then_some (join_with "/" (rev restrev))
         && match restrev with [] => false | _ => true end
      then Some (authority, version, code) else None
  | _ => None
  end.

(** crsURIRegexURN: exactly urn:ogc:def:crs:AUTHORITY:VERSION:CODE, AUTHORITY and CODE non-empty, no colon inside *)
Definition parse_crs_urn (s : string) : option (string * string * string) :=
  match split_on ":" s with
  | [u; o; d; c; authority; version; code] =>
      if String.eqb u "urn" && String.eqb o "ogc" && String.eqb d "def" && String.eqb c "crs"
         && negb (String.eqb authority "") && negb (String.eqb code "")
      then Some (authority, version, code) else None
  | _ => None
  end.

Definition parse_crs_uri (s : string) : option (string * string * string) :=
  match parse_crs_url s with Some r => Some r | None => parse_crs_urn s end.

(** description member shared by the three forms: present => must be a string (null is an error) *)
Definition crs_description (o : obj) : option string :=
  match lookup_last "description" o with
  | None => Some EmptyString
  | Some (JStr s) => Some s
  | Some _ => None
  end.

Definition decodeCrsURI (o : obj) (asString : bool) : option crs :=
  match crs_description o with
  | None => None
  | Some d =>
      match lookup_last "uri" o with
      | Some (JStr u) => match parse_crs_uri u with Some _ => Some (CrsURI d u asString) | None => None end
      | _ => None
      end
  end.

(** marshmallow.UnmarshalFromJSONMap(originalWKT, &ProjJSON): only the types of id.authority / id.code are checked;
    the `required` tags sit on an unexported field of WKTCRS and are never enforced *)
Definition projjson_ok (w : obj) : bool :=
  match lookup_last "id" w with
  | None | Some JNull => true
  | Some (JObj i) =>
      match lookup_last "authority" i with None | Some JNull | Some (JStr _) => true | _ => false end
      && match lookup_last "code" i with None | Some JNull | Some (JStr _) => true | _ => false end
  | Some _ => false
  end.

Definition decodeCrsWKT (o : obj) : option crs :=
  match crs_description o with
  | None => None
  | Some d =>
      match lookup_last "wkt" o with
      | Some (JObj w) => if projjson_ok w then Some (CrsWKT d (canon_obj w)) else None
      | _ => None
      end
  end.

Definition decodeCrsRef (o : obj) : option crs :=
  match crs_description o with
  | None => None
  | Some d =>
      match lookup_last "referenceSystem" o with
      | Some (JObj r) => Some (CrsRef d (canon_obj r))
      | _ => None
      end
  end.

(** unmarshalCRS: URI form, then WKT form, then reference-system form *)
Definition decodeCRS (j : json) : outcome crs :=
  let try (o : obj) (asString : bool) :=
    match decodeCrsURI o asString with
    | Some c => Ok c
    | None => match decodeCrsWKT o with
              | Some c => Ok c
              | None => match decodeCrsRef o with Some c => Ok c | None => Error end
              end
    end in
  match j with
  | JStr s => try [("uri", JStr s)] true
  | JObj o => try o false
  | _ => Error
  end.

(** ** validator `uri`: strip a fragment, then net/url.ParseRequestURI.  Modelled for strings over
    [A-Za-z0-9:/._#+-] (no '%', '?', '@', '[', spaces; control bytes are rejected as url.Parse does). *)
Fixpoint no_ctl (s : string) : bool :=
  match s with
  | EmptyString => true
  | String a r => let n := N_of_ascii a in negb (N.ltb n 32 || N.eqb n 127) && no_ctl r
  end.
Fixpoint before_char (c : ascii) (s : string) : string :=
  match s with EmptyString => EmptyString | String a r => if Ascii.eqb a c then EmptyString else String a (before_char c r) end.
Fixpoint after_char (c : ascii) (s : string) : option string :=
  match s with EmptyString => None | String a r => if Ascii.eqb a c then Some r else after_char c r end.
Definition is_alpha (a : ascii) : bool :=
  let n := N_of_ascii a in (N.leb 65 n && N.leb n 90) || (N.leb 97 n && N.leb n 122).
Definition is_digit (a : ascii) : bool := let n := N_of_ascii a in N.leb 48 n && N.leb n 57.
Definition is_scheme_tail (a : ascii) : bool :=
  is_alpha a || is_digit a || Ascii.eqb a "+"%char || Ascii.eqb a "-"%char || Ascii.eqb a "."%char.

(** url.getScheme: Some (scheme, rest) | None = "missing protocol scheme" *)
Fixpoint scheme_scan (s : string) (first : bool) (acc : string) (whole : string) : option (string * string) :=
  match s with
  | EmptyString => Some (EmptyString, whole)
  | String a r =>
      if Ascii.eqb a ":"%char then (if first then None else Some (acc, r))
      else if is_alpha a then scheme_scan r false (append acc (String a EmptyString)) whole
      else if is_scheme_tail a then (if first then Some (EmptyString, whole) else scheme_scan r false (append acc (String a EmptyString)) whole)
      else Some (EmptyString, whole)
  end.

Fixpoint all_digits (s : string) : bool :=
  match s with EmptyString => true | String a r => is_digit a && all_digits r end.

Fixpoint last_after_colon (s : string) (cur : option string) : option string :=
  match s with
  | EmptyString => cur
  | String a r => if Ascii.eqb a ":"%char then last_after_colon r (Some r) else last_after_colon r cur
  end.

Definition parse_request_uri (s : string) : bool :=
  no_ctl s &&
  match scheme_scan s true EmptyString s with
  | None => false
  | Some (scheme, rest0) =>
      let rest := before_char "?"%char rest0 in
      if negb (has_prefix "/" rest) then negb (String.eqb scheme "")
      else if negb (String.eqb scheme "") && has_prefix "//" rest then
        match drop_prefix "//" rest with
        | Some r => let authority := before_char "/"%char r in
                    match last_after_colon authority None with
                    | Some port => all_digits port
                    | None => true
                    end
        | None => true
        end
      else true
  end.

Definition uri_ok (s : string) : bool :=
  let s1 := before_char "#"%char s in
  negb (String.eqb s1 "") && parse_request_uri s1.

(** ** TwoDBoundingBox.UnmarshalJSON: streaming marshmallow.Unmarshal (members in document order; every
    error stops the lexer), crs from the leftover members, then validator.Struct *)
Record bbacc := MkBBAcc { ba_ll : option (dec * dec); ba_ur : option (dec * dec); ba_axes : option (list string); ba_crs : option json }.

Definition bb_step (a : bbacc) (kv : string * json) : outcome bbacc :=
  let '(k, v) := kv in
  if String.eqb k "lowerLeft" then
    match conv_point v with
    | CVal p => Ok (MkBBAcc (Some p) (ba_ur a) (ba_axes a) (ba_crs a))
    | _ => Error
    end
  else if String.eqb k "upperRight" then
    match conv_point v with
    | CVal p => Ok (MkBBAcc (ba_ll a) (Some p) (ba_axes a) (ba_crs a))
    | _ => Error
    end
  else if String.eqb k "orderedAxes" then
    match conv_strs v with
    | CVal l => Ok (MkBBAcc (ba_ll a) (ba_ur a) (Some l) (ba_crs a))
    | CNil => Ok a | _ => Error
    end
  else if nums_finite v then
    (if String.eqb k "crs" then Ok (MkBBAcc (ba_ll a) (ba_ur a) (ba_axes a) (Some v)) else Ok a)
  else Error.

Fixpoint foldO {A S} (f : S -> A -> outcome S) (l : list A) (s : S) : outcome S :=
  match l with
  | [] => Ok s
  | x :: r => do s' <- f s x; foldO f r s'
  end.

Definition decodeBBox (j : json) : outcome bbox :=
  match j with
  | JNull => Error                       (* nothing is read, then: missing key "crs" *)
  | JObj o =>
      do a <- foldO bb_step o (MkBBAcc None None None None);
      match ba_crs a with
      | None => Error
      | Some cj =>
          do c <- decodeCRS cj;
          match ba_ll a, ba_ur a with
          | Some ll, Some ur =>
              match ba_axes a with
              | Some ax => if Nat.eqb (List.length ax) 2 then Ok (MkBB ll ur (Some ax) c) else Error
              | None => Ok (MkBB ll ur None c)
              end
          | _, _ => Error
          end
      end
  | _ => Error
  end.

(** ** TileMatrixSet.UnmarshalJSON *)
Record topacc := MkTop {
  ta_id : string; ta_title : string; ta_desc : string; ta_kw : option (list string); ta_uri : string;
  ta_axes : option (list string); ta_wkss : string; ta_bbox : option bbox;
  ta_crs : option json; ta_tms : option json
}.

Definition top_str (v : json) (set : string -> topacc) (a : topacc) : outcome topacc :=
  match conv_str v with CVal s => Ok (set s) | CNil => Ok a | _ => Error end.
Definition top_strs (v : json) (set : list string -> topacc) (a : topacc) : outcome topacc :=
  match conv_strs v with CVal l => Ok (set l) | CNil => Ok a | _ => Error end.

Definition top_step (a : topacc) (kv : string * json) : outcome topacc :=
  let '(k, v) := kv in
  if String.eqb k "id" then
    top_str v (fun s => MkTop s (ta_title a) (ta_desc a) (ta_kw a) (ta_uri a) (ta_axes a) (ta_wkss a) (ta_bbox a) (ta_crs a) (ta_tms a)) a
  else if String.eqb k "title" then
    top_str v (fun s => MkTop (ta_id a) s (ta_desc a) (ta_kw a) (ta_uri a) (ta_axes a) (ta_wkss a) (ta_bbox a) (ta_crs a) (ta_tms a)) a
  else if String.eqb k "description" then
    top_str v (fun s => MkTop (ta_id a) (ta_title a) s (ta_kw a) (ta_uri a) (ta_axes a) (ta_wkss a) (ta_bbox a) (ta_crs a) (ta_tms a)) a
  else if String.eqb k "keywords" then
    top_strs v (fun l => MkTop (ta_id a) (ta_title a) (ta_desc a) (Some l) (ta_uri a) (ta_axes a) (ta_wkss a) (ta_bbox a) (ta_crs a) (ta_tms a)) a
  else if String.eqb k "uri" then
    top_str v (fun s => MkTop (ta_id a) (ta_title a) (ta_desc a) (ta_kw a) s (ta_axes a) (ta_wkss a) (ta_bbox a) (ta_crs a) (ta_tms a)) a
  else if String.eqb k "orderedAxes" then
    top_strs v (fun l => MkTop (ta_id a) (ta_title a) (ta_desc a) (ta_kw a) (ta_uri a) (Some l) (ta_wkss a) (ta_bbox a) (ta_crs a) (ta_tms a)) a
  else if String.eqb k "wellKnownScaleSet" then
    top_str v (fun s => MkTop (ta_id a) (ta_title a) (ta_desc a) (ta_kw a) (ta_uri a) (ta_axes a) s (ta_bbox a) (ta_crs a) (ta_tms a)) a
  else if String.eqb k "boundingBox" then
    do b <- decodeBBox v;
    Ok (MkTop (ta_id a) (ta_title a) (ta_desc a) (ta_kw a) (ta_uri a) (ta_axes a) (ta_wkss a) (Some b) (ta_crs a) (ta_tms a))
  else if nums_finite v then
    (if String.eqb k "crs" then
       Ok (MkTop (ta_id a) (ta_title a) (ta_desc a) (ta_kw a) (ta_uri a) (ta_axes a) (ta_wkss a) (ta_bbox a) (Some v) (ta_tms a))
     else if String.eqb k "tileMatrices" then
       Ok (MkTop (ta_id a) (ta_title a) (ta_desc a) (ta_kw a) (ta_uri a) (ta_axes a) (ta_wkss a) (ta_bbox a) (ta_crs a) (Some v))
     else Ok a)
  else Error.

(** validator.Struct(tms): URI omitempty,uri; OrderedAxes omitnil,min=1; WellKnownScaleSet omitempty,uri;
    TileMatrices required,min=1 (CRS is set; the bounding box has been validated by its own decoder) *)
Definition tms_valid (t : tms) : bool :=
  (String.eqb (t_uri t) "" || uri_ok (t_uri t))
  && match t_orderedAxes t with None => true | Some l => Nat.leb 1 (List.length l) end
  && (String.eqb (t_wkss t) "" || uri_ok (t_wkss t))
  && match t_matrices t with [] => false | _ => true end.

Definition top_empty : topacc := MkTop "" "" "" None "" None "" None None None.

Definition decodeTop (a : topacc) : outcome tms :=
  match ta_crs a with
  | None => Error                                               (* missing key "crs" *)
  | Some cj =>
      do c <- decodeCRS cj;
      match ta_tms a with
      | None => Error                                           (* missing key "tileMatrices" *)
      | Some (JArr l) =>
          do ms <- decodeTMs l [];
          let t := MkTMS (ta_id a) (ta_title a) (ta_desc a) (ta_kw a) (ta_uri a) (ta_axes a) (ta_wkss a) (ta_bbox a) c ms in
          if tms_valid t then Ok t else Error
      | Some _ => Error
      end
  end.

Definition decodeTMS (j : json) : outcome tms :=
  match j with
  | JNull => Error
  | JObj o => do a <- foldO top_step o top_empty; decodeTop a
  | _ => Error
  end.

(** ** MarshalJSON *)
Definition jstrs (l : list string) : json := JArr (map JStr l).
Definition jint (z : Z) : json := JNum (Dec z 0).
Definition jpoint (p : dec * dec) : json := JArr [JNum (fst p); JNum (snd p)].

(** an object is printed from its members in struct order; an `omitempty` member with an empty value ([None]) is left out *)
Definition fields := list (string * option json).
Definition collapse (l : fields) : obj :=
  flat_map (fun kv => match snd kv with Some v => [(fst kv, v)] | None => [] end) l.

Definition ostr (s : string) : option json := if String.eqb s "" then None else Some (JStr s).
Definition ostrs (l : option (list string)) : option json :=
  match l with None | Some [] => None | Some l => Some (jstrs l) end.

Definition crs_fields (c : crs) : fields :=
  match c with
  | CrsURI d u _ => [("description", ostr d); ("uri", Some (JStr u))]
  | CrsWKT d w => [("description", ostr d); ("wkt", Some (JObj w))]
  | CrsRef d r => [("description", ostr d); ("referenceSystem", Some (JObj r))]
  end.

Definition encodeCRS (c : crs) : json :=
  match c with
  | CrsURI d u true => JStr u
  | _ => JObj (collapse (crs_fields c))
  end.

Definition corner_str (c : corner) : string :=
  match c with CornerUnset => "" | TopLeft => "topLeft" | BottomLeft => "bottomLeft" end.

Definition encodeVmw (v : vmw) : json :=
  JObj [("coalesce", jint (v_coalesce v)); ("minTileRow", jint (v_minTileRow v)); ("maxTileRow", jint (v_maxTileRow v))].

Definition ovmws (l : option (list vmw)) : option json :=
  match l with None | Some [] => None | Some l => Some (JArr (map encodeVmw l)) end.

Definition tm_fields (m : tileMatrix) : fields :=
  [("id", Some (JStr (tm_id m)));
   ("title", ostr (tm_title m));
   ("description", ostr (tm_description m));
   ("keywords", ostrs (tm_keywords m));
   ("scaleDenominator", Some (JNum (tm_scaleDenominator m)));
   ("cellSize", Some (JNum (tm_cellSize m)));
   ("cornerOfOrigin", ostr (corner_str (tm_corner m)));
   ("pointOfOrigin", Some (match tm_origin m with Some p => jpoint p | None => JNull end));
   ("tileWidth", Some (jint (tm_tileWidth m)));
   ("tileHeight", Some (jint (tm_tileHeight m)));
   ("matrixWidth", Some (jint (tm_matrixWidth m)));
   ("matrixHeight", Some (jint (tm_matrixHeight m)));
   ("variableMatrixWidths", ovmws (tm_vmw m))].

Definition encodeTM (m : tileMatrix) : json := JObj (collapse (tm_fields m)).

Definition bbox_fields (b : bbox) : fields :=
  [("lowerLeft", Some (jpoint (bb_lowerLeft b)));
   ("upperRight", Some (jpoint (bb_upperRight b)));
   ("orderedAxes", ostrs (bb_orderedAxes b));
   ("crs", Some (encodeCRS (bb_crs b)))].

Definition encodeBBox (b : bbox) : json := JObj (collapse (bbox_fields b)).

(** sort.Slice of the matrices by strconv.ParseInt(ID) (errors read as 0); stable insertion sort here: for a
    decoded value the ids are the (distinct) map keys, so there are no ties *)
Definition id_key (m : tileMatrix) : Z := match parse_int (tm_id m) with Some k => k | None => 0 end.
Fixpoint insert_by_id (m : tileMatrix) (l : list tileMatrix) : list tileMatrix :=
  match l with
  | [] => [m]
  | m' :: r => if id_key m <? id_key m' then m :: m' :: r else m' :: insert_by_id m r
  end.
Definition sort_by_id (l : list tileMatrix) : list tileMatrix := fold_right insert_by_id [] l.

Definition tms_fields (t : tms) : fields :=
  [("id", ostr (t_id t));
   ("title", ostr (t_title t));
   ("description", ostr (t_description t));
   ("keywords", ostrs (t_keywords t));
   ("uri", ostr (t_uri t));
   ("orderedAxes", Some (match t_orderedAxes t with None => JNull | Some l => jstrs l end));
   ("wellKnownScaleSet", ostr (t_wkss t));
   ("boundingBox", match t_bbox t with None => None | Some b => Some (encodeBBox b) end);
   ("crs", Some (encodeCRS (t_crs t)));
   ("tileMatrices", Some (JArr (map encodeTM (sort_by_id (map snd (t_matrices t))))))].

Definition encodeTMS (t : tms) : json := JObj (collapse (tms_fields t)).

(** ** pointindex.IsQuadTree *)
Inductive verdict :=
| Accept
| Reject (check : nat)   (* which check failed: index into gen_quadtree_checks (the distinct messages of IsQuadTree:
                            4 = "tile matrix IDs should be a range with step 1 starting with 0" is returned both for a
                            first id that is not 0 and for a step that is not 1); 10 = strconv.Atoi error;
                            11 = MatrixBoundingBox error (no matrix 0 / axis order unknown);
                            12 = no tile matrices requested; 13 = a requested id is not in the set *)
| VPanic.

(** slices.Sort(maps.Keys(tms.TileMatrices)) and the lookup of each key *)
Fixpoint insert_by_key (e : Z * tileMatrix) (l : list (Z * tileMatrix)) : list (Z * tileMatrix) :=
  match l with
  | [] => [e]
  | e' :: r => if fst e <? fst e' then e :: e' :: r else e' :: insert_by_key e r
  end.
Definition sorted_matrices (t : tms) : list (Z * tileMatrix) := fold_right insert_by_key [] (t_matrices t).

Definition vmw_nonempty (m : tileMatrix) : bool :=
  match tm_vmw m with None | Some [] => false | Some (_ :: _) => true end.

Definition point_feqb (a b : dec * dec) : bool := dec_feqb (fst a) (fst b) && dec_feqb (snd a) (snd b).

Definition corner_eqb (a b : corner) : bool :=
  match a, b with
  | CornerUnset, CornerUnset | TopLeft, TopLeft | BottomLeft, BottomLeft => true
  | _, _ => false
  end.

Definition fnum (d : dec) : Q := match f64_dec d with FNum q => q | FInf _ => 0%Q end.

(** mathhelp.FBetweenInc(previous.CellSize / current.CellSize, lo, hi), as float64 arithmetic: the quotient
    of the two float64 values rounded to float64, against the float64 images of the two literals *)
Definition ratio_ok (prev cur : dec) : bool :=
  match f64_dec prev, f64_dec cur with
  | FNum a, FNum b =>
      if Qeq_bool b 0 then false                       (* +-Inf or NaN: not between *)
      else match f64 (a / b) with
           | FNum r =>
               let lo := fnum gen_quadtree_ratio_lo in
               let hi := fnum gen_quadtree_ratio_hi in
               if Qle_bool lo hi then Qle_bool lo r && Qle_bool r hi else Qle_bool hi r && Qle_bool r lo
           | FInf _ => false
           end
  | _, _ => false
  end.

Definition two64 : Z := 2 ^ 64.

Definition check_single (k : Z) (m : tileMatrix) : option nat :=
  if negb (tm_matrixHeight m =? tm_matrixWidth m) then Some 0%nat
  else if negb (tm_tileHeight m =? tm_tileWidth m) then Some 1%nat
  else match parse_int (tm_id m) with
       | None => Some 10%nat
       | Some n => if negb (n =? k) then Some 2%nat
                   else if vmw_nonempty m then Some 3%nat else None
       end.

Definition check_pair (pk : Z) (pm : tileMatrix) (k : Z) (m : tileMatrix) : verdict :=
  if negb (k =? pk + 1) then Reject 4
  else match tm_origin m, tm_origin pm with
       | Some o, Some po =>
           if negb (point_feqb o po) then Reject 5
           else if negb (corner_eqb (tm_corner m) (tm_corner pm)) then Reject 6
           else if negb (tm_tileHeight m =? tm_tileHeight pm) then Reject 7
           else if negb (tm_matrixHeight m =? (2 * tm_matrixHeight pm) mod two64) then Reject 8
           else if negb (ratio_ok (tm_cellSize pm) (tm_cellSize m)) then Reject 9
           else Accept
       | _, _ => VPanic                                  (* nil pointer dereference *)
       end.

Fixpoint iqt_loop (prev : option (Z * tileMatrix)) (l : list (Z * tileMatrix)) : verdict :=
  match l with
  | [] => Accept
  | (k, m) :: r =>
      match check_single k m with
      | Some c => Reject c
      | None =>
          match prev with
          | None =>
              (* since the repair of F22 (/repo fix-quadtree): the first tile matrix must be tile matrix 0 *)
              if negb (k =? 0) then Reject 4 else iqt_loop (Some (k, m)) r
          | Some (pk, pm) =>
              match check_pair pk pm k m with
              | Accept => iqt_loop (Some (k, m)) r
              | v => v
              end
          end
      end
  end.

Definition isQuadTree (t : tms) : verdict := iqt_loop None (sorted_matrices t).

(** ** Axis order: IsLatLon, axisOrderIsLatLon, ToXYPoint *)
Definition crs_avc (c : crs) : outcome (string * string * string) :=   (* Authority(), Version(), Code() *)
  match c with
  | CrsURI _ u _ => match parse_crs_uri u with Some r => Ok r | None => Ok (EmptyString, EmptyString, EmptyString) end
  | CrsWKT _ w =>
      let s k := match lookup_last "id" w with
                 | Some (JObj i) => match lookup_last k i with Some (JStr x) => x | _ => EmptyString end
                 | _ => EmptyString
                 end in
      Ok (s "authority", EmptyString, s "code")
  | CrsRef _ _ => Panic                                   (* "not implemented" *)
  end.

Definition isLatLon (c : crs) : outcome bool :=
  do avc <- crs_avc c;
  let '(a, v, code) := avc in
  if String.eqb a "OGC" && String.eqb v "1.3" && String.eqb code "CRS84" then Ok false
  else if negb (String.eqb (to_lower a) "epsg") then Error
  else match parse_uint code with
       | None => Error
       | Some n =>
           if existsb (Z.eqb n) gen_epsg_latlon_true then Ok true
           else if existsb (Z.eqb n) gen_epsg_latlon_false then Ok false
           else Error
       end.

Definition axisOrderIsLatLon (axes : option (list string)) : outcome bool :=
  match axes with
  | Some (a :: b :: _) =>
      let s := to_lower (append a (String ","%char b)) in
      if has_prefix "n,e" s || has_prefix "y,x" s || has_prefix "lat,lon" s || has_prefix "n(y),e(x)" s then Ok true
      else if has_prefix "e,n" s || has_prefix "x,y" s || has_prefix "lon,lat" s || has_prefix "e(x),n(y)" s then Ok false
      else Error
  | _ => Error
  end.

(** whether ToXYPoint swaps the coordinates *)
Definition tms_swaps (t : tms) : outcome bool :=
  match isLatLon (t_crs t) with
  | Ok b => Ok b
  | Panic => Panic
  | _ => axisOrderIsLatLon (t_orderedAxes t)
  end.

Definition toXY {A} (swap : bool) (p : A * A) : A * A := if swap then (snd p, fst p) else p.

(** ** Tile addressing over exact rationals (FromNative, ToNative, MatrixSize, MatrixBoundingBox) *)
Definition qpoint (p : dec * dec) : Q * Q := (dq (fst p), dq (snd p)).
Definition tileSpanX (m : tileMatrix) : Q := (inject_Z (tm_tileWidth m) * dq (tm_cellSize m))%Q.
Definition tileSpanY (m : tileMatrix) : Q := (inject_Z (tm_tileHeight m) * dq (tm_cellSize m))%Q.

Definition qfloor (q : Q) : Z := Qfloor q.

(** FromNative for one matrix; [o] = point of origin in x,y order *)
Definition fromNativeTM (m : tileMatrix) (o : Q * Q) (pt : Q * Q) : option (Z * Z) :=
  let x := ((fst pt - fst o) / tileSpanX m)%Q in
  if Qltb x 0 then None
  else let ux := qfloor x in
       if tm_matrixWidth m <=? ux then None
       else
         let y := match tm_corner m with
                  | BottomLeft => ((snd pt - snd o) / tileSpanY m)%Q
                  | _ => ((snd o - snd pt) / tileSpanY m)%Q
                  end in
         if Qltb y 0 then None
         else let uy := qfloor y in
              if tm_matrixHeight m <=? uy then None else Some (ux, uy).

(** ToNative: the TOP-LEFT corner of tile (x, y), for both conventions; x = width and y = height are allowed *)
Definition toNativeTM (m : tileMatrix) (o : Q * Q) (tile : Z * Z) : option (Q * Q) :=
  let '(x, y) := tile in
  if (tm_matrixWidth m <? x) || (tm_matrixHeight m <? y) then None
  else Some ((fst o + inject_Z x * tileSpanX m)%Q,
             match tm_corner m with
             | BottomLeft => (snd o + inject_Z (y + 1) * tileSpanY m)%Q
             | _ => (snd o - inject_Z y * tileSpanY m)%Q
             end).

Definition matrixSizeTM (m : tileMatrix) : Q * Q :=
  ((inject_Z (tm_matrixWidth m) * inject_Z (tm_tileWidth m) * dq (tm_cellSize m))%Q,
   (inject_Z (tm_matrixHeight m) * inject_Z (tm_tileHeight m) * dq (tm_cellSize m))%Q).

(** (bottomLeft, topRight) *)
Definition matrixBBoxTM (m : tileMatrix) (o : Q * Q) : (Q * Q) * (Q * Q) :=
  let '(w, h) := matrixSizeTM m in
  match tm_corner m with
  | BottomLeft => ((fst o, snd o), ((fst o + w)%Q, (snd o + h)%Q))
  | _ => ((fst o, (snd o - h)%Q), ((fst o + w)%Q, snd o))
  end.

Fixpoint find_tm (k : Z) (l : list (Z * tileMatrix)) : option tileMatrix :=
  match l with
  | [] => None
  | (k', m) :: r => if k =? k' then Some m else find_tm k r
  end.

(** the set-level functions with their panics: variable widths, nil origin, undeterminable axis order *)
Definition originXY (t : tms) (m : tileMatrix) : outcome (Q * Q) :=
  match tm_origin m with
  | None => Panic
  | Some p => do s <- tms_swaps t; Ok (toXY s (qpoint p))
  end.

Definition fromNative (t : tms) (z : Z) (pt : Q * Q) : outcome (option (Z * Z)) :=
  match find_tm z (t_matrices t) with
  | None => Ok None
  | Some m =>
      if vmw_nonempty m then Panic
      else match originXY t m with
           | Ok o => Ok (fromNativeTM m o pt)
           | _ => Panic                                  (* panic(fmt.Errorf("could not get pointOfOrigin ...")) *)
           end
  end.

Definition toNative (t : tms) (z : Z) (tile : Z * Z) : outcome (option (Q * Q)) :=
  match find_tm z (t_matrices t) with
  | None => Ok None
  | Some m =>
      if (tm_matrixWidth m <? fst tile) || (tm_matrixHeight m <? snd tile) then Ok None
      else match originXY t m with
           | Ok o => Ok (toNativeTM m o tile)
           | _ => Panic
           end
  end.

(** MatrixBoundingBox: error for a missing id or an undeterminable axis order; panics in MatrixSize *)
Definition matrixBoundingBox (t : tms) (z : Z) : outcome ((Q * Q) * (Q * Q)) :=
  match find_tm z (t_matrices t) with
  | None => Error
  | Some m =>
      if vmw_nonempty m then Panic
      else do o <- originXY t m; Ok (matrixBBoxTM m o)
  end.

(** ** Level arithmetic (pointindex.FromTileMatrixSet) and validation (main.validateTileMatrixSet) *)
(** uint(math.Log2(float64(w))): floor(log2 w) for 1 <= w (exact below 2^47); w = 0 gives uint(-Inf) *)
Definition go_log2_uint (w : Z) : Z := if w <=? 0 then 2 ^ 63 else Z.log2 w.

Definition levelDiff (rootTileWidth : Z) : Z :=
  (go_log2_uint rootTileWidth + go_log2_uint gen_VectorTileInternalPixelResolution) mod two64.

(** deepestLevel := uint(deepestTMID) + levelDiff  (uint arithmetic) *)
Definition deepestLevel (rootTileWidth deepestTMID : Z) : Z :=
  (deepestTMID mod two64 + levelDiff rootTileWidth) mod two64.

(** the level of tile matrix [id] of a quadtree set whose root tile is [tw] pixels wide *)
Definition level (tw id : Z) : Z := id + Z.log2 tw + Z.log2 gen_VectorTileInternalPixelResolution.

(** mathhelp.Pow2 on uint: 1 << n is 0 for n >= 64 *)
Definition go_pow2 (n : Z) : Z := if n <? 64 then 2 ^ n else 0.

(** the verdict of pointindex.DeviationStats(tms, deepest) (the numbers it returns are only logged) *)
Definition deviationVerdict (t : tms) (deepest : Z) : verdict :=
  match matrixBoundingBox t 0 with
  | Error => Reject 11
  | Panic | ErrorOrPanic => VPanic
  | Ok _ =>
      match find_tm 0 (t_matrices t) with
      | None => Reject 11
      | Some root =>
          if go_pow2 (deepestLevel (tm_tileWidth root) deepest) =? 0 then VPanic   (* integer divide by zero *)
          else Accept
      end
  end.

Definition max_list (l : list Z) : option Z :=
  match l with [] => None | x :: r => Some (fold_left Z.max r x) end.

(** main.validateTileMatrixSet, in the order of gen_validate_shape: IsQuadTree; the requested ids must be non-empty
    and must all be tile matrices of the set (errors 12, 13); slices.Max; DeviationStats *)
Definition ids_exist (t : tms) (ids : list Z) : bool :=
  forallb (fun i => match find_tm i (t_matrices t) with Some _ => true | None => false end) ids.

Definition validate (t : tms) (ids : list Z) : verdict :=
  match isQuadTree t with
  | Accept =>
      match ids with
      | [] => Reject 12                                  (* "no tile matrices given" *)
      | _ =>
          if ids_exist t ids then
            match max_list ids with
            | None => VPanic                             (* slices.Max: empty list -- unreachable here *)
            | Some d => deviationVerdict t d
            end
          else Reject 13                                 (* "tile matrix %d does not exist in tile matrix set" *)
      end
  | v => v
  end.

(** the internal pixel size for tile matrix z: span of matrix 0 divided by 2^level *)
Definition pixelSize (t : tms) (z : Z) : option Q :=
  match find_tm 0 (t_matrices t) with
  | None => None
  | Some root => Some (fst (matrixSizeTM root) / pow2Q (level (tm_tileWidth root) z))%Q
  end.
