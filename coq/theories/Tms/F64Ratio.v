(** * binary64 image: rounding error near 2, and what the cell size ratio test of IsQuadTree means for the exact quotient *)
From Coq Require Import ZArith QArith Qpower Qabs Qreduction String List Bool Lia Lqa.
From Texel Require Import Tms.Json Tms.Model Tms.F64Facts.
From Texel.Gen Require Import TmsData.
Import ListNotations.
Open Scope Z_scope.

(** nearest integer: within one half *)
Lemma rhe_bounds : forall a b, 0 < b ->
  2 * a - b <= 2 * b * round_half_even a b /\ 2 * b * round_half_even a b <= 2 * a + b.
Proof.
  intros a b Hb. unfold round_half_even.
  assert (D := Z.div_mod a b ltac:(lia)). assert (M := Z.mod_pos_bound a b Hb).
  set (f := a / b) in *. set (r := a mod b) in *.
  assert (E : a - f * b = r) by lia. rewrite E.
  destruct (Z.ltb_spec (2 * r) b); [nia|].
  destruct (Z.ltb_spec b (2 * r)); [nia|].
  destruct (Z.even f); nia.
Qed.

Lemma rhe_nonneg : forall a b, 0 <= a -> 0 < b -> 0 <= round_half_even a b.
Proof.
  intros a b Ha Hb. destruct (rhe_bounds a b Hb) as [L _].
  destruct (Z_lt_le_dec (round_half_even a b) 0); [|assumption]. nia.
Qed.

(** floor(log2(n/d)): the lower bound *)
Lemma ilog2_lower : forall n d, 0 < n -> 0 < d ->
  let e := ilog2_frac n d in (0 <= e -> d * 2 ^ e <= n) /\ (e < 0 -> d <= n * 2 ^ (- e)).
Proof.
  intros n d Hn Hd. unfold ilog2_frac.
  destruct (Z.log2_spec n Hn) as [N1 N2]. destruct (Z.log2_spec d Hd) as [D1 D2].
  assert (LN := Z.log2_nonneg n). assert (LD := Z.log2_nonneg d).
  set (ln := Z.log2 n) in *. set (ld := Z.log2 d) in *.
  destruct (Z.leb_spec 0 (ln - ld)) as [E0|E0].
  - destruct (Z.leb_spec (d * 2 ^ (ln - ld)) n) as [T|T].
    + cbv zeta. split; [intros _; exact T|lia].
    + cbv zeta. split.
      * intros E1. assert (P : 2 ^ ln = 2 ^ (ln - ld - 1) * 2 ^ (ld + 1)) by (rewrite <- Z.pow_add_r by lia; f_equal; lia).
        assert (0 < 2 ^ (ln - ld - 1)) by (apply Z.pow_pos_nonneg; lia). rewrite Z.pow_succ_r in D2 by lia.
        replace (ld + 1) with (Z.succ ld) in P by lia. rewrite Z.pow_succ_r in P by lia. nia.
      * intros E1. assert (ln = ld) by lia. replace (- (ln - ld - 1)) with 1 by lia. rewrite Z.pow_succ_r in D2 by lia.
        replace ld with ln in D2 by lia. change (2 ^ 1) with 2. lia.
  - destruct (Z.leb_spec d (n * 2 ^ (- (ln - ld)))) as [T|T].
    + cbv zeta. split; [lia|intros _; exact T].
    + cbv zeta. split; [lia|]. intros _. replace (- (ln - ld - 1)) with (ld - ln + 1) by lia.
      assert (P : 2 ^ (ld + 1) = 2 ^ ln * 2 ^ (ld - ln + 1)) by (rewrite <- Z.pow_add_r by lia; f_equal; lia).
      assert (0 < 2 ^ (ld - ln + 1)) by (apply Z.pow_pos_nonneg; lia).
      replace (Z.succ ld) with (ld + 1) in D2 by lia. nia.
Qed.

Lemma pow2Q_neg : forall k, k < 0 -> (pow2Q k == 1 / inject_Z (2 ^ (- k)))%Q.
Proof.
  intros k H. unfold pow2Q. replace k with (- (- k)) at 1 by lia. rewrite Qpower_opp.
  rewrite <- Zpower_Qpower by lia. unfold Qdiv. rewrite Qmult_1_l. reflexivity.
Qed.

(** two fractions whose cross difference is at most half a denominator are within 1/(2P) *)
Lemma frac_close : forall m n d P, 0 < d -> 2 ^ 50 <= P ->
  2 * n * P - d <= 2 * d * m -> 2 * d * m <= 2 * n * P + d ->
  (Qabs (inject_Z m / inject_Z P - inject_Z n / inject_Z d) <= 1 # (2 ^ 51))%Q.
Proof.
  intros m n d P Hd HP L U.
  assert (P0 : 0 < P) by (assert (0 < 2 ^ 50) by (apply Z.pow_pos_nonneg; lia); lia).
  destruct P as [|p|p]; try lia. destruct d as [|q|q]; try lia.
  rewrite <- !Qmake_Qdiv. unfold Qminus, Qplus, Qopp, Qabs, Qle. cbn [Qnum Qden].
  change (Z.pos (2 ^ 51)) with (2 ^ 51). rewrite Pos2Z.inj_mul.
  assert (E : Z.pos p >= 2 ^ 50) by lia. set (pp := Z.pos p) in *. set (qq := Z.pos q) in *.
  assert (A : Z.abs (m * qq + - n * pp) * 2 <= qq) by lia.
  change (2 ^ 51) with (2 * 2 ^ 50). nia.
Qed.

Lemma f64_pos_value : forall n d r, f64_pos n d = FNum r ->
  let e := ilog2_frac n d in
  let k := Z.max (e - 52) (-1074) in
  let m := if 0 <=? k then round_half_even n (d * 2 ^ k) else round_half_even (n * 2 ^ (- k)) d in
  (r == inject_Z m * pow2Q k)%Q.
Proof.
  intros n d r H e k m. unfold f64_pos in H. fold e in H. fold k in H. fold m in H.
  destruct (Qle_bool (pow2Q 1024) (inject_Z m * pow2Q k)); [discriminate|].
  apply (f_equal (fun f => match f with FNum q => q | FInf _ => 0%Q end)) in H. cbv beta iota in H.
  rewrite <- H. apply Qred_correct.
Qed.

(** a float64 between 1 and 3 is within 2^-51 of the rational it was rounded from *)
Lemma f64_pos_near : forall n d r, 0 < n -> 0 < d -> f64_pos n d = FNum r ->
  (1 <= r)%Q -> (r <= 3)%Q -> (Qabs (r - inject_Z n / inject_Z d) <= 1 # (2 ^ 51))%Q.
Proof.
  intros n d r Hn Hd H R1 R3. assert (V := f64_pos_value n d r H). cbv zeta in V.
  destruct (ilog2_lower n d Hn Hd) as [LO1 LO2]. cbv zeta in LO1, LO2.
  set (e := ilog2_frac n d) in *.
  destruct (Z_lt_le_dec e 3) as [E|E].
  - (* the useful case: e <= 2, spacing at most 2^-50 *)
    assert (K : Z.max (e - 52) (-1074) < 0) by lia. set (k := Z.max (e - 52) (-1074)) in *.
    destruct (Z.leb_spec 0 k); [lia|].
    assert (KP : 2 ^ 50 <= 2 ^ (- k)) by (apply Z.pow_le_mono_r; lia).
    assert (P0 : 0 < 2 ^ (- k)) by (apply Z.pow_pos_nonneg; lia).
    destruct (rhe_bounds (n * 2 ^ (- k)) d Hd) as [B1 B2].
    set (m := round_half_even (n * 2 ^ (- k)) d) in *.
    assert (RR : (r == inject_Z m / inject_Z (2 ^ (- k)))%Q).
    { rewrite V, (pow2Q_neg k K). field. intro X. unfold Qeq in X. cbn [Qnum Qden inject_Z] in X. lia. }
    rewrite RR. apply frac_close; try assumption; lia.
  - (* e >= 3: the float would be at least 8 *)
    exfalso. assert (K : Z.max (e - 52) (-1074) = e - 52) by lia. rewrite K in V.
    specialize (LO1 ltac:(lia)).
    destruct (Z.leb_spec 0 (e - 52)) as [K0|K0].
    + assert (PK : 0 < 2 ^ (e - 52)) by (apply Z.pow_pos_nonneg; lia).
      assert (PE : 2 ^ e = 2 ^ (e - 52) * 2 ^ 52) by (rewrite <- Z.pow_add_r by lia; f_equal; lia).
      destruct (rhe_bounds n (d * 2 ^ (e - 52)) ltac:(nia)) as [B1 _].
      set (m := round_half_even n (d * 2 ^ (e - 52))) in *.
      assert (M : 2 ^ 52 <= m) by (change (2 ^ 52) with 4503599627370496 in *; nia).
      rewrite (pow2Q_nonneg (e - 52) K0) in V. rewrite <- inject_Z_mult in V.
      rewrite V in R3. change 3%Q with (inject_Z 3) in R3. rewrite <- Zle_Qle in R3.
      change (2 ^ 52) with 4503599627370496 in *. nia.
    + assert (PK : 0 < 2 ^ (- (e - 52))) by (apply Z.pow_pos_nonneg; lia).
      assert (PE : 2 ^ e * 2 ^ (- (e - 52)) = 2 ^ 52) by (rewrite <- Z.pow_add_r by lia; f_equal; lia).
      destruct (rhe_bounds (n * 2 ^ (- (e - 52))) d Hd) as [B1 _].
      set (m := round_half_even (n * 2 ^ (- (e - 52))) d) in *.
      assert (M : 2 ^ 52 <= m) by (change (2 ^ 52) with 4503599627370496 in *; nia).
      assert (PS : 2 ^ (- (e - 52)) <= 2 ^ 49) by (apply Z.pow_le_mono_r; lia).
      assert (RR : (r == inject_Z m / inject_Z (2 ^ (- (e - 52))))%Q).
      { rewrite V, (pow2Q_neg (e - 52) K0). field. intro X. unfold Qeq in X. cbn [Qnum Qden inject_Z] in X. lia. }
      rewrite RR in R3.
      assert (Q0 : (0 < inject_Z (2 ^ (- (e - 52))))%Q) by (change 0%Q with (inject_Z 0); rewrite <- Zlt_Qlt; exact PK).
      apply (Qmult_le_r _ _ _ Q0) in R3.
      assert (X : (inject_Z m / inject_Z (2 ^ (- (e - 52))) * inject_Z (2 ^ (- (e - 52))) == inject_Z m)%Q) by (field; lra).
      rewrite X in R3. change 3%Q with (inject_Z 3) in R3. rewrite <- inject_Z_mult, <- Zle_Qle in R3.
      change (2 ^ 52) with 4503599627370496 in *. change (2 ^ 49) with 562949953421312 in *. lia.
Qed.

Lemma f64_pos_nonneg : forall n d r, 0 < n -> 0 < d -> f64_pos n d = FNum r -> (0 <= r)%Q.
Proof.
  intros n d r Hn Hd H. assert (V := f64_pos_value n d r H). cbv zeta in V. rewrite V.
  set (k := Z.max (ilog2_frac n d - 52) (-1074)) in *.
  apply Qmult_le_0_compat.
  - change 0%Q with (inject_Z 0). rewrite <- Zle_Qle.
    destruct (Z.leb_spec 0 k).
    + assert (0 < 2 ^ k) by (apply Z.pow_pos_nonneg; lia). apply rhe_nonneg; nia.
    + assert (0 <= 2 ^ (- k)) by (apply Z.pow_nonneg; lia). apply rhe_nonneg; [nia|exact Hd].
  - apply Qlt_le_weak. unfold pow2Q. apply Qpower_0_lt. reflexivity.
Qed.

(** ** what the ratio test of IsQuadTree means for the exact quotient of the two float64 cell sizes *)
Theorem ratio_ok_bounds : forall prev cur, ratio_ok prev cur = true ->
  exists a b, f64_dec prev = FNum a /\ f64_dec cur = FNum b /\ ~ (b == 0)%Q /\
    ((199 # 100) - (1 # 2 ^ 50) <= a / b)%Q /\ (a / b <= (201 # 100) + (1 # 2 ^ 50))%Q.
Proof.
  intros prev cur H. unfold ratio_ok in H.
  destruct (f64_dec prev) as [a|]; [|discriminate]. destruct (f64_dec cur) as [b|]; [|discriminate].
  destruct (Qeq_bool b 0) eqn:EB; [discriminate|].
  assert (NB : ~ (b == 0)%Q) by (intro X; apply Qeq_bool_iff in X; congruence).
  exists a, b. split; [reflexivity|]. split; [reflexivity|]. split; [exact NB|].
  destruct (f64 (a / b)) as [r|] eqn:EF; [|discriminate].
  assert (LO : fnum gen_quadtree_ratio_lo = (8962163258467287 # 4503599627370496)%Q) by (vm_compute; reflexivity).
  assert (HI : fnum gen_quadtree_ratio_hi = (1131529406376837 # 562949953421312)%Q) by (vm_compute; reflexivity).
  rewrite LO, HI in H.
  change (Qle_bool (8962163258467287 # 4503599627370496) (1131529406376837 # 562949953421312)) with true in H. cbv iota in H.
  apply andb_true_iff in H. destruct H as [H1 H2]. apply Qle_bool_iff in H1. apply Qle_bool_iff in H2.
  set (x := (a / b)%Q) in *.
  unfold f64 in EF.
  destruct (Z.eqb_spec (Qnum x) 0) as [Z0|Z0].
  { exfalso. inversion EF; subst r. revert H1. unfold Qle. cbn. lia. }
  destruct (Z.ltb_spec 0 (Qnum x)) as [P|P].
  - assert (R1 : (1 <= r)%Q) by (eapply Qle_trans; [|exact H1]; unfold Qle; cbn; lia).
    assert (R3 : (r <= 3)%Q) by (eapply Qle_trans; [exact H2|]; unfold Qle; cbn; lia).
    assert (N := f64_pos_near (Qnum x) (Z.pos (Qden x)) r P ltac:(lia) EF R1 R3).
    assert (XE : (inject_Z (Qnum x) / inject_Z (Z.pos (Qden x)) == x)%Q) by (rewrite <- Qmake_Qdiv; destruct x; reflexivity).
    rewrite XE in N. apply Qabs_Qle_condition in N. destruct N as [N1 N2].
    assert (C1 : ((199 # 100) - (1 # 2 ^ 50) <= (8962163258467287 # 4503599627370496) - (1 # 2 ^ 51))%Q) by (unfold Qle; cbn; lia).
    assert (C2 : ((1131529406376837 # 562949953421312) + (1 # 2 ^ 51) <= (201 # 100) + (1 # 2 ^ 50))%Q) by (unfold Qle; cbn; lia).
    change (2 ^ 51)%positive with 2251799813685248%positive in *. change (2 ^ 50)%positive with 1125899906842624%positive in *.
    clearbody x. clear - H1 H2 N1 N2 C1 C2. split.
    + eapply Qle_trans; [exact C1|]. lra.
    + eapply Qle_trans; [|exact C2]. clear C1 C2 H1 N2. lra.
  - exfalso. destruct (f64_pos (- Qnum x) (Z.pos (Qden x))) as [r'|] eqn:EP; [|discriminate].
    assert (NN := f64_pos_nonneg (- Qnum x) (Z.pos (Qden x)) r' ltac:(lia) ltac:(lia) EP).
    apply (f_equal (fun f => match f with FNum q => q | FInf _ => 0%Q end)) in EF. cbv beta iota in EF.
    assert (RR : (r == - r')%Q) by (rewrite <- EF; apply Qred_correct).
    assert ((0 < 8962163258467287 # 4503599627370496)%Q) by reflexivity. lra.
Qed.

Theorem ratio_beyond_tolerance_fails : forall prev cur a b,
  f64_dec prev = FNum a -> f64_dec cur = FNum b ->
  (a / b < (199 # 100) - (1 # 2 ^ 50))%Q \/ ((201 # 100) + (1 # 2 ^ 50) < a / b)%Q ->
  ratio_ok prev cur = false.
Proof.
  intros prev cur a b Ha Hb H. destruct (ratio_ok prev cur) eqn:E; [|reflexivity]. exfalso.
  destruct (ratio_ok_bounds prev cur E) as [a' [b' [Ha' [Hb' [_ [L U]]]]]].
  rewrite Ha in Ha'. rewrite Hb in Hb'. inversion Ha'; inversion Hb'; subst a' b'.
  destruct H as [H|H]; [apply (Qlt_not_le _ _ H L)|apply (Qlt_not_le _ _ H U)].
Qed.
